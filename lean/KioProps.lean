import Kio.Props.C11
