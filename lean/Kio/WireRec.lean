import Kio.Wire
import Kio.Model.Records
import Kio.Spec.Batch
/-! Conversion between record structures and line-protocol values (dataclass field order). -/
namespace Kio

def optBytesV : Option Bytes → Value
  | none => .none
  | some b => .bytes b

def vOptBytes : Value → Option (Option Bytes)
  | .none => some none
  | .bytes b => some (some b)
  | _ => Option.none

def RecHeader.toValue (h : RecHeader) : Value := .entity [optBytesV h.key, optBytesV h.value]
def Record.toValue (r : Record) : Value :=
  .entity [.int r.attributes, .datetime r.timestampUs, .int r.offset, optBytesV r.key,
           optBytesV r.value, .tuple (r.headers.map RecHeader.toValue)]
def RecordBatch.toValue (b : RecordBatch) : Value :=
  .entity [.int b.baseOffset, .int b.batchLength, .int b.partitionLeaderEpoch, .int b.crc,
           .int b.attributes, .int b.lastOffsetDelta, .int b.baseTimestamp, .int b.maxTimestamp,
           .int b.producerId, .int b.producerEpoch, .int b.baseSequence,
           .tuple (b.records.map Record.toValue)]

def RecHeader.ofValue : Value → Option RecHeader
  | .entity [k, v] => do pure { key := ← vOptBytes k, value := ← vOptBytes v }
  | _ => none
def Record.ofValue : Value → Option Record
  | .entity [.int a, .datetime t, .int o, k, v, .tuple hs] => do
    pure { attributes := a, timestampUs := t, offset := o, key := ← vOptBytes k,
           value := ← vOptBytes v, headers := ← hs.mapM RecHeader.ofValue }
  | _ => none
def RecordBatch.ofValue : Value → Option RecordBatch
  | .entity [.int a, .int b, .int c, .int d, .int e, .int f, .int g, .int h, .int i, .int j, .int k, .tuple rs] => do
    pure { baseOffset := a, batchLength := b, partitionLeaderEpoch := c, crc := d, attributes := e,
           lastOffsetDelta := f, baseTimestamp := g, maxTimestamp := h, producerId := i,
           producerEpoch := j, baseSequence := k, records := ← rs.mapM Record.ofValue }
  | _ => none
def NewRecordBatch.ofValue : Value → Option NewRecordBatch
  | .entity [.int a, .int b, .int c, .int d, .tuple rs, .int e] => do
    pure { producerId := a, producerEpoch := b, partitionLeaderEpoch := c, baseSequence := d,
           records := ← rs.mapM Record.ofValue, attributes := e }
  | _ => none

namespace Spec
def WireHeader.toValue (h : WireHeader) : Value := .entity [optBytesV h.key, optBytesV h.value]
def WireRecord.toValue (r : WireRecord) : Value :=
  .entity [.int r.attributes, .int r.timestampMs, .int r.offset, optBytesV r.key, optBytesV r.value,
           .tuple (r.headers.map WireHeader.toValue)]
def WireBatch.toValue (b : WireBatch) : Value :=
  .entity [.int b.baseOffset, .int b.partitionLeaderEpoch, .int b.attributes, .int b.lastOffsetDelta,
           .int b.baseTimestamp, .int b.maxTimestamp, .int b.producerId, .int b.producerEpoch,
           .int b.baseSequence, .tuple (b.records.map WireRecord.toValue)]
def WireHeader.ofValue : Value → Option WireHeader
  | .entity [k, v] => do pure { key := ← vOptBytes k, value := ← vOptBytes v }
  | _ => none
def WireRecord.ofValue : Value → Option WireRecord
  | .entity [.int a, .int t, .int o, k, v, .tuple hs] => do
    pure { attributes := a, timestampMs := t, offset := o, key := ← vOptBytes k,
           value := ← vOptBytes v, headers := ← hs.mapM WireHeader.ofValue }
  | _ => none
def WireBatch.ofValue : Value → Option WireBatch
  | .entity [.int a, .int c, .int e, .int f, .int g, .int h, .int i, .int j, .int k, .tuple rs] => do
    pure { baseOffset := a, partitionLeaderEpoch := c, attributes := e, lastOffsetDelta := f,
           baseTimestamp := g, maxTimestamp := h, producerId := i, producerEpoch := j,
           baseSequence := k, records := ← rs.mapM WireRecord.ofValue }
  | _ => none
end Spec
end Kio
