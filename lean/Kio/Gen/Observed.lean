import Kio.Gen.Def
import Kio.Model.Dispatch
/-!
# The generator's name-based special cases, tied to the code row by row

The translator calls the real `codegen.parser.PrimitiveField.parse_obj` on synthetic fields
`{name, type}` for every candidate name (the model's special names, every string constant found in
`codegen/parser.py`'s name tables, and controls) and every primitive type name, and writes down the
resulting Kafka type and field name, or that parsing raised.  `resolveOk` compares the rows with
`Gen.resolvePrim`.
-/
namespace Kio.Gen
open Kio

structure ResolveRow where
  name : String
  prim : PrimT
  out : Option (String × String)      -- (Kafka type name, field name after suffix handling)
deriving Repr

def strOfChars' (cs : List Nat) : String := String.ofList (cs.map Char.ofNat)

def resolveRowOk (r : ResolveRow) : Bool :=
  match resolvePrim (strOf r.name) r.prim with
  | .ok (k, n) => r.out == some (k.pyName, strOfChars' n)
  | .error _ => r.out == none

def resolveOk (rows : List ResolveRow) : Bool := rows.all resolveRowOk

/-- every special name of the model occurs among the observed rows (the comparison is not vacuous) -/
def resolveCovers (rows : List ResolveRow) : Bool :=
  (timedeltaNames ++ datetimeNames ++ errorCodeNames).all (fun n => rows.any (fun r => strOf r.name == n))

end Kio.Gen
