import Kio.Gen.Module
import Kio.Gen.DefSpec
import Kio.Model.Typing
/-!
# The supported subset of message definitions (DESIGN §6.16, Appendix C.3)

`Supported d v` is a *syntactic* condition on a definition `d` and a version `v`: it looks only at
the definition (names, types, version ranges, tags, defaults, `ignorable`, `entityType`), never at
what the generator produces.  It is the hypothesis of the coherence theorem
(`Kio.Gen.module_coherent`: every class generated from a supported definition is `Schema.wf`, has no
tagged nullable entity array and fewer than 2^35 fields), which composes with C02 to give the
byte-level half of C16.  The definitions `harness/defgen.py` draws are checked against it on every
run (driver command `supported`).
-/
namespace Kio.Gen
open Kio

/-- `P` on `f` and on every field nested below it (independent of versions) -/
def FieldDef.everywhere (P : FieldDef → Bool) : FieldDef → Bool
  | .mk n t vs nu tg tag dflt ign ent none => P (.mk n t vs nu tg tag dflt ign ent none)
  | .mk n t vs nu tg tag dflt ign ent (some fs) =>
    P (.mk n t vs nu tg tag dflt ign ent (some fs)) && everywhereL P fs
where
  everywhereL (P : FieldDef → Bool) : List FieldDef → Bool
    | [] => true
    | f :: fs => FieldDef.everywhere P f && everywhereL P fs

def MsgDef.everywhere (d : MsgDef) (P : FieldDef → Bool) : Bool :=
  FieldDef.everywhere.everywhereL P d.fields
    && d.commonStructs.all (fun cs => FieldDef.everywhere.everywhereL P cs.fields)

def visibleAt (fs : List FieldDef) (v : Nat) : List FieldDef := fs.filter (fun f => f.versions.matches v)

/-- a field that always occupies at least one byte on the wire when untagged: anything but a
    (non-array) structure -/
def isAnchor (v : Nat) (f : FieldDef) : Bool :=
  (tagAt f v).isNone && (match f.ty with | .struct _ => false | _ => true)

/-- conditions on the field list of one structure: distinct tags among the visible fields, fewer
    than 2^35 fields; a structure used as an *array element* (`nested`) also has an untagged
    non-structure field visible (so an array of it cannot consist of zero-byte elements) -/
def structOk (v : Nat) (nested : Bool) (fs : List FieldDef) : Bool :=
  let vis := visibleAt fs v
  decide ((vis.filterMap (fun f => tagAt f v)).Nodup) && decide (fs.length < 2 ^ 35)
    && (!nested || vis.any (isAnchor v))

/-- Kafka types for which the library knows an implicit default (`get_implicit_default`) -/
def hasZero : KType → Bool
  | .records | .bool | .errorCode | .uuid | .unknown | .notStr => false
  | _ => true

def isRequestHeaderName (n : List Nat) : Bool := n == strOf "RequestHeader"

/-- the definition's reading of "this member of a structure has a default" (the test
    `DefSpec.expDefault` applies to the members of a tagged structure) -/
def memberHasDefault (g : FieldDef) : Bool :=
  g.dflt.isSome && (match g.ty with
    | .prim _ | .struct _ => g.fields.isSome || (match g.ty with | .prim _ => true | _ => false)
    | _ => false)

/-- conditions on one field that is visible at `v` -/
def fieldOk (d : MsgDef) (v : Nat) (f : FieldDef) : Bool :=
  let flex := d.flexibleVersions.matches v
  let tag := tagAt f v
  -- tags only in flexible versions, and small enough for the wire
  (match tag with | some t => flex && decide (t < 2 ^ 35) | none => true)
  -- the JSON object parses as one of the generator's field variants
  && (match variant d f with | .ok _ => true | .error _ => false)
  -- nested field lists are well-formed structures
  && (match f.fields with
      | some fs => structOk v (match f.ty with | .structArr _ => true | _ => false) fs
      | none => true)
  && (match f.ty with
      | .prim p =>
        (match resolvePrim f.name p with
         | .error _ => false
         | .ok (k, _) =>
           let optional := primNullable f k v
           -- `entityType` only on types that can be subclassed
           (f.entityType.isNone || customIsSubclass k)
           -- an explicit default in a supported spelling, acceptable for the field's nullability
           && (match f.dflt with
               | some s => (match formatDefault k s optional with | .ok _ => true | .error _ => false)
                           && (match DefSpec.explicitDefault k s with | .unsupported => false | _ => true)
               | none => true)
           -- only types with a wire-level null are nullable outside the tagged section
           && (!optional || k.hasNull || tag.isSome)
           -- a tagged field states what its absence means, or its type has a zero value
           && (tag.isNone || f.dflt.isSome || f.ignorable || (!optional && hasZero k)))
      | .primArr p =>
        !errorCodeNames.contains f.name
        && (f.entityType.isNone || customIsSubclass (ktypeOfPrimT p))
      | .structArr n =>
        !isRequestHeaderName n
        -- a tagged array of structures is not nullable (it has no encoding for null)
        && (tag.isNone || !nullableAt f v)
      | .struct n =>
        !isRequestHeaderName n
        && (tag.isNone || !nullableAt f v)
        -- a structure from `commonStructs` is never nullable (the generator does not annotate it so)
        && (f.fields.isSome || !nullableAt f v)
        -- a `null` default needs a nullable field; a tagged structure states what its absence means
        && (match f.dflt with
            | some _ => nullableAt f v && f.fields.isSome
            | none => tag.isNone || f.ignorable
                      || (match f.fields with | some fs => onlyDefaults d fs | none => false)))

/-- the default of a *tagged* inline structure depends on whether all of its members have defaults.
    The generator decides this by parsing every member — also those not visible at `v`, about which
    `Supported` says nothing else — (`onlyDefaults`: the member parses as a primitive or
    inline-structure variant and has a default); the definition's reading (`DefSpec.expDefault`)
    looks at the member's type and `default` key only (`memberHasDefault`).  The two tests must
    agree: they differ for a member that does not parse (e.g. no `versions`) or whose
    primitive-array type is overwritten because of an error-code name; without this condition
    `module_defaults` is false (`module_defaults_needs_membersOk`, `module_defaults_needs_membersOk'`
    in Kio/Proofs/GenCoherent.lean). -/
def membersOk (d : MsgDef) (v : Nat) (f : FieldDef) : Bool :=
  match f.ty, f.fields with
  | .struct _, some fs => (tagAt f v).isNone || (onlyDefaults d fs == fs.all memberHasDefault)
  | _, _ => true

mutual
/-- the names of the structures defined inline (fields with a `fields` key), in document order -/
def FieldDef.inlineNames : FieldDef → List (List Nat)
  | .mk _ _ _ _ _ _ _ _ _ none => []
  | .mk _ t _ _ _ _ _ _ _ (some fs) =>
    (match t with | .struct n | .structArr n => [n] | _ => []) ++ inlineNamesL fs
def inlineNamesL : List FieldDef → List (List Nat)
  | [] => []
  | f :: fs => FieldDef.inlineNames f ++ inlineNamesL fs
end

/-- every structure of the definition (the message, common structures, inline ones) -/
def MsgDef.structNames (d : MsgDef) : List (List Nat) :=
  d.name :: (d.commonStructs.map (·.name)
    ++ inlineNamesL d.fields ++ (d.commonStructs.map (fun cs => inlineNamesL cs.fields)).flatten)

/-- **the supported subset**, for version `v` of definition `d` -/
def Supported (d : MsgDef) (v : Nat) : Bool :=
  d.validVersions.matches v
  && !isRequestHeaderName d.name
  -- no two structures share a name
  && decide d.structNames.Nodup
  && structOk v false d.fields
  && d.commonStructs.all (fun cs => structOk v true cs.fields && !isRequestHeaderName cs.name)
  && d.everywhere (fun f => !f.versions.matches v || (fieldOk d v f && membersOk d v f))
  -- field names have at least two characters (the real `to_snake_case` raises IndexError on a
  -- one-character name — observed by the C16 run; the model's `toSnakeCase` is total)
  && d.everywhere (fun f => decide (2 ≤ f.name.length))

end Kio.Gen

namespace Kio.Gen
open Kio

/-- the default the generator gave a field is the one the definition states -/
def dfltAgrees (e : DefSpec.ExpDflt) : Field → Bool
  | .mk m sh =>
    match e with
    | .noDefault => (match m.dflt with | .missing => true | _ => false)
    | .value v => (match m.dflt with | .val w => v.beq w | _ => false)
    | .emptyArray => (match m.dflt with | .val (.tuple []) => true | _ => false)
    | .structOfDefaults =>
      (match sh, m.dflt with
       | .ent s _, .val w => (match instanceOfDefaults s with | .ok i => w.beq i | .error _ => false)
       | _, _ => false)
    | .unsupported => false

/-- class by class, field by field: defaults agree (executable form of `module_defaults`) -/
def defaultsAgree (d : MsgDef) (b : List (List Nat)) (v : Nat) : Bool :=
  match module d b v with
  | .error _ => true
  | .ok gs =>
    let es := DefSpec.classesAt d b v
    gs.length == es.length &&
    (gs.zip es).all (fun (g, e) =>
      g.schema.fields.length == e.fields.length &&
      (g.schema.fields.zip e.fields).all (fun (f, ef) => dfltAgrees ef.dflt f))

end Kio.Gen
