import Kio.Model.Schema
import Kio.Model.Tables
/-!
# Model of the code generator (`codegen/`), descriptor level (DESIGN §6.16)

Input: an upstream-style message definition (`MsgDef`).  Output: for each valid version the
classes of the generated module, as the same `Schema` terms the translator reads back from a
generated package, plus class variables and names.
-/
namespace Kio.Gen
open Kio

/-- version range strings: `"none"`, `"N"`, `"N-M"`, `"N+"` -/
inductive VRange where
  | empty                              -- "none"
  | mk (lo : Nat) (hi : Option Nat)
deriving DecidableEq, Repr, Inhabited

/-- `VersionRange.matches`: closed on both ends -/
def VRange.matches : VRange → Nat → Bool
  | .empty, _ => false
  | .mk lo .none, v => lo ≤ v
  | .mk lo (.some hi), v => lo ≤ v && v ≤ hi

/-- the primitive type names of the JSON format -/
inductive PrimT where
  | bool | int8 | int16 | int32 | int64 | uint16 | uint32 | uint64 | float64
  | string | bytes | uuid | records
deriving DecidableEq, Repr, Inhabited

inductive FType where
  | prim (p : PrimT)
  | primArr (p : PrimT)
  | struct (name : List Nat)        -- `"Name"`
  | structArr (name : List Nat)     -- `"[]Name"`
deriving DecidableEq, Repr, Inhabited

inductive FieldDef where
  | mk (name : List Nat) (ty : FType) (versions nullable tagged : Option VRange) (tag : Option Nat)
       (dflt : Option (List Nat)) (ignorable : Bool) (entityType : Option (List Nat))
       (fields : Option (List FieldDef))     -- `some` iff the JSON object has a `fields` key
deriving Repr, Inhabited

def FieldDef.name : FieldDef → List Nat | .mk n .. => n
def FieldDef.ty : FieldDef → FType | .mk _ t .. => t
def FieldDef.versionsRaw : FieldDef → Option VRange | .mk _ _ v .. => v
def FieldDef.nullable : FieldDef → Option VRange | .mk _ _ _ n .. => n
def FieldDef.tagged : FieldDef → Option VRange | .mk _ _ _ _ t .. => t
def FieldDef.tag : FieldDef → Option Nat | .mk _ _ _ _ _ t .. => t
def FieldDef.dflt : FieldDef → Option (List Nat) | .mk _ _ _ _ _ _ d .. => d
def FieldDef.ignorable : FieldDef → Bool | .mk _ _ _ _ _ _ _ i .. => i
def FieldDef.entityType : FieldDef → Option (List Nat) | .mk _ _ _ _ _ _ _ _ e _ => e
def FieldDef.fields : FieldDef → Option (List FieldDef) | .mk _ _ _ _ _ _ _ _ _ f => f

/-- `versions`, falling back to `taggedVersions` (root pre-validator) -/
def FieldDef.versions (f : FieldDef) : VRange := (f.versionsRaw.orElse (fun _ => f.tagged)).getD .empty

structure CommonStruct where
  name : List Nat
  fields : List FieldDef
deriving Repr, Inhabited

structure MsgDef where
  name : List Nat
  kind : EType                  -- request / response / header / data
  apiKey : Option Int
  validVersions : VRange
  flexibleVersions : VRange
  fields : List FieldDef
  commonStructs : List CommonStruct
deriving Repr, Inhabited

/-! ## special names and types -/

def timedeltaNames : List (List Nat) :=
  ["timeoutMs", "TimeoutMs", "ThrottleTimeMs", "MaxWaitMs", "SessionLifetimeMs", "TransactionTimeoutMs",
   "MaxLifetimeMs", "SessionTimeoutMs", "RebalanceTimeoutMs", "ExpiryTimePeriodMs", "RenewPeriodMs",
   "RetentionTimeMs", "HeartbeatIntervalMs", "PushIntervalMs"].map strOf
def datetimeNames : List (List Nat) :=
  ["IssueTimestampMs", "ExpiryTimestampMs", "MaxTimestampMs", "TransactionStartTimeMs", "LogAppendTimeMs"].map strOf
def errorCodeNames : List (List Nat) := ["ErrorCode", "PartitionErrorCode"].map strOf

def endsWithMs (n : List Nat) : Bool := n.length ≥ 2 && n.drop (n.length - 2) == strOf "Ms"

inductive GenErr where
  | notImplemented     -- NotImplementedError (unknown `…Ms` name, unsupported default …)
  | assertion          -- AssertionError (null default on a non-optional field, bad bool …)
  | validation         -- pydantic ValidationError: no field variant matches
  | nameError          -- the generated module would not import
deriving DecidableEq, Repr

/-- the Kafka type of a primitive field after the name-based special cases, and its name with
    the `Ms` suffix dropped for time fields -/
def resolvePrim (name : List Nat) (p : PrimT) : Except GenErr (KType × List Nat) :=
  let p' : PrimT := p
  if errorCodeNames.contains name then
    -- `special_case_error_code` runs first and replaces the type by "error_code"
    if endsWithMs name then .error .notImplemented else .ok (.errorCode, name)
  else if timedeltaNames.contains name then
    match p' with
    | .int32 => .ok (.timedeltaI32, name.take (name.length - 2))
    | .int64 => .ok (.timedeltaI64, name.take (name.length - 2))
    | _ => .error .notImplemented
  else if datetimeNames.contains name then
    match p' with
    | .int64 => .ok (.datetimeI64, name.take (name.length - 2))
    | _ => .error .notImplemented
  else if endsWithMs name then .error .notImplemented
  else .ok (match p' with
    | .bool => .bool | .int8 => .int8 | .int16 => .int16 | .int32 => .int32 | .int64 => .int64
    | .uint16 => .uint16 | .uint32 => .uint32 | .uint64 => .uint64 | .float64 => .float64
    | .string => .string | .bytes => .bytes | .uuid => .uuid | .records => .records, name)

def ktypeOfPrimT : PrimT → KType
  | .bool => .bool | .int8 => .int8 | .int16 => .int16 | .int32 => .int32 | .int64 => .int64
  | .uint16 => .uint16 | .uint32 => .uint32 | .uint64 => .uint64 | .float64 => .float64
  | .string => .string | .bytes => .bytes | .uuid => .uuid | .records => .records

/-- `Primitive.get_type_hint()` as an annotation leaf -/
def baseOfKType : KType → PyBase
  | .int8 => .i8 | .int16 => .i16 | .int32 => .i32 | .int64 => .i64
  | .uint8 => .u8 | .uint16 => .u16 | .uint32 => .u32 | .uint64 => .u64 | .float64 => .f64
  | .string => .str | .bytes => .bytes | .records => .records | .uuid => .uuid | .bool => .bool
  | .errorCode => .errorCode | .timedeltaI32 => .i32Timedelta | .timedeltaI64 => .i64Timedelta
  | .datetimeI64 => .tzAware | .unknown | .notStr => .other

def isFixedNumeric : KType → Bool
  | .int8 | .int16 | .int32 | .int64 | .uint16 | .uint32 | .uint64 | .float64 => true
  | _ => false

/-- `PrimitiveField.is_nullable`: fixed-width numbers, booleans and error codes have no null
    representation and are never `| None` -/
def neverNullable (k : KType) : Bool := isFixedNumeric k || k == .bool || k == .errorCode

/-! ## integers in the accepted spellings (`int(s, 0)`) -/

def digitVal (c : Nat) : Option Nat :=
  if 48 ≤ c && c ≤ 57 then some (c - 48)
  else if 97 ≤ c && c ≤ 102 then some (c - 87)
  else if 65 ≤ c && c ≤ 70 then some (c - 55)
  else none

def parseDigits (base : Nat) (cs : List Nat) : Option Nat :=
  if cs.isEmpty then none else
  cs.foldl (fun acc c => acc.bind (fun a => (digitVal c).bind (fun d => if d < base then some (a * base + d) else none))) (some 0)

/-- decimal and `0x…` integers with optional sign -/
def parseInt (s : List Nat) : Option Int :=
  let (neg, body) := match s with
    | 45 :: r => (true, r)
    | 43 :: r => (false, r)
    | r => (false, r)
  let n := match body with
    | 48 :: 120 :: r => parseDigits 16 r
    | 48 :: 88 :: r => parseDigits 16 r
    | r => parseDigits 10 r
  n.map (fun n => if neg then -(n : Int) else n)

/-- `capitalize()` of a default for `bool`: "true"/"True"/"TRUE" → True … -/
def parseBool (s : List Nat) : Option Bool :=
  let l := s.map toLower
  if l == strOf "true" then some true else if l == strOf "false" then some false else none

/-- decimal float spellings the pinned definitions use: `[-]d+[.d+]` evaluated exactly when the
    value is an integer or a dyadic fraction we can represent; only `0`, `0.0` … in practice -/
def parseFloatBits (s : List Nat) : Option Nat :=
  let (neg, body) := match s with | 45 :: r => (true, r) | r => (false, r)
  let ip := body.takeWhile (· != 46)
  let fp := (body.dropWhile (· != 46)).drop 1
  match parseDigits 10 ip, (if fp.isEmpty then some 0 else parseDigits 10 fp) with
  | some 0, some 0 => some (if neg then 2 ^ 63 else 0)
  | _, _ => none

end Kio.Gen
