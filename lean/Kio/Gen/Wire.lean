import Kio.Gen.Module
import Kio.Gen.DefSpec
import Kio.Wire
/-!
Line-protocol encoding of message definitions (input) and generated modules (output).
-/
namespace Kio.Gen
open Kio

def charsOfHex (s : String) : Option (List Nat) :=
  if s = "-" then some [] else (bytesOfHexChars s.toList).map (·.map UInt8.toNat)

def parseVRange (s : String) : Option VRange :=
  if s = "none" then some .empty
  else if s.endsWith "+" then ((s.dropEnd 1).toString.toNat?).map (fun n => .mk n none)
  else match s.splitOn "-" with
    | [a] => a.toNat?.map (fun n => .mk n (some n))
    | [a, b] => do let x ← a.toNat?; let y ← b.toNat?; pure (.mk x (some y))
    | _ => none

def parsePrimT (s : String) : Option PrimT :=
  match s with
  | "bool" => some .bool | "int8" => some .int8 | "int16" => some .int16 | "int32" => some .int32
  | "int64" => some .int64 | "uint16" => some .uint16 | "uint32" => some .uint32 | "uint64" => some .uint64
  | "float64" => some .float64 | "string" => some .string | "bytes" => some .bytes | "uuid" => some .uuid
  | "records" => some .records | _ => none

def parseFType (s : String) : FType :=
  if s.startsWith "[]" then
    let r := (s.drop 2).toString
    match parsePrimT r with
    | some p => .primArr p
    | none => .structArr (r.toList.map Char.toNat)
  else match parsePrimT s with
    | some p => .prim p
    | none => .struct (s.toList.map Char.toNat)

def optTok {α} (f : String → Option α) (s : String) : Option (Option α) :=
  if s = "~" then some none else (f s).map some

mutual
/-- `F name type versions nullable tagged tag default ignorable entityType nsub sub…` -/
partial def parseField : List String → Option (FieldDef × List String)
  | "F" :: name :: ty :: vs :: nv :: tv :: tag :: dflt :: ign :: et :: nsub :: rest => do
    let name ← charsOfHex name
    let vs ← optTok parseVRange vs
    let nv ← optTok parseVRange nv
    let tv ← optTok parseVRange tv
    let tag ← optTok String.toNat? tag
    let dflt ← optTok charsOfHex dflt
    let et ← optTok charsOfHex et
    if nsub = "~" then
      pure (.mk name (parseFType ty) vs nv tv tag dflt (ign = "1") et none, rest)
    else do
      let n ← nsub.toNat?
      let (subs, rest) ← parseFields n rest
      pure (.mk name (parseFType ty) vs nv tv tag dflt (ign = "1") et (some subs), rest)
  | _ => none
partial def parseFields : Nat → List String → Option (List FieldDef × List String)
  | 0, toks => some ([], toks)
  | n+1, toks => do
    let (f, toks) ← parseField toks
    let (fs, toks) ← parseFields n toks
    pure (f :: fs, toks)
end

partial def parseCommon : Nat → List String → Option (List CommonStruct × List String)
  | 0, toks => some ([], toks)
  | n+1, name :: nf :: toks => do
    let name ← charsOfHex name
    let k ← nf.toNat?
    let (fs, toks) ← parseFields k toks
    let (cs, toks) ← parseCommon n toks
    pure ({ name := name, fields := fs } :: cs, toks)
  | _, _ => none

/-- `M name kind apiKey validVersions flexibleVersions nfields fields… ncommon (name nf fields…)…` -/
def parseMsgDef : List String → Option MsgDef
  | "M" :: name :: kind :: key :: vv :: fv :: nf :: rest => do
    let name ← charsOfHex name
    let kind ← (match kind with
      | "request" => some EType.request | "response" => some .response | "header" => some .header
      | "data" => some .data | _ => none)
    let key ← optTok String.toInt? key
    let vv ← parseVRange vv
    let fv ← parseVRange fv
    let n ← nf.toNat?
    let (fs, rest) ← parseFields n rest
    match rest with
    | nc :: rest => do
      let k ← nc.toNat?
      let (cs, rest) ← parseCommon k rest
      if rest.isEmpty then pure { name, kind, apiKey := key, validVersions := vv, flexibleVersions := fv,
                                  fields := fs, commonStructs := cs } else none
    | [] => none
  | _ => none

def strOfChars (cs : List Nat) : String := String.ofList (cs.map Char.ofNat)

def renderLeaf (l : PyLeaf) : String := s!"{repr l.base}{if l.isSub then "+" else ""}".replace "Kio.PyBase." ""

def renderShape (names : List (List Nat)) : Shape → String
  | .prim l o => s!"prim({renderLeaf l},{o})"
  | .primArr l e a => s!"primArr({renderLeaf l},{e},{a})"
  | .ent s o => s!"ent({strOfChars (names.getD s.nameId [])},{o})"
  | .entArr s a => s!"entArr({strOfChars (names.getD s.nameId [])},{a})"
  | .bad => "bad"

def renderDflt : Dflt → String
  | .missing => "MISSING"
  | .val v => v.render.replace " " ","
  | .unrepresentable => "UNREPRESENTABLE"

def renderKType (k : Option KType) : String :=
  match k with | some k => (s!"{repr k}").replace "Kio.KType." "" | none => "-"

def GClass.render (names : List (List Nat)) (g : GClass) : String :=
  let fs := (g.fieldNames.zip g.schema.fields).map (fun (n, f) => match f with
    | .mk m sh => s!"{strOfChars n}:{renderShape names sh}:{renderKType m.kafkaType}:" ++
        (match m.tag with | some t => toString t | none => "-") ++ ":" ++ renderDflt m.dflt)
  let et := (s!"{repr g.etype}").replace "Kio.EType." ""
  s!"{strOfChars g.name}|{et}|{g.version}|{g.flexible}|" ++
    (match g.apiKey with | some k => toString k | none => "-") ++ "|" ++
    (match g.headerVersion with | some h => toString h | none => "-") ++ "|" ++ " ".intercalate fs

def renderModule (gs : List GClass) : String :=
  " ;; ".intercalate (gs.map (GClass.render (gs.map (·.name))))

end Kio.Gen

namespace Kio.Gen
open Kio

def renderFKind : DefSpec.FKind → String
  | .prim k => s!"prim({renderKType (some k)})"
  | .primArr k => s!"primArr({renderKType (some k)})"
  | .struct n => s!"struct({strOfChars n})"
  | .structArr n => s!"structArr({strOfChars n})"

def renderExpClass (d : MsgDef) (v : Nat) (c : DefSpec.ExpClass) : String :=
  let fs := c.fields.map (fun f => s!"{strOfChars f.name}:{renderFKind f.kind}:{f.nullable}:" ++
    (match f.tag with | some t => toString t | none => "-") ++ ":" ++
    (match f.dflt with
     | .noDefault => "MISSING" | .value v => v.render.replace " " "," | .emptyArray => "A0"
     | .structOfDefaults => "STRUCT" | .unsupported => "UNSUPPORTED"))
  let hv := headerVersionOf d v
  s!"{strOfChars c.name}|{c.top}|{DefSpec.flexibleAt d v}|" ++
    (match d.apiKey with | some k => toString k | none => "-") ++ "|" ++
    (match hv with | some h => toString h | none => "-") ++ "|" ++ " ".intercalate fs

def renderDefSpec (d : MsgDef) (builtins : List (List Nat)) (v : Nat) : String :=
  " ;; ".intercalate ((DefSpec.classesAt d builtins v).map (renderExpClass d v))

end Kio.Gen
