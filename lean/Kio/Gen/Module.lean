import Kio.Gen.Def
/-!
The generator proper: `Gen.module d builtins v` = the classes of `…/v<v>/<kind>.py`, in the
order `generate_dataclass` emits them (nested classes first, each name once per module).
-/
namespace Kio.Gen
open Kio

structure GClass where
  name : List Nat
  etype : EType
  version : Nat
  flexible : Bool
  apiKey : Option Int
  headerVersion : Option Nat          -- version of the header class, for request/response modules
  fieldNames : List (List Nat)
  schema : Schema                     -- as the translator would read it back; its `nameId` is the
                                      -- position of the class in the module's class list
deriving Inhabited

structure Ctx where
  d : MsgDef
  v : Nat
  builtins : List (List Nat)

inductive Variant where
  | prim (k : KType) (name : List Nat)
  | primArr (p : PrimT)
  | entArr (cls : List Nat) (fields : List FieldDef)
  | ent (cls : List Nat) (fields : List FieldDef)
  | csArr (cs : CommonStruct)
  | cs (cs : CommonStruct)

def findCS (d : MsgDef) (n : List Nat) : Option CommonStruct := d.commonStructs.find? (·.name == n)

/-- which pydantic field variant the JSON object parses as (first that validates) -/
def variant (d : MsgDef) (f : FieldDef) : Except GenErr Variant :=
  -- `tag` and `taggedVersions` must come together (all variants)
  if f.tag.isSome != f.tagged.isSome then .error .validation
  else if f.versionsRaw.isNone && f.tagged.isNone then .error .validation
  else
    let isNullDefault := f.dflt == some (strOf "null") || f.dflt.isNone
    match f.ty with
    | .prim p =>
      (match resolvePrim f.name p with
       | .ok (k, n) => .ok (.prim k n)
       | .error e => .error e)
    | .primArr p =>
      if errorCodeNames.contains f.name then .ok (.prim .errorCode f.name)   -- type overwritten
      else .ok (.primArr p)
    | .structArr n =>
      (match f.fields with
       | some fs => .ok (.entArr n fs)
       | none => match findCS d n with
         | some cs => .ok (.csArr cs)
         | none => .error .validation)
    | .struct n =>
      (match f.fields with
       | some fs => if isNullDefault then .ok (.ent n fs)
                    else (match findCS d n with
                      | some cs => if isNullDefault then .ok (.cs cs) else .error .validation
                      | none => .error .validation)
       | none => match findCS d n with
         | some cs => if isNullDefault then .ok (.cs cs) else .error .validation
         | none => .error .validation)

/-- `field.get_tag(version)` -/
def tagAt (f : FieldDef) (v : Nat) : Option Nat :=
  match f.tagged with
  | some r => if r.matches v then f.tag else none
  | none => none

def nullableAt (f : FieldDef) (v : Nat) : Bool :=
  match f.nullable with | some r => r.matches v | none => false

/-- `PrimitiveField.is_nullable(version)` -/
def primNullable (f : FieldDef) (k : KType) (v : Nat) : Bool :=
  if neverNullable k then false
  else ((tagAt f v).isSome && f.ignorable && f.dflt.isNone)
       || nullableAt f v
       || (k == .datetimeI64 && f.dflt == some (strOf "-1"))

/-- `format_default` for a primitive with an explicit default -/
def formatDefault (k : KType) (dflt : List Nat) (optional : Bool) : Except GenErr Value :=
  if dflt == strOf "null" then (if optional then .ok .none else .error .assertion)
  else match k with
  | .string => .ok (.str (dflt.map (fun c => c.toUInt8)))     -- ASCII defaults only
  | .int8 | .int16 | .int32 | .int64 | .uint16 | .uint32 | .uint64 =>
    (match parseInt dflt with | some i => .ok (.int i) | none => .error .notImplemented)
  | .bool => (match parseBool dflt with | some b => .ok (.bool b) | none => .error .assertion)
  | .float64 =>
    -- the default text is pasted as a Python literal: an integer spelling yields an `int`
    (match parseInt dflt with
     | some i => .ok (.int i)
     | none => match parseFloatBits dflt with | some b => .ok (.float b) | none => .error .notImplemented)
  | .errorCode => (match parseInt dflt with | some i => .ok (.int i) | none => .error .notImplemented)
  | .timedeltaI32 | .timedeltaI64 =>
    (match parseInt dflt with | some i => .ok (.timedelta (i * 1000)) | none => .error .notImplemented)
  | .datetimeI64 => if dflt == strOf "-1" then (if optional then .ok .none else .error .assertion)
                    else .error .notImplemented
  | _ => .error .notImplemented

/-- `_format_default_for_tagged` (implicit default of a tagged ignorable field) -/
def taggedImplicitDefault (k : KType) : Except GenErr Value :=
  match k with
  | .int8 | .int16 | .int32 | .int64 | .uint16 | .uint32 | .uint64 => .ok (.int 0)
  | .float64 => .ok (.float 0)
  | .bool => .ok (.bool false)
  | .errorCode => .ok (.int 0)
  | _ => .ok .none

/-- does the custom `entityType` wrapper become a subclass (`class X(hint)`)?  Otherwise it is a
    `NewType`, which is not a class -/
def customIsSubclass : KType → Bool
  | .string | .int8 | .int16 | .int32 | .int64 | .uint16 | .uint32 | .uint64 | .float64 => true
  | _ => false

def mkMeta (isClientId : Bool) (kt : Option KType) (tag : Option Nat) (d : Dflt) : FieldMeta :=
  { nameId := 0, isClientId := isClientId, kafkaType := kt, tag := tag.map (fun t => (t : Int)),
    dflt := d, extraMeta := false }

def dfltOf (o : Option Value) : Dflt := match o with | some v => .val v | none => .missing

/-- all nested fields are plain primitive / entity fields with an explicit default -/
def onlyDefaults (d : MsgDef) (fs : List FieldDef) : Bool :=
  fs.all (fun f => match variant d f with
    | .ok (.prim ..) | .ok (.ent ..) => f.dflt.isSome
    | _ => false)

/-- `Name()`: an instance built from the defaults of the generated class -/
def instanceOfDefaults (s : Schema) : Except GenErr Value :=
  match s with
  | .mk _ _ _ fs =>
    (fs.mapM (fun (f : Field) => match f with
      | .mk m _ => match m.dflt with | .val v => Except.ok v | _ => Except.error GenErr.nameError)).map .entity

def headerVersionOf (d : MsgDef) (v : Nat) : Option Nat :=
  match d.kind, d.apiKey with
  | .request, some k => some (Spec.requestHeaderVersion k v (d.flexibleVersions.matches v))
  | .response, some k => some (Spec.responseHeaderVersion k (d.flexibleVersions.matches v))
  | _, _ => none

mutual
/-- generate the class `name` (if not generated yet in this module) and return its schema;
    `acc` = classes emitted so far, in order.  `fuel` bounds the total work (structural). -/
def genClass (ctx : Ctx) : Nat → List GClass → List Nat → List FieldDef → Bool →
    Except GenErr (List GClass × Schema)
  | 0, _, _, _, _ => .error .validation
  | fuel+1, acc, name, fields, top =>
    match acc.find? (·.name == name) with
    | some g => .ok (acc, g.schema)
    | none =>
      match genFields ctx fuel acc fields with
      | .error e => .error e
      | .ok (acc, out) =>
        let flex := ctx.d.flexibleVersions.matches ctx.v
        let isRH := name == strOf "RequestHeader"
        let schema := Schema.mk acc.length flex isRH (out.map (·.2))   -- name id = position in the module
        let g : GClass := { name := name, etype := if top then ctx.d.kind else .nested, version := ctx.v,
                            flexible := flex, apiKey := ctx.d.apiKey, headerVersion := headerVersionOf ctx.d ctx.v,
                            fieldNames := out.map (·.1), schema := schema }
        .ok (acc ++ [g], schema)
/-- the fields valid at the version, in order; nested classes are generated on the way -/
def genFields (ctx : Ctx) : Nat → List GClass → List FieldDef →
    Except GenErr (List GClass × List (List Nat × Field))
  | 0, _, _ => .error .validation
  | _+1, acc, [] => .ok (acc, [])
  | fuel+1, acc, f :: rest =>
    if !(f.versions.matches ctx.v) then genFields ctx fuel acc rest else
    let tag := tagAt f ctx.v
    match variant ctx.d f with
    | .error e => .error e
    | .ok var =>
      let one : Except GenErr (List GClass × (List Nat × Field)) :=
        match var with
        | .prim k n =>
          let optional := primNullable f k ctx.v
          let custom := f.entityType.isSome
          if custom && !customIsSubclass k then .error .nameError else
          let dflt : Except GenErr (Option Value) := (match f.dflt with
            | some s => (formatDefault k s optional).map some
            | none => if tag.isSome && f.ignorable then (taggedImplicitDefault k).map some else .ok none)
          match dflt with
          | .error e => .error e
          | .ok dflt =>
            let pyName := toSnakeCase ctx.builtins n
            let leaf : PyLeaf := ⟨baseOfKType k, custom⟩
            .ok (acc, (pyName, Field.mk (mkMeta (pyName == strOf "client_id") (some k) tag (dfltOf dflt))
                         (.prim leaf (optional || k == .uuid))))
        | .primArr p =>
          let k := ktypeOfPrimT p
          let custom := f.entityType.isSome
          if custom && !customIsSubclass k then .error .nameError else
          let pyName := toSnakeCase ctx.builtins f.name
          .ok (acc, (pyName, Field.mk (mkMeta (pyName == strOf "client_id") (some k) tag (.val (.tuple [])))
                       (.primArr ⟨baseOfKType k, custom⟩ (k == .uuid) false)))
        | .entArr cls fs =>
          match genClass ctx fuel acc cls fs false with
          | .error e => .error e
          | .ok (acc, s) =>
            let pyName := toSnakeCase ctx.builtins f.name
            .ok (acc, (pyName, Field.mk (mkMeta (pyName == strOf "client_id") none tag
                         (if tag.isSome then .val (.tuple []) else .missing)) (.entArr s (nullableAt f ctx.v))))
        | .csArr cs =>
          match genClass ctx fuel acc cs.name cs.fields false with
          | .error e => .error e
          | .ok (acc, s) =>
            let pyName := toSnakeCase ctx.builtins f.name
            .ok (acc, (pyName, Field.mk (mkMeta (pyName == strOf "client_id") none tag
                         (if tag.isSome then .val (.tuple []) else .missing)) (.entArr s (nullableAt f ctx.v))))
        | .ent cls fs =>
          match genClass ctx fuel acc cls fs false with
          | .error e => .error e
          | .ok (acc, s) =>
            let optional := nullableAt f ctx.v
            let dflt : Except GenErr (Option Value) := (match f.dflt with
              | some _ => if optional then .ok (some Value.none) else .error .assertion     -- "null"
              | none =>
                if tag.isSome && onlyDefaults ctx.d fs then (instanceOfDefaults s).map some
                else if tag.isSome && f.ignorable then .ok (some Value.none)
                else .ok none)
            match dflt with
            | .error e => .error e
            | .ok dflt =>
              let pyName := toSnakeCase ctx.builtins f.name
              .ok (acc, (pyName, Field.mk (mkMeta (pyName == strOf "client_id") none tag (dfltOf dflt)) (.ent s optional)))
        | .cs cs =>
          match genClass ctx fuel acc cs.name cs.fields false with
          | .error e => .error e
          | .ok (acc, s) =>
            -- `generate_common_struct_field`: the annotation is never `| None`, `default=None` is passed
            let dflt := if tag.isSome && f.ignorable then some Value.none else none
            let pyName := toSnakeCase ctx.builtins f.name
            .ok (acc, (pyName, Field.mk (mkMeta (pyName == strOf "client_id") none tag (dfltOf dflt)) (.ent s false)))
      match one with
      | .error e => .error e
      | .ok (acc, entry) =>
        match genFields ctx fuel acc rest with
        | .error e => .error e
        | .ok (acc, out) => .ok (acc, entry :: out)
end

/-- fuel: one unit per class and per field visited -/
def maxDepth : Nat := 100000

/-- the classes of the module generated for version `v` of definition `d` -/
def module (d : MsgDef) (builtins : List (List Nat)) (v : Nat) : Except GenErr (List GClass) :=
  (genClass ⟨d, v, builtins⟩ maxDepth [] d.name d.fields true).map (·.1)

/-- the versions a definition is generated for -/
def versionsOf (d : MsgDef) : List Nat :=
  match d.validVersions with
  | .mk lo (some hi) => (List.range (hi + 1 - lo)).map (· + lo)
  | _ => []

/-- the package name `basic_name(schema.name)` -/
def packageName (builtins : List (List Nat)) (d : MsgDef) : List Nat :=
  dropSuffix (strOf "_request") (dropSuffix (strOf "_response") (toSnakeCase builtins d.name))

end Kio.Gen
