import Kio.Gen.Module
import Kio.Model.TablePreds
/-!
Comparing what the generator model derives from a definition with what the translator read
back from the shipped package (C04): class by class, field by field.
-/
namespace Kio.Gen
open Kio

def valueBEq (a b : Value) : Bool := a.beq b

def dfltBEq : Dflt → Dflt → Bool
  | .missing, .missing => true
  | .val a, .val b => a.beq b
  | _, _ => false

def optKTypeBEq (a b : Option KType) : Bool := a == b

mutual
/-- same description, ignoring interned name ids -/
def schemaSame : Schema → Schema → Bool
  | .mk _ f1 r1 fs1, .mk _ f2 r2 fs2 => f1 == f2 && r1 == r2 && fieldsSame fs1 fs2
def fieldsSame : List Field → List Field → Bool
  | [], [] => true
  | a :: as, b :: bs => fieldSame a b && fieldsSame as bs
  | _, _ => false
def fieldSame : Field → Field → Bool
  | .mk m1 s1, .mk m2 s2 =>
    m1.isClientId == m2.isClientId && m1.kafkaType == m2.kafkaType && m1.tag == m2.tag
    && dfltBEq m1.dflt m2.dflt && m1.extraMeta == m2.extraMeta && shapeSame s1 s2
def shapeSame : Shape → Shape → Bool
  | .prim l1 o1, .prim l2 o2 => l1 == l2 && o1 == o2
  | .primArr l1 e1 a1, .primArr l2 e2 a2 => l1 == l2 && e1 == e2 && a1 == a2
  | .ent s1 o1, .ent s2 o2 => o1 == o2 && schemaSame s1 s2
  | .entArr s1 a1, .entArr s2 a2 => a1 == a2 && schemaSame s1 s2
  | .bad, .bad => true
  | _, _ => false
end

/-- the field names of a shipped class, through the interned name table -/
def shippedFieldNames (t : Tables) (s : Schema) : List (List Nat) :=
  s.fields.map (fun f => t.name f.meta.nameId)

/-- generated class `g` is the shipped class (`info`, `s`): name, class variables, header,
    field names, field descriptions -/
def classMatches (t : Tables) (hs : List (Option Nat) × List (Option Nat)) (g : GClass)
    (info : ClassInfo) (s : Schema) : Bool :=
  t.name info.nameId == g.name && t.name s.nameId == g.name
  && info.etype.beq g.etype && info.version == (g.version : Int) && info.flexible == g.flexible
  && info.apiKey == g.apiKey
  && (match g.headerVersion, g.etype with
      | some hv, _ => info.headerIdx == (match info.etype, t.module? info.mod with
          | _, some m => (if m.key.kind.beq .request then hs.1.getD hv none else hs.2.getD hv none)
          | _, none => none)
      | none, _ => info.headerIdx == none)
  && shippedFieldNames t s == g.fieldNames
  && schemaSame g.schema s
  && (match info.params with
      | some p => p.frozen && p.slots && p.kwOnly && p.eq && !p.order && !p.unsafeHash
      | none => false)

/-- the module generated from `d` at `v` is exactly the walked module `m`: same package name,
    same classes in the same order -/
def moduleMatches (t : Tables) (hs : List (Option Nat) × List (Option Nat)) (d : MsgDef)
    (m : ModuleInfo) (shipped : List Schema) : Bool :=
  match module d t.builtins m.key.version with
  | .error _ => false
  | .ok gs =>
    packageName t.builtins d == t.name m.key.api && d.kind.beq m.key.kind
    && gs.length == m.classes.length && gs.length == shipped.length
    && ((gs.zip (m.classes.zip shipped)).all (fun (g, ci, s) =>
          match t.cls? ci with
          | some info => classMatches t hs g info s
          | none => false))

/-- walk the modules in order, consuming the shipped class list; every module must be generated
    by the pinned definition of its package and kind, at a version the definition declares -/
def allModulesMatch (t : Tables) (hs : List (Option Nat) × List (Option Nat)) (defs : List MsgDef) :
    List ModuleInfo → List Schema → Bool
  | [], rest => rest.isEmpty
  | m :: ms, shipped =>
    let n := m.classes.length
    (match defs.find? (fun d => d.kind.beq m.key.kind && packageName t.builtins d == t.name m.key.api) with
     | some d => (versionsOf d).contains m.key.version && moduleMatches t hs d m (shipped.take n)
     | none => false)
    && allModulesMatch t hs defs ms (shipped.drop n)

/-- conversely every (definition, version) has a walked module -/
def allDefsGenerated (t : Tables) (defs : List MsgDef) : Bool :=
  defs.all (fun d =>
    let pkg := packageName t.builtins d
    match t.apis.find? (fun g => t.name g.api == pkg) with
    | some g => (versionsOf d).all (fun v => g.modules.any (fun m => m.key.version == v && m.key.kind.beq d.kind))
    | none => false)

end Kio.Gen

namespace Kio.Gen
open Kio

/-- number of module shards the C04 instance theorem is split into (checked in parallel) -/
def shardCount : Nat := 16
def shardSize : Nat := 42

/-- the `k`-th slice of the walked modules matches what the pinned definitions generate -/
def shardOk (t : Tables) (defs : List MsgDef) (shipped : List Schema) (k : Nat) : Bool :=
  let ms := t.modules
  let before := ((ms.take (k * shardSize)).map (·.classes.length)).sum
  let mine := (ms.drop (k * shardSize)).take shardSize
  let cnt := (mine.map (·.classes.length)).sum
  allModulesMatch t t.headerIdxs defs mine ((shipped.drop before).take cnt)

end Kio.Gen
