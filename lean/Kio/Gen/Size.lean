import Kio.Gen.Module
/-!
# A structural size for message definitions, and acyclicity of common structures

`Gen.module` recurses on a fuel argument (`maxDepth`).  One unit of fuel is spent per field of the
list being walked and per class entered, and the *same* remaining fuel is handed to the nested class
and to the rest of the list — so the fuel needed is the length of the longest path of the walk, not
the total work.  `MsgDef.size` bounds every such path as long as the common structures do not refer
to each other in a cycle:

* `flatCommon d`: no common structure refers (directly or from an inline structure) to a common
  structure;
* `acyclicCommon d` (weaker): a common structure refers only to common structures that come *later*
  in `d.commonStructs`.

`Kio.Gen.module_succeeds` (Kio/Proofs/GenSucceeds.lean): a supported definition with
`2 * d.size + 2 ≤ maxDepth` and one of the two conditions is generated without error.
-/
namespace Kio.Gen
open Kio

mutual
/-- number of field nodes at and below `f` (all nesting levels, all versions) -/
def FieldDef.nodes : FieldDef → Nat
  | .mk _ _ _ _ _ _ _ _ _ none => 1
  | .mk _ _ _ _ _ _ _ _ _ (some fs) => 1 + nodesL fs
/-- number of field nodes of a field list (all nesting levels, all versions) -/
def nodesL : List FieldDef → Nat
  | [] => 0
  | f :: fs => FieldDef.nodes f + nodesL fs
end

/-- weight of a list of common structures: their field nodes plus their number -/
def csWeight : List CommonStruct → Nat
  | [] => 0
  | c :: cs => (nodesL c.fields + 1) + csWeight cs

/-- **size** of a definition: the field nodes of the message, plus the field nodes of every common
    structure, plus the number of common structures -/
def MsgDef.size (d : MsgDef) : Nat := nodesL d.fields + csWeight d.commonStructs

mutual
/-- `ok n` for every *reference* at or below `f`: a field of type `Name` / `[]Name` without a
    `fields` key of its own (such a field refers to the common structure `Name`) -/
def FieldDef.refsOk (ok : List Nat → Bool) : FieldDef → Bool
  | .mk _ t _ _ _ _ _ _ _ none => (match t with | .struct n | .structArr n => ok n | _ => true)
  | .mk _ _ _ _ _ _ _ _ _ (some fs) => refsOkL ok fs
def refsOkL (ok : List Nat → Bool) : List FieldDef → Bool
  | [] => true
  | f :: fs => FieldDef.refsOk ok f && refsOkL ok fs
end

/-- **flat**: no field at any depth of a common structure refers to a common structure (a reference
    to a name that is not a common structure is not restricted here: `Supported` excludes it where
    it is visible, and the generator skips it where it is not) -/
def flatCommon (d : MsgDef) : Bool :=
  d.commonStructs.all (fun cs => refsOkL (fun n => (findCS d n).isNone) cs.fields)

/-- the common structures `cs` refer only to names outside `seen` and outside the names of the
    structures up to and including themselves -/
def acyclicFrom : List (List Nat) → List CommonStruct → Bool
  | _, [] => true
  | seen, c :: post =>
    refsOkL (fun n => !(c.name :: seen).contains n) c.fields && acyclicFrom (c.name :: seen) post

/-- **acyclic**: a common structure refers only to common structures listed after it -/
def acyclicCommon (d : MsgDef) : Bool := acyclicFrom [] d.commonStructs

end Kio.Gen
