import Kio.Gen.Def
/-!
# What a message definition *states* for a version (independent reading, DESIGN §6.16)

No code generation here: for a definition and a version, which structures are visible, which
fields each has (in order), and for each field its Python name, whether it is an array, its
Kafka type or struct type, its tag, its nullability, plus flexibility, key and header version.
-/
namespace Kio.Gen.DefSpec
open Kio Kio.Gen

inductive FKind where
  | prim (k : KType) | primArr (k : KType) | struct (name : List Nat) | structArr (name : List Nat)
deriving DecidableEq, Repr

structure ExpField where
  name : List Nat          -- Python attribute name
  kind : FKind
  nullable : Bool
  tag : Option Nat
deriving DecidableEq, Repr

structure ExpClass where
  name : List Nat
  top : Bool
  fields : List ExpField
deriving Repr

def rangeMatches (r : Option VRange) (v : Nat) : Bool :=
  match r with | some r => r.matches v | none => false

/-- time fields drop their `Ms` suffix; error-code fields and time fields get a kio type -/
def primKind (name : List Nat) (p : PrimT) : KType × List Nat :=
  if errorCodeNames.contains name then (.errorCode, name)
  else if timedeltaNames.contains name then
    ((match p with | .int32 => .timedeltaI32 | _ => .timedeltaI64), name.take (name.length - 2))
  else if datetimeNames.contains name then (.datetimeI64, name.take (name.length - 2))
  else (ktypeOfPrimT p, name)

/-- nullability as the definition states it (Appendix D.4 of DESIGN.md): `nullableVersions`;
    plus the representation rules: UUIDs are always `UUID | None`; a tagged ignorable non-numeric
    primitive without default is absent-as-None; a timestamp with default -1 is None -/
def expNullable (f : FieldDef) (v : Nat) (kind : FKind) : Bool :=
  let nv := rangeMatches f.nullable v
  let tagged := rangeMatches f.tagged v
  match kind with
  | .prim k =>
    if neverNullable k then false
    else nv || k == .uuid || (tagged && f.ignorable && f.dflt.isNone)
         || (k == .datetimeI64 && f.dflt == some (strOf "-1"))
  | .primArr _ => nv
  | .struct _ => nv
  | .structArr _ => nv

def expField (builtins : List (List Nat)) (f : FieldDef) (v : Nat) : ExpField :=
  let tag := if rangeMatches f.tagged v then f.tag else none
  match f.ty with
  | .prim p =>
    let (k, n) := primKind f.name p
    { name := toSnakeCase builtins n, kind := .prim k, nullable := expNullable f v (.prim k), tag }
  | .primArr p =>
    { name := toSnakeCase builtins f.name, kind := .primArr (ktypeOfPrimT p),
      nullable := expNullable f v (.primArr (ktypeOfPrimT p)), tag }
  | .struct n => { name := toSnakeCase builtins f.name, kind := .struct n, nullable := expNullable f v (.struct n), tag }
  | .structArr n => { name := toSnakeCase builtins f.name, kind := .structArr n, nullable := expNullable f v (.structArr n), tag }

def fieldsAt (fs : List FieldDef) (v : Nat) : List FieldDef := fs.filter (fun f => f.versions.matches v)

/-- the structures visible at `v` below a field list, in first-use order (nested first) -/
def structuresBelow (d : MsgDef) (builtins : List (List Nat)) (v : Nat) :
    Nat → List ExpClass → List FieldDef → List ExpClass
  | 0, acc, _ => acc
  | _+1, acc, [] => acc
  | fuel+1, acc, f :: rest =>
    if !(f.versions.matches v) then structuresBelow d builtins v fuel acc rest else
    let sub : Option (List Nat × List FieldDef) := match f.ty with
      | .struct n | .structArr n =>
        (match f.fields with
         | some fs => some (n, fs)
         | none => (d.commonStructs.find? (·.name == n)).map (fun cs => (n, cs.fields)))
      | _ => none
    match sub with
    | none => structuresBelow d builtins v fuel acc rest
    | some (n, fs) =>
      if acc.any (·.name == n) then structuresBelow d builtins v fuel acc rest
      else
        let acc := structuresBelow d builtins v fuel acc fs
        let acc := if acc.any (·.name == n) then acc else
          acc ++ [{ name := n, top := false, fields := (fieldsAt fs v).map (fun f => expField builtins f v) }]
        structuresBelow d builtins v fuel acc rest

/-- all classes the definition calls for at version `v`: nested structures, then the message -/
def classesAt (d : MsgDef) (builtins : List (List Nat)) (v : Nat) : List ExpClass :=
  structuresBelow d builtins v 100000 [] d.fields
    ++ [{ name := d.name, top := true, fields := (fieldsAt d.fields v).map (fun f => expField builtins f v) }]

def flexibleAt (d : MsgDef) (v : Nat) : Bool := d.flexibleVersions.matches v

end Kio.Gen.DefSpec
