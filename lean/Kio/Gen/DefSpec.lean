import Kio.Gen.Def
/-!
# What a message definition *states* for a version (independent reading, DESIGN §6.16)

No code generation here: for a definition and a version, which structures are visible, which
fields each has (in order), and for each field its Python name, whether it is an array, its
Kafka type or struct type, its tag, its nullability, plus flexibility, key and header version.
-/
namespace Kio.Gen.DefSpec
open Kio Kio.Gen

inductive FKind where
  | prim (k : KType) | primArr (k : KType) | struct (name : List Nat) | structArr (name : List Nat)
deriving DecidableEq, Repr

/-- the default the definition states for a field at a version -/
inductive ExpDflt where
  | noDefault                 -- the field must be given
  | value (v : Value)         -- an explicit or implicit primitive default
  | emptyArray                -- a tagged array defaults to the empty array
  | structOfDefaults          -- a tagged structure all of whose members have defaults
  | unsupported               -- a spelling outside the supported subset
deriving Repr

structure ExpField where
  name : List Nat          -- Python attribute name
  kind : FKind
  nullable : Bool
  tag : Option Nat
  dflt : ExpDflt := .noDefault
deriving Repr

structure ExpClass where
  name : List Nat
  top : Bool
  fields : List ExpField
deriving Repr

def rangeMatches (r : Option VRange) (v : Nat) : Bool :=
  match r with | some r => r.matches v | none => false

/-- time fields drop their `Ms` suffix; error-code fields and time fields get a kio type -/
def primKind (name : List Nat) (p : PrimT) : KType × List Nat :=
  if errorCodeNames.contains name then (.errorCode, name)
  else if timedeltaNames.contains name then
    ((match p with | .int32 => .timedeltaI32 | _ => .timedeltaI64), name.take (name.length - 2))
  else if datetimeNames.contains name then (.datetimeI64, name.take (name.length - 2))
  else (ktypeOfPrimT p, name)

/-- nullability as the definition states it (Appendix D.4 of DESIGN.md): `nullableVersions`;
    plus the representation rules: UUIDs are always `UUID | None`; a tagged ignorable non-numeric
    primitive without default is absent-as-None; a timestamp with default -1 is None -/
def expNullable (f : FieldDef) (v : Nat) (kind : FKind) : Bool :=
  let nv := rangeMatches f.nullable v
  let tagged := rangeMatches f.tagged v
  match kind with
  | .prim k =>
    if neverNullable k then false
    else nv || k == .uuid || (tagged && f.ignorable && f.dflt.isNone)
         || (k == .datetimeI64 && f.dflt == some (strOf "-1"))
  | .primArr _ => nv
  | .struct _ => nv
  | .structArr _ => nv

/-- the value an explicit `default` denotes for Kafka type `k` (decimal / 0x integers, booleans in
    any case, strings, `null`, zero floats, millisecond durations, `-1` = null timestamp) -/
def explicitDefault (k : KType) (s : List Nat) : ExpDflt :=
  if s == strOf "null" then .value .none
  else match k with
  | .string => .value (.str (s.map (fun c => c.toUInt8)))
  | .int8 | .int16 | .int32 | .int64 | .uint16 | .uint32 | .uint64 | .errorCode =>
    (match parseInt s with | some i => .value (.int i) | none => .unsupported)
  | .bool => (match parseBool s with | some b => .value (.bool b) | none => .unsupported)
  | .float64 => (match parseInt s with
      | some _ => .unsupported        -- integer spelling of a float: outside the supported subset
      | none => match parseFloatBits s with | some b => .value (.float b) | none => .unsupported)
  | .timedeltaI32 | .timedeltaI64 =>
    (match parseInt s with | some i => .value (.timedelta (i * 1000)) | none => .unsupported)
  | .datetimeI64 => if s == strOf "-1" then .value .none else .unsupported
  | _ => .unsupported

/-- an **explicit default always wins**; otherwise a tagged ignorable primitive takes its type's
    zero value (None for types kio represents as absent), a tagged array is empty -/
def expDefault (_d : MsgDef) (f : FieldDef) (v : Nat) (kind : FKind) : ExpDflt :=
  let tagged := rangeMatches f.tagged v
  match kind with
  | .prim k =>
    (match f.dflt with
     | some s => explicitDefault k s
     | none =>
       if tagged && f.ignorable then
         (match k with
          | .int8 | .int16 | .int32 | .int64 | .uint16 | .uint32 | .uint64 | .errorCode => .value (.int 0)
          | .float64 => .value (.float 0)
          | .bool => .value (.bool false)
          | _ => .value .none)
       else .noDefault)
  | .primArr _ => .emptyArray
  | .structArr _ => if tagged then .emptyArray else .noDefault
  | .struct _ =>
    (match f.dflt with
     | some _ => .value .none
     | none =>
       if tagged then
         (match f.fields with
          | some fs => if fs.all (fun g => g.dflt.isSome && (match g.ty with | .prim _ | .struct _ => g.fields.isSome || (match g.ty with | .prim _ => true | _ => false) | _ => false))
                       then .structOfDefaults
                       else if f.ignorable then .value .none else .noDefault
          | none => if f.ignorable then .value .none else .noDefault)
       else .noDefault)

def expField (builtins : List (List Nat)) (f : FieldDef) (v : Nat) : ExpField :=
  let tag := if rangeMatches f.tagged v then f.tag else none
  match f.ty with
  | .prim p =>
    let (k, n) := primKind f.name p
    { name := toSnakeCase builtins n, kind := .prim k, nullable := expNullable f v (.prim k), tag,
      dflt := expDefault ⟨[], .data, none, .empty, .empty, [], []⟩ f v (.prim k) }
  | .primArr p =>
    { name := toSnakeCase builtins f.name, kind := .primArr (ktypeOfPrimT p),
      nullable := expNullable f v (.primArr (ktypeOfPrimT p)), tag, dflt := .emptyArray }
  | .struct n => { name := toSnakeCase builtins f.name, kind := .struct n, nullable := expNullable f v (.struct n), tag,
                   dflt := expDefault ⟨[], .data, none, .empty, .empty, [], []⟩ f v (.struct n) }
  | .structArr n => { name := toSnakeCase builtins f.name, kind := .structArr n, nullable := expNullable f v (.structArr n), tag,
                      dflt := expDefault ⟨[], .data, none, .empty, .empty, [], []⟩ f v (.structArr n) }

def fieldsAt (fs : List FieldDef) (v : Nat) : List FieldDef := fs.filter (fun f => f.versions.matches v)

/-- the structures visible at `v` below a field list, in first-use order (nested first) -/
def structuresBelow (d : MsgDef) (builtins : List (List Nat)) (v : Nat) :
    Nat → List ExpClass → List FieldDef → List ExpClass
  | 0, acc, _ => acc
  | _+1, acc, [] => acc
  | fuel+1, acc, f :: rest =>
    if !(f.versions.matches v) then structuresBelow d builtins v fuel acc rest else
    let sub : Option (List Nat × List FieldDef) := match f.ty with
      | .struct n | .structArr n =>
        (match f.fields with
         | some fs => some (n, fs)
         | none => (d.commonStructs.find? (·.name == n)).map (fun cs => (n, cs.fields)))
      | _ => none
    match sub with
    | none => structuresBelow d builtins v fuel acc rest
    | some (n, fs) =>
      if acc.any (·.name == n) then structuresBelow d builtins v fuel acc rest
      else
        let acc := structuresBelow d builtins v fuel acc fs
        let acc := if acc.any (·.name == n) then acc else
          acc ++ [{ name := n, top := false, fields := (fieldsAt fs v).map (fun f => expField builtins f v) }]
        structuresBelow d builtins v fuel acc rest

/-- all classes the definition calls for at version `v`: nested structures, then the message -/
def classesAt (d : MsgDef) (builtins : List (List Nat)) (v : Nat) : List ExpClass :=
  structuresBelow d builtins v 100000 [] d.fields
    ++ [{ name := d.name, top := true, fields := (fieldsAt d.fields v).map (fun f => expField builtins f v) }]

def flexibleAt (d : MsgDef) (v : Nat) : Bool := d.flexibleVersions.matches v

end Kio.Gen.DefSpec
