import Kio.Pinned.ApiTable
import Kio.Model.TablePreds
/-! Agreement of the walked package with the independent API table pin. -/
namespace Kio.Pinned
open Kio

def firstFlexOf (g : ApiGroup) (kind : EType) : Option Nat :=
  let fl := (g.modules.filter (fun m => m.key.kind.beq kind && m.flexible)).map (·.key.version)
  match fl with
  | [] => none
  | v :: vs => some (vs.foldl min v)

/-- the package `pin.name` exists with exactly the pinned kinds, versions `min..max` for each
    kind, the pinned key on every payload module, and the pinned first flexible version -/
def pinOk (t : Tables) (pin : ApiPin) : Bool :=
  match t.apis.find? (fun g => t.name g.api == pin.name) with
  | none => false
  | some g =>
    pin.kinds.all (fun k =>
      (g.modules.filter (·.key.kind.beq k)).map (·.key.version)
        == (List.range (pin.maxVersion + 1 - pin.minVersion)).map (· + pin.minVersion))
    && g.modules.all (fun m => pin.kinds.any (·.beq m.key.kind)
        && m.apiKey == (if m.key.kind.beq .request || m.key.kind.beq .response then pin.apiKey else none))
    && pin.firstFlexible.all (fun (k, ff) => firstFlexOf g k == ff)

def apiTableOk (t : Tables) : Bool :=
  apiTable.all (pinOk t) && t.apis.length == apiTable.length

end Kio.Pinned
