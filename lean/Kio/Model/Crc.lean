import Kio.Basic
/-!
CRC-32C (Castagnoli), bit-serial and reflected, over `BitVec 32` — the function the `crc32c`
C extension computes (check value `0xE3069283` on "123456789").
-/
namespace Kio.Crc

def poly : BitVec 32 := 0x82F63B78#32

def mask (s : BitVec 32) : BitVec 32 := if s.getLsbD 0 then poly else 0#32

/-- one LFSR step -/
def step (s : BitVec 32) : BitVec 32 := (s >>> 1) ^^^ mask s

def step8 (s : BitVec 32) : BitVec 32 := step (step (step (step (step (step (step (step s)))))))

/-- absorb one byte into the register -/
def feed (s : BitVec 32) (b : UInt8) : BitVec 32 := step8 (s ^^^ BitVec.ofNat 32 b.toNat)

/-- the register after absorbing `bs`, starting from `s` -/
def run (s : BitVec 32) (bs : Bytes) : BitVec 32 := bs.foldl feed s

/-- `crc32c(bs)` -/
def crc32c (bs : Bytes) : Nat := (run 0xFFFFFFFF#32 bs ^^^ 0xFFFFFFFF#32).toNat

end Kio.Crc
