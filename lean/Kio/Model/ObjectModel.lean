import Kio.Model.Tables
/-!
An abstract model of the operations C15 speaks about, on instances of a dataclass whose
`@dataclass(...)` parameters are given (DESIGN §6.15).  What CPython's `dataclasses` does for
each parameter combination is *modelled* here (trusted base); the theorems say what follows.
-/
namespace Kio

/-- an instance: its class and its field values in `fields()` order -/
structure Obj where
  cls : Nat
  slots : List Value
deriving Inhabited

inductive ObjErr where
  | frozenInstance      -- dataclasses.FrozenInstanceError (an AttributeError)
  | attributeError
  | typeError           -- unhashable
deriving DecidableEq, Repr

inductive Op where
  | setattr (field : Nat) (v : Value)     -- `setattr(x, name, v)` for a declared field
  | setNew (v : Value)                    -- assignment to an undeclared attribute name
  | delattr (field : Nat)
  | getattr (field : Nat)
  | hash
  | copy | deepcopy
  | replace (changes : List (Nat × Value))
  | pickle                                -- `pickle.loads(pickle.dumps(x))`

inductive Out where
  | err (e : ObjErr)
  | unit
  | value (v : Value)
  | hashOf (key : List Value)             -- the hash is a function of this tuple of field values
  | obj (o : Obj)

def setAt (l : List Value) (i : Nat) (v : Value) : List Value := l.set i v

/-- one operation on `x`: the (possibly changed) receiver and the result -/
def Obj.step (p : DCParams) (hasDict : Bool) (x : Obj) : Op → Obj × Out
  | .setattr i v =>
    if p.frozen then (x, .err .frozenInstance) else ({ x with slots := setAt x.slots i v }, .unit)
  | .setNew _ =>
    if p.frozen then (x, .err .frozenInstance)
    else if hasDict then (x, .unit) else (x, .err .attributeError)
  | .delattr i =>
    if p.frozen then (x, .err .frozenInstance) else ({ x with slots := setAt x.slots i .none }, .unit)
  | .getattr i => (x, match x.slots[i]? with | some v => .value v | none => .err .attributeError)
  | .hash =>
    -- eq ∧ frozen ⇒ __hash__ from the field tuple; eq ∧ ¬frozen ⇒ unhashable
    if p.unsafeHash || (p.eq && p.frozen) then (x, .hashOf x.slots)
    else if p.eq then (x, .err .typeError) else (x, .hashOf [])
  | .copy => (x, .obj { x with })
  | .deepcopy => (x, .obj { x with })
  | .replace ch => (x, .obj { x with slots := ch.foldl (fun s c => setAt s c.1 c.2) x.slots })
  | .pickle => (x, .obj { x with })

def Obj.run (p : DCParams) (hasDict : Bool) (x : Obj) : List Op → Obj
  | [] => x
  | op :: ops => Obj.run p hasDict (x.step p hasDict op).1 ops

/-- `x == y` for `eq=True`: same class and field tuples equal -/
def Obj.eq (x y : Obj) : Bool := x.cls == y.cls && Value.pyEqList x.slots y.slots

def Op.mutating : Op → Bool
  | .setattr .. | .setNew .. | .delattr .. => true
  | _ => false

end Kio
