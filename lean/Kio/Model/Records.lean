import Kio.Model.Prim
import Kio.Model.Crc
/-!
Model of `kio.records.readers` / `kio.records.writers` (record batch format v2), written
function by function after the Python source.
-/
namespace Kio

structure RecHeader where
  key : Option Bytes
  value : Option Bytes
deriving Repr, DecidableEq, Inhabited

structure Record where
  attributes : Int
  timestampUs : Int          -- aware datetime, µs since the epoch
  offset : Int
  key : Option Bytes
  value : Option Bytes
  headers : List RecHeader
deriving Repr, DecidableEq, Inhabited

structure RecordBatch where
  baseOffset : Int
  batchLength : Int
  partitionLeaderEpoch : Int
  crc : Int
  attributes : Int
  lastOffsetDelta : Int
  baseTimestamp : Int
  maxTimestamp : Int
  producerId : Int
  producerEpoch : Int
  baseSequence : Int
  records : List Record
deriving Repr, DecidableEq, Inhabited

structure NewRecordBatch where
  producerId : Int
  producerEpoch : Int
  partitionLeaderEpoch : Int
  baseSequence : Int
  records : List Record
  attributes : Int
deriving Repr, DecidableEq, Inhabited

/-- which variant of the repaired behaviours the code has (DESIGN §7-D/E) -/
structure RecCfg where
  /-- `read_record` / key-value reader use `read_exact` (true) or plain `buffer.read` (false) -/
  exactReads : Bool
  /-- the writer uses `round(ts*1000)` (true) or the truncating `int(ts*1000)` (false) -/
  roundTs : Bool
deriving Repr, DecidableEq

def RecCfg.shipped : RecCfg := { exactReads := false, roundTs := false }
def RecCfg.repaired : RecCfg := { exactReads := true, roundTs := true }

/-! ### reader -/

/-- `buffer.read(n)` on a BytesIO: up to `n` bytes; everything when `n` is negative -/
def readUpTo (n : Int) : Bytes → Bytes × Bytes := fun bs =>
  if n < 0 then (bs, []) else (bs.take n.toNat, bs.drop n.toNat)

/-- the inner reads: exact once repaired, plain `read` as shipped -/
def readChunk (cfg : RecCfg) (n : Int) : Dec Bytes := fun bs =>
  if cfg.exactReads then readExact n bs else .ok (readUpTo n bs)

def decSignedVarint : Dec Int := fun bs => do
  let (n, r) ← decVarint 5 bs
  pure (zigzagDec n, r)
def decSignedVarlong : Dec Int := fun bs => do
  let (n, r) ← decVarint 10 bs
  pure (zigzagDec n, r)

/-- `read_signed_compact_string_as_bytes_nullable` -/
def readSignedCompactBytes (cfg : RecCfg) : Dec (Option Bytes) := fun bs => do
  let (len, r) ← decSignedVarint bs
  if len = -1 then pure (none, r)
  else if len < 0 then .error .valueError
  else do
    let (b, r) ← readChunk cfg len r
    pure (some b, r)

def readRecHeader (cfg : RecCfg) : Dec RecHeader := fun bs => do
  let (k, r) ← readSignedCompactBytes cfg bs
  let (v, r) ← readSignedCompactBytes cfg r
  pure ({ key := k, value := v }, r)

def decManyH (cfg : RecCfg) : Nat → Dec (List RecHeader)
  | 0, bs => .ok ([], bs)
  | n+1, bs => do
    let (h, bs) ← readRecHeader cfg bs
    let (hs, bs) ← decManyH cfg n bs
    pure (h :: hs, bs)

/-- the record timestamp: `fromtimestamp(ms/1000, UTC).replace(microsecond=0)` then
    `TZAwareMicros.parse` — whole seconds only (known finding C18/I) -/
def recordTimestamp (ms : Int) : Except Err Int :=
  let (sec, _) := secMicrosOfMsFloat ms
  if sec < minDatetimeSec ∨ maxDatetimeSec < sec then .error .valueError
  else if sec < 0 then .error .typeError
  else .ok (sec * 1000000)

/-- `read_record(buffer, base_timestamp, base_offset)` -/
def readRecord (cfg : RecCfg) (baseTimestamp baseOffset : Int) : Dec Record := fun bs => do
  let (len, r) ← decSignedVarint bs
  let (body, rest) ← readChunk cfg len r
  let (attrs, b) ← decIntN 1 true body
  let (tsDelta, b) ← decSignedVarlong b
  let ts ← recordTimestamp (baseTimestamp + tsDelta)
  let (offDelta, b) ← decSignedVarint b
  let off := baseOffset + offDelta
  if off < -(2 ^ 63) ∨ 2 ^ 63 ≤ off then .error .typeError else
  let (k, b) ← readSignedCompactBytes cfg b
  let (v, b) ← readSignedCompactBytes cfg b
  let (nh, b) ← decSignedVarint b
  let (hs, b) ← decManyH cfg nh.toNat b
  if b ≠ [] then .error .valueError else
  pure ({ attributes := attrs, timestampUs := ts, offset := off, key := k, value := v, headers := hs }, rest)

def decManyR (cfg : RecCfg) (baseTimestamp baseOffset maxTimestamp : Int) : Nat → Dec (List Record)
  | 0, bs => .ok ([], bs)
  | n+1, bs => do
    let (rec, bs) ← readRecord cfg baseTimestamp baseOffset bs
    -- `record.timestamp.timestamp() > max_timestamp` (seconds against milliseconds, as written)
    if rec.timestampUs > maxTimestamp * 1000000 then .error .valueError else
    let (rs, bs) ← decManyR cfg baseTimestamp baseOffset maxTimestamp n bs
    pure (rec :: rs, bs)

/-- `read_batch(buffer)` -/
def readBatch (cfg : RecCfg) : Dec RecordBatch := fun bs => do
  let (baseOffset, r) ← decIntN 8 true bs
  let (batchLength, r) ← decIntN 4 true r
  let (chunk, rest) := readUpTo batchLength r
  let (ple, c) ← decIntN 4 true chunk
  let (magic, c) ← decIntN 1 true c
  if magic ≠ 2 then .error .valueError else
  let (crc, c) ← decIntN 4 false c
  let (covered, _) := readUpTo (batchLength - 9) c
  if crc ≠ (Crc.crc32c covered : Int) then .error .valueError else
  let (attributes, c) ← decIntN 2 true c
  let (lastOffsetDelta, c) ← decIntN 4 true c
  let (baseTimestamp, c) ← decIntN 8 true c
  let (maxTimestamp, c) ← decIntN 8 true c
  let (producerId, c) ← decIntN 8 true c
  let (producerEpoch, c) ← decIntN 2 true c
  let (baseSequence, c) ← decIntN 4 true c
  let (numRecords, c) ← decIntN 4 true c
  let (records, _) ← decManyR cfg baseTimestamp baseOffset maxTimestamp numRecords.toNat c
  pure ({ baseOffset, batchLength, partitionLeaderEpoch := ple, crc, attributes, lastOffsetDelta,
          baseTimestamp, maxTimestamp, producerId, producerEpoch, baseSequence, records }, rest)

/-! ### writer -/

def encSignedVarint (bits : Nat) (v : Int) : Except Err Bytes :=
  if -(2 ^ (bits - 1)) ≤ v ∧ v < 2 ^ (bits - 1) then .ok (encVarint (zigzagEnc v)) else .error .unspecified

def writeSignedCompactBytes : Option Bytes → Except Err Bytes
  | none => encSignedVarint 32 (-1)
  | some b => do
    let l ← encSignedVarint 32 b.length
    pure (l ++ b)

def writeRecHeader (h : RecHeader) : Except Err Bytes := do
  let a ← writeSignedCompactBytes h.key
  let b ← writeSignedCompactBytes h.value
  pure (a ++ b)

def concatMapE {α} (f : α → Except Err Bytes) : List α → Except Err Bytes
  | [] => .ok []
  | x :: xs => do
    let a ← f x
    let b ← concatMapE f xs
    pure (a ++ b)

/-- milliseconds of a record timestamp as the writer computes them -/
def recMs (cfg : RecCfg) (us : Int) : Int :=
  if cfg.roundTs then msOfMicrosFloat us else msOfMicrosFloatTrunc us

/-- `write_record(buffer, record, base_timestamp, base_offset)` -/
def writeRecord (cfg : RecCfg) (baseTimestamp baseOffset : Int) (r : Record) : Except Err Bytes := do
  let a ← encIntN 1 true r.attributes
  let t ← encSignedVarint 64 (recMs cfg r.timestampUs - baseTimestamp)
  let o ← encSignedVarint 32 (r.offset - baseOffset)
  let k ← writeSignedCompactBytes r.key
  let v ← writeSignedCompactBytes r.value
  let nh ← encSignedVarint 32 r.headers.length
  let hs ← concatMapE writeRecHeader r.headers
  let body := a ++ t ++ o ++ k ++ v ++ nh ++ hs
  let l ← encSignedVarint 32 body.length
  pure (l ++ body)

/-- `_write_batch_post_checksum` -/
def writePostChecksum (cfg : RecCfg) (attributes lastOffsetDelta baseTimestamp maxTimestamp producerId
    producerEpoch baseSequence baseOffset : Int) (records : List Record) : Except Err Bytes := do
  let a ← encIntN 2 true attributes
  let b ← encIntN 4 true lastOffsetDelta
  let c ← encIntN 8 true baseTimestamp
  let d ← encIntN 8 true maxTimestamp
  let e ← encIntN 8 true producerId
  let f ← encIntN 2 true producerEpoch
  let g ← encIntN 4 true baseSequence
  let n ← encIntN 4 true records.length
  let rs ← concatMapE (writeRecord cfg baseTimestamp baseOffset) records
  pure (a ++ b ++ c ++ d ++ e ++ f ++ g ++ n ++ rs)

/-- `_write_batch_pre_checksum` -/
def writePreChecksum (baseOffset batchLength partitionLeaderEpoch magic crc : Int) : Except Err Bytes := do
  let a ← encIntN 8 true baseOffset
  let b ← encIntN 4 true batchLength
  let c ← encIntN 4 true partitionLeaderEpoch
  let d ← encIntN 1 true magic
  let e ← encIntN 4 false crc
  pure (a ++ b ++ c ++ d ++ e)

def listMax : List Int → Int
  | [] => 0
  | x :: xs => xs.foldl max x

/-- the phantom constructors `i32(...)` / `i64(...)` raise `TypeError` out of range -/
def phantomInt (bits : Nat) (v : Int) : Except Err Int :=
  if -(2 ^ (bits - 1)) ≤ v ∧ v < 2 ^ (bits - 1) then .ok v else .error .typeError

/-- `write_new_batch(buffer, new_batch)` -/
def writeNewBatch (cfg : RecCfg) (nb : NewRecordBatch) : Except Err Bytes :=
  match nb.records with
  | [] => .error .valueError
  | first :: _ => do
    let last := nb.records.getLast?.getD first
    let baseOffset := first.offset
    let lastOffsetDelta ← phantomInt 32 (last.offset - baseOffset)
    let baseTimestamp ← phantomInt 64 (recMs cfg first.timestampUs)
    let maxTimestamp ← phantomInt 64 (recMs cfg (listMax (nb.records.map (·.timestampUs))))
    let post ← writePostChecksum cfg nb.attributes lastOffsetDelta baseTimestamp maxTimestamp
      nb.producerId nb.producerEpoch nb.baseSequence baseOffset nb.records
    let batchLength ← phantomInt 32 ((post.length : Int) + 9)
    let pre ← writePreChecksum baseOffset batchLength nb.partitionLeaderEpoch 2 (Crc.crc32c post)
    pure (pre ++ post)

/-- `write_prepared_batch(buffer, batch)` -/
def writePreparedBatch (cfg : RecCfg) (b : RecordBatch) : Except Err Bytes := do
  let pre ← writePreChecksum b.baseOffset b.batchLength b.partitionLeaderEpoch 2 b.crc
  let post ← writePostChecksum cfg b.attributes b.lastOffsetDelta b.baseTimestamp b.maxTimestamp
    b.producerId b.producerEpoch b.baseSequence b.baseOffset b.records
  pure (pre ++ post)

end Kio
