import Kio.Basic
import Kio.Model.Float
/-!
Model of `kio.serial.readers` / `kio.serial.writers` (the 66 public functions), written
function by function after the Python source.  A source is the list of remaining bytes,
a sink is the list of bytes appended.
-/
namespace Kio

/-! ## sources -/

/-- `read_exact(buffer, n)`: `buffer.read(n)` then a length test.  A negative `n` makes
    `BytesIO.read` return everything, and the length test fails. -/
def readExact (n : Int) : Dec Bytes := fun bs =>
  if 0 ≤ n ∧ n.toNat ≤ bs.length then .ok (bs.take n.toNat, bs.drop n.toNat)
  else .error .underflow

/-! ## fixed-width integers (`struct`) -/

/-- big-endian value of a byte string -/
def beNat : Bytes → Nat
  | [] => 0
  | b :: bs => b.toNat * 256 ^ bs.length + beNat bs

/-- `w` big-endian bytes of `n` (taken modulo `256^w`) -/
def natBE : Nat → Nat → Bytes
  | 0, _ => []
  | w+1, n => (n / 256 ^ w % 256).toUInt8 :: natBE w (n % 256 ^ w)

/-- `struct.unpack` of a big-endian integer of `w` bytes -/
def decIntN (w : Nat) (signed : Bool) : Dec Int := fun bs => do
  let (raw, rest) ← readExact w bs
  let u := beNat raw
  pure (if signed ∧ 2 ^ (8 * w - 1) ≤ u then (u : Int) - 2 ^ (8 * w) else (u : Int), rest)

def intLo (w : Nat) (signed : Bool) : Int := if signed then -(2 ^ (8 * w - 1)) else 0
def intHi (w : Nat) (signed : Bool) : Int := if signed then 2 ^ (8 * w - 1) - 1 else 2 ^ (8 * w) - 1

/-- `struct.pack` of an in-range integer; `struct.error` otherwise -/
def encIntN (w : Nat) (signed : Bool) (v : Int) : Except Err Bytes :=
  if intLo w signed ≤ v ∧ v ≤ intHi w signed then
    .ok (natBE w (v % 2 ^ (8 * w)).toNat)
  else .error .structError

/-- the integer a Python value denotes when `struct.pack` takes it as an integer -/
def Value.asInt? : Value → Option Int
  | .int i => some i
  | .bool b => some (if b then 1 else 0)
  | _ => Option.none

def writeIntN (w : Nat) (signed : Bool) (v : Value) : Except Err Bytes :=
  match v.asInt? with
  | some i => encIntN w signed i
  | none => .error .structError

def readBoolean : Dec Value := fun bs => do
  let (raw, rest) ← readExact 1 bs
  pure (.bool (beNat raw ≠ 0), rest)
def readInt8 : Dec Value := fun bs => do let (i, r) ← decIntN 1 true bs; pure (.int i, r)
def readInt16 : Dec Value := fun bs => do let (i, r) ← decIntN 2 true bs; pure (.int i, r)
def readInt32 : Dec Value := fun bs => do let (i, r) ← decIntN 4 true bs; pure (.int i, r)
def readInt64 : Dec Value := fun bs => do let (i, r) ← decIntN 8 true bs; pure (.int i, r)
def readUint8 : Dec Value := fun bs => do let (i, r) ← decIntN 1 false bs; pure (.int i, r)
def readUint16 : Dec Value := fun bs => do let (i, r) ← decIntN 2 false bs; pure (.int i, r)
def readUint32 : Dec Value := fun bs => do let (i, r) ← decIntN 4 false bs; pure (.int i, r)
def readUint64 : Dec Value := fun bs => do let (i, r) ← decIntN 8 false bs; pure (.int i, r)

/-- `struct.pack(">?", value)` takes the truth value of any object -/
def Value.truthy : Value → Bool
  | .int i => i ≠ 0
  | .bool b => b
  | .float b => b % 2^63 ≠ 0
  | .str s => s ≠ []
  | .bytes s => s ≠ []
  | .uuid _ => true
  | .timedelta us => us ≠ 0
  | .datetime _ => true
  | .none => false
  | .tuple vs => !vs.isEmpty
  | .entity _ => true

def writeBoolean (v : Value) : Except Err Bytes := .ok [if v.truthy then 1 else 0]
def writeInt8 := writeIntN 1 true
def writeInt16 := writeIntN 2 true
def writeInt32 := writeIntN 4 true
def writeInt64 := writeIntN 8 true
def writeUint8 := writeIntN 1 false
def writeUint16 := writeIntN 2 false
def writeUint32 := writeIntN 4 false
def writeUint64 := writeIntN 8 false

/-! ## varints -/

/-- `_write_varint` for a non-negative value (a negative one never terminates in Python) -/
def encVarint (n : Nat) : Bytes :=
  if _h : n < 128 then [n.toUInt8] else (n % 128 + 128).toUInt8 :: encVarint (n / 128)
termination_by n
decreasing_by omega

/-- `read_unsigned_varint` with `fuel = _max_bytes` -/
def decVarint : Nat → Dec Nat
  | 0, _ => .error .valueError
  | _+1, [] => .error .underflow
  | k+1, b :: rest =>
    if b.toNat < 128 then .ok (b.toNat, rest)
    else match decVarint k rest with
      | .ok (hi, rest') => .ok (b.toNat - 128 + 128 * hi, rest')
      | .error e => .error e

/-- `(value >> 1) ^ -(value & 1)` -/
def zigzagDec (n : Nat) : Int := if n % 2 = 0 then (n / 2 : Nat) else -((n / 2 : Nat) : Int) - 1

/-- `(value << 1) ^ (value >> (bits-1))` for `-(2^(bits-1)) ≤ value < 2^(bits-1)` -/
def zigzagEnc (v : Int) : Nat := if 0 ≤ v then (2 * v).toNat else (-2 * v - 1).toNat

def readUnsignedVarint : Dec Value := fun bs => do let (n, r) ← decVarint 5 bs; pure (.int n, r)
def readUnsignedVarlong : Dec Value := fun bs => do let (n, r) ← decVarint 10 bs; pure (.int n, r)
def readSignedVarint : Dec Value := fun bs => do let (n, r) ← decVarint 5 bs; pure (.int (zigzagDec n), r)
def readSignedVarlong : Dec Value := fun bs => do let (n, r) ← decVarint 10 bs; pure (.int (zigzagDec n), r)

/-- `write_unsigned_varint` / `write_unsigned_varlong`: any non-negative int is written in
    minimal base-128 form; negative values are outside the modelled domain (Python loops). -/
def writeUnsignedVarint (v : Value) : Except Err Bytes :=
  match v.asInt? with
  | some i => if 0 ≤ i then .ok (encVarint i.toNat) else .error .unspecified
  | none => .error .typeError
def writeUnsignedVarlong := writeUnsignedVarint

def writeSignedVar (bits : Nat) (v : Value) : Except Err Bytes :=
  match v.asInt? with
  | some i =>
    if -(2 ^ (bits - 1)) ≤ i ∧ i < 2 ^ (bits - 1) then .ok (encVarint (zigzagEnc i))
    else .error .unspecified
  | none => .error .typeError
def writeSignedVarint := writeSignedVar 32
def writeSignedVarlong := writeSignedVar 64

/-! ## float64 -/

def readFloat64 : Dec Value := fun bs => do
  let (raw, rest) ← readExact 8 bs
  pure (.float (beNat raw), rest)

def writeFloat64 : Value → Except Err Bytes
  | .float b => .ok (natBE 8 b)
  | _ => .error .unspecified   -- ints are converted by struct; not modelled

/-! ## UTF-8 (strict, as `bytes.decode()`) -/

def isCont (b : UInt8) : Bool := 0x80 ≤ b ∧ b ≤ 0xBF

def validUtf8 : Bytes → Bool
  | [] => true
  | b0 :: rest =>
    if b0 ≤ 0x7F then validUtf8 rest
    else if 0xC2 ≤ b0 ∧ b0 ≤ 0xDF then
      match rest with
      | b1 :: r => isCont b1 && validUtf8 r
      | _ => false
    else if 0xE0 ≤ b0 ∧ b0 ≤ 0xEF then
      match rest with
      | b1 :: b2 :: r =>
        (if b0 = 0xE0 then 0xA0 ≤ b1 ∧ b1 ≤ 0xBF
         else if b0 = 0xED then 0x80 ≤ b1 ∧ b1 ≤ 0x9F
         else isCont b1) && isCont b2 && validUtf8 r
      | _ => false
    else if 0xF0 ≤ b0 ∧ b0 ≤ 0xF4 then
      match rest with
      | b1 :: b2 :: b3 :: r =>
        (if b0 = 0xF0 then 0x90 ≤ b1 ∧ b1 ≤ 0xBF
         else if b0 = 0xF4 then 0x80 ≤ b1 ∧ b1 ≤ 0x8F
         else isCont b1) && isCont b2 && isCont b3 && validUtf8 r
      | _ => false
    else false

/-- `bytes.decode()` -/
def decodeUtf8 (b : Bytes) : Except Err Value :=
  if validUtf8 b then .ok (.str b) else .error .valueError

/-! ## strings and bytes -/

def readCompactStringAsBytesCore (nullable : Bool) : Dec (Option Bytes) := fun bs => do
  let (n, r) ← decVarint 5 bs
  if n = 0 then
    if nullable then pure (none, r) else .error .unexpectedNull
  else do
    let (raw, r) ← readExact ((n : Int) - 1) r
    pure (some raw, r)

def readCompactStringAsBytes : Dec Value := fun bs => do
  let (o, r) ← readCompactStringAsBytesCore false bs
  match o with | some b => pure (.bytes b, r) | none => pure (.none, r)
def readCompactStringAsBytesNullable : Dec Value := fun bs => do
  let (o, r) ← readCompactStringAsBytesCore true bs
  match o with | some b => pure (.bytes b, r) | none => pure (.none, r)
def readCompactString : Dec Value := fun bs => do
  let (o, r) ← readCompactStringAsBytesCore false bs
  match o with | some b => do let s ← decodeUtf8 b; pure (s, r) | none => pure (.none, r)
def readCompactStringNullable : Dec Value := fun bs => do
  let (o, r) ← readCompactStringAsBytesCore true bs
  match o with | some b => do let s ← decodeUtf8 b; pure (s, r) | none => pure (.none, r)

def readLegacyCore (w : Nat) (nullable : Bool) : Dec (Option Bytes) := fun bs => do
  let (n, r) ← decIntN w true bs
  if n = -1 then
    if nullable then pure (none, r) else .error .unexpectedNull
  else do
    let (raw, r) ← readExact n r
    pure (some raw, r)

def readLegacyBytes : Dec Value := fun bs => do
  let (o, r) ← readLegacyCore 4 false bs
  match o with | some b => pure (.bytes b, r) | none => pure (.none, r)
def readNullableLegacyBytes : Dec Value := fun bs => do
  let (o, r) ← readLegacyCore 4 true bs
  match o with | some b => pure (.bytes b, r) | none => pure (.none, r)
def readLegacyString : Dec Value := fun bs => do
  let (o, r) ← readLegacyCore 2 false bs
  match o with | some b => do let s ← decodeUtf8 b; pure (s, r) | none => pure (.none, r)
def readNullableLegacyString : Dec Value := fun bs => do
  let (o, r) ← readLegacyCore 2 true bs
  match o with | some b => do let s ← decodeUtf8 b; pure (s, r) | none => pure (.none, r)

/-- `uvarint(n)`: the phantom constructor raises `TypeError` outside `[0, 2^35)` -/
def uvarintCtor (n : Int) : Except Err Nat :=
  if 0 ≤ n ∧ n < 2 ^ 35 then .ok n.toNat else .error .typeError

/-- payload of a str / bytes value (`value.encode()` for str) -/
def Value.payload? : Value → Option Bytes
  | .str s => some s
  | .bytes b => some b
  | _ => Option.none

def writeNullableCompactString : Value → Except Err Bytes
  | .none => .ok (encVarint 0)
  | v => match v.payload? with
    | some p => do
      let n ← uvarintCtor ((p.length : Int) + 1)
      pure (encVarint n ++ p)
    | none => .error .typeError
def writeCompactString : Value → Except Err Bytes
  | .none => .error .typeError
  | v => writeNullableCompactString v

def writeNullableLegacyString : Value → Except Err Bytes
  | .none => encIntN 2 true (-1)
  | .str p =>
    if (p.length : Int) ≤ intHi 2 true then do
      let l ← encIntN 2 true p.length
      pure (l ++ p)
    else .error .outOfBound
  | _ => .error .attributeError       -- `value.encode()` on a non-str
def writeLegacyString : Value → Except Err Bytes
  | .none => .error .typeError
  | v => writeNullableLegacyString v

def writeNullableLegacyBytes : Value → Except Err Bytes
  | .none => encIntN 4 true (-1)
  | .bytes p =>
    if (p.length : Int) ≤ intHi 4 true then do
      let l ← encIntN 4 true p.length
      pure (l ++ p)
    else .error .outOfBound
  | _ => .error .unspecified
def writeLegacyBytes : Value → Except Err Bytes
  | .none => .error .typeError
  | v => writeNullableLegacyBytes v

def writeEmptyTaggedFields : Except Err Bytes := .ok (encVarint 0)

/-! ## arrays -/

def readLegacyArrayLength : Dec Int := decIntN 4 true
def readCompactArrayLength : Dec Int := fun bs => do
  let (n, r) ← decVarint 5 bs
  pure ((n : Int) - 1, r)

def writeLegacyArrayLength (v : Value) : Except Err Bytes := writeIntN 4 true v
def writeCompactArrayLength (n : Int) : Except Err Bytes := do
  let k ← uvarintCtor (n + 1)
  pure (encVarint k)

/-- `tuple(item_reader(buffer) for _ in range(n))` -/
def decMany (d : Dec Value) : Nat → Dec (List Value)
  | 0, bs => .ok ([], bs)
  | n+1, bs => do
    let (v, bs) ← d bs
    let (vs, bs) ← decMany d n bs
    pure (v :: vs, bs)

def encMany (e : Value → Except Err Bytes) : List Value → Except Err Bytes
  | [] => .ok []
  | v :: vs => do
    let a ← e v
    let b ← encMany e vs
    pure (a ++ b)

/-- `compact_array_reader(item_reader)`; `range(n)` is empty for negative `n` -/
def compactArrayReader (item : Dec Value) : Dec Value := fun bs => do
  let (n, r) ← readCompactArrayLength bs
  if n = -1 then pure (.none, r)
  else do
    let (vs, r) ← decMany item n.toNat r
    pure (.tuple vs, r)

def legacyArrayReader (item : Dec Value) : Dec Value := fun bs => do
  let (n, r) ← readLegacyArrayLength bs
  if n = -1 then pure (.none, r)
  else do
    let (vs, r) ← decMany item n.toNat r
    pure (.tuple vs, r)

def compactArrayWriter (item : Value → Except Err Bytes) : Value → Except Err Bytes
  | .none => writeCompactArrayLength (-1)
  | .tuple vs => do
    let l ← writeCompactArrayLength vs.length
    let body ← encMany item vs
    pure (l ++ body)
  | _ => .error .typeError

def legacyArrayWriter (item : Value → Except Err Bytes) : Value → Except Err Bytes
  | .none => encIntN 4 true (-1)
  | .tuple vs =>
    if (vs.length : Int) ≤ intHi 4 true then do
      let l ← encIntN 4 true vs.length
      let body ← encMany item vs
      pure (l ++ body)
    else .error .outOfBound
  | _ => .error .typeError

/-! ## UUID -/

def uuidZero : Bytes := List.replicate 16 0

def readUuid : Dec Value := fun bs => do
  let (raw, r) ← readExact 16 bs
  pure (if raw = uuidZero then .none else .uuid raw, r)

def writeUuid : Value → Except Err Bytes
  | .none => .ok uuidZero
  | .uuid b => .ok b
  | _ => .error .attributeError

/-! ## tagged field framing -/

/-- `write_tagged_field(buffer, tag, writer, value)` -/
def writeTaggedField (tag : Nat) (w : Value → Except Err Bytes) (v : Value) : Except Err Bytes := do
  let encoded ← w v
  let n ← uvarintCtor encoded.length
  pure (encVarint tag ++ encVarint n ++ encoded)

/-! ## error codes -/

def readErrorCode (codes : List Int) : Dec Value := fun bs => do
  let (i, r) ← decIntN 2 true bs
  if codes.contains i then pure (.int i, r) else .error .valueError

def writeErrorCode : Value → Except Err Bytes
  | .int i => encIntN 2 true i
  | _ => .error .attributeError

/-! ## durations and timestamps -/

/-- `datetime.timedelta(milliseconds=n)`: exact; `OverflowError` beyond ±999999999 days -/
def timedeltaOfMs (n : Int) : Except Err Value :=
  let us := n * 1000
  let days := us / 86400000000      -- floor division (Int `/` is floor for positive divisor)
  if -999999999 ≤ days ∧ days ≤ 999999999 then .ok (.timedelta us) else .error .overflowError

def readTimedeltaI32 : Dec Value := fun bs => do
  let (n, r) ← decIntN 4 true bs
  let v ← timedeltaOfMs n
  pure (v, r)
def readTimedeltaI64 : Dec Value := fun bs => do
  let (n, r) ← decIntN 8 true bs
  let v ← timedeltaOfMs n
  pure (v, r)

/-- which arithmetic the duration / timestamp conversions use; the shipped code went through
    `float`, the repaired code is exact (DESIGN §7-B/C). Selected by the regenerated data. -/
structure TimeCfg where
  /-- `write_timedelta_*`: true = exact divmod rounding, false = `round(total_seconds()*1000)` -/
  tdExact : Bool
  /-- `tz_aware_from_i64`: true = epoch + timedelta(milliseconds), false = `fromtimestamp(ms/1000)` -/
  dtExact : Bool
  /-- `TZAware` keeps milliseconds (true) or whole seconds only (false) -/
  dtMillis : Bool
deriving Repr, DecidableEq

/-- the tree as shipped at the pinned commit -/
def TimeCfg.shipped : TimeCfg := { tdExact := false, dtExact := false, dtMillis := false }
/-- the tree after the `fix:` commits B and C -/
def TimeCfg.repaired : TimeCfg := { tdExact := true, dtExact := true, dtMillis := true }

/-- round-half-even of `us / 1000` in integer arithmetic -/
def msOfMicrosExact (us : Int) : Int :=
  let q := us / 1000
  let r := us % 1000
  if 2 * r > 1000 ∨ (2 * r = 1000 ∧ q % 2 ≠ 0) then q + 1 else q

def msOfTimedelta (cfg : TimeCfg) (us : Int) : Int :=
  if cfg.tdExact then msOfMicrosExact us else msOfMicrosFloat us

def writeTimedelta (cfg : TimeCfg) (w : Nat) : Value → Except Err Bytes
  | .timedelta us => encIntN w true (msOfTimedelta cfg us)
  | _ => .error .attributeError
def writeTimedeltaI32 (cfg : TimeCfg) := writeTimedelta cfg 4
def writeTimedeltaI64 (cfg : TimeCfg) := writeTimedelta cfg 8

def minDatetimeSec : Int := -62135596800     -- 0001-01-01T00:00:00Z
def maxDatetimeSec : Int := 253402300799     -- 9999-12-31T23:59:59Z

/-- `tz_aware_from_i64(ms)`: value in µs since the epoch -/
def tzAwareFromI64 (cfg : TimeCfg) (ms : Int) : Except Err Value :=
  if cfg.dtExact then
    -- `_epoch + timedelta(milliseconds=ms)`, then `TZAware.truncate`
    match timedeltaOfMs ms with
    | .error e => .error e
    | .ok _ =>
      let sec := ms / 1000
      if sec < minDatetimeSec ∨ maxDatetimeSec < sec then .error .overflowError
      else if ms < 0 then .error .outOfBound
      else .ok (.datetime (if cfg.dtMillis then ms * 1000 else sec * 1000000))
  else
    let (sec, us) := secMicrosOfMsFloat ms
    if sec < minDatetimeSec ∨ maxDatetimeSec < sec then .error .valueError
    else
      let us' := if cfg.dtMillis then us / 1000 * 1000 else 0
      if sec * 1000000 + us' < 0 then .error .outOfBound
      else .ok (.datetime (sec * 1000000 + us'))

def readDatetimeI64 (cfg : TimeCfg) : Dec Value := fun bs => do
  let (n, r) ← decIntN 8 true bs
  let v ← tzAwareFromI64 cfg n
  pure (v, r)
def readNullableDatetimeI64 (cfg : TimeCfg) : Dec Value := fun bs => do
  let (n, r) ← decIntN 8 true bs
  if n = -1 then pure (.none, r)
  else do
    let v ← tzAwareFromI64 cfg n
    pure (v, r)

/-- `round(value.timestamp() * 1000)` -/
def writeDatetimeI64 : Value → Except Err Bytes
  | .datetime us => encIntN 8 true (msOfMicrosFloat us)
  | _ => .error .attributeError
def writeNullableDatetimeI64 : Value → Except Err Bytes
  | .none => encIntN 8 true (-1)
  | v => writeDatetimeI64 v

end Kio
