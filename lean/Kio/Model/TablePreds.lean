import Kio.Model.Tables
/-!
Decidable statements of C08, C09, C14, C15 (parameters) over a `Tables` value.
Written with Boolean connectives so that kernel evaluation (`decide +kernel`) is cheap.
-/
namespace Kio

/-- `x = .ok n`, decidably -/
def isOk (x : Except IndexErr Nat) (n : Nat) : Bool :=
  match x with | .ok m => m == n | .error _ => false

/-! ### C08 — header schema and pairing -/

/-- class indices of request header v0..v2 and response header v0..v1 (looked up once) -/
def Tables.headerIdxs (t : Tables) : List (Option Nat) × List (Option Nat) :=
  ([0, 1, 2].map (fun v => (t.headerClass true v).map (·.idx)),
   [0, 1].map (fun v => (t.headerClass false v).map (·.idx)))

/-- the header class the Kafka rule names for payload class `c` -/
def expectedHeaderIdx (hs : List (Option Nat) × List (Option Nat)) (c : ClassInfo) : Option Nat :=
  match c.etype, c.apiKey with
  | .request, some k => (hs.1.getD (Spec.requestHeaderVersion k c.version c.flexible) none)
  | .response, some k => (hs.2.getD (Spec.responseHeaderVersion k c.flexible) none)
  | _, _ => none

/-- `c` advertises exactly the mandated header class -/
def headerOk (hs : List (Option Nat) × List (Option Nat)) (c : ClassInfo) : Bool :=
  match c.etype with
  | .request | .response =>
    (match expectedHeaderIdx hs c, c.headerIdx with
     | some h, some i => h == i
     | _, _ => false)
  | _ => true

/-- the header classes themselves: the packages are named `request_header` / `response_header`,
    versions 0..2 / 0..1 exist, flexible exactly for request v2 / response v1 -/
def Tables.headerClassesOk (t : Tables) : Bool :=
  t.name t.reqHeaderApi == strOf "request_header" && t.name t.respHeaderApi == strOf "response_header" &&
  [0, 1, 2].all (fun v => match t.headerClass true v with
    | some h => h.flexible == Spec.headerFlexible true v && h.version == (v : Int) && h.etype.beq .header
    | none => false)
  && [0, 1].all (fun v => match t.headerClass false v with
    | some h => h.flexible == Spec.headerFlexible false v && h.version == (v : Int) && h.etype.beq .header
    | none => false)

/-- request and response of the same API version share key and flexibility, and the index maps
    each to the other (mutually inverse pairing) -/
def Tables.pairingOk (t : Tables) (c : ClassInfo) : Bool :=
  match c.etype with
  | .request =>
    (match t.responseFromRequest c with
     | .ok ri => (match t.cls? ri with
        | some r => r.etype.beq .response && r.apiKey == c.apiKey && r.flexible == c.flexible
                    && r.version == c.version && isOk (t.requestFromResponse r) c.idx
        | none => false)
     | .error _ => false)
  | .response =>
    (match t.requestFromResponse c with
     | .ok ri => (match t.cls? ri with
        | some r => r.etype.beq .request && r.apiKey == c.apiKey && r.flexible == c.flexible
                    && r.version == c.version && isOk (t.responseFromRequest r) c.idx
        | none => false)
     | .error _ => false)
  | _ => true

def Tables.c08 (t : Tables) : Bool :=
  let hs := t.headerIdxs
  t.headerClassesOk && t.allClasses (fun c => headerOk hs c && t.pairingOk c)

/-! ### C09 — the dynamic index -/

/-- every walked module has an index entry that resolves to that module and to its top-level
    class (uniqueness of entries is `indexNodup`) -/
def Tables.moduleIndexed (t : Tables) (m : ModuleInfo) : Bool :=
  match t.entityPath m.key.api m.key.version m.key.kind with
  | .ok leaf => (match leaf.module with | some k => k.beq m.key | none => false)
                && leaf.classIdx == some m.top
  | .error _ => false

/-- every index leaf points at a walked module of the same (name, version, kind); only the four
    loadable entity types occur -/
def Tables.indexWalked (t : Tables) : Bool :=
  t.index.all (fun n => n.versions.all (fun v => 0 ≤ v.1 && v.2.all (fun leaf =>
    !leaf.etype.beq .nested
    && (match leaf.module with
        | some k => k.api == n.name && (k.version : Int) == v.1 && k.kind.beq leaf.etype
                    && (t.module? k).isSome
        | none => false))))

def etypeRank : EType → Nat
  | .request => 0 | .response => 1 | .header => 2 | .data => 3 | .nested => 4

/-- no (name, version, type) occurs twice in the index -/
def Tables.indexNodup (t : Tables) : Bool :=
  decide (t.index.map (·.name)).Nodup
  && t.index.all (fun n => decide (n.versions.map (·.1)).Nodup
      && n.versions.all (fun v => decide (v.2.map (fun l => etypeRank l.etype)).Nodup))

/-- API keys ↔ API names one-to-one; the names are exactly the packages that have
    request/response modules; the key in the map is the key the classes carry -/
def Tables.keysOk (t : Tables) : Bool :=
  decide (t.apiKeys.map (·.1)).Nodup && decide (t.apiKeys.map (·.2)).Nodup
  && t.apiKeys.all (fun e => match t.group? e.2 with
      | some g => g.modules.any (·.key.kind.beq .request)
      | none => false)
  && t.allModules (fun m =>
      let payload := m.key.kind.beq .request || m.key.kind.beq .response
      match m.apiKey with
      | some k => payload && (t.apiKeys.find? (fun e => e.1 == k)).map (·.2) == some m.key.api
      | none => !payload)

/-- the grouping of walked modules is consistent and has no duplicates -/
def Tables.groupsOk (t : Tables) : Bool :=
  decide (t.apis.map (·.api)).Nodup
  && t.apis.all (fun g => g.modules.all (·.key.api == g.api)
      && decide (g.modules.map (fun m => (m.key.version, etypeRank m.key.kind))).Nodup)

def Tables.c09 (t : Tables) : Bool :=
  t.allModules t.moduleIndexed && t.indexWalked && t.indexNodup && t.keysOk && t.groupsOk && t.namesOk

/-! ### C14 — the versions of an API form a coherent family -/

/-- within a module every class carries the module's version, flexibility, key and header, and
    the path names the same API, version and kind as the top-level class -/
def Tables.moduleCoherent (t : Tables) (m : ModuleInfo) : Bool :=
  match t.cls? m.top with
  | none => false
  | some top =>
    top.etype.beq m.key.kind && top.flexible == m.flexible && top.apiKey == m.apiKey
    && top.headerIdx == m.headerIdx && top.version == (m.key.version : Int) && m.classes.contains m.top
    && m.classes.all (fun ci => match t.cls? ci with
        | some c => c.mod.beq m.key && c.version == (m.key.version : Int) && c.flexible == m.flexible
                    && c.apiKey == m.apiKey && c.headerIdx == m.headerIdx
                    && (c.idx == m.top || c.etype.beq .nested) && c.idx == ci
                    -- the structures a class is built from are defined in the same module
                    && c.refs.all (fun r => m.classes.contains r)
        | none => false)
    && apiPackageName (t.name top.nameId) == t.name m.key.api
    && ((m.key.kind.beq .request || m.key.kind.beq .response) == m.apiKey.isSome)

/-- every class is listed by exactly one walked module: the class lists of the modules, in walk
    order, enumerate `0, 1, …, n-1` (with `moduleCoherent`: class `i` names that module) -/
def Tables.classesCovered (t : Tables) : Bool :=
  (t.modules.map (·.classes)).flatten == List.range (t.classChunks.map (·.length)).sum

def contiguous (vs : List Nat) : Bool :=
  match vs with
  | [] => true
  | v :: _ =>
    let lo := vs.foldl min v
    let hi := vs.foldl max v
    decide vs.Nodup && vs.length == hi - lo + 1

def ApiGroup.versionsOf (g : ApiGroup) (kind : EType) : List Nat :=
  (g.modules.filter (·.key.kind.beq kind)).map (·.key.version)

/-- per (API, kind): contiguous versions, flexibility monotone in the version, constant key;
    requests and responses exist for exactly the same versions -/
def ApiGroup.familyOk (g : ApiGroup) : Bool :=
  [EType.request, .response, .header, .data].all (fun kind =>
    let fam := g.modules.filter (·.key.kind.beq kind)
    contiguous (fam.map (·.key.version))
    && fam.all (fun a => fam.all (fun b =>
        (!(a.key.version ≤ b.key.version && a.flexible) || b.flexible) && a.apiKey == b.apiKey)))
  && (g.versionsOf .request).all (fun v => (g.versionsOf .response).contains v)
  && (g.versionsOf .response).all (fun v => (g.versionsOf .request).contains v)
  && g.modules.all (fun m => !m.key.kind.beq .nested)

/-- the key of an API is unique to that API: `api_key_map` is injective both ways and every
    payload module's key is the one the map gives for its API name -/
def Tables.keyUnique (t : Tables) : Bool :=
  decide (t.apiKeys.map (·.1)).Nodup && decide (t.apiKeys.map (·.2)).Nodup
  && t.allModules (fun m => match m.apiKey with
      | some k => (t.apiKeys.find? (fun e => e.1 == k)).map (·.2) == some m.key.api
      | none => true)

def Tables.c14 (t : Tables) : Bool :=
  t.allModules t.moduleCoherent && t.classesCovered && t.apis.all ApiGroup.familyOk
  && t.keyUnique && t.groupsOk && t.namesOk

/-! ### C15 — dataclass parameters that make instances immutable, hashable values -/

def ClassInfo.valueObject (c : ClassInfo) : Bool :=
  (match c.params with
   | some p => p.frozen && p.eq && p.slots && !p.unsafeHash && p.init && !p.order
   | none => false)
  && c.hasSlots && !c.hasDict && c.hashable
  && c.fields.all (fun f => f.immutableType && f.compare && f.init && !f.hasDefaultFactory)
  && c.hashGenerated

def Tables.c15 (t : Tables) : Bool := t.allClasses ClassInfo.valueObject

end Kio
