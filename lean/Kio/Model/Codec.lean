import Kio.Model.Schema
/-!
Model of `kio.serial._parse.entity_reader` and `kio.serial._serialize.entity_writer`.

Python builds a *plan* (closures per field) once and then runs it.  Here the plan is the pair
of mutually recursive functions `Schema.read` / `Schema.write` (total closures), and the errors
Python raises while *building* the plan are computed by `Schema.readerBuildErr` /
`Schema.writerBuildErr`; `dec` / `enc` check the build first, as `entity_reader(T)(buffer)` does.
-/
namespace Kio

def FieldMeta.tagNat (m : FieldMeta) : Option Nat := m.tag.map Int.toNat
def Field.tagNat : Field → Option Nat | .mk m _ => m.tagNat
def Field.isTagged : Field → Bool | .mk m _ => m.tag.isSome

/-! ### tagged section, reader side -/

structure TaggedR where
  tag : Nat
  read : Dec Value
  dflt : Value

def lookupTagged (plan : List TaggedR) (t : Nat) : Option TaggedR :=
  plan.find? (fun e => e.tag = t)

/-- the loop over `num_tagged_fields` in `read_entity`: known tag → its reader (the size prefix
    is read and ignored); unknown tag → `KeyError` as shipped, skipped by size once repaired. -/
def readTaggedLoop (skipUnknown : Bool) (plan : List TaggedR) :
    Nat → Bytes → List (Nat × Value) → Except Err (List (Nat × Value) × Bytes)
  | 0, bs, acc => .ok (acc, bs)
  | n+1, bs, acc => do
    let (tag, bs) ← decVarint 5 bs
    let (size, bs) ← decVarint 5 bs
    match lookupTagged plan tag with
    | some e => do
      let (v, bs) ← e.read bs
      readTaggedLoop skipUnknown plan n bs ((tag, v) :: acc)
    | none =>
      if skipUnknown then do
        let (_, bs) ← readExact size bs
        readTaggedLoop skipUnknown plan n bs acc
      else .error .keyError

/-- `tagged_field_values.get(name, default)`: the most recent entry for the tag wins -/
def taggedValue (acc : List (Nat × Value)) (t : Nat) (dflt : Value) : Value :=
  match acc.find? (fun a => a.1 = t) with
  | some a => a.2
  | none => dflt

/-- per field: `none` = untagged (value comes from the sequential part), `some (tag, default)` -/
abbrev Slot := Option (Nat × Value)

/-- `entity_type(**kwargs)`: values in `fields()` order -/
def assemble : List Slot → List Value → List (Nat × Value) → List Value
  | [], _, _ => []
  | none :: ss, u :: us, acc => u :: assemble ss us acc
  | none :: ss, [], acc => .none :: assemble ss [] acc      -- unreachable: one value per untagged slot
  | some (t, d) :: ss, us, acc => taggedValue acc t d :: assemble ss us acc

/-! ### tagged section, writer side -/

def insertByTag (x : Nat × Bytes) : List (Nat × Bytes) → List (Nat × Bytes)
  | [] => [x]
  | y :: ys => if x.1 ≤ y.1 then x :: y :: ys else y :: insertByTag x ys

def sortByTag : List (Nat × Bytes) → List (Nat × Bytes)
  | [] => []
  | x :: xs => insertByTag x (sortByTag xs)

def flattenItems (items : List (Nat × Bytes)) : Bytes := (items.map (·.2)).flatten

/-! ### nullable entities -/

/-- `read_nullable_entity`: `NullableEntityMarker(read_int8(buffer))` -/
def readNullable (inner : Dec Value) : Dec Value := fun bs => do
  let (m, r) ← decIntN 1 true bs
  if m = -1 then pure (.none, r)
  else if m = 1 then inner r
  else .error .valueError

def writeNullable (inner : Value → Except Err Bytes) : Value → Except Err Bytes
  | .none => encIntN 1 true (-1)
  | v => do
    let a ← encIntN 1 true 1
    let b ← inner v
    pure (a ++ b)

/-! ### readers -/

/-- the primitive reader `get_field_reader` picks for a primitive (array) field -/
def primFieldReader (env : Env) (m : FieldMeta) (flex : Bool) (optional : Bool) : Dec Value :=
  match m.schemaFieldType with
  | .error e => fun _ => .error e
  | .ok k => match getReader k flex optional with
    | .error e => fun _ => .error e
    | .ok r => r.run env

/-- the `optional` flag `get_field_reader` looks the reader of a primitive field up with: a
    nullable tagged field gets the nullable reader when the type has one (repaired; a peer may
    send an explicit null), the plain one otherwise — and always the plain one as shipped -/
def readerOptional (env : Env) (k : KType) (flex o tagged : Bool) : Bool :=
  o && (!tagged || (env.nullableTaggedReader && (getReader k flex true).toOption.isSome))

/-- the reader of a primitive (non-array) field -/
def primFieldReaderT (env : Env) (m : FieldMeta) (flex o tagged : Bool) : Dec Value :=
  match m.schemaFieldType with
  | .error e => fun _ => .error e
  | .ok k => match getReader k flex (readerOptional env k flex o tagged) with
    | .error e => fun _ => .error e
    | .ok r => r.run env

def arrayReader (flex : Bool) (item : Dec Value) : Dec Value :=
  if flex then compactArrayReader item else legacyArrayReader item

/-- per-field slots for `assemble` (tag and resolved default of each tagged field) -/
def Fields.slots (env : Env) : List Field → List Slot
  | [] => []
  | f :: fs =>
    (match f.tagNat with
     | none => none
     | some t => some (t, (Field.taggedDefault env f).toOption.getD .none)) :: Fields.slots env fs

mutual
/-- `read_entity` of `entity_reader(T)` -/
def Schema.read (env : Env) : Schema → Dec Value
  | .mk _ flex rh fs => fun bs => do
    let (us, bs) ← Fields.readUntagged env flex rh fs bs
    if !flex then pure (.entity (assemble (Fields.slots env fs) us []), bs)
    else do
      let (n, bs) ← decVarint 5 bs
      let (acc, bs) ← readTaggedLoop env.skipUnknownTags (Fields.taggedPlan env flex rh fs) n bs []
      pure (.entity (assemble (Fields.slots env fs) us acc), bs)
/-- the untagged fields, in declaration order -/
def Fields.readUntagged (env : Env) (flex rh : Bool) : List Field → Dec (List Value)
  | [], bs => .ok ([], bs)
  | f :: fs, bs =>
    if f.isTagged then Fields.readUntagged env flex rh fs bs
    else do
      let (v, bs) ← Field.read env flex rh false f bs
      let (vs, bs) ← Fields.readUntagged env flex rh fs bs
      pure (v :: vs, bs)
/-- `tagged_field_readers` -/
def Fields.taggedPlan (env : Env) (flex rh : Bool) : List Field → List TaggedR
  | [] => []
  | f :: fs =>
    match f.tagNat with
    | none => Fields.taggedPlan env flex rh fs
    | some t =>
      { tag := t, read := Field.read env flex rh true f,
        dflt := (Field.taggedDefault env f).toOption.getD .none }
        :: Fields.taggedPlan env flex rh fs
/-- `get_field_reader(entity_type, field, is_request_header, is_tagged_field)` -/
def Field.read (env : Env) (flex rh tagged : Bool) : Field → Dec Value
  | .mk m sh =>
    if rh && m.isClientId then readNullableLegacyString
    else Shape.read env flex tagged m sh
def Shape.read (env : Env) (flex tagged : Bool) (m : FieldMeta) : Shape → Dec Value
  | .prim _ o => primFieldReaderT env m flex o tagged
  | .primArr _ e a => arrayReader flex (primFieldReader env m flex (e || a))
  | .ent s o => if o then readNullable (Schema.read env s) else Schema.read env s
  | .entArr s _ => arrayReader flex (Schema.read env s)
  | .bad => fun _ => .error .schemaError
end


/-! ### writers -/

def primFieldWriter (env : Env) (m : FieldMeta) (flex : Bool) (optional : Bool) : Value → Except Err Bytes :=
  match m.schemaFieldType with
  | .error e => fun _ => .error e
  | .ok k => match getWriter k flex optional with
    | .error e => fun _ => .error e
    | .ok w => w.run env

def arrayWriter (flex : Bool) (item : Value → Except Err Bytes) : Value → Except Err Bytes :=
  if flex then compactArrayWriter item else legacyArrayWriter item

mutual
/-- `write_entity` of `entity_writer(T)` -/
def Schema.write (env : Env) : Schema → Value → Except Err Bytes
  | .mk _ flex rh fs, .entity vs => do
    let a ← Fields.writeUntagged env flex rh fs vs
    if !flex then pure a
    else do
      let items ← Fields.taggedItems env flex rh fs vs
      let sorted := sortByTag items
      let n ← uvarintCtor sorted.length
      pure (a ++ encVarint n ++ flattenItems sorted)
  | _, _ => .error .attributeError
/-- the untagged fields in declaration order, `getattr(entity, field.name)` by position -/
def Fields.writeUntagged (env : Env) (flex rh : Bool) : List Field → List Value → Except Err Bytes
  | [], [] => .ok []
  | f :: fs, v :: vs =>
    if f.isTagged then Fields.writeUntagged env flex rh fs vs
    else do
      let a ← Field.write env flex rh false f v
      let b ← Fields.writeUntagged env flex rh fs vs
      pure (a ++ b)
  | _, _ => .error .unspecified      -- a dataclass instance always has one value per field
/-- for every tagged field whose value differs from its default: `(tag, write_tagged_field …)` -/
def Fields.taggedItems (env : Env) (flex rh : Bool) : List Field → List Value → Except Err (List (Nat × Bytes))
  | [], [] => .ok []
  | f :: fs, v :: vs =>
    match f.tagNat with
    | none => Fields.taggedItems env flex rh fs vs
    | some t =>
      if v.pyEq ((Field.taggedDefault env f).toOption.getD .none) then Fields.taggedItems env flex rh fs vs
      else do
        let item ← writeTaggedField t (Field.write env flex rh true f) v
        let rest ← Fields.taggedItems env flex rh fs vs
        pure ((t, item) :: rest)
  | _, _ => .error .unspecified
/-- `get_field_writer(field, flexible, is_request_header, is_tag)` -/
def Field.write (env : Env) (flex rh tagged : Bool) : Field → Value → Except Err Bytes
  | .mk m sh =>
    if rh && m.isClientId then writeNullableLegacyString
    else Shape.write env flex tagged m sh
def Shape.write (env : Env) (flex tagged : Bool) (m : FieldMeta) : Shape → Value → Except Err Bytes
  | .prim _ o => primFieldWriter env m flex (!tagged && o)
  | .primArr _ e a => arrayWriter flex (primFieldWriter env m flex (!tagged && (e || a)))
  | .ent s o => if !tagged && o then writeNullable (Schema.write env s) else Schema.write env s
  | .entArr s _ => arrayWriter flex (Schema.write env s)
  | .bad => fun _ => .error .schemaError
end

/-! ### errors raised while building the plan -/

def firstErr : List (Option Err) → Option Err
  | [] => none
  | some e :: _ => some e
  | none :: r => firstErr r

def exceptErr {α} : Except Err α → Option Err
  | .ok _ => none
  | .error e => some e

/-- duplicate tags make Python's dict-based plan drop fields; outside the modelled domain -/
def dupTags (fs : List Field) : Bool :=
  let ts := fs.filterMap Field.tagNat
  !ts.Nodup

instance (l : List Nat) : Decidable l.Nodup := inferInstance

mutual
/-- errors of `entity_reader(T, nullable)` (raised before any byte is read) -/
def Schema.readerBuildErr (env : Env) : Schema → Option Err
  | .mk _ flex rh fs =>
    match Fields.readerBuildErr env flex rh fs with
    | some e => some e
    | none =>
      if fs.any Field.isTagged && !flex then some .valueError
      else if dupTags fs then some .unspecified else none
def Fields.readerBuildErr (env : Env) (flex rh : Bool) : List Field → Option Err
  | [] => none
  | f :: fs =>
    match Field.readerBuildErr env flex rh f with
    | some e => some e
    | none => Fields.readerBuildErr env flex rh fs
/-- per field: `get_field_tag`, `get_field_reader`, then `get_tagged_field_default` if tagged -/
def Field.readerBuildErr (env : Env) (flex rh : Bool) : Field → Option Err
  | .mk m sh =>
    match m.getTag with
    | .error e => some e
    | .ok tag =>
      let r := if rh && m.isClientId then none else Shape.readerBuildErr env flex tag.isSome m sh
      match r with
      | some e => some e
      | none => if tag.isSome then exceptErr (Field.taggedDefault env (.mk m sh)) else none
def Shape.readerBuildErr (env : Env) (flex tagged : Bool) (m : FieldMeta) : Shape → Option Err
  | .prim _ o => exceptErr (do let k ← m.schemaFieldType; getReader k flex (readerOptional env k flex o tagged))
  | .primArr _ e a => exceptErr (do let k ← m.schemaFieldType; getReader k flex (e || a))
  | .ent s _ => Schema.readerBuildErr env s
  | .entArr s _ => Schema.readerBuildErr env s
  | .bad => some .schemaError
end

mutual
/-- errors of `entity_writer(T, nullable)` -/
def Schema.writerBuildErr (env : Env) : Schema → Option Err
  | .mk _ flex rh fs =>
    match Fields.writerBuildErr env flex rh fs with
    | some e => some e
    | none =>
      if fs.any Field.isTagged && !flex then some .valueError
      else if dupTags fs then some .unspecified else none
def Fields.writerBuildErr (env : Env) (flex rh : Bool) : List Field → Option Err
  | [] => none
  | f :: fs =>
    match Field.writerBuildErr env flex rh f with
    | some e => some e
    | none => Fields.writerBuildErr env flex rh fs
def Field.writerBuildErr (env : Env) (flex rh : Bool) : Field → Option Err
  | .mk m sh =>
    match m.getTag with
    | .error e => some e
    | .ok tag =>
      let r := if rh && m.isClientId then none else Shape.writerBuildErr env flex tag.isSome m sh
      match r with
      | some e => some e
      | none => if tag.isSome then exceptErr (Field.taggedDefault env (.mk m sh)) else none
def Shape.writerBuildErr (env : Env) (flex tagged : Bool) (m : FieldMeta) : Shape → Option Err
  | .prim _ o => exceptErr (do let k ← m.schemaFieldType; getWriter k flex (!tagged && o))
  | .primArr _ e a => exceptErr (do let k ← m.schemaFieldType; getWriter k flex (!tagged && (e || a)))
  | .ent s _ => Schema.writerBuildErr env s
  | .entArr s _ => Schema.writerBuildErr env s
  | .bad => some .schemaError
end

/-- `entity_reader(T)(buffer)` -/
def dec (env : Env) (s : Schema) : Dec Value := fun bs =>
  match s.readerBuildErr env with
  | some e => .error e
  | none => s.read env bs

/-- `entity_writer(T)(buffer, v)`: the bytes appended -/
def enc (env : Env) (s : Schema) (v : Value) : Except Err Bytes :=
  match s.writerBuildErr env with
  | some e => .error e
  | none => s.write env v

end Kio
