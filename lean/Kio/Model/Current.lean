import Kio.Model.Codec
import Kio.Model.Records
/-!
Which variant of the repaired behaviours the *current* /repo tree has (DESIGN §7).  Hand-set to
describe the code as it is; the correspondence check is what verifies it on every run.
-/
namespace Kio

def Env.shipped (codes : List Int) : Env :=
  { errorCodes := codes, time := .shipped, skipUnknownTags := false, nullableTaggedReader := false }
def Env.repaired (codes : List Int) : Env :=
  { errorCodes := codes, time := .repaired, skipUnknownTags := true, nullableTaggedReader := true }

/-- the model of the tree as it is now -/
def Env.current (codes : List Int) : Env :=
  { errorCodes := codes,
    time := { tdExact := true, dtExact := true, dtMillis := true },
    skipUnknownTags := true,
    nullableTaggedReader := true }

/-- the record-batch code as it is now -/
def RecCfg.current : RecCfg := RecCfg.repaired

end Kio
