import Kio.Model.Prim
/-!
What `dataclasses.fields()` / class attributes show of an entity class (DESIGN §3.3), and the
model of `kio.serial._introspect` / `_implicit_defaults`.
-/
namespace Kio

/-- the `kafka_type` metadata strings kio's dispatch tables know -/
inductive KType where
  | int8 | int16 | int32 | int64 | uint8 | uint16 | uint32 | uint64 | float64
  | string | bytes | records | uuid | bool | errorCode | timedeltaI32 | timedeltaI64 | datetimeI64
  | unknown        -- a string naming none of the above
  | notStr         -- metadata value that is not a `str` (SchemaError)
deriving DecidableEq, Repr, Inhabited

/-- kio's primitive Python classes (annotation leaves) -/
inductive PyBase where
  | i8 | i16 | i32 | i64 | u8 | u16 | u32 | u64 | f64 | str | bytes | records | uuid | bool
  | errorCode | i32Timedelta | i64Timedelta | tzAware | other
deriving DecidableEq, Repr, Inhabited

/-- an annotation leaf class: one of kio's primitives, or a direct subclass of one
    (`BrokerId(i32)`, `TopicName(str)` …) -/
structure PyLeaf where
  base : PyBase
  isSub : Bool
deriving DecidableEq, Repr, Inhabited

/-- `field.default` -/
inductive Dflt where
  | missing
  | val (v : Value)
  | unrepresentable     -- something the translator cannot express (makes `Coherent` false)
deriving Repr, Inhabited

structure FieldMeta where
  nameId : Nat
  isClientId : Bool              -- `field.name == "client_id"`
  kafkaType : Option KType       -- `field.metadata.get("kafka_type")`
  tag : Option Int               -- `field.metadata.get("tag")`
  dflt : Dflt
  extraMeta : Bool               -- metadata has keys other than `kafka_type` / `tag`
deriving Repr, Inhabited

mutual
inductive Schema where
  | mk (nameId : Nat) (flexible : Bool) (isRequestHeader : Bool) (fields : List Field)
inductive Field where
  | mk (m : FieldMeta) (shape : Shape)
/-- the annotation, by the shapes `classify_field` / `is_optional` distinguish -/
inductive Shape where
  | prim (l : PyLeaf) (opt : Bool)                       -- `P`, `P | None`
  | primArr (l : PyLeaf) (elemOpt arrOpt : Bool)         -- `tuple[P, ...]`, `tuple[P | None, ...]`, `… | None`
  | ent (s : Schema) (opt : Bool)                        -- `E`, `E | None`
  | entArr (s : Schema) (arrOpt : Bool)                  -- `tuple[E, ...]`, `tuple[E, ...] | None`
  | bad                                                  -- anything else (`SchemaError`)
end

instance : Inhabited Schema := ⟨.mk 0 false false []⟩
instance : Inhabited Shape := ⟨.bad⟩
instance : Inhabited Field := ⟨.mk default .bad⟩

def Schema.nameId : Schema → Nat | .mk n _ _ _ => n
def Schema.flexible : Schema → Bool | .mk _ f _ _ => f
def Schema.isRequestHeader : Schema → Bool | .mk _ _ r _ => r
def Schema.fields : Schema → List Field | .mk _ _ _ fs => fs
def Field.meta : Field → FieldMeta | .mk m _ => m
def Field.shape : Field → Shape | .mk _ s => s

/-- `is_optional(field)` -/
def Shape.isOptional : Shape → Except Err Bool
  | .prim _ o => .ok o
  | .primArr _ e a => .ok (e || a)
  | .ent _ o => .ok o
  | .entArr _ a => .ok a
  | .bad => .error .schemaError

def Shape.isArray : Shape → Bool
  | .primArr .. | .entArr .. => true
  | _ => false

def Shape.isEntity : Shape → Bool
  | .ent .. | .entArr .. => true
  | _ => false

/-- `get_field_tag(field)`: `uvarint(metadata["tag"])` or `None` -/
def FieldMeta.getTag (m : FieldMeta) : Except Err (Option Nat) :=
  match m.tag with
  | none => .ok none
  | some t => do let n ← uvarintCtor t; pure (some n)

/-- `get_schema_field_type(field)` -/
def FieldMeta.schemaFieldType (m : FieldMeta) : Except Err KType :=
  match m.kafkaType with
  | none => .error .schemaError
  | some .notStr => .error .schemaError
  | some k => .ok k

/-- names of the primitive reader functions the dispatch table returns -/
inductive PrimR where
  | int8 | int16 | int32 | int64 | uint8 | uint16 | uint32 | uint64 | float64
  | compactString | compactStringNullable | legacyString | nullableLegacyString
  | compactBytes | compactBytesNullable | legacyBytes | nullableLegacyBytes
  | uuid | boolean | errorCode | timedeltaI32 | timedeltaI64 | datetimeI64 | nullableDatetimeI64
deriving DecidableEq, Repr

/-- names of the primitive writer functions the dispatch table returns -/
inductive PrimW where
  | int8 | int16 | int32 | int64 | uint8 | uint16 | uint32 | uint64 | float64
  | compactString | nullableCompactString | legacyString | nullableLegacyString
  | legacyBytes | nullableLegacyBytes
  | uuid | boolean | errorCode | timedeltaI32 | timedeltaI64 | datetimeI64 | nullableDatetimeI64
deriving DecidableEq, Repr

/-- `_parse.get_reader(kafka_type, flexible, optional)` -/
def getReader : KType → Bool → Bool → Except Err PrimR
  | .int8, _, false => .ok .int8
  | .int16, _, false => .ok .int16
  | .int32, _, false => .ok .int32
  | .int64, _, false => .ok .int64
  | .uint8, _, false => .ok .uint8
  | .uint16, _, false => .ok .uint16
  | .uint32, _, false => .ok .uint32
  | .uint64, _, false => .ok .uint64
  | .float64, _, false => .ok .float64
  | .string, true, false => .ok .compactString
  | .string, true, true => .ok .compactStringNullable
  | .string, false, false => .ok .legacyString
  | .string, false, true => .ok .nullableLegacyString
  | .bytes, true, false | .records, true, false => .ok .compactBytes
  | .bytes, true, true | .records, true, true => .ok .compactBytesNullable
  | .bytes, false, false | .records, false, false => .ok .legacyBytes
  | .bytes, false, true | .records, false, true => .ok .nullableLegacyBytes
  | .uuid, _, _ => .ok .uuid
  | .bool, _, false => .ok .boolean
  | .errorCode, _, false => .ok .errorCode
  | .timedeltaI32, _, false => .ok .timedeltaI32
  | .timedeltaI64, _, false => .ok .timedeltaI64
  | .datetimeI64, _, false => .ok .datetimeI64
  | .datetimeI64, _, true => .ok .nullableDatetimeI64
  | _, _, _ => .error .notImplemented

/-- `_serialize.get_writer(kafka_type, flexible, optional)` -/
def getWriter : KType → Bool → Bool → Except Err PrimW
  | .int8, _, false => .ok .int8
  | .int16, _, false => .ok .int16
  | .int32, _, false => .ok .int32
  | .int64, _, false => .ok .int64
  | .uint8, _, false => .ok .uint8
  | .uint16, _, false => .ok .uint16
  | .uint32, _, false => .ok .uint32
  | .uint64, _, false => .ok .uint64
  | .float64, _, false => .ok .float64
  | .string, true, false => .ok .compactString
  | .string, true, true => .ok .nullableCompactString
  | .string, false, false => .ok .legacyString
  | .string, false, true => .ok .nullableLegacyString
  | .bytes, true, false | .records, true, false => .ok .compactString
  | .bytes, true, true | .records, true, true => .ok .nullableCompactString
  | .bytes, false, false | .records, false, false => .ok .legacyBytes
  | .bytes, false, true | .records, false, true => .ok .nullableLegacyBytes
  | .uuid, _, _ => .ok .uuid
  | .bool, _, false => .ok .boolean
  | .errorCode, _, false => .ok .errorCode
  | .timedeltaI32, _, false => .ok .timedeltaI32
  | .timedeltaI64, _, false => .ok .timedeltaI64
  | .datetimeI64, _, false => .ok .datetimeI64
  | .datetimeI64, _, true => .ok .nullableDatetimeI64
  | _, _, _ => .error .notImplemented

/-- environment: data regenerated from the source that the primitive codecs depend on -/
structure Env where
  errorCodes : List Int
  time : TimeCfg
  /-- `read_entity` skips unknown tagged fields by their size (true, repaired) or raises `KeyError` (false, as shipped) -/
  skipUnknownTags : Bool
  /-- a nullable *tagged* primitive field is read with the nullable reader (true, repaired: an
      explicit null payload is accepted) or with the non-nullable one (false, as shipped) -/
  nullableTaggedReader : Bool
deriving Repr

def PrimR.run (env : Env) : PrimR → Dec Value
  | .int8 => readInt8 | .int16 => readInt16 | .int32 => readInt32 | .int64 => readInt64
  | .uint8 => readUint8 | .uint16 => readUint16 | .uint32 => readUint32 | .uint64 => readUint64
  | .float64 => readFloat64
  | .compactString => readCompactString | .compactStringNullable => readCompactStringNullable
  | .legacyString => readLegacyString | .nullableLegacyString => readNullableLegacyString
  | .compactBytes => readCompactStringAsBytes | .compactBytesNullable => readCompactStringAsBytesNullable
  | .legacyBytes => readLegacyBytes | .nullableLegacyBytes => readNullableLegacyBytes
  | .uuid => readUuid | .boolean => readBoolean | .errorCode => readErrorCode env.errorCodes
  | .timedeltaI32 => readTimedeltaI32 | .timedeltaI64 => readTimedeltaI64
  | .datetimeI64 => readDatetimeI64 env.time | .nullableDatetimeI64 => readNullableDatetimeI64 env.time

def PrimW.run (env : Env) : PrimW → Value → Except Err Bytes
  | .int8 => writeInt8 | .int16 => writeInt16 | .int32 => writeInt32 | .int64 => writeInt64
  | .uint8 => writeUint8 | .uint16 => writeUint16 | .uint32 => writeUint32 | .uint64 => writeUint64
  | .float64 => writeFloat64
  | .compactString => writeCompactString | .nullableCompactString => writeNullableCompactString
  | .legacyString => writeLegacyString | .nullableLegacyString => writeNullableLegacyString
  | .legacyBytes => writeLegacyBytes | .nullableLegacyBytes => writeNullableLegacyBytes
  | .uuid => writeUuid | .boolean => writeBoolean | .errorCode => writeErrorCode
  | .timedeltaI32 => writeTimedeltaI32 env.time | .timedeltaI64 => writeTimedeltaI64 env.time
  | .datetimeI64 => writeDatetimeI64 | .nullableDatetimeI64 => writeNullableDatetimeI64

/-- `get_implicit_default(field_type)` -/
def implicitDefault (env : Env) (l : PyLeaf) : Except Err Value :=
  match l.base with
  | .records => .error .notImplemented
  | .u8 | .u16 | .u32 | .u64 | .i8 | .i16 | .i32 | .i64 => .ok (.int 0)
  | .f64 => .ok (.float 0)
  | .i32Timedelta | .i64Timedelta => .ok (.timedelta 0)
  | .tzAware => tzAwareFromI64 env.time 0
  | .uuid => .ok (.uuid uuidZero)
  | .str => .ok (.str [])
  | .bytes => .ok (.bytes [])
  | .bool | .errorCode | .other => .error .keyError

mutual
/-- `get_tagged_field_default(field)` -/
def Field.taggedDefault (env : Env) : Field → Except Err Value
  | .mk m sh =>
    match m.dflt with
    | .val v => .ok v
    | .unrepresentable => .error .unspecified
    | .missing => Shape.missingDefault env sh
def Shape.missingDefault (env : Env) : Shape → Except Err Value
  | .prim l o => if o then .error .typeError else implicitDefault env l
  | .primArr _ e a => .error .typeError
  | .ent s o => if o then .error .typeError else Schema.defaults env s
  | .entArr _ a => .error .typeError
  | .bad => .error .schemaError
def Schema.defaults (env : Env) : Schema → Except Err Value
  | .mk _ _ _ fs => do
    let vs ← Fields.defaults env fs
    pure (.entity vs)
def Fields.defaults (env : Env) : List Field → Except Err (List Value)
  | [] => .ok []
  | f :: fs => do
    let v ← Field.taggedDefault env f
    let vs ← Fields.defaults env fs
    pure (v :: vs)
end

end Kio
