import Kio.Basic
/-!
Exact-rational model of the CPython `float` operations kio uses (DESIGN §3.4):
`fl53` rounds a rational to the nearest binary64 (53 significant bits, ties to even; the
exponent range is irrelevant at the magnitudes involved), `pyRound` is Python's `round`.
-/
namespace Kio

/-- Python `round(x)` for a float/rational: nearest integer, ties to even. -/
def pyRound (x : Rat) : Int :=
  let f := x.floor
  let r := x - f
  if r < 1/2 then f else if 1/2 < r then f + 1 else if f % 2 = 0 then f else f + 1

def pow2 (e : Int) : Rat :=
  if 0 ≤ e then ((2 ^ e.toNat : Nat) : Rat) else 1 / ((2 ^ (-e).toNat : Nat) : Rat)

/-- Round `x > 0` at exponent `e`, accepted only if `x` really lies in the binade of `e`. -/
def tryExp (x : Rat) (e : Int) : Option Rat :=
  if pow2 (e + 52) ≤ x ∧ x < pow2 (e + 53) then some (pyRound (x / pow2 e) * pow2 e) else none

def flPos (x : Rat) : Rat :=
  let e0 : Int := (Nat.log2 x.num.toNat : Int) - (Nat.log2 x.den : Int) - 52
  ((tryExp x e0 <|> tryExp x (e0 - 1)) <|> tryExp x (e0 + 1)).getD x

/-- nearest binary64 to the rational `x` (round-half-even), as an exact rational -/
def fl53 (x : Rat) : Rat := if x = 0 then 0 else if 0 < x then flPos x else - flPos (-x)

/-- `round(td.total_seconds() * 1000)` for a timedelta of `us` microseconds
    (also `round(dt.timestamp() * 1000)` for an aware datetime `us` µs after the epoch). -/
def msOfMicrosFloat (us : Int) : Int :=
  pyRound (fl53 (fl53 ((us : Rat) / 1000000) * 1000))

/-- `int(dt.timestamp() * 1000)` — truncation toward zero (kio.records writer as shipped) -/
def msOfMicrosFloatTrunc (us : Int) : Int :=
  let y := fl53 (fl53 ((us : Rat) / 1000000) * 1000)
  if 0 ≤ y then y.floor else -((-y).floor)

/-- `datetime.fromtimestamp(ms / 1000, UTC)` as (seconds, microseconds) before any range check:
    CPython splits the double into integral and fractional part and rounds the latter
    half-even to microseconds, carrying into the seconds. -/
def secMicrosOfMsFloat (ms : Int) : Int × Int :=
  let t := fl53 ((ms : Rat) / 1000)
  -- C `modf`: integral part truncated toward zero, fraction carries the sign
  let ip : Int := if 0 ≤ t then t.floor else -((-t).floor)
  let fp : Rat := t - ip
  let us := pyRound (fl53 (fp * 1000000))
  if us ≥ 1000000 then (ip + 1, us - 1000000)
  else if us < 0 then (ip - 1, us + 1000000)
  else (ip, us)

end Kio
