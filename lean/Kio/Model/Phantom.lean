import Kio.Basic
/-!
Model of `kio.static.primitive` / `_phantom`: predicate types whose `isinstance` is
"bound ∧ predicate" and whose constructor is `parse` = identity or `TypeError` (C12).
-/
namespace Kio

/-- Python values as far as the primitive types look at them -/
inductive PyVal where
  | int (i : Int)
  | bool (b : Bool)                    -- a `bool` *is* an `int` in Python
  | float (bits : Nat)
  | str | bytes
  | timedelta (us : Int)
  | datetime (aware : Bool) (us : Int) -- µs since the epoch (for a naive one: of its wall time)
  | none
  | other
deriving DecidableEq, Repr, Inhabited

inductive PType where
  | i8 | i16 | i32 | i64 | u8 | u16 | u32 | u64 | uvarint | uvarlong | svarint | svarlong
  | f64 | i32Timedelta | i64Timedelta | tzAware | tzAwareMicros | records
deriving DecidableEq, Repr, Inhabited

/-- the bounds as the source has them (regenerated) -/
structure Bounds where
  intervals : List (PType × Int × Int)       -- `__low__`, `__high__` of every Interval subclass
  td32 : Int × Int                           -- i32_timedelta_min / max in µs
  td64 : Int × Int                           -- i64_timedelta_min / max in µs
deriving Repr

/-- the documented closed ranges (Kafka's, and kio's for the varint types) -/
def Spec.bounds : Bounds :=
  { intervals := [(.i8, -2^7, 2^7 - 1), (.i16, -2^15, 2^15 - 1), (.i32, -2^31, 2^31 - 1),
                  (.i64, -2^63, 2^63 - 1), (.u8, 0, 2^8 - 1), (.u16, 0, 2^16 - 1), (.u32, 0, 2^32 - 1),
                  (.u64, 0, 2^64 - 1), (.uvarint, 0, 2^35 - 1), (.uvarlong, 0, 2^70 - 1),
                  (.svarint, -2^34, 2^34 - 1), (.svarlong, -2^69, 2^69 - 1)]
    td32 := (-2^31 * 1000, (2^31 - 1) * 1000)
    -- timedelta.min .. timedelta.max − 1 day
    td64 := (-999999999 * 86400000000, 999999998 * 86400000000 + 86399999999) }

def Bounds.range (b : Bounds) (t : PType) : Option (Int × Int) :=
  (b.intervals.find? (fun e => e.1 = t)).map (·.2)

def floatFinite (bits : Nat) : Bool := (bits / 2^52) % 2048 ≠ 2047

/-- the integer an `int`-bound type sees -/
def PyVal.asInt? : PyVal → Option Int
  | .int i => some i
  | .bool b => some (if b then 1 else 0)
  | _ => Option.none

/-- `isinstance(v, T)` -/
def isInstance (b : Bounds) (t : PType) (v : PyVal) : Bool :=
  match t with
  | .f64 => (match v with | .float bits => floatFinite bits | _ => false)
  | .i32Timedelta => (match v with | .timedelta us => b.td32.1 ≤ us ∧ us ≤ b.td32.2 | _ => false)
  | .i64Timedelta => (match v with | .timedelta us => b.td64.1 ≤ us ∧ us ≤ b.td64.2 | _ => false)
  | .tzAware => (match v with | .datetime true us => us % 1000 = 0 ∧ 0 ≤ us | _ => false)
  | .tzAwareMicros => (match v with | .datetime true us => 0 ≤ us | _ => false)
  | .records => (match v with | .bytes => true | _ => false)
  | t => (match v.asInt?, b.range t with
      | some i, some (lo, hi) => lo ≤ i ∧ i ≤ hi
      | _, _ => false)

inductive CtorResult where
  | same            -- the argument itself is returned
  | typeError
deriving DecidableEq, Repr

/-- `T(v)` = `T.parse(v)` -/
def construct (b : Bounds) (t : PType) (v : PyVal) : CtorResult :=
  if isInstance b t v then .same else .typeError

end Kio
