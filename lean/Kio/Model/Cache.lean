import Kio.Basic
/-!
Model of the `functools.cache`d builders `entity_reader` / `entity_writer` under arbitrary
histories and interleavings (DESIGN §6.19): the cache is a finite map from keys (class,
nullable) to plans; building a plan looks nested plans up through the same cache; other threads
may change the cache between any two atomic cache operations of a thread (rely), but only in
ways that preserve the invariant "every cached plan is the plan of its key" (guarantee).
-/
namespace Kio.Cache

structure Key where
  cls : Nat
  nullable : Bool
deriving DecidableEq, Repr

/-- what the builders read from the (immutable) class description -/
structure Descr where
  /-- the nested entity classes whose reader/writer the builder of `k` asks for -/
  nested : Key → List Key
  /-- the plan built from the description of `k` and the plans of its nested classes -/
  compute : Key → List Nat → Nat

abbrev Cache := List (Key × Nat)

def lookup (c : Cache) (k : Key) : Option Nat := (c.find? (fun e => e.1 = k)).map (·.2)
def store (c : Cache) (k : Key) (p : Nat) : Cache := (k, p) :: c

/-- the plan of `k`, as a function of the description alone (`fuel` ≥ nesting depth) -/
def mkPlan (d : Descr) : Nat → Key → Nat
  | 0, k => d.compute k []
  | f+1, k => d.compute k ((d.nested k).map (mkPlan d f))

/-- nesting depth is bounded by `f`: below the bound more fuel does not change the plan -/
def Stable (d : Descr) (f : Nat) : Prop := ∀ k, mkPlan d (f+1) k = mkPlan d f k

/-- every cached plan is the plan of its key -/
def Inv (d : Descr) (f : Nat) (c : Cache) : Prop := ∀ k p, lookup c k = some p → p = mkPlan d f k

mutual
/-- one execution of the cached builder for `k` by one thread.  Between its atomic cache
    operations the other threads may replace the cache by any cache satisfying the invariant. -/
inductive BuildRun (d : Descr) (f : Nat) : Nat → Key → Cache → Cache → Nat → Prop where
  /-- cache hit (after arbitrary interference) -/
  | hit (g : Nat) (k : Key) (c c' : Cache) (p : Nat) :
      Inv d f c' → lookup c' k = some p → BuildRun d f g k c c' p
  /-- miss: build the nested plans (each through the cache), compute, store -/
  | miss (g : Nat) (k : Key) (c c1 c2 c3 : Cache) (ps : List Nat) :
      Inv d f c1 → lookup c1 k = none →
      NestedRuns d f g (d.nested k) c1 c2 ps →
      Inv d f c3 →                                  -- interference before the store
      BuildRun d f (g+1) k c (store c3 k (d.compute k ps)) (d.compute k ps)
inductive NestedRuns (d : Descr) (f : Nat) : Nat → List Key → Cache → Cache → List Nat → Prop where
  | nil (g : Nat) (c : Cache) : NestedRuns d f g [] c c []
  | cons (g : Nat) (k : Key) (ks : List Key) (c c' c'' : Cache) (p : Nat) (ps : List Nat) :
      BuildRun d f g k c c' p → NestedRuns d f g ks c' c'' ps →
      NestedRuns d f g (k :: ks) c c'' (p :: ps)
end

/-- using a plan on an input with a stream that fails at its `failAt`-th operation (or never):
    a function of the plan and the input only — plans hold no mutable state, scratch buffers
    are allocated per call -/
structure Use where
  run : Nat → Nat → Option Nat → Nat     -- plan, input, failAt ↦ outcome

end Kio.Cache
