import Kio.Model.Codec
/-!
The decidable predicates of DESIGN Appendix C: `Schema.wf` (Coherent — C13's content and the
hypothesis of C01–C10) and `Schema.valueOk` (HasType ∧ Canonical).
-/
namespace Kio

def KType.isFixedInt : KType → Bool
  | .int8 | .int16 | .int32 | .int64 | .uint8 | .uint16 | .uint32 | .uint64 => true
  | _ => false

/-- largest representable timestamp, 9999-12-31T23:59:59.999 in µs -/
def maxDatetimeUs : Int := 253402300799999000

/-- `datetime.timedelta.min` / `.max` in µs -/
def timedeltaMinUs : Int := -86399999913600000000
def timedeltaMaxUs : Int := 86399999999999999999

/-- a value inhabits Kafka type `k` in canonical form (`nullable`: the annotation allows None) -/
def primValueOk (env : Env) (k : KType) (nullable : Bool) : Value → Bool
  | .int i => k.isFixedInt || (k == .errorCode && env.errorCodes.contains i)
  | .bool _ => k == .bool
  | .float b => k == .float64 && decide (b < 2 ^ 64) && floatIsFinite b
  | .str p => k == .string && validUtf8 p
  | .bytes _ => k == .bytes || k == .records
  | .uuid b => k == .uuid && decide (b.length = 16) && decide (b ≠ uuidZero)
  | .timedelta us => (k == .timedeltaI32 || k == .timedeltaI64) && decide (us % 1000 = 0)
      && decide (timedeltaMinUs ≤ us) && decide (us ≤ timedeltaMaxUs)
  | .datetime us => k == .datetimeI64 && decide (us % 1000 = 0) && decide (0 ≤ us) && decide (us ≤ maxDatetimeUs)
  | .none => k == .uuid || (nullable && (k == .string || k == .bytes || k == .records || k == .datetimeI64))
  | _ => false

/-- the Python type of the annotation leaf matches the Kafka type name (C13) -/
def leafMatches (k : KType) (l : PyLeaf) : Bool :=
  match k, l.base with
  | .int8, .i8 | .int16, .i16 | .int32, .i32 | .int64, .i64
  | .uint8, .u8 | .uint16, .u16 | .uint32, .u32 | .uint64, .u64
  | .float64, .f64 | .string, .str | .bytes, .bytes | .records, .records | .uuid, .uuid
  | .bool, .bool | .errorCode, .errorCode | .timedeltaI32, .i32Timedelta
  | .timedeltaI64, .i64Timedelta | .datetimeI64, .tzAware => true
  | _, _ => false

/-- only Kafka types with a wire-level null may be annotated `| None` -/
def KType.hasNull : KType → Bool
  | .string | .bytes | .records | .uuid | .datetimeI64 => true
  | _ => false

def tagOk (t : Option Int) : Bool :=
  match t with
  | none => true
  | some t => decide (0 ≤ t) && decide (t < 2 ^ 35)

def allOk {α} (p : α → Bool) : List α → Bool
  | [] => true
  | x :: xs => p x && allOk p xs

mutual
/-- lower bound on the encoded size (bytes) of any instance (clause 8 of `Coherent`) -/
def Schema.minSize : Schema → Nat
  | .mk _ flex _ fs => Fields.minSize fs + (if flex then 1 else 0)
def Fields.minSize : List Field → Nat
  | [] => 0
  | f :: fs => Field.minSize f + Fields.minSize fs
def Field.minSize : Field → Nat
  | .mk m sh => if m.tag.isSome then 0 else Shape.minSize sh
def Shape.minSize : Shape → Nat
  | .prim .. => 1
  | .primArr .. => 1
  | .ent s o => if o then 1 else Schema.minSize s
  | .entArr .. => 1
  | .bad => 0
end

mutual
/-- `Coherent s` (DESIGN C.1) -/
def Schema.wf (env : Env) : Schema → Bool
  | .mk _ flex rh fs =>
    Fields.wf env flex rh fs
      && (!(fs.any Field.isTagged) || flex)
      && !dupTags fs
def Fields.wf (env : Env) (flex rh : Bool) : List Field → Bool
  | [] => true
  | f :: fs => Field.wf env flex rh f && Fields.wf env flex rh fs
def Field.wf (env : Env) (flex rh : Bool) : Field → Bool
  | .mk m sh =>
    tagOk m.tag && !m.extraMeta
      && (if rh && m.isClientId then
            -- the special case applies to an untagged `str | None` field only
            m.tag.isNone && (match sh with | .prim l _ => l.base == .str | _ => false)
          else Shape.wf env flex m sh)
      && (m.tag.isNone || (Field.taggedDefault env (.mk m sh)).toOption.isSome)
      && (match m.dflt with | .unrepresentable => false | _ => true)
def Shape.wf (env : Env) (flex : Bool) (m : FieldMeta) : Shape → Bool
  | .prim l o =>
    (match m.kafkaType with
     | some k => leafMatches k l && (!o || k.hasNull || m.tag.isSome) && (k != .uuid || o)
                 && (getReader k flex (readerOptional env k flex o m.tag.isSome)).toOption.isSome
                 && (getWriter k flex (!m.tag.isSome && o)).toOption.isSome
     | none => false)
  | .primArr l e a =>
    (match m.kafkaType with
     | some k => leafMatches k l && !a && (!e || k.hasNull) && (k != .uuid || e)
                 && (!m.tag.isSome || !e || k == .uuid)
                 && (getReader k flex (e || a)).toOption.isSome
                 && (getWriter k flex (!m.tag.isSome && (e || a))).toOption.isSome
     | none => false)
  | .ent s o => m.kafkaType.isNone && (!m.tag.isSome || !o) && Schema.wf env s
  | .entArr s _ => m.kafkaType.isNone && Schema.wf env s && decide (1 ≤ Schema.minSize s)
  | .bad => false
end

mutual
/-- `HasType s v ∧ Canonical s v` (DESIGN C.2) -/
def Schema.valueOk (env : Env) : Schema → Value → Bool
  | .mk _ _ rh fs, .entity vs => Fields.valueOk env rh fs vs
  | _, _ => false
def Fields.valueOk (env : Env) (rh : Bool) : List Field → List Value → Bool
  | [], [] => true
  | f :: fs, v :: vs => Field.valueOk env rh f v && Fields.valueOk env rh fs vs
  | _, _ => false
def Field.valueOk (env : Env) (rh : Bool) : Field → Value → Bool
  | .mk m sh, v =>
    (if rh && m.isClientId then primValueOk env .string true v
     else Shape.valueOk env m sh v)
    -- a tagged value that compares equal (`==`) to its default *is* the default
    && (match m.tag with
        | none => true
        | some _ =>
          let d := (Field.taggedDefault env (.mk m sh)).toOption.getD .none
          !(v.pyEq d) || v.beq d)
def Shape.valueOk (env : Env) (m : FieldMeta) : Shape → Value → Bool
  | .prim _ o, v => (match m.kafkaType with | some k => primValueOk env k o v | none => false)
  | .primArr _ e a, v =>
    (match m.kafkaType with
     | some k => (match v with
        | .tuple vs => allOk (primValueOk env k e) vs
        | .none => a
        | _ => false)
     | none => false)
  | .ent s o, v => (match v with | .none => o | v => Schema.valueOk env s v)
  | .entArr s a, v =>
    (match v with
     | .tuple vs => Values.allOk env s vs
     | .none => a
     | _ => false)
  | .bad, _ => false
def Values.allOk (env : Env) (s : Schema) : List Value → Bool
  | [] => true
  | v :: vs => Schema.valueOk env s v && Values.allOk env s vs
end

end Kio
