import Kio.Model.Schema
/-!
# The two dispatch tables, tied to the code entry by entry

`getReader` / `getWriter` (Kio/Model/Schema.lean) model `_parse.get_reader` and
`_serialize.get_writer`.  The translator calls the real functions on every
(Kafka type name, flexible, optional) triple and writes down the *name of the function object* they
return (or that they raise) as `Generated.readerRows` / `Generated.writerRows`; `dispatchOk` compares
those rows with the model, and checks that the rows enumerate every triple exactly once.
-/
namespace Kio

def KType.pyName : KType → String
  | .int8 => "int8" | .int16 => "int16" | .int32 => "int32" | .int64 => "int64"
  | .uint8 => "uint8" | .uint16 => "uint16" | .uint32 => "uint32" | .uint64 => "uint64"
  | .float64 => "float64" | .string => "string" | .bytes => "bytes" | .records => "records"
  | .uuid => "uuid" | .bool => "bool" | .errorCode => "error_code"
  | .timedeltaI32 => "timedelta_i32" | .timedeltaI64 => "timedelta_i64" | .datetimeI64 => "datetime_i64"
  | .unknown => "no_such_type" | .notStr => "-"

def PrimR.pyName : PrimR → String
  | .int8 => "read_int8" | .int16 => "read_int16" | .int32 => "read_int32" | .int64 => "read_int64"
  | .uint8 => "read_uint8" | .uint16 => "read_uint16" | .uint32 => "read_uint32" | .uint64 => "read_uint64"
  | .float64 => "read_float64"
  | .compactString => "read_compact_string" | .compactStringNullable => "read_compact_string_nullable"
  | .legacyString => "read_legacy_string" | .nullableLegacyString => "read_nullable_legacy_string"
  | .compactBytes => "read_compact_string_as_bytes"
  | .compactBytesNullable => "read_compact_string_as_bytes_nullable"
  | .legacyBytes => "read_legacy_bytes" | .nullableLegacyBytes => "read_nullable_legacy_bytes"
  | .uuid => "read_uuid" | .boolean => "read_boolean" | .errorCode => "read_error_code"
  | .timedeltaI32 => "read_timedelta_i32" | .timedeltaI64 => "read_timedelta_i64"
  | .datetimeI64 => "read_datetime_i64" | .nullableDatetimeI64 => "read_nullable_datetime_i64"

def PrimW.pyName : PrimW → String
  | .int8 => "write_int8" | .int16 => "write_int16" | .int32 => "write_int32" | .int64 => "write_int64"
  | .uint8 => "write_uint8" | .uint16 => "write_uint16" | .uint32 => "write_uint32" | .uint64 => "write_uint64"
  | .float64 => "write_float64"
  | .compactString => "write_compact_string" | .nullableCompactString => "write_nullable_compact_string"
  | .legacyString => "write_legacy_string" | .nullableLegacyString => "write_nullable_legacy_string"
  | .legacyBytes => "write_legacy_bytes" | .nullableLegacyBytes => "write_nullable_legacy_bytes"
  | .uuid => "write_uuid" | .boolean => "write_boolean" | .errorCode => "write_error_code"
  | .timedeltaI32 => "write_timedelta_i32" | .timedeltaI64 => "write_timedelta_i64"
  | .datetimeI64 => "write_datetime_i64" | .nullableDatetimeI64 => "write_nullable_datetime_i64"

/-- one observation of a real dispatch function: `fn = none` when it raised `NotImplementedError` -/
structure DispatchRow where
  typeName : String
  flexible : Bool
  optional : Bool
  fn : Option String
deriving Repr, DecidableEq

/-- every Kafka type name the model distinguishes (the last one stands for "any other string") -/
def allKTypes : List KType :=
  [.int8, .int16, .int32, .int64, .uint8, .uint16, .uint32, .uint64, .float64, .string, .bytes, .records,
   .uuid, .bool, .errorCode, .timedeltaI32, .timedeltaI64, .datetimeI64, .unknown]

/-- the triples in the order the translator enumerates them -/
def allTriples : List (KType × Bool × Bool) :=
  allKTypes.flatMap (fun k => [(k, false, false), (k, false, true), (k, true, false), (k, true, true)])

/-- the rows are exactly the observations the model predicts, one per triple, in order -/
def dispatchOk (readerRows writerRows : List DispatchRow) : Bool :=
  readerRows == allTriples.map (fun (k, f, o) =>
    ⟨k.pyName, f, o, (getReader k f o).toOption.map PrimR.pyName⟩)
  && writerRows == allTriples.map (fun (k, f, o) =>
    ⟨k.pyName, f, o, (getWriter k f o).toOption.map PrimW.pyName⟩)

/-! ## the implicit defaults of the primitive Python types (`get_implicit_default`) -/

/-- one observation: the default the code gives for a leaf type (`none`: it raised) -/
structure ImplicitRow where
  base : PyBase
  isSub : Bool          -- queried with a subclass of the primitive type (as `entityType` produces)
  dflt : Option Value

def optValueBeq : Option Value → Option Value → Bool
  | some a, some b => a.beq b
  | none, none => true
  | _, _ => false

def allPyBases : List PyBase :=
  [.i8, .i16, .i32, .i64, .u8, .u16, .u32, .u64, .f64, .str, .bytes, .records, .uuid, .bool,
   .errorCode, .i32Timedelta, .i64Timedelta, .tzAware]

/-- one row per primitive type (plain and subclassed where Python allows subclassing), in order,
    each agreeing with `implicitDefault` -/
def implicitOk (env : Env) (rows : List ImplicitRow) : Bool :=
  rows.map (·.base) == allPyBases.flatMap (fun b => [b, b])
  && rows.all (fun r => optValueBeq ((implicitDefault env ⟨r.base, r.isSub⟩).toOption) r.dflt)

end Kio
