import Kio.Basic
/-!
Class / module / index tables as the translator reads them from the schema package, and the
model of `kio.index`.  Lists are stored in chunks / groups so that a lookup is a few dozen
steps: the instance theorems are checked by kernel evaluation.
-/
namespace Kio

inductive EType where
  | request | response | header | data | nested
deriving DecidableEq, Repr, Inhabited

def EType.beq : EType → EType → Bool
  | .request, .request | .response, .response | .header, .header | .data, .data | .nested, .nested => true
  | _, _ => false

/-- `cls.__dataclass_params__` -/
structure DCParams where
  init : Bool
  repr : Bool
  eq : Bool
  order : Bool
  unsafeHash : Bool
  frozen : Bool
  matchArgs : Bool
  kwOnly : Bool
  slots : Bool
  weakrefSlot : Bool
deriving DecidableEq, Repr, Inhabited

structure FieldInfo where
  nameId : Nat
  init : Bool
  repr : Bool
  compare : Bool
  kwOnly : Bool
  immutableType : Bool      -- annotation built from immutable leaves and `tuple[X, ...]` only
  hasDefaultFactory : Bool
deriving DecidableEq, Repr, Inhabited

/-- a module is identified by `kio.schema.<api>.v<version>.<kind>` -/
structure ModKey where
  api : Nat                  -- interned package name
  version : Nat
  kind : EType
deriving DecidableEq, Repr, Inhabited

def ModKey.beq (a b : ModKey) : Bool := a.api == b.api && a.version == b.version && a.kind.beq b.kind

structure ClassInfo where
  idx : Nat
  mod : ModKey               -- `__module__`
  nameId : Nat               -- `__name__`
  qualnameIsName : Bool
  etype : EType              -- `__type__`
  version : Int              -- `__version__`
  flexible : Bool            -- `__flexible__`
  apiKey : Option Int        -- `__api_key__`
  headerIdx : Option Nat     -- class index of `__header_schema__`
  params : Option DCParams
  hasSlots : Bool            -- `'__slots__' in vars(cls)`
  hasDict : Bool             -- some class in the MRO (below `object`) has a `__dict__` slot
  hashable : Bool            -- `cls.__hash__ is not None`
  fields : List FieldInfo
  hashGenerated : Bool := true   -- `cls.__hash__` is the method `dataclass` generated (not a hand-written one)
  refs : List Nat := []          -- class indices of the entity classes its fields are typed with
deriving Repr, Inhabited

/-- a module found by walking the package -/
structure ModuleInfo where
  key : ModKey
  classes : List Nat         -- indices of the dataclasses defined in it, definition order
  -- witness (checked by `Tables.moduleCoherent`): the top-level class and its class variables
  top : Nat
  flexible : Bool
  apiKey : Option Int
  headerIdx : Option Nat
deriving Repr, Inhabited

/-- all walked modules of one package `kio.schema.<api>` -/
structure ApiGroup where
  api : Nat
  modules : List ModuleInfo
deriving Repr, Inhabited

/-- `schema_name_map[name][version][entity_type]`, with what the path resolves to -/
structure IndexLeaf where
  etype : EType
  module : Option ModKey     -- the module the path's module part imports as
  classIdx : Option Nat      -- the class the path resolves to
deriving Repr, Inhabited

structure IndexName where
  name : Nat
  versions : List (Int × List IndexLeaf)
deriving Repr, Inhabited

def chunkSize : Nat := 32

structure Tables where
  classChunks : List (List ClassInfo)   -- chunks of `chunkSize`, in index order
  apis : List ApiGroup
  index : List IndexName
  apiKeys : List (Int × Nat)            -- `api_key_map`
  nameChunks : List (List (List Nat))   -- interned strings as code points, chunks of `chunkSize`
  builtins : List (List Nat)            -- `dir(builtins)`
  reqHeaderApi : Nat                    -- name id claimed to be "request_header" (checked)
  respHeaderApi : Nat                   -- name id claimed to be "response_header" (checked)
deriving Repr, Inhabited

/-! ## the header-selection rule (Kafka's `ApiMessageTypeGenerator`), stated once -/

/-- request header version: 0 only for ControlledShutdown (key 7) v0, 2 if flexible, else 1 -/
def Spec.requestHeaderVersion (apiKey version : Int) (flexible : Bool) : Nat :=
  if apiKey = 7 ∧ version = 0 then 0 else if flexible then 2 else 1

/-- response header version: always 0 for ApiVersions (key 18), 1 if flexible, else 0 -/
def Spec.responseHeaderVersion (apiKey : Int) (flexible : Bool) : Nat :=
  if apiKey = 18 then 0 else if flexible then 1 else 0

/-- header classes are flexible exactly for request header v2 and response header v1 -/
def Spec.headerFlexible (isRequest : Bool) (v : Nat) : Bool :=
  if isRequest then v = 2 else v = 1

/-! ## lookups -/

def strOf (s : String) : List Nat := s.toList.map Char.toNat

def chunkGet? {α} (cs : List (List α)) (i : Nat) : Option α :=
  (cs[i / chunkSize]?).bind (·[i % chunkSize]?)

def Tables.classes (t : Tables) : List ClassInfo := t.classChunks.flatten
def Tables.allClasses (t : Tables) (p : ClassInfo → Bool) : Bool := t.classChunks.all (·.all p)
def Tables.modules (t : Tables) : List ModuleInfo := (t.apis.map (·.modules)).flatten
def Tables.allModules (t : Tables) (p : ModuleInfo → Bool) : Bool := t.apis.all (·.modules.all p)

def Tables.name (t : Tables) (i : Nat) : List Nat := (chunkGet? t.nameChunks i).getD []
def Tables.cls? (t : Tables) (i : Nat) : Option ClassInfo := chunkGet? t.classChunks i

def Tables.group? (t : Tables) (api : Nat) : Option ApiGroup := t.apis.find? (·.api == api)

/-- the walked module with this key -/
def Tables.module? (t : Tables) (k : ModKey) : Option ModuleInfo :=
  (t.group? k.api).bind (·.modules.find? (·.key.beq k))

/-- the top-level class of a module (its witness; validated by `Tables.moduleCoherent`) -/
def Tables.topClass (t : Tables) (m : ModuleInfo) : Option ClassInfo := t.cls? m.top

def Tables.headerClass (t : Tables) (isRequest : Bool) (v : Nat) : Option ClassInfo := do
  let m ← t.module? ⟨if isRequest then t.reqHeaderApi else t.respHeaderApi, v, .header⟩
  t.topClass m

/-- lexicographic `<` on code-point lists -/
def ltChars : List Nat → List Nat → Bool
  | [], [] => false
  | [], _ :: _ => true
  | _ :: _, [] => false
  | a :: as, b :: bs => a < b || (a == b && ltChars as bs)

/-- strictly ascending, hence pairwise distinct -/
def strictlyAscending : List (List Nat) → Bool
  | [] => true
  | [_] => true
  | a :: b :: rest => ltChars a b && strictlyAscending (b :: rest)

/-- the interned names are pairwise distinct (so two name ids are equal iff the strings are)
    and stored in full chunks -/
def Tables.namesOk (t : Tables) : Bool :=
  strictlyAscending t.nameChunks.flatten
  && (t.nameChunks.dropLast.all (·.length == chunkSize))
  && (t.classChunks.dropLast.all (·.length == chunkSize))

/-! ## model of `kio.index` -/

inductive IndexErr where
  | unknownApiKey | unknownEntity | importFailed
deriving DecidableEq, Repr

/-- `_name_from_key`: `api_key_map[api_key]`, `KeyError` → `UnknownAPIKey` -/
def Tables.nameFromKey (t : Tables) (k : Int) : Except IndexErr Nat :=
  match t.apiKeys.find? (fun e => e.1 == k) with
  | some e => .ok e.2
  | none => .error .unknownApiKey

/-- `_get_entity_path`: `schema_name_map[name][version][entity_type]`, `KeyError` → `UnknownEntity` -/
def Tables.entityPath (t : Tables) (name : Nat) (version : Int) (et : EType) : Except IndexErr IndexLeaf :=
  match t.index.find? (·.name == name) with
  | none => .error .unknownEntity
  | some n => match n.versions.find? (·.1 == version) with
    | none => .error .unknownEntity
    | some v => match v.2.find? (·.etype.beq et) with
      | none => .error .unknownEntity
      | some leaf => .ok leaf

/-- the same, for a name given as a string: unknown strings are unknown entities -/
def Tables.entityPathStr (t : Tables) (name : List Nat) (version : Int) (et : EType) : Except IndexErr IndexLeaf :=
  match t.index.find? (fun n => t.name n.name == name) with
  | none => .error .unknownEntity
  | some n => t.entityPath n.name version et

/-- `load_entity_schema(name, version, entity_type)` -/
def Tables.loadEntitySchema (t : Tables) (name : Nat) (version : Int) (et : EType) : Except IndexErr Nat := do
  let e ← t.entityPath name version et
  match e.classIdx with
  | some c => pure c
  | none => .error .importFailed

/-- `load_entity_module` -/
def Tables.loadEntityModule (t : Tables) (name : Nat) (version : Int) (et : EType) : Except IndexErr ModKey := do
  let e ← t.entityPath name version et
  match e.module with
  | some m => pure m
  | none => .error .importFailed

/-- `load_request_schema(api_key, version)` / `load_response_schema` -/
def Tables.loadPayloadSchema (t : Tables) (k : Int) (version : Int) (et : EType) : Except IndexErr Nat := do
  let n ← t.nameFromKey k
  t.loadEntitySchema n version et

/-- `load_payload_module(api_key, version, entity_type)` -/
def Tables.loadPayloadModule (t : Tables) (k : Int) (version : Int) (et : EType) : Except IndexErr ModKey := do
  let n ← t.nameFromKey k
  t.loadEntityModule n version et

/-- `load_response_from_request(cls)` -/
def Tables.responseFromRequest (t : Tables) (c : ClassInfo) : Except IndexErr Nat :=
  match c.apiKey with
  | some k => t.loadPayloadSchema k c.version .response
  | none => .error .unknownApiKey
def Tables.requestFromResponse (t : Tables) (c : ClassInfo) : Except IndexErr Nat :=
  match c.apiKey with
  | some k => t.loadPayloadSchema k c.version .request
  | none => .error .unknownApiKey

/-! ## naming convention (shared with the generator model) -/

def isUpper (c : Nat) : Bool := 65 ≤ c && c ≤ 90
def isLower (c : Nat) : Bool := 97 ≤ c && c ≤ 122
def isDigit (c : Nat) : Bool := 48 ≤ c && c ≤ 57
def toLower (c : Nat) : Nat := if isUpper c then c + 32 else c

/-- `codegen.case.to_snake_case` on ASCII names, without the builtin suffix: an underscore is
    inserted before an upper-case letter that follows a lower-case letter, or that follows an
    upper-case letter or digit and is itself followed by a lower-case letter -/
def snakeGo (prev : Nat) : List Nat → List Nat
  | [] => []
  | [c] => if isLower prev && isUpper c then [95, toLower c] else [toLower c]
  | c :: n :: rest =>
    let brk := (isUpper prev && isUpper c && isLower n) || (isLower prev && isUpper c)
               || (isDigit prev && isUpper c && isLower n)
    (if brk then [95, toLower c] else [toLower c]) ++ snakeGo c (n :: rest)

def toSnakeCaseRaw : List Nat → List Nat
  | [] => []
  | c :: rest => toLower c :: snakeGo c rest

/-- with the builtin-name suffix -/
def toSnakeCase (builtins : List (List Nat)) (s : List Nat) : List Nat :=
  let r := toSnakeCaseRaw s
  if builtins.contains r then r ++ [95] else r

def dropSuffix (suf s : List Nat) : List Nat :=
  if suf.length ≤ s.length && s.drop (s.length - suf.length) == suf then s.take (s.length - suf.length) else s

/-- the package name of a top-level class: snake-cased class name minus `_request`/`_response` -/
def apiPackageName (className : List Nat) : List Nat :=
  dropSuffix (strOf "_response") (dropSuffix (strOf "_request") (toSnakeCaseRaw className))

end Kio
