import Kio.Proofs.Foreign
import Kio.Spec.Conforms
/-!
The reader accepts every *conforming* encoding (`Spec.Conforms`, Kio/Spec/Conforms.lean): the
induction over the derivation, one lemma per constructor.
-/
namespace Kio
open Spec (Conforms ConformsUntagged ConformsTagged ConformsField ConformsMany)

/-! ### bookkeeping -/

theorem cf_declaredTags (fs : List Field) : Spec.declaredTags fs = fs.filterMap Field.tagNat := by
  induction fs with
  | nil => rfl
  | cons f fs ih =>
    cases f with
    | mk m sh =>
      rw [Spec.declaredTags, List.filterMap_cons, ih]
      simp only [Field.tagNat, FieldMeta.tagNat]
      rcases opt_cases m.tag with h | ⟨t, h⟩ <;> rw [h] <;> rfl

theorem cf_mem_zip_cons {f : Field} {v : Value} {fs : List Field} {vs : List Value}
    {p : Field × Value} : p ∈ (f :: fs).zip (v :: vs) ↔ p = (f, v) ∨ p ∈ fs.zip vs := by
  rw [List.zip_cons_cons, List.mem_cons]

theorem cf_conforms_entity {s : Schema} {v : Value} {b : Bytes} (h : Conforms s v b) :
    ∃ vs, v = .entity vs := by
  cases h with
  | legacy _ => exact ⟨_, rfl⟩
  | flexible _ _ _ _ _ _ => exact ⟨_, rfl⟩

/-- a pattern to instantiate the primitive lemmas of ForeignBase with (they do not depend on it) -/
def cf_pat0 : Spec.ForeignPat := ⟨false, []⟩

/-! ### the statements proved along the derivation -/

def cf_S (env : Env) (s : Schema) (v : Value) (bs : Bytes) : Prop :=
  s.wf env = true → s.valueOk env v = true → ∀ rest, s.read env (bs ++ rest) = .ok (v, rest)

def cf_U (env : Env) (flex rh : Bool) (fs : List Field) (vs : List Value) (body : Bytes) : Prop :=
  (∀ f ∈ fs, Field.wf env flex rh f = true) →
  (∀ p ∈ fs.zip vs, Field.valueOk env rh p.1 p.2 = true) →
  ∀ rest, Fields.readUntagged env flex rh fs (body ++ rest) = .ok (untaggedVals fs vs, rest)

def cf_T (env : Env) (flex : Bool) (fs : List Field) (vs : List Value)
    (known : List (Nat × Bytes)) : Prop :=
  ∀ rh, (∀ f ∈ fs, Field.wf env flex rh f = true) →
  (∀ p ∈ fs.zip vs, Field.valueOk env rh p.1 p.2 = true) →
    (∀ x ∈ known, ∃ p ∈ fs.zip vs, p.1.tagNat = some x.1 ∧ x.1 < 2 ^ 35 ∧ x.2.length < 2 ^ 35 ∧
        ∀ rest, Field.read env flex rh true p.1 (x.2 ++ rest) = .ok (p.2, rest)) ∧
    (∀ p ∈ fs.zip vs, ∀ t, p.1.tagNat = some t →
        (∃ x ∈ known, x.1 = t) ∨ p.2.pyEq (Field.dflt env p.1) = true)

def cf_F (env : Env) (flex tagged : Bool) (m : FieldMeta) (sh : Shape) (v : Value) (b : Bytes) :
    Prop :=
  tagged = m.tag.isSome → Shape.wf env flex m sh = true → Shape.valueOk env m sh v = true →
    ∀ rest, Shape.read env flex tagged m sh (b ++ rest) = .ok (v, rest)

def cf_M (env : Env) (s : Schema) (vs : List Value) (bss : List Bytes) : Prop :=
  s.wf env = true → Values.allOk env s vs = true →
    ∀ rest, decMany (Schema.read env s) vs.length (bss.flatten ++ rest) = .ok (vs, rest)

/-! ### the tagged section: known entries of this occurrence, unknown entries of this occurrence -/

def cf_res (fs : List Field) (vs : List Value) (t : Nat) : Option Value :=
  (fs.find? (fun f => decide (f.tagNat = some t))).map (fun _ => fieldVal fs vs t)

theorem cf_res_known (fs : List Field) (vs : List Value) (hn : (fs.filterMap Field.tagNat).Nodup)
    (p : Field × Value) (hp : p ∈ fs.zip vs) (t : Nat) (ht : p.1.tagNat = some t) :
    cf_res fs vs t = some p.2 := by
  obtain ⟨hfind, hval⟩ := find_field fs vs hn p hp t ht
  unfold cf_res
  rw [hfind, Option.map_some, hval]

theorem cf_res_val (fs : List Field) (vs : List Value) (t : Nat) (v : Value)
    (h : cf_res fs vs t = some v) : v = fieldVal fs vs t := by
  unfold cf_res at h
  obtain ⟨_, _, h2⟩ := Option.map_eq_some_iff.1 h
  exact h2.symm

theorem cf_res_unknown (fs : List Field) (vs : List Value) (t : Nat)
    (h : ∀ f ∈ fs, f.tagNat ≠ some t) : cf_res fs vs t = none := by
  unfold cf_res
  rw [find_none_of_no_tag fs t h]
  rfl

theorem cf_flatten_entries (entries : List (Nat × Bytes)) :
    flattenItems (entries.map (fun x => (x.1, Spec.taggedEntry x.1 x.2)))
      = (entries.map (fun x => Spec.taggedEntry x.1 x.2)).flatten := by
  unfold flattenItems
  rw [List.map_map]
  rfl

theorem cf_tagged_section (env : Env) (flex rh : Bool) (fs : List Field) (vs : List Value)
    (hn : (fs.filterMap Field.tagNat).Nodup)
    (hvo : ∀ p ∈ fs.zip vs, Field.valueOk env rh p.1 p.2 = true)
    (known unknown entries : List (Nat × Bytes))
    (hmem : ∀ x, x ∈ entries ↔ x ∈ known ∨ x ∈ unknown)
    (hknown : ∀ x ∈ known, ∃ p ∈ fs.zip vs, p.1.tagNat = some x.1 ∧ x.1 < 2 ^ 35 ∧
        x.2.length < 2 ^ 35 ∧
        ∀ rest, Field.read env flex rh true p.1 (x.2 ++ rest) = .ok (p.2, rest))
    (homit : ∀ p ∈ fs.zip vs, ∀ t, p.1.tagNat = some t →
        (∃ x ∈ known, x.1 = t) ∨ p.2.pyEq (Field.dflt env p.1) = true)
    (hunk : ∀ x ∈ unknown, x.1 < 2 ^ 35 ∧ x.2.length < 2 ^ 35 ∧ ∀ f ∈ fs, f.tagNat ≠ some x.1)
    (rest : Bytes) :
    ∃ acc, readTaggedLoop true (Fields.taggedPlan env flex rh fs) entries.length
        ((entries.map (fun x => Spec.taggedEntry x.1 x.2)).flatten ++ rest) [] = .ok (acc, rest)
      ∧ ∀ p ∈ fs.zip vs, ∀ t, p.1.tagNat = some t →
          taggedValue acc t (Field.dflt env p.1) = p.2 := by
  have hitems : ∀ y ∈ entries.map (fun x => (x.1, Spec.taggedEntry x.1 x.2)),
      ItemOkF true (Fields.taggedPlan env flex rh fs) (cf_res fs vs y.1) y := by
    intro y hy
    obtain ⟨x, hx, rfl⟩ := List.mem_map.1 hy
    rcases (hmem x).1 hx with hx | hx
    · obtain ⟨p, hp, ht, hlt, hlen, hr⟩ := hknown x hx
      obtain ⟨hfind, _⟩ := find_field fs vs hn p hp x.1 ht
      show ItemOkF true _ (cf_res fs vs x.1) (x.1, Spec.taggedEntry x.1 x.2)
      rw [cf_res_known fs vs hn p hp x.1 ht]
      refine itemOkF_known true _ x.1 x.2 p.2 hlt hlen
        { tag := x.1, read := Field.read env flex rh true p.1, dflt := Field.dflt env p.1 } ?_ hr
      rw [lookupTagged_plan, hfind]; rfl
    · obtain ⟨hlt, hlen, hno⟩ := hunk x hx
      show ItemOkF true _ (cf_res fs vs x.1) (x.1, Spec.taggedEntry x.1 x.2)
      rw [cf_res_unknown fs vs x.1 hno]
      refine itemOkF_unknown _ x.1 x.2 hlt hlen ?_
      rw [lookupTagged_plan, find_none_of_no_tag fs x.1 hno]; rfl
  have hloop := readTaggedLoop_itemsF true _ (cf_res fs vs) _ hitems rest []
  rw [List.length_map, cf_flatten_entries] at hloop
  refine ⟨_, hloop, ?_⟩
  intro p hp t ht
  have hacc : ∀ a ∈ (accOf (cf_res fs vs)
        (entries.map (fun x => (x.1, Spec.taggedEntry x.1 x.2)))).reverse ++ [],
      a.2 = fieldVal fs vs a.1 := by
    intro a ha
    simp only [List.append_nil, List.mem_reverse] at ha
    obtain ⟨x, _, h1, h2⟩ := mem_accOf.1 ha
    rw [← h1]
    exact cf_res_val _ _ _ _ h2
  obtain ⟨hfind, hval⟩ := find_field fs vs hn p hp t ht
  by_cases hex : ∃ x ∈ known, x.1 = t
  · obtain ⟨x, hx, hxt⟩ := hex
    rw [taggedValue_hit _ (fieldVal fs vs) t _ hacc, hval]
    refine ⟨(t, p.2), ?_, rfl⟩
    simp only [List.append_nil, List.mem_reverse]
    refine mem_accOf.2 ⟨(x.1, Spec.taggedEntry x.1 x.2),
      List.mem_map.2 ⟨x, (hmem x).2 (Or.inl hx), rfl⟩, hxt, ?_⟩
    show cf_res fs vs x.1 = some p.2
    rw [hxt]
    exact cf_res_known fs vs hn p hp t ht
  · have hpe := (homit p hp t ht).resolve_left hex
    rw [taggedValue_miss, ← Field.valueOk_default (hvo p hp) ht hpe]
    intro a ha hat
    simp only [List.append_nil, List.mem_reverse] at ha
    obtain ⟨y, hy, h1, _⟩ := mem_accOf.1 ha
    obtain ⟨x, hx, rfl⟩ := List.mem_map.1 hy
    rw [hat] at h1
    rcases (hmem x).1 hx with hx | hx
    · exact hex ⟨x, hx, h1⟩
    · exact (hunk x hx).2.2 p.1 (List.of_mem_zip hp).1 (by rw [ht]; exact congrArg some h1.symm)

/-! ### structures -/

theorem cf_legacy (env : Env) {n : Nat} {rh : Bool} {fs : List Field} {vs : List Value}
    {body : Bytes} (hU : cf_U env false rh fs vs body) :
    cf_S env (.mk n false rh fs) (.entity vs) body := by
  intro hwf hvo rest
  rw [Schema.valueOk.eq_1] at hvo
  obtain ⟨hlen, hvz⟩ := Fields.valueOk_zip hvo
  simp only [Schema.wf, Bool.and_eq_true] at hwf
  obtain ⟨⟨hfs, hany⟩, _⟩ := hwf
  have hun := hU (fun f hf => Fields.wf_mem hfs hf) hvz rest
  rw [Schema.read]
  simp only [hun, bind, Except.bind, Bool.not_false, if_true, pure, Except.pure]
  rw [assemble_eq env [] fs vs hlen]
  intro p hp t ht
  exfalso
  have hmem := (List.of_mem_zip hp).1
  simp only [Bool.or_false, Bool.not_eq_true', List.any_eq_false] at hany
  have := hany p.1 hmem
  rw [Field.isTagged_eq, ht] at this
  simp at this

theorem cf_flexible (env : Env) (hskip : env.skipUnknownTags = true)
    {n : Nat} {rh : Bool} {fs : List Field} {vs : List Value} {body : Bytes}
    {known unknown entries : List (Nat × Bytes)}
    (hunknown : ∀ x ∈ unknown, x.1 < 2 ^ 35 ∧ x.2.length < 2 ^ 35 ∧ x.1 ∉ Spec.declaredTags fs)
    (hperm : entries.Perm (known ++ unknown))
    (hcount : entries.length < 2 ^ 35)
    (hU : cf_U env true rh fs vs body) (hT : cf_T env true fs vs known) :
    cf_S env (.mk n true rh fs) (.entity vs)
      (body ++ Spec.uvarint entries.length
        ++ (entries.map (fun x => Spec.taggedEntry x.1 x.2)).flatten) := by
  intro hwf hvo rest
  rw [Schema.valueOk.eq_1] at hvo
  obtain ⟨hlen, hvz⟩ := Fields.valueOk_zip hvo
  simp only [Schema.wf, Bool.and_eq_true] at hwf
  obtain ⟨⟨hfs, _⟩, hdup⟩ := hwf
  have hn : (fs.filterMap Field.tagNat).Nodup := by
    simpa [dupTags] using hdup
  have hfw : ∀ f ∈ fs, Field.wf env true rh f = true := fun f hf => Fields.wf_mem hfs hf
  have hun := hU hfw hvz
  obtain ⟨hk, ho⟩ := hT rh hfw hvz
  have hunk : ∀ x ∈ unknown, x.1 < 2 ^ 35 ∧ x.2.length < 2 ^ 35 ∧
      ∀ f ∈ fs, f.tagNat ≠ some x.1 := by
    intro x hx
    obtain ⟨h1, h2, h3⟩ := hunknown x hx
    refine ⟨h1, h2, ?_⟩
    intro f hf hft
    apply h3
    rw [cf_declaredTags, List.mem_filterMap]
    exact ⟨f, hf, hft⟩
  obtain ⟨acc, hloop, hacc⟩ := cf_tagged_section env true rh fs vs hn hvz known unknown entries
    (fun x => by rw [hperm.mem_iff, List.mem_append]) hk ho hunk rest
  rw [Schema.read]
  simp only [List.append_assoc, hun, bind, Except.bind, Bool.not_true, Bool.false_eq_true, if_false]
  rw [← encVarint_eq_spec, varint_roundtrip 4 _ (by rw [pow128_5]; exact hcount)]
  simp only [hskip, hloop, pure, Except.pure]
  rw [assemble_eq env acc fs vs hlen hacc]

/-! ### the untagged part -/

theorem cf_U_nil (env : Env) {flex rh : Bool} : cf_U env flex rh [] [] [] := by
  intro _ _ rest
  simp [Fields.readUntagged, untaggedVals]

theorem cf_U_tagged (env : Env) {flex rh : Bool} {m : FieldMeta} {sh : Shape} {fs : List Field}
    {v : Value} {vs : List Value} {b : Bytes} (htag : m.tag.isSome = true)
    (ih : cf_U env flex rh fs vs b) : cf_U env flex rh (.mk m sh :: fs) (v :: vs) b := by
  intro hwf hvo rest
  have ih' := ih (fun f hf => hwf f (List.mem_cons_of_mem _ hf))
    (fun p hp => hvo p (cf_mem_zip_cons.2 (Or.inr hp))) rest
  rw [Fields.readUntagged, untaggedVals]
  have ht : (Field.mk m sh).isTagged = true := htag
  simp only [ht, if_true]
  exact ih'

theorem cf_U_cons (env : Env) {flex rh : Bool} {m : FieldMeta} {sh : Shape} {fs : List Field}
    {v : Value} {vs : List Value} {a b : Bytes} (htag : m.tag.isSome = false)
    (hr : ∀ rest, Field.read env flex rh false (.mk m sh) (a ++ rest) = .ok (v, rest))
    (hwf : ∀ f ∈ (Field.mk m sh :: fs), Field.wf env flex rh f = true)
    (hvo : ∀ p ∈ (Field.mk m sh :: fs).zip (v :: vs), Field.valueOk env rh p.1 p.2 = true)
    (ih : cf_U env flex rh fs vs b) (rest : Bytes) :
    Fields.readUntagged env flex rh (.mk m sh :: fs) ((a ++ b) ++ rest)
      = .ok (untaggedVals (.mk m sh :: fs) (v :: vs), rest) := by
  have ih' := ih (fun f hf => hwf f (List.mem_cons_of_mem _ hf))
    (fun p hp => hvo p (cf_mem_zip_cons.2 (Or.inr hp))) rest
  rw [Fields.readUntagged, untaggedVals]
  have ht : (Field.mk m sh).isTagged = false := htag
  simp only [ht, Bool.false_eq_true, if_false]
  rw [List.append_assoc, hr]
  simp only [bind, Except.bind]
  rw [ih']
  rfl

theorem cf_U_clientId (env : Env) (ht : env.time = TimeCfg.repaired)
    {flex rh : Bool} {m : FieldMeta} {sh : Shape} {fs : List Field}
    {v : Value} {vs : List Value} {a b : Bytes} (htag : m.tag.isSome = false)
    (hcid : (rh && m.isClientId) = true)
    (ha : Spec.prim .string false true v = some a)
    (ih : cf_U env flex rh fs vs b) : cf_U env flex rh (.mk m sh :: fs) (v :: vs) (a ++ b) := by
  intro hwf hvo rest
  refine cf_U_cons env htag ?_ hwf hvo ih rest
  intro rest'
  have hv := hvo (.mk m sh, v) (cf_mem_zip_cons.2 (Or.inl rfl))
  rw [Field.valueOk.eq_1, Bool.and_eq_true] at hv
  have hv1 := hv.1
  rw [hcid] at hv1
  simp only [if_true] at hv1
  rw [Field.read, hcid]
  simp only [if_true]
  exact prim_spec_rt env ht .string false true true (Or.inl id) .nullableLegacyString rfl
    ⟨_, rfl⟩ v hv1 a ha rest'

theorem cf_U_field (env : Env)
    {flex rh : Bool} {m : FieldMeta} {sh : Shape} {fs : List Field}
    {v : Value} {vs : List Value} {a b : Bytes} (htag : m.tag.isSome = false)
    (hcid : (rh && m.isClientId) = false)
    (ihF : cf_F env flex false m sh v a)
    (ih : cf_U env flex rh fs vs b) : cf_U env flex rh (.mk m sh :: fs) (v :: vs) (a ++ b) := by
  intro hwf hvo rest
  refine cf_U_cons env htag ?_ hwf hvo ih rest
  intro rest'
  have hv := hvo (.mk m sh, v) (cf_mem_zip_cons.2 (Or.inl rfl))
  rw [Field.valueOk.eq_1, Bool.and_eq_true] at hv
  have hv1 := hv.1
  obtain ⟨_, hsh, _⟩ := Field.wf_elim (hwf (.mk m sh) List.mem_cons_self)
  rw [hcid] at hv1 hsh
  simp only [Bool.false_eq_true, if_false] at hv1 hsh
  rw [Field.read, hcid]
  simp only [Bool.false_eq_true, if_false]
  exact ihF htag.symm hsh hv1 rest'

/-! ### the known entries -/

theorem cf_T_nil (env : Env) {flex : Bool} : cf_T env flex [] [] [] := by
  intro rh _ _
  constructor
  · intro x hx; cases hx
  · intro p hp; simp at hp

theorem cf_T_untagged (env : Env) {flex : Bool} {m : FieldMeta} {sh : Shape} {fs : List Field}
    {v : Value} {vs : List Value} {es : List (Nat × Bytes)} (htag : m.tag = none)
    (ih : cf_T env flex fs vs es) : cf_T env flex (.mk m sh :: fs) (v :: vs) es := by
  intro rh hwf hvo
  obtain ⟨h1, h2⟩ := ih rh (fun f hf => hwf f (List.mem_cons_of_mem _ hf))
    (fun p hp => hvo p (cf_mem_zip_cons.2 (Or.inr hp)))
  constructor
  · intro x hx
    obtain ⟨p, hp, hrest⟩ := h1 x hx
    exact ⟨p, cf_mem_zip_cons.2 (Or.inr hp), hrest⟩
  · intro p hp t ht
    rcases cf_mem_zip_cons.1 hp with rfl | hp
    · simp [Field.tagNat, FieldMeta.tagNat, htag] at ht
    · exact h2 p hp t ht

theorem cf_T_omitted (env : Env) (hti : env.time = TimeCfg.repaired)
    {flex : Bool} {m : FieldMeta} {sh : Shape} {fs : List Field}
    {v : Value} {vs : List Value} {es : List (Nat × Bytes)} {t : Int} {d : Value}
    (htag : m.tag = some t) (hd : Spec.defaultOfField (.mk m sh) = some d)
    (heq : v.pyEq d = true)
    (ih : cf_T env flex fs vs es) : cf_T env flex (.mk m sh :: fs) (v :: vs) es := by
  intro rh hwf hvo
  obtain ⟨h1, h2⟩ := ih rh (fun f hf => hwf f (List.mem_cons_of_mem _ hf))
    (fun p hp => hvo p (cf_mem_zip_cons.2 (Or.inr hp)))
  constructor
  · intro x hx
    obtain ⟨p, hp, hrest⟩ := h1 x hx
    exact ⟨p, cf_mem_zip_cons.2 (Or.inr hp), hrest⟩
  · intro p hp t' ht'
    rcases cf_mem_zip_cons.1 hp with rfl | hp
    · right
      have hds := Field.default_spec env hti flex rh (.mk m sh) (hwf _ List.mem_cons_self)
        (by simp [Field.isTagged, htag])
      rw [hd] at hds
      have hds := Option.some.inj hds
      show v.pyEq (Field.dflt env (.mk m sh)) = true
      rw [← hds]
      exact heq
    · exact h2 p hp t' ht'

theorem cf_T_present (env : Env)
    {flex : Bool} {m : FieldMeta} {sh : Shape} {fs : List Field}
    {v : Value} {vs : List Value} {es : List (Nat × Bytes)} {t : Int} {p : Bytes}
    (htag : m.tag = some t) (hlen : p.length < 2 ^ 35)
    (ihF : cf_F env flex true m sh v p)
    (ih : cf_T env flex fs vs es) :
    cf_T env flex (.mk m sh :: fs) (v :: vs) ((t.toNat, p) :: es) := by
  intro rh hwf hvo
  obtain ⟨h1, h2⟩ := ih rh (fun f hf => hwf f (List.mem_cons_of_mem _ hf))
    (fun p hp => hvo p (cf_mem_zip_cons.2 (Or.inr hp)))
  have htn : (Field.mk m sh).tagNat = some t.toNat := by
    simp [Field.tagNat, FieldMeta.tagNat, htag]
  constructor
  · intro x hx
    rcases List.mem_cons.1 hx with rfl | hx
    · refine ⟨(.mk m sh, v), cf_mem_zip_cons.2 (Or.inl rfl), htn,
        Field.tagNat_lt (hwf _ List.mem_cons_self) htn, hlen, ?_⟩
      intro rest
      have hv := hvo (.mk m sh, v) (cf_mem_zip_cons.2 (Or.inl rfl))
      rw [Field.valueOk.eq_1, Bool.and_eq_true] at hv
      have hv1 := hv.1
      obtain ⟨_, hsh, _⟩ := Field.wf_elim (hwf (.mk m sh) List.mem_cons_self)
      show Field.read env flex rh true (.mk m sh) (p ++ rest) = .ok (v, rest)
      rw [Field.read]
      cases hc : (rh && m.isClientId) <;> rw [hc] at hsh hv1 <;>
        simp only [Bool.false_eq_true, if_false, if_true] at hsh hv1 ⊢
      · exact ihF (by rw [htag]; rfl) hsh hv1 rest
      · have h0 := hsh.1
        rw [htag] at h0
        cases h0
    · obtain ⟨q, hq, hrest⟩ := h1 x hx
      exact ⟨q, cf_mem_zip_cons.2 (Or.inr hq), hrest⟩
  · intro q hq t' ht'
    rcases cf_mem_zip_cons.1 hq with rfl | hq
    · left
      rw [htn] at ht'
      exact ⟨(t.toNat, p), List.mem_cons_self, Option.some.inj ht'⟩
    · rcases h2 q hq t' ht' with ⟨x, hx, hxt⟩ | h
      · exact Or.inl ⟨x, List.mem_cons_of_mem _ hx, hxt⟩
      · exact Or.inr h

/-! ### field values -/

theorem cf_F_prim (env : Env) (ht : env.time = TimeCfg.repaired)
    (hnull : env.nullableTaggedReader = true)
    {flex tagged : Bool} {m : FieldMeta} {l : PyLeaf} {o : Bool} {k : KType} {v : Value}
    {b : Bytes} (hk : m.kafkaType = some k) (hb : Spec.prim k flex o v = some b) :
    cf_F env flex tagged m (.prim l o) v b := by
  intro htag hwf hvo rest
  refine shape_prim_F env ht hnull cf_pat0 l o flex tagged m v b htag hwf rfl hvo ?_ rest
  simp only [Spec.fieldBytesF, hk]
  exact hb

theorem cf_F_primArr (env : Env) (ht : env.time = TimeCfg.repaired)
    {flex tagged : Bool} {m : FieldMeta} {l : PyLeaf} {e a : Bool} {k : KType} {v : Value}
    {b : Bytes} (hk : m.kafkaType = some k)
    (hb : Spec.array flex (a && !tagged) (Spec.prim k flex e) v = some b) :
    cf_F env flex tagged m (.primArr l e a) v b := by
  intro htag hwf hvo rest
  refine shape_primArr_F env ht cf_pat0 l e a flex tagged m v b htag hwf rfl hvo ?_ rest
  simp only [Spec.fieldBytesF, hk]
  exact hb

theorem cf_F_entNull (env : Env) {flex tagged : Bool} {m : FieldMeta} {s : Schema} {o : Bool}
    (ho : (o && !tagged) = true) : cf_F env flex tagged m (.ent s o) .none [0xFF] := by
  intro _ _ _ rest
  have ho' : o = true := by cases o <;> simp at ho ⊢
  subst ho'
  simp only [Shape.read, if_true]
  exact readNullable_ff _ rest

theorem cf_F_entSome (env : Env) {flex tagged : Bool} {m : FieldMeta} {s : Schema} {o : Bool}
    {v : Value} {b : Bytes} (ho : (o && !tagged) = true) (hb : Conforms s v b)
    (ih : cf_S env s v b) : cf_F env flex tagged m (.ent s o) v (1 :: b) := by
  intro _ hwf hvo rest
  have ho' : o = true := by cases o <;> simp at ho ⊢
  subst ho'
  obtain ⟨vs, rfl⟩ := cf_conforms_entity hb
  simp only [Shape.wf, Bool.and_eq_true] at hwf
  simp only [Shape.valueOk] at hvo
  simp only [Shape.read, if_true]
  rw [List.cons_append, readNullable_one]
  exact ih hwf.2 hvo rest

theorem cf_F_ent (env : Env) {flex tagged : Bool} {m : FieldMeta} {s : Schema} {o : Bool}
    {v : Value} {b : Bytes} (ho : (o && !tagged) = false) (hb : Conforms s v b)
    (ih : cf_S env s v b) : cf_F env flex tagged m (.ent s o) v b := by
  intro htag hwf hvo rest
  obtain ⟨vs, rfl⟩ := cf_conforms_entity hb
  simp only [Shape.wf, Bool.and_eq_true] at hwf
  obtain ⟨⟨_, hto⟩, hs⟩ := hwf
  rw [← htag] at hto
  have ho' : o = false := by
    cases o
    · rfl
    · cases tagged <;> simp at ho hto
  subst ho'
  simp only [Shape.valueOk] at hvo
  simp only [Shape.read, Bool.false_eq_true, if_false]
  exact ih hs hvo rest

theorem cf_F_entArrNull (env : Env) {flex tagged : Bool} {m : FieldMeta} {s : Schema} {a : Bool}
    {b : Bytes} (hb : Spec.nullLen flex 4 = some b) :
    cf_F env flex tagged m (.entArr s a) .none b := by
  intro _ _ _ rest
  simp only [Shape.read]
  refine array_spec_none_rt flex (fun _ => none) _ b ?_ rest
  simp only [Spec.array, if_true]
  exact hb

theorem cf_array_rt (flex : Bool) (er : Dec Value) (vs : List Value) (pre body : Bytes)
    (h : Spec.countPrefix flex vs.length = some pre) (rest : Bytes)
    (hd : decMany er vs.length (body ++ rest) = .ok (vs, rest)) :
    arrayReader flex er ((pre ++ body) ++ rest) = .ok (.tuple vs, rest) := by
  rw [List.append_assoc]
  cases flex
  · simp only [Spec.countPrefix, Bool.false_eq_true, if_false] at h
    rw [← encIntN_eq_spec] at h
    have hl := toOption_eq_some.1 h
    simp only [arrayReader, Bool.false_eq_true, if_false, legacyArrayReader, readLegacyArrayLength]
    rw [int_roundtrip 4 (by omega) true _ pre _ hl]
    have hne : ¬ ((vs.length : Int) = -1) := by omega
    simp only [bind, Except.bind, hne, if_false, Int.toNat_natCast]
    rw [hd]
    rfl
  · simp only [Spec.countPrefix, if_true] at h
    by_cases hc : vs.length + 1 < 2 ^ 35
    · rw [if_pos hc] at h
      have h := Option.some.inj h
      subst h
      simp only [arrayReader, if_true, compactArrayReader, readCompactArrayLength]
      rw [← encVarint_eq_spec, varint_roundtrip 4 _ (by rw [pow128_5]; exact hc)]
      have hk3 : ((vs.length + 1 : Nat) : Int) - 1 = (vs.length : Int) := by omega
      have hne : ¬ ((vs.length : Int) = -1) := by omega
      simp only [bind, Except.bind, pure, Except.pure, hk3, hne, if_false, Int.toNat_natCast]
      rw [hd]
    · rw [if_neg hc] at h; cases h

theorem cf_F_entArr (env : Env) {flex tagged : Bool} {m : FieldMeta} {s : Schema} {a : Bool}
    {vs : List Value} {pre : Bytes} {bss : List Bytes}
    (hpre : Spec.countPrefix flex vs.length = some pre) (ih : cf_M env s vs bss) :
    cf_F env flex tagged m (.entArr s a) (.tuple vs) (pre ++ bss.flatten) := by
  intro _ hwf hvo rest
  simp only [Shape.wf, Bool.and_eq_true] at hwf
  obtain ⟨⟨_, hs⟩, _⟩ := hwf
  simp only [Shape.valueOk] at hvo
  simp only [Shape.read]
  exact cf_array_rt flex _ vs pre _ hpre rest (ih hs hvo rest)

/-! ### array elements -/

theorem cf_M_nil (env : Env) {s : Schema} : cf_M env s [] [] := by
  intro _ _ rest
  simp [decMany]

theorem cf_M_cons (env : Env) {s : Schema} {v : Value} {vs : List Value} {b : Bytes}
    {bs : List Bytes} (ihS : cf_S env s v b) (ihM : cf_M env s vs bs) :
    cf_M env s (v :: vs) (b :: bs) := by
  intro hwf hvo rest
  simp only [Values.allOk, Bool.and_eq_true] at hvo
  simp only [List.length_cons, decMany, List.flatten_cons, List.append_assoc, bind, Except.bind]
  rw [ihS hwf hvo.1]
  simp only
  rw [ihM hwf hvo.2]
  rfl

/-! ### the induction -/

theorem cf_accepts (env : Env) (ht : env.time = TimeCfg.repaired)
    (hskip : env.skipUnknownTags = true) (hnull : env.nullableTaggedReader = true)
    {s : Schema} {w : Value} {bs : Bytes} (h : Conforms s w bs) : cf_S env s w bs :=
  Spec.Conforms.rec
    (motive_1 := fun s v bs _ => cf_S env s v bs)
    (motive_2 := fun flex rh fs vs b _ => cf_U env flex rh fs vs b)
    (motive_3 := fun flex fs vs es _ => cf_T env flex fs vs es)
    (motive_4 := fun flex tagged m sh v b _ => cf_F env flex tagged m sh v b)
    (motive_5 := fun s vs bss _ => cf_M env s vs bss)
    (fun _ ih => cf_legacy env ih)
    (fun _ _ hunknown hperm _ hcount ihU ihT => cf_flexible env hskip hunknown hperm hcount ihU ihT)
    (cf_U_nil env)
    (fun htag _ ih => cf_U_tagged env htag ih)
    (fun htag hcid ha _ ih => cf_U_clientId env ht htag hcid ha ih)
    (fun htag hcid _ _ ihF ih => cf_U_field env htag hcid ihF ih)
    (cf_T_nil env)
    (fun htag _ ih => cf_T_untagged env htag ih)
    (fun htag hd heq _ ih => cf_T_omitted env ht htag hd heq ih)
    (fun htag _ _ hlen _ ihF ih => cf_T_present env htag hlen ihF ih)
    (fun hk hb => cf_F_prim env ht hnull hk hb)
    (fun hk hb => cf_F_primArr env ht hk hb)
    (fun ho => cf_F_entNull env ho)
    (fun ho hb ih => cf_F_entSome env ho hb ih)
    (fun ho hb ih => cf_F_ent env ho hb ih)
    (fun _ hb => cf_F_entArrNull env hb)
    (fun hpre _ ih => cf_F_entArr env hpre ih)
    (cf_M_nil env)
    (fun _ _ ihS ihM => cf_M_cons env ihS ihM)
    h

end Kio
