import Kio.Proofs.GenCoherentOne
import Kio.Proofs.GenCoherentNodup
/-!
The induction over the generator (`genClass` / `genFields`) for `Kio.Proofs.GenCoherent`: every
class generated from a supported definition is coherent and carries the defaults the definition
states.
-/
namespace Kio.Gen
open Kio

theorem coh_fld_of_one {env : Env} {ctx : Ctx} {fuel : Nat} {acc acc1 : List GClass} {f : FieldDef}
    {var : Variant} {pyName : List Nat} {fld : Field} (ht : env.time = TimeCfg.repaired)
    (hsup : SupInfo ctx.d ctx.v) (hfo : fieldOk ctx.d ctx.v f = true)
    (hmo : membersOk ctx.d ctx.v f = true) (hvar : variant ctx.d f = .ok var)
    (h1 : genOne ctx fuel acc f var = .ok (acc1, (pyName, fld)))
    (hs : ∀ n fs s, var.sub = some (n, fs) → genClass ctx fuel acc n fs false = .ok (acc1, s) →
      NestOK env ctx.v s fs) :
    CohFld env ctx f fld := by
  obtain ⟨htg, hi⟩ := variant_info hvar
  cases var with
  | prim k n =>
    rcases hi with ⟨p, hty, hr⟩ | ⟨p, hty, hc, _, _⟩
    · exact coh_fld_prim ht hfo hty hr htg h1
    · unfold fieldOk at hfo
      simp only [hty, hc, Bool.and_eq_true, Bool.not_true] at hfo
      exact absurd hfo.2.1 (by simp)
  | primArr p => exact coh_fld_primArr hfo hi.1 h1
  | entArr cls fs =>
    obtain ⟨s, hc, c, rfl⟩ := coh_genOne_entArr h1
    have hso := (coh_fieldOk_common hfo).2 fs hi.2
    simp only [hi.1] at hso
    exact coh_fld_arr hfo hi.1 htg (hs cls fs s rfl hc) ((coh_structOk hso).2.2 rfl)
  | csArr cs =>
    obtain ⟨s, hc, c, rfl⟩ := coh_genOne_csArr h1
    have hmem := List.mem_of_find?_eq_some hi.2.2
    exact coh_fld_arr hfo hi.1 htg (hs _ _ s rfl hc) ((coh_structOk (hsup.csOk cs hmem).1).2.2 rfl)
  | ent cls fs =>
    obtain ⟨s, hc, x, hx, c, rfl⟩ := coh_genOne_ent h1
    exact coh_fld_ent hfo hmo hi.1 hi.2 htg hx (hs _ _ s rfl hc)
  | cs cs =>
    obtain ⟨s, hc, c, rfl⟩ := coh_genOne_cs h1
    exact coh_fld_cs hfo hi.1 hi.2.1 htg (hs _ _ s rfl hc)

/-- the field list of the structure a visible field refers to is itself a well-formed structure -/
theorem coh_sub_ok {d : MsgDef} {v : Nat} {f : FieldDef} {var : Variant} {n : List Nat} {fs : List FieldDef}
    (hsup : SupInfo d v) (hfo : fieldOk d v f = true) (hi : VariantInfo d f var)
    (hsub : var.sub = some (n, fs)) : structOk v false fs = true ∧ isRequestHeaderName n = false := by
  have weaken : ∀ {b : Bool}, structOk v b fs = true → structOk v false fs = true := by
    intro b h
    unfold structOk at h ⊢
    simp only [Bool.and_eq_true] at h ⊢
    exact ⟨h.1, by simp⟩
  cases var <;> simp only [VariantInfo] at hi <;> simp only [Variant.sub, Option.some.injEq, Prod.mk.injEq] at hsub
  · cases hsub
  · cases hsub
  · obtain ⟨rfl, rfl⟩ := hsub
    refine ⟨weaken ((coh_fieldOk_common hfo).2 _ hi.2), ?_⟩
    unfold fieldOk at hfo
    simp only [hi.1, Bool.and_eq_true] at hfo
    simpa using hfo.2.1
  · obtain ⟨rfl, rfl⟩ := hsub
    refine ⟨weaken ((coh_fieldOk_common hfo).2 _ hi.2), ?_⟩
    unfold fieldOk at hfo
    simp only [hi.1, Bool.and_eq_true] at hfo
    simpa using hfo.2.1.1.1
  · obtain ⟨rfl, rfl⟩ := hsub
    have := hsup.csOk _ (List.mem_of_find?_eq_some hi.2.2)
    exact ⟨weaken this.1, this.2⟩
  · obtain ⟨rfl, rfl⟩ := hsub
    have := hsup.csOk _ (List.mem_of_find?_eq_some hi.2.2)
    exact ⟨weaken this.1, this.2⟩

/-! ## from fields to classes -/

theorem coh_isTagged (f : Field) : f.isTagged = f.tagNat.isSome := by
  cases f with
  | mk m sh => simp [Field.isTagged, Field.tagNat, FieldMeta.tagNat]

/-- defaults agree field by field -/
def DfltAll (ctx : Ctx) : List FieldDef → List Field → Prop :=
  All2 (fun fd fld => dfltAgrees (DefSpec.expField ctx.builtins fd ctx.v).dflt fld = true)

theorem coh_fields_all {env : Env} {ctx : Ctx} : ∀ (vis : List FieldDef) (out : List (List Nat × Field)),
    All2 (fun fd e => CohFld env ctx fd e.2) vis out →
    Fields.wf env (ctx.d.flexibleVersions.matches ctx.v) false (out.map (·.2)) = true ∧
    Fields.tagArrOk (out.map (·.2)) = true ∧ Fields.fewFields (out.map (·.2)) = true ∧
    (out.map (·.2)).filterMap Field.tagNat = vis.filterMap (fun f => tagAt f ctx.v) ∧
    (vis.any (isAnchor ctx.v) = true → 1 ≤ Fields.minSize (out.map (·.2))) ∧
    ((out.map (·.2)).any Field.isTagged = true → ctx.d.flexibleVersions.matches ctx.v = true) ∧
    out.length = vis.length ∧ DfltAll ctx vis (out.map (·.2))
  | [], [], _ => by
    refine ⟨by simp [Fields.wf], by simp [Fields.tagArrOk], by simp [Fields.fewFields], rfl, by simp, by simp,
      rfl, trivial⟩
  | fd :: vis, e :: out, ⟨h, hr⟩ => by
    obtain ⟨i1, i2, i3, i4, i5, i6, i7, i8⟩ := coh_fields_all vis out hr
    refine ⟨?_, ?_, ?_, ?_, ?_, ?_, ?_, ?_⟩
    · simp only [List.map_cons, Fields.wf, h.wf, i1, Bool.and_self]
    · simp only [List.map_cons, Fields.tagArrOk, h.tagArr, i2, Bool.and_self]
    · simp only [List.map_cons, Fields.fewFields, h.few, i3, Bool.and_self]
    · simp only [List.map_cons, List.filterMap_cons, h.tag, i4]
    · intro ha
      simp only [List.any_cons, Bool.or_eq_true] at ha
      simp only [List.map_cons, Fields.minSize]
      rcases ha with ha | ha
      · have := h.anchor ha; omega
      · have := i5 ha; omega
    · intro ha
      simp only [List.map_cons, List.any_cons, Bool.or_eq_true] at ha
      rcases ha with ha | ha
      · rw [coh_isTagged, h.tag] at ha; exact h.flex ha
      · exact i6 ha
    · simp only [List.length_cons, i7]
    · exact ⟨h.dflt, i8⟩
  | [], _ :: _, h => h.elim
  | _ :: _, [], h => h.elim

/-- the invariant: every class generated so far is coherent, and — with respect to the field list
    the definition gives for its name — long enough to be an array element if that list has an
    anchor, and with the stated defaults -/
structure ClsOK (env : Env) (ctx : Ctx) (g : GClass) : Prop where
  wf : g.schema.wf env = true
  tagArr : g.schema.tagArrOk = true
  few : g.schema.fewFields = true
  anchor : ∀ fs, (g.name, fs) ∈ ctx.d.structs → (visibleAt fs ctx.v).any (isAnchor ctx.v) = true →
    1 ≤ g.schema.minSize
  dflt : ∀ fs, (g.name, fs) ∈ ctx.d.structs → DfltAll ctx (visibleAt fs ctx.v) g.schema.fields

theorem coh_mkClass_ok {env : Env} {ctx : Ctx} {n : List Nat} {top : Bool} {acc1 : List GClass}
    {fs : List FieldDef} {out : List (List Nat × Field)} (hsup : SupInfo ctx.d ctx.v)
    (hmem : (n, fs) ∈ ctx.d.structs) (hso : structOk ctx.v false fs = true)
    (hrh : isRequestHeaderName n = false)
    (hall : All2 (fun fd e => CohFld env ctx fd e.2) (visibleAt fs ctx.v) out) :
    ClsOK env ctx (mkClass ctx n top acc1 out) := by
  obtain ⟨i1, i2, i3, i4, i5, i6, i7, i8⟩ := coh_fields_all _ _ hall
  obtain ⟨hnd, hlen, _⟩ := coh_structOk hso
  have hrh' : (n == strOf "RequestHeader") = false := hrh
  have hsch : (mkClass ctx n top acc1 out).schema =
      Schema.mk acc1.length (ctx.d.flexibleVersions.matches ctx.v) false (out.map (·.2)) := by
    simp only [mkClass, hrh']
  refine ⟨?_, ?_, ?_, ?_, ?_⟩
  · rw [hsch]
    simp only [Schema.wf, i1, Bool.true_and, Bool.and_eq_true]
    constructor
    · cases hany : (out.map (·.2)).any Field.isTagged with
      | false => rfl
      | true => rw [i6 hany]; rfl
    · unfold dupTags
      simp only [i4, Bool.not_not, decide_eq_true_eq]
      exact hnd
  · rw [hsch]; simp only [Schema.tagArrOk, i2]
  · rw [hsch]
    simp only [Schema.fewFields, i3, Bool.and_true, decide_eq_true_eq, List.length_map, i7]
    have : (visibleAt fs ctx.v).length ≤ fs.length := List.length_filter_le _ _
    omega
  · intro fs' hfs' ha
    have : fs' = fs := hsup.fun_ hfs' hmem
    subst this
    rw [hsch]
    simp only [Schema.minSize]
    have := i5 ha
    omega
  · intro fs' hfs'
    have : fs' = fs := hsup.fun_ hfs' hmem
    subst this
    rw [hsch]
    exact i8

/-! ## the induction -/

theorem gen_coh (env : Env) (ht : env.time = TimeCfg.repaired) (ctx : Ctx) (hsup : SupInfo ctx.d ctx.v) :
    ∀ fuel : Nat,
    (∀ acc n fs top acc' s, genClass ctx fuel acc n fs top = .ok (acc', s) →
      (∀ g ∈ acc, ClsOK env ctx g) → (n, fs) ∈ ctx.d.structs → SubS ctx.d fs → Reach ctx.d fs →
      structOk ctx.v false fs = true → isRequestHeaderName n = false →
      (∀ g ∈ acc', ClsOK env ctx g) ∧ ∃ g ∈ acc', g.name = n ∧ s = g.schema) ∧
    (∀ acc fs acc' out, genFields ctx fuel acc fs = .ok (acc', out) →
      (∀ g ∈ acc, ClsOK env ctx g) → SubS ctx.d fs → Reach ctx.d fs →
      (∀ g ∈ acc', ClsOK env ctx g) ∧ All2 (fun fd e => CohFld env ctx fd e.2) (visibleAt fs ctx.v) out) := by
  intro fuel
  induction fuel with
  | zero =>
    refine ⟨?_, ?_⟩
    · intro acc n fs top acc' s h; rw [genClass] at h; cases h
    · intro acc fs acc' out h; rw [genFields] at h; cases h
  | succ fuel ih =>
    obtain ⟨ihC, ihF⟩ := ih
    refine ⟨?_, ?_⟩
    · intro acc n fs top acc' s h hacc hmem hsub hreach hso hrh
      rcases genClass_succ_ok h with ⟨g, hg, rfl, rfl⟩ | ⟨_, acc1, out, h1, rfl, rfl⟩
      · have hgm : g ∈ acc' := List.mem_of_find?_eq_some hg
        have hname : g.name = n := by simpa using List.find?_some hg
        exact ⟨hacc, g, hgm, hname, rfl⟩
      · obtain ⟨hacc1, hall⟩ := ihF acc fs acc1 out h1 hacc hsub hreach
        have hnew := coh_mkClass_ok (top := top) (acc1 := acc1) hsup hmem hso hrh hall
        refine ⟨?_, _, List.mem_append_right _ List.mem_cons_self, rfl, rfl⟩
        intro g hg
        rcases List.mem_append.1 hg with hg | hg
        · exact hacc1 g hg
        · simp only [List.mem_singleton] at hg
          subst hg; exact hnew
    · intro acc fs acc' out h hacc hsub hreach
      cases fs with
      | nil =>
        rw [genFields] at h; cases h
        exact ⟨hacc, trivial⟩
      | cons f rest =>
        rcases genFields_cons_ok h with ⟨hm, h1⟩ | ⟨hm, var, acc1, ⟨pyName, fld⟩, out', hvar, h1, h2, rfl⟩
        · rw [coh_visibleAt_cons_false hm]
          exact ihF acc rest acc' out h1 hacc hsub.rest hreach.rest
        · rw [coh_visibleAt_cons_true hm]
          have hinfo := (variant_info hvar).2
          have hone := genOne_ok h1
          have hfm : fieldOk ctx.d ctx.v f = true ∧ membersOk ctx.d ctx.v f = true := by
            have := hreach.head hsup.all
            simpa [visOk, hm] using this
          obtain ⟨hfo, hmo⟩ := hfm
          have step : (∀ g ∈ acc1, ClsOK env ctx g) ∧
              (∀ n fs s, var.sub = some (n, fs) → genClass ctx fuel acc n fs false = .ok (acc1, s) →
                NestOK env ctx.v s fs) := by
            cases hsubv : var.sub with
            | none =>
              have := oneInfo_sub_none hone hsubv
              subst this
              exact ⟨hacc, fun _ _ _ h => by cases h⟩
            | some nfs =>
              obtain ⟨n, fs⟩ := nfs
              obtain ⟨s, hc⟩ := oneInfo_sub_some hone hsubv
              obtain ⟨hsub', hmem'⟩ := coh_sub_of_variant hinfo hsubv hsub
              obtain ⟨hso', hrh'⟩ := coh_sub_ok hsup hfo hinfo hsubv
              obtain ⟨hacc1, g, hgm, hgn, hgs⟩ := ihC acc n fs false acc1 s hc hacc hmem' hsub'
                (reach_sub hinfo hsubv hreach) hso' hrh'
              refine ⟨hacc1, ?_⟩
              intro n2 fs2 s2 h2 hc2
              simp only [Option.some.injEq, Prod.mk.injEq] at h2
              obtain ⟨rfl, rfl⟩ := h2
              rw [hc] at hc2
              cases hc2
              have hg := hacc1 g hgm
              subst hgs
              exact ⟨hg.wf, hg.tagArr, hg.few, hg.anchor fs (by rw [hgn]; exact hmem')⟩
          obtain ⟨hacc1, hnest⟩ := step
          have hfld := coh_fld_of_one ht hsup hfo hmo hvar h1 hnest
          obtain ⟨hacc', hout⟩ := ihF acc1 rest acc' out' h2 hacc1 hsub.rest hreach.rest
          exact ⟨hacc', hfld, hout⟩

theorem coh_module_clsOK {env : Env} (ht : env.time = TimeCfg.repaired) {d : MsgDef} {b : List (List Nat)}
    {v : Nat} {gs : List GClass} (hs : Supported d v = true) (h : module d b v = .ok gs) :
    ∀ g ∈ gs, ClsOK env ⟨d, v, b⟩ g := by
  unfold module at h
  cases hc : genClass ⟨d, v, b⟩ maxDepth [] d.name d.fields true with
  | error e => rw [hc] at h; cases h
  | ok r =>
    obtain ⟨acc', s⟩ := r
    rw [hc] at h
    cases h
    have hsup := coh_supInfo hs
    exact ((gen_coh env ht ⟨d, v, b⟩ hsup maxDepth).1 [] d.name d.fields true acc' s hc (by simp)
      (coh_top_mem d) (SubS.top d) (Reach.top d) hsup.topOk hsup.topName).1

end Kio.Gen
