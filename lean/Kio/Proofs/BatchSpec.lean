import Kio.Proofs.Prim
import Kio.Proofs.SpecEq
import Kio.Model.Records
import Kio.Spec.Batch
/-!
Helper lemmas for `Kio.Proofs.RecWrite`: the independent batch decoder inverts the independent
encoder piece by piece, and the writer model's primitives agree with the spec's
(`Except.toOption` of the model = the spec's `Option`).
Uses `encVarint_eq_spec` and `encIntN_eq_spec` from `Kio.Proofs.SpecEq`, nothing else from there.
-/
namespace Kio
open Spec

theorem intBE_of_encIntN {w : Nat} {s : Bool} {v : Int} {x : Bytes}
    (h : encIntN w s v = .ok x) : Spec.intBE w s v = some x := by
  rw [← encIntN_eq_spec, h]; rfl

theorem encIntN_of_intBE {w : Nat} {s : Bool} {v : Int} {x : Bytes}
    (h : Spec.intBE w s v = some x) : encIntN w s v = .ok x := by
  rw [← encIntN_eq_spec] at h
  cases he : encIntN w s v with
  | error e => rw [he] at h; simp [Except.toOption] at h
  | ok a => rw [he] at h; simp [Except.toOption] at h; rw [h]

theorem intBE_length {w : Nat} {s : Bool} {v : Int} {x : Bytes}
    (h : Spec.intBE w s v = some x) : x.length = w := by
  exact encIntN_length (encIntN_of_intBE h)

theorem beVal_acc (a : Nat) (bs : Bytes) :
    bs.foldl (fun a b => a * 256 + b.toNat) a = a * 256 ^ bs.length + beNat bs := by
  induction bs generalizing a with
  | nil => simp [beNat]
  | cons b bs ih =>
    simp only [List.foldl_cons, ih, beNat, List.length_cons, Nat.pow_succ]
    rw [Nat.add_mul, Nat.mul_assoc, Nat.mul_comm 256, Nat.add_assoc]

theorem beVal_eq (bs : Bytes) : Spec.beVal bs = beNat bs := by
  unfold Spec.beVal; rw [beVal_acc]; simp

theorem getInt_append {w : Nat} (hw : 0 < w) {s : Bool} {v : Int} {x : Bytes} (rest : Bytes)
    (h : Spec.intBE w s v = some x) : Spec.getInt w s (x ++ rest) = some (v, rest) := by
  have he := encIntN_of_intBE h
  have hl := intBE_length h
  have hr := int_roundtrip w hw s v x rest he
  unfold decIntN at hr
  have hre := readExact_append x rest
  rw [hl] at hre
  simp only [bind, Except.bind, hre, pure, Except.pure] at hr
  injection hr with hr
  unfold Spec.getInt Spec.takeN
  have : w ≤ (x ++ rest).length := by simp; omega
  simp only [if_pos this, bind, Option.bind, pure]
  rw [← hl, List.take_left, List.drop_left, beVal_eq]
  rw [hl]; rw [hr]

theorem getUvar_eq (k : Nat) (bs : Bytes) : Spec.getUvar k bs = (decVarint k bs).toOption := by
  induction k generalizing bs with
  | zero => cases bs <;> rfl
  | succ k ih =>
    cases bs with
    | nil => rfl
    | cons b r =>
      simp only [Spec.getUvar, decVarint]
      split
      · rfl
      · rw [ih]
        cases decVarint k r with
        | error e => rfl
        | ok p => rfl

theorem getUvar_append (k n : Nat) (h : n < 128 ^ (k+1)) (rest : Bytes) :
    Spec.getUvar (k+1) (Spec.uvarint n ++ rest) = some (n, rest) := by
  rw [getUvar_eq, ← encVarint_eq_spec, varint_roundtrip k n h]; rfl

theorem zigzag_eq (v : Int) : Spec.zigzag v = zigzagEnc v := rfl

theorem unzigzag_eq (n : Nat) : Spec.unzigzag n = zigzagDec n := rfl

theorem svar_ok {bits : Nat} {v : Int} {x : Bytes} (h : Spec.svar bits v = some x) :
    (-(2 ^ (bits - 1)) ≤ v ∧ v < 2 ^ (bits - 1)) ∧ x = Spec.uvarint (Spec.zigzag v) := by
  unfold Spec.svar at h
  split at h
  · rename_i hc; injection h with h; exact ⟨hc, h.symm⟩
  · contradiction

theorem getSvar5_append {v : Int} {x : Bytes} (rest : Bytes) (h : Spec.svar 32 v = some x) :
    Spec.getSvar 5 (x ++ rest) = some (v, rest) := by
  obtain ⟨hr, rfl⟩ := svar_ok h
  have hz := zigzag_range 31 v hr
  unfold Spec.getSvar
  rw [getUvar_append 4 _ (by rw [zigzag_eq]; omega), Option.map]
  show some (Spec.unzigzag (Spec.zigzag v), rest) = _
  rw [unzigzag_eq, zigzag_eq, zigzag_dec_enc]

theorem getSvar10_append {v : Int} {x : Bytes} (rest : Bytes) (h : Spec.svar 64 v = some x) :
    Spec.getSvar 10 (x ++ rest) = some (v, rest) := by
  obtain ⟨hr, rfl⟩ := svar_ok h
  have hz := zigzag_range 63 v hr
  unfold Spec.getSvar
  rw [getUvar_append 9 _ (by rw [zigzag_eq]; omega), Option.map]
  show some (Spec.unzigzag (Spec.zigzag v), rest) = _
  rw [unzigzag_eq, zigzag_eq, zigzag_dec_enc]

theorem takeN_append (b rest : Bytes) : Spec.takeN b.length (b ++ rest) = some (b, rest) := by
  simp [Spec.takeN]

theorem getNbytes_append {o : Option Bytes} {x : Bytes} (rest : Bytes) (h : Spec.nbytes o = some x) :
    Spec.getNbytes (x ++ rest) = some (o, rest) := by
  cases o with
  | none =>
    simp only [Spec.nbytes] at h
    unfold Spec.getNbytes
    rw [getSvar5_append rest h]
    simp [bind, Option.bind]
  | some b =>
    simp only [Spec.nbytes] at h
    cases hl : Spec.svar 32 (b.length : Int) with
    | none => rw [hl] at h; simp at h
    | some l =>
      rw [hl] at h; simp at h; subst h
      unfold Spec.getNbytes
      rw [List.append_assoc, getSvar5_append _ hl]
      have h1 : ¬ ((b.length : Int) = -1) := by omega
      have h2 : ¬ ((b.length : Int) < 0) := by omega
      simp only [bind, Option.bind, if_neg h1, if_neg h2, Int.toNat_natCast, takeN_append, pure]

theorem obind {α β} {x : Option α} {f : α → Option β} {b : β}
    (h : x >>= f = some b) : ∃ a, x = some a ∧ f a = some b := by
  cases x with
  | none => simp [bind, Option.bind] at h
  | some a => exact ⟨a, rfl, h⟩

theorem obind_intro {α β} {x : Option α} {f : α → Option β} {a : α} {b : β}
    (h1 : x = some a) (h2 : f a = some b) : x >>= f = some b := by subst h1; exact h2

theorem ebind_intro {α β} {x : Except Err α} {f : α → Except Err β} {a : α} {b : β}
    (h1 : x = .ok a) (h2 : f a = .ok b) : x >>= f = .ok b := by subst h1; exact h2

theorem headerBytes_ok {h : Spec.WireHeader} {x : Bytes} (hx : Spec.headerBytes h = some x) :
    ∃ k v, Spec.nbytes h.key = some k ∧ Spec.nbytes h.value = some v ∧ x = k ++ v := by
  unfold Spec.headerBytes at hx
  obtain ⟨k, hk, hx⟩ := obind hx
  obtain ⟨v, hv, hx⟩ := obind hx
  injection hx with hx
  exact ⟨k, v, hk, hv, hx.symm⟩

theorem catOpt_cons {α} {f : α → Option Bytes} {a : α} {l : List α} {x : Bytes}
    (h : Spec.catOpt f (a :: l) = some x) :
    ∃ y z, f a = some y ∧ Spec.catOpt f l = some z ∧ x = y ++ z := by
  unfold Spec.catOpt at h
  obtain ⟨y, hy, h⟩ := obind h
  obtain ⟨z, hz, h⟩ := obind h
  injection h with h
  exact ⟨y, z, hy, hz, h.symm⟩

theorem getHeaders_append {hs : List Spec.WireHeader} {x : Bytes} (rest : Bytes)
    (h : Spec.catOpt Spec.headerBytes hs = some x) :
    Spec.getHeaders hs.length (x ++ rest) = some (hs, rest) := by
  induction hs generalizing x with
  | nil =>
    simp only [Spec.catOpt] at h; injection h with h; subst h; rfl
  | cons a l ih =>
    obtain ⟨y, z, hy, hz, rfl⟩ := catOpt_cons h
    obtain ⟨k, v, hk, hv, rfl⟩ := headerBytes_ok hy
    simp only [List.length_cons, Spec.getHeaders, List.append_assoc]
    rw [getNbytes_append _ hk]
    simp only [bind, Option.bind]
    rw [getNbytes_append _ hv]
    simp only [ih hz, pure]

theorem getRecord_append (bt bo : Int) {r : Spec.WireRecord} {x : Bytes} (rest : Bytes)
    (h : Spec.recordBytes bt bo r = some x) :
    Spec.getRecord bt bo (x ++ rest) = some (r, rest) := by
  unfold Spec.recordBytes at h
  obtain ⟨a, ha, h⟩ := obind h
  obtain ⟨t, ht, h⟩ := obind h
  obtain ⟨o, ho, h⟩ := obind h
  obtain ⟨k, hk, h⟩ := obind h
  obtain ⟨v, hv, h⟩ := obind h
  obtain ⟨n, hn, h⟩ := obind h
  obtain ⟨hs, hhs, h⟩ := obind h
  obtain ⟨l, hl, h⟩ := obind h
  have h : l ++ (a ++ t ++ o ++ k ++ v ++ n ++ hs) = x := Option.some.inj h
  subst h
  unfold Spec.getRecord
  rw [List.append_assoc, getSvar5_append _ hl]
  have h0 : ¬ (((a ++ t ++ o ++ k ++ v ++ n ++ hs).length : Int) < 0) := by omega
  simp only [bind, Option.bind, if_neg h0, Int.toNat_natCast, takeN_append]
  have e : a ++ t ++ o ++ k ++ v ++ n ++ hs = a ++ (t ++ (o ++ (k ++ (v ++ (n ++ (hs ++ [])))))) := by
    simp
  rw [e, getInt_append (by omega) _ ha]
  simp only []
  rw [getSvar10_append _ ht]
  simp only []
  rw [getSvar5_append _ ho]
  simp only []
  rw [getNbytes_append _ hk]
  simp only []
  rw [getNbytes_append _ hv]
  simp only []
  rw [getSvar5_append _ hn]
  have h1 : ¬ ((r.headers.length : Int) < 0) := by omega
  simp only [if_neg h1, Int.toNat_natCast]
  rw [getHeaders_append _ hhs]
  simp only [ne_eq, not_true_eq_false, if_false, pure]
  have e1 : bt + (r.timestampMs - bt) = r.timestampMs := by omega
  have e2 : bo + (r.offset - bo) = r.offset := by omega
  rw [e1, e2]

theorem getRecords_append (bt bo : Int) {rs : List Spec.WireRecord} {x : Bytes} (rest : Bytes)
    (h : Spec.catOpt (Spec.recordBytes bt bo) rs = some x) :
    Spec.getRecords bt bo rs.length (x ++ rest) = some (rs, rest) := by
  induction rs generalizing x with
  | nil =>
    simp only [Spec.catOpt] at h; injection h with h; subst h; rfl
  | cons a l ih =>
    obtain ⟨y, z, hy, hz, rfl⟩ := catOpt_cons h
    simp only [List.length_cons, Spec.getRecords, List.append_assoc]
    rw [getRecord_append bt bo _ hy]
    simp only [bind, Option.bind, ih hz, pure]

theorem coveredBytes_ok {b : Spec.WireBatch} {cov : Bytes} (h : Spec.coveredBytes b = some cov) :
    ∃ a l t0 t1 p e s n rs,
      Spec.intBE 2 true b.attributes = some a ∧ Spec.intBE 4 true b.lastOffsetDelta = some l ∧
      Spec.intBE 8 true b.baseTimestamp = some t0 ∧ Spec.intBE 8 true b.maxTimestamp = some t1 ∧
      Spec.intBE 8 true b.producerId = some p ∧ Spec.intBE 2 true b.producerEpoch = some e ∧
      Spec.intBE 4 true b.baseSequence = some s ∧ Spec.intBE 4 true b.records.length = some n ∧
      Spec.catOpt (Spec.recordBytes b.baseTimestamp b.baseOffset) b.records = some rs ∧
      cov = a ++ l ++ t0 ++ t1 ++ p ++ e ++ s ++ n ++ rs := by
  unfold Spec.coveredBytes at h
  obtain ⟨a, ha, h⟩ := obind h
  obtain ⟨l, hl, h⟩ := obind h
  obtain ⟨t0, ht0, h⟩ := obind h
  obtain ⟨t1, ht1, h⟩ := obind h
  obtain ⟨p, hp, h⟩ := obind h
  obtain ⟨e, he, h⟩ := obind h
  obtain ⟨s, hs, h⟩ := obind h
  obtain ⟨n, hn, h⟩ := obind h
  obtain ⟨rs, hrs, h⟩ := obind h
  exact ⟨a, l, t0, t1, p, e, s, n, rs, ha, hl, ht0, ht1, hp, he, hs, hn, hrs, (Option.some.inj h).symm⟩

theorem batchBytes_ok {b : Spec.WireBatch} {bs : Bytes} (h : Spec.batchBytes b = some bs) :
    ∃ cov o len ple crc,
      Spec.coveredBytes b = some cov ∧ Spec.intBE 8 true b.baseOffset = some o ∧
      Spec.intBE 4 true ((cov.length : Int) + 9) = some len ∧
      Spec.intBE 4 true b.partitionLeaderEpoch = some ple ∧
      Spec.intBE 4 false (Crc.crc32c cov) = some crc ∧
      bs = o ++ len ++ ple ++ [2] ++ crc ++ cov := by
  unfold Spec.batchBytes at h
  obtain ⟨cov, hcov, h⟩ := obind h
  obtain ⟨o, ho, h⟩ := obind h
  obtain ⟨len, hlen, h⟩ := obind h
  obtain ⟨ple, hple, h⟩ := obind h
  obtain ⟨crc, hcrc, h⟩ := obind h
  exact ⟨cov, o, len, ple, crc, hcov, ho, hlen, hple, hcrc, (Option.some.inj h).symm⟩

theorem intBE_two : Spec.intBE 1 true 2 = some [2] := by decide

theorem decBatch_batchBytes (b : Spec.WireBatch) (bs : Bytes)
    (h : Spec.batchBytes b = some bs) : Spec.decBatch bs = some b := by
  obtain ⟨cov, o, len, ple, crc, hcov, ho, hlen, hple, hcrc, rfl⟩ := batchBytes_ok h
  obtain ⟨a, l, t0, t1, p, e, s, n, rs, ha, hl, ht0, ht1, hp, he, hs, hn, hrs, hc⟩ :=
    coveredBytes_ok hcov
  have lple := intBE_length hple
  have lcrc := intBE_length hcrc
  unfold Spec.decBatch
  have e0 : o ++ len ++ ple ++ [2] ++ crc ++ cov = o ++ (len ++ (ple ++ ([2] ++ (crc ++ cov)))) := by
    simp
  rw [e0, getInt_append (by omega) _ ho]
  simp only [bind, Option.bind]
  rw [getInt_append (by omega) _ hlen]
  have hlen' : ¬ ((cov.length : Int) + 9 ≠ ((ple ++ ([2] ++ (crc ++ cov))).length : Int)) := by
    simp [lple, lcrc]; omega
  simp only [if_neg hlen']
  rw [getInt_append (by omega) _ hple]
  simp only []
  rw [getInt_append (by omega) _ intBE_two]
  simp only [ne_eq, not_true_eq_false, if_false]
  rw [getInt_append (by omega) _ hcrc]
  simp only []
  have e1 : cov = a ++ (l ++ (t0 ++ (t1 ++ (p ++ (e ++ (s ++ (n ++ (rs ++ [])))))))) := by
    rw [hc]; simp
  rw [e1, getInt_append (by omega) _ ha]
  simp only []
  rw [getInt_append (by omega) _ hl]
  simp only []
  rw [getInt_append (by omega) _ ht0]
  simp only []
  rw [getInt_append (by omega) _ ht1]
  simp only []
  rw [getInt_append (by omega) _ hp]
  simp only []
  rw [getInt_append (by omega) _ he]
  simp only []
  rw [getInt_append (by omega) _ hs]
  simp only []
  rw [getInt_append (by omega) _ hn]
  have h1 : ¬ ((b.records.length : Int) < 0) := by omega
  simp only [if_neg h1, Int.toNat_natCast]
  rw [getRecords_append _ _ _ hrs]
  simp only [not_true_eq_false, if_false, pure]

theorem drop_len_append {α} {a : List α} {n : Nat} (b : List α) (h : a.length = n) :
    (a ++ b).drop n = b := by subst h; simp

theorem take_len_append {α} {a : List α} {n : Nat} (b : List α) (h : a.length = n) :
    (a ++ b).take n = a := by subst h; simp

theorem crc_covers (b : Spec.WireBatch) (bs : Bytes) (h : Spec.batchBytes b = some bs) :
    21 ≤ bs.length ∧
    Spec.intBE 4 false (Crc.crc32c (bs.drop 21)) = some ((bs.drop 17).take 4) ∧
    Spec.intBE 4 true ((bs.length : Int) - 12) = some ((bs.drop 8).take 4) ∧
    bs[16]? = some 2 := by
  obtain ⟨cov, o, len, ple, crc, hcov, ho, hlen, hple, hcrc, rfl⟩ := batchBytes_ok h
  have lo := intBE_length ho
  have llen := intBE_length hlen
  have lple := intBE_length hple
  have lcrc := intBE_length hcrc
  have d21 : (o ++ len ++ ple ++ [2] ++ crc ++ cov).drop 21 = cov :=
    drop_len_append _ (by simp [lo, llen, lple, lcrc])
  have d17 : (o ++ len ++ ple ++ [2] ++ crc ++ cov).drop 17 = crc ++ cov := by
    rw [List.append_assoc (o ++ len ++ ple ++ [2])]
    exact drop_len_append _ (by simp [lo, llen, lple])
  have d8 : (o ++ len ++ ple ++ [2] ++ crc ++ cov).drop 8 = len ++ (ple ++ [2] ++ crc ++ cov) := by
    have : o ++ len ++ ple ++ [2] ++ crc ++ cov = o ++ (len ++ (ple ++ [2] ++ crc ++ cov)) := by simp
    rw [this]; exact drop_len_append _ lo
  have hl : (o ++ len ++ ple ++ [2] ++ crc ++ cov).length = cov.length + 21 := by
    simp [lo, llen, lple, lcrc]; omega
  refine ⟨by omega, ?_, ?_, ?_⟩
  · rw [d21, d17, take_len_append _ lcrc]; exact hcrc
  · rw [d8, take_len_append _ llen, hl]
    have : ((cov.length + 21 : Nat) : Int) - 12 = (cov.length : Int) + 9 := by omega
    rw [this]; exact hlen
  · have : o ++ len ++ ple ++ [2] ++ crc ++ cov = (o ++ len ++ ple) ++ (2 :: (crc ++ cov)) := by simp
    rw [this, List.getElem?_append_right (by simp [lo, llen, lple])]
    simp [lo, llen, lple]

/-! ### model = spec, componentwise -/

theorem toOption_bindB {α β} (x : Except Err α) (f : α → Except Err β) :
    (x >>= f).toOption = x.toOption >>= fun a => (f a).toOption := by
  cases x <;> rfl

theorem toOption_pureB {α} (a : α) : (pure a : Except Err α).toOption = some a := rfl

theorem toOption_okB {α} {x : Except Err α} {a : α} : x.toOption = some a ↔ x = .ok a := by
  cases x <;> simp [Except.toOption]

theorem svar_eq (bits : Nat) (v : Int) : (encSignedVarint bits v).toOption = Spec.svar bits v := by
  unfold encSignedVarint Spec.svar
  split
  · rw [encVarint_eq_spec]; rfl
  · rfl

theorem nbytes_eq (o : Option Bytes) : (writeSignedCompactBytes o).toOption = Spec.nbytes o := by
  cases o with
  | none => exact svar_eq _ _
  | some b =>
    simp only [writeSignedCompactBytes, Spec.nbytes, toOption_bindB, svar_eq]
    cases Spec.svar 32 (b.length : Int) <;> rfl

theorem concatMapE_eq {α β} (f : α → Except Err Bytes) (g : β → Option Bytes) (t : α → β)
    (l : List α) (h : ∀ a ∈ l, (f a).toOption = g (t a)) :
    (concatMapE f l).toOption = Spec.catOpt g (l.map t) := by
  induction l with
  | nil => rfl
  | cons a l ih =>
    simp only [concatMapE, List.map_cons, Spec.catOpt, toOption_bindB, toOption_pureB]
    rw [h a (by simp), ih (fun b hb => h b (by simp [hb]))]
    rfl

theorem pre_eq (bo bl ple crc : Int) :
    (writePreChecksum bo bl ple 2 crc).toOption =
      (do let o ← Spec.intBE 8 true bo
          let len ← Spec.intBE 4 true bl
          let p ← Spec.intBE 4 true ple
          let c ← Spec.intBE 4 false crc
          pure (o ++ len ++ p ++ [2] ++ c)) := by
  simp only [writePreChecksum, toOption_bindB, toOption_pureB, encIntN_eq_spec, intBE_two]
  rfl

/-! ### timestamps -/

theorem recMs_ms (hfl : FloatExact) {us : Int} (h1 : us % 1000 = 0) (h2 : 0 ≤ us)
    (h3 : us ≤ 253402300799999000) : recMs RecCfg.repaired us = us / 1000 := by
  have := hfl (us / 1000) (by omega) (by omega)
  have e : us / 1000 * 1000 = us := by omega
  rw [e] at this
  simpa [recMs, RecCfg.repaired] using this

theorem foldl_max_div (l : List Int) (a : Int) :
    (l.foldl max a) / 1000 = (l.map (· / 1000)).foldl max (a / 1000) := by
  induction l generalizing a with
  | nil => rfl
  | cons b l ih =>
    simp only [List.foldl_cons, List.map_cons, ih]
    congr 1
    omega

theorem foldl_max_pred (P : Int → Prop) (l : List Int) (a : Int) (ha : P a) (hl : ∀ b ∈ l, P b) :
    P (l.foldl max a) := by
  induction l generalizing a with
  | nil => exact ha
  | cons b l ih =>
    simp only [List.foldl_cons]
    apply ih
    · rcases Int.le_total a b with h | h
      · rw [Int.max_eq_right h]; exact hl b (by simp)
      · rw [Int.max_eq_left h]; exact ha
    · exact fun c hc => hl c (by simp [hc])

theorem phantomInt_ok {bits : Nat} {v x : Int} (h : phantomInt bits v = .ok x) :
    x = v ∧ -(2 ^ (bits - 1)) ≤ v ∧ v < 2 ^ (bits - 1) := by
  unfold phantomInt at h
  split at h
  · rename_i hc; injection h with h; exact ⟨h.symm, hc⟩
  · contradiction

theorem phantomInt_of_range {bits : Nat} {v : Int} (h : -(2 ^ (bits - 1)) ≤ v ∧ v < 2 ^ (bits - 1)) :
    phantomInt bits v = .ok v := by
  unfold phantomInt; rw [if_pos h]

theorem intBE_range {w : Nat} {v : Int} {x : Bytes} (h : Spec.intBE w true v = some x) :
    -(2 ^ (8 * w - 1)) ≤ v ∧ v < 2 ^ (8 * w - 1) := by
  obtain ⟨h1, h2, _⟩ := encIntN_ok (encIntN_of_intBE h)
  simp only [intLo, intHi, if_true] at h1 h2
  omega

theorem batchBytes_of {b : Spec.WireBatch} {cov o len p c : Bytes}
    (hcov : Spec.coveredBytes b = some cov) (ho : Spec.intBE 8 true b.baseOffset = some o)
    (hlen : Spec.intBE 4 true ((cov.length : Int) + 9) = some len)
    (hp : Spec.intBE 4 true b.partitionLeaderEpoch = some p)
    (hc : Spec.intBE 4 false (Crc.crc32c cov) = some c) :
    Spec.batchBytes b = some (o ++ len ++ p ++ [2] ++ c ++ cov) := by
  unfold Spec.batchBytes
  exact obind_intro hcov (obind_intro ho (obind_intro hlen (obind_intro hp (obind_intro hc rfl))))

theorem pre_ok_iff {bo bl ple crc : Int} {pre : Bytes} :
    writePreChecksum bo bl ple 2 crc = .ok pre ↔
      ∃ o len p c, Spec.intBE 8 true bo = some o ∧ Spec.intBE 4 true bl = some len ∧
        Spec.intBE 4 true ple = some p ∧ Spec.intBE 4 false crc = some c ∧
        pre = o ++ len ++ p ++ [2] ++ c := by
  rw [← toOption_okB, pre_eq]
  constructor
  · intro h
    obtain ⟨o, ho, h⟩ := obind h
    obtain ⟨len, hlen, h⟩ := obind h
    obtain ⟨p, hp, h⟩ := obind h
    obtain ⟨c, hc, h⟩ := obind h
    exact ⟨o, len, p, c, ho, hlen, hp, hc, (Option.some.inj h).symm⟩
  · rintro ⟨o, len, p, c, ho, hlen, hp, hc, rfl⟩
    exact obind_intro ho (obind_intro hlen (obind_intro hp (obind_intro hc rfl)))

theorem getLast_map_getD {α β} (f : α → β) (l : List α) (a : α) :
    (l.map f).getLast?.getD (f a) = f (l.getLast?.getD a) := by
  rw [List.getLast?_map]; cases l.getLast? <;> rfl

end Kio
