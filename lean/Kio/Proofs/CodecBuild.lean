import Kio.Proofs.CodecBase
/-! Induction principle over `Schema`/`Field`/`Shape`; coherent classes are buildable. -/
namespace Kio

theorem Schema.induct3 {PS : Schema → Prop} {PF : Field → Prop} {PSh : Shape → Prop}
    (hS : ∀ n flex rh fs, (∀ f ∈ fs, PF f) → PS (.mk n flex rh fs))
    (hF : ∀ m sh, PSh sh → PF (.mk m sh))
    (hprim : ∀ l o, PSh (.prim l o))
    (hprimArr : ∀ l e a, PSh (.primArr l e a))
    (hent : ∀ s o, PS s → PSh (.ent s o))
    (hentArr : ∀ s a, PS s → PSh (.entArr s a))
    (hbad : PSh .bad) : ∀ s, PS s :=
  Schema.rec (motive_1 := PS) (motive_2 := PF) (motive_3 := PSh)
    (motive_4 := fun fs => ∀ f ∈ fs, PF f) hS hF hprim hprimArr hent hentArr hbad
    (by intro f hf; cases hf)
    (by
      intro h t hh ht f hf
      rcases List.mem_cons.mp hf with rfl | hf
      · exact hh
      · exact ht f hf)

theorem getTag_of_tagOk (m : FieldMeta) (h : tagOk m.tag = true) :
    ∃ tag, m.getTag = .ok tag ∧ tag = m.tagNat ∧ tag.isSome = m.tag.isSome := by
  unfold FieldMeta.getTag FieldMeta.tagNat
  cases hm : m.tag with
  | none => exact ⟨none, rfl, rfl, rfl⟩
  | some t =>
    rw [hm] at h
    simp [tagOk] at h
    refine ⟨some t.toNat, ?_, rfl, rfl⟩
    simp [uvarintCtor, h, bind, Except.bind, pure, Except.pure]

theorem leafMatches_notStr (l : PyLeaf) : leafMatches .notStr l = false := by
  unfold leafMatches; split <;> simp_all

theorem schemaFieldType_ok (m : FieldMeta) (k : KType) (l : PyLeaf) (hk : m.kafkaType = some k)
    (hl : leafMatches k l = true) : m.schemaFieldType = .ok k := by
  unfold FieldMeta.schemaFieldType
  rw [hk]
  cases k <;> first | rfl | (rw [leafMatches_notStr] at hl; cases hl)

theorem exceptErr_of_isSome {α} {x : Except Err α} (h : x.toOption.isSome = true) : exceptErr x = none := by
  cases x <;> simp [Except.toOption, exceptErr] at h ⊢

theorem Field.wf_elim {env : Env} {flex rh : Bool} {m : FieldMeta} {sh : Shape}
    (h : Field.wf env flex rh (.mk m sh) = true) :
    tagOk m.tag = true
    ∧ (if (rh && m.isClientId) = true then
        m.tag.isNone = true ∧ ∃ l o, sh = .prim l o ∧ l.base = .str
       else Shape.wf env flex m sh = true)
    ∧ (m.tag.isNone || (Field.taggedDefault env (.mk m sh)).toOption.isSome) = true := by
  rw [Field.wf.eq_def] at h
  cases hc : (rh && m.isClientId) <;> simp only [hc] at h <;>
    simp only [Bool.and_eq_true, Bool.false_eq_true, if_false, if_true] at h ⊢ <;>
    obtain ⟨⟨⟨⟨ht, _⟩, hsh⟩, hd⟩, _⟩ := h
  · exact ⟨ht, hsh, hd⟩
  · refine ⟨ht, ⟨hsh.1, ?_⟩, hd⟩
    have h2 := hsh.2
    cases sh <;> simp at h2
    exact ⟨_, _, rfl, h2⟩

theorem Fields.buildErr_none (env : Env) (flex rh : Bool) (fs : List Field)
    (h : ∀ f ∈ fs, Field.wf env flex rh f = true →
      Field.readerBuildErr env flex rh f = none ∧ Field.writerBuildErr env flex rh f = none)
    (hwf : Fields.wf env flex rh fs = true) :
    Fields.readerBuildErr env flex rh fs = none ∧ Fields.writerBuildErr env flex rh fs = none := by
  induction fs with
  | nil => simp [Fields.readerBuildErr, Fields.writerBuildErr]
  | cons f fs ih =>
    simp only [Fields.wf, Bool.and_eq_true] at hwf
    obtain ⟨h1, h2⟩ := h f (by simp) hwf.1
    obtain ⟨i1, i2⟩ := ih (fun g hg => h g (by simp [hg])) hwf.2
    simp [Fields.readerBuildErr, Fields.writerBuildErr, h1, h2, i1, i2]

theorem wf_buildable' (env : Env) : ∀ (s : Schema), s.wf env = true →
    s.readerBuildErr env = none ∧ s.writerBuildErr env = none := by
  apply Schema.induct3
    (PS := fun s => s.wf env = true → s.readerBuildErr env = none ∧ s.writerBuildErr env = none)
    (PF := fun f => ∀ flex rh, Field.wf env flex rh f = true →
      Field.readerBuildErr env flex rh f = none ∧ Field.writerBuildErr env flex rh f = none)
    (PSh := fun sh => ∀ flex m, Shape.wf env flex m sh = true →
      Shape.readerBuildErr env flex m.tag.isSome m sh = none
      ∧ Shape.writerBuildErr env flex m.tag.isSome m sh = none)
  · intro n flex rh fs ih hwf
    simp only [Schema.wf, Bool.and_eq_true] at hwf
    obtain ⟨⟨h1, h2⟩, h3⟩ := hwf
    obtain ⟨i1, i2⟩ := Fields.buildErr_none env flex rh fs (fun f hf => ih f hf flex rh) h1
    have h3' : dupTags fs = false := by simpa using h3
    have h2' : (fs.any Field.isTagged && !flex) = false := by
      cases flex <;> simp_all
    simp only [Schema.readerBuildErr, Schema.writerBuildErr, i1, i2, h2', h3']
    simp
  · intro m sh ih flex rh hwf
    obtain ⟨ht, hsh, hd⟩ := Field.wf_elim hwf
    obtain ⟨tag, hg, _, hsome⟩ := getTag_of_tagOk m ht
    have hdef : (if m.tag.isSome = true then exceptErr (Field.taggedDefault env (.mk m sh)) else none) = none := by
      cases hts : m.tag.isSome
      · simp
      · have : m.tag.isNone = false := by cases hm : m.tag <;> simp_all
        rw [this] at hd
        simp only [Bool.false_or] at hd
        simp [exceptErr_of_isSome hd]
    simp only [Field.readerBuildErr, Field.writerBuildErr, hg, hsome]
    cases hc : (rh && m.isClientId) <;> rw [hc] at hsh <;>
      simp only [Bool.false_eq_true, if_false, if_true] at hsh ⊢
    · obtain ⟨i1, i2⟩ := ih flex m hsh
      simp only [i1, i2, hdef]; simp
    · simp only [hdef]; simp
  · intro l o flex m hwf
    simp only [Shape.wf] at hwf
    split at hwf
    · rename_i k hk
      simp only [Bool.and_eq_true] at hwf
      obtain ⟨⟨⟨⟨hl, _⟩, _⟩, hr⟩, hw⟩ := hwf
      have := schemaFieldType_ok m k l hk hl
      simp only [Shape.readerBuildErr, Shape.writerBuildErr, this, bind, Except.bind]
      exact ⟨exceptErr_of_isSome hr, exceptErr_of_isSome hw⟩
    · cases hwf
  · intro l e a flex m hwf
    simp only [Shape.wf] at hwf
    split at hwf
    · rename_i k hk
      simp only [Bool.and_eq_true] at hwf
      obtain ⟨⟨⟨⟨⟨⟨hl, _⟩, _⟩, _⟩, _⟩, hr⟩, hw⟩ := hwf
      have := schemaFieldType_ok m k l hk hl
      simp only [Shape.readerBuildErr, Shape.writerBuildErr, this, bind, Except.bind]
      exact ⟨exceptErr_of_isSome hr, exceptErr_of_isSome hw⟩
    · cases hwf
  · intro s o ih flex m hwf
    simp only [Shape.wf, Bool.and_eq_true] at hwf
    simpa only [Shape.readerBuildErr, Shape.writerBuildErr] using ih hwf.2
  · intro s a ih flex m hwf
    simp only [Shape.wf, Bool.and_eq_true] at hwf
    simpa only [Shape.readerBuildErr, Shape.writerBuildErr] using ih hwf.1.2
  · intro flex m hwf
    simp [Shape.wf] at hwf

end Kio
