import Kio.Model.TablePreds
/-!
Reading the Boolean table predicates as propositions, and universal facts about the index model.
-/
namespace Kio

/-! ### helpers: Boolean equalities read back as equations -/

theorem EType.beq_iff (a b : EType) : a.beq b = true ↔ a = b := by
  cases a <;> cases b <;> simp [EType.beq]

theorem ModKey.eq_of_beq {a b : ModKey} (h : a.beq b = true) : a = b := by
  cases a; cases b
  simp [ModKey.beq, EType.beq_iff] at h
  simp [h]

theorem isOk_eq {x : Except IndexErr Nat} {n : Nat} (h : isOk x n = true) : x = .ok n := by
  unfold isOk at h
  split at h
  · simp at h; subst h; rfl
  · simp at h

/-! ### the index model rejects everything that is not in its tables (C09, unbounded) -/

/-- any key that is not in `api_key_map` — any integer at all — is reported as unknown API key -/
theorem Tables.nameFromKey_unknown (t : Tables) (k : Int) (h : ∀ e ∈ t.apiKeys, e.1 ≠ k) :
    t.nameFromKey k = .error .unknownApiKey := by
  unfold Tables.nameFromKey
  have : t.apiKeys.find? (fun e => e.1 == k) = none := by
    rw [List.find?_eq_none]; intro e he; simpa using h e he
  rw [this]

/-- a key in the map resolves to a name the map associates with it -/
theorem Tables.nameFromKey_ok (t : Tables) (k : Int) (n : Nat) (h : t.nameFromKey k = .ok n) :
    (k, n) ∈ t.apiKeys := by
  unfold Tables.nameFromKey at h
  split at h
  · next e he =>
    have hm := List.mem_of_find?_eq_some he
    have hp := List.find?_some he
    simp at hp
    injection h with h
    subst hp; subst h
    exact hm
  · cases h

theorem Tables.nameFromKey_err (t : Tables) (k : Int) (e : IndexErr) (h : t.nameFromKey k = .error e) :
    e = .unknownApiKey := by
  unfold Tables.nameFromKey at h
  split at h
  · cases h
  · injection h with h; exact h.symm

/-- lookups only ever return leaves that are in the table under that name, version and type -/
theorem Tables.entityPath_ok (t : Tables) (name : Nat) (version : Int) (et : EType) (leaf : IndexLeaf)
    (h : t.entityPath name version et = .ok leaf) :
    ∃ n ∈ t.index, n.name = name ∧ ∃ v ∈ n.versions, v.1 = version ∧ leaf ∈ v.2 ∧ leaf.etype = et := by
  unfold Tables.entityPath at h
  split at h
  · cases h
  · next n hn =>
    split at h
    · cases h
    · next v hv =>
      split at h
      · cases h
      · next l hl =>
        injection h with h; subst h
        have h1 := List.find?_some hn
        have h2 := List.find?_some hv
        have h3 := List.find?_some hl
        simp at h1 h2
        rw [EType.beq_iff] at h3
        exact ⟨n, List.mem_of_find?_eq_some hn, h1, v, List.mem_of_find?_eq_some hv, h2,
          List.mem_of_find?_eq_some hl, h3⟩

theorem Tables.entityPath_err (t : Tables) (name : Nat) (version : Int) (et : EType) (e : IndexErr)
    (h : t.entityPath name version et = .error e) : e = .unknownEntity := by
  unfold Tables.entityPath at h
  split at h
  · injection h with h; exact h.symm
  · split at h
    · injection h with h; exact h.symm
    · split at h
      · injection h with h; exact h.symm
      · cases h

/-- a (name, version, type) with no leaf in the table is an unknown entity — for every name,
    every integer version and every entity type -/
theorem Tables.entityPath_unknown (t : Tables) (name : Nat) (version : Int) (et : EType)
    (h : ∀ n ∈ t.index, n.name = name → ∀ v ∈ n.versions, v.1 = version → ∀ l ∈ v.2, l.etype ≠ et) :
    t.entityPath name version et = .error .unknownEntity := by
  cases hp : t.entityPath name version et with
  | error e => rw [Tables.entityPath_err t name version et e hp]
  | ok leaf =>
    obtain ⟨n, hn, hnn, v, hv, hvv, hl, hle⟩ := Tables.entityPath_ok t name version et leaf hp
    exact absurd hle (h n hn hnn v hv hvv leaf hl)

theorem Tables.loadEntitySchema_err (t : Tables) (name : Nat) (version : Int) (et : EType) (e : IndexErr)
    (h : t.loadEntitySchema name version et = .error e) : e = .unknownEntity ∨ e = .importFailed := by
  unfold Tables.loadEntitySchema at h
  rcases bind_err h with h | ⟨a, _, h⟩
  · left; exact Tables.entityPath_err _ _ _ _ _ h
  · right
    split at h
    · cases h
    · injection h with h; exact h.symm

/-- the only errors the payload loaders produce are the two documented ones (plus an import
    failure when a path does not resolve, which `c09` excludes) -/
theorem Tables.loadPayloadSchema_err (t : Tables) (k version : Int) (et : EType) (e : IndexErr)
    (h : t.loadPayloadSchema k version et = .error e) :
    e = .unknownApiKey ∨ e = .unknownEntity ∨ e = .importFailed := by
  unfold Tables.loadPayloadSchema at h
  rcases bind_err h with h | ⟨a, _, h⟩
  · left; exact Tables.nameFromKey_err _ _ _ h
  · right; exact Tables.loadEntitySchema_err _ _ _ _ _ h

/-! ### C08 read as a proposition -/

theorem Tables.allClasses_iff (t : Tables) (p : ClassInfo → Bool) :
    t.allClasses p = true ↔ ∀ c ∈ t.classes, p c = true := by
  unfold Tables.allClasses Tables.classes
  simp only [List.all_eq_true, List.mem_flatten]
  constructor
  · rintro h c ⟨l, hl, hc⟩; exact h l hl c hc
  · intro h l hl c hc; exact h c ⟨l, hl, hc⟩

theorem Tables.allModules_iff (t : Tables) (p : ModuleInfo → Bool) :
    t.allModules p = true ↔ ∀ m ∈ t.modules, p m = true := by
  unfold Tables.allModules Tables.modules
  simp only [List.all_eq_true, List.mem_flatten, List.mem_map]
  constructor
  · rintro h m ⟨l, ⟨g, hg, rfl⟩, hm⟩; exact h g hg m hm
  · intro h g hg m hm; exact h m ⟨_, ⟨g, hg, rfl⟩, hm⟩

theorem Tables.mem_classes_of_cls? (t : Tables) {i : Nat} {c : ClassInfo} (h : t.cls? i = some c) :
    c ∈ t.classes := by
  unfold Tables.cls? chunkGet? at h
  unfold Tables.classes
  rw [Option.bind_eq_some_iff] at h
  obtain ⟨ch, h1, h2⟩ := h
  exact List.mem_flatten.2 ⟨ch, List.mem_of_getElem? h1, List.mem_of_getElem? h2⟩

theorem Tables.c08_class (t : Tables) (h : t.c08 = true) (c : ClassInfo) (hc : c ∈ t.classes) :
    headerOk t.headerIdxs c = true ∧ t.pairingOk c = true := by
  unfold Tables.c08 at h
  simp only [Bool.and_eq_true] at h
  have := (Tables.allClasses_iff t _).1 h.2 c hc
  simpa only [Bool.and_eq_true] using this

theorem Tables.pairingOk_request (t : Tables) (c : ClassInfo) (hr : c.etype = .request)
    (h : t.pairingOk c = true) :
    ∃ ri r, t.responseFromRequest c = .ok ri ∧ t.cls? ri = some r ∧ r.etype = .response ∧
      r.apiKey = c.apiKey ∧ r.flexible = c.flexible ∧ r.version = c.version ∧
      t.requestFromResponse r = .ok c.idx := by
  unfold Tables.pairingOk at h
  rw [hr] at h
  simp only at h
  split at h
  · next ri hri =>
    split at h
    · next r hr' =>
      simp only [Bool.and_eq_true, beq_iff_eq, EType.beq_iff] at h
      exact ⟨ri, r, hri, hr', h.1.1.1.1, h.1.1.1.2, h.1.1.2, h.1.2, isOk_eq h.2⟩
    · cases h
  · cases h

theorem Tables.pairingOk_response (t : Tables) (c : ClassInfo) (hr : c.etype = .response)
    (h : t.pairingOk c = true) :
    ∃ ri r, t.requestFromResponse c = .ok ri ∧ t.cls? ri = some r ∧ r.etype = .request ∧
      r.apiKey = c.apiKey ∧ r.flexible = c.flexible ∧ r.version = c.version ∧
      t.responseFromRequest r = .ok c.idx := by
  unfold Tables.pairingOk at h
  rw [hr] at h
  simp only at h
  split at h
  · next ri hri =>
    split at h
    · next r hr' =>
      simp only [Bool.and_eq_true, beq_iff_eq, EType.beq_iff] at h
      exact ⟨ri, r, hri, hr', h.1.1.1.1, h.1.1.1.2, h.1.1.2, h.1.2, isOk_eq h.2⟩
    · cases h
  · cases h

theorem Tables.responseFromRequest_congr (t : Tables) {a b : ClassInfo} (hk : a.apiKey = b.apiKey)
    (hv : a.version = b.version) : t.responseFromRequest a = t.responseFromRequest b := by
  unfold Tables.responseFromRequest; rw [hk, hv]

theorem Tables.requestFromResponse_congr (t : Tables) {a b : ClassInfo} (hk : a.apiKey = b.apiKey)
    (hv : a.version = b.version) : t.requestFromResponse a = t.requestFromResponse b := by
  unfold Tables.requestFromResponse; rw [hk, hv]

/-- what `c08` says about a request class: it advertises the header the Kafka rule names, and
    the index pairs it with a response class of the same key, version and flexibility, from
    which the index leads back to it -/
theorem Tables.c08_request (t : Tables) (h : t.c08 = true) (c : ClassInfo) (hc : c ∈ t.classes)
    (hr : c.etype = .request) :
    (∃ k hcls, c.apiKey = some k ∧
        t.headerClass true (Spec.requestHeaderVersion k c.version c.flexible) = some hcls ∧
        c.headerIdx = some hcls.idx) ∧
    (∃ r, t.responseFromRequest c = .ok r.idx ∧ t.cls? r.idx = some r ∧ r.etype = .response ∧
        r.apiKey = c.apiKey ∧ r.flexible = c.flexible ∧ r.version = c.version ∧
        t.requestFromResponse r = .ok c.idx) := by
  obtain ⟨hh, hp⟩ := Tables.c08_class t h c hc
  constructor
  · unfold headerOk at hh
    rw [hr] at hh
    simp only at hh
    split at hh
    · next hx i hexp hidx =>
      simp only [beq_iff_eq] at hh
      subst hh
      unfold expectedHeaderIdx at hexp
      rw [hr] at hexp
      cases hk : c.apiKey with
      | none => rw [hk] at hexp; cases hexp
      | some k =>
        rw [hk] at hexp
        simp only at hexp
        refine ⟨k, ?_⟩
        have key : ∀ v, v = 0 ∨ v = 1 ∨ v = 2 → t.headerIdxs.1.getD v none = some hx →
            ∃ hcls, t.headerClass true v = some hcls ∧ some hx = some hcls.idx := by
          intro v hv hg
          rcases hv with rfl | rfl | rfl <;>
          · simp only [Tables.headerIdxs, List.map_cons, List.getD_cons_zero, List.getD_cons_succ,
              Option.map_eq_some_iff] at hg
            obtain ⟨a, ha, hb⟩ := hg
            exact ⟨a, ha, by rw [hb]⟩
        have hv : Spec.requestHeaderVersion k c.version c.flexible = 0 ∨
            Spec.requestHeaderVersion k c.version c.flexible = 1 ∨
            Spec.requestHeaderVersion k c.version c.flexible = 2 := by
          unfold Spec.requestHeaderVersion
          split
          · exact Or.inl rfl
          · split
            · exact Or.inr (Or.inr rfl)
            · exact Or.inr (Or.inl rfl)
        obtain ⟨hcls, h1, h2⟩ := key _ hv hexp
        exact ⟨hcls, rfl, h1, hidx.trans h2⟩
    · cases hh
  · obtain ⟨ri, r, h1, h2, h3, h4, h5, h6, h7⟩ := Tables.pairingOk_request t c hr hp
    have hrm := Tables.mem_classes_of_cls? t h2
    obtain ⟨ri', r', g1, g2, g3, g4, g5, g6, g7⟩ :=
      Tables.pairingOk_response t r h3 (Tables.c08_class t h r hrm).2
    have : t.responseFromRequest r' = t.responseFromRequest c :=
      Tables.responseFromRequest_congr t (g4.trans h4) (g6.trans h6)
    rw [this, h1] at g7
    injection g7 with g7
    subst g7
    exact ⟨r, h1, h2, h3, h4, h5, h6, h7⟩

theorem Tables.c08_response (t : Tables) (h : t.c08 = true) (c : ClassInfo) (hc : c ∈ t.classes)
    (hr : c.etype = .response) :
    (∃ k hcls, c.apiKey = some k ∧
        t.headerClass false (Spec.responseHeaderVersion k c.flexible) = some hcls ∧
        c.headerIdx = some hcls.idx) ∧
    (∃ r, t.requestFromResponse c = .ok r.idx ∧ t.cls? r.idx = some r ∧ r.etype = .request ∧
        r.apiKey = c.apiKey ∧ r.flexible = c.flexible ∧ r.version = c.version ∧
        t.responseFromRequest r = .ok c.idx) := by
  obtain ⟨hh, hp⟩ := Tables.c08_class t h c hc
  constructor
  · unfold headerOk at hh
    rw [hr] at hh
    simp only at hh
    split at hh
    · next hx i hexp hidx =>
      simp only [beq_iff_eq] at hh
      subst hh
      unfold expectedHeaderIdx at hexp
      rw [hr] at hexp
      cases hk : c.apiKey with
      | none => rw [hk] at hexp; cases hexp
      | some k =>
        rw [hk] at hexp
        simp only at hexp
        refine ⟨k, ?_⟩
        have key : ∀ v, v = 0 ∨ v = 1 → t.headerIdxs.2.getD v none = some hx →
            ∃ hcls, t.headerClass false v = some hcls ∧ some hx = some hcls.idx := by
          intro v hv hg
          rcases hv with rfl | rfl <;>
          · simp only [Tables.headerIdxs, List.map_cons, List.getD_cons_zero, List.getD_cons_succ,
              Option.map_eq_some_iff] at hg
            obtain ⟨a, ha, hb⟩ := hg
            exact ⟨a, ha, by rw [hb]⟩
        have hv : Spec.responseHeaderVersion k c.flexible = 0 ∨
            Spec.responseHeaderVersion k c.flexible = 1 := by
          unfold Spec.responseHeaderVersion
          split
          · exact Or.inl rfl
          · split
            · exact Or.inr rfl
            · exact Or.inl rfl
        obtain ⟨hcls, h1, h2⟩ := key _ hv hexp
        exact ⟨hcls, rfl, h1, hidx.trans h2⟩
    · cases hh
  · obtain ⟨ri, r, h1, h2, h3, h4, h5, h6, h7⟩ := Tables.pairingOk_response t c hr hp
    have hrm := Tables.mem_classes_of_cls? t h2
    obtain ⟨ri', r', g1, g2, g3, g4, g5, g6, g7⟩ :=
      Tables.pairingOk_request t r h3 (Tables.c08_class t h r hrm).2
    have : t.requestFromResponse r' = t.requestFromResponse c :=
      Tables.requestFromResponse_congr t (g4.trans h4) (g6.trans h6)
    rw [this, h1] at g7
    injection g7 with g7
    subst g7
    exact ⟨r, h1, h2, h3, h4, h5, h6, h7⟩

/-! ### C09 read as a proposition -/

/-- every walked module is reachable through the index and resolves to itself and its class -/
theorem Tables.c09_module (t : Tables) (h : t.c09 = true) (m : ModuleInfo) (hm : m ∈ t.modules) :
    t.loadEntityModule m.key.api m.key.version m.key.kind = .ok m.key ∧
    t.loadEntitySchema m.key.api m.key.version m.key.kind = .ok m.top := by
  unfold Tables.c09 at h
  simp only [Bool.and_eq_true] at h
  have hmi := (Tables.allModules_iff t _).1 h.1.1.1.1.1 m hm
  unfold Tables.moduleIndexed at hmi
  unfold Tables.loadEntityModule Tables.loadEntitySchema
  split at hmi
  · next leaf hl =>
    rw [hl]
    simp only [Bool.and_eq_true, beq_iff_eq] at hmi
    obtain ⟨h1, h2⟩ := hmi
    split at h1
    · next k hk =>
      have := ModKey.eq_of_beq h1
      subst this
      simp [bind, Except.bind, hk, h2, pure, Except.pure]
    · cases h1
  · cases hmi

theorem snd_nodup_inj : ∀ (l : List (Int × Nat)), (l.map (·.2)).Nodup → ∀ a b n, (a, n) ∈ l → (b, n) ∈ l → a = b
  | [], _, _, _, _, h, _ => by cases h
  | x :: l, hn, a, b, n, ha, hb => by
    simp only [List.map_cons, List.nodup_cons, List.mem_map, not_exists, not_and] at hn
    rcases List.mem_cons.1 ha with ha' | ha' <;> rcases List.mem_cons.1 hb with hb' | hb'
    · rw [← ha'] at hb'; injection hb' with hb'; exact hb'.symm
    · subst ha'; exact absurd rfl (hn.1 (b, n) hb')
    · subst hb'; exact absurd rfl (hn.1 (a, n) ha')
    · exact snd_nodup_inj l hn.2 a b n ha' hb'

/-- API keys map one-to-one to API names -/
theorem Tables.c09_keys_injective (t : Tables) (h : t.c09 = true) (k₁ k₂ : Int) (n : Nat)
    (h₁ : t.nameFromKey k₁ = .ok n) (h₂ : t.nameFromKey k₂ = .ok n) : k₁ = k₂ := by
  unfold Tables.c09 at h
  simp only [Bool.and_eq_true] at h
  have hk := h.1.1.2
  unfold Tables.keysOk at hk
  simp only [Bool.and_eq_true, decide_eq_true_eq] at hk
  exact snd_nodup_inj _ hk.1.1.2 _ _ n (Tables.nameFromKey_ok _ _ _ h₁) (Tables.nameFromKey_ok _ _ _ h₂)

/-! ### C15 read as a proposition -/

theorem Tables.c15_class (t : Tables) (h : t.c15 = true) (c : ClassInfo) (hc : c ∈ t.classes) :
    ∃ p, c.params = some p ∧ p.frozen = true ∧ p.eq = true ∧ p.slots = true ∧ p.unsafeHash = false ∧
      c.hasSlots = true ∧ c.hasDict = false ∧ c.hashable = true ∧ c.hashGenerated = true ∧
      ∀ f ∈ c.fields, f.immutableType = true ∧ f.compare = true := by
  have hv := (Tables.allClasses_iff t _).1 h c hc
  unfold ClassInfo.valueObject at hv
  simp only [Bool.and_eq_true, Bool.not_eq_true', List.all_eq_true] at hv
  obtain ⟨⟨⟨⟨⟨hp, h1⟩, h2⟩, h3⟩, h4⟩, h5⟩ := hv
  split at hp
  · next p hpe =>
    simp only [Bool.and_eq_true, Bool.not_eq_true'] at hp
    exact ⟨p, hpe, hp.1.1.1.1.1, hp.1.1.1.1.2, hp.1.1.1.2, hp.1.1.2, h1, h2, h3, h5,
      fun f hf => ⟨(h4 f hf).1.1.1, (h4 f hf).1.1.2⟩⟩
  · cases hp

end Kio
