import Kio.Model.TablePreds
/-!
Reading the Boolean table predicates as propositions, and universal facts about the index model.
-/
namespace Kio

/-! ### the index model rejects everything that is not in its tables (C09, unbounded) -/

/-- any key that is not in `api_key_map` — any integer at all — is reported as unknown API key -/
theorem Tables.nameFromKey_unknown (t : Tables) (k : Int) (h : ∀ e ∈ t.apiKeys, e.1 ≠ k) :
    t.nameFromKey k = .error .unknownApiKey := by
  sorry

/-- a key in the map resolves to a name the map associates with it -/
theorem Tables.nameFromKey_ok (t : Tables) (k : Int) (n : Nat) (h : t.nameFromKey k = .ok n) :
    (k, n) ∈ t.apiKeys := by
  sorry

/-- lookups only ever return leaves that are in the table under that name, version and type -/
theorem Tables.entityPath_ok (t : Tables) (name : Nat) (version : Int) (et : EType) (leaf : IndexLeaf)
    (h : t.entityPath name version et = .ok leaf) :
    ∃ n ∈ t.index, n.name = name ∧ ∃ v ∈ n.versions, v.1 = version ∧ leaf ∈ v.2 ∧ leaf.etype = et := by
  sorry

/-- a (name, version, type) with no leaf in the table is an unknown entity — for every name,
    every integer version and every entity type -/
theorem Tables.entityPath_unknown (t : Tables) (name : Nat) (version : Int) (et : EType)
    (h : ∀ n ∈ t.index, n.name = name → ∀ v ∈ n.versions, v.1 = version → ∀ l ∈ v.2, l.etype ≠ et) :
    t.entityPath name version et = .error .unknownEntity := by
  sorry

/-- the only errors the payload loaders produce are the two documented ones (plus an import
    failure when a path does not resolve, which `c09` excludes) -/
theorem Tables.loadPayloadSchema_err (t : Tables) (k version : Int) (et : EType) (e : IndexErr)
    (h : t.loadPayloadSchema k version et = .error e) :
    e = .unknownApiKey ∨ e = .unknownEntity ∨ e = .importFailed := by
  sorry

/-! ### C08 read as a proposition -/

theorem Tables.allClasses_iff (t : Tables) (p : ClassInfo → Bool) :
    t.allClasses p = true ↔ ∀ c ∈ t.classes, p c = true := by
  sorry

theorem Tables.allModules_iff (t : Tables) (p : ModuleInfo → Bool) :
    t.allModules p = true ↔ ∀ m ∈ t.modules, p m = true := by
  sorry

/-- what `c08` says about a request class: it advertises the header the Kafka rule names, and
    the index pairs it with a response class of the same key, version and flexibility, from
    which the index leads back to it -/
theorem Tables.c08_request (t : Tables) (h : t.c08 = true) (c : ClassInfo) (hc : c ∈ t.classes)
    (hr : c.etype = .request) :
    (∃ k hcls, c.apiKey = some k ∧
        t.headerClass true (Spec.requestHeaderVersion k c.version c.flexible) = some hcls ∧
        c.headerIdx = some hcls.idx) ∧
    (∃ r, t.responseFromRequest c = .ok r.idx ∧ t.cls? r.idx = some r ∧ r.etype = .response ∧
        r.apiKey = c.apiKey ∧ r.flexible = c.flexible ∧ r.version = c.version ∧
        t.requestFromResponse r = .ok c.idx) := by
  sorry

theorem Tables.c08_response (t : Tables) (h : t.c08 = true) (c : ClassInfo) (hc : c ∈ t.classes)
    (hr : c.etype = .response) :
    (∃ k hcls, c.apiKey = some k ∧
        t.headerClass false (Spec.responseHeaderVersion k c.flexible) = some hcls ∧
        c.headerIdx = some hcls.idx) ∧
    (∃ r, t.requestFromResponse c = .ok r.idx ∧ t.cls? r.idx = some r ∧ r.etype = .request ∧
        r.apiKey = c.apiKey ∧ r.flexible = c.flexible ∧ r.version = c.version ∧
        t.responseFromRequest r = .ok c.idx) := by
  sorry

/-! ### C09 read as a proposition -/

/-- every walked module is reachable through the index and resolves to itself and its class -/
theorem Tables.c09_module (t : Tables) (h : t.c09 = true) (m : ModuleInfo) (hm : m ∈ t.modules) :
    t.loadEntityModule m.key.api m.key.version m.key.kind = .ok m.key ∧
    t.loadEntitySchema m.key.api m.key.version m.key.kind = .ok m.top := by
  sorry

/-- API keys map one-to-one to API names -/
theorem Tables.c09_keys_injective (t : Tables) (h : t.c09 = true) (k₁ k₂ : Int) (n : Nat)
    (h₁ : t.nameFromKey k₁ = .ok n) (h₂ : t.nameFromKey k₂ = .ok n) : k₁ = k₂ := by
  sorry

/-! ### C15 read as a proposition -/

theorem Tables.c15_class (t : Tables) (h : t.c15 = true) (c : ClassInfo) (hc : c ∈ t.classes) :
    ∃ p, c.params = some p ∧ p.frozen = true ∧ p.eq = true ∧ p.slots = true ∧ p.unsafeHash = false ∧
      c.hasSlots = true ∧ c.hasDict = false ∧ c.hashable = true ∧
      ∀ f ∈ c.fields, f.immutableType = true ∧ f.compare = true := by
  sorry

end Kio
