import Kio.Proofs.GenSucceedsBase
import Kio.Proofs.GenCoherent
/-!
# C16: generation *succeeds* on the supported subset

`module_coherent`, `module_defaults`, `coh_module_nodup` (Kio/Proofs/GenCoherent*.lean) assume
`module d b v = .ok gs`.  Here: for a supported definition whose common structures are not cyclic
and whose size fits the generator's fuel, `module d b v` *is* `.ok gs`.

Every error branch of `genFields` / `genClass` is excluded:
* no field variant matches, `entityType` on a type that is not a class, an explicit default in an
  unsupported spelling, `null` default on a non-nullable field — by `fieldOk` on every visible
  field (`gs_genOne_succeeds`, Kio/Proofs/GenSucceedsBase.lean);
* `Name()` of a tagged inline structure all of whose members have defaults (`instanceOfDefaults`) —
  every *generated* member of such a structure has a default value: the invariant `gs_AccOK` on the
  classes generated so far (members that are not visible at the version are not generated, the
  others satisfy `fieldOk`); the structure names are pairwise distinct, so the class found under
  the structure's name is the structure's;
* fuel: it bounds the *depth* of the walk (the rest of a field list and the nested class receive the
  same remaining fuel), one unit per field passed and per class entered.  A path of the walk visits
  the fields of the message and, under `acyclicCommon`, every common structure at most once; its
  length is at most `2 * d.size + 2`.

`Supported` did not have to be strengthened.
-/
namespace Kio.Gen
open Kio

/-! ## common structures that do not refer to each other in a cycle -/

/-- a reference that `ok` accepts resolves to a common structure in `rem` -/
def gs_Avail (d : MsgDef) (ok : List Nat → Bool) (rem : List CommonStruct) : Prop :=
  ∀ n cs, ok n = true → findCS d n = some cs → cs ∈ rem

/-- every structure of the list refers only to structures after it -/
def gs_Ord (d : MsgDef) : List CommonStruct → Prop
  | [] => True
  | c :: post => (∃ ok, refsOkL ok c.fields = true ∧ gs_Avail d ok post) ∧ gs_Ord d post

theorem gs_ord_mem {d : MsgDef} : ∀ rem : List CommonStruct, gs_Ord d rem → ∀ cs ∈ rem,
    ∃ ok post, refsOkL ok cs.fields = true ∧ gs_Avail d ok post ∧ gs_Ord d post ∧
      (nodesL cs.fields + 1) + csWeight post ≤ csWeight rem
  | [], _, _, h => by cases h
  | c :: post, ⟨⟨ok, h1, h2⟩, h3⟩, cs, h => by
    rcases List.mem_cons.1 h with rfl | h
    · exact ⟨ok, post, h1, h2, h3, by rw [csWeight]; omega⟩
    · obtain ⟨ok', post', i1, i2, i3, i4⟩ := gs_ord_mem post h3 cs h
      exact ⟨ok', post', i1, i2, i3, by rw [csWeight]; omega⟩

theorem gs_ord_of_flat {d : MsgDef} (h : flatCommon d = true) : gs_Ord d d.commonStructs := by
  unfold flatCommon at h
  rw [List.all_eq_true] at h
  suffices hm : ∀ l : List CommonStruct, (∀ c ∈ l, c ∈ d.commonStructs) → gs_Ord d l from
    hm _ (fun _ hc => hc)
  intro l
  induction l with
  | nil => intro _; trivial
  | cons c post ih =>
    intro hl
    refine ⟨⟨_, h c (hl c List.mem_cons_self), ?_⟩, ih (fun c' hc' => hl c' (List.mem_cons_of_mem _ hc'))⟩
    intro n cs hok hf
    simp only [hf] at hok
    cases hok

theorem gs_ord_of_acyclicFrom {d : MsgDef} : ∀ (post pre : List CommonStruct) (seen : List (List Nat)),
    d.commonStructs = pre ++ post → (∀ c ∈ pre, c.name ∈ seen) → acyclicFrom seen post = true →
    gs_Ord d post
  | [], _, _, _, _, _ => trivial
  | c :: post, pre, seen, hd, hseen, h => by
    rw [acyclicFrom, Bool.and_eq_true] at h
    refine ⟨⟨_, h.1, ?_⟩, gs_ord_of_acyclicFrom post (pre ++ [c]) (c.name :: seen) (by simp [hd]) ?_ h.2⟩
    · intro n cs hok hf
      have hmem : cs ∈ d.commonStructs := List.mem_of_find?_eq_some hf
      have hname : cs.name = n := find_cs_name hf
      rw [hd] at hmem
      simp only [Bool.not_eq_eq_eq_not, Bool.not_true, List.contains_eq_mem, List.mem_cons,
        decide_eq_false_iff_not, not_or] at hok
      rcases List.mem_append.1 hmem with hp | hp
      · exact absurd (hname ▸ hseen cs hp) hok.2
      · rcases List.mem_cons.1 hp with rfl | hp
        · exact absurd hname.symm hok.1
        · exact hp
    · intro c' hc'
      rcases List.mem_append.1 hc' with hp | hp
      · exact List.mem_cons_of_mem _ (hseen c' hp)
      · simp only [List.mem_singleton] at hp
        subst hp
        exact List.mem_cons_self

theorem gs_ord_of_acyclic {d : MsgDef} (h : acyclicCommon d = true) : gs_Ord d d.commonStructs :=
  gs_ord_of_acyclicFrom d.commonStructs [] [] rfl (by simp) h

/-- the nested structure of a visible field: where its references resolve, and what walking it
    costs compared with what the field itself is charged -/
theorem gs_sub_budget {d : MsgDef} {f : FieldDef} {var : Variant} {n : List Nat} {fs : List FieldDef}
    {ok : List Nat → Bool} {rem : List CommonStruct}
    (hi : VariantInfo d f var) (hs : var.sub = some (n, fs)) (hok : FieldDef.refsOk ok f = true)
    (hav : gs_Avail d ok rem) (hord : gs_Ord d rem) :
    ∃ ok' rem', refsOkL ok' fs = true ∧ gs_Avail d ok' rem' ∧ gs_Ord d rem' ∧
      2 * nodesL fs + 2 + 2 * csWeight rem' ≤ 2 * FieldDef.nodes f + 2 * csWeight rem := by
  have inline : ∀ {n'}, (f.ty = .struct n' ∨ f.ty = .structArr n') → f.fields = some fs →
      ∃ ok' rem', refsOkL ok' fs = true ∧ gs_Avail d ok' rem' ∧ gs_Ord d rem' ∧
        2 * nodesL fs + 2 + 2 * csWeight rem' ≤ 2 * FieldDef.nodes f + 2 * csWeight rem := by
    intro n' _ hfs
    rw [gs_refsOk_some hfs] at hok
    exact ⟨ok, rem, hok, hav, hord, by rw [gs_nodes_some hfs]; omega⟩
  have common : ∀ {cs : CommonStruct}, (f.ty = .struct cs.name ∨ f.ty = .structArr cs.name) →
      f.fields = none → d.commonStructs.find? (·.name == cs.name) = some cs →
      ∃ ok' rem', refsOkL ok' cs.fields = true ∧ gs_Avail d ok' rem' ∧ gs_Ord d rem' ∧
        2 * nodesL cs.fields + 2 + 2 * csWeight rem' ≤ 2 * FieldDef.nodes f + 2 * csWeight rem := by
    intro cs hty hfs hfind
    rw [gs_refsOk_none hfs hty] at hok
    obtain ⟨ok', post, i1, i2, i3, i4⟩ := gs_ord_mem rem hord cs (hav cs.name cs hok hfind)
    have := gs_nodes_pos f
    exact ⟨ok', post, i1, i2, i3, by omega⟩
  cases var <;> simp only [VariantInfo] at hi <;> simp only [Variant.sub, Option.some.injEq, Prod.mk.injEq] at hs
  · cases hs
  · cases hs
  · obtain ⟨rfl, rfl⟩ := hs; exact inline (Or.inr hi.1) hi.2
  · obtain ⟨rfl, rfl⟩ := hs; exact inline (Or.inl hi.1) hi.2
  · obtain ⟨rfl, rfl⟩ := hs; exact common (Or.inr hi.1) hi.2.1 hi.2.2
  · obtain ⟨rfl, rfl⟩ := hs; exact common (Or.inl hi.1) hi.2.1 hi.2.2

/-! ## the invariant on the classes generated so far -/

/-- a class generated for a structure all of whose members have defaults can be instantiated from
    its defaults -/
def gs_AccOK (ctx : Ctx) (acc : List GClass) : Prop :=
  ∀ g ∈ acc, ∀ fs, (g.name, fs) ∈ ctx.d.structs → onlyDefaults ctx.d fs = true →
    ∃ i, instanceOfDefaults g.schema = .ok i

/-! ## the induction -/

theorem gs_gen (ctx : Ctx) (hsup : SupInfo ctx.d ctx.v) : ∀ fuel : Nat,
    (∀ acc n fs top ok rem, gs_AccOK ctx acc → (n, fs) ∈ ctx.d.structs → SubS ctx.d fs → Reach ctx.d fs →
      refsOkL ok fs = true → gs_Avail ctx.d ok rem → gs_Ord ctx.d rem →
      2 * nodesL fs + 2 + 2 * csWeight rem ≤ fuel →
      ∃ acc' s, genClass ctx fuel acc n fs top = .ok (acc', s) ∧ gs_AccOK ctx acc' ∧
        (onlyDefaults ctx.d fs = true → ∃ i, instanceOfDefaults s = .ok i)) ∧
    (∀ acc fs ok rem, gs_AccOK ctx acc → SubS ctx.d fs → Reach ctx.d fs →
      refsOkL ok fs = true → gs_Avail ctx.d ok rem → gs_Ord ctx.d rem →
      2 * nodesL fs + 1 + 2 * csWeight rem ≤ fuel →
      ∃ acc' out, genFields ctx fuel acc fs = .ok (acc', out) ∧ gs_AccOK ctx acc' ∧
        (onlyDefaults ctx.d fs = true → ∀ e ∈ out, gs_HasVal e.2)) := by
  intro fuel
  induction fuel with
  | zero =>
    refine ⟨?_, ?_⟩
    · intro acc n fs top ok rem _ _ _ _ _ _ _ h; omega
    · intro acc fs ok rem _ _ _ _ _ _ h; omega
  | succ fuel ih =>
    obtain ⟨ihC, ihF⟩ := ih
    refine ⟨?_, ?_⟩
    · -- genClass
      intro acc n fs top ok rem hacc hmem hsub hreach hok hav hord hfuel
      cases hfind : acc.find? (·.name == n) with
      | some g =>
        refine ⟨acc, g.schema, gs_genClass_found hfind, hacc, ?_⟩
        intro hod
        have hgm : g ∈ acc := List.mem_of_find?_eq_some hfind
        have hname : g.name = n := by simpa using List.find?_some hfind
        exact hacc g hgm fs (by rw [hname]; exact hmem) hod
      | none =>
        obtain ⟨acc1, out, h1, hacc1, hval⟩ := ihF acc fs ok rem hacc hsub hreach hok hav hord (by omega)
        have hinst : onlyDefaults ctx.d fs = true →
            ∃ i, instanceOfDefaults (mkClass ctx n top acc1 out).schema = .ok i := by
          intro hod
          apply gs_instance_ok
          intro fld hfld
          obtain ⟨e, he, rfl⟩ := List.mem_map.1 hfld
          exact hval hod e he
        refine ⟨_, _, gs_genClass_new hfind h1, ?_, hinst⟩
        intro g hg fs' hfs' hod
        rcases List.mem_append.1 hg with hg | hg
        · exact hacc1 g hg fs' hfs' hod
        · simp only [List.mem_singleton] at hg
          subst hg
          have : fs' = fs := hsup.fun_ hfs' hmem
          subst this
          exact hinst hod
    · -- genFields
      intro acc fs ok rem hacc hsub hreach hok hav hord hfuel
      cases fs with
      | nil => exact ⟨acc, [], by rw [genFields], hacc, fun _ e he => by cases he⟩
      | cons f rest =>
        rw [nodesL] at hfuel
        have hpos := gs_nodes_pos f
        rw [refsOkL, Bool.and_eq_true] at hok
        cases hm : f.versions.matches ctx.v with
        | false =>
          obtain ⟨acc', out, h1, hacc', hval⟩ := ihF acc rest ok rem hacc hsub.rest hreach.rest hok.2 hav hord
            (by omega)
          refine ⟨acc', out, by rw [gs_genFields_skip hm]; exact h1, hacc', ?_⟩
          intro hod
          exact hval (gs_onlyDefaults_cons hod).2
        | true =>
          have hfo : fieldOk ctx.d ctx.v f = true := by
            have := hreach.head hsup.all
            simp only [visOk, hm, Bool.not_true, Bool.false_or, Bool.and_eq_true] at this
            exact this.1
          obtain ⟨var, hvar⟩ := gs_fieldOk_variant hfo
          have hinfo := (variant_info hvar).2
          -- the nested class, if the field has one
          have hnest : ∃ acc1, gs_AccOK ctx acc1 ∧
              (var.sub = none → acc1 = acc) ∧
              (∀ n fs, var.sub = some (n, fs) → ∃ s, genClass ctx fuel acc n fs false = .ok (acc1, s) ∧
                (onlyDefaults ctx.d fs = true → ∃ i, instanceOfDefaults s = .ok i)) := by
            cases hsubv : var.sub with
            | none => exact ⟨acc, hacc, fun _ => rfl, fun _ _ h => by cases h⟩
            | some nfs =>
              obtain ⟨n, fs⟩ := nfs
              obtain ⟨hsub', hmem'⟩ := coh_sub_of_variant hinfo hsubv hsub
              obtain ⟨ok', rem', j1, j2, j3, j4⟩ := gs_sub_budget hinfo hsubv hok.1 hav hord
              obtain ⟨acc1, s, hc, hacc1, hinst⟩ := ihC acc n fs false ok' rem' hacc hmem' hsub'
                (reach_sub hinfo hsubv hreach) j1 j2 j3 (by omega)
              refine ⟨acc1, hacc1, (fun h => nomatch h), ?_⟩
              intro n2 fs2 h2
              simp only [Option.some.injEq, Prod.mk.injEq] at h2
              obtain ⟨rfl, rfl⟩ := h2
              exact ⟨s, hc, hinst⟩
          obtain ⟨acc1, hacc1, hnone, hsome⟩ := hnest
          obtain ⟨acc1', py, fld, h1, hfv⟩ := gs_genOne_succeeds (fuel := fuel) (acc := acc) hfo hvar
            (fun n fs h => by obtain ⟨s, hc, hi⟩ := hsome n fs h; exact ⟨acc1, s, hc, hi⟩)
          have hacc_eq : acc1' = acc1 := by
            have hone := genOne_ok h1
            cases hsubv : var.sub with
            | none => rw [hnone hsubv]; exact oneInfo_sub_none hone hsubv
            | some nfs =>
              obtain ⟨n, fs⟩ := nfs
              obtain ⟨s, hc, _⟩ := hsome n fs hsubv
              obtain ⟨s', hc'⟩ := oneInfo_sub_some hone hsubv
              rw [hc] at hc'
              cases hc'
              rfl
          subst hacc_eq
          obtain ⟨acc2, out, h2, hacc2, hval⟩ := ihF acc1' rest ok rem hacc1 hsub.rest hreach.rest hok.2 hav hord
            (by omega)
          refine ⟨acc2, (py, fld) :: out, gs_genFields_vis hm hvar h1 h2, hacc2, ?_⟩
          intro hod e he
          obtain ⟨hhead, hrest⟩ := gs_onlyDefaults_cons hod
          rcases List.mem_cons.1 he with rfl | he
          · obtain ⟨hv1, hv2⟩ := hhead var hvar
            exact hfv hv1 hv2
          · exact hval hrest e he

/-! ## the theorems -/

/-- generation succeeds for a supported definition whose common structures are ordered so that
    each refers only to later ones -/
theorem gs_module_succeeds_of_ord (d : MsgDef) (b : List (List Nat)) (v : Nat)
    (hs : Supported d v = true) (hord : gs_Ord d d.commonStructs) (hsz : 2 * d.size + 2 ≤ maxDepth) :
    ∃ gs, module d b v = .ok gs := by
  have hsup := coh_supInfo hs
  obtain ⟨acc', s, hc, _, _⟩ := (gs_gen ⟨d, v, b⟩ hsup maxDepth).1 [] d.name d.fields true (fun _ => true)
    d.commonStructs (fun g hg => by cases hg) (coh_top_mem d) (SubS.top d) (Reach.top d)
    (gs_refsOkL_true _) (fun n cs _ hf => List.mem_of_find?_eq_some hf) hord
    (by unfold MsgDef.size at hsz; omega)
  exact ⟨acc', by unfold module; rw [hc]; rfl⟩

/-- **generation succeeds** on the supported subset: no error branch of the generator is reachable
    for a supported definition with flat common structures that fits the generator's fuel -/
theorem module_succeeds (d : MsgDef) (b : List (List Nat)) (v : Nat)
    (hs : Supported d v = true) (hflat : flatCommon d = true) (hsz : 2 * d.size + 2 ≤ maxDepth) :
    ∃ gs, module d b v = .ok gs :=
  gs_module_succeeds_of_ord d b v hs (gs_ord_of_flat hflat) hsz

/-- the same under the weaker condition that common structures refer only to later ones -/
theorem module_succeeds_acyclic (d : MsgDef) (b : List (List Nat)) (v : Nat)
    (hs : Supported d v = true) (hac : acyclicCommon d = true) (hsz : 2 * d.size + 2 ≤ maxDepth) :
    ∃ gs, module d b v = .ok gs :=
  gs_module_succeeds_of_ord d b v hs (gs_ord_of_acyclic hac) hsz

/-- **a supported definition is generated, with pairwise distinct class names and coherent
    classes** (`module_succeeds` + `coh_module_nodup` + `module_coherent`) -/
theorem supported_generates (env : Env) (ht : env.time = TimeCfg.repaired)
    (d : MsgDef) (b : List (List Nat)) (v : Nat)
    (hs : Supported d v = true) (hflat : flatCommon d = true) (hsz : 2 * d.size + 2 ≤ maxDepth) :
    ∃ gs, module d b v = .ok gs ∧ (gs.map (·.name)).Nodup ∧
      ∀ g ∈ gs, g.schema.wf env = true ∧ g.schema.tagArrOk = true ∧ g.schema.fewFields = true := by
  obtain ⟨gs, h⟩ := module_succeeds d b v hs hflat hsz
  exact ⟨gs, h, coh_module_nodup hs h, module_coherent env ht d b v gs hs h⟩

end Kio.Gen

/-! ## the acyclicity hypothesis cannot be dropped (kernel-checked) -/
namespace Kio.Gen.CounterSucc
open Kio Kio.Gen

def r0 : Option VRange := some (.mk 0 none)
def nodeName : List Nat := strOf "Node"
/-- `Children: []Node`, a reference to the common structure `Node` -/
def fRef : FieldDef := .mk (strOf "Children") (.structArr nodeName) r0 none none none none false none none
def fId : FieldDef := .mk (strOf "Id") (.prim .int32) r0 none none none none false none none
/-- the common structure `Node` contains an array of `Node` -/
def cNode : CommonStruct := ⟨nodeName, [fRef, fId]⟩
def dTree : MsgDef := ⟨strOf "Tree", .data, none, .mk 0 (some 0), .mk 0 none, [fRef], [cNode]⟩

theorem gs_tree_supported : Supported dTree 0 = true := by decide
theorem gs_tree_small : 2 * dTree.size + 2 ≤ maxDepth := by decide
theorem gs_tree_not_acyclic : acyclicCommon dTree = false := by decide

theorem gs_genOne_csArr_error {ctx : Ctx} {fuel : Nat} {acc : List GClass} {f : FieldDef}
    {cs : CommonStruct} {e : GenErr} (h : genClass ctx fuel acc cs.name cs.fields false = .error e) :
    genOne ctx fuel acc f (.csArr cs) = .error e := by
  unfold genOne
  simp only [h]

theorem gs_tree_variant : variant dTree fRef = .ok (.csArr cNode) := rfl
theorem gs_tree_visible : fRef.versions.matches 0 = true := by decide

/-- a field list that starts with `Children: []Node` fails as soon as `Node` does -/
theorem gs_tree_fields_fail {b : List (List Nat)} {fuel : Nat} {rest : List FieldDef}
    (h : genClass ⟨dTree, 0, b⟩ fuel [] nodeName [fRef, fId] false = .error .validation) :
    genFields ⟨dTree, 0, b⟩ (fuel+1) [] (fRef :: rest) = .error .validation := by
  have h1 : genOne ⟨dTree, 0, b⟩ fuel [] fRef (.csArr cNode) = .error .validation :=
    gs_genOne_csArr_error h
  have hv : variant (Ctx.mk dTree 0 b).d fRef = .ok (.csArr cNode) := gs_tree_variant
  have hm : fRef.versions.matches (Ctx.mk dTree 0 b).v = true := gs_tree_visible
  rw [genFields_cons]
  simp only [hm, hv, Bool.not_true, Bool.false_eq_true, if_false, h1]

/-- the generator never gets to the end of `Node`: whatever the fuel, it runs out -/
theorem gs_tree_node_fails (b : List (List Nat)) : ∀ fuel : Nat,
    genClass ⟨dTree, 0, b⟩ fuel [] nodeName [fRef, fId] false = .error .validation
  | 0 => by rw [genClass]
  | 1 => by rw [genClass]; simp only [List.find?_nil]; rw [genFields]
  | fuel+2 => by
    rw [genClass]
    simp only [List.find?_nil, gs_tree_fields_fail (gs_tree_node_fails b fuel)]

theorem gs_tree_top_fails (b : List (List Nat)) : ∀ fuel : Nat,
    genClass ⟨dTree, 0, b⟩ fuel [] dTree.name dTree.fields true = .error .validation
  | 0 => by rw [genClass]
  | 1 => by rw [genClass]; simp only [List.find?_nil]; rw [genFields]
  | fuel+2 => by
    rw [genClass]
    simp only [List.find?_nil]
    rw [show dTree.fields = [fRef] from rfl, gs_tree_fields_fail (gs_tree_node_fails b fuel)]

theorem gs_tree_fails (b : List (List Nat)) : module dTree b 0 = .error .validation := by
  unfold module
  rw [gs_tree_top_fails]
  rfl

/-- `module_succeeds` is false without a condition on the references between common structures:
    a supported, small definition whose common structure contains itself is not generated -/
theorem module_succeeds_needs_acyclic :
    ¬ ∀ (d : MsgDef) (b : List (List Nat)) (v : Nat), Supported d v = true → 2 * d.size + 2 ≤ maxDepth →
      ∃ gs, module d b v = .ok gs := by
  intro H
  obtain ⟨gs, h⟩ := H dTree [] 0 gs_tree_supported gs_tree_small
  rw [gs_tree_fails] at h
  cases h

end Kio.Gen.CounterSucc
