import Kio.Proofs.Codec
import Kio.Proofs.SpecEq
import Kio.Proofs.Float
import Kio.Spec.Foreign
/-!
Helpers for `Schema.accepts_foreign` (C03): primitives, arrays, nullable entities, shapes and
fields read back from their *specification* bytes (`Spec.fieldBytesF`).
-/
namespace Kio

/-- CPython's float conversion is exact on whole-millisecond timestamps (from `ms_exact`). -/
theorem floatExact_holds : FloatExact := by
  intro k h0 h1
  apply ms_exact
  rw [abs_lt]
  constructor <;> omega

/-! ### primitives -/

theorem getWriter_of_getReader (k : KType) (flex n : Bool) (r : PrimR)
    (h : getReader k flex n = .ok r) : ∃ w, getWriter k flex n = .ok w := by
  cases k <;> cases flex <;> cases n <;> simp [getReader] at h <;> exact ⟨_, rfl⟩

/-- the bytes the specification prescribes for a primitive are read back by the reader the
    dispatch table picks -/
theorem prim_spec_rt (env : Env) (ht : env.time = TimeCfg.repaired)
    (k : KType) (flex nW nR : Bool) (hopt : (nW = true → nR = true) ∨ k = .uuid) (r : PrimR)
    (hr : getReader k flex nR = .ok r) (hwex : ∃ w, getWriter k flex nW = .ok w)
    (v : Value) (hv : primValueOk env k true v = true) (p : Bytes)
    (hp : Spec.prim k flex nW v = some p) (rest : Bytes) :
    r.run env (p ++ rest) = .ok (v, rest) := by
  obtain ⟨w, hw⟩ := hwex
  have h1 := prim_eq_spec env ht floatExact_holds k flex nW w hw v hv
  rw [hp] at h1
  exact prim_roundtrip' env ht floatExact_holds k flex nW nR hopt w r hw hr v hv p
    (toOption_eq_some.1 h1) rest

/-- with the repaired reader, a primitive field is read either with its own nullability flag, or
    (nullable, tagged, a Kafka type without nullable reader) with the plain reader -/
theorem readerOptional_cases (env : Env) (hnull : env.nullableTaggedReader = true)
    (k : KType) (flex o tagged : Bool) :
    readerOptional env k flex o tagged = o ∨
      (o = true ∧ readerOptional env k flex o tagged = false ∧
        ∃ e, getReader k flex true = .error e) := by
  unfold readerOptional
  rw [hnull]
  cases hg : getReader k flex true with
  | ok r => left; cases o <;> cases tagged <;> simp [Except.toOption]
  | error e =>
    cases o
    · left; simp
    · cases tagged
      · left; simp
      · right; exact ⟨rfl, by simp [Except.toOption], e, rfl⟩

/-- a Kafka type without nullable reader has no null form: the specification bytes do not depend
    on the nullability flag -/
theorem spec_prim_flag_irrel (k : KType) (flex : Bool) (e : Err)
    (h : getReader k flex true = .error e) (v : Value) :
    Spec.prim k flex true v = Spec.prim k flex false v := by
  cases k <;> cases flex <;> first | (simp [getReader] at h; done) | (cases v <;> rfl)

/-! ### arrays -/

/-- a writer made of a specification function (to reuse the writer-side lemmas) -/
def optW (e' : Value → Option Bytes) (v : Value) : Except Err Bytes :=
  match e' v with
  | some p => .ok p
  | none => .error .unspecified

theorem optW_toOption (e' : Value → Option Bytes) (v : Value) : (optW e' v).toOption = e' v := by
  unfold optW; cases e' v <;> rfl

theorem optW_ok {e' : Value → Option Bytes} {v : Value} {p : Bytes} (h : optW e' v = .ok p) :
    e' v = some p := by
  have h1 := optW_toOption e' v
  rw [h] at h1
  exact h1.symm

theorem array_spec_rt (flex nullable : Bool) (e' : Value → Option Bytes) (er : Dec Value)
    (vs : List Value)
    (h : ∀ v ∈ vs, ∀ p, e' v = some p → ∀ rest, er (p ++ rest) = .ok (v, rest))
    (bs : Bytes) (he : Spec.array flex nullable e' (.tuple vs) = some bs) (rest : Bytes) :
    arrayReader flex er (bs ++ rest) = .ok (.tuple vs, rest) := by
  have hag : Agree True True (arrayWriter flex (optW e') (.tuple vs))
      (Spec.array flex nullable e' (.tuple vs)) :=
    array_agree flex nullable (optW e') e' vs (fun v _ => Agree.of_eq (optW_toOption e' v))
  exact array_rt flex (optW e') er vs (fun v hv p hp rest' => h v hv p (optW_ok hp) rest') bs
    (hag.2 trivial bs he) rest

theorem array_spec_none_rt (flex : Bool) (e' : Value → Option Bytes) (er : Dec Value)
    (bs : Bytes) (he : Spec.array flex true e' .none = some bs) (rest : Bytes) :
    arrayReader flex er (bs ++ rest) = .ok (.none, rest) := by
  have h1 := array_null_eq flex (optW e') e'
  rw [he] at h1
  exact array_none_rt flex (optW e') er bs (toOption_eq_some.1 h1) rest

/-! ### nullable entities -/

theorem readNullable_one (er : Dec Value) (bs : Bytes) : readNullable er (1 :: bs) = er bs := by
  have h1 : decIntN 1 true ([1] ++ bs) = .ok (1, bs) :=
    int_roundtrip 1 (by omega) true 1 [1] bs rfl
  unfold readNullable
  rw [show (1 :: bs : Bytes) = [1] ++ bs from rfl, h1]
  rfl

theorem readNullable_ff (er : Dec Value) (bs : Bytes) :
    readNullable er (0xFF :: bs) = .ok (.none, bs) := by
  have h1 : decIntN 1 true ([0xFF] ++ bs) = .ok (-1, bs) :=
    int_roundtrip 1 (by omega) true (-1) [0xFF] bs rfl
  unfold readNullable
  rw [show (0xFF :: bs : Bytes) = [0xFF] ++ bs from rfl, h1]
  rfl

/-! ### shapes -/

/-- the tags of the unknown entries -/
abbrev utags (pat : Spec.ForeignPat) : List Nat := pat.unknown.map (·.1)

def SchemaF (env : Env) (pat : Spec.ForeignPat) (s : Schema) : Prop :=
  ∀ v bs, s.wf env = true → Spec.Schema.avoids (utags pat) s = true → s.valueOk env v = true →
    Spec.structF pat s v = some bs → ∀ rest, s.read env (bs ++ rest) = .ok (v, rest)

def ShapeF (env : Env) (pat : Spec.ForeignPat) (sh : Shape) : Prop :=
  ∀ flex tagged m v bs, tagged = m.tag.isSome → Shape.wf env flex m sh = true →
    Spec.Shape.avoids (utags pat) sh = true → Shape.valueOk env m sh v = true →
    Spec.fieldBytesF pat flex tagged m sh v = some bs →
    ∀ rest, Shape.read env flex tagged m sh (bs ++ rest) = .ok (v, rest)

/-- what the specification sends for one field (`client_id` of a request header is special) -/
def fieldSpecF (pat : Spec.ForeignPat) (flex rh tagged : Bool) : Field → Value → Option Bytes
  | .mk m sh, v =>
    if rh && m.isClientId then Spec.prim .string false true v
    else Spec.fieldBytesF pat flex tagged m sh v

def FieldF (env : Env) (pat : Spec.ForeignPat) (f : Field) : Prop :=
  ∀ flex rh tagged v bs, tagged = f.isTagged → Field.wf env flex rh f = true →
    Spec.Field.avoids (utags pat) f = true → Field.valueOk env rh f v = true →
    fieldSpecF pat flex rh tagged f v = some bs →
    ∀ rest, Field.read env flex rh tagged f (bs ++ rest) = .ok (v, rest)

theorem shape_prim_F (env : Env) (ht : env.time = TimeCfg.repaired)
    (hnull : env.nullableTaggedReader = true) (pat : Spec.ForeignPat)
    (l : PyLeaf) (o : Bool) : ShapeF env pat (.prim l o) := by
  intro flex tagged m v bs htag hwf _ hvo he rest
  simp only [Shape.wf] at hwf
  simp only [Shape.valueOk] at hvo
  split at hwf
  · rename_i k hk
    rw [hk] at hvo
    simp only at hvo
    simp only [Bool.and_eq_true] at hwf
    obtain ⟨⟨⟨⟨hl, _⟩, _⟩, hr0⟩, _⟩ := hwf
    have hsft := schemaFieldType_ok m k l hk hl
    obtain ⟨r, hr⟩ := ok_of_isSome hr0
    clear hr0
    rw [← htag] at hr
    simp only [Spec.fieldBytesF, hk] at he
    simp only [Shape.read, primFieldReaderT, hsft, hr]
    rcases readerOptional_cases env hnull k flex o tagged with h | ⟨ho, hf, e, hge⟩
    · rw [h] at hr
      exact prim_spec_rt env ht k flex o o (Or.inl id) r hr (getWriter_of_getReader k flex o r hr) v
        (primValueOk_mono env k o v hvo) bs he rest
    · rw [hf] at hr
      subst ho
      rw [spec_prim_flag_irrel k flex e hge v] at he
      exact prim_spec_rt env ht k flex false false (Or.inl id) r hr
        (getWriter_of_getReader k flex false r hr) v (primValueOk_mono env k true v hvo) bs he rest
  · cases hwf

theorem shape_primArr_F (env : Env) (ht : env.time = TimeCfg.repaired) (pat : Spec.ForeignPat)
    (l : PyLeaf) (e a : Bool) : ShapeF env pat (.primArr l e a) := by
  intro flex tagged m v bs htag hwf _ hvo he rest
  simp only [Shape.wf] at hwf
  simp only [Shape.valueOk] at hvo
  split at hwf
  · rename_i k hk
    rw [hk] at hvo
    simp only at hvo
    simp only [Bool.and_eq_true] at hwf
    obtain ⟨⟨⟨⟨⟨⟨hl, ha⟩, _⟩, _⟩, _⟩, hr⟩, _⟩ := hwf
    have ha : a = false := by simpa using ha
    subst ha
    have hsft := schemaFieldType_ok m k l hk hl
    obtain ⟨r, hr⟩ := ok_of_isSome hr
    rw [Bool.or_false] at hr
    simp only [Spec.fieldBytesF, hk, Bool.false_and] at he
    simp only [Shape.read, primFieldReader, hsft, Bool.or_false, hr]
    cases v with
    | tuple vs =>
      simp only at hvo
      refine array_spec_rt flex false _ _ vs ?_ bs he rest
      intro x hx xs hxs rest'
      exact prim_spec_rt env ht k flex e e (Or.inl id) r hr (getWriter_of_getReader k flex e r hr) x
        (primValueOk_mono env k e x (allOk_mem' hvo hx)) xs hxs rest'
    | none => simp at hvo
    | _ => simp at hvo
  · cases hwf

theorem shape_ent_F (env : Env) (pat : Spec.ForeignPat) (s : Schema) (o : Bool)
    (ih : SchemaF env pat s) : ShapeF env pat (.ent s o) := by
  intro flex tagged m v bs htag hwf hav hvo he rest
  simp only [Shape.wf, Bool.and_eq_true] at hwf
  obtain ⟨⟨_, hto⟩, hs⟩ := hwf
  rw [← htag] at hto
  simp only [Spec.Shape.avoids] at hav
  simp only [Spec.fieldBytesF] at he
  simp only [Shape.read]
  by_cases hv : v = .none
  · subst hv
    rw [Shape.valueOk.eq_3] at hvo
    subst hvo
    have htg : tagged = false := by simpa using hto
    subst htg
    simp only [Bool.not_false, Bool.and_self, if_true] at he ⊢
    have he := Option.some.inj he
    subst he
    exact readNullable_ff _ rest
  · have hvo' : Schema.valueOk env s v = true := by
      rw [Shape.valueOk.eq_4 _ _ _ _ _ hv] at hvo
      exact hvo
    cases o
    · simp only [Bool.false_and, Bool.false_eq_true, if_false] at he ⊢
      exact ih v bs hs hav hvo' he rest
    · have htg : tagged = false := by simpa using hto
      subst htg
      simp only [Bool.not_false, Bool.and_self, if_true] at he ⊢
      have he' : (Spec.structF pat s v).map (fun b => 1 :: b) = some bs := by
        cases v <;> first | exact absurd rfl hv | exact he
      obtain ⟨b, hb, hbs⟩ := Option.map_eq_some_iff.1 he'
      subst hbs
      rw [List.cons_append, readNullable_one]
      exact ih v b hs hav hvo' hb rest

theorem shape_entArr_F (env : Env) (pat : Spec.ForeignPat) (s : Schema) (a : Bool)
    (ih : SchemaF env pat s) : ShapeF env pat (.entArr s a) := by
  intro flex tagged m v bs htag hwf hav hvo he rest
  simp only [Shape.wf, Bool.and_eq_true] at hwf
  obtain ⟨⟨_, hs⟩, _⟩ := hwf
  simp only [Spec.Shape.avoids] at hav
  simp only [Spec.fieldBytesF] at he
  simp only [Shape.read]
  rw [Shape.valueOk.eq_def] at hvo
  cases v with
  | tuple vs =>
    simp only at hvo
    refine array_spec_rt flex _ _ _ vs ?_ bs he rest
    intro x hx xs hxs rest'
    exact ih x xs hs hav (Values.allOk_mem hvo hx) hxs rest'
  | none =>
    simp only at hvo
    subst hvo
    cases tagged
    · simp only [Bool.not_false, Bool.and_self] at he
      exact array_spec_none_rt flex _ _ bs he rest
    · simp [Spec.array] at he
  | _ => simp at hvo

/-! ### fields -/

theorem field_F (env : Env) (ht : env.time = TimeCfg.repaired) (pat : Spec.ForeignPat)
    (m : FieldMeta) (sh : Shape) (ih : ShapeF env pat sh) : FieldF env pat (.mk m sh) := by
  intro flex rh tagged v bs htag hwf hav hvo he rest
  obtain ⟨_, hsh, _⟩ := Field.wf_elim hwf
  rw [Field.valueOk.eq_1, Bool.and_eq_true] at hvo
  have hv1 := hvo.1
  simp only [Spec.Field.avoids, Bool.and_eq_true] at hav
  rw [fieldSpecF] at he
  rw [Field.read]
  cases hc : (rh && m.isClientId) <;> rw [hc] at hsh hv1 he <;>
    simp only [Bool.false_eq_true, if_false, if_true] at hsh hv1 he ⊢
  · exact ih flex tagged m v bs htag hsh hav.2 hv1 he rest
  · exact prim_spec_rt env ht .string false true true (Or.inl id) .nullableLegacyString rfl
      ⟨_, rfl⟩ v hv1 bs he rest

end Kio
