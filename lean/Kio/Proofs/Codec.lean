import Kio.Proofs.Prim
import Kio.Model.Typing
import Kio.Proofs.CodecRT
/-!
Round-trip lemmas for the entity codec (used by C01, C05, C06, C07).
-/
namespace Kio

/-- structural equality test is sound -/
theorem Value.beq_eq {a b : Value} (h : a.beq b = true) : a = b :=
  Value.beq_sound a b h

/-- arrays: element-wise round trip lifts through `encMany` / `decMany` -/
theorem decMany_encMany (e : Value → Except Err Bytes) (d : Dec Value) (vs : List Value)
    (h : ∀ v ∈ vs, ∀ bs, e v = .ok bs → ∀ rest, d (bs ++ rest) = .ok (v, rest))
    (out : Bytes) (he : encMany e vs = .ok out) (rest : Bytes) :
    decMany d vs.length (out ++ rest) = .ok (vs, rest) :=
  decMany_encMany' e d vs h out he rest

/-- a primitive written by the writer the dispatch table picks is read back by the reader it
    picks (`optW`/`optR`: the `optional` flags writer and reader were looked up with) -/
theorem prim_roundtrip (env : Env) (ht : env.time = TimeCfg.repaired) (hfl : FloatExact)
    (k : KType) (flex optW optR : Bool) (hopt : (optW = true → optR = true) ∨ k = .uuid) (w : PrimW) (r : PrimR)
    (hw : getWriter k flex optW = .ok w) (hr : getReader k flex optR = .ok r)
    (v : Value) (hv : primValueOk env k true v = true) (bs : Bytes) (he : w.run env v = .ok bs)
    (rest : Bytes) : r.run env (bs ++ rest) = .ok (v, rest) :=
  prim_roundtrip' env ht hfl k flex optW optR hopt w r hw hr v hv bs he rest

/-- a coherent class has a reader and a writer (no build-time error) -/
theorem wf_buildable (env : Env) (s : Schema) (hwf : s.wf env = true) :
    s.readerBuildErr env = none ∧ s.writerBuildErr env = none :=
  wf_buildable' env s hwf

/-- the plan-level round trip (mutual structural induction over Schema / fields / Field / Shape) -/
theorem Schema.roundtrip (env : Env) (ht : env.time = TimeCfg.repaired) (hfl : FloatExact)
    (s : Schema) (v : Value) (bs : Bytes) (hwf : s.wf env = true) (hv : s.valueOk env v = true)
    (he : s.write env v = .ok bs) (rest : Bytes) : s.read env (bs ++ rest) = .ok (v, rest) :=
  Schema.roundtrip' env ht hfl s v bs hwf hv he rest

end Kio
