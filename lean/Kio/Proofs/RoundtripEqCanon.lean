import Kio.Proofs.RoundtripEqRT
/-!
Properties of `Schema.canon` on well-typed values (`Schema.typedOk`):
`==` the original, in decoded form, indistinguishable to the writer; and its relation to
`Schema.valueOk` (fixed points; well-typed defaults).
-/
namespace Kio

/-! ### unfolding helpers -/

theorem Field.rq_canon_eq (env : Env) (rh : Bool) (f : Field) (v : Value) :
    Field.canon env rh f v
      = if f.isTagged then
          (if (Field.ncanon env rh f v).pyEq (Field.dflt env f) then Field.dflt env f
           else Field.ncanon env rh f v)
        else Field.ncanon env rh f v := by
  cases f with
  | mk m sh =>
    rw [Field.canon.eq_1]
    simp only [Field.ncanon, Field.dflt, Field.isTagged]
    split <;> rename_i hm <;> simp [hm]

theorem Schema.rq_typedOk_entity {env : Env} {s : Schema} {v : Value} (h : s.typedOk env v = true) :
    ∃ vs, v = .entity vs := by
  cases s with
  | mk n flex rh fs =>
    cases v with
    | entity vs => exact ⟨vs, rfl⟩
    | _ => simp [Schema.typedOk] at h

theorem Schema.rq_canon_entity {env : Env} {s : Schema} {v : Value} (h : s.typedOk env v = true) :
    ∃ xs, s.canon env v = .entity xs := by
  obtain ⟨vs, rfl⟩ := Schema.rq_typedOk_entity h
  cases s with
  | mk n flex rh fs => exact ⟨_, Schema.canon.eq_1 ..⟩

theorem Schema.rq_canon_none (env : Env) (s : Schema) : s.canon env .none = .none := by
  cases s with
  | mk n flex rh fs => simp [Schema.canon]

theorem Field.rq_isTagged_mk (m : FieldMeta) (sh : Shape) :
    (Field.mk m sh).isTagged = m.tag.isSome := rfl

/-! ### (b) `canon v == v` -/

def rq_SchemaPy (env : Env) (s : Schema) : Prop :=
  ∀ v, s.typedOk env v = true → (s.canon env v).pyEq v = true
def rq_FieldPy (env : Env) (f : Field) : Prop :=
  ∀ rh v, Field.typedOk env rh f v = true →
    (Field.ncanon env rh f v).pyEq v = true ∧ (Field.canon env rh f v).pyEq v = true
def rq_ShapePy (env : Env) (sh : Shape) : Prop :=
  ∀ m v, Shape.typedOk env m sh v = true → (Shape.canon env sh v).pyEq v = true

theorem rq_shape_prim_py (env : Env) (l : PyLeaf) (o : Bool) : rq_ShapePy env (.prim l o) := by
  intro m v ht
  simp only [Shape.typedOk] at ht
  simp only [Shape.canon]
  split at ht
  · exact rq_pyEq_refl_prim ht
  · cases ht

theorem rq_shape_primArr_py (env : Env) (l : PyLeaf) (e a : Bool) :
    rq_ShapePy env (.primArr l e a) := by
  intro m v ht
  simp only [Shape.typedOk] at ht
  simp only [Shape.canon]
  split at ht
  · cases v with
    | tuple vs =>
      simp only at ht
      rw [Value.pyEq]
      exact rq_pyEqList_refl_prim ht
    | none => rfl
    | _ => simp at ht
  · cases ht

theorem rq_shape_ent_py (env : Env) (s : Schema) (o : Bool) (ih : rq_SchemaPy env s) :
    rq_ShapePy env (.ent s o) := by
  intro m v ht
  simp only [Shape.canon]
  by_cases hv : v = .none
  · subst hv
    rw [Schema.rq_canon_none]
    rfl
  · rw [Shape.typedOk.eq_4 _ _ _ _ _ hv] at ht
    exact ih v ht

theorem Values.rq_canon_py {env : Env} {s : Schema} (ih : rq_SchemaPy env s) (vs : List Value)
    (h : Values.allTyped env s vs = true) : Value.pyEqList (Values.canon env s vs) vs = true := by
  induction vs with
  | nil => simp [Values.canon, Value.pyEqList]
  | cons v vs ihv =>
    simp only [Values.allTyped, Bool.and_eq_true] at h
    rw [Values.canon, Value.pyEqList, Bool.and_eq_true]
    exact ⟨ih v h.1, ihv h.2⟩

theorem rq_shape_entArr_py (env : Env) (s : Schema) (a : Bool) (ih : rq_SchemaPy env s) :
    rq_ShapePy env (.entArr s a) := by
  intro m v ht
  rw [Shape.typedOk.eq_def] at ht
  cases v with
  | tuple vs =>
    simp only at ht
    simp only [Shape.canon]
    rw [Value.pyEq]
    exact Values.rq_canon_py ih vs ht
  | none => simp only [Shape.canon]; rfl
  | _ => simp at ht

theorem rq_field_py (env : Env) (m : FieldMeta) (sh : Shape) (ih : rq_ShapePy env sh) :
    rq_FieldPy env (.mk m sh) := by
  intro rh v ht
  rw [Field.typedOk.eq_1] at ht
  have hw : (Field.ncanon env rh (.mk m sh) v).pyEq v = true := by
    simp only [Field.ncanon]
    cases hc : (rh && m.isClientId) <;> rw [hc] at ht <;>
      simp only [Bool.false_eq_true, if_false, if_true] at ht ⊢
    · exact ih m v ht
    · exact rq_pyEq_refl_prim ht
  refine ⟨hw, ?_⟩
  rw [Field.rq_canon_eq]
  split
  · split
    · rename_i hd
      exact Value.rq_pyEq_trans' (Value.rq_pyEq_symm' hd) hw
    · exact hw
  · exact hw

theorem Fields.rq_canon_py {env : Env} {rh : Bool} {fs : List Field}
    (ih : ∀ f ∈ fs, rq_FieldPy env f) (vs : List Value) (h : Fields.typedOk env rh fs vs = true) :
    Value.pyEqList (Fields.canon env rh fs vs) vs = true := by
  induction fs generalizing vs with
  | nil =>
    cases vs with
    | nil => simp [Fields.canon, Value.pyEqList]
    | cons v vs => simp [Fields.typedOk] at h
  | cons f fs ihf =>
    cases vs with
    | nil => simp [Fields.typedOk] at h
    | cons v vs =>
      simp only [Fields.typedOk, Bool.and_eq_true] at h
      rw [Fields.canon, Value.pyEqList, Bool.and_eq_true]
      exact ⟨(ih f (by simp) rh v h.1).2, ihf (fun g hg => ih g (by simp [hg])) vs h.2⟩

theorem rq_schema_py (env : Env) (n : Nat) (flex rh : Bool) (fs : List Field)
    (ih : ∀ f ∈ fs, rq_FieldPy env f) : rq_SchemaPy env (.mk n flex rh fs) := by
  intro v ht
  obtain ⟨vs, rfl⟩ := Schema.rq_typedOk_entity ht
  rw [Schema.typedOk.eq_1] at ht
  rw [Schema.canon.eq_1, Value.pyEq]
  exact Fields.rq_canon_py ih vs ht

theorem Schema.rq_canon_py (env : Env) : ∀ s, rq_SchemaPy env s :=
  Schema.induct3 (PS := rq_SchemaPy env) (PF := rq_FieldPy env) (PSh := rq_ShapePy env)
    (rq_schema_py env) (rq_field_py env) (rq_shape_prim_py env) (rq_shape_primArr_py env)
    (rq_shape_ent_py env) (rq_shape_entArr_py env)
    (by intro m v ht; simp [Shape.typedOk] at ht)

theorem Shape.rq_canon_py (env : Env) : ∀ sh, rq_ShapePy env sh
  | .prim l o => rq_shape_prim_py env l o
  | .primArr l e a => rq_shape_primArr_py env l e a
  | .ent s o => rq_shape_ent_py env s o (Schema.rq_canon_py env s)
  | .entArr s a => rq_shape_entArr_py env s a (Schema.rq_canon_py env s)
  | .bad => by intro m v ht; simp [Shape.typedOk] at ht

theorem Field.rq_canon_py (env : Env) : ∀ f, rq_FieldPy env f
  | .mk m sh => rq_field_py env m sh (Shape.rq_canon_py env sh)

/-! ### `canon v` is in decoded form -/

def rq_SchemaRo (env : Env) (s : Schema) : Prop :=
  ∀ v, s.typedOk env v = true → s.rtOk env (s.canon env v) = true
def rq_FieldRo (env : Env) (f : Field) : Prop :=
  ∀ rh v, Field.typedOk env rh f v = true → Field.rtOk env rh f (Field.canon env rh f v) = true
def rq_ShapeRo (env : Env) (sh : Shape) : Prop :=
  ∀ m v, Shape.typedOk env m sh v = true → Shape.rtOk env m sh (Shape.canon env sh v) = true

theorem rq_shape_prim_ro (env : Env) (l : PyLeaf) (o : Bool) : rq_ShapeRo env (.prim l o) := by
  intro m v ht
  simp only [Shape.typedOk] at ht
  simp only [Shape.canon, Shape.rtOk]
  exact ht

theorem rq_shape_primArr_ro (env : Env) (l : PyLeaf) (e a : Bool) :
    rq_ShapeRo env (.primArr l e a) := by
  intro m v ht
  simp only [Shape.typedOk] at ht
  simp only [Shape.canon, Shape.rtOk]
  exact ht

theorem rq_shape_ent_ro (env : Env) (s : Schema) (o : Bool) (ih : rq_SchemaRo env s) :
    rq_ShapeRo env (.ent s o) := by
  intro m v ht
  simp only [Shape.canon]
  by_cases hv : v = .none
  · subst hv
    rw [Schema.rq_canon_none, Shape.rtOk.eq_3]
    rw [Shape.typedOk.eq_3] at ht
    exact ht
  · rw [Shape.typedOk.eq_4 _ _ _ _ _ hv] at ht
    obtain ⟨xs, hxs⟩ := Schema.rq_canon_entity ht
    have := ih v ht
    rw [hxs] at this ⊢
    rw [Shape.rtOk.eq_4 _ _ _ _ _ (by intro h; cases h)]
    exact this

theorem Values.rq_canon_ro {env : Env} {s : Schema} (ih : rq_SchemaRo env s) (vs : List Value)
    (h : Values.allTyped env s vs = true) : Values.allRt env s (Values.canon env s vs) = true := by
  induction vs with
  | nil => simp [Values.canon, Values.allRt]
  | cons v vs ihv =>
    simp only [Values.allTyped, Bool.and_eq_true] at h
    rw [Values.canon, Values.allRt, Bool.and_eq_true]
    exact ⟨ih v h.1, ihv h.2⟩

theorem rq_shape_entArr_ro (env : Env) (s : Schema) (a : Bool) (ih : rq_SchemaRo env s) :
    rq_ShapeRo env (.entArr s a) := by
  intro m v ht
  rw [Shape.typedOk.eq_def] at ht
  cases v with
  | tuple vs =>
    simp only at ht
    simp only [Shape.canon]
    rw [Shape.rtOk.eq_def]
    exact Values.rq_canon_ro ih vs ht
  | none =>
    simp only at ht
    simp only [Shape.canon]
    rw [Shape.rtOk.eq_def]
    exact ht
  | _ => simp at ht

theorem rq_field_ro (env : Env) (m : FieldMeta) (sh : Shape) (ih : rq_ShapeRo env sh) :
    rq_FieldRo env (.mk m sh) := by
  intro rh v ht
  rw [Field.typedOk.eq_1] at ht
  have hw : (if (rh && m.isClientId) = true then
        primValueOk env .string true (Field.ncanon env rh (.mk m sh) v)
      else Shape.rtOk env m sh (Field.ncanon env rh (.mk m sh) v)) = true := by
    simp only [Field.ncanon]
    cases hc : (rh && m.isClientId) <;> rw [hc] at ht <;>
      simp only [Bool.false_eq_true, if_false, if_true] at ht ⊢
    · exact ih m v ht
    · exact ht
  rw [Field.rq_canon_eq, Field.rq_isTagged_mk, Field.rtOk.eq_1]
  cases hm : m.tag with
  | none =>
    simp only [Option.isSome_none, Bool.false_eq_true, if_false]
    exact hw
  | some i =>
    simp only [Option.isSome_some, if_true]
    cases hd : (Field.ncanon env rh (.mk m sh) v).pyEq (Field.dflt env (.mk m sh))
    · simp only [Bool.false_eq_true, if_false]
      simp only [Field.dflt] at hd
      simp only [hd, Bool.false_eq_true, if_false]
      exact hw
    · simp only [if_true]
      have hdd := Value.rq_pyEq_refl_right hd
      simp only [Field.dflt] at hdd ⊢
      simp only [hdd, if_true]
      exact Value.rq_beq_refl _

theorem Fields.rq_canon_ro {env : Env} {rh : Bool} {fs : List Field}
    (ih : ∀ f ∈ fs, rq_FieldRo env f) (vs : List Value) (h : Fields.typedOk env rh fs vs = true) :
    Fields.rtOk env rh fs (Fields.canon env rh fs vs) = true := by
  induction fs generalizing vs with
  | nil =>
    cases vs with
    | nil => simp [Fields.canon, Fields.rtOk]
    | cons v vs => simp [Fields.typedOk] at h
  | cons f fs ihf =>
    cases vs with
    | nil => simp [Fields.typedOk] at h
    | cons v vs =>
      simp only [Fields.typedOk, Bool.and_eq_true] at h
      rw [Fields.canon, Fields.rtOk, Bool.and_eq_true]
      exact ⟨ih f (by simp) rh v h.1, ihf (fun g hg => ih g (by simp [hg])) vs h.2⟩

theorem rq_schema_ro (env : Env) (n : Nat) (flex rh : Bool) (fs : List Field)
    (ih : ∀ f ∈ fs, rq_FieldRo env f) : rq_SchemaRo env (.mk n flex rh fs) := by
  intro v ht
  obtain ⟨vs, rfl⟩ := Schema.rq_typedOk_entity ht
  rw [Schema.typedOk.eq_1] at ht
  rw [Schema.canon.eq_1, Schema.rtOk.eq_1]
  exact Fields.rq_canon_ro ih vs ht

theorem Schema.rq_canon_ro (env : Env) : ∀ s, rq_SchemaRo env s :=
  Schema.induct3 (PS := rq_SchemaRo env) (PF := rq_FieldRo env) (PSh := rq_ShapeRo env)
    (rq_schema_ro env) (rq_field_ro env) (rq_shape_prim_ro env) (rq_shape_primArr_ro env)
    (rq_shape_ent_ro env) (rq_shape_entArr_ro env)
    (by intro m v ht; simp [Shape.typedOk] at ht)

/-! ### (c) the writer cannot tell `canon v` from `v` -/

def rq_SchemaWr (env : Env) (s : Schema) : Prop :=
  ∀ v, s.typedOk env v = true → s.write env (s.canon env v) = s.write env v
def rq_FieldWr (env : Env) (f : Field) : Prop :=
  ∀ flex rh tagged v, Field.typedOk env rh f v = true →
    Field.write env flex rh tagged f (Field.ncanon env rh f v) = Field.write env flex rh tagged f v
def rq_ShapeWr (env : Env) (sh : Shape) : Prop :=
  ∀ flex tagged m v, Shape.typedOk env m sh v = true →
    Shape.write env flex tagged m sh (Shape.canon env sh v) = Shape.write env flex tagged m sh v

theorem rq_shape_prim_wr (env : Env) (l : PyLeaf) (o : Bool) : rq_ShapeWr env (.prim l o) := by
  intro flex tagged m v _
  simp only [Shape.canon]

theorem rq_shape_primArr_wr (env : Env) (l : PyLeaf) (e a : Bool) :
    rq_ShapeWr env (.primArr l e a) := by
  intro flex tagged m v _
  simp only [Shape.canon]

theorem rq_writeNullable_ne (W : Value → Except Err Bytes) {v : Value} (hv : v ≠ .none) :
    writeNullable W v
      = (do let a ← encIntN 1 true 1; let b ← W v; pure (a ++ b) : Except Err Bytes) := by
  cases v <;> first | rfl | exact absurd rfl hv

theorem rq_shape_ent_wr (env : Env) (s : Schema) (o : Bool) (ih : rq_SchemaWr env s) :
    rq_ShapeWr env (.ent s o) := by
  intro flex tagged m v ht
  simp only [Shape.canon, Shape.write]
  by_cases hv : v = .none
  · subst hv
    rw [Schema.rq_canon_none]
  · rw [Shape.typedOk.eq_4 _ _ _ _ _ hv] at ht
    obtain ⟨xs, hxs⟩ := Schema.rq_canon_entity ht
    have hne : s.canon env v ≠ .none := by rw [hxs]; intro h; cases h
    split
    · rw [rq_writeNullable_ne _ hne, rq_writeNullable_ne _ hv, ih v ht]
    · exact ih v ht

theorem Values.rq_canon_length (env : Env) (s : Schema) (vs : List Value) :
    (Values.canon env s vs).length = vs.length := by
  induction vs with
  | nil => simp [Values.canon]
  | cons v vs ih => simp [Values.canon, ih]

theorem Values.rq_canon_wr {env : Env} {s : Schema} (ih : rq_SchemaWr env s) (vs : List Value)
    (h : Values.allTyped env s vs = true) :
    encMany (Schema.write env s) (Values.canon env s vs) = encMany (Schema.write env s) vs := by
  induction vs with
  | nil => simp [Values.canon]
  | cons v vs ihv =>
    simp only [Values.allTyped, Bool.and_eq_true] at h
    rw [Values.canon, encMany, encMany, ih v h.1, ihv h.2]

theorem rq_shape_entArr_wr (env : Env) (s : Schema) (a : Bool) (ih : rq_SchemaWr env s) :
    rq_ShapeWr env (.entArr s a) := by
  intro flex tagged m v ht
  rw [Shape.typedOk.eq_def] at ht
  cases v with
  | tuple vs =>
    simp only at ht
    cases flex <;>
      simp only [Shape.canon, Shape.write, arrayWriter, compactArrayWriter, legacyArrayWriter,
        Values.rq_canon_length, Values.rq_canon_wr ih vs ht, Bool.false_eq_true, if_false, if_true]
  | none => simp only [Shape.canon]
  | _ => simp at ht

theorem rq_field_wr (env : Env) (m : FieldMeta) (sh : Shape) (ih : rq_ShapeWr env sh) :
    rq_FieldWr env (.mk m sh) := by
  intro flex rh tagged v ht
  rw [Field.typedOk.eq_1] at ht
  simp only [Field.ncanon, Field.write]
  cases hc : (rh && m.isClientId) <;> rw [hc] at ht <;>
    simp only [Bool.false_eq_true, if_false, if_true] at ht ⊢
  exact ih flex tagged m v ht

theorem Fields.rq_writeUntagged_canon {env : Env} {flex rh : Bool} {fs : List Field}
    (ih : ∀ f ∈ fs, rq_FieldWr env f) (vs : List Value) (h : Fields.typedOk env rh fs vs = true) :
    Fields.writeUntagged env flex rh fs (Fields.canon env rh fs vs)
      = Fields.writeUntagged env flex rh fs vs := by
  induction fs generalizing vs with
  | nil =>
    cases vs with
    | nil => simp [Fields.canon]
    | cons v vs => simp [Fields.typedOk] at h
  | cons f fs ihf =>
    cases vs with
    | nil => simp [Fields.typedOk] at h
    | cons v vs =>
      simp only [Fields.typedOk, Bool.and_eq_true] at h
      have ih' := ihf (fun g hg => ih g (by simp [hg])) vs h.2
      rw [Fields.canon, Fields.writeUntagged, Fields.writeUntagged, ih']
      cases htg : f.isTagged
      · simp only [Bool.false_eq_true, if_false]
        rw [Field.rq_canon_eq, htg]
        simp only [Bool.false_eq_true, if_false]
        rw [ih f (by simp) flex rh false v h.1]
      · simp only [if_true]

theorem Fields.rq_taggedItems_canon {env : Env} {flex rh : Bool} {fs : List Field}
    (ih : ∀ f ∈ fs, rq_FieldWr env f) (vs : List Value) (h : Fields.typedOk env rh fs vs = true) :
    Fields.taggedItems env flex rh fs (Fields.canon env rh fs vs)
      = Fields.taggedItems env flex rh fs vs := by
  induction fs generalizing vs with
  | nil =>
    cases vs with
    | nil => simp [Fields.canon]
    | cons v vs => simp [Fields.typedOk] at h
  | cons f fs ihf =>
    cases vs with
    | nil => simp [Fields.typedOk] at h
    | cons v vs =>
      simp only [Fields.typedOk, Bool.and_eq_true] at h
      have ih' := ihf (fun g hg => ih g (by simp [hg])) vs h.2
      rw [Fields.canon, Fields.taggedItems, Fields.taggedItems, ih']
      cases htn : f.tagNat with
      | none => rfl
      | some t =>
        simp only
        have htg : f.isTagged = true := by rw [Field.isTagged_eq, htn]; rfl
        have hw := (Field.rq_canon_py env f rh v h.1).1
        have hcong := Value.rq_pyEq_congr_left hw (Field.dflt env f)
        rw [Field.rq_canon_eq, htg]
        simp only [if_true]
        show (if (if (Field.ncanon env rh f v).pyEq (Field.dflt env f) = true then Field.dflt env f
                  else Field.ncanon env rh f v).pyEq (Field.dflt env f) = true then _ else _)
            = (if v.pyEq (Field.dflt env f) = true then _ else _)
        rw [← hcong]
        cases hd : (Field.ncanon env rh f v).pyEq (Field.dflt env f)
        · simp only [Bool.false_eq_true, if_false, hd]
          simp only [writeTaggedField, ih f (by simp) flex rh true v h.1]
        · simp only [if_true, Value.rq_pyEq_refl_right hd]

theorem rq_schema_wr (env : Env) (n : Nat) (flex rh : Bool) (fs : List Field)
    (ih : ∀ f ∈ fs, rq_FieldWr env f) : rq_SchemaWr env (.mk n flex rh fs) := by
  intro v ht
  obtain ⟨vs, rfl⟩ := Schema.rq_typedOk_entity ht
  rw [Schema.typedOk.eq_1] at ht
  rw [Schema.canon.eq_1, Schema.write.eq_1, Schema.write.eq_1,
    Fields.rq_writeUntagged_canon ih vs ht, Fields.rq_taggedItems_canon ih vs ht]

theorem Schema.rq_canon_wr (env : Env) : ∀ s, rq_SchemaWr env s :=
  Schema.induct3 (PS := rq_SchemaWr env) (PF := rq_FieldWr env) (PSh := rq_ShapeWr env)
    (rq_schema_wr env) (rq_field_wr env) (rq_shape_prim_wr env) (rq_shape_primArr_wr env)
    (rq_shape_ent_wr env) (rq_shape_entArr_wr env)
    (by intro flex tagged m v ht; simp [Shape.typedOk] at ht)

end Kio
