import Kio.Proofs.Codec
import Kio.Proofs.Decode
import Kio.Proofs.ReencComb
/-!
Whatever the decoder returns is accepted by the encoder (C05 / C10), for *arbitrary* input
bytes, and the re-encoding is at most three times as long as what was consumed.

The statement first proposed (`bs.length < 2^35`, no condition on the defaults, conclusion
`b'.length + rest.length ≤ bs.length`) is false in three ways; see the counterexamples at the
end of this file (`reencodable_cex_default`, `reencodable_cex_length`) and the remark on
`Schema.reencodable'`.
-/
namespace Kio

mutual
/-- every nullable tagged primitive field has `None` as its default (true of every shipped
    class): then an explicit null on the wire decodes to the default and is simply omitted again -/
def Schema.taggedNullDefaults : Schema → Bool
  | .mk _ _ _ fs => Fields.taggedNullDefaults fs
termination_by structural s => s
def Fields.taggedNullDefaults : List Field → Bool
  | [] => true
  | f :: fs => Field.taggedNullDefaults f && Fields.taggedNullDefaults fs
termination_by structural l => l
def Field.taggedNullDefaults : Field → Bool
  | .mk m sh =>
    (match m.tag, sh with
     | some _, .prim _ true => (match m.dflt with | .val .none => true | _ => false)
     | _, _ => true)
    && Shape.taggedNullDefaults sh
termination_by structural f => f
def Shape.taggedNullDefaults : Shape → Bool
  | .ent s _ => Schema.taggedNullDefaults s
  | .entArr s _ => Schema.taggedNullDefaults s
  | _ => true
termination_by structural s => s
end

mutual
/-- the (resolved) default `d` of every tagged field satisfies `d == d` in Python, i.e. contains
    no NaN: then a tagged field that is absent on the wire is assembled to its default and is
    omitted again by the writer (`value != default` is false), whatever the default's type -/
def Schema.taggedDefaultsRefl (env : Env) : Schema → Bool
  | .mk _ _ _ fs => Fields.taggedDefaultsRefl env fs
termination_by structural s => s
def Fields.taggedDefaultsRefl (env : Env) : List Field → Bool
  | [] => true
  | f :: fs => Field.taggedDefaultsRefl env f && Fields.taggedDefaultsRefl env fs
termination_by structural l => l
def Field.taggedDefaultsRefl (env : Env) : Field → Bool
  | .mk m sh =>
    (match m.tag with
     | some _ =>
       ((Field.taggedDefault env (.mk m sh)).toOption.getD .none).pyEq
         ((Field.taggedDefault env (.mk m sh)).toOption.getD .none)
     | none => true)
    && Shape.taggedDefaultsRefl env sh
termination_by structural f => f
def Shape.taggedDefaultsRefl (env : Env) : Shape → Bool
  | .ent s _ => Schema.taggedDefaultsRefl env s
  | .entArr s _ => Schema.taggedDefaultsRefl env s
  | _ => true
termination_by structural s => s
end

/-! ### membership forms of the list predicates -/

theorem Fields.taggedNullDefaults_mem {fs : List Field}
    (h : Fields.taggedNullDefaults fs = true) : ∀ f ∈ fs, Field.taggedNullDefaults f = true := by
  induction fs with
  | nil => intro f hf; cases hf
  | cons g fs ih =>
    simp only [Fields.taggedNullDefaults, Bool.and_eq_true] at h
    intro f hf
    rcases List.mem_cons.mp hf with rfl | hf
    · exact h.1
    · exact ih h.2 f hf

theorem Fields.taggedDefaultsRefl_mem {env : Env} {fs : List Field}
    (h : Fields.taggedDefaultsRefl env fs = true) :
    ∀ f ∈ fs, Field.taggedDefaultsRefl env f = true := by
  induction fs with
  | nil => intro f hf; cases hf
  | cons g fs ih =>
    simp only [Fields.taggedDefaultsRefl, Bool.and_eq_true] at h
    intro f hf
    rcases List.mem_cons.mp hf with rfl | hf
    · exact h.1
    · exact ih h.2 f hf

/-! ### per-field facts -/

/-- `tagged`: a value equal to the default `d` need not be accepted by the writer -/
def RW3t (tagged : Bool) (d : Value) (r : Dec Value) (w : Value → Except Err Bytes) : Prop :=
  ∀ bs v rest, 3 * bs.length < 2 ^ 35 → r bs = .ok (v, rest) →
    (tagged = true ∧ v.pyEq d = true ∧ rest.length ≤ bs.length)
      ∨ ∃ b, w v = .ok b ∧ b.length + 3 * rest.length ≤ 3 * bs.length

theorem RW3.toRW3t {r : Dec Value} {w : Value → Except Err Bytes} (tagged : Bool) (d : Value)
    (h : RW3 r w) : RW3t tagged d r w := fun bs v rest hl hr => Or.inr (h bs v rest hl hr)

theorem RW3t.toRW3 {d : Value} {r : Dec Value} {w : Value → Except Err Bytes}
    (h : RW3t false d r w) : RW3 r w := by
  intro bs v rest hl hr
  rcases h bs v rest hl hr with ⟨h, _⟩ | h
  · cases h
  · exact h

theorem RW3t.toRW3d {d : Value} {r : Dec Value} {w : Value → Except Err Bytes}
    (h : RW3t true d r w) : RW3d d r w := by
  intro bs v rest hl hr
  rcases h bs v rest hl hr with ⟨_, h1, h2⟩ | h
  · exact Or.inl ⟨h1, h2⟩
  · exact Or.inr h

theorem isSome_ok_re {α} {x : Except Err α} (h : x.toOption.isSome = true) : ∃ a, x = .ok a := by
  cases x with
  | error e => simp [Except.toOption] at h
  | ok a => exact ⟨a, rfl⟩

theorem primFieldReader_eq {env : Env} {m : FieldMeta} {flex opt : Bool} {k : KType} {r : PrimR}
    (hs : m.schemaFieldType = .ok k) (hr : getReader k flex opt = .ok r) :
    primFieldReader env m flex opt = r.run env := by
  unfold primFieldReader
  rw [hs]
  simp only [hr]

theorem primFieldReaderT_eq {env : Env} {m : FieldMeta} {flex o tagged : Bool} {k : KType}
    {r : PrimR} (hs : m.schemaFieldType = .ok k)
    (hr : getReader k flex (readerOptional env k flex o tagged) = .ok r) :
    primFieldReaderT env m flex o tagged = r.run env := by
  unfold primFieldReaderT
  rw [hs]
  simp only [hr]

theorem primFieldWriter_eq_re {env : Env} {m : FieldMeta} {flex opt : Bool} {k : KType} {w : PrimW}
    (hs : m.schemaFieldType = .ok k) (hw : getWriter k flex opt = .ok w) :
    primFieldWriter env m flex opt = w.run env := by
  unfold primFieldWriter
  rw [hs]
  simp only [hw]

/-- a nullable tagged primitive field: the default is `None` -/
theorem dflt_none_of_taggedNullDefaults {env : Env} {m : FieldMeta} {l : PyLeaf}
    (ht : m.tag.isSome = true) (h : Field.taggedNullDefaults (.mk m (.prim l true)) = true) :
    Field.dflt env (.mk m (.prim l true)) = .none := by
  obtain ⟨t, htag⟩ : ∃ t, m.tag = some t := Option.isSome_iff_exists.mp ht
  simp only [Field.taggedNullDefaults, htag, Bool.and_eq_true] at h
  have h1 := h.1
  unfold Field.dflt
  rw [Field.taggedDefault]
  split at h1
  · rename_i hd
    rw [hd]
    rfl
  · cases h1

theorem dflt_refl_of_taggedDefaultsRefl {env : Env} {f : Field} {t : Nat}
    (ht : f.tagNat = some t) (h : Field.taggedDefaultsRefl env f = true) :
    (Field.dflt env f).pyEq (Field.dflt env f) = true := by
  cases f with
  | mk m sh =>
    obtain ⟨t', htag⟩ : ∃ t', m.tag = some t' :=
      Option.isSome_iff_exists.mp (tagNat_some ht)
    simp only [Field.taggedDefaultsRefl, htag, Bool.and_eq_true] at h
    exact h.1

theorem find_unique {fs : List Field} (hn : (fs.filterMap Field.tagNat).Nodup) {f : Field}
    (hf : f ∈ fs) {t : Nat} (ht : f.tagNat = some t) :
    fs.find? (fun g => decide (g.tagNat = some t)) = some f := by
  induction fs with
  | nil => cases hf
  | cons g fs ih =>
    rw [List.find?_cons]
    by_cases hg : g.tagNat = some t
    · simp only [hg, decide_true]
      rcases List.mem_cons.mp hf with rfl | hf
      · rfl
      · exfalso
        rw [List.filterMap_cons, hg] at hn
        have hmem : t ∈ fs.filterMap Field.tagNat := List.mem_filterMap.mpr ⟨f, hf, ht⟩
        exact (List.nodup_cons.mp hn).1 hmem
    · simp only [hg, decide_false]
      rcases List.mem_cons.mp hf with rfl | hf
      · exact absurd ht hg
      · apply ih _ hf
        rw [List.filterMap_cons] at hn
        split at hn
        · exact hn
        · exact (List.nodup_cons.mp hn).2

/-- the writer and the default of the field carrying tag `t` -/
def wOf (env : Env) (flex rh : Bool) (fs : List Field) (t : Nat) : Value → Except Err Bytes :=
  match fs.find? (fun g => decide (g.tagNat = some t)) with
  | some f => Field.write env flex rh true f
  | none => fun _ => .error .unspecified

def dOf (env : Env) (fs : List Field) (t : Nat) : Value :=
  match fs.find? (fun g => decide (g.tagNat = some t)) with
  | some f => Field.dflt env f
  | none => .none

/-! ### the shapes -/

theorem Shape.prim_re (env : Env) (ht : env.time = TimeCfg.repaired) (hfl : FloatExact)
    (flex : Bool) (m : FieldMeta) (l : PyLeaf) (o : Bool)
    (hwf : Shape.wf env flex m (.prim l o) = true)
    (hnd : Field.taggedNullDefaults (.mk m (.prim l o)) = true) :
    RW3t m.tag.isSome (Field.dflt env (.mk m (.prim l o)))
      (Shape.read env flex m.tag.isSome m (.prim l o))
      (Shape.write env flex m.tag.isSome m (.prim l o)) := by
  simp only [Shape.wf] at hwf
  split at hwf
  · rename_i k hk
    simp only [Bool.and_eq_true] at hwf
    obtain ⟨⟨⟨⟨hl, _⟩, _⟩, hr⟩, hw⟩ := hwf
    have hs := schemaFieldType_ok m k l hk hl
    obtain ⟨r, hr⟩ := isSome_ok_re hr
    obtain ⟨w, hw⟩ := isSome_ok_re hw
    simp only [Shape.read, Shape.write]
    rw [primFieldReaderT_eq hs hr, primFieldWriter_eq_re hs hw]
    by_cases hsame : readerOptional env k flex o m.tag.isSome = (!m.tag.isSome && o)
    · rw [hsame] at hr
      exact (prim_pair env ht hfl k flex _ _ (Or.inl rfl) r w hr hw).toRW3.toRW3t _ _
    · have hcase : m.tag.isSome = true ∧ o = true
          ∧ readerOptional env k flex o m.tag.isSome = true := by
        revert hsame
        unfold readerOptional
        cases m.tag.isSome <;> cases o <;> cases env.nullableTaggedReader <;>
          cases (getReader k flex true).toOption.isSome <;> simp
      obtain ⟨hT, ho, hR⟩ := hcase
      subst ho
      rw [hR] at hr
      rw [hT] at hw ⊢
      simp only [Bool.not_true, Bool.false_and] at hw
      have hmix := prim_pair_mixed env ht hfl k flex r w hr hw
      have hd := dflt_none_of_taggedNullDefaults (env := env) hT hnd
      intro bs v rest _ hrd
      rcases hmix bs v rest hrd with ⟨hv, hle⟩ | ⟨b, hb, hle⟩
      · left
        refine ⟨rfl, ?_, hle⟩
        rw [hv, hd]; rfl
      · right
        exact ⟨b, hb, by omega⟩
  · cases hwf

theorem Shape.primArr_re (env : Env) (ht : env.time = TimeCfg.repaired) (hfl : FloatExact)
    (flex : Bool) (m : FieldMeta) (l : PyLeaf) (e a : Bool)
    (hwf : Shape.wf env flex m (.primArr l e a) = true) :
    RW3 (Shape.read env flex m.tag.isSome m (.primArr l e a))
      (Shape.write env flex m.tag.isSome m (.primArr l e a)) := by
  simp only [Shape.wf] at hwf
  split at hwf
  · rename_i k hk
    simp only [Bool.and_eq_true] at hwf
    obtain ⟨⟨⟨⟨⟨⟨hl, ha⟩, _⟩, _⟩, hte⟩, hr⟩, hw⟩ := hwf
    have hs := schemaFieldType_ok m k l hk hl
    obtain ⟨r, hr⟩ := isSome_ok_re hr
    obtain ⟨w, hw⟩ := isSome_ok_re hw
    simp only [Shape.read, Shape.write]
    rw [primFieldReader_eq hs hr, primFieldWriter_eq_re hs hw]
    apply array_re
    apply RW1.toRW3
    refine prim_pair env ht hfl k flex _ _ ?_ r w hr hw
    revert hte ha
    cases m.tag.isSome <;> cases e <;> cases a <;> simp
  · cases hwf

/-! ### the induction -/

theorem Schema.reencodable_aux (env : Env) (ht : env.time = TimeCfg.repaired) (hfl : FloatExact) :
    ∀ (s : Schema), s.wf env = true → s.taggedNullDefaults = true →
      s.taggedDefaultsRefl env = true → RW3 (s.read env) (s.write env) := by
  apply Schema.induct3
    (PS := fun s => s.wf env = true → s.taggedNullDefaults = true →
      s.taggedDefaultsRefl env = true → RW3 (s.read env) (s.write env))
    (PF := fun f => ∀ flex rh, Field.wf env flex rh f = true → f.taggedNullDefaults = true →
      f.taggedDefaultsRefl env = true →
      RW3t f.isTagged (Field.dflt env f) (Field.read env flex rh f.isTagged f)
        (Field.write env flex rh f.isTagged f))
    (PSh := fun sh => ∀ flex m, Shape.wf env flex m sh = true →
      Field.taggedNullDefaults (.mk m sh) = true → Shape.taggedDefaultsRefl env sh = true →
      RW3t m.tag.isSome (Field.dflt env (.mk m sh)) (Shape.read env flex m.tag.isSome m sh)
        (Shape.write env flex m.tag.isSome m sh))
  · -- Schema
    intro nm flex rh fs ih hwf hnd hdr
    simp only [Schema.wf, Bool.and_eq_true] at hwf
    obtain ⟨⟨hwfs, _⟩, hdup⟩ := hwf
    simp only [Schema.taggedNullDefaults] at hnd
    simp only [Schema.taggedDefaultsRefl] at hdr
    have hnodup : (fs.filterMap Field.tagNat).Nodup := by
      simpa [dupTags] using hdup
    have hPF : ∀ f ∈ fs, RW3t f.isTagged (Field.dflt env f)
        (Field.read env flex rh f.isTagged f) (Field.write env flex rh f.isTagged f) :=
      fun f hf => ih f hf flex rh (Fields.wf_mem hwfs hf)
        (Fields.taggedNullDefaults_mem hnd f hf) (Fields.taggedDefaultsRefl_mem hdr f hf)
    have hU : ∀ f ∈ fs, f.isTagged = false →
        RW3 (Field.read env flex rh false f) (Field.write env flex rh false f) := by
      intro f hf hft
      have := hPF f hf
      rw [hft] at this
      exact this.toRW3
    intro bs v rest hlen hr
    simp only [Schema.read] at hr
    obtain ⟨⟨us, r1⟩, h1, h2⟩ := bind_ok hr
    simp only at h2
    cases flex with
    | false =>
      simp only [Bool.not_false, if_true, pure, Except.pure] at h2
      injection h2 with h2; injection h2 with h2 h3; subst h2 h3
      obtain ⟨a, ha, hla⟩ := readUntagged_re env false rh [] fs hU bs us r1 hlen h1
      refine ⟨a, ?_, hla⟩
      simp only [Schema.write]
      rw [ha]
      rfl
    | true =>
      simp only [Bool.not_true, Bool.false_eq_true, if_false] at h2
      obtain ⟨⟨n, r2⟩, h3, h4⟩ := bind_ok h2
      simp only at h4
      obtain ⟨⟨acc, r3⟩, h5, h6⟩ := bind_ok h4
      simp only [pure, Except.pure] at h6
      injection h6 with h6; injection h6 with h6 h7; subst h6 h7
      obtain ⟨a, ha, hla⟩ := readUntagged_re env true rh acc fs hU bs us r1 hlen h1
      have hc := decVarint_consumed h3
      have hnlt := decVarint_lt h3
      rw [pow128_5] at hnlt
      -- the loop
      have H : ∀ t e, lookupTagged (Fields.taggedPlan env true rh fs) t = some e →
          RW3d (dOf env fs t) e.read (wOf env true rh fs t) := by
        intro t e he
        rw [lookupTagged_plan] at he
        cases hfind : fs.find? (fun g => decide (g.tagNat = some t)) with
        | none => rw [hfind] at he; cases he
        | some f =>
          rw [hfind] at he
          simp only [Option.map_some, Option.some.injEq] at he
          subst he
          have hfm := List.mem_of_find?_eq_some hfind
          have hft : f.tagNat = some t := by simpa using List.find?_some hfind
          have hit : f.isTagged = true := by rw [Field.isTagged_eq, hft]; rfl
          have := hPF f hfm
          rw [hit] at this
          have hw : wOf env true rh fs t = Field.write env true rh true f := by
            simp only [wOf, hfind]
          have hd : dOf env fs t = Field.dflt env f := by
            simp only [dOf, hfind]
          rw [hw, hd]
          exact this.toRW3d
      obtain ⟨hgood, hacclen, hsum⟩ := readTaggedLoop_re env.skipUnknownTags _ _ _ H n r2 [] acc r3
        (by omega) h5 (by intro a ha; cases ha)
      -- the writer's items
      have hfields : ∀ f ∈ fs, ∀ t, f.tagNat = some t →
          Field.write env true rh true f = wOf env true rh fs t ∧ Field.dflt env f = dOf env fs t
            ∧ (dOf env fs t).pyEq (dOf env fs t) = true := by
        intro f hf t hft
        have hfind := find_unique hnodup hf hft
        have hw : wOf env true rh fs t = Field.write env true rh true f := by
          simp only [wOf, hfind]
        have hd : dOf env fs t = Field.dflt env f := by
          simp only [dOf, hfind]
        rw [hw, hd]
        exact ⟨rfl, rfl, dflt_refl_of_taggedDefaultsRefl hft (Fields.taggedDefaultsRefl_mem hdr f hf)⟩
      obtain ⟨items, hi, hflat, hcount⟩ := taggedItems_re env true rh _ _ acc hgood fs hfields us
      have hflat' := Nat.le_trans hflat (foundSum_le _ acc _ hnodup)
      have hcount' := Nat.le_trans hcount (foundSum_le _ acc _ hnodup)
      rw [sumBy_one] at hcount'
      obtain ⟨hsl, hsf⟩ := sortByTag_length_re items
      simp only [sumBy, List.length_nil] at hsum hacclen
      have hcnt : (sortByTag items).length ≤ n := by omega
      have hcntlt : (sortByTag items).length < 2 ^ 35 := by omega
      have hvl := encVarint_length_mono hcnt
      refine ⟨a ++ encVarint (sortByTag items).length ++ flattenItems (sortByTag items), ?_, ?_⟩
      · simp only [Schema.write]
        rw [ha, ok_bind_re]
        simp only [Bool.not_true, Bool.false_eq_true, if_false]
        rw [hi, ok_bind_re, uvarintCtor_nat _ rfl hcntlt]
        rfl
      · simp only [List.length_append]
        omega
  · -- Field
    intro m sh ih flex rh hwf hnd hdr
    obtain ⟨_, hsh, _⟩ := Field.wf_elim hwf
    have hdr' : Shape.taggedDefaultsRefl env sh = true := by
      simp only [Field.taggedDefaultsRefl, Bool.and_eq_true] at hdr
      exact hdr.2
    show RW3t m.tag.isSome (Field.dflt env (.mk m sh))
      (Field.read env flex rh m.tag.isSome (.mk m sh)) (Field.write env flex rh m.tag.isSome (.mk m sh))
    simp only [Field.read, Field.write]
    cases hc : (rh && m.isClientId)
    · rw [hc] at hsh
      simp only [Bool.false_eq_true, if_false] at hsh ⊢
      exact ih flex m hsh hnd hdr'
    · simp only [if_true]
      exact (RW1.toRW3 rw_nullableLegacyString).toRW3t _ _
  · -- prim
    intro l o flex m hwf hnd _
    exact Shape.prim_re env ht hfl flex m l o hwf hnd
  · -- primArr
    intro l e a flex m hwf _ _
    exact (Shape.primArr_re env ht hfl flex m l e a hwf).toRW3t _ _
  · -- ent
    intro s o ih flex m hwf hnd hdr
    simp only [Shape.wf, Bool.and_eq_true] at hwf
    obtain ⟨⟨_, hto⟩, hwfs⟩ := hwf
    have hnd' : s.taggedNullDefaults = true := by
      simp only [Field.taggedNullDefaults, Shape.taggedNullDefaults, Bool.and_eq_true] at hnd
      exact hnd.2
    simp only [Shape.taggedDefaultsRefl] at hdr
    have hs := ih hwfs hnd' hdr
    apply RW3.toRW3t
    simp only [Shape.read, Shape.write]
    cases o
    · simp only [Bool.and_false, Bool.false_eq_true, if_false]
      exact hs
    · have hT : m.tag.isSome = false := by
        revert hto; cases m.tag.isSome <;> simp
      rw [hT]
      simp only [Bool.not_false, Bool.and_self, if_true]
      exact nullable_re hs
  · -- entArr
    intro s a ih flex m hwf hnd hdr
    simp only [Shape.wf, Bool.and_eq_true] at hwf
    obtain ⟨⟨_, hwfs⟩, _⟩ := hwf
    have hnd' : s.taggedNullDefaults = true := by
      simp only [Field.taggedNullDefaults, Shape.taggedNullDefaults, Bool.and_eq_true] at hnd
      exact hnd.2
    simp only [Shape.taggedDefaultsRefl] at hdr
    have hs := ih hwfs hnd' hdr
    apply RW3.toRW3t
    simp only [Shape.read, Shape.write]
    exact array_re flex hs
  · -- bad
    intro flex m hwf
    simp [Shape.wf] at hwf

/-- **re-encodable** (corrected statement): on a coherent class whose tagged defaults compare
    equal to themselves, with the repaired time arithmetic, any value the reader returns for any
    input of fewer than `2^35 / 3` bytes is accepted by the writer, and the re-encoding is at
    most three times as long as the bytes that were consumed.

    Differences from the statement first proposed, each forced by a counterexample:
    * `hdr`: a tagged field absent from the wire is assembled to its default `d`; the writer omits
      it only if `d == d`.  With `d = float('nan')` on a tagged `int32` field the default reaches
      `write_int32`, which raises (`reencodable_cex_default`).
    * the length clause: the reader ignores the size prefix of a known tagged field, so the
      consumed one may be shorter than the minimal encoding of the real size that the writer
      emits; the re-encoding can be longer than the input (`reencodable_cex_length`, 205 ↦ 206
      bytes).  Each tagged item grows by at most 4 bytes and consumed at least 2, hence `3 ×`.
    * `hlen`: because of that growth a payload re-encoded inside an outer tagged field can reach
      `2^35` bytes (where `uvarint(size)` raises) although fewer than `2^35` were consumed, so
      the bound on the input has to leave room for it. -/
theorem Schema.reencodable' (env : Env) (ht : env.time = TimeCfg.repaired) (hfl : FloatExact)
    (s : Schema) (hwf : s.wf env = true) (hnd : s.taggedNullDefaults = true)
    (hdr : s.taggedDefaultsRefl env = true)
    (bs : Bytes) (hlen : 3 * bs.length < 2 ^ 35) (v : Value) (rest : Bytes)
    (h : s.read env bs = .ok (v, rest)) :
    ∃ b', s.write env v = .ok b' ∧ b'.length + 3 * rest.length ≤ 3 * bs.length :=
  Schema.reencodable_aux env ht hfl s hwf hnd hdr bs v rest hlen h

end Kio
