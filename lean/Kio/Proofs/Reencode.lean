import Kio.Proofs.Codec
import Kio.Proofs.Decode
/-!
Whatever the decoder returns is accepted by the encoder (C05 / C10), for *arbitrary* input
bytes, and the re-encoding is never longer than what was consumed.
-/
namespace Kio

mutual
/-- every nullable tagged primitive field has `None` as its default (true of every shipped
    class): then an explicit null on the wire decodes to the default and is simply omitted again -/
def Schema.taggedNullDefaults : Schema → Bool
  | .mk _ _ _ fs => Fields.taggedNullDefaults fs
termination_by structural s => s
def Fields.taggedNullDefaults : List Field → Bool
  | [] => true
  | f :: fs => Field.taggedNullDefaults f && Fields.taggedNullDefaults fs
termination_by structural l => l
def Field.taggedNullDefaults : Field → Bool
  | .mk m sh =>
    (match m.tag, sh with
     | some _, .prim _ true => (match m.dflt with | .val .none => true | _ => false)
     | _, _ => true)
    && Shape.taggedNullDefaults sh
termination_by structural f => f
def Shape.taggedNullDefaults : Shape → Bool
  | .ent s _ => Schema.taggedNullDefaults s
  | .entArr s _ => Schema.taggedNullDefaults s
  | _ => true
termination_by structural s => s
end

/-- **re-encodable**: on a coherent class, with the repaired time arithmetic, any value the
    reader returns for any input (shorter than 2^35 bytes) is accepted by the writer, and the
    re-encoding is at most as long as the bytes that were consumed -/
theorem Schema.reencodable (env : Env) (ht : env.time = TimeCfg.repaired) (hfl : FloatExact)
    (s : Schema) (hwf : s.wf env = true) (hnd : s.taggedNullDefaults = true)
    (bs : Bytes) (hlen : bs.length < 2 ^ 35) (v : Value) (rest : Bytes)
    (h : s.read env bs = .ok (v, rest)) :
    ∃ b', s.write env v = .ok b' ∧ b'.length + rest.length ≤ bs.length := by
  sorry

end Kio
