import Kio.Proofs.Codec
import Kio.Proofs.Float
import Kio.Model.Current
import Kio.Proofs.RoundtripEqValueOk
/-!
# Round trip up to Python `==`, without the TaggedCanon restriction

`Kio.Schema.roundtrip` (C01) is stated for `Schema.valueOk`, which contains the clause
**TaggedCanon**: a tagged value `==` its default *is* the default.  Here the clause is dropped.

* `Schema.typedOk`  — `valueOk` without TaggedCanon          (`Kio.Proofs.RoundtripEqDefs`)
* `Schema.canon`    — the instance the decoder returns        (`Kio.Proofs.RoundtripEqDefs`)
* `Schema.rtOk`     — decoded form: a tagged field holds its (self-`==`) default itself, or a
                      decoded-form value not `==` the default (`Kio.Proofs.RoundtripEqDefs`)

For every coherent `s` and every well-typed `v`:

* `Schema.canon_pyEq`      `(s.canon env v).pyEq v`
* `Schema.write_canon`     `s.write env (s.canon env v) = s.write env v`
* `Schema.canon_rtOk`      `s.rtOk env (s.canon env v)`
* `Schema.roundtrip_canon` `s.read env (bs ++ rest) = .ok (s.canon env v, rest)`
* `Schema.roundtrip_pyEq`, `roundtrip_pyEq` — **the full-strength C01**: decoding the encoding
  yields an `==` instance and consumes exactly the encoding.

**Deviation from the requested statement (a).**  `s.valueOk env (s.canon env v)` is *false* in
general: `Schema.wf` puts no typing constraint on an explicit tagged default (`Dflt.val d`), so
a coherent class may declare `i32` field, tag 0, `default=False`.  The well-typed value `0` is
`== False`, is omitted by the writer, and the reader hands back `False`: `==` the original (so
the round trip up to `==` still holds — `canon_valueOk_counterexample`), but not a well-typed
`i32`.  The proof of the main theorem therefore does not go through `Schema.roundtrip`; it goes
through `Schema.rq_roundtrip_rtOk`, the same induction on the larger domain `Schema.rtOk`.
`Schema.canon_valueOk` holds with the extra hypothesis `Schema.dfltsOk` (every tagged default
is a canonical value of its field, or the zero UUID).  The right fix for (a) is that clause on
*schemas* (`Coherent`), not an additional clause on values.
-/
namespace Kio

/-- CPython's float conversion is exact on whole-millisecond timestamps (as in `Kio.C01`). -/
theorem rq_float_exact : FloatExact := by
  intro k h0 h1
  apply ms_exact
  rw [abs_lt]
  constructor <;> omega

/-! ### (b), (c): `canon v` is `==` to `v` and is written identically -/

/-- (b) the canonical form is `==` the original -/
theorem Schema.canon_pyEq (env : Env) (s : Schema) (v : Value) (ht : s.typedOk env v = true) :
    (s.canon env v).pyEq v = true :=
  Schema.rq_canon_py env s v ht

/-- (c) the writer cannot tell them apart -/
theorem Schema.write_canon (env : Env) (s : Schema) (v : Value) (ht : s.typedOk env v = true) :
    s.write env (s.canon env v) = s.write env v :=
  Schema.rq_canon_wr env s v ht

/-- (a′) the canonical form is in decoded form (unconditionally) -/
theorem Schema.canon_rtOk (env : Env) (s : Schema) (v : Value) (ht : s.typedOk env v = true) :
    s.rtOk env (s.canon env v) = true :=
  Schema.rq_canon_ro env s v ht

/-- (a) the canonical form is a canonical value — *provided the tagged defaults are* -/
theorem Schema.canon_valueOk (env : Env) (s : Schema) (hd : s.dfltsOk env = true) (v : Value)
    (ht : s.typedOk env v = true) : s.valueOk env (s.canon env v) = true :=
  Schema.rq_canon_vo env s v hd ht

/-! ### (e): the old domain is the special case -/

theorem Schema.valueOk_typedOk (env : Env) (s : Schema) (v : Value)
    (hv : s.valueOk env v = true) : s.typedOk env v = true :=
  Schema.rq_valueOk_typedOk env s v hv

theorem Schema.canon_of_valueOk (env : Env) (s : Schema) (v : Value)
    (hv : s.valueOk env v = true) : s.canon env v = v :=
  Schema.rq_canon_fix env s v hv

/-! ### (d): the round trip -/

/-- the decoder returns exactly `canon v`, and consumes exactly the encoding -/
theorem Schema.roundtrip_canon (env : Env) (htime : env.time = TimeCfg.repaired) (hfl : FloatExact)
    (s : Schema) (v : Value) (bs : Bytes) (hwf : s.wf env = true) (ht : s.typedOk env v = true)
    (he : s.write env v = .ok bs) (rest : Bytes) :
    s.read env (bs ++ rest) = .ok (s.canon env v, rest) :=
  Schema.rq_roundtrip_rtOk env htime hfl s (s.canon env v) bs hwf (Schema.canon_rtOk env s v ht)
    (by rw [Schema.write_canon env s v ht]; exact he) rest

/-- **main theorem**, plan level: decoding the encoding of a well-typed value yields an `==`
    value and consumes exactly the encoding -/
theorem Schema.roundtrip_pyEq (env : Env) (htime : env.time = TimeCfg.repaired) (hfl : FloatExact)
    (s : Schema) (v : Value) (bs : Bytes) (hwf : s.wf env = true) (ht : s.typedOk env v = true)
    (he : s.write env v = .ok bs) (rest : Bytes) :
    ∃ v', s.read env (bs ++ rest) = .ok (v', rest) ∧ v'.pyEq v = true :=
  ⟨s.canon env v, Schema.roundtrip_canon env htime hfl s v bs hwf ht he rest,
    Schema.canon_pyEq env s v ht⟩

/-- `dec s (enc s v ++ rest) = (canon v, rest)` -/
theorem roundtrip_canon (env : Env) (htime : env.time = TimeCfg.repaired) (s : Schema)
    (hwf : s.wf env = true) (v : Value) (hv : s.typedOk env v = true) (bs : Bytes)
    (he : enc env s v = .ok bs) (rest : Bytes) :
    dec env s (bs ++ rest) = .ok (s.canon env v, rest) := by
  obtain ⟨hr, hw⟩ := wf_buildable env s hwf
  unfold enc at he; rw [hw] at he
  unfold dec; rw [hr]
  exact Schema.roundtrip_canon env htime rq_float_exact s v bs hwf hv he rest

/-- **C01 at full strength**: for every coherent class and every well-typed instance (no
    TaggedCanon), `dec s (enc s v ++ rest) = (v', rest)` with `v' == v` -/
theorem roundtrip_pyEq (env : Env) (htime : env.time = TimeCfg.repaired) (s : Schema)
    (hwf : s.wf env = true) (v : Value) (hv : s.typedOk env v = true) (bs : Bytes)
    (he : enc env s v = .ok bs) (rest : Bytes) :
    ∃ v', dec env s (bs ++ rest) = .ok (v', rest) ∧ v'.pyEq v = true :=
  ⟨s.canon env v, roundtrip_canon env htime s hwf v hv bs he rest, Schema.canon_pyEq env s v hv⟩

/-- the old theorem (`Kio.C01.roundtrip`) is the special case `valueOk` -/
theorem roundtrip_of_valueOk (env : Env) (htime : env.time = TimeCfg.repaired) (s : Schema)
    (hwf : s.wf env = true) (v : Value) (hv : s.valueOk env v = true) (bs : Bytes)
    (he : enc env s v = .ok bs) (rest : Bytes) : dec env s (bs ++ rest) = .ok (v, rest) := by
  have h := roundtrip_canon env htime s hwf v (Schema.valueOk_typedOk env s v hv) bs he rest
  rwa [Schema.canon_of_valueOk env s v hv] at h

/-! ### (f): the generalisation is strict -/

-- the concrete facts below are closed by one shared `simp` set
set_option linter.unusedSimpArgs false

/-- a flexible class with one tagged `f64` field (tag 0, implicit default `0.0`) -/
def rqFloatSchema : Schema :=
  .mk 0 true false
    [.mk { nameId := 0, isClientId := false, kafkaType := some .float64, tag := some 0,
           dflt := .missing, extraMeta := false }
         (.prim ⟨.f64, false⟩ false)]

def rqEnv : Env := Env.repaired []

/-- the instance holding `-0.0` -/
def rqNegZero : Value := .entity [.float (2 ^ 63)]
/-- the instance holding `0.0` -/
def rqPosZero : Value := .entity [.float 0]

theorem rqFloatSchema_wf : rqFloatSchema.wf rqEnv = true := by decide
theorem rqNegZero_typedOk : rqFloatSchema.typedOk rqEnv rqNegZero = true := by
  simp [rqFloatSchema, rqNegZero, Schema.typedOk, Fields.typedOk, Field.typedOk, Shape.typedOk,
    Schema.valueOk, Fields.valueOk, Field.valueOk, Shape.valueOk, Schema.rtOk, Fields.rtOk,
    Field.rtOk, Shape.rtOk, Schema.dfltsOk, Fields.dfltsOk, Field.dfltsOk, Shape.dfltsOk,
    primValueOk, KType.isFixedInt, floatIsFinite, Field.taggedDefault, Shape.missingDefault,
    implicitDefault, Except.toOption, Value.pyEq, Value.beq, floatEq, floatIsNan]
theorem rqNegZero_not_valueOk : rqFloatSchema.valueOk rqEnv rqNegZero = false := by
  simp [rqFloatSchema, rqNegZero, Schema.typedOk, Fields.typedOk, Field.typedOk, Shape.typedOk,
    Schema.valueOk, Fields.valueOk, Field.valueOk, Shape.valueOk, Schema.rtOk, Fields.rtOk,
    Field.rtOk, Shape.rtOk, Schema.dfltsOk, Fields.dfltsOk, Field.dfltsOk, Shape.dfltsOk,
    primValueOk, KType.isFixedInt, floatIsFinite, Field.taggedDefault, Shape.missingDefault,
    implicitDefault, Except.toOption, Value.pyEq, Value.beq, floatEq, floatIsNan]
/-- the writer omits the field: the encoding is the single byte "0 tagged fields" -/
theorem rqNegZero_enc : enc rqEnv rqFloatSchema rqNegZero = .ok [0] := by decide +kernel
theorem rqNegZero_canon : rqFloatSchema.canon rqEnv rqNegZero = rqPosZero := by
  simp [rqFloatSchema, rqNegZero, rqPosZero, Schema.canon, Fields.canon, Field.canon, Shape.canon,
    Field.taggedDefault, Shape.missingDefault, implicitDefault, Except.toOption, Value.pyEq,
    floatEq, floatIsNan]
/-- the reader returns `0.0` … -/
theorem rqNegZero_dec (rest : Bytes) :
    dec rqEnv rqFloatSchema ([0] ++ rest) = .ok (rqPosZero, rest) := by
  rw [← rqNegZero_canon]
  exact roundtrip_canon rqEnv rfl rqFloatSchema rqFloatSchema_wf rqNegZero rqNegZero_typedOk [0]
    rqNegZero_enc rest
/-- … which is `==` the original but not structurally equal to it -/
theorem rqPosZero_pyEq : rqPosZero.pyEq rqNegZero = true := by decide
theorem rqPosZero_not_beq : rqPosZero.beq rqNegZero = false := by decide
theorem rqPosZero_ne : rqPosZero ≠ rqNegZero := by
  intro h
  have : rqPosZero.beq rqNegZero = true := by rw [h]; exact Value.rq_beq_refl _
  rw [rqPosZero_not_beq] at this
  cases this

/-! ### the requested (a) is false as stated -/

/-- a coherent flexible class with one tagged `i32` field declared `default=False` -/
def rqBoolDfltSchema : Schema :=
  .mk 0 true false
    [.mk { nameId := 0, isClientId := false, kafkaType := some .int32, tag := some 0,
           dflt := .val (.bool false), extraMeta := false }
         (.prim ⟨.i32, false⟩ false)]

def rqIntZero : Value := .entity [.int 0]
def rqFalse : Value := .entity [.bool false]

theorem rqBoolDfltSchema_wf : rqBoolDfltSchema.wf rqEnv = true := by decide
theorem rqBoolDfltSchema_not_dfltsOk : rqBoolDfltSchema.dfltsOk rqEnv = false := by
  simp [rqBoolDfltSchema, rqEnv, Schema.typedOk, Fields.typedOk, Field.typedOk, Shape.typedOk,
    Schema.valueOk, Fields.valueOk, Field.valueOk, Shape.valueOk, Schema.rtOk, Fields.rtOk,
    Field.rtOk, Shape.rtOk, Schema.dfltsOk, Fields.dfltsOk, Field.dfltsOk, Shape.dfltsOk,
    primValueOk, KType.isFixedInt, floatIsFinite, Field.taggedDefault, Shape.missingDefault,
    implicitDefault, Except.toOption, Value.pyEq, Value.beq, floatEq, floatIsNan]
theorem rqIntZero_valueOk_fails : rqBoolDfltSchema.valueOk rqEnv rqIntZero = false := by
  simp [rqBoolDfltSchema, rqIntZero, Schema.typedOk, Fields.typedOk, Field.typedOk, Shape.typedOk,
    Schema.valueOk, Fields.valueOk, Field.valueOk, Shape.valueOk, Schema.rtOk, Fields.rtOk,
    Field.rtOk, Shape.rtOk, Schema.dfltsOk, Fields.dfltsOk, Field.dfltsOk, Shape.dfltsOk,
    primValueOk, KType.isFixedInt, floatIsFinite, Field.taggedDefault, Shape.missingDefault,
    implicitDefault, Except.toOption, Value.pyEq, Value.beq, floatEq, floatIsNan]
theorem rqIntZero_typedOk : rqBoolDfltSchema.typedOk rqEnv rqIntZero = true := by
  simp [rqBoolDfltSchema, rqIntZero, Schema.typedOk, Fields.typedOk, Field.typedOk, Shape.typedOk,
    Schema.valueOk, Fields.valueOk, Field.valueOk, Shape.valueOk, Schema.rtOk, Fields.rtOk,
    Field.rtOk, Shape.rtOk, Schema.dfltsOk, Fields.dfltsOk, Field.dfltsOk, Shape.dfltsOk,
    primValueOk, KType.isFixedInt, floatIsFinite, Field.taggedDefault, Shape.missingDefault,
    implicitDefault, Except.toOption, Value.pyEq, Value.beq, floatEq, floatIsNan]
theorem rqIntZero_canon : rqBoolDfltSchema.canon rqEnv rqIntZero = rqFalse := by
  simp [rqBoolDfltSchema, rqIntZero, rqFalse, Schema.canon, Fields.canon, Field.canon,
    Shape.canon, Field.taggedDefault, Except.toOption, Value.pyEq]
theorem rqFalse_not_valueOk : rqBoolDfltSchema.valueOk rqEnv rqFalse = false := by
  simp [rqBoolDfltSchema, rqFalse, Schema.typedOk, Fields.typedOk, Field.typedOk, Shape.typedOk,
    Schema.valueOk, Fields.valueOk, Field.valueOk, Shape.valueOk, Schema.rtOk, Fields.rtOk,
    Field.rtOk, Shape.rtOk, Schema.dfltsOk, Fields.dfltsOk, Field.dfltsOk, Shape.dfltsOk,
    primValueOk, KType.isFixedInt, floatIsFinite, Field.taggedDefault, Shape.missingDefault,
    implicitDefault, Except.toOption, Value.pyEq, Value.beq, floatEq, floatIsNan]
theorem rqFalse_not_typedOk : rqBoolDfltSchema.typedOk rqEnv rqFalse = false := by
  simp [rqBoolDfltSchema, rqFalse, Schema.typedOk, Fields.typedOk, Field.typedOk, Shape.typedOk,
    Schema.valueOk, Fields.valueOk, Field.valueOk, Shape.valueOk, Schema.rtOk, Fields.rtOk,
    Field.rtOk, Shape.rtOk, Schema.dfltsOk, Fields.dfltsOk, Field.dfltsOk, Shape.dfltsOk,
    primValueOk, KType.isFixedInt, floatIsFinite, Field.taggedDefault, Shape.missingDefault,
    implicitDefault, Except.toOption, Value.pyEq, Value.beq, floatEq, floatIsNan]
theorem rqFalse_rtOk : rqBoolDfltSchema.rtOk rqEnv rqFalse = true := by
  simp [rqBoolDfltSchema, rqFalse, Schema.typedOk, Fields.typedOk, Field.typedOk, Shape.typedOk,
    Schema.valueOk, Fields.valueOk, Field.valueOk, Shape.valueOk, Schema.rtOk, Fields.rtOk,
    Field.rtOk, Shape.rtOk, Schema.dfltsOk, Fields.dfltsOk, Field.dfltsOk, Shape.dfltsOk,
    primValueOk, KType.isFixedInt, floatIsFinite, Field.taggedDefault, Shape.missingDefault,
    implicitDefault, Except.toOption, Value.pyEq, Value.beq, floatEq, floatIsNan]

/-- (a) as requested — `valueOk (canon v)` from coherence and `typedOk v` alone — fails: the
    canonical form of the well-typed `0` in an `i32` field declared `default=False` is `False` -/
theorem canon_valueOk_counterexample :
    ∃ (env : Env) (s : Schema) (v : Value), env.time = TimeCfg.repaired ∧ s.wf env = true
      ∧ s.typedOk env v = true ∧ s.valueOk env (s.canon env v) = false
      ∧ s.typedOk env (s.canon env v) = false :=
  ⟨rqEnv, rqBoolDfltSchema, rqIntZero, rfl, rqBoolDfltSchema_wf, rqIntZero_typedOk,
    by rw [rqIntZero_canon]; exact rqFalse_not_valueOk,
    by rw [rqIntZero_canon]; exact rqFalse_not_typedOk⟩

/-- and yet the round trip up to `==` holds there: `0` is written as "no tagged fields" and read
    back as `False`, which is `== 0` -/
theorem rqIntZero_dec (rest : Bytes) :
    enc rqEnv rqBoolDfltSchema rqIntZero = .ok [0]
      ∧ dec rqEnv rqBoolDfltSchema ([0] ++ rest) = .ok (rqFalse, rest)
      ∧ rqFalse.pyEq rqIntZero = true := by
  have he : enc rqEnv rqBoolDfltSchema rqIntZero = .ok [0] := by decide +kernel
  refine ⟨he, ?_, by decide⟩
  rw [← rqIntZero_canon]
  exact roundtrip_canon rqEnv rfl rqBoolDfltSchema rqBoolDfltSchema_wf rqIntZero rqIntZero_typedOk
    [0] he rest

end Kio
