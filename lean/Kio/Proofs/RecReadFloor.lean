import Kio.Proofs.RecRead
import Kio.Proofs.FloatFloor
/-!
The record-batch reader on EVERY millisecond timestamp of the datetime range: all fields are read
exactly, and each record timestamp is floored to whole seconds (known finding C18/I, now
characterised instead of excluded).  `readBatch_spec_partial` follows as a corollary.
-/
namespace Kio

/-- what the reader makes of a wire record: the timestamp loses its sub-second part -/
def Spec.WireRecord.toRecFloor (r : Spec.WireRecord) : Record :=
  { r.toRec with timestampUs := (r.timestampMs / 1000) * 1000000 }

/-- the `RecordBatch` the reader returns for the encoding `bs` of `b` -/
def Spec.WireBatch.toRecFloor (b : Spec.WireBatch) (bs : Bytes) : RecordBatch :=
  { b.toRec bs with records := b.records.map Spec.WireRecord.toRecFloor }

/-- record timestamps within the datetime range, offsets within `i64`, and the reader's
    max-timestamp check passes.  That check is `rec.timestampUs > maxTimestamp * 1000000` with
    `timestampUs = (ms / 1000) * 1000000`, i.e. it compares the record's SECONDS with the batch's
    max timestamp in MILLISECONDS ("as written"), so what the model needs is exactly
    `timestampMs / 1000 ≤ maxTs`; the natural `timestampMs ≤ maxTs` implies it
    (`Spec.WireRecord.inRange_of_le`). -/
def Spec.WireRecord.inRange (maxTs : Int) (r : Spec.WireRecord) : Prop :=
  0 ≤ r.timestampMs ∧ r.timestampMs ≤ 253402300799999 ∧ r.timestampMs / 1000 ≤ maxTs
    ∧ -(2 ^ 63) ≤ r.offset ∧ r.offset < 2 ^ 63

/-- the natural side condition (record timestamp not after the batch's max timestamp) -/
def Spec.WireRecord.inRangeLe (maxTs : Int) (r : Spec.WireRecord) : Prop :=
  0 ≤ r.timestampMs ∧ r.timestampMs ≤ 253402300799999 ∧ r.timestampMs ≤ maxTs
    ∧ -(2 ^ 63) ≤ r.offset ∧ r.offset < 2 ^ 63

theorem Spec.WireRecord.inRange_of_le {maxTs : Int} {r : Spec.WireRecord}
    (h : r.inRangeLe maxTs) : r.inRange maxTs := by
  obtain ⟨h1, h2, h3, h4, h5⟩ := h
  exact ⟨h1, h2, by omega, h4, h5⟩

theorem Spec.WireRecord.inRange_of_wholeSecond {maxTs : Int} {r : Spec.WireRecord}
    (h : r.wholeSecond maxTs) : r.inRange maxTs := by
  obtain ⟨h1, h2, h3, h4, h5, h6⟩ := h
  exact ⟨h2, by omega, by omega, h5, h6⟩

theorem Spec.WireRecord.toRecFloor_eq_of_whole {r : Spec.WireRecord}
    (h : r.timestampMs % 1000 = 0) : r.toRecFloor = r.toRec := by
  unfold Spec.WireRecord.toRecFloor Spec.WireRecord.toRec
  simp only
  congr 1
  omega

theorem Spec.WireBatch.toRecFloor_eq_of_whole {b : Spec.WireBatch} (bs : Bytes)
    (h : ∀ r ∈ b.records, r.timestampMs % 1000 = 0) : b.toRecFloor bs = b.toRec bs := by
  have hm : b.records.map Spec.WireRecord.toRecFloor = b.records.map Spec.WireRecord.toRec :=
    List.map_congr_left (fun r hr => Spec.WireRecord.toRecFloor_eq_of_whole (h r hr))
  unfold Spec.WireBatch.toRecFloor
  rw [hm]
  rfl

/-- the record timestamp of any millisecond count in range: floored to whole seconds -/
theorem rf_recordTimestamp_floor (hff : FloatFloor) (ts : Int) (h2 : 0 ≤ ts)
    (h3 : ts ≤ 253402300799999) : recordTimestamp ts = .ok (ts / 1000 * 1000000) := by
  have hS := hff ts h2 h3
  unfold recordTimestamp
  generalize secMicrosOfMsFloat ts = p at hS
  obtain ⟨sec, us⟩ := p
  simp only at hS
  subst hS
  have hc : ¬ (ts / 1000 < minDatetimeSec ∨ maxDatetimeSec < ts / 1000) := by
    unfold minDatetimeSec maxDatetimeSec; omega
  simp only
  rw [if_neg hc, if_neg (by omega)]

/-- `record_dec` for arbitrary millisecond timestamps -/
theorem rf_record_dec (hff : FloatFloor) (cfg : RecCfg) (baseTs baseOff maxTs : Int)
    (r : Spec.WireRecord) (x : Bytes) (h : Spec.recordBytes baseTs baseOff r = some x)
    (hw : r.inRange maxTs) (tail : Bytes) :
    readRecord cfg baseTs baseOff (x ++ tail) = .ok (r.toRecFloor, tail) := by
  obtain ⟨a, t, o, k, v, n, hs, l, ha, ht, ho, hk, hv, hn, hhs, hl, rfl⟩ := recordBytes_struct h
  obtain ⟨hw2, hw3, hw4, hw5, hw6⟩ := hw
  unfold readRecord
  rw [List.append_assoc, svar32_dec hl]
  simp only [bind, Except.bind]
  rw [readChunk_append cfg _ tail _ rfl]
  simp only
  rw [show a ++ t ++ o ++ k ++ v ++ n ++ hs = a ++ (t ++ (o ++ (k ++ (v ++ (n ++ (hs ++ [])))))) by simp,
    intBE_dec ha (by omega)]
  simp only
  rw [svar64_dec ht]
  simp only
  rw [show baseTs + (r.timestampMs - baseTs) = r.timestampMs by omega,
    rf_recordTimestamp_floor hff _ hw2 hw3]
  simp only
  rw [svar32_dec ho]
  simp only
  rw [show baseOff + (r.offset - baseOff) = r.offset by omega, if_neg (by omega)]
  rw [nbytes_dec cfg hk]
  simp only
  rw [nbytes_dec cfg hv]
  simp only
  rw [svar32_dec hn]
  simp only [Int.toNat_natCast]
  rw [headers_dec cfg _ hhs]
  simp [pure, Except.pure, Spec.WireRecord.toRecFloor, Spec.WireRecord.toRec]

/-- `records_dec` for arbitrary millisecond timestamps -/
theorem rf_records_dec (hff : FloatFloor) (cfg : RecCfg) (baseTs baseOff maxTs : Int)
    (rs : List Spec.WireRecord) (x : Bytes)
    (h : Spec.catOpt (Spec.recordBytes baseTs baseOff) rs = some x)
    (hw : ∀ r ∈ rs, r.inRange maxTs) (tail : Bytes) :
    decManyR cfg baseTs baseOff maxTs rs.length (x ++ tail)
      = .ok (rs.map Spec.WireRecord.toRecFloor, tail) := by
  induction rs generalizing x with
  | nil =>
    simp only [Spec.catOpt] at h
    injection h with h; subst h
    rfl
  | cons r rs ih =>
    simp only [Spec.catOpt] at h
    obtain ⟨a, ha, h⟩ := obind_some h
    obtain ⟨b, hb, h⟩ := obind_some h
    simp only [pure] at h
    injection h with h; subst h
    have hwr := hw r (by simp)
    simp only [List.length_cons, decManyR, List.map_cons]
    rw [List.append_assoc, rf_record_dec hff cfg baseTs baseOff maxTs r a ha hwr]
    simp only [bind, Except.bind]
    obtain ⟨hw2, hw3, hw4, hw5, hw6⟩ := hwr
    rw [if_neg (by simp only [Spec.WireRecord.toRecFloor]; omega),
      ih b hb (fun r' hr' => hw r' (by simp [hr']))]
    rfl

/-- the frame of a reference-encoded batch is always read exactly; what remains is the record
    loop (`readBatch_spec_partial` up to its last step, for arbitrary records) -/
theorem rf_readBatch_records (cfg : RecCfg) (b : Spec.WireBatch) (bs : Bytes)
    (h : Spec.batchBytes b = some bs) (rest : Bytes) :
    ∃ rs, Spec.catOpt (Spec.recordBytes b.baseTimestamp b.baseOffset) b.records = some rs ∧
      readBatch cfg (bs ++ rest) =
        (decManyR cfg b.baseTimestamp b.baseOffset b.maxTimestamp b.records.length rs).bind
          (fun p => .ok ({ b.toRec bs with records := p.1 }, rest)) := by
  obtain ⟨cov, o, len, ple, crc, hcov, ho, hlen, hple, hcrc, rfl⟩ := batchBytes_struct h
  have lo := intBE_lengthR ho
  have ll := intBE_lengthR hlen
  have lp := intBE_lengthR hple
  have lc := intBE_lengthR hcrc
  rw [readBatch_framed cfg o len ple crc cov rest lo ll lp lc (intBE_val hlen (by omega)),
    intBE_val hcrc (by omega), if_neg (by simp), intBE_val ho (by omega), intBE_val hple (by omega)]
  have hdrop : (o ++ len ++ ple ++ [2] ++ crc ++ cov).drop 21 = cov := by
    have e : o ++ len ++ ple ++ [2] ++ crc ++ cov = (o ++ len ++ ple ++ [2] ++ crc) ++ cov := by simp
    rw [e, List.drop_append_of_le_length (by simp [lo, ll, lp, lc])]
    rw [List.drop_of_length_le (by simp [lo, ll, lp, lc])]
    rfl
  have hlen' : (((o ++ len ++ ple ++ [2] ++ crc ++ cov).length : Nat) : Int) - 12
      = (cov.length : Int) + 9 := by
    simp [lo, ll, lp, lc]; omega
  unfold Spec.WireBatch.toRec
  rw [hdrop, hlen']
  obtain ⟨a, l, t0, t1, p, e, s, n, rs, ha, hl, ht0, ht1, hp, he, hs, hn, hrs, hc⟩ :=
    coveredBytes_struct hcov
  refine ⟨rs, hrs, ?_⟩
  generalize (cov.length : Int) + 9 = bl
  generalize Crc.crc32c cov = cv
  subst hc
  unfold readPost
  rw [intBE_dec ha (by omega)]
  simp only [bind, Except.bind]
  rw [intBE_dec hl (by omega)]
  simp only
  rw [intBE_dec ht0 (by omega)]
  simp only
  rw [intBE_dec ht1 (by omega)]
  simp only
  rw [intBE_dec hp (by omega)]
  simp only
  rw [intBE_dec he (by omega)]
  simp only
  rw [intBE_dec hs (by omega)]
  simp only
  rw [intBE_dec hn (by omega)]
  simp only [Int.toNat_natCast]
  cases decManyR cfg b.baseTimestamp b.baseOffset b.maxTimestamp b.records.length rs <;> rfl

/-- **C18 faithful read, every millisecond timestamp**: the reader returns every field of a
    reference-encoded batch exactly, with the record timestamps floored to whole seconds
    (known finding C18/I) -/
theorem readBatch_spec_floor (hff : FloatFloor) (cfg : RecCfg) (b : Spec.WireBatch) (bs : Bytes)
    (h : Spec.batchBytes b = some bs) (hts : ∀ r ∈ b.records, r.inRange b.maxTimestamp)
    (rest : Bytes) : readBatch cfg (bs ++ rest) = .ok (b.toRecFloor bs, rest) := by
  obtain ⟨rs, hrs, hr⟩ := rf_readBatch_records cfg b bs h rest
  have := rf_records_dec hff cfg b.baseTimestamp b.baseOffset b.maxTimestamp b.records rs hrs hts []
  rw [List.append_nil] at this
  rw [hr, this]
  rfl

/-- the max-timestamp condition of `inRange` is exactly what the reader checks: a record list
    whose first offender has its SECONDS after `maxTs` is rejected with `ValueError` -/
theorem rf_records_dec_late (hff : FloatFloor) (cfg : RecCfg) (baseTs baseOff maxTs : Int)
    (pre : List Spec.WireRecord) (r : Spec.WireRecord) (post : List Spec.WireRecord) (x : Bytes)
    (h : Spec.catOpt (Spec.recordBytes baseTs baseOff) (pre ++ r :: post) = some x)
    (hpre : ∀ r' ∈ pre, r'.inRange maxTs)
    (hr : r.inRange (r.timestampMs / 1000)) (hlate : maxTs < r.timestampMs / 1000) (tail : Bytes) :
    decManyR cfg baseTs baseOff maxTs (pre ++ r :: post).length (x ++ tail) = .error .valueError := by
  induction pre generalizing x with
  | nil =>
    simp only [List.nil_append, Spec.catOpt] at h
    obtain ⟨a, ha, h⟩ := obind_some h
    obtain ⟨b, hb, h⟩ := obind_some h
    simp only [pure] at h
    injection h with h; subst h
    simp only [List.nil_append, List.length_cons, decManyR]
    rw [List.append_assoc, rf_record_dec hff cfg baseTs baseOff _ r a ha hr]
    simp only [bind, Except.bind]
    rw [if_pos (by simp only [Spec.WireRecord.toRecFloor]; omega)]
  | cons r0 pre ih =>
    simp only [List.cons_append, Spec.catOpt] at h
    obtain ⟨a, ha, h⟩ := obind_some h
    obtain ⟨b, hb, h⟩ := obind_some h
    simp only [pure] at h
    injection h with h; subst h
    have hwr := hpre r0 (by simp)
    simp only [List.cons_append, List.length_cons, decManyR]
    rw [List.append_assoc, rf_record_dec hff cfg baseTs baseOff maxTs r0 a ha hwr]
    simp only [bind, Except.bind]
    obtain ⟨hw2, hw3, hw4, hw5, hw6⟩ := hwr
    rw [if_neg (by simp only [Spec.WireRecord.toRecFloor]; omega),
      ih b hb (fun r' hr' => hpre r' (by simp [hr']))]

/-- **tightness of `inRange`**: if the first record violating `timestampMs / 1000 ≤ maxTimestamp`
    is otherwise in range, `read_batch` fails with `ValueError` — so the "seconds against
    milliseconds" comparison is exactly the condition under which the batch is readable -/
theorem readBatch_late_valueError (hff : FloatFloor) (cfg : RecCfg) (b : Spec.WireBatch)
    (bs : Bytes) (h : Spec.batchBytes b = some bs)
    (pre : List Spec.WireRecord) (r : Spec.WireRecord) (post : List Spec.WireRecord)
    (hrec : b.records = pre ++ r :: post) (hpre : ∀ r' ∈ pre, r'.inRange b.maxTimestamp)
    (hr : r.inRange (r.timestampMs / 1000)) (hlate : b.maxTimestamp < r.timestampMs / 1000)
    (rest : Bytes) : readBatch cfg (bs ++ rest) = .error .valueError := by
  obtain ⟨rs, hrs, hrd⟩ := rf_readBatch_records cfg b bs h rest
  rw [hrec] at hrs
  have := rf_records_dec_late hff cfg b.baseTimestamp b.baseOffset b.maxTimestamp pre r post rs hrs
    hpre hr hlate []
  rw [List.append_nil, ← hrec] at this
  rw [hrd, this]
  rfl

/-- the same with the natural side condition `timestampMs ≤ maxTimestamp` -/
theorem readBatch_spec_floor_of_le (hff : FloatFloor) (cfg : RecCfg) (b : Spec.WireBatch)
    (bs : Bytes) (h : Spec.batchBytes b = some bs)
    (hts : ∀ r ∈ b.records, r.inRangeLe b.maxTimestamp) (rest : Bytes) :
    readBatch cfg (bs ++ rest) = .ok (b.toRecFloor bs, rest) :=
  readBatch_spec_floor hff cfg b bs h (fun r hr => Spec.WireRecord.inRange_of_le (hts r hr)) rest

/-- `readBatch_spec_partial` (whole-second timestamps are read exactly) as a corollary of the
    floor characterisation -/
theorem readBatch_spec_partial_of_floor (hff : FloatFloor) (cfg : RecCfg) (b : Spec.WireBatch)
    (bs : Bytes) (h : Spec.batchBytes b = some bs)
    (hts : ∀ r ∈ b.records, r.wholeSecond b.maxTimestamp) (rest : Bytes) :
    readBatch cfg (bs ++ rest) = .ok (b.toRec bs, rest) := by
  rw [← Spec.WireBatch.toRecFloor_eq_of_whole bs (fun r hr => (hts r hr).1)]
  exact readBatch_spec_floor hff cfg b bs h (fun r hr => Spec.WireRecord.inRange_of_wholeSecond (hts r hr)) rest

/-! ### unconditional forms (the float fact is proved: `float_floor`) -/

theorem readBatch_floor (cfg : RecCfg) (b : Spec.WireBatch) (bs : Bytes)
    (h : Spec.batchBytes b = some bs) (hts : ∀ r ∈ b.records, r.inRange b.maxTimestamp)
    (rest : Bytes) : readBatch cfg (bs ++ rest) = .ok (b.toRecFloor bs, rest) :=
  readBatch_spec_floor float_floor cfg b bs h hts rest

/-- the old float fact follows from the new one only for the seconds component; the old theorem's
    conclusion needs nothing more -/
theorem readBatch_whole (cfg : RecCfg) (b : Spec.WireBatch) (bs : Bytes)
    (h : Spec.batchBytes b = some bs) (hts : ∀ r ∈ b.records, r.wholeSecond b.maxTimestamp)
    (rest : Bytes) : readBatch cfg (bs ++ rest) = .ok (b.toRec bs, rest) :=
  readBatch_spec_partial_of_floor float_floor cfg b bs h hts rest

end Kio
