import Kio.Proofs.Prim
import Kio.Model.Typing
/-!
Facts about the decoder on *arbitrary* input bytes (C10): errors stay in the allowed set, the
unread rest is a suffix of the input.
-/
namespace Kio

/-- what `dec` leaves unread is a suffix of what it was given -/
theorem Schema.read_suffix (env : Env) (s : Schema) (bs : Bytes) (v : Value) (rest : Bytes)
    (h : s.read env bs = .ok (v, rest)) : ∃ pre, bs = pre ++ rest := by
  sorry

/-- on a coherent class (and with unknown tags skipped, i.e. the repaired reader) every decode
    error is one of kio's serialization errors, `ValueError` or `OverflowError` -/
theorem Schema.read_err_allowed (env : Env) (hskip : env.skipUnknownTags = true)
    (s : Schema) (hwf : s.wf env = true) (bs : Bytes) (e : Err)
    (h : s.read env bs = .error e) : e.allowed = true := by
  sorry

end Kio
