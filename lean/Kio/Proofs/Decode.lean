import Kio.Proofs.Prim
import Kio.Proofs.DecodePrim
import Kio.Model.Typing
/-!
Facts about the decoder on *arbitrary* input bytes (C10): errors stay in the allowed set, the
unread rest is a suffix of the input.
-/
namespace Kio

/-! ### the rest is a suffix: mutual structural induction, no hypothesis on the schema -/

theorem primFieldReader_suffix (env : Env) (m : FieldMeta) (flex opt : Bool) :
    SuffixDec (primFieldReader env m flex opt) := by
  unfold primFieldReader
  split
  · intro bs v r h; contradiction
  · split
    · intro bs v r h; contradiction
    · exact PrimR.run_suffix env _

theorem primFieldReaderT_suffix (env : Env) (m : FieldMeta) (flex o tagged : Bool) :
    SuffixDec (primFieldReaderT env m flex o tagged) := by
  unfold primFieldReaderT
  split
  · intro bs v r h; contradiction
  · split
    · intro bs v r h; contradiction
    · exact PrimR.run_suffix env _

mutual
theorem Schema.read_suffixDec (env : Env) : (s : Schema) → SuffixDec (s.read env)
  | .mk _ flex rh fs => by
    have hu := Fields.readUntagged_suffixDec env flex rh fs
    have hp := Fields.taggedPlan_suffixDec env flex rh fs
    intro bs v r h
    simp only [Schema.read, bind_ok_iff, Prod.exists] at h
    obtain ⟨us, r1, h1, h2⟩ := h
    have s1 := hu _ _ _ h1
    split at h2
    · simp only [pure, Except.pure, Except.ok.injEq, Prod.mk.injEq] at h2
      obtain ⟨_, rfl⟩ := h2; exact s1
    · simp only [bind_ok_iff, Prod.exists, pure, Except.pure, Except.ok.injEq, Prod.mk.injEq] at h2
      obtain ⟨n, r2, h3, acc, r3, h4, _, rfl⟩ := h2
      exact ((readTaggedLoop_suffix _ _ hp _ _ _ _ _ h4).trans (decVarint_suffix _ _ _ _ h3)).trans s1
theorem Fields.readUntagged_suffixDec (env : Env) (flex rh : Bool) :
    (fs : List Field) → SuffixDec (Fields.readUntagged env flex rh fs)
  | [] => by
    intro bs v r h
    simp only [Fields.readUntagged, Except.ok.injEq, Prod.mk.injEq] at h
    rw [h.2]; exact List.suffix_refl _
  | f :: fs => by
    have hf := Field.read_suffixDec env flex rh false f
    have ih := Fields.readUntagged_suffixDec env flex rh fs
    intro bs v r h
    simp only [Fields.readUntagged] at h
    split at h
    · exact ih _ _ _ h
    · simp only [bind_ok_iff, Prod.exists, pure, Except.pure, Except.ok.injEq, Prod.mk.injEq] at h
      obtain ⟨a, r1, h1, vs, r2, h2, _, rfl⟩ := h
      exact (ih _ _ _ h2).trans (hf _ _ _ h1)
theorem Fields.taggedPlan_suffixDec (env : Env) (flex rh : Bool) :
    (fs : List Field) → ∀ e ∈ Fields.taggedPlan env flex rh fs, SuffixDec e.read
  | [] => by
    intro e he
    simp [Fields.taggedPlan] at he
  | f :: fs => by
    have hf := Field.read_suffixDec env flex rh true f
    have ih := Fields.taggedPlan_suffixDec env flex rh fs
    intro e he
    simp only [Fields.taggedPlan] at he
    split at he
    · exact ih e he
    · rcases List.mem_cons.1 he with rfl | he
      · exact hf
      · exact ih e he
theorem Field.read_suffixDec (env : Env) (flex rh tagged : Bool) :
    (f : Field) → SuffixDec (Field.read env flex rh tagged f)
  | .mk m sh => by
    have hs := Shape.read_suffixDec env flex tagged m sh
    simp only [Field.read]
    split
    · exact PrimR.run_suffix env .nullableLegacyString
    · exact hs
theorem Shape.read_suffixDec (env : Env) (flex tagged : Bool) (m : FieldMeta) :
    (sh : Shape) → SuffixDec (Shape.read env flex tagged m sh)
  | .prim _ o => by
    simp only [Shape.read]; exact primFieldReaderT_suffix _ _ _ _ _
  | .primArr _ e a => by
    simp only [Shape.read]; exact arrayReader_suffix _ (primFieldReader_suffix _ _ _ _)
  | .ent s o => by
    have hs := Schema.read_suffixDec env s
    simp only [Shape.read]
    split
    · exact readNullable_suffix hs
    · exact hs
  | .entArr s _ => by
    have hs := Schema.read_suffixDec env s
    simp only [Shape.read]; exact arrayReader_suffix _ hs
  | .bad => by
    simp only [Shape.read]
    intro bs v r h; contradiction
end


/-! ### errors are allowed: mutual structural induction over a coherent schema -/

theorem primFieldReader_allowed (env : Env) (m : FieldMeta) (flex opt : Bool) (k : KType)
    (hk : m.kafkaType = some k) (hr : (getReader k flex opt).toOption.isSome = true) :
    AllowedDec (primFieldReader env m flex opt) := by
  unfold primFieldReader FieldMeta.schemaFieldType
  rw [hk]
  cases hg : getReader k flex opt with
  | error e => rw [hg] at hr; simp [Except.toOption] at hr
  | ok r =>
    have hne : k ≠ .notStr := by
      rintro rfl
      cases flex <;> cases opt <;> simp [getReader] at hg
    cases k <;> first | exact absurd rfl hne | (simp only [hg]; exact PrimR.run_allowed env r)

/-- the reader of a primitive (non-array) field: the same, with the flag `readerOptional` -/
theorem primFieldReaderT_allowed (env : Env) (m : FieldMeta) (flex o tagged : Bool) (k : KType)
    (hk : m.kafkaType = some k)
    (hr : (getReader k flex (readerOptional env k flex o tagged)).toOption.isSome = true) :
    AllowedDec (primFieldReaderT env m flex o tagged) := by
  have h := primFieldReader_allowed env m flex (readerOptional env k flex o tagged) k hk hr
  have hne : k ≠ .notStr := by
    rintro rfl
    revert hr
    cases flex <;> cases (readerOptional env .notStr _ o tagged) <;>
      simp [getReader, Except.toOption]
  have hs : m.schemaFieldType = .ok k := by
    unfold FieldMeta.schemaFieldType
    rw [hk]
    cases k <;> first | exact absurd rfl hne | rfl
  unfold primFieldReader at h
  unfold primFieldReaderT
  rw [hs] at h ⊢
  exact h

theorem tagNat_some {m : FieldMeta} {sh : Shape} {t : Nat} (h : (Field.mk m sh).tagNat = some t) :
    m.tag.isSome = true := by
  simp only [Field.tagNat, FieldMeta.tagNat] at h
  cases hm : m.tag with
  | none => rw [hm] at h; simp at h
  | some _ => rfl

mutual
theorem Schema.read_allowedDec (env : Env) (hskip : env.skipUnknownTags = true) :
    (s : Schema) → s.wf env = true → AllowedDec (s.read env)
  | .mk _ flex rh fs => by
    intro hwf
    simp only [Schema.wf, Bool.and_eq_true] at hwf
    have hu := Fields.readUntagged_allowedDec env hskip flex rh fs hwf.1.1
    have hp := Fields.taggedPlan_allowedDec env hskip flex rh fs hwf.1.1
    intro bs e h
    simp only [Schema.read, bind_err_iff, Prod.exists] at h
    rcases h with h | ⟨us, r1, _, h2⟩
    · exact hu _ _ h
    · split at h2
      · contradiction
      · rw [hskip] at h2
        simp only [bind_err_iff, Prod.exists, pure, Except.pure] at h2
        rcases h2 with h2 | ⟨n, r2, _, h2 | ⟨_, _, _, h2⟩⟩
        · exact decVarint_allowed _ _ _ h2
        · exact readTaggedLoop_allowed _ hp _ _ _ _ h2
        · contradiction
theorem Fields.readUntagged_allowedDec (env : Env) (hskip : env.skipUnknownTags = true)
    (flex rh : Bool) :
    (fs : List Field) → Fields.wf env flex rh fs = true →
      AllowedDec (Fields.readUntagged env flex rh fs)
  | [] => by
    intro _ bs e h
    simp [Fields.readUntagged] at h
  | .mk m sh :: fs => by
    intro hwf
    simp only [Fields.wf, Bool.and_eq_true] at hwf
    have hf := Field.read_allowedDec env hskip flex rh false (.mk m sh) hwf.1
    have ih := Fields.readUntagged_allowedDec env hskip flex rh fs hwf.2
    intro bs e h
    simp only [Fields.readUntagged] at h
    split at h
    · exact ih _ _ h
    · rename_i hnt
      simp only [bind_err_iff, Prod.exists, pure, Except.pure] at h
      rcases h with h | ⟨a, r1, _, h | ⟨_, _, _, h⟩⟩
      · refine hf ?_ _ _ h
        simp only [Field.isTagged] at hnt
        simp only [Field.meta]
        cases hm : m.tag.isSome <;> simp_all
      · exact ih _ _ h
      · contradiction
theorem Fields.taggedPlan_allowedDec (env : Env) (hskip : env.skipUnknownTags = true)
    (flex rh : Bool) :
    (fs : List Field) → Fields.wf env flex rh fs = true →
      ∀ e ∈ Fields.taggedPlan env flex rh fs, AllowedDec e.read
  | [] => by
    intro _ e he
    simp [Fields.taggedPlan] at he
  | .mk m sh :: fs => by
    intro hwf
    simp only [Fields.wf, Bool.and_eq_true] at hwf
    have hf := Field.read_allowedDec env hskip flex rh true (.mk m sh) hwf.1
    have ih := Fields.taggedPlan_allowedDec env hskip flex rh fs hwf.2
    intro e he
    simp only [Fields.taggedPlan] at he
    split at he
    · exact ih e he
    · rename_i t ht
      rcases List.mem_cons.1 he with rfl | he
      · exact hf (by simp only [Field.meta]; exact (tagNat_some ht).symm)
      · exact ih e he
theorem Field.read_allowedDec (env : Env) (hskip : env.skipUnknownTags = true)
    (flex rh tagged : Bool) :
    (f : Field) → Field.wf env flex rh f = true → tagged = f.meta.tag.isSome →
      AllowedDec (Field.read env flex rh tagged f)
  | .mk m sh => by
    intro hwf ht
    have hs := Shape.read_allowedDec env hskip flex tagged m sh
    simp only [Field.meta] at ht
    simp only [Field.wf, Bool.and_eq_true] at hwf
    simp only [Field.read]
    split
    · exact PrimR.run_allowed env .nullableLegacyString
    · rename_i hc
      have h3 := hwf.1.1.2
      rw [if_neg (by simpa using hc)] at h3
      exact hs h3 ht
theorem Shape.read_allowedDec (env : Env) (hskip : env.skipUnknownTags = true)
    (flex tagged : Bool) (m : FieldMeta) :
    (sh : Shape) → Shape.wf env flex m sh = true → tagged = m.tag.isSome →
      AllowedDec (Shape.read env flex tagged m sh)
  | .prim l o => by
    intro hwf ht
    simp only [Shape.wf] at hwf
    simp only [Shape.read]
    split at hwf
    · rename_i k hk
      simp only [Bool.and_eq_true] at hwf
      subst ht
      exact primFieldReaderT_allowed env m flex o _ k hk hwf.1.2
    · contradiction
  | .primArr l e a => by
    intro hwf ht
    simp only [Shape.wf] at hwf
    simp only [Shape.read]
    split at hwf
    · rename_i k hk
      simp only [Bool.and_eq_true] at hwf
      exact arrayReader_allowed _ (primFieldReader_allowed env m flex _ k hk hwf.1.2)
    · contradiction
  | .ent s o => by
    intro hwf ht
    simp only [Shape.wf, Bool.and_eq_true] at hwf
    have hs := Schema.read_allowedDec env hskip s hwf.2
    simp only [Shape.read]
    split
    · exact readNullable_allowed hs
    · exact hs
  | .entArr s _ => by
    intro hwf ht
    simp only [Shape.wf, Bool.and_eq_true] at hwf
    have hs := Schema.read_allowedDec env hskip s hwf.1.2
    simp only [Shape.read]; exact arrayReader_allowed _ hs
  | .bad => by
    intro hwf
    simp [Shape.wf] at hwf
end


/-- what `dec` leaves unread is a suffix of what it was given -/
theorem Schema.read_suffix (env : Env) (s : Schema) (bs : Bytes) (v : Value) (rest : Bytes)
    (h : s.read env bs = .ok (v, rest)) : ∃ pre, bs = pre ++ rest := by
  obtain ⟨pre, hpre⟩ := Schema.read_suffixDec env s bs v rest h
  exact ⟨pre, hpre.symm⟩

/-- on a coherent class (and with unknown tags skipped, i.e. the repaired reader) every decode
    error is one of kio's serialization errors, `ValueError` or `OverflowError` -/
theorem Schema.read_err_allowed (env : Env) (hskip : env.skipUnknownTags = true)
    (s : Schema) (hwf : s.wf env = true) (bs : Bytes) (e : Err)
    (h : s.read env bs = .error e) : e.allowed = true := by
  exact Schema.read_allowedDec env hskip s hwf bs e h

end Kio
