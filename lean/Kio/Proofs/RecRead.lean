import Kio.Proofs.Prim
import Kio.Proofs.Crc
import Kio.Proofs.RecWrite
import Kio.Model.Records
import Kio.Spec.Batch
/-! The record-batch reader model: faithful on reference encodings, rejects damaged data (C18). -/
namespace Kio

/-- CPython float facts the reader depends on: `fromtimestamp(1000·S / 1000)` is exactly `S` s -/
def FloatSec : Prop := ∀ S : Int, 0 ≤ S → S ≤ 253402300799 → secMicrosOfMsFloat (S * 1000) = (S, 0)

def Spec.WireHeader.toRec (h : Spec.WireHeader) : RecHeader := { key := h.key, value := h.value }
def Spec.WireRecord.toRec (r : Spec.WireRecord) : Record :=
  { attributes := r.attributes, timestampUs := r.timestampMs * 1000, offset := r.offset,
    key := r.key, value := r.value, headers := r.headers.map Spec.WireHeader.toRec }

/-- the `RecordBatch` a faithful reader returns for the encoding `bs` of `b` -/
def Spec.WireBatch.toRec (b : Spec.WireBatch) (bs : Bytes) : RecordBatch :=
  { baseOffset := b.baseOffset, batchLength := (bs.length : Int) - 12,
    partitionLeaderEpoch := b.partitionLeaderEpoch, crc := Crc.crc32c (bs.drop 21),
    attributes := b.attributes, lastOffsetDelta := b.lastOffsetDelta,
    baseTimestamp := b.baseTimestamp, maxTimestamp := b.maxTimestamp, producerId := b.producerId,
    producerEpoch := b.producerEpoch, baseSequence := b.baseSequence,
    records := b.records.map Spec.WireRecord.toRec }

/-- whole-second record timestamps not after the batch's max timestamp, offsets within `i64` -/
def Spec.WireRecord.wholeSecond (maxTs : Int) (r : Spec.WireRecord) : Prop :=
  r.timestampMs % 1000 = 0 ∧ 0 ≤ r.timestampMs ∧ r.timestampMs ≤ 253402300799000 ∧ r.timestampMs ≤ maxTs
    ∧ -(2 ^ 63) ≤ r.offset ∧ r.offset < 2 ^ 63


theorem obind_some {α β} {x : Option α} {f : α → Option β} {b : β}
    (h : x >>= f = some b) : ∃ a, x = some a ∧ f a = some b := by
  cases x with
  | none => simp at h
  | some a => exact ⟨a, rfl, h⟩

/-- the integer `struct.unpack` reads from exactly these bytes -/
def intVal (w : Nat) (signed : Bool) (a : Bytes) : Int :=
  if signed ∧ 2 ^ (8 * w - 1) ≤ beNat a then (beNat a : Int) - 2 ^ (8 * w) else (beNat a : Int)

theorem decIntN_append (w : Nat) (signed : Bool) (a rest : Bytes) (ha : a.length = w) :
    decIntN w signed (a ++ rest) = .ok (intVal w signed a, rest) := by
  unfold decIntN
  rw [readExact_append' a rest (by rw [ha])]; rfl

theorem intBE_enc {w : Nat} {s : Bool} {v : Int} {a : Bytes} (h : Spec.intBE w s v = some a) :
    encIntN w s v = .ok a := by
  have := encIntN_eq_spec w s v
  rw [h] at this
  cases he : encIntN w s v with
  | error e => rw [he] at this; simp [Except.toOption] at this
  | ok x => rw [he] at this; simp [Except.toOption] at this; rw [this]

theorem intBE_lengthR {w : Nat} {s : Bool} {v : Int} {a : Bytes} (h : Spec.intBE w s v = some a) :
    a.length = w := encIntN_length (intBE_enc h)

theorem intBE_dec {w : Nat} {s : Bool} {v : Int} {a : Bytes} (h : Spec.intBE w s v = some a)
    (hw : 0 < w) (rest : Bytes) : decIntN w s (a ++ rest) = .ok (v, rest) :=
  int_roundtrip w hw s v a rest (intBE_enc h)

theorem intBE_val {w : Nat} {s : Bool} {v : Int} {a : Bytes} (h : Spec.intBE w s v = some a)
    (hw : 0 < w) : intVal w s a = v := by
  have h1 := intBE_dec h hw []
  rw [decIntN_append w s a [] (intBE_lengthR h)] at h1
  injection h1 with h1; injection h1

/-! ### `readBatch` in stages -/

/-- everything after the CRC comparison -/
def readPost (cfg : RecCfg) (baseOffset batchLength ple crc : Int) (c rest : Bytes) :
    Except Err (RecordBatch × Bytes) := do
  let (attributes, c) ← decIntN 2 true c
  let (lastOffsetDelta, c) ← decIntN 4 true c
  let (baseTimestamp, c) ← decIntN 8 true c
  let (maxTimestamp, c) ← decIntN 8 true c
  let (producerId, c) ← decIntN 8 true c
  let (producerEpoch, c) ← decIntN 2 true c
  let (baseSequence, c) ← decIntN 4 true c
  let (numRecords, c) ← decIntN 4 true c
  let (records, _) ← decManyR cfg baseTimestamp baseOffset maxTimestamp numRecords.toNat c
  pure ({ baseOffset, batchLength, partitionLeaderEpoch := ple, crc, attributes, lastOffsetDelta,
          baseTimestamp, maxTimestamp, producerId, producerEpoch, baseSequence, records }, rest)

/-- everything after the batch has been cut out of the buffer -/
def readBody (cfg : RecCfg) (baseOffset batchLength : Int) (chunk rest : Bytes) :
    Except Err (RecordBatch × Bytes) := do
  let (ple, c) ← decIntN 4 true chunk
  let (magic, c) ← decIntN 1 true c
  if magic ≠ 2 then .error .valueError else
  let (crc, c) ← decIntN 4 false c
  if crc ≠ (Crc.crc32c (readUpTo (batchLength - 9) c).1 : Int) then .error .valueError else
  readPost cfg baseOffset batchLength ple crc c rest

theorem readBatch_eq (cfg : RecCfg) (bs : Bytes) :
    readBatch cfg bs = (do
      let (baseOffset, r) ← decIntN 8 true bs
      let (batchLength, r) ← decIntN 4 true r
      readBody cfg baseOffset batchLength (readUpTo batchLength r).1 (readUpTo batchLength r).2) := rfl

theorem readUpTo_prefix (n : Int) (r : Bytes) : r = (readUpTo n r).1 ++ (readUpTo n r).2 := by
  unfold readUpTo
  split <;> simp

theorem intVal_one_eq_two {x : UInt8} (h : intVal 1 true [x] = 2) : x = 2 := by
  unfold intVal at h
  simp only [beNat, List.length_nil] at h
  have hx : x.toNat < 256 := x.toNat_lt
  have : x.toNat = 2 := by
    split at h <;> omega
  exact UInt8.toNat_inj.mp this

/-- a batch is only ever returned when the magic byte is 2 -/
theorem readBatch_magic (cfg : RecCfg) (bs : Bytes) (b : RecordBatch) (rest : Bytes)
    (h : readBatch cfg bs = .ok (b, rest)) : bs[16]? = some 2 := by
  rw [readBatch_eq] at h
  obtain ⟨⟨bo, r1⟩, h1, h⟩ := bind_ok h
  obtain ⟨⟨bl, r2⟩, h2, h⟩ := bind_ok h
  simp only at h
  unfold readBody at h
  obtain ⟨⟨ple, c1⟩, h3, h⟩ := bind_ok h
  obtain ⟨⟨magic, c2⟩, h4, h⟩ := bind_ok h
  simp only at h
  split at h
  · contradiction
  rename_i hm
  obtain ⟨a1, rfl, l1⟩ := decIntN_ok_iff h1
  obtain ⟨a2, rfl, l2⟩ := decIntN_ok_iff h2
  obtain ⟨a3, e3, l3⟩ := decIntN_ok_iff h3
  obtain ⟨a4, rfl, l4⟩ := decIntN_ok_iff h4
  rw [decIntN_append 1 true a4 c2 l4] at h4
  injection h4 with h4; injection h4 with h4 _
  have hm2 : intVal 1 true a4 = 2 := by
    rw [h4]; exact Decidable.of_not_not hm
  match a4, l4, hm2 with
  | [x], _, hm2 =>
    have hx := intVal_one_eq_two hm2
    subst hx
    have hp := readUpTo_prefix bl r2
    rw [e3] at hp
    rw [hp]
    simp [List.getElem?_append_right, l1, l2, l3]

theorem batchBytes_struct {b : Spec.WireBatch} {bs : Bytes} (h : Spec.batchBytes b = some bs) :
    ∃ cov o len ple crc, Spec.coveredBytes b = some cov ∧ Spec.intBE 8 true b.baseOffset = some o ∧
      Spec.intBE 4 true ((cov.length : Int) + 9) = some len ∧
      Spec.intBE 4 true b.partitionLeaderEpoch = some ple ∧
      Spec.intBE 4 false (Crc.crc32c cov) = some crc ∧
      bs = o ++ len ++ ple ++ [2] ++ crc ++ cov := by
  unfold Spec.batchBytes at h
  obtain ⟨cov, h1, h⟩ := obind_some h
  obtain ⟨o, h2, h⟩ := obind_some h
  obtain ⟨len, h3, h⟩ := obind_some h
  obtain ⟨ple, h4, h⟩ := obind_some h
  obtain ⟨crc, h5, h⟩ := obind_some h
  simp only [pure] at h
  injection h with h
  exact ⟨cov, o, len, ple, crc, h1, h2, h3, h4, h5, h.symm⟩

theorem readBatch_hdr (cfg : RecCfg) (o len tail : Bytes) (ho : o.length = 8) (hl : len.length = 4) :
    readBatch cfg (o ++ len ++ tail) =
      readBody cfg (intVal 8 true o) (intVal 4 true len) (readUpTo (intVal 4 true len) tail).1
        (readUpTo (intVal 4 true len) tail).2 := by
  rw [readBatch_eq, List.append_assoc, decIntN_append 8 true o _ ho]
  simp only [bind, Except.bind]
  rw [decIntN_append 4 true len _ hl]

theorem intVal_magic : intVal 1 true [2] = 2 := by
  simp [intVal, beNat]

theorem readBody_hdr (cfg : RecCfg) (bo bl : Int) (ple crcb c rest : Bytes) (hp : ple.length = 4)
    (hc : crcb.length = 4) :
    readBody cfg bo bl (ple ++ [2] ++ crcb ++ c) rest =
      if intVal 4 false crcb ≠ (Crc.crc32c (readUpTo (bl - 9) c).1 : Int) then .error .valueError
      else readPost cfg bo bl (intVal 4 true ple) (intVal 4 false crcb) c rest := by
  unfold readBody
  rw [List.append_assoc, List.append_assoc, decIntN_append 4 true ple _ hp]
  simp only [bind, Except.bind]
  rw [decIntN_append 1 true [2] _ rfl]
  simp only [intVal_magic, ne_eq, not_true_eq_false, if_false]
  rw [decIntN_append 4 false crcb _ hc]

theorem readUpTo_append (a t : Bytes) (n : Int) (h : n = (a.length : Int)) :
    readUpTo n (a ++ t) = (a, t) := by
  subst h
  unfold readUpTo
  rw [if_neg (by omega)]
  simp

theorem readUpTo_all (c : Bytes) (n : Int) (h : (c.length : Int) ≤ n) : (readUpTo n c).1 = c := by
  unfold readUpTo
  split
  · rfl
  · simp only
    apply List.take_of_length_le
    omega

/-- a complete, correctly framed batch: everything hinges on the CRC comparison -/
theorem readBatch_framed (cfg : RecCfg) (o len ple crcb cov rest : Bytes) (ho : o.length = 8)
    (hl : len.length = 4) (hp : ple.length = 4) (hc : crcb.length = 4)
    (hbl : intVal 4 true len = (cov.length : Int) + 9) :
    readBatch cfg (o ++ len ++ ple ++ [2] ++ crcb ++ cov ++ rest) =
      if intVal 4 false crcb ≠ (Crc.crc32c cov : Int) then .error .valueError
      else readPost cfg (intVal 8 true o) ((cov.length : Int) + 9) (intVal 4 true ple)
        (intVal 4 false crcb) cov rest := by
  have e : o ++ len ++ ple ++ [2] ++ crcb ++ cov ++ rest
      = o ++ len ++ ((ple ++ [2] ++ crcb ++ cov) ++ rest) := by simp
  rw [e, readBatch_hdr cfg o len _ ho hl, hbl,
    readUpTo_append _ _ _ (by simp [hp, hc]; omega)]
  simp only
  rw [readBody_hdr cfg _ _ ple crcb cov rest hp hc, readUpTo_all _ _ (by omega)]

theorem beNat_inj {a b : Bytes} (hl : a.length = b.length) (h : beNat a = beNat b) : a = b := by
  rw [← natBE_beNat a, ← natBE_beNat b, hl, h]

theorem intVal_unsigned (w : Nat) (a : Bytes) : intVal w false a = (beNat a : Int) := by
  simp [intVal]

/-- corruption, sharpened: the failure is the `ValueError` of the CRC comparison -/
theorem readBatch_byte_corruption_valueError (cfg : RecCfg) (b : Spec.WireBatch) (bs : Bytes)
    (h : Spec.batchBytes b = some bs) (i : Nat) (h17 : 17 ≤ i) (hi : i < bs.length)
    (x : UInt8) (hx : x ≠ bs[i]) (rest : Bytes) :
    readBatch cfg (bs.set i x ++ rest) = .error .valueError := by
  have hx' : bs[i]? ≠ some x := by
    rw [List.getElem?_eq_getElem hi]; intro hh; injection hh with hh; exact hx hh.symm
  clear hx
  obtain ⟨cov, o, len, ple, crc, hcov, ho, hlen, hple, hcrc, rfl⟩ := batchBytes_struct h
  have lo := intBE_lengthR ho
  have ll := intBE_lengthR hlen
  have lp := intBE_lengthR hple
  have lc := intBE_lengthR hcrc
  have vlen := intBE_val hlen (by omega)
  have vcrc := intBE_val hcrc (by omega)
  rw [intVal_unsigned] at vcrc
  have e : o ++ len ++ ple ++ [2] ++ crc ++ cov = (o ++ len ++ ple ++ [2]) ++ (crc ++ cov) := by simp
  have lh : (o ++ len ++ ple ++ [2]).length = 17 := by simp [lo, ll, lp]
  rw [e] at hx' hi ⊢
  rw [List.getElem?_append_right (by omega), lh] at hx'
  rw [List.set_append, if_neg (by omega), lh, List.set_append]
  simp only [List.length_append, lh] at hi
  split
  · -- the stored CRC changes
    rename_i hj
    rw [List.getElem?_append_left hj] at hx'
    have e2 : o ++ len ++ ple ++ [2] ++ (crc.set (i - 17) x ++ cov) ++ rest
        = o ++ len ++ ple ++ [2] ++ crc.set (i - 17) x ++ cov ++ rest := by simp
    rw [e2, readBatch_framed cfg o len ple _ cov rest lo ll lp (by simp [lc]) vlen, if_pos]
    rw [intVal_unsigned, ← vcrc]
    intro hc
    have hc' : beNat (crc.set (i - 17) x) = beNat crc := by omega
    have := beNat_inj (by simp) hc'
    apply hx'
    rw [← this, List.getElem?_set]
    simp [hj]
  · -- the checksummed region changes
    rename_i hj
    rw [List.getElem?_append_right (by omega)] at hx'
    have hj' : i - 17 - crc.length < cov.length := by omega
    have e2 : o ++ len ++ ple ++ [2] ++ (crc ++ cov.set (i - 17 - crc.length) x) ++ rest
        = o ++ len ++ ple ++ [2] ++ crc ++ cov.set (i - 17 - crc.length) x ++ rest := by simp
    rw [e2, readBatch_framed cfg o len ple crc _ rest lo ll lp lc (by simpa using vlen), if_pos]
    rw [intVal_unsigned, vcrc]
    have hne : cov[i - 17 - crc.length] ≠ x := by
      intro hh; apply hx'; rw [List.getElem?_eq_getElem hj', hh]
    have hcov1 : cov = cov.take (i - 17 - crc.length)
        ++ cov[i - 17 - crc.length] :: cov.drop (i - 17 - crc.length + 1) := by
      rw [List.getElem_cons_drop, List.take_append_drop]
    have := Crc.crc32c_byte_change (cov.take (i - 17 - crc.length))
      (cov.drop (i - 17 - crc.length + 1)) _ _ hne
    rw [← hcov1] at this
    rw [List.set_eq_take_append_cons_drop, if_pos hj']
    omega

/-! ### signed varints, nullable bytes, headers -/

theorem svar_enc {bits : Nat} {v : Int} {x : Bytes} (h : Spec.svar bits v = some x) :
    -(2 ^ (bits - 1)) ≤ v ∧ v < 2 ^ (bits - 1) ∧ x = encVarint (zigzagEnc v) := by
  unfold Spec.svar at h
  split at h
  · rename_i hc
    injection h with h
    refine ⟨hc.1, hc.2, ?_⟩
    rw [encVarint_eq_spec, ← h]; rfl
  · contradiction

theorem svar32_dec {v : Int} {x : Bytes} (h : Spec.svar 32 v = some x) (rest : Bytes) :
    decSignedVarint (x ++ rest) = .ok (v, rest) := by
  obtain ⟨h1, h2, rfl⟩ := svar_enc h
  have hz := zigzag_range 31 v ⟨h1, h2⟩
  unfold decSignedVarint
  rw [varint_roundtrip 4 _ (Nat.lt_trans hz (by decide))]
  simp [bind, Except.bind, pure, Except.pure, zigzag_dec_enc]

theorem svar64_dec {v : Int} {x : Bytes} (h : Spec.svar 64 v = some x) (rest : Bytes) :
    decSignedVarlong (x ++ rest) = .ok (v, rest) := by
  obtain ⟨h1, h2, rfl⟩ := svar_enc h
  have hz := zigzag_range 63 v ⟨h1, h2⟩
  unfold decSignedVarlong
  rw [varint_roundtrip 9 _ (Nat.lt_trans hz (by decide))]
  simp [bind, Except.bind, pure, Except.pure, zigzag_dec_enc]

theorem readChunk_append (cfg : RecCfg) (a t : Bytes) (n : Int) (h : n = (a.length : Int)) :
    readChunk cfg n (a ++ t) = .ok (a, t) := by
  unfold readChunk
  split
  · exact readExact_append' a t h
  · rw [readUpTo_append a t n h]

theorem nbytes_dec (cfg : RecCfg) {o : Option Bytes} {x : Bytes} (h : Spec.nbytes o = some x)
    (rest : Bytes) : readSignedCompactBytes cfg (x ++ rest) = .ok (o, rest) := by
  unfold readSignedCompactBytes
  cases o with
  | none =>
    simp only [Spec.nbytes] at h
    rw [svar32_dec h]
    rfl
  | some b =>
    simp only [Spec.nbytes, Option.map_eq_some_iff] at h
    obtain ⟨l, hl, rfl⟩ := h
    rw [List.append_assoc, svar32_dec hl]
    simp only [bind, Except.bind]
    rw [if_neg (by omega), if_neg (by omega), readChunk_append cfg b rest _ rfl]
    rfl

theorem header_dec (cfg : RecCfg) {hd : Spec.WireHeader} {x : Bytes}
    (h : Spec.headerBytes hd = some x) (rest : Bytes) :
    readRecHeader cfg (x ++ rest) = .ok (hd.toRec, rest) := by
  unfold Spec.headerBytes at h
  obtain ⟨k, hk, h⟩ := obind_some h
  obtain ⟨v, hv, h⟩ := obind_some h
  simp only [pure] at h
  injection h with h; subst h
  unfold readRecHeader
  rw [List.append_assoc, nbytes_dec cfg hk]
  simp only [bind, Except.bind]
  rw [nbytes_dec cfg hv]
  rfl

theorem headers_dec (cfg : RecCfg) (hs : List Spec.WireHeader) {x : Bytes}
    (h : Spec.catOpt Spec.headerBytes hs = some x) (rest : Bytes) :
    decManyH cfg hs.length (x ++ rest) = .ok (hs.map Spec.WireHeader.toRec, rest) := by
  induction hs generalizing x with
  | nil =>
    simp only [Spec.catOpt] at h
    injection h with h; subst h
    rfl
  | cons hd hs ih =>
    simp only [Spec.catOpt] at h
    obtain ⟨a, ha, h⟩ := obind_some h
    obtain ⟨b, hb, h⟩ := obind_some h
    simp only [pure] at h
    injection h with h; subst h
    simp only [List.length_cons, decManyH, List.map_cons]
    rw [List.append_assoc, header_dec cfg ha]
    simp only [bind, Except.bind]
    rw [ih hb]
    rfl

theorem recordTimestamp_whole (hfs : FloatSec) (ts : Int) (h1 : ts % 1000 = 0) (h2 : 0 ≤ ts)
    (h3 : ts ≤ 253402300799000) : recordTimestamp ts = .ok (ts * 1000) := by
  have hS := hfs (ts / 1000) (by omega) (by omega)
  rw [show ts / 1000 * 1000 = ts by omega] at hS
  unfold recordTimestamp
  rw [hS]
  have hc : ¬ (ts / 1000 < minDatetimeSec ∨ maxDatetimeSec < ts / 1000) := by
    unfold minDatetimeSec maxDatetimeSec; omega
  simp only
  rw [if_neg hc, if_neg (by omega)]
  congr 1
  omega

/-- the pieces of a reference-encoded record -/
theorem recordBytes_struct {baseTs baseOff : Int} {r : Spec.WireRecord} {x : Bytes}
    (h : Spec.recordBytes baseTs baseOff r = some x) :
    ∃ a t o k v n hs l, Spec.intBE 1 true r.attributes = some a ∧
      Spec.svar 64 (r.timestampMs - baseTs) = some t ∧ Spec.svar 32 (r.offset - baseOff) = some o ∧
      Spec.nbytes r.key = some k ∧ Spec.nbytes r.value = some v ∧
      Spec.svar 32 r.headers.length = some n ∧ Spec.catOpt Spec.headerBytes r.headers = some hs ∧
      Spec.svar 32 ((a ++ t ++ o ++ k ++ v ++ n ++ hs).length) = some l ∧
      x = l ++ (a ++ t ++ o ++ k ++ v ++ n ++ hs) := by
  unfold Spec.recordBytes at h
  obtain ⟨a, ha, h⟩ := obind_some h
  obtain ⟨t, ht, h⟩ := obind_some h
  obtain ⟨o, ho, h⟩ := obind_some h
  obtain ⟨k, hk, h⟩ := obind_some h
  obtain ⟨v, hv, h⟩ := obind_some h
  obtain ⟨n, hn, h⟩ := obind_some h
  obtain ⟨hs, hhs, h⟩ := obind_some h
  obtain ⟨l, hl, h⟩ := obind_some h
  simp only [pure] at h
  injection h with h
  exact ⟨a, t, o, k, v, n, hs, l, ha, ht, ho, hk, hv, hn, hhs, hl, h.symm⟩

theorem record_dec (hfs : FloatSec) (cfg : RecCfg) (baseTs baseOff maxTs : Int)
    (r : Spec.WireRecord) (x : Bytes) (h : Spec.recordBytes baseTs baseOff r = some x)
    (hw : r.wholeSecond maxTs) (tail : Bytes) :
    readRecord cfg baseTs baseOff (x ++ tail) = .ok (r.toRec, tail) := by
  obtain ⟨a, t, o, k, v, n, hs, l, ha, ht, ho, hk, hv, hn, hhs, hl, rfl⟩ := recordBytes_struct h
  obtain ⟨hw1, hw2, hw3, hw4, hw5, hw6⟩ := hw
  unfold readRecord
  rw [List.append_assoc, svar32_dec hl]
  simp only [bind, Except.bind]
  rw [readChunk_append cfg _ tail _ rfl]
  simp only
  rw [show a ++ t ++ o ++ k ++ v ++ n ++ hs = a ++ (t ++ (o ++ (k ++ (v ++ (n ++ (hs ++ [])))))) by simp,
    intBE_dec ha (by omega)]
  simp only
  rw [svar64_dec ht]
  simp only
  rw [show baseTs + (r.timestampMs - baseTs) = r.timestampMs by omega,
    recordTimestamp_whole hfs _ hw1 hw2 hw3]
  simp only
  rw [svar32_dec ho]
  simp only
  rw [show baseOff + (r.offset - baseOff) = r.offset by omega, if_neg (by omega)]
  rw [nbytes_dec cfg hk]
  simp only
  rw [nbytes_dec cfg hv]
  simp only
  rw [svar32_dec hn]
  simp only [Int.toNat_natCast]
  rw [headers_dec cfg _ hhs]
  simp [pure, Except.pure, Spec.WireRecord.toRec]

theorem records_dec (hfs : FloatSec) (cfg : RecCfg) (baseTs baseOff maxTs : Int)
    (rs : List Spec.WireRecord) (x : Bytes)
    (h : Spec.catOpt (Spec.recordBytes baseTs baseOff) rs = some x)
    (hw : ∀ r ∈ rs, r.wholeSecond maxTs) (tail : Bytes) :
    decManyR cfg baseTs baseOff maxTs rs.length (x ++ tail)
      = .ok (rs.map Spec.WireRecord.toRec, tail) := by
  induction rs generalizing x with
  | nil =>
    simp only [Spec.catOpt] at h
    injection h with h; subst h
    rfl
  | cons r rs ih =>
    simp only [Spec.catOpt] at h
    obtain ⟨a, ha, h⟩ := obind_some h
    obtain ⟨b, hb, h⟩ := obind_some h
    simp only [pure] at h
    injection h with h; subst h
    have hwr := hw r (by simp)
    simp only [List.length_cons, decManyR, List.map_cons]
    rw [List.append_assoc, record_dec hfs cfg baseTs baseOff maxTs r a ha hwr]
    simp only [bind, Except.bind]
    obtain ⟨hw1, hw2, hw3, hw4, hw5, hw6⟩ := hwr
    rw [if_neg (by simp only [Spec.WireRecord.toRec]; omega),
      ih b hb (fun r' hr' => hw r' (by simp [hr']))]
    rfl

theorem coveredBytes_struct {b : Spec.WireBatch} {cov : Bytes} (h : Spec.coveredBytes b = some cov) :
    ∃ a l t0 t1 p e s n rs, Spec.intBE 2 true b.attributes = some a ∧
      Spec.intBE 4 true b.lastOffsetDelta = some l ∧ Spec.intBE 8 true b.baseTimestamp = some t0 ∧
      Spec.intBE 8 true b.maxTimestamp = some t1 ∧ Spec.intBE 8 true b.producerId = some p ∧
      Spec.intBE 2 true b.producerEpoch = some e ∧ Spec.intBE 4 true b.baseSequence = some s ∧
      Spec.intBE 4 true b.records.length = some n ∧
      Spec.catOpt (Spec.recordBytes b.baseTimestamp b.baseOffset) b.records = some rs ∧
      cov = a ++ (l ++ (t0 ++ (t1 ++ (p ++ (e ++ (s ++ (n ++ rs))))))) := by
  unfold Spec.coveredBytes at h
  obtain ⟨a, ha, h⟩ := obind_some h
  obtain ⟨l, hl, h⟩ := obind_some h
  obtain ⟨t0, ht0, h⟩ := obind_some h
  obtain ⟨t1, ht1, h⟩ := obind_some h
  obtain ⟨p, hp, h⟩ := obind_some h
  obtain ⟨e, he, h⟩ := obind_some h
  obtain ⟨s, hs, h⟩ := obind_some h
  obtain ⟨n, hn, h⟩ := obind_some h
  obtain ⟨rs, hrs, h⟩ := obind_some h
  simp only [pure] at h
  injection h with h
  exact ⟨a, l, t0, t1, p, e, s, n, rs, ha, hl, ht0, ht1, hp, he, hs, hn, hrs, by rw [← h]; simp⟩

/-- **C18 faithful read (partial: whole-second timestamps — known finding C18/I)** -/
theorem readBatch_spec_partial (hfs : FloatSec) (cfg : RecCfg) (b : Spec.WireBatch) (bs : Bytes)
    (h : Spec.batchBytes b = some bs) (hts : ∀ r ∈ b.records, r.wholeSecond b.maxTimestamp)
    (rest : Bytes) : readBatch cfg (bs ++ rest) = .ok (b.toRec bs, rest) := by
  obtain ⟨cov, o, len, ple, crc, hcov, ho, hlen, hple, hcrc, rfl⟩ := batchBytes_struct h
  have lo := intBE_lengthR ho
  have ll := intBE_lengthR hlen
  have lp := intBE_lengthR hple
  have lc := intBE_lengthR hcrc
  rw [readBatch_framed cfg o len ple crc cov rest lo ll lp lc (intBE_val hlen (by omega)),
    intBE_val hcrc (by omega), if_neg (by simp), intBE_val ho (by omega), intBE_val hple (by omega)]
  have hdrop : (o ++ len ++ ple ++ [2] ++ crc ++ cov).drop 21 = cov := by
    have e : o ++ len ++ ple ++ [2] ++ crc ++ cov = (o ++ len ++ ple ++ [2] ++ crc) ++ cov := by simp
    rw [e, List.drop_append_of_le_length (by simp [lo, ll, lp, lc])]
    rw [List.drop_of_length_le (by simp [lo, ll, lp, lc])]
    rfl
  have hlen' : (((o ++ len ++ ple ++ [2] ++ crc ++ cov).length : Nat) : Int) - 12
      = (cov.length : Int) + 9 := by
    simp [lo, ll, lp, lc]; omega
  unfold Spec.WireBatch.toRec
  rw [hdrop, hlen']
  obtain ⟨a, l, t0, t1, p, e, s, n, rs, ha, hl, ht0, ht1, hp, he, hs, hn, hrs, hc⟩ :=
    coveredBytes_struct hcov
  generalize (cov.length : Int) + 9 = bl
  generalize Crc.crc32c cov = cv
  subst hc
  unfold readPost
  rw [intBE_dec ha (by omega)]
  simp only [bind, Except.bind]
  rw [intBE_dec hl (by omega)]
  simp only
  rw [intBE_dec ht0 (by omega)]
  simp only
  rw [intBE_dec ht1 (by omega)]
  simp only
  rw [intBE_dec hp (by omega)]
  simp only
  rw [intBE_dec he (by omega)]
  simp only
  rw [intBE_dec hs (by omega)]
  simp only
  rw [intBE_dec hn (by omega)]
  simp only [Int.toNat_natCast]
  have := records_dec hfs cfg b.baseTimestamp b.baseOffset b.maxTimestamp b.records rs hrs hts []
  rw [List.append_nil] at this
  rw [this]
  rfl

/-! ### truncation: a read that succeeds on a prefix agrees with the read of the whole -/

theorem decIntN_step {w : Nat} {s : Bool} {c D a T : Bytes} {v : Int} {r : Bytes}
    (h : decIntN w s c = .ok (v, r)) (hfull : c ++ D = a ++ T) (ha : a.length = w) :
    v = intVal w s a ∧ r ++ D = T := by
  obtain ⟨a', rfl, la'⟩ := decIntN_ok_iff h
  rw [List.append_assoc] at hfull
  obtain ⟨rfl, h2⟩ := List.append_inj hfull (by omega)
  rw [decIntN_append w s a' r la'] at h
  injection h with h; injection h with h _
  exact ⟨h.symm, h2⟩

theorem decVarint_ext {k : Nat} {c : Bytes} {n : Nat} {r : Bytes} (D : Bytes)
    (h : decVarint k c = .ok (n, r)) : decVarint k (c ++ D) = .ok (n, r ++ D) := by
  induction k generalizing c n r with
  | zero => simp [decVarint] at h
  | succ k ih =>
    cases c with
    | nil => simp [decVarint] at h
    | cons b c =>
      simp only [decVarint, List.cons_append] at h ⊢
      split at h
      · rename_i hb
        rw [if_pos hb]
        injection h with h; injection h with h1 h2; subst h1 h2; rfl
      · rename_i hb
        rw [if_neg hb]
        split at h
        · rename_i hi r' heq
          rw [ih heq]
          injection h with h; injection h with h1 h2; subst h1 h2; rfl
        · contradiction

theorem svar32_step {c D x T : Bytes} {v0 v : Int} {r : Bytes}
    (h : decSignedVarint c = .ok (v, r)) (hfull : c ++ D = x ++ T)
    (hx : Spec.svar 32 v0 = some x) : v = v0 ∧ r ++ D = T := by
  unfold decSignedVarint at h
  obtain ⟨⟨n, r'⟩, h1, h2⟩ := bind_ok h
  simp only [pure, Except.pure] at h2
  injection h2 with h2; injection h2 with h2 h3; subst h2 h3
  have h4 := decVarint_ext D h1
  rw [hfull] at h4
  have h5 := svar32_dec hx T
  unfold decSignedVarint at h5
  rw [h4] at h5
  simp only [bind, Except.bind, pure, Except.pure] at h5
  injection h5 with h5; injection h5 with h5 h6
  exact ⟨h5, h6⟩

/-- the bytes `read_record` leaves behind are those after the length-prefixed chunk -/
theorem readRecord_rest {bt bo : Int} {c : Bytes} {rec : Record} {c' : Bytes}
    (h : readRecord RecCfg.repaired bt bo c = .ok (rec, c')) :
    ∃ len r bd, decSignedVarint c = .ok (len, r) ∧ readExact len r = .ok (bd, c') := by
  unfold readRecord at h
  obtain ⟨⟨len, r⟩, h1, h⟩ := bind_ok h
  obtain ⟨⟨bd, rest⟩, h2, h⟩ := bind_ok h
  refine ⟨len, r, bd, h1, ?_⟩
  have h2' : readExact len r = .ok (bd, rest) := h2
  rw [h2']
  obtain ⟨⟨attrs, b1⟩, _, h⟩ := bind_ok h
  obtain ⟨⟨tsd, b2⟩, _, h⟩ := bind_ok h
  obtain ⟨ts, _, h⟩ := bind_ok h
  obtain ⟨⟨od, b3⟩, _, h⟩ := bind_ok h
  simp only at h
  split at h
  · contradiction
  obtain ⟨⟨k, b4⟩, _, h⟩ := bind_ok h
  obtain ⟨⟨v, b5⟩, _, h⟩ := bind_ok h
  obtain ⟨⟨nh, b6⟩, _, h⟩ := bind_ok h
  obtain ⟨⟨hs, b7⟩, _, h⟩ := bind_ok h
  simp only at h
  split at h
  · contradiction
  simp only [pure, Except.pure] at h
  injection h with h; injection h with _ h
  rw [h]

theorem readRecord_step {bt bo bt' bo' : Int} {r0 : Spec.WireRecord} {x c D T : Bytes}
    {rec : Record} {c' : Bytes} (h : readRecord RecCfg.repaired bt bo c = .ok (rec, c'))
    (hx : Spec.recordBytes bt' bo' r0 = some x) (hfull : c ++ D = x ++ T) : c' ++ D = T := by
  obtain ⟨a, t, o, k, v, n, hs, l, -, -, -, -, -, -, -, hl, rfl⟩ := recordBytes_struct hx
  obtain ⟨len, r, bd, h1, h2⟩ := readRecord_rest h
  rw [List.append_assoc] at hfull
  obtain ⟨rfl, h3⟩ := svar32_step h1 hfull hl
  obtain ⟨rfl, h4⟩ := readExact_ok h2
  rw [List.append_assoc] at h3
  exact (List.append_inj h3 (by omega)).2

theorem decManyR_step {bt bo mt bt' bo' : Int} (rs : List Spec.WireRecord) {x c D T : Bytes}
    {out : List Record} {left : Bytes}
    (h : decManyR RecCfg.repaired bt bo mt rs.length c = .ok (out, left))
    (hx : Spec.catOpt (Spec.recordBytes bt' bo') rs = some x) (hfull : c ++ D = x ++ T) :
    left ++ D = T := by
  induction rs generalizing x c out with
  | nil =>
    simp only [Spec.catOpt] at hx
    injection hx with hx; subst hx
    simp only [List.length_nil, decManyR] at h
    injection h with h; injection h with _ h
    subst h
    simpa using hfull
  | cons r rs ih =>
    simp only [Spec.catOpt] at hx
    obtain ⟨a, ha, hx⟩ := obind_some hx
    obtain ⟨b, hb, hx⟩ := obind_some hx
    simp only [pure] at hx
    injection hx with hx; subst hx
    simp only [List.length_cons, decManyR] at h
    obtain ⟨⟨rec, c1⟩, h1, h⟩ := bind_ok h
    simp only at h
    split at h
    · contradiction
    obtain ⟨⟨out', left'⟩, h2, h⟩ := bind_ok h
    simp only [pure, Except.pure] at h
    injection h with h; injection h with _ h; subst h
    rw [List.append_assoc] at hfull
    exact ih h2 hb (readRecord_step h1 ha hfull)

theorem readUpTo_short (r : Bytes) (n : Int) (h : (r.length : Int) ≤ n) : readUpTo n r = (r, []) := by
  unfold readUpTo
  rw [if_neg (by omega), List.take_of_length_le (by omega), List.drop_of_length_le (by omega)]

theorem readBatch_truncation_not_ok (b : Spec.WireBatch) (bs : Bytes)
    (h : Spec.batchBytes b = some bs) (k : Nat) (hk : k < bs.length) (out : RecordBatch × Bytes) :
    readBatch RecCfg.repaired (bs.take k) ≠ .ok out := by
  intro hr
  have hD : 0 < (bs.drop k).length := by simp; omega
  have hfull : bs.take k ++ bs.drop k = bs := List.take_append_drop k bs
  generalize bs.take k = c0 at hr hfull
  generalize bs.drop k = D at hD hfull
  obtain ⟨cov, o, len, ple, crc, hcov, ho, hlen, hple, hcrc, rfl⟩ := batchBytes_struct h
  obtain ⟨a, l, t0, t1, p, e, s, n, rs, ha, hl, ht0, ht1, hp, he, hs, hn, hrs, rfl⟩ :=
    coveredBytes_struct hcov
  have lp := intBE_lengthR hple
  have lc := intBE_lengthR hcrc
  rw [readBatch_eq] at hr
  obtain ⟨⟨bo, r1⟩, h1, hr⟩ := bind_ok hr
  obtain ⟨⟨bl, r2⟩, h2, hr⟩ := bind_ok hr
  simp only at hr
  simp only [List.append_assoc] at hfull
  obtain ⟨rfl, f1⟩ := decIntN_step h1 hfull (intBE_lengthR ho)
  obtain ⟨rfl, f2⟩ := decIntN_step h2 f1 (intBE_lengthR hlen)
  rw [intBE_val hlen (by omega)] at hr
  rw [intBE_val ho (by omega)] at hr
  have hlen2 : (r2.length : Int) ≤
      ((a ++ (l ++ (t0 ++ (t1 ++ (p ++ (e ++ (s ++ (n ++ rs)))))))).length : Int) + 9 := by
    have := congrArg List.length f2
    simp only [List.length_append, List.length_cons, List.length_nil] at this ⊢
    omega
  rw [readUpTo_short r2 _ hlen2] at hr
  simp only at hr
  generalize ((a ++ (l ++ (t0 ++ (t1 ++ (p ++ (e ++ (s ++ (n ++ rs)))))))).length : Int) + 9 = bl at hr
  unfold readBody at hr
  obtain ⟨⟨pl, c1⟩, h3, hr⟩ := bind_ok hr
  obtain ⟨⟨mg, c2⟩, h4, hr⟩ := bind_ok hr
  simp only at hr
  split at hr
  · cases hr
  obtain ⟨⟨cr, c3⟩, h5, hr⟩ := bind_ok hr
  simp only at hr
  split at hr
  · cases hr
  obtain ⟨-, f3⟩ := decIntN_step h3 f2 lp
  obtain ⟨-, f4⟩ := decIntN_step (a := [2]) h4 f3 rfl
  obtain ⟨-, f5⟩ := decIntN_step h5 f4 lc
  unfold readPost at hr
  obtain ⟨⟨v1, d1⟩, g1, hr⟩ := bind_ok hr
  obtain ⟨⟨v2, d2⟩, g2, hr⟩ := bind_ok hr
  obtain ⟨⟨v3, d3⟩, g3, hr⟩ := bind_ok hr
  obtain ⟨⟨v4, d4⟩, g4, hr⟩ := bind_ok hr
  obtain ⟨⟨v5, d5⟩, g5, hr⟩ := bind_ok hr
  obtain ⟨⟨v6, d6⟩, g6, hr⟩ := bind_ok hr
  obtain ⟨⟨v7, d7⟩, g7, hr⟩ := bind_ok hr
  obtain ⟨⟨v8, d8⟩, g8, hr⟩ := bind_ok hr
  obtain ⟨⟨recs, left⟩, g9, hr⟩ := bind_ok hr
  obtain ⟨-, e1⟩ := decIntN_step g1 f5 (intBE_lengthR ha)
  obtain ⟨-, e2⟩ := decIntN_step g2 e1 (intBE_lengthR hl)
  obtain ⟨-, e3⟩ := decIntN_step g3 e2 (intBE_lengthR ht0)
  obtain ⟨-, e4⟩ := decIntN_step g4 e3 (intBE_lengthR ht1)
  obtain ⟨-, e5⟩ := decIntN_step g5 e4 (intBE_lengthR hp)
  obtain ⟨-, e6⟩ := decIntN_step g6 e5 (intBE_lengthR he)
  obtain ⟨-, e7⟩ := decIntN_step g7 e6 (intBE_lengthR hs)
  obtain ⟨rfl, e8⟩ := decIntN_step g8 e7 (intBE_lengthR hn)
  rw [intBE_val hn (by omega)] at g9
  simp only [Int.toNat_natCast] at g9
  have e9 := decManyR_step b.records (T := []) g9 hrs (by simpa using e8)
  have : D = [] := (List.append_eq_nil_iff.mp e9).2
  subst this
  simp at hD

/-- **corruption**: changing any single byte from the CRC field (offset 17) to the end of a
    reference-encoded batch makes `read_batch` fail -/
theorem readBatch_byte_corruption (cfg : RecCfg) (b : Spec.WireBatch) (bs : Bytes)
    (h : Spec.batchBytes b = some bs) (i : Nat) (h17 : 17 ≤ i) (hi : i < bs.length)
    (x : UInt8) (hx : x ≠ bs[i]) (rest : Bytes) :
    ∃ e, readBatch cfg (bs.set i x ++ rest) = .error e :=
  ⟨.valueError, readBatch_byte_corruption_valueError cfg b bs h i h17 hi x hx rest⟩

/-- **truncation**: every strict prefix of a reference-encoded batch makes `read_batch` fail
    (needs the exact inner reads of the repaired reader) -/
theorem readBatch_truncation (b : Spec.WireBatch) (bs : Bytes) (h : Spec.batchBytes b = some bs)
    (k : Nat) (hk : k < bs.length) : ∃ e, readBatch RecCfg.repaired (bs.take k) = .error e := by
  cases hres : readBatch RecCfg.repaired (bs.take k) with
  | error e => exact ⟨e, rfl⟩
  | ok out => exact absurd hres (readBatch_truncation_not_ok b bs h k hk out)

end Kio
