import Kio.Proofs.Prim
import Kio.Proofs.Crc
import Kio.Proofs.RecWrite
import Kio.Model.Records
import Kio.Spec.Batch
/-! The record-batch reader model: faithful on reference encodings, rejects damaged data (C18). -/
namespace Kio

/-- CPython float facts the reader depends on: `fromtimestamp(1000·S / 1000)` is exactly `S` s -/
def FloatSec : Prop := ∀ S : Int, 0 ≤ S → S ≤ 253402300799 → secMicrosOfMsFloat (S * 1000) = (S, 0)

def Spec.WireHeader.toRec (h : Spec.WireHeader) : RecHeader := { key := h.key, value := h.value }
def Spec.WireRecord.toRec (r : Spec.WireRecord) : Record :=
  { attributes := r.attributes, timestampUs := r.timestampMs * 1000, offset := r.offset,
    key := r.key, value := r.value, headers := r.headers.map Spec.WireHeader.toRec }

/-- the `RecordBatch` a faithful reader returns for the encoding `bs` of `b` -/
def Spec.WireBatch.toRec (b : Spec.WireBatch) (bs : Bytes) : RecordBatch :=
  { baseOffset := b.baseOffset, batchLength := (bs.length : Int) - 12,
    partitionLeaderEpoch := b.partitionLeaderEpoch, crc := Crc.crc32c (bs.drop 21),
    attributes := b.attributes, lastOffsetDelta := b.lastOffsetDelta,
    baseTimestamp := b.baseTimestamp, maxTimestamp := b.maxTimestamp, producerId := b.producerId,
    producerEpoch := b.producerEpoch, baseSequence := b.baseSequence,
    records := b.records.map Spec.WireRecord.toRec }

/-- whole-second record timestamps not after the batch's max timestamp, offsets within `i64` -/
def Spec.WireRecord.wholeSecond (maxTs : Int) (r : Spec.WireRecord) : Prop :=
  r.timestampMs % 1000 = 0 ∧ 0 ≤ r.timestampMs ∧ r.timestampMs ≤ 253402300799000 ∧ r.timestampMs ≤ maxTs
    ∧ -(2 ^ 63) ≤ r.offset ∧ r.offset < 2 ^ 63

/-- **C18 faithful read (partial: whole-second timestamps — known finding C18/I)** -/
theorem readBatch_spec_partial (hfs : FloatSec) (cfg : RecCfg) (b : Spec.WireBatch) (bs : Bytes)
    (h : Spec.batchBytes b = some bs) (hts : ∀ r ∈ b.records, r.wholeSecond b.maxTimestamp)
    (rest : Bytes) : readBatch cfg (bs ++ rest) = .ok (b.toRec bs, rest) := by
  sorry

/-- a batch is only ever returned when the magic byte is 2 -/
theorem readBatch_magic (cfg : RecCfg) (bs : Bytes) (b : RecordBatch) (rest : Bytes)
    (h : readBatch cfg bs = .ok (b, rest)) : bs[16]? = some 2 := by
  sorry

/-- **corruption**: changing any single byte from the CRC field (offset 17) to the end of a
    reference-encoded batch makes `read_batch` fail -/
theorem readBatch_byte_corruption (cfg : RecCfg) (b : Spec.WireBatch) (bs : Bytes)
    (h : Spec.batchBytes b = some bs) (i : Nat) (h17 : 17 ≤ i) (hi : i < bs.length)
    (x : UInt8) (hx : x ≠ bs[i]) (rest : Bytes) :
    ∃ e, readBatch cfg (bs.set i x ++ rest) = .error e := by
  sorry

/-- **truncation**: every strict prefix of a reference-encoded batch makes `read_batch` fail
    (needs the exact inner reads of the repaired reader) -/
theorem readBatch_truncation (b : Spec.WireBatch) (bs : Bytes) (h : Spec.batchBytes b = some bs)
    (k : Nat) (hk : k < bs.length) : ∃ e, readBatch RecCfg.repaired (bs.take k) = .error e := by
  sorry

end Kio
