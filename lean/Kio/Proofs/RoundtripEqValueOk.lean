import Kio.Proofs.RoundtripEqCanon
/-!
`Schema.valueOk` versus `Schema.typedOk` / `Schema.rtOk` / `Schema.canon`:
* `valueOk → typedOk`, `valueOk → rtOk`, and `canon` fixes `valueOk` values;
* when every tagged default is itself canonical (`Schema.dfltsOk`), `canon v` is `valueOk`.
-/
namespace Kio

/-! ### (e) `valueOk → typedOk` -/

def rq_SchemaVT (env : Env) (s : Schema) : Prop :=
  ∀ v, s.valueOk env v = true → s.typedOk env v = true
def rq_FieldVT (env : Env) (f : Field) : Prop :=
  ∀ rh v, Field.valueOk env rh f v = true → Field.typedOk env rh f v = true
def rq_ShapeVT (env : Env) (sh : Shape) : Prop :=
  ∀ m v, Shape.valueOk env m sh v = true → Shape.typedOk env m sh v = true

theorem rq_shape_prim_vt (env : Env) (l : PyLeaf) (o : Bool) : rq_ShapeVT env (.prim l o) := by
  intro m v h
  simp only [Shape.valueOk] at h
  simp only [Shape.typedOk]
  exact h

theorem rq_shape_primArr_vt (env : Env) (l : PyLeaf) (e a : Bool) :
    rq_ShapeVT env (.primArr l e a) := by
  intro m v h
  simp only [Shape.valueOk] at h
  simp only [Shape.typedOk]
  exact h

theorem rq_shape_ent_vt (env : Env) (s : Schema) (o : Bool) (ih : rq_SchemaVT env s) :
    rq_ShapeVT env (.ent s o) := by
  intro m v h
  by_cases hv : v = .none
  · subst hv
    rw [Shape.valueOk.eq_3] at h
    rw [Shape.typedOk.eq_3]
    exact h
  · rw [Shape.valueOk.eq_4 _ _ _ _ _ hv] at h
    rw [Shape.typedOk.eq_4 _ _ _ _ _ hv]
    exact ih v h

theorem Values.rq_allOk_allTyped {env : Env} {s : Schema} (ih : rq_SchemaVT env s) (vs : List Value)
    (h : Values.allOk env s vs = true) : Values.allTyped env s vs = true := by
  induction vs with
  | nil => simp [Values.allTyped]
  | cons v vs ihv =>
    simp only [Values.allOk, Bool.and_eq_true] at h
    rw [Values.allTyped, Bool.and_eq_true]
    exact ⟨ih v h.1, ihv h.2⟩

theorem rq_shape_entArr_vt (env : Env) (s : Schema) (a : Bool) (ih : rq_SchemaVT env s) :
    rq_ShapeVT env (.entArr s a) := by
  intro m v h
  rw [Shape.valueOk.eq_def] at h
  rw [Shape.typedOk.eq_def]
  cases v with
  | tuple vs => exact Values.rq_allOk_allTyped ih vs h
  | none => exact h
  | _ => simp at h

theorem rq_field_vt (env : Env) (m : FieldMeta) (sh : Shape) (ih : rq_ShapeVT env sh) :
    rq_FieldVT env (.mk m sh) := by
  intro rh v h
  rw [Field.valueOk.eq_1, Bool.and_eq_true] at h
  have h1 := h.1
  rw [Field.typedOk.eq_1]
  cases hc : (rh && m.isClientId) <;> rw [hc] at h1 <;>
    simp only [Bool.false_eq_true, if_false, if_true] at h1 ⊢
  · exact ih m v h1
  · exact h1

theorem Fields.rq_valueOk_typedOk {env : Env} {rh : Bool} {fs : List Field}
    (ih : ∀ f ∈ fs, rq_FieldVT env f) (vs : List Value) (h : Fields.valueOk env rh fs vs = true) :
    Fields.typedOk env rh fs vs = true := by
  induction fs generalizing vs with
  | nil =>
    cases vs with
    | nil => simp [Fields.typedOk]
    | cons v vs => simp [Fields.valueOk] at h
  | cons f fs ihf =>
    cases vs with
    | nil => simp [Fields.valueOk] at h
    | cons v vs =>
      simp only [Fields.valueOk, Bool.and_eq_true] at h
      rw [Fields.typedOk, Bool.and_eq_true]
      exact ⟨ih f (by simp) rh v h.1, ihf (fun g hg => ih g (by simp [hg])) vs h.2⟩

theorem rq_schema_vt (env : Env) (n : Nat) (flex rh : Bool) (fs : List Field)
    (ih : ∀ f ∈ fs, rq_FieldVT env f) : rq_SchemaVT env (.mk n flex rh fs) := by
  intro v h
  obtain ⟨vs, rfl⟩ := Schema.valueOk_entity h
  rw [Schema.valueOk.eq_1] at h
  rw [Schema.typedOk.eq_1]
  exact Fields.rq_valueOk_typedOk ih vs h

theorem Schema.rq_valueOk_typedOk (env : Env) : ∀ s, rq_SchemaVT env s :=
  Schema.induct3 (PS := rq_SchemaVT env) (PF := rq_FieldVT env) (PSh := rq_ShapeVT env)
    (rq_schema_vt env) (rq_field_vt env) (rq_shape_prim_vt env) (rq_shape_primArr_vt env)
    (rq_shape_ent_vt env) (rq_shape_entArr_vt env)
    (by intro m v h; simp [Shape.valueOk] at h)

/-! ### (e) `canon` fixes canonical values -/

def rq_SchemaFix (env : Env) (s : Schema) : Prop :=
  ∀ v, s.valueOk env v = true → s.canon env v = v
def rq_FieldFix (env : Env) (f : Field) : Prop :=
  ∀ rh v, Field.valueOk env rh f v = true → Field.canon env rh f v = v
def rq_ShapeFix (env : Env) (sh : Shape) : Prop :=
  ∀ m v, Shape.valueOk env m sh v = true → Shape.canon env sh v = v

theorem rq_shape_ent_fix (env : Env) (s : Schema) (o : Bool) (ih : rq_SchemaFix env s) :
    rq_ShapeFix env (.ent s o) := by
  intro m v h
  simp only [Shape.canon]
  by_cases hv : v = .none
  · subst hv
    exact Schema.rq_canon_none env s
  · rw [Shape.valueOk.eq_4 _ _ _ _ _ hv] at h
    exact ih v h

theorem Values.rq_canon_fix {env : Env} {s : Schema} (ih : rq_SchemaFix env s) (vs : List Value)
    (h : Values.allOk env s vs = true) : Values.canon env s vs = vs := by
  induction vs with
  | nil => simp [Values.canon]
  | cons v vs ihv =>
    simp only [Values.allOk, Bool.and_eq_true] at h
    rw [Values.canon, ih v h.1, ihv h.2]

theorem rq_shape_entArr_fix (env : Env) (s : Schema) (a : Bool) (ih : rq_SchemaFix env s) :
    rq_ShapeFix env (.entArr s a) := by
  intro m v h
  rw [Shape.valueOk.eq_def] at h
  cases v with
  | tuple vs =>
    simp only at h
    simp only [Shape.canon, Values.rq_canon_fix ih vs h]
  | none => simp only [Shape.canon]
  | _ => simp at h

theorem rq_field_fix (env : Env) (m : FieldMeta) (sh : Shape) (ih : rq_ShapeFix env sh) :
    rq_FieldFix env (.mk m sh) := by
  intro rh v h
  have hdef : ∀ t, (Field.mk m sh).tagNat = some t →
      v.pyEq (Field.dflt env (.mk m sh)) = true → v = Field.dflt env (.mk m sh) :=
    fun t ht hpe => Field.valueOk_default h ht hpe
  rw [Field.valueOk.eq_1, Bool.and_eq_true] at h
  have h1 := h.1
  have hw : Field.ncanon env rh (.mk m sh) v = v := by
    simp only [Field.ncanon]
    cases hc : (rh && m.isClientId) <;> rw [hc] at h1 <;>
      simp only [Bool.false_eq_true, if_false, if_true] at h1 ⊢
    exact ih m v h1
  rw [Field.rq_canon_eq, hw]
  split
  · rename_i htg
    split
    · rename_i hpe
      rw [Field.isTagged_eq] at htg
      obtain ⟨t, ht⟩ := Option.isSome_iff_exists.mp htg
      exact (hdef t ht hpe).symm
    · rfl
  · rfl

theorem Fields.rq_canon_fix {env : Env} {rh : Bool} {fs : List Field}
    (ih : ∀ f ∈ fs, rq_FieldFix env f) (vs : List Value) (h : Fields.valueOk env rh fs vs = true) :
    Fields.canon env rh fs vs = vs := by
  induction fs generalizing vs with
  | nil =>
    cases vs with
    | nil => simp [Fields.canon]
    | cons v vs => simp [Fields.valueOk] at h
  | cons f fs ihf =>
    cases vs with
    | nil => simp [Fields.valueOk] at h
    | cons v vs =>
      simp only [Fields.valueOk, Bool.and_eq_true] at h
      rw [Fields.canon, ih f (by simp) rh v h.1, ihf (fun g hg => ih g (by simp [hg])) vs h.2]

theorem rq_schema_fix (env : Env) (n : Nat) (flex rh : Bool) (fs : List Field)
    (ih : ∀ f ∈ fs, rq_FieldFix env f) : rq_SchemaFix env (.mk n flex rh fs) := by
  intro v h
  obtain ⟨vs, rfl⟩ := Schema.valueOk_entity h
  rw [Schema.valueOk.eq_1] at h
  rw [Schema.canon.eq_1, Fields.rq_canon_fix ih vs h]

theorem Schema.rq_canon_fix (env : Env) : ∀ s, rq_SchemaFix env s :=
  Schema.induct3 (PS := rq_SchemaFix env) (PF := rq_FieldFix env) (PSh := rq_ShapeFix env)
    (rq_schema_fix env) (rq_field_fix env)
    (by intro l o m v _; simp only [Shape.canon])
    (by intro l e a m v _; simp only [Shape.canon])
    (rq_shape_ent_fix env) (rq_shape_entArr_fix env)
    (by intro m v h; simp [Shape.valueOk] at h)

/-! ### (a) with well-typed defaults: `canon v` is canonical -/

theorem Schema.rq_typedOk_uuid (env : Env) (s : Schema) (z : Bytes) :
    s.typedOk env (.uuid z) = false := by
  cases s with
  | mk n flex rh fs => simp [Schema.typedOk]

/-- the zero UUID is not a well-typed value of any field (the canonical "no UUID" is `None`) -/
theorem Shape.rq_typedOk_uuidZero (env : Env) (m : FieldMeta) (sh : Shape) :
    Shape.typedOk env m sh (.uuid uuidZero) = false := by
  cases sh with
  | prim l o =>
    simp only [Shape.typedOk]
    split <;> simp [primValueOk]
  | primArr l e a =>
    simp only [Shape.typedOk]
    split <;> simp
  | ent s o =>
    rw [Shape.typedOk.eq_4 _ _ _ _ _ (by intro h; cases h)]
    exact Schema.rq_typedOk_uuid env s _
  | entArr s a => rw [Shape.typedOk.eq_def]
  | bad => simp [Shape.typedOk]

def rq_SchemaVo (env : Env) (s : Schema) : Prop :=
  ∀ v, s.dfltsOk env = true → s.typedOk env v = true → s.valueOk env (s.canon env v) = true
def rq_FieldVo (env : Env) (f : Field) : Prop :=
  ∀ rh v, Field.dfltsOk env rh f = true → Field.typedOk env rh f v = true →
    Field.valueOk env rh f (Field.canon env rh f v) = true
def rq_ShapeVo (env : Env) (sh : Shape) : Prop :=
  ∀ m v, Shape.dfltsOk env sh = true → Shape.typedOk env m sh v = true →
    Shape.valueOk env m sh (Shape.canon env sh v) = true

theorem rq_shape_prim_vo (env : Env) (l : PyLeaf) (o : Bool) : rq_ShapeVo env (.prim l o) := by
  intro m v _ ht
  simp only [Shape.typedOk] at ht
  simp only [Shape.canon, Shape.valueOk]
  exact ht

theorem rq_shape_primArr_vo (env : Env) (l : PyLeaf) (e a : Bool) :
    rq_ShapeVo env (.primArr l e a) := by
  intro m v _ ht
  simp only [Shape.typedOk] at ht
  simp only [Shape.canon, Shape.valueOk]
  exact ht

theorem rq_shape_ent_vo (env : Env) (s : Schema) (o : Bool) (ih : rq_SchemaVo env s) :
    rq_ShapeVo env (.ent s o) := by
  intro m v hd ht
  rw [Shape.dfltsOk.eq_1] at hd
  simp only [Shape.canon]
  by_cases hv : v = .none
  · subst hv
    rw [Schema.rq_canon_none, Shape.valueOk.eq_3]
    rw [Shape.typedOk.eq_3] at ht
    exact ht
  · rw [Shape.typedOk.eq_4 _ _ _ _ _ hv] at ht
    obtain ⟨xs, hxs⟩ := Schema.rq_canon_entity ht
    have := ih v hd ht
    rw [hxs] at this ⊢
    rw [Shape.valueOk.eq_4 _ _ _ _ _ (by intro h; cases h)]
    exact this

theorem Values.rq_canon_vo {env : Env} {s : Schema} (ih : rq_SchemaVo env s)
    (hd : s.dfltsOk env = true) (vs : List Value)
    (h : Values.allTyped env s vs = true) : Values.allOk env s (Values.canon env s vs) = true := by
  induction vs with
  | nil => simp [Values.canon, Values.allOk]
  | cons v vs ihv =>
    simp only [Values.allTyped, Bool.and_eq_true] at h
    rw [Values.canon, Values.allOk, Bool.and_eq_true]
    exact ⟨ih v hd h.1, ihv h.2⟩

theorem rq_shape_entArr_vo (env : Env) (s : Schema) (a : Bool) (ih : rq_SchemaVo env s) :
    rq_ShapeVo env (.entArr s a) := by
  intro m v hd ht
  rw [Shape.dfltsOk.eq_2] at hd
  rw [Shape.typedOk.eq_def] at ht
  cases v with
  | tuple vs =>
    simp only at ht
    simp only [Shape.canon]
    rw [Shape.valueOk.eq_def]
    exact Values.rq_canon_vo ih hd vs ht
  | none =>
    simp only at ht
    simp only [Shape.canon]
    rw [Shape.valueOk.eq_def]
    exact ht
  | _ => simp at ht

theorem rq_field_vo (env : Env) (m : FieldMeta) (sh : Shape) (ih : rq_ShapeVo env sh) :
    rq_FieldVo env (.mk m sh) := by
  intro rh v hd ht
  have hpy := (Field.rq_canon_py env (.mk m sh) rh v ht).1
  rw [Field.typedOk.eq_1] at ht
  rw [Field.dfltsOk.eq_1, Bool.and_eq_true] at hd
  obtain ⟨hdsh, hdd⟩ := hd
  have hw : (if (rh && m.isClientId) = true then
        primValueOk env .string true (Field.ncanon env rh (.mk m sh) v)
      else Shape.valueOk env m sh (Field.ncanon env rh (.mk m sh) v)) = true := by
    simp only [Field.ncanon]
    cases hc : (rh && m.isClientId) <;> rw [hc] at ht <;>
      simp only [Bool.false_eq_true, if_false, if_true] at ht ⊢
    · exact ih m v hdsh ht
    · exact ht
  rw [Field.rq_canon_eq, Field.rq_isTagged_mk, Field.valueOk.eq_1, Bool.and_eq_true]
  cases hm : m.tag with
  | none =>
    simp only [Option.isSome_none, Bool.false_eq_true, if_false]
    exact ⟨hw, trivial⟩
  | some i =>
    rw [hm] at hdd
    simp only [Option.isSome_some, if_true]
    cases hpd : (Field.ncanon env rh (.mk m sh) v).pyEq (Field.dflt env (.mk m sh))
    · simp only [Bool.false_eq_true, if_false]
      refine ⟨hw, ?_⟩
      simp only [Field.dflt] at hpd
      simp only [hpd, Bool.not_false, Bool.true_or]
    · simp only [if_true]
      simp only [Bool.or_eq_true] at hdd
      rcases hdd with hz | hin
      · exfalso
        have hz' : Field.dflt env (.mk m sh) = .uuid uuidZero := Value.beq_sound _ _ hz
        have hvd := Value.rq_pyEq_trans' (Value.rq_pyEq_symm' hpy) hpd
        rw [hz'] at hvd
        have hv := Value.rq_pyEq_uuid hvd
        subst hv
        cases hc : (rh && m.isClientId) <;> rw [hc] at ht <;>
          simp only [Bool.false_eq_true, if_false, if_true] at ht
        · rw [Shape.rq_typedOk_uuidZero] at ht; cases ht
        · simp [primValueOk] at ht
      · refine ⟨hin, ?_⟩
        simp only [Field.dflt, Value.rq_beq_refl, Bool.or_true]

theorem Fields.rq_canon_vo {env : Env} {rh : Bool} {fs : List Field}
    (ih : ∀ f ∈ fs, rq_FieldVo env f) (hd : Fields.dfltsOk env rh fs = true) (vs : List Value)
    (h : Fields.typedOk env rh fs vs = true) :
    Fields.valueOk env rh fs (Fields.canon env rh fs vs) = true := by
  induction fs generalizing vs with
  | nil =>
    cases vs with
    | nil => simp [Fields.canon, Fields.valueOk]
    | cons v vs => simp [Fields.typedOk] at h
  | cons f fs ihf =>
    cases vs with
    | nil => simp [Fields.typedOk] at h
    | cons v vs =>
      simp only [Fields.typedOk, Bool.and_eq_true] at h
      simp only [Fields.dfltsOk, Bool.and_eq_true] at hd
      rw [Fields.canon, Fields.valueOk, Bool.and_eq_true]
      exact ⟨ih f (by simp) rh v hd.1 h.1, ihf (fun g hg => ih g (by simp [hg])) hd.2 vs h.2⟩

theorem rq_schema_vo (env : Env) (n : Nat) (flex rh : Bool) (fs : List Field)
    (ih : ∀ f ∈ fs, rq_FieldVo env f) : rq_SchemaVo env (.mk n flex rh fs) := by
  intro v hd ht
  obtain ⟨vs, rfl⟩ := Schema.rq_typedOk_entity ht
  rw [Schema.typedOk.eq_1] at ht
  rw [Schema.dfltsOk.eq_1] at hd
  rw [Schema.canon.eq_1, Schema.valueOk.eq_1]
  exact Fields.rq_canon_vo ih hd vs ht

theorem Schema.rq_canon_vo (env : Env) : ∀ s, rq_SchemaVo env s :=
  Schema.induct3 (PS := rq_SchemaVo env) (PF := rq_FieldVo env) (PSh := rq_ShapeVo env)
    (rq_schema_vo env) (rq_field_vo env) (rq_shape_prim_vo env) (rq_shape_primArr_vo env)
    (rq_shape_ent_vo env) (rq_shape_entArr_vo env)
    (by intro m v _ ht; simp [Shape.typedOk] at ht)

end Kio
