import Kio.Proofs.CodecTagged
/-! Round trip per shape, per field, per schema. -/
namespace Kio

/-! ### shapes -/

theorem primValueOk_mono (env : Env) (k : KType) (o : Bool) (v : Value)
    (h : primValueOk env k o v = true) : primValueOk env k true v = true := by
  cases v <;> first | exact h | (cases o <;> simp_all [primValueOk])

theorem allOk_mem' {α} {p : α → Bool} {l : List α} (h : allOk p l = true) {x : α} (hx : x ∈ l) :
    p x = true := by
  induction l with
  | nil => cases hx
  | cons a as ih =>
    simp only [allOk, Bool.and_eq_true] at h
    rcases List.mem_cons.mp hx with rfl | hx
    · exact h.1
    · exact ih h.2 hx

theorem ok_of_isSome {α} {x : Except Err α} (h : x.toOption.isSome = true) : ∃ a, x = .ok a := by
  cases x with
  | error e => simp [Except.toOption] at h
  | ok a => exact ⟨a, rfl⟩

/-- the statement proved for every schema -/
def SchemaRT (env : Env) (s : Schema) : Prop :=
  ∀ v bs, s.wf env = true → s.valueOk env v = true → s.write env v = .ok bs →
    ∀ rest, s.read env (bs ++ rest) = .ok (v, rest)

def ShapeRT (env : Env) (sh : Shape) : Prop :=
  ∀ flex tagged m v bs, tagged = m.tag.isSome → Shape.wf env flex m sh = true →
    Shape.valueOk env m sh v = true → Shape.write env flex tagged m sh v = .ok bs →
    ∀ rest, Shape.read env flex tagged m sh (bs ++ rest) = .ok (v, rest)

def FieldRT (env : Env) (f : Field) : Prop :=
  ∀ flex rh tagged v bs, tagged = f.isTagged → Field.wf env flex rh f = true →
    Field.valueOk env rh f v = true → Field.write env flex rh tagged f v = .ok bs →
    ∀ rest, Field.read env flex rh tagged f (bs ++ rest) = .ok (v, rest)

theorem shape_prim_rt (env : Env) (ht : env.time = TimeCfg.repaired) (hfl : FloatExact)
    (l : PyLeaf) (o : Bool) : ShapeRT env (.prim l o) := by
  intro flex tagged m v bs htag hwf hvo he rest
  simp only [Shape.wf] at hwf
  simp only [Shape.valueOk] at hvo
  split at hwf
  · rename_i k hk
    rw [hk] at hvo
    simp only at hvo
    simp only [Bool.and_eq_true] at hwf
    obtain ⟨⟨⟨⟨hl, _⟩, _⟩, hr⟩, hw⟩ := hwf
    have hsft := schemaFieldType_ok m k l hk hl
    obtain ⟨r, hr⟩ := ok_of_isSome hr
    obtain ⟨w, hw⟩ := ok_of_isSome hw
    rw [← htag] at hr hw
    simp only [Shape.write, primFieldWriter, hsft, hw] at he
    simp only [Shape.read, primFieldReaderT, hsft, hr]
    exact prim_roundtrip' env ht hfl k flex (!tagged && o) (readerOptional env k flex o tagged)
      (Or.inl (by unfold readerOptional; cases tagged <;> cases o <;> simp)) w r hw hr v
      (primValueOk_mono env k o v hvo) bs he rest
  · cases hwf

theorem shape_primArr_rt (env : Env) (ht : env.time = TimeCfg.repaired) (hfl : FloatExact)
    (l : PyLeaf) (e a : Bool) : ShapeRT env (.primArr l e a) := by
  intro flex tagged m v bs htag hwf hvo he rest
  simp only [Shape.wf] at hwf
  simp only [Shape.valueOk] at hvo
  split at hwf
  · rename_i k hk
    rw [hk] at hvo
    simp only at hvo
    simp only [Bool.and_eq_true] at hwf
    obtain ⟨⟨⟨⟨⟨⟨hl, ha⟩, _⟩, _⟩, hte⟩, hr⟩, hw⟩ := hwf
    have hsft := schemaFieldType_ok m k l hk hl
    obtain ⟨r, hr⟩ := ok_of_isSome hr
    obtain ⟨w, hw⟩ := ok_of_isSome hw
    rw [← htag] at hw hte
    simp only [Shape.write, primFieldWriter, hsft, hw] at he
    simp only [Shape.read, primFieldReader, hsft, hr]
    have hopt : ((!tagged && (e || a)) = true → (e || a) = true) ∨ k = .uuid := by
      left; intro h; simp only [Bool.and_eq_true] at h; exact h.2
    cases v with
    | tuple vs =>
      simp only at hvo
      refine array_rt flex _ _ vs ?_ bs he rest
      intro x hx xs hxs rest'
      exact prim_roundtrip' env ht hfl k flex _ _ hopt w r hw hr x
        (primValueOk_mono env k e x (allOk_mem' hvo hx)) xs hxs rest'
    | none => exact array_none_rt flex _ _ bs he rest
    | _ => simp at hvo
  · cases hwf

theorem Schema.valueOk_entity {env : Env} {s : Schema} {v : Value} (h : s.valueOk env v = true) :
    ∃ vs, v = .entity vs := by
  cases s with
  | mk n flex rh fs =>
    cases v with
    | entity vs => exact ⟨vs, rfl⟩
    | _ => simp [Schema.valueOk] at h

theorem shape_ent_rt (env : Env) (s : Schema) (o : Bool) (ih : SchemaRT env s) :
    ShapeRT env (.ent s o) := by
  intro flex tagged m v bs htag hwf hvo he rest
  simp only [Shape.wf, Bool.and_eq_true] at hwf
  obtain ⟨⟨_, hto⟩, hs⟩ := hwf
  rw [← htag] at hto
  have hflag : (!tagged && o) = o := by cases tagged <;> cases o <;> simp_all
  simp only [Shape.write, hflag] at he
  simp only [Shape.read]
  by_cases hv : v = .none
  · subst hv
    rw [Shape.valueOk.eq_3] at hvo
    subst hvo
    simp only [if_true] at he ⊢
    exact nullable_none_rt _ _ bs he rest
  · have hvo' : Schema.valueOk env s v = true := by
      rw [Shape.valueOk.eq_4 _ _ _ _ _ hv] at hvo
      exact hvo
    cases o
    · simp only [Bool.false_eq_true, if_false] at he ⊢
      exact ih v bs hs hvo' he rest
    · simp only [if_true] at he ⊢
      exact nullable_rt _ _ v hv (fun bs' he' rest' => ih v bs' hs hvo' he' rest') bs he rest

theorem Values.allOk_mem {env : Env} {s : Schema} {vs : List Value} (h : Values.allOk env s vs = true)
    {x : Value} (hx : x ∈ vs) : s.valueOk env x = true := by
  induction vs with
  | nil => cases hx
  | cons a as ih =>
    simp only [Values.allOk, Bool.and_eq_true] at h
    rcases List.mem_cons.mp hx with rfl | hx
    · exact h.1
    · exact ih h.2 hx

theorem shape_entArr_rt (env : Env) (s : Schema) (a : Bool) (ih : SchemaRT env s) :
    ShapeRT env (.entArr s a) := by
  intro flex tagged m v bs htag hwf hvo he rest
  simp only [Shape.wf, Bool.and_eq_true] at hwf
  obtain ⟨⟨_, hs⟩, _⟩ := hwf
  simp only [Shape.write] at he
  simp only [Shape.read]
  rw [Shape.valueOk.eq_def] at hvo
  cases v with
  | tuple vs =>
    simp only at hvo
    refine array_rt flex _ _ vs ?_ bs he rest
    intro x hx xs hxs rest'
    exact ih x xs hs (Values.allOk_mem hvo hx) hxs rest'
  | none => exact array_none_rt flex _ _ bs he rest
  | _ => simp at hvo


/-! ### fields and the tagged section -/

theorem Fields.wf_mem {env : Env} {flex rh : Bool} {fs : List Field}
    (h : Fields.wf env flex rh fs = true) {f : Field} (hf : f ∈ fs) : Field.wf env flex rh f = true := by
  induction fs with
  | nil => cases hf
  | cons a as ih =>
    simp only [Fields.wf, Bool.and_eq_true] at h
    rcases List.mem_cons.mp hf with rfl | hf
    · exact h.1
    · exact ih h.2 hf

theorem Fields.valueOk_zip {env : Env} {rh : Bool} {fs : List Field} {vs : List Value}
    (h : Fields.valueOk env rh fs vs = true) :
    fs.length = vs.length ∧ ∀ p ∈ fs.zip vs, Field.valueOk env rh p.1 p.2 = true := by
  induction fs generalizing vs with
  | nil =>
    cases vs with
    | nil => simp
    | cons v vs => simp [Fields.valueOk] at h
  | cons f fs ih =>
    cases vs with
    | nil => simp [Fields.valueOk] at h
    | cons v vs =>
      simp only [Fields.valueOk, Bool.and_eq_true] at h
      obtain ⟨hl, hz⟩ := ih h.2
      refine ⟨by simp [hl], ?_⟩
      intro p hp
      rcases List.mem_cons.mp (by simpa using hp) with rfl | hp
      · exact h.1
      · exact hz p hp

theorem Field.tagNat_lt {env : Env} {flex rh : Bool} {f : Field} (h : Field.wf env flex rh f = true)
    {t : Nat} (ht : f.tagNat = some t) : t < 2 ^ 35 := by
  cases f with
  | mk m sh =>
    have h1 := (Field.wf_elim h).1
    simp only [Field.tagNat, FieldMeta.tagNat] at ht
    cases hm : m.tag with
    | none => rw [hm] at ht; cases ht
    | some i =>
      rw [hm] at ht h1
      simp only [Option.map_some, Option.some.injEq] at ht
      simp only [tagOk, Bool.and_eq_true, decide_eq_true_eq] at h1
      have : ((2 ^ 35 : Nat) : Int) = 2 ^ 35 := by norm_cast
      omega

theorem Field.valueOk_default {env : Env} {rh : Bool} {f : Field} {v : Value}
    (h : Field.valueOk env rh f v = true) {t : Nat} (ht : f.tagNat = some t)
    (hpe : v.pyEq (Field.dflt env f) = true) : v = Field.dflt env f := by
  cases f with
  | mk m sh =>
    rw [Field.valueOk.eq_1, Bool.and_eq_true] at h
    have h2 := h.2
    simp only [Field.tagNat, FieldMeta.tagNat] at ht
    cases hm : m.tag with
    | none => rw [hm] at ht; cases ht
    | some i =>
      rw [hm] at h2
      simp only [Field.dflt] at hpe ⊢
      simp only [hpe, Bool.not_true, Bool.false_or] at h2
      exact Value.beq_sound _ _ h2

theorem tagged_section_rt (env : Env) (skip flex rh : Bool) (fs : List Field) (vs : List Value)
    (hn : (fs.filterMap Field.tagNat).Nodup)
    (hwf : ∀ f ∈ fs, Field.wf env flex rh f = true)
    (hvo : ∀ p ∈ fs.zip vs, Field.valueOk env rh p.1 p.2 = true)
    (hrt : ∀ p ∈ fs.zip vs, p.1.isTagged = true → ∀ payload,
      Field.write env flex rh true p.1 p.2 = .ok payload →
      ∀ rest, Field.read env flex rh true p.1 (payload ++ rest) = .ok (p.2, rest))
    (items : List (Nat × Bytes)) (hi : Fields.taggedItems env flex rh fs vs = .ok items)
    (rest : Bytes) :
    ∃ acc, readTaggedLoop skip (Fields.taggedPlan env flex rh fs) (sortByTag items).length
        (flattenItems (sortByTag items) ++ rest) [] = .ok (acc, rest)
      ∧ ∀ p ∈ fs.zip vs, ∀ t, p.1.tagNat = some t →
          taggedValue acc t (Field.dflt env p.1) = p.2 := by
  have hitems : ∀ x ∈ sortByTag items,
      ItemOk skip (Fields.taggedPlan env flex rh fs) (fieldVal fs vs) x := by
    intro x hx
    refine taggedItems_forall env flex rh _ fs vs items hi ?_ x (mem_sortByTag.mp hx)
    intro p hp t ht _ item hitem
    obtain ⟨hfind, hval⟩ := find_field fs vs hn p hp t ht
    refine itemOk_of skip _ _ t item _ p.2 hitem
      (Field.tagNat_lt (hwf p.1 (List.of_mem_zip hp).1) ht)
      { tag := t, read := Field.read env flex rh true p.1, dflt := Field.dflt env p.1 } ?_ ?_
    · rw [lookupTagged_plan, hfind]; rfl
    · intro payload hpay rest'
      rw [hval]
      exact hrt p hp (by rw [Field.isTagged_eq, ht]; rfl) payload hpay rest'
  refine ⟨_, readTaggedLoop_items skip _ (fieldVal fs vs) (sortByTag items) hitems rest [], ?_⟩
  intro p hp t ht
  have hacc : ∀ a ∈ ((sortByTag items).map (fun x => (x.1, fieldVal fs vs x.1))).reverse ++ [],
      a.2 = fieldVal fs vs a.1 := by
    intro a ha
    simp only [List.append_nil, List.mem_reverse, List.mem_map] at ha
    obtain ⟨x, _, rfl⟩ := ha
    rfl
  obtain ⟨hfind, hval⟩ := find_field fs vs hn p hp t ht
  cases hpe : p.2.pyEq (Field.dflt env p.1)
  · obtain ⟨x, hx, hxt⟩ := taggedItems_exists env flex rh fs vs items hi p hp t ht hpe
    rw [taggedValue_hit _ (fieldVal fs vs) t _ hacc, hval]
    refine ⟨(x.1, fieldVal fs vs x.1), ?_, hxt⟩
    simp only [List.append_nil, List.mem_reverse, List.mem_map]
    exact ⟨x, mem_sortByTag.mpr hx, rfl⟩
  · rw [taggedValue_miss, ← Field.valueOk_default (hvo p hp) ht hpe]
    intro a ha hat
    simp only [List.append_nil, List.mem_reverse, List.mem_map] at ha
    obtain ⟨x, hx, rfl⟩ := ha
    simp only at hat
    have hP := taggedItems_forall env flex rh
      (fun x => ∃ p' ∈ fs.zip vs, p'.1.tagNat = some x.1 ∧ p'.2.pyEq (Field.dflt env p'.1) = false)
      fs vs items hi (fun p' hp' t' ht' hpe' _ _ => ⟨p', hp', ht', hpe'⟩) x (mem_sortByTag.mp hx)
    obtain ⟨p', hp', ht', hpe'⟩ := hP
    rw [hat] at ht'
    obtain ⟨hfind', hval'⟩ := find_field fs vs hn p' hp' t ht'
    have e1 : p'.1 = p.1 := Option.some.inj (hfind'.symm.trans hfind)
    have e2 : p'.2 = p.2 := hval'.symm.trans hval
    rw [e1, e2, hpe] at hpe'
    cases hpe'

/-! ### fields, schemas, and the induction -/

theorem field_rt (env : Env) (m : FieldMeta) (sh : Shape) (ih : ShapeRT env sh) :
    FieldRT env (.mk m sh) := by
  intro flex rh tagged v bs htag hwf hvo he rest
  obtain ⟨_, hsh, _⟩ := Field.wf_elim hwf
  rw [Field.valueOk.eq_1, Bool.and_eq_true] at hvo
  have hv1 := hvo.1
  rw [Field.write] at he
  rw [Field.read]
  cases hc : (rh && m.isClientId) <;> rw [hc] at hsh hv1 he <;>
    simp only [Bool.false_eq_true, if_false, if_true] at hsh hv1 he ⊢
  · exact ih flex tagged m v bs htag hsh hv1 he rest
  · cases v <;> simp [primValueOk, KType.isFixedInt] at hv1
    · exact legacyString_roundtrip true _ hv1 bs rest he
    · exact legacyString_null bs rest he

theorem schema_rt (env : Env) (n : Nat) (flex rh : Bool) (fs : List Field)
    (ih : ∀ f ∈ fs, FieldRT env f) : SchemaRT env (.mk n flex rh fs) := by
  intro v bs hwf hvo he rest
  obtain ⟨vs, rfl⟩ := Schema.valueOk_entity hvo
  rw [Schema.valueOk.eq_1] at hvo
  obtain ⟨hlen, hvz⟩ := Fields.valueOk_zip hvo
  simp only [Schema.wf, Bool.and_eq_true] at hwf
  obtain ⟨⟨hfs, hany⟩, hdup⟩ := hwf
  have hn : (fs.filterMap Field.tagNat).Nodup := by
    simpa [dupTags] using hdup
  have hfrt : ∀ (tagged : Bool), ∀ p ∈ fs.zip vs, p.1.isTagged = tagged → ∀ payload,
      Field.write env flex rh tagged p.1 p.2 = .ok payload →
      ∀ rest, Field.read env flex rh tagged p.1 (payload ++ rest) = .ok (p.2, rest) := by
    intro tagged p hp htg payload hpay rest'
    have hmem := (List.of_mem_zip hp).1
    exact ih p.1 hmem flex rh tagged p.2 payload htg.symm (Fields.wf_mem hfs hmem) (hvz p hp) hpay rest'
  rw [Schema.write] at he
  obtain ⟨a, ha, he⟩ := bind_ok he
  have hun := fun rest' => Fields.readUntagged_rt env flex rh fs vs (hfrt false) a ha rest'
  rw [Schema.read]
  cases flex
  · simp only [Bool.not_false, if_true, pure, Except.pure] at he
    have he := Except.ok.inj he
    subst he
    simp only [hun rest, bind, Except.bind, Bool.not_false, if_true, pure, Except.pure]
    rw [assemble_eq env [] fs vs hlen]
    intro p hp t ht
    exfalso
    have hmem := (List.of_mem_zip hp).1
    simp only [Bool.or_false, Bool.not_eq_true', List.any_eq_false] at hany
    have := hany p.1 hmem
    rw [Field.isTagged_eq, ht] at this
    simp at this
  · simp only [Bool.not_true, Bool.false_eq_true, if_false] at he
    obtain ⟨items, hi, he⟩ := bind_ok he
    obtain ⟨cnt, hcnt, he⟩ := bind_ok he
    simp only [pure, Except.pure] at he
    have he := Except.ok.inj he
    subst he
    obtain ⟨hc1, hc2⟩ := uvarintCtor_ok hcnt
    have hc3 : cnt = (sortByTag items).length := by omega
    obtain ⟨acc, hloop, hacc⟩ := tagged_section_rt env env.skipUnknownTags true rh fs vs hn
      (fun f hf => Fields.wf_mem hfs hf) hvz (hfrt true) items hi rest
    simp only [List.append_assoc, hun, bind, Except.bind, Bool.not_true, Bool.false_eq_true, if_false]
    rw [varint_roundtrip 4 cnt (by rw [pow128_5]; exact hc2)]
    simp only [hc3, hloop, pure, Except.pure]
    rw [assemble_eq env acc fs vs hlen hacc]

theorem Schema.roundtrip' (env : Env) (ht : env.time = TimeCfg.repaired) (hfl : FloatExact) :
    ∀ s, SchemaRT env s :=
  Schema.induct3 (PS := SchemaRT env) (PF := FieldRT env) (PSh := ShapeRT env)
    (schema_rt env) (field_rt env) (shape_prim_rt env ht hfl) (shape_primArr_rt env ht hfl)
    (shape_ent_rt env) (shape_entArr_rt env)
    (by intro flex tagged m v bs _ hwf; simp [Shape.wf] at hwf)

end Kio
