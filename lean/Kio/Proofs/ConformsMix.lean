import Kio.Proofs.Conforms
import Kio.Spec.ConformsMix
/-!
# Everything `Spec.encMixed` outputs is conforming

`Spec.encMixed cfg seed` (Kio/Spec/ConformsMix.lean) makes the free choices of `Spec.Conforms`
independently at every occurrence, from a seed.  Here:
* `Kio.Spec.encMixed_conforms` : every output is in the relation `Spec.Conforms` (for every
  configuration and every seed — no side condition on `cfg`: illegal candidates are filtered);
* `Kio.Schema.accepts_mixed` : so the reader decodes every output;
* sanity: on the example class of Kio/Proofs/Conforms.lean different seeds give different
  encodings, and one seed encodes the two elements of one array differently.
-/
namespace Kio
open Spec (Conforms ConformsUntagged ConformsTagged ConformsField ConformsMany)

/-! ### the unknown entries chosen for one occurrence are legal -/

theorem cm_keepTags (declared : List Nat) (ts : List Nat) :
    (∀ t ∈ Spec.keepTags declared ts, t < 2 ^ 35 ∧ t ∉ declared)
      ∧ (Spec.keepTags declared ts).Nodup := by
  induction ts with
  | nil => exact ⟨(by intro t ht; cases ht), List.nodup_nil⟩
  | cons t ts ih =>
    rw [Spec.keepTags]
    by_cases hc : (decide (t < 2 ^ 35) && !declared.contains t
        && !(Spec.keepTags declared ts).contains t) = true
    · rw [if_pos hc]
      simp only [Bool.and_eq_true, decide_eq_true_eq, Bool.not_eq_true', List.contains_eq_mem,
        decide_eq_false_iff_not] at hc
      obtain ⟨⟨h1, h2⟩, h3⟩ := hc
      refine ⟨?_, List.nodup_cons.2 ⟨h3, ih.2⟩⟩
      intro u hu
      rcases List.mem_cons.1 hu with rfl | hu
      · exact ⟨h1, h2⟩
      · exact ih.1 u hu
    · rw [if_neg hc]
      exact ih

theorem cm_attach_fst (ps : List Bytes) (off : Nat) (ts : List Nat) :
    (Spec.attachPayloads ps off ts).map (·.1) = ts := by
  induction ts generalizing off with
  | nil => rfl
  | cons t ts ih =>
    rw [Spec.attachPayloads, List.map_cons, ih]

theorem cm_getD_len (ps : List Bytes) (hps : ∀ p ∈ ps, p.length < 2 ^ 35) (i : Nat) :
    (ps.getD i []).length < 2 ^ 35 := by
  rw [List.getD_eq_getElem?_getD]
  rcases opt_cases ps[i]? with h | ⟨p, h⟩
  · rw [h]; decide
  · rw [h]
    exact hps p (List.mem_of_getElem? h)

theorem cm_attach_len (ps : List Bytes) (hps : ∀ p ∈ ps, p.length < 2 ^ 35) (off : Nat)
    (ts : List Nat) : ∀ x ∈ Spec.attachPayloads ps off ts, x.2.length < 2 ^ 35 := by
  induction ts generalizing off with
  | nil => intro x hx; cases hx
  | cons t ts ih =>
    intro x hx
    rw [Spec.attachPayloads] at hx
    rcases List.mem_cons.1 hx with rfl | hx
    · exact cm_getD_len ps hps _
    · exact ih _ x hx

theorem cm_mixUnknown (cfg : Spec.MixCfg) (sd : Nat) (declared : List Nat) :
    (∀ x ∈ Spec.mixUnknown cfg sd declared,
        x.1 < 2 ^ 35 ∧ x.2.length < 2 ^ 35 ∧ x.1 ∉ declared)
      ∧ ((Spec.mixUnknown cfg sd declared).map (·.1)).Nodup := by
  unfold Spec.mixUnknown
  simp only
  generalize Spec.seedPick (Spec.nextSeed (Spec.nextSeed sd)) _ = off
  generalize List.take _ (_ ++ _) = cands
  have hk := cm_keepTags declared cands
  have hps : ∀ p ∈ cfg.payloads.filter (fun p => decide (p.length < 2 ^ 35)),
      p.length < 2 ^ 35 := by
    intro p hp
    exact of_decide_eq_true (List.mem_filter.1 hp).2
  refine ⟨?_, ?_⟩
  · intro x hx
    have h1 : x.1 ∈ Spec.keepTags declared cands := by
      have := List.mem_map_of_mem (f := (·.1)) hx
      rwa [cm_attach_fst] at this
    exact ⟨(hk.1 _ h1).1, cm_attach_len _ hps _ _ x hx, (hk.1 _ h1).2⟩
  · rw [cm_attach_fst]
    exact hk.2

theorem cm_mixEntries (l : List (Nat × Bytes)) : Spec.mixEntries l = l.map cf_g := rfl

/-! ### the parts of a structure -/

theorem cm_untaggedM (cfg : Spec.MixCfg) (flex rh : Bool) (fs : List Field) (vs : List Value)
    (hF : ∀ p ∈ fs.zip vs, ∀ sd b,
      Spec.fieldBytesM cfg sd flex false p.1.meta p.1.shape p.2 = some b →
      ConformsField flex false p.1.meta p.1.shape p.2 b)
    (sd : Nat) (body : Bytes) (h : Spec.untaggedM cfg sd flex rh fs vs = some body) :
    ConformsUntagged flex rh fs vs body := by
  induction fs generalizing vs body sd with
  | nil =>
    cases vs with
    | nil =>
      simp only [Spec.untaggedM] at h
      have h := Option.some.inj h
      subst h
      exact .nil
    | cons v vs => simp [Spec.untaggedM] at h
  | cons f fs ih =>
    cases vs with
    | nil => simp [Spec.untaggedM] at h
    | cons v vs =>
      have ih' := fun sd body h =>
        ih vs (fun p hp => hF p (cf_mem_zip_cons.2 (Or.inr hp))) sd body h
      cases f with
      | mk m sh =>
        rw [Spec.untaggedM] at h
        cases htag : m.tag.isSome
        · simp only [htag, Bool.false_eq_true, if_false] at h
          obtain ⟨a, ha, h⟩ := Option.bind_eq_some_iff.1 h
          obtain ⟨b, hb, h⟩ := Option.bind_eq_some_iff.1 h
          have h := Option.some.inj h
          subst h
          cases hc : (rh && m.isClientId)
          · rw [hc] at ha
            simp only [Bool.false_eq_true, if_false] at ha
            exact .field htag hc
              (hF (.mk m sh, v) (cf_mem_zip_cons.2 (Or.inl rfl)) _ a ha) (ih' _ b hb)
          · rw [hc] at ha
            simp only [if_true] at ha
            exact .clientId htag hc ha (ih' _ b hb)
        · simp only [htag, if_true] at h
          exact .tagged htag (ih' _ body h)

theorem cm_taggedEntriesM (cfg : Spec.MixCfg) (flex : Bool) (fs : List Field)
    (vs : List Value)
    (hF : ∀ p ∈ fs.zip vs, ∀ sd b,
      Spec.fieldBytesM cfg sd flex true p.1.meta p.1.shape p.2 = some b →
      ConformsField flex true p.1.meta p.1.shape p.2 b)
    (sd : Nat) (es : List (Nat × Bytes)) (h : Spec.taggedEntriesM cfg sd flex fs vs = some es) :
    ∃ known, ConformsTagged flex fs vs known ∧ es = known.map cf_g
      ∧ (known.map (·.1)).Sublist (Spec.declaredTags fs) := by
  induction fs generalizing vs es sd with
  | nil =>
    cases vs with
    | nil =>
      simp only [Spec.taggedEntriesM] at h
      have h := Option.some.inj h
      subst h
      exact ⟨[], .nil, rfl, List.Sublist.slnil⟩
    | cons v vs => simp [Spec.taggedEntriesM] at h
  | cons f fs ih =>
    cases vs with
    | nil => simp [Spec.taggedEntriesM] at h
    | cons v vs =>
      have ih' := fun sd es h =>
        ih vs (fun p hp => hF p (cf_mem_zip_cons.2 (Or.inr hp))) sd es h
      cases f with
      | mk m sh =>
        rw [Spec.taggedEntriesM] at h
        rcases opt_cases m.tag with htag | ⟨t, htag⟩
        · simp only [htag] at h
          obtain ⟨known, hk, he, hs⟩ := ih' _ es h
          refine ⟨known, .untagged htag hk, he, ?_⟩
          simp only [Spec.declaredTags, htag]
          exact hs
        · simp only [htag] at h
          rcases opt_cases (Spec.defaultOfField (.mk m sh)) with hd | ⟨d, hd⟩
          · rw [hd] at h; simp at h
          · rw [hd] at h
            simp only [Option.bind_eq_bind, Option.bind_some] at h
            cases hc : (v.pyEq d && !Spec.seedBit sd)
            · rw [hc] at h
              simp only [Bool.false_eq_true, if_false] at h
              rcases opt_cases (Spec.fieldBytesM cfg (Spec.childSeed sd 0) flex true m sh v)
                with hp | ⟨payload, hp⟩
              · rw [hp] at h; simp at h
              · rcases opt_cases (Spec.taggedEntriesM cfg (Spec.childSeed sd 1) flex fs vs)
                  with hm | ⟨more, hm⟩
                · rw [hp, hm] at h; simp at h
                · rw [hp, hm] at h
                  simp only [Option.bind_some] at h
                  by_cases hcc : 0 ≤ t ∧ payload.length < 2 ^ 35
                  · rw [if_pos hcc] at h
                    have h := Option.some.inj h
                    obtain ⟨known, hk, he, hs⟩ := ih' _ more hm
                    refine ⟨(t.toNat, payload) :: known,
                      .present htag hcc.1
                        (hF (.mk m sh, v) (cf_mem_zip_cons.2 (Or.inl rfl)) _ payload hp) hcc.2 hk,
                      ?_, ?_⟩
                    · rw [← h, he]; rfl
                    · simp only [Spec.declaredTags, htag, List.map_cons]
                      exact List.Sublist.cons_cons _ hs
                  · rw [if_neg hcc] at h; cases h
            · rw [hc] at h
              simp only [if_true] at h
              obtain ⟨known, hk, he, hs⟩ := ih' _ es h
              have heq : v.pyEq d = true := by
                rw [Bool.and_eq_true] at hc
                exact hc.1
              refine ⟨known, .omitted htag hd heq hk, he, ?_⟩
              simp only [Spec.declaredTags, htag]
              exact List.Sublist.cons _ hs

/-! ### arrays -/

theorem cm_arrayM_tuple (flex nullable : Bool) (e : Nat → Value → Option Bytes) (sd : Nat)
    (vs : List Value) (bs : Bytes) (h : Spec.arrayM flex nullable e sd (.tuple vs) = some bs) :
    ∃ body pre, Spec.concatAllM e sd vs = some body ∧ Spec.countPrefix flex vs.length = some pre
      ∧ bs = pre ++ body := by
  simp only [Spec.arrayM] at h
  obtain ⟨body, hb, h⟩ := Option.bind_eq_some_iff.1 h
  cases flex
  · simp only [Bool.false_eq_true, if_false] at h
    obtain ⟨l, hl, rfl⟩ := Option.map_eq_some_iff.1 h
    exact ⟨body, l, hb, by simp only [Spec.countPrefix, Bool.false_eq_true, if_false]; exact hl, rfl⟩
  · simp only [if_true] at h
    by_cases hc : vs.length + 1 < 2 ^ 35
    · rw [if_pos hc] at h
      have h := Option.some.inj h
      exact ⟨body, _, hb, by simp only [Spec.countPrefix, if_true, if_pos hc], h.symm⟩
    · rw [if_neg hc] at h; cases h

theorem cm_concatAllM (e : Nat → Value → Option Bytes) (s : Schema) (vs : List Value)
    (hE : ∀ v ∈ vs, ∀ sd b, e sd v = some b → Conforms s v b) (sd : Nat) (body : Bytes)
    (h : Spec.concatAllM e sd vs = some body) :
    ∃ bss, ConformsMany s vs bss ∧ body = bss.flatten := by
  induction vs generalizing body sd with
  | nil =>
    simp only [Spec.concatAllM] at h
    have h := Option.some.inj h
    subst h
    exact ⟨[], .nil, rfl⟩
  | cons v vs ih =>
    simp only [Spec.concatAllM] at h
    obtain ⟨a, ha, h⟩ := Option.bind_eq_some_iff.1 h
    obtain ⟨b, hb, h⟩ := Option.bind_eq_some_iff.1 h
    have h := Option.some.inj h
    subst h
    obtain ⟨bss, hM, rfl⟩ := ih (fun v hv => hE v (List.mem_cons_of_mem _ hv)) _ b hb
    exact ⟨a :: bss, .cons (hE v List.mem_cons_self _ a ha) hM, rfl⟩

/-! ### the induction over the class -/

def cm_PS (cfg : Spec.MixCfg) (s : Schema) : Prop :=
  ∀ sd v bs, Spec.Schema.distinctTags s = true →
    Spec.structM cfg sd s v = some bs → Conforms s v bs

def cm_PSh (cfg : Spec.MixCfg) (sh : Shape) : Prop :=
  ∀ sd flex tagged m v bs, Spec.Shape.distinctTags sh = true →
    Spec.fieldBytesM cfg sd flex tagged m sh v = some bs → ConformsField flex tagged m sh v bs

def cm_PF (cfg : Spec.MixCfg) (f : Field) : Prop := cm_PSh cfg f.shape

theorem cm_B_prim (cfg : Spec.MixCfg) (l : PyLeaf) (o : Bool) : cm_PSh cfg (.prim l o) := by
  intro sd flex tagged m v bs _ he
  simp only [Spec.fieldBytesM] at he
  rcases opt_cases m.kafkaType with hk | ⟨k, hk⟩
  · rw [hk] at he; cases he
  · rw [hk] at he
    exact .prim hk he

theorem cm_B_primArr (cfg : Spec.MixCfg) (l : PyLeaf) (e a : Bool) :
    cm_PSh cfg (.primArr l e a) := by
  intro sd flex tagged m v bs _ he
  simp only [Spec.fieldBytesM] at he
  rcases opt_cases m.kafkaType with hk | ⟨k, hk⟩
  · rw [hk] at he; cases he
  · rw [hk] at he
    exact .primArr hk he

theorem cm_B_ent (cfg : Spec.MixCfg) (s : Schema) (o : Bool) (ih : cm_PS cfg s) :
    cm_PSh cfg (.ent s o) := by
  intro sd flex tagged m v bs hd he
  simp only [Spec.Shape.distinctTags] at hd
  simp only [Spec.fieldBytesM] at he
  cases hc : (o && !tagged)
  · rw [hc] at he
    simp only [Bool.false_eq_true, if_false] at he
    exact .ent hc (ih sd v bs hd he)
  · rw [hc] at he
    simp only [if_true] at he
    by_cases hv : v = .none
    · subst hv
      simp only at he
      have he := Option.some.inj he
      subst he
      exact .entNull hc
    · have he' : (Spec.structM cfg sd s v).map (fun b => 1 :: b) = some bs := by
        cases v <;> first | exact absurd rfl hv | exact he
      obtain ⟨b, hb, rfl⟩ := Option.map_eq_some_iff.1 he'
      exact .entSome hc (ih sd v b hd hb)

theorem cm_B_entArr (cfg : Spec.MixCfg) (s : Schema) (a : Bool) (ih : cm_PS cfg s) :
    cm_PSh cfg (.entArr s a) := by
  intro sd flex tagged m v bs hd he
  simp only [Spec.Shape.distinctTags] at hd
  simp only [Spec.fieldBytesM] at he
  cases v with
  | tuple vs =>
    obtain ⟨body, pre, hb, hpre, rfl⟩ := cm_arrayM_tuple _ _ _ _ _ _ he
    obtain ⟨bss, hM, rfl⟩ :=
      cm_concatAllM _ s vs (fun v _ sd' b hb => ih sd' v b hd hb) sd body hb
    exact .entArr hpre hM
  | none =>
    simp only [Spec.arrayM] at he
    cases hc : (a && !tagged)
    · rw [hc] at he; simp at he
    · rw [hc] at he
      simp only [if_true] at he
      exact .entArrNull hc he
  | _ => simp [Spec.arrayM] at he

theorem cm_B_schema (cfg : Spec.MixCfg) (n : Nat) (flex rh : Bool)
    (fs : List Field) (ih : ∀ f ∈ fs, cm_PF cfg f) : cm_PS cfg (.mk n flex rh fs) := by
  intro sd v bs hdist he
  have hent : ∃ vs, v = .entity vs := by
    cases v <;> first | exact ⟨_, rfl⟩ | (simp [Spec.structM] at he)
  obtain ⟨vs, rfl⟩ := hent
  simp only [Spec.Schema.distinctTags, Bool.and_eq_true, decide_eq_true_eq] at hdist
  obtain ⟨hnd, hdf⟩ := hdist
  have hFall : ∀ tagged : Bool, ∀ p ∈ fs.zip vs, ∀ sd b,
      Spec.fieldBytesM cfg sd flex tagged p.1.meta p.1.shape p.2 = some b →
      ConformsField flex tagged p.1.meta p.1.shape p.2 b := by
    intro tagged p hp sd b hb
    have hmem := (List.of_mem_zip hp).1
    have h1 := cf_distinct_mem hdf hmem
    obtain ⟨⟨m, sh⟩, v⟩ := p
    simp only [Spec.Field.distinctTags] at h1
    exact ih (.mk m sh) hmem sd flex tagged m v b h1 hb
  rw [Spec.structM] at he
  obtain ⟨body, hbody, he⟩ := Option.bind_eq_some_iff.1 he
  have hU := cm_untaggedM cfg flex rh fs vs (hFall false) _ body hbody
  cases flex
  · simp only [Bool.false_eq_true, if_false] at he
    have he := Option.some.inj he
    subst he
    exact .legacy hU
  · simp only [if_true] at he
    obtain ⟨es, hes, he⟩ := Option.bind_eq_some_iff.1 he
    obtain ⟨known, hK, rfl, hsub⟩ := cm_taggedEntriesM cfg true fs vs (hFall true) _ es hes
    generalize hU' : Spec.mixUnknown cfg (Spec.childSeed sd 2) (Spec.declaredTags fs) = unknown
      at he
    obtain ⟨hunk, hund⟩ := cm_mixUnknown cfg (Spec.childSeed sd 2) (Spec.declaredTags fs)
    rw [hU'] at hunk hund
    have hmap : known.map cf_g ++ Spec.mixEntries unknown = (known ++ unknown).map cf_g := by
      rw [List.map_append, cm_mixEntries]
    rw [hmap, cf_ascending_map] at he
    have hnodup : ((known ++ unknown).map (·.1)).Nodup := by
      rw [List.map_append, List.nodup_append]
      refine ⟨hsub.nodup hnd, hund, ?_⟩
      intro a ha b hb hab
      subst hab
      obtain ⟨x, hx, rfl⟩ := List.mem_map.1 hb
      exact (hunk x hx).2.2 (hsub.subset ha)
    by_cases hc : ((Spec.ascending (known ++ unknown)).map cf_g).length < 2 ^ 35
    · rw [if_pos hc] at he
      have he := Option.some.inj he
      subst he
      have e2 : ((Spec.ascending (known ++ unknown)).map cf_g).map (·.2)
          = (Spec.ascending (known ++ unknown)).map (fun x => Spec.taggedEntry x.1 x.2) := by
        rw [List.map_map]; rfl
      rw [List.length_map] at hc ⊢
      rw [e2]
      exact .flexible hU hK hunk (cf_ascending_perm _)
        (List.pairwise_map.2 (cf_ascending_sorted _ hnodup)) hc
    · rw [if_neg hc] at he; cases he

theorem cm_encMixed_all (cfg : Spec.MixCfg) : ∀ s, cm_PS cfg s :=
  Schema.induct3 (PS := cm_PS cfg) (PF := cm_PF cfg) (PSh := cm_PSh cfg)
    (cm_B_schema cfg) (fun _ _ h => h) (cm_B_prim cfg) (cm_B_primArr cfg)
    (cm_B_ent cfg) (cm_B_entArr cfg)
    (by intro sd flex tagged m v bs _ he; simp [Spec.fieldBytesM] at he)

/-! ### the theorems -/

/-- general form: the side condition is that no reachable class declares a tag twice -/
theorem Spec.encMixed_conforms_of_distinct (cfg : Spec.MixCfg) (seed : Nat) (s : Schema)
    (hdist : Spec.Schema.distinctTags s = true) (v : Value) (bs : Bytes)
    (h : Spec.encMixed cfg seed s v = some bs) : Spec.Conforms s v bs :=
  cm_encMixed_all cfg s seed v bs hdist h

/-- every output of the per-occurrence generator is conforming (for a coherent class; whatever
    the configuration and the seed) -/
theorem Spec.encMixed_conforms (env : Env) (cfg : Spec.MixCfg) (seed : Nat) (s : Schema)
    (hwf : s.wf env = true) (v : Value) (bs : Bytes) (h : Spec.encMixed cfg seed s v = some bs) :
    Spec.Conforms s v bs :=
  Spec.encMixed_conforms_of_distinct cfg seed s (cf_wf_distinct env s hwf) v bs h

/-- the reader decodes every output of the per-occurrence generator -/
theorem Schema.accepts_mixed (env : Env) (ht : env.time = TimeCfg.repaired)
    (hskip : env.skipUnknownTags = true) (hnull : env.nullableTaggedReader = true)
    (cfg : Spec.MixCfg) (seed : Nat) (s : Schema) (hwf : s.wf env = true)
    (w : Value) (hw : s.valueOk env w = true) (bs : Bytes)
    (h : Spec.encMixed cfg seed s w = some bs) (rest : Bytes) :
    s.read env (bs ++ rest) = .ok (w, rest) :=
  Schema.accepts_conforming env ht hskip hnull s hwf w hw bs
    (Spec.encMixed_conforms env cfg seed s hwf w bs h) rest

end Kio

/-! ## sanity: the choices really differ from seed to seed and from occurrence to occurrence

On `ConformsExample.outer` / `ConformsExample.value` (Kio/Proofs/Conforms.lean): an array of two
elements of the same class `inner` (one tagged field `x`, tag 0, default 0; both elements have
`x = 0`).  All checked by kernel evaluation of the generator. -/

namespace Kio.ConformsExample
open Kio Kio.Spec

abbrev mixCfg : MixCfg := { tags := [7, 9, 0, 300], payloads := [[0xAA], [], [1, 2, 3]] }

/-- the seed `encMixed mixCfg seed outer value` gives to element `i` (0 or 1) of the array -/
def mixElemSeed (seed i : Nat) : Nat :=
  let arr := childSeed (childSeed seed 0) 0      -- structure → its untagged fields → field 0
  match i with
  | 0 => childSeed arr 0
  | _ => childSeed (childSeed arr 1) 0
/-- … and the encoding of that element -/
def mixElem (seed i : Nat) : Option Bytes := structM mixCfg (mixElemSeed seed i) inner elem

/-- seed 1: the first element SENDS the default (`1` entry: tag 0, 4 bytes), the second OMITS it
    (`0` entries); the outer structure carries two unknown entries (7 ↦ AA, 300 ↦ 01 02 03) -/
theorem mixed_seed1 : encMixed mixCfg 1 outer value
    = some ([3] ++ [1, 0, 4, 0, 0, 0, 0] ++ [0] ++ [2, 7, 1, 0xAA, 172, 2, 3, 1, 2, 3]) := by
  decide +kernel
theorem mixed_seed1_elems :
    mixElem 1 0 = some [1, 0, 4, 0, 0, 0, 0] ∧ mixElem 1 1 = some [0] := by decide +kernel

/-- seed 3: both elements omit the default, the outer structure carries one unknown entry -/
theorem mixed_seed3 : encMixed mixCfg 3 outer value = some [3, 0, 0, 1, 9, 0] := by decide +kernel

/-- seed 5: the other way round — the first element omits, the second sends -/
theorem mixed_seed5_elems :
    mixElem 5 0 = some [0] ∧ mixElem 5 1 = some [1, 0, 4, 0, 0, 0, 0] := by decide +kernel

/-- seed 2: the two elements carry DIFFERENT unknown entries (first: 9 ↦ empty, default omitted;
    second: default sent and 300 ↦ AA), the outer structure 7 ↦ empty and 9 ↦ 01 02 03 -/
theorem mixed_seed2 : encMixed mixCfg 2 outer value
    = some ([3] ++ [1, 9, 0] ++ [2, 0, 4, 0, 0, 0, 0, 172, 2, 1, 0xAA] ++ [2, 7, 0, 9, 3, 1, 2, 3]) := by
  decide +kernel
theorem mixed_seed2_elems :
    mixElem 2 0 = some [1, 9, 0] ∧ mixElem 2 1 = some [2, 0, 4, 0, 0, 0, 0, 172, 2, 1, 0xAA] := by
  decide +kernel

/-- seed 0: tag 0 is a legal unknown tag of `outer` (which declares no tag) but never of `inner`
    (which declares it): the candidates are filtered per structure -/
theorem mixed_seed0 : encMixed mixCfg 0 outer value
    = some ([3] ++ [3, 0, 4, 0, 0, 0, 0, 7, 3, 1, 2, 3, 172, 2, 0]
        ++ [2, 0, 4, 0, 0, 0, 0, 172, 2, 3, 1, 2, 3] ++ [1, 0, 1, 0xAA]) := by
  decide +kernel

/-- two seeds whose outputs differ -/
theorem mixed_differ : encMixed mixCfg 1 outer value ≠ encMixed mixCfg 3 outer value := by
  decide +kernel

/-- the first 64 seeds: every one gives an encoding, … -/
theorem mixed_first64_some :
    (List.range 64).all (fun sd => (encMixed mixCfg sd outer value).isSome) = true := by
  decide +kernel
/-- … the 64 encodings are pairwise different, … -/
theorem mixed_first64_nodup :
    ((List.range 64).map (fun sd => encMixed mixCfg sd outer value)).Nodup := by
  decide +kernel
/-- … and for 58 of the 64 seeds the two elements of the array are encoded differently -/
theorem mixed_first64_elems :
    ((List.range 64).filter (fun sd => mixElem sd 0 != mixElem sd 1)).length = 58 := by
  decide +kernel

/-- and the reader decodes them: e.g. the output of seed 1 -/
theorem mixed_seed1_decodes : outer.read env0
    [3, 1, 0, 4, 0, 0, 0, 0, 0, 2, 7, 1, 0xAA, 172, 2, 3, 1, 2, 3] = .ok (value, []) := by
  have h := Kio.Schema.accepts_mixed env0 rfl rfl rfl mixCfg 1 outer outer_wf value value_ok _
    mixed_seed1 []
  simpa using h

/-- … and of every seed -/
theorem mixed_decodes (seed : Nat) (bs : Bytes) (h : encMixed mixCfg seed outer value = some bs) :
    outer.read env0 bs = .ok (value, []) := by
  have h := Kio.Schema.accepts_mixed env0 rfl rfl rfl mixCfg seed outer outer_wf value value_ok bs
    h []
  rwa [List.append_nil] at h

end Kio.ConformsExample

#print axioms Kio.Spec.encMixed_conforms
#print axioms Kio.Schema.accepts_mixed
