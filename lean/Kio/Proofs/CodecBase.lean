import Kio.Proofs.Prim
import Kio.Model.Typing
/-!
Helpers for `Kio.Proofs.Codec`: soundness of `Value.beq`, arrays, primitive dispatch round trip.
-/
namespace Kio

/-! ### `Value.beq` is sound -/

mutual
theorem Value.beq_sound : ∀ (a b : Value), a.beq b = true → a = b
  | .int a, .int b, h => by simp [Value.beq] at h; rw [h]
  | .bool a, .bool b, h => by simp [Value.beq] at h; rw [h]
  | .float a, .float b, h => by simp [Value.beq] at h; rw [h]
  | .str a, .str b, h => by simp [Value.beq] at h; rw [h]
  | .bytes a, .bytes b, h => by simp [Value.beq] at h; rw [h]
  | .uuid a, .uuid b, h => by simp [Value.beq] at h; rw [h]
  | .timedelta a, .timedelta b, h => by simp [Value.beq] at h; rw [h]
  | .datetime a, .datetime b, h => by simp [Value.beq] at h; rw [h]
  | .none, .none, _ => rfl
  | .tuple a, .tuple b, h => by
    rw [Value.beq] at h
    rw [Value.beqList_sound a b h]
  | .entity a, .entity b, h => by
    rw [Value.beq] at h
    rw [Value.beqList_sound a b h]
  | .int _, .bool _, h | .int _, .float _, h | .int _, .str _, h | .int _, .bytes _, h
  | .int _, .uuid _, h | .int _, .timedelta _, h | .int _, .datetime _, h | .int _, .none, h
  | .int _, .tuple _, h | .int _, .entity _, h => by simp [Value.beq] at h
  | .bool _, .int _, h | .bool _, .float _, h | .bool _, .str _, h | .bool _, .bytes _, h
  | .bool _, .uuid _, h | .bool _, .timedelta _, h | .bool _, .datetime _, h | .bool _, .none, h
  | .bool _, .tuple _, h | .bool _, .entity _, h => by simp [Value.beq] at h
  | .float _, .int _, h | .float _, .bool _, h | .float _, .str _, h | .float _, .bytes _, h
  | .float _, .uuid _, h | .float _, .timedelta _, h | .float _, .datetime _, h | .float _, .none, h
  | .float _, .tuple _, h | .float _, .entity _, h => by simp [Value.beq] at h
  | .str _, .int _, h | .str _, .bool _, h | .str _, .float _, h | .str _, .bytes _, h
  | .str _, .uuid _, h | .str _, .timedelta _, h | .str _, .datetime _, h | .str _, .none, h
  | .str _, .tuple _, h | .str _, .entity _, h => by simp [Value.beq] at h
  | .bytes _, .int _, h | .bytes _, .bool _, h | .bytes _, .float _, h | .bytes _, .str _, h
  | .bytes _, .uuid _, h | .bytes _, .timedelta _, h | .bytes _, .datetime _, h | .bytes _, .none, h
  | .bytes _, .tuple _, h | .bytes _, .entity _, h => by simp [Value.beq] at h
  | .uuid _, .int _, h | .uuid _, .bool _, h | .uuid _, .float _, h | .uuid _, .str _, h
  | .uuid _, .bytes _, h | .uuid _, .timedelta _, h | .uuid _, .datetime _, h | .uuid _, .none, h
  | .uuid _, .tuple _, h | .uuid _, .entity _, h => by simp [Value.beq] at h
  | .timedelta _, .int _, h | .timedelta _, .bool _, h | .timedelta _, .float _, h
  | .timedelta _, .str _, h | .timedelta _, .bytes _, h | .timedelta _, .uuid _, h
  | .timedelta _, .datetime _, h | .timedelta _, .none, h
  | .timedelta _, .tuple _, h | .timedelta _, .entity _, h => by simp [Value.beq] at h
  | .datetime _, .int _, h | .datetime _, .bool _, h | .datetime _, .float _, h
  | .datetime _, .str _, h | .datetime _, .bytes _, h | .datetime _, .uuid _, h
  | .datetime _, .timedelta _, h | .datetime _, .none, h
  | .datetime _, .tuple _, h | .datetime _, .entity _, h => by simp [Value.beq] at h
  | .none, .int _, h | .none, .bool _, h | .none, .float _, h | .none, .str _, h
  | .none, .bytes _, h | .none, .uuid _, h | .none, .timedelta _, h | .none, .datetime _, h
  | .none, .tuple _, h | .none, .entity _, h => by simp [Value.beq] at h
  | .tuple _, .int _, h | .tuple _, .bool _, h | .tuple _, .float _, h | .tuple _, .str _, h
  | .tuple _, .bytes _, h | .tuple _, .uuid _, h | .tuple _, .timedelta _, h
  | .tuple _, .datetime _, h | .tuple _, .none, h | .tuple _, .entity _, h => by
    simp [Value.beq] at h
  | .entity _, .int _, h | .entity _, .bool _, h | .entity _, .float _, h | .entity _, .str _, h
  | .entity _, .bytes _, h | .entity _, .uuid _, h | .entity _, .timedelta _, h
  | .entity _, .datetime _, h | .entity _, .none, h | .entity _, .tuple _, h => by
    simp [Value.beq] at h
theorem Value.beqList_sound : ∀ (as bs : List Value), Value.beqList as bs = true → as = bs
  | [], [], _ => rfl
  | a :: as, b :: bs, h => by
    rw [Value.beqList, Bool.and_eq_true] at h
    rw [Value.beq_sound a b h.1, Value.beqList_sound as bs h.2]
  | [], _ :: _, h => by simp [Value.beqList] at h
  | _ :: _, [], h => by simp [Value.beqList] at h
end

/-! ### arrays -/


theorem decMany_encMany' (e : Value → Except Err Bytes) (d : Dec Value) (vs : List Value)
    (h : ∀ v ∈ vs, ∀ bs, e v = .ok bs → ∀ rest, d (bs ++ rest) = .ok (v, rest))
    (out : Bytes) (he : encMany e vs = .ok out) (rest : Bytes) :
    decMany d vs.length (out ++ rest) = .ok (vs, rest) := by
  induction vs generalizing out with
  | nil => simp [encMany] at he; subst he; simp [decMany]
  | cons v vs ih =>
    obtain ⟨a, ha, he⟩ := bind_ok he
    obtain ⟨b, hb, he⟩ := bind_ok he
    simp [pure, Except.pure] at he; subst he
    simp only [List.length_cons, decMany, bind, Except.bind, List.append_assoc]
    rw [h v (by simp) a ha]; simp only
    rw [ih (fun v hv => h v (by simp [hv])) b hb]; rfl


/-! ### primitives -/


section
variable (env : Env) (flex optW optR : Bool) (w : PrimW) (r : PrimR) (v : Value) (bs rest : Bytes)

theorem prim_rt_fixed (k : KType) (hk : k.isFixedInt = true)
    (hw : getWriter k flex optW = .ok w) (hr : getReader k flex optR = .ok r)
    (hv : primValueOk env k true v = true) (he : w.run env v = .ok bs) :
    r.run env (bs ++ rest) = .ok (v, rest) := by
  cases k <;> simp [KType.isFixedInt] at hk <;>
  (cases optW <;> cases optR <;> simp [getWriter, getReader] at hw hr
   subst hw hr
   cases v <;> simp [primValueOk, KType.isFixedInt] at hv
   exact readInt_roundtrip _ (by omega) _ _ bs rest he)

theorem prim_rt_float 
    (hw : getWriter .float64 flex optW = .ok w) (hr : getReader .float64 flex optR = .ok r)
    (hv : primValueOk env .float64 true v = true) (he : w.run env v = .ok bs) :
    r.run env (bs ++ rest) = .ok (v, rest) := by
  cases optW <;> cases optR <;> simp [getWriter, getReader] at hw hr
  subst hw hr
  cases v <;> simp [primValueOk, KType.isFixedInt] at hv
  exact float64_roundtrip _ hv.1 bs rest he

theorem prim_rt_bool
    (hw : getWriter .bool flex optW = .ok w) (hr : getReader .bool flex optR = .ok r)
    (hv : primValueOk env .bool true v = true) (he : w.run env v = .ok bs) :
    r.run env (bs ++ rest) = .ok (v, rest) := by
  cases optW <;> cases optR <;> simp [getWriter, getReader] at hw hr
  subst hw hr
  cases v <;> simp [primValueOk, KType.isFixedInt] at hv
  exact boolean_roundtrip _ bs rest he

theorem prim_rt_errorCode
    (hw : getWriter .errorCode flex optW = .ok w) (hr : getReader .errorCode flex optR = .ok r)
    (hv : primValueOk env .errorCode true v = true) (he : w.run env v = .ok bs) :
    r.run env (bs ++ rest) = .ok (v, rest) := by
  cases optW <;> cases optR <;> simp [getWriter, getReader] at hw hr
  subst hw hr
  cases v <;> simp [primValueOk, KType.isFixedInt] at hv
  exact errorCode_roundtrip _ _ (by simpa using hv) bs rest he

theorem prim_rt_uuid
    (hw : getWriter .uuid flex optW = .ok w) (hr : getReader .uuid flex optR = .ok r)
    (hv : primValueOk env .uuid true v = true) (he : w.run env v = .ok bs) :
    r.run env (bs ++ rest) = .ok (v, rest) := by
  simp [getWriter, getReader] at hw hr
  subst hw hr
  cases v <;> simp [primValueOk, KType.isFixedInt] at hv
  · exact uuid_roundtrip _ (Or.inr ⟨_, rfl, hv.1, hv.2⟩) bs rest he
  · exact uuid_roundtrip _ (Or.inl rfl) bs rest he

theorem prim_rt_td32 (ht : env.time = TimeCfg.repaired)
    (hw : getWriter .timedeltaI32 flex optW = .ok w) (hr : getReader .timedeltaI32 flex optR = .ok r)
    (hv : primValueOk env .timedeltaI32 true v = true) (he : w.run env v = .ok bs) :
    r.run env (bs ++ rest) = .ok (v, rest) := by
  cases optW <;> cases optR <;> simp [getWriter, getReader] at hw hr
  subst hw hr
  cases v <;> simp [primValueOk, KType.isFixedInt, timedeltaMinUs, timedeltaMaxUs] at hv
  exact timedelta_roundtrip env.time (by rw [ht]; rfl) 4 (by omega) _ (by omega) ⟨of_decide_eq_true hv.1.2, of_decide_eq_true hv.2⟩ bs rest he

theorem prim_rt_td64 (ht : env.time = TimeCfg.repaired)
    (hw : getWriter .timedeltaI64 flex optW = .ok w) (hr : getReader .timedeltaI64 flex optR = .ok r)
    (hv : primValueOk env .timedeltaI64 true v = true) (he : w.run env v = .ok bs) :
    r.run env (bs ++ rest) = .ok (v, rest) := by
  cases optW <;> cases optR <;> simp [getWriter, getReader] at hw hr
  subst hw hr
  cases v <;> simp [primValueOk, KType.isFixedInt, timedeltaMinUs, timedeltaMaxUs] at hv
  exact timedelta_roundtrip env.time (by rw [ht]; rfl) 8 (by omega) _ (by omega) ⟨of_decide_eq_true hv.1.2, of_decide_eq_true hv.2⟩ bs rest he

theorem prim_rt_dt (ht : env.time = TimeCfg.repaired) (hfl : FloatExact) (hopt : optW = true → optR = true)
    (hw : getWriter .datetimeI64 flex optW = .ok w) (hr : getReader .datetimeI64 flex optR = .ok r)
    (hv : primValueOk env .datetimeI64 true v = true) (he : w.run env v = .ok bs) :
    r.run env (bs ++ rest) = .ok (v, rest) := by
  cases optW <;> cases optR <;> simp at hopt <;>
    simp [getWriter, getReader] at hw hr <;> subst hw hr <;>
    cases v <;> simp [primValueOk, KType.isFixedInt, maxDatetimeUs] at hv
  · simp only [PrimR.run, ht]
    exact (datetime_roundtrip hfl _ (by omega) hv.1.2 (of_decide_eq_true hv.2) bs rest he).1
  · simp [PrimW.run, writeDatetimeI64] at he
  · simp only [PrimR.run, ht]
    exact (datetime_roundtrip hfl _ (by omega) hv.1.2 (of_decide_eq_true hv.2) bs rest he).2
  · simp [PrimW.run, writeDatetimeI64] at he
  · simp only [PrimR.run, ht]
    exact (datetime_roundtrip hfl _ (by omega) hv.1.2 (of_decide_eq_true hv.2) bs rest he).2
  · exact datetime_null _ bs rest he

end


section
variable (env : Env) (flex optW optR : Bool) (w : PrimW) (r : PrimR) (v : Value) (bs rest : Bytes)

theorem prim_rt_string (hopt : optW = true → optR = true)
    (hw : getWriter .string flex optW = .ok w) (hr : getReader .string flex optR = .ok r)
    (hv : primValueOk env .string true v = true) (he : w.run env v = .ok bs) :
    r.run env (bs ++ rest) = .ok (v, rest) := by
  cases flex <;> cases optW <;> cases optR <;> simp at hopt <;>
    simp [getWriter, getReader] at hw hr <;> subst hw hr <;>
    cases v <;> simp [primValueOk, KType.isFixedInt] at hv
  · exact legacyString_roundtrip false _ hv bs rest he
  · simp [PrimW.run, writeLegacyString] at he
  · exact legacyString_roundtrip true _ hv bs rest he
  · simp [PrimW.run, writeLegacyString] at he
  · exact legacyString_roundtrip true _ hv bs rest he
  · exact legacyString_null bs rest he
  · exact compactString_roundtrip false _ hv bs rest he
  · simp [PrimW.run, writeCompactString] at he
  · exact compactString_roundtrip true _ hv bs rest he
  · simp [PrimW.run, writeCompactString] at he
  · exact compactString_roundtrip true _ hv bs rest he
  · exact compactNull_string bs rest he

theorem prim_rt_bytes (k : KType) (hk : k = .bytes ∨ k = .records) (hopt : optW = true → optR = true)
    (hw : getWriter k flex optW = .ok w) (hr : getReader k flex optR = .ok r)
    (hv : primValueOk env k true v = true) (he : w.run env v = .ok bs) :
    r.run env (bs ++ rest) = .ok (v, rest) := by
  rcases hk with rfl | rfl <;>
  (cases flex <;> cases optW <;> cases optR <;> simp at hopt <;>
    simp [getWriter, getReader] at hw hr <;> subst hw hr <;>
    cases v <;> simp [primValueOk, KType.isFixedInt] at hv
   · exact legacyBytes_roundtrip false _ bs rest he
   · simp [PrimW.run, writeLegacyBytes] at he
   · exact legacyBytes_roundtrip true _ bs rest he
   · simp [PrimW.run, writeLegacyBytes] at he
   · exact legacyBytes_roundtrip true _ bs rest he
   · exact legacyBytes_null bs rest he
   · exact compactBytes_roundtrip false _ bs rest he
   · simp [PrimW.run, writeCompactString] at he
   · exact compactBytes_roundtrip true _ bs rest he
   · simp [PrimW.run, writeCompactString] at he
   · exact compactBytes_roundtrip true _ bs rest he
   · exact compactNull_bytes bs rest he)

end

theorem prim_roundtrip' (env : Env) (ht : env.time = TimeCfg.repaired) (hfl : FloatExact)
    (k : KType) (flex optW optR : Bool) (hopt : (optW = true → optR = true) ∨ k = .uuid) (w : PrimW) (r : PrimR)
    (hw : getWriter k flex optW = .ok w) (hr : getReader k flex optR = .ok r)
    (v : Value) (hv : primValueOk env k true v = true) (bs : Bytes) (he : w.run env v = .ok bs)
    (rest : Bytes) : r.run env (bs ++ rest) = .ok (v, rest) := by
  cases k
  case int8 => exact prim_rt_fixed env flex optW optR w r v bs rest _ rfl hw hr hv he
  case int16 => exact prim_rt_fixed env flex optW optR w r v bs rest _ rfl hw hr hv he
  case int32 => exact prim_rt_fixed env flex optW optR w r v bs rest _ rfl hw hr hv he
  case int64 => exact prim_rt_fixed env flex optW optR w r v bs rest _ rfl hw hr hv he
  case uint8 => exact prim_rt_fixed env flex optW optR w r v bs rest _ rfl hw hr hv he
  case uint16 => exact prim_rt_fixed env flex optW optR w r v bs rest _ rfl hw hr hv he
  case uint32 => exact prim_rt_fixed env flex optW optR w r v bs rest _ rfl hw hr hv he
  case uint64 => exact prim_rt_fixed env flex optW optR w r v bs rest _ rfl hw hr hv he
  case float64 => exact prim_rt_float env flex optW optR w r v bs rest hw hr hv he
  case string =>
    exact prim_rt_string env flex optW optR w r v bs rest (by simpa using hopt) hw hr hv he
  case bytes =>
    exact prim_rt_bytes env flex optW optR w r v bs rest _ (Or.inl rfl) (by simpa using hopt) hw hr hv he
  case records =>
    exact prim_rt_bytes env flex optW optR w r v bs rest _ (Or.inr rfl) (by simpa using hopt) hw hr hv he
  case uuid => exact prim_rt_uuid env flex optW optR w r v bs rest hw hr hv he
  case bool => exact prim_rt_bool env flex optW optR w r v bs rest hw hr hv he
  case errorCode => exact prim_rt_errorCode env flex optW optR w r v bs rest hw hr hv he
  case timedeltaI32 => exact prim_rt_td32 env flex optW optR w r v bs rest ht hw hr hv he
  case timedeltaI64 => exact prim_rt_td64 env flex optW optR w r v bs rest ht hw hr hv he
  case datetimeI64 =>
    exact prim_rt_dt env flex optW optR w r v bs rest ht hfl (by simpa using hopt) hw hr hv he
  case unknown => simp [getWriter] at hw
  case notStr => simp [getWriter] at hw

end Kio
