import Kio.Proofs.SpecEq
import Kio.Generated.All
/-!
The two side conditions of `Schema.write_eq_spec` hold on every generated class.
-/
namespace Kio

/-- no generated class has a tagged `tuple[E, ...] | None` field, and none has `2^35` fields -/
theorem generated_specDomain :
    allOk (fun s => Schema.tagArrOk s && Schema.fewFields s) Generated.allClasses = true := by
  decide +kernel

theorem generated_tagArrOk_fewFields (s : Schema) (hs : s ∈ Generated.allClasses) :
    s.tagArrOk = true ∧ s.fewFields = true := by
  have := allOk_forall _ _ generated_specDomain s hs
  simpa using this

/-- on the generated classes the plan-level statement holds as originally formulated -/
theorem generated_write_eq_spec (env : Env) (ht : env.time = TimeCfg.repaired) (hfl : FloatExact)
    (s : Schema) (hs : s ∈ Generated.allClasses) (hwf : s.wf env = true)
    (v : Value) (hv : s.valueOk env v = true) :
    (s.write env v).toOption = Spec.enc s v :=
  Schema.write_eq_spec env ht hfl s hwf (generated_tagArrOk_fewFields s hs).1
    (generated_tagArrOk_fewFields s hs).2 v hv

end Kio
