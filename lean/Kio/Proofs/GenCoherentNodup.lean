import Kio.Proofs.GenCoherentBase
/-!
A supported definition never yields two classes of the same name (`coh_module_nodup`).

The generator appends the class of a structure only after its fields were processed, without
looking again whether a class of that name was generated meanwhile; with pairwise distinct
structure names this can only go wrong when a structure (transitively) contains itself through
common structures — and then the generator does not terminate (here: runs out of fuel).  The proof
carries the stack of structures in progress: none of them is generated below.
-/
namespace Kio.Gen
open Kio

/-- `a` has, at version `v`, a visible field whose type is the structure `m` -/
def Edge (d : MsgDef) (v : Nat) (a m : List Nat) : Prop :=
  ∃ fs, (a, fs) ∈ d.structs ∧ ∃ f ∈ visibleAt fs v, ∃ sub, specSub d f = some (m, sub)

/-- the head is the structure being generated, every later element refers to the one before it -/
def StkChain (E : List Nat → List Nat → Prop) : List (List Nat) → Prop
  | [] => True
  | [_] => True
  | a :: b :: r => E b a ∧ StkChain E (b :: r)

theorem coh_chain_edge {E : List Nat → List Nat → Prop} {n : List Nat} :
    ∀ (a : List Nat) (l : List (List Nat)), StkChain E (a :: l) → n ∈ l → ∃ p ∈ a :: l, E n p
  | _, [], _, h => by cases h
  | a, b :: r, hc, h => by
    obtain ⟨h1, h2⟩ := hc
    rcases List.mem_cons.1 h with rfl | h
    · exact ⟨a, List.mem_cons_self, h1⟩
    · obtain ⟨p, hp, he⟩ := coh_chain_edge b r h2 h
      exact ⟨p, List.mem_cons_of_mem _ hp, he⟩

theorem coh_visibleAt_cons_true {f : FieldDef} {rest : List FieldDef} {v : Nat}
    (h : f.versions.matches v = true) : visibleAt (f :: rest) v = f :: visibleAt rest v := by
  simp [visibleAt, h]

theorem coh_visibleAt_cons_false {f : FieldDef} {rest : List FieldDef} {v : Nat}
    (h : f.versions.matches v = false) : visibleAt (f :: rest) v = visibleAt rest v := by
  simp [visibleAt, h]

theorem coh_names_snoc (acc : List GClass) (g : GClass) :
    (acc ++ [g]).map (·.name) = acc.map (·.name) ++ [g.name] := by simp

theorem gen_nodup (ctx : Ctx) (hsup : SupInfo ctx.d ctx.v) : ∀ fuel : Nat,
    (∀ acc n fs top acc' s stk, genClass ctx fuel acc n fs top = .ok (acc', s) →
      (n, fs) ∈ ctx.d.structs → SubS ctx.d fs → StkChain (Edge ctx.d ctx.v) (n :: stk) →
      (∀ m ∈ stk, m ∉ acc.map (·.name)) → (acc.map (·.name)).Nodup →
      n ∉ stk ∧ (∀ m ∈ stk, m ∉ acc'.map (·.name)) ∧ (acc'.map (·.name)).Nodup ∧ n ∈ acc'.map (·.name)) ∧
    (∀ acc fs acc' out t stk, genFields ctx fuel acc fs = .ok (acc', out) →
      SubS ctx.d fs →
      (∀ f ∈ visibleAt fs ctx.v, ∀ m sub, specSub ctx.d f = some (m, sub) → Edge ctx.d ctx.v t m) →
      StkChain (Edge ctx.d ctx.v) (t :: stk) →
      (∀ m ∈ t :: stk, m ∉ acc.map (·.name)) → (acc.map (·.name)).Nodup →
      (∀ f ∈ visibleAt fs ctx.v, ∀ m sub, specSub ctx.d f = some (m, sub) → m ∉ t :: stk) ∧
      (∀ m ∈ t :: stk, m ∉ acc'.map (·.name)) ∧ (acc'.map (·.name)).Nodup) := by
  intro fuel
  induction fuel with
  | zero =>
    refine ⟨?_, ?_⟩
    · intro acc n fs top acc' s stk h; rw [genClass] at h; cases h
    · intro acc fs acc' out t stk h; rw [genFields] at h; cases h
  | succ fuel ih =>
    obtain ⟨ihC, ihF⟩ := ih
    refine ⟨?_, ?_⟩
    · -- genClass
      intro acc n fs top acc' s stk h hmem hsub hchain hstk hnd
      rcases genClass_succ_ok h with ⟨g, hg, rfl, rfl⟩ | ⟨hg, acc1, out, h1, rfl, rfl⟩
      · have hgm : g ∈ acc' := List.mem_of_find?_eq_some hg
        have hname : g.name = n := by simpa using List.find?_some hg
        have hin : n ∈ acc'.map (·.name) := by rw [← hname]; exact List.mem_map_of_mem hgm
        exact ⟨fun hn => hstk n hn hin, hstk, hnd, hin⟩
      · have hnew : n ∉ acc.map (·.name) := (find_name_none_iff acc n).1 hg
        have hedge : ∀ f ∈ visibleAt fs ctx.v, ∀ m sub, specSub ctx.d f = some (m, sub) →
            Edge ctx.d ctx.v n m := fun f hf m sub hs => ⟨fs, hmem, f, hf, sub, hs⟩
        have hall : ∀ m ∈ n :: stk, m ∉ acc.map (·.name) := by
          intro m hm
          rcases List.mem_cons.1 hm with rfl | hm
          · exact hnew
          · exact hstk m hm
        obtain ⟨hi, hii, hiii⟩ := ihF acc fs acc1 out n stk h1 hsub hedge hchain hall hnd
        have hns : n ∉ stk := by
          intro hn
          obtain ⟨p, hp, fs0, hfs0, f, hf, sub, hs⟩ := coh_chain_edge n stk hchain hn
          have : fs0 = fs := hsup.fun_ hfs0 hmem
          subst this
          exact hi f hf p sub hs hp
        rw [coh_names_snoc]
        refine ⟨hns, ?_, ?_, by simp [mkClass]⟩
        · intro m hm hmem'
          rcases List.mem_append.1 hmem' with h' | h'
          · exact hii m (List.mem_cons_of_mem _ hm) h'
          · simp only [mkClass, List.mem_singleton] at h'
            subst h'
            exact hns hm
        · rw [List.nodup_append]
          refine ⟨hiii, by simp, ?_⟩
          intro a ha b hb
          simp only [mkClass, List.mem_singleton] at hb
          subst hb
          intro hab
          subst hab
          exact hii a List.mem_cons_self ha
    · -- genFields
      intro acc fs acc' out t stk h hsub hedge hchain hall hnd
      cases fs with
      | nil =>
        rw [genFields] at h; cases h
        exact ⟨by intro f hf; simp [visibleAt] at hf, hall, hnd⟩
      | cons f rest =>
        rcases genFields_cons_ok h with ⟨hm, h1⟩ | ⟨hm, var, acc1, ⟨pyName, fld⟩, out', hvar, h1, h2, rfl⟩
        · rw [coh_visibleAt_cons_false hm] at hedge ⊢
          exact ihF acc rest acc' out t stk h1 hsub.rest hedge hchain hall hnd
        · rw [coh_visibleAt_cons_true hm] at hedge ⊢
          have hinfo := (variant_info hvar).2
          have hone := genOne_ok h1
          have hss := variant_specSub hinfo
          have hedge' : ∀ f ∈ visibleAt rest ctx.v, ∀ m sub, specSub ctx.d f = some (m, sub) →
              Edge ctx.d ctx.v t m := fun g hg => hedge g (List.mem_cons_of_mem _ hg)
          cases hsubv : var.sub with
          | none =>
            have := oneInfo_sub_none hone hsubv
            subst this
            obtain ⟨hi, hii, hiii⟩ := ihF acc1 rest acc' out' t stk h2 hsub.rest hedge' hchain hall hnd
            refine ⟨?_, hii, hiii⟩
            intro g hg m sub hs
            rcases List.mem_cons.1 hg with rfl | hg
            · rw [hss, hsubv] at hs; cases hs
            · exact hi g hg m sub hs
          | some nfs =>
            obtain ⟨n, fs⟩ := nfs
            obtain ⟨s, hc⟩ := oneInfo_sub_some hone hsubv
            obtain ⟨hsub', hmem'⟩ := coh_sub_of_variant hinfo hsubv hsub
            have he : Edge ctx.d ctx.v t n := hedge f List.mem_cons_self n fs (by rw [hss, hsubv])
            obtain ⟨hn1, hn2, hn3, _⟩ := ihC acc n fs false acc1 s (t :: stk) hc hmem' hsub' ⟨he, hchain⟩ hall hnd
            obtain ⟨hi, hii, hiii⟩ := ihF acc1 rest acc' out' t stk h2 hsub.rest hedge' hchain hn2 hn3
            refine ⟨?_, hii, hiii⟩
            intro g hg m sub hs
            rcases List.mem_cons.1 hg with rfl | hg
            · rw [hss, hsubv] at hs
              simp only [Option.some.injEq, Prod.mk.injEq] at hs
              obtain ⟨rfl, rfl⟩ := hs
              exact hn1
            · exact hi g hg m sub hs

/-- the class names of a module generated from a supported definition are pairwise distinct -/
theorem coh_module_nodup {d : MsgDef} {b : List (List Nat)} {v : Nat} {gs : List GClass}
    (hs : Supported d v = true) (h : module d b v = .ok gs) : (gs.map (·.name)).Nodup := by
  unfold module at h
  cases hc : genClass ⟨d, v, b⟩ maxDepth [] d.name d.fields true with
  | error e => rw [hc] at h; cases h
  | ok r =>
    obtain ⟨acc', s⟩ := r
    rw [hc] at h
    cases h
    have := (gen_nodup ⟨d, v, b⟩ (coh_supInfo hs) maxDepth).1 [] d.name d.fields true acc' s [] hc
      (coh_top_mem d) (SubS.top d) trivial (by simp) (by simp)
    exact this.2.2.1

theorem coh_module_nodup' {d : MsgDef} {b : List (List Nat)} {v : Nat} {gs : List GClass}
    (hs : Supported d v = true) (h : module d b v = .ok gs) : (gs.dropLast.map (·.name)).Nodup := by
  rw [List.map_dropLast]
  exact (coh_module_nodup hs h).sublist (List.dropLast_sublist _)

end Kio.Gen
