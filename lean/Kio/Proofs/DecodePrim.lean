import Kio.Proofs.Prim
import Kio.Model.Typing
/-!
Two properties of decoders on arbitrary input -- the unread rest is a suffix of the input, and
every error is in C10's allowed set -- for the primitive readers and the reader combinators.
-/
namespace Kio

theorem bind_ok_iff {ε α β} {x : Except ε α} {f : α → Except ε β} {b : β} :
    (x >>= f = .ok b) ↔ ∃ a, x = .ok a ∧ f a = .ok b := by
  cases x <;> simp [bind, Except.bind]

theorem bind_err_iff {ε α β} {x : Except ε α} {f : α → Except ε β} {e : ε} :
    (x >>= f = .error e) ↔ (x = .error e ∨ ∃ a, x = .ok a ∧ f a = .error e) := by
  cases x <;> simp [bind, Except.bind]

/-- the unread rest of a successful decode is a suffix of the input -/
def SuffixDec {α} (d : Dec α) : Prop := ∀ bs v r, d bs = .ok (v, r) → r <:+ bs
/-- every error of the decoder is in C10's allowed set -/
def AllowedDec {α} (d : Dec α) : Prop := ∀ bs e, d bs = .error e → e.allowed = true

theorem readExact_suffix (n : Int) : SuffixDec (readExact n) := by
  intro bs a r h
  exact ⟨a, (readExact_ok h).1.symm⟩

theorem readExact_allowed (n : Int) : AllowedDec (readExact n) := by
  intro bs e h
  rw [readExact_err h]; rfl

theorem decIntN_suffix (w : Nat) (s : Bool) : SuffixDec (decIntN w s) := by
  intro bs a r h
  obtain ⟨p, hp, _⟩ := decIntN_ok_iff h
  exact ⟨p, hp.symm⟩

theorem decIntN_allowed (w : Nat) (s : Bool) : AllowedDec (decIntN w s) := by
  intro bs e h
  rw [decIntN_err h]; rfl

theorem decVarint_suffix (k : Nat) : SuffixDec (decVarint k) := by
  intro bs a r h
  obtain ⟨p, hp, _⟩ := decVarint_ok h
  exact ⟨p, hp.symm⟩

theorem decVarint_allowed (k : Nat) : AllowedDec (decVarint k) := by
  intro bs e h
  rcases decVarint_err h with h | h <;> rw [h] <;> rfl

theorem decodeUtf8_err {b : Bytes} {e : Err} (h : decodeUtf8 b = .error e) : e.allowed = true := by
  unfold decodeUtf8 at h
  split at h
  · contradiction
  · injection h with h; subst h; rfl

theorem timedeltaOfMs_err {n : Int} {e : Err} (h : timedeltaOfMs n = .error e) :
    e.allowed = true := by
  unfold timedeltaOfMs at h
  simp only at h
  split at h
  · contradiction
  · injection h with h; subst h; rfl

theorem tzAwareFromI64_err {cfg : TimeCfg} {n : Int} {e : Err}
    (h : tzAwareFromI64 cfg n = .error e) : e.allowed = true := by
  unfold tzAwareFromI64 at h
  split at h
  · split at h
    · rename_i e' he
      injection h with h; subst h
      exact timedeltaOfMs_err he
    · simp only at h
      repeat' split at h
      all_goals first | contradiction | (injection h with h; subst h; rfl)
  · simp only at h
    repeat' split at h
    all_goals first | contradiction | (injection h with h; subst h; rfl)


theorem compactCore_suffix (n : Bool) : SuffixDec (readCompactStringAsBytesCore n) := by
  intro bs v r h
  simp only [readCompactStringAsBytesCore, bind_ok_iff, Prod.exists] at h
  obtain ⟨k, r1, h1, h2⟩ := h
  have s1 := decVarint_suffix _ _ _ _ h1
  split at h2
  · split at h2
    · simp only [pure, Except.pure, Except.ok.injEq, Prod.mk.injEq] at h2
      obtain ⟨_, rfl⟩ := h2; exact s1
    · contradiction
  · simp only [bind_ok_iff, Prod.exists, pure, Except.pure, Except.ok.injEq, Prod.mk.injEq] at h2
    obtain ⟨a, r2, h3, _, rfl⟩ := h2
    exact (readExact_suffix _ _ _ _ h3).trans s1

theorem compactCore_allowed (n : Bool) : AllowedDec (readCompactStringAsBytesCore n) := by
  intro bs e h
  simp only [readCompactStringAsBytesCore, bind_err_iff, Prod.exists] at h
  rcases h with h | ⟨k, r1, h1, h2⟩
  · exact decVarint_allowed _ _ _ h
  · split at h2
    · split at h2
      · contradiction
      · injection h2 with h2; subst h2; rfl
    · simp only [bind_err_iff, Prod.exists, pure, Except.pure] at h2
      rcases h2 with h2 | ⟨_, _, _, h2⟩
      · exact readExact_allowed _ _ _ h2
      · contradiction

theorem legacyCore_suffix (w : Nat) (n : Bool) : SuffixDec (readLegacyCore w n) := by
  intro bs v r h
  simp only [readLegacyCore, bind_ok_iff, Prod.exists] at h
  obtain ⟨k, r1, h1, h2⟩ := h
  have s1 := decIntN_suffix _ _ _ _ _ h1
  split at h2
  · split at h2
    · simp only [pure, Except.pure, Except.ok.injEq, Prod.mk.injEq] at h2
      obtain ⟨_, rfl⟩ := h2; exact s1
    · contradiction
  · simp only [bind_ok_iff, Prod.exists, pure, Except.pure, Except.ok.injEq, Prod.mk.injEq] at h2
    obtain ⟨a, r2, h3, _, rfl⟩ := h2
    exact (readExact_suffix _ _ _ _ h3).trans s1

theorem legacyCore_allowed (w : Nat) (n : Bool) : AllowedDec (readLegacyCore w n) := by
  intro bs e h
  simp only [readLegacyCore, bind_err_iff, Prod.exists] at h
  rcases h with h | ⟨k, r1, h1, h2⟩
  · exact decIntN_allowed _ _ _ _ h
  · split at h2
    · split at h2
      · contradiction
      · injection h2 with h2; subst h2; rfl
    · simp only [bind_err_iff, Prod.exists, pure, Except.pure] at h2
      rcases h2 with h2 | ⟨_, _, _, h2⟩
      · exact readExact_allowed _ _ _ h2
      · contradiction


theorem PrimR.run_suffix (env : Env) (r : PrimR) : SuffixDec (r.run env) := by
  intro bs v rest h
  cases r <;>
  simp only [PrimR.run, readInt8, readInt16, readInt32, readInt64, readUint8, readUint16, readUint32,
    readUint64, readFloat64, readCompactString, readCompactStringNullable, readLegacyString,
    readNullableLegacyString, readCompactStringAsBytes, readCompactStringAsBytesNullable,
    readLegacyBytes, readNullableLegacyBytes, readUuid, readBoolean, readErrorCode,
    readTimedeltaI32, readTimedeltaI64, readDatetimeI64, readNullableDatetimeI64,
    bind_ok_iff, Prod.exists, pure, Except.pure, Except.ok.injEq, Prod.mk.injEq] at h
  all_goals
    obtain ⟨a, b, h1, h2⟩ := h
    have hb : b = rest := by
      repeat' split at h2
      all_goals first
        | exact h2.2
        | contradiction
        | (obtain ⟨_, _, _, hb⟩ := h2; exact hb)
        | (injection h2 with h2; injection h2 with _ h2)
        | (obtain ⟨_, _, h3⟩ := bind_ok h2; injection h3 with h3; injection h3 with _ h3)
    subst hb
    first
      | exact decIntN_suffix _ _ _ _ _ h1
      | exact readExact_suffix _ _ _ _ h1
      | exact compactCore_suffix _ _ _ _ h1
      | exact legacyCore_suffix _ _ _ _ _ h1

theorem PrimR.run_allowed (env : Env) (r : PrimR) : AllowedDec (r.run env) := by
  intro bs e h
  cases r <;>
  simp only [PrimR.run, readInt8, readInt16, readInt32, readInt64, readUint8, readUint16, readUint32,
    readUint64, readFloat64, readCompactString, readCompactStringNullable, readLegacyString,
    readNullableLegacyString, readCompactStringAsBytes, readCompactStringAsBytesNullable,
    readLegacyBytes, readNullableLegacyBytes, readUuid, readBoolean, readErrorCode,
    readTimedeltaI32, readTimedeltaI64, readDatetimeI64, readNullableDatetimeI64,
    bind_err_iff, Prod.exists, pure, Except.pure] at h
  all_goals
    rcases h with h | ⟨a, b, h1, h2⟩
    · first
      | exact decIntN_allowed _ _ _ _ h
      | exact readExact_allowed _ _ _ h
      | exact compactCore_allowed _ _ _ h
      | exact legacyCore_allowed _ _ _ _ h
    · repeat' split at h2
      all_goals first
        | contradiction
        | (injection h2 with h2; subst h2; rfl)
        | (rcases h2 with h2 | ⟨_, _, h2⟩
           · first | exact decodeUtf8_err h2 | exact timedeltaOfMs_err h2 | exact tzAwareFromI64_err h2
           · contradiction)
        | (rcases bind_err h2 with h2 | ⟨_, _, h2⟩
           · first | exact decodeUtf8_err h2 | exact timedeltaOfMs_err h2 | exact tzAwareFromI64_err h2
           · contradiction)

/-! ### combinators -/

theorem decMany_suffix {d : Dec Value} (hd : SuffixDec d) (n : Nat) : SuffixDec (decMany d n) := by
  induction n with
  | zero =>
    intro bs v r h
    simp only [decMany, Except.ok.injEq, Prod.mk.injEq] at h
    rw [h.2]; exact List.suffix_refl _
  | succ n ih =>
    intro bs v r h
    simp only [decMany, bind_ok_iff, Prod.exists, pure, Except.pure, Except.ok.injEq,
      Prod.mk.injEq] at h
    obtain ⟨a, r1, h1, vs, r2, h2, _, rfl⟩ := h
    exact (ih _ _ _ h2).trans (hd _ _ _ h1)

theorem decMany_allowed {d : Dec Value} (hd : AllowedDec d) (n : Nat) : AllowedDec (decMany d n) := by
  induction n with
  | zero => intro bs e h; simp [decMany] at h
  | succ n ih =>
    intro bs e h
    simp only [decMany, bind_err_iff, Prod.exists, pure, Except.pure] at h
    rcases h with h | ⟨a, r1, h1, h | ⟨vs, r2, h2, h⟩⟩
    · exact hd _ _ h
    · exact ih _ _ h
    · contradiction

theorem compactArrayReader_suffix {d : Dec Value} (hd : SuffixDec d) :
    SuffixDec (compactArrayReader d) := by
  intro bs v r h
  simp only [compactArrayReader, readCompactArrayLength, bind_ok_iff, Prod.exists, pure,
    Except.pure, Except.ok.injEq, Prod.mk.injEq] at h
  obtain ⟨n, r1, ⟨k, r0, h0, _, rfl⟩, h2⟩ := h
  have s0 := decVarint_suffix _ _ _ _ h0
  split at h2
  · simp only [Except.ok.injEq, Prod.mk.injEq] at h2
    obtain ⟨_, rfl⟩ := h2; exact s0
  · simp only [bind_ok_iff, Prod.exists, Except.ok.injEq, Prod.mk.injEq] at h2
    obtain ⟨vs, r2, h3, _, rfl⟩ := h2
    exact (decMany_suffix hd _ _ _ _ h3).trans s0

theorem compactArrayReader_allowed {d : Dec Value} (hd : AllowedDec d) :
    AllowedDec (compactArrayReader d) := by
  intro bs e h
  simp only [compactArrayReader, readCompactArrayLength, bind_err_iff, bind_ok_iff, Prod.exists,
    pure, Except.pure, Except.ok.injEq, Prod.mk.injEq] at h
  rcases h with (h | ⟨_, _, _, h⟩) | ⟨n, r1, _, h2⟩
  · exact decVarint_allowed _ _ _ h
  · contradiction
  · split at h2
    · contradiction
    · rcases bind_err h2 with h2 | ⟨_, _, h2⟩
      · exact decMany_allowed hd _ _ _ h2
      · contradiction

theorem legacyArrayReader_suffix {d : Dec Value} (hd : SuffixDec d) :
    SuffixDec (legacyArrayReader d) := by
  intro bs v r h
  simp only [legacyArrayReader, readLegacyArrayLength, bind_ok_iff, Prod.exists, pure,
    Except.pure] at h
  obtain ⟨n, r1, h0, h2⟩ := h
  have s0 := decIntN_suffix _ _ _ _ _ h0
  split at h2
  · simp only [Except.ok.injEq, Prod.mk.injEq] at h2
    obtain ⟨_, rfl⟩ := h2; exact s0
  · simp only [bind_ok_iff, Prod.exists, Except.ok.injEq, Prod.mk.injEq] at h2
    obtain ⟨vs, r2, h3, _, rfl⟩ := h2
    exact (decMany_suffix hd _ _ _ _ h3).trans s0

theorem legacyArrayReader_allowed {d : Dec Value} (hd : AllowedDec d) :
    AllowedDec (legacyArrayReader d) := by
  intro bs e h
  simp only [legacyArrayReader, readLegacyArrayLength, bind_err_iff, Prod.exists,
    pure, Except.pure] at h
  rcases h with h | ⟨n, r1, _, h2⟩
  · exact decIntN_allowed _ _ _ _ h
  · split at h2
    · contradiction
    · rcases bind_err h2 with h2 | ⟨_, _, h2⟩
      · exact decMany_allowed hd _ _ _ h2
      · contradiction

theorem arrayReader_suffix (flex : Bool) {d : Dec Value} (hd : SuffixDec d) :
    SuffixDec (arrayReader flex d) := by
  unfold arrayReader
  split
  · exact compactArrayReader_suffix hd
  · exact legacyArrayReader_suffix hd

theorem arrayReader_allowed (flex : Bool) {d : Dec Value} (hd : AllowedDec d) :
    AllowedDec (arrayReader flex d) := by
  unfold arrayReader
  split
  · exact compactArrayReader_allowed hd
  · exact legacyArrayReader_allowed hd

theorem readNullable_suffix {d : Dec Value} (hd : SuffixDec d) : SuffixDec (readNullable d) := by
  intro bs v r h
  simp only [readNullable, bind_ok_iff, Prod.exists, pure, Except.pure] at h
  obtain ⟨m, r1, h1, h2⟩ := h
  have s1 := decIntN_suffix _ _ _ _ _ h1
  split at h2
  · simp only [Except.ok.injEq, Prod.mk.injEq] at h2
    obtain ⟨_, rfl⟩ := h2; exact s1
  · split at h2
    · exact (hd _ _ _ h2).trans s1
    · contradiction

theorem readNullable_allowed {d : Dec Value} (hd : AllowedDec d) : AllowedDec (readNullable d) := by
  intro bs e h
  simp only [readNullable, bind_err_iff, Prod.exists, pure, Except.pure] at h
  rcases h with h | ⟨m, r1, _, h2⟩
  · exact decIntN_allowed _ _ _ _ h
  · split at h2
    · contradiction
    · split at h2
      · exact hd _ _ h2
      · injection h2 with h2; subst h2; rfl

theorem lookupTagged_mem {plan : List TaggedR} {t : Nat} {e : TaggedR}
    (h : lookupTagged plan t = some e) : e ∈ plan :=
  List.mem_of_find?_eq_some h

theorem readTaggedLoop_suffix (skip : Bool) (plan : List TaggedR)
    (hp : ∀ e ∈ plan, SuffixDec e.read) (n : Nat) :
    ∀ bs acc out r, readTaggedLoop skip plan n bs acc = .ok (out, r) → r <:+ bs := by
  induction n with
  | zero =>
    intro bs acc out r h
    simp only [readTaggedLoop, Except.ok.injEq, Prod.mk.injEq] at h
    rw [h.2]; exact List.suffix_refl _
  | succ n ih =>
    intro bs acc out r h
    simp only [readTaggedLoop, bind_ok_iff, Prod.exists] at h
    obtain ⟨tag, r1, h1, size, r2, h2, h3⟩ := h
    have s2 := (decVarint_suffix _ _ _ _ h2).trans (decVarint_suffix _ _ _ _ h1)
    split at h3
    · rename_i e he
      simp only [bind_ok_iff, Prod.exists] at h3
      obtain ⟨v, r3, h4, h5⟩ := h3
      exact ((ih _ _ _ _ h5).trans (hp e (lookupTagged_mem he) _ _ _ h4)).trans s2
    · split at h3
      · simp only [bind_ok_iff, Prod.exists] at h3
        obtain ⟨_, r3, h4, h5⟩ := h3
        exact ((ih _ _ _ _ h5).trans (readExact_suffix _ _ _ _ h4)).trans s2
      · contradiction

theorem readTaggedLoop_allowed (plan : List TaggedR)
    (hp : ∀ e ∈ plan, AllowedDec e.read) (n : Nat) :
    ∀ bs acc e, readTaggedLoop true plan n bs acc = .error e → e.allowed = true := by
  induction n with
  | zero => intro bs acc e h; simp [readTaggedLoop] at h
  | succ n ih =>
    intro bs acc e h
    simp only [readTaggedLoop, bind_err_iff, Prod.exists] at h
    rcases h with h | ⟨tag, r1, _, h | ⟨size, r2, _, h3⟩⟩
    · exact decVarint_allowed _ _ _ h
    · exact decVarint_allowed _ _ _ h
    · split at h3
      · rename_i en he
        simp only [bind_err_iff, Prod.exists] at h3
        rcases h3 with h3 | ⟨_, _, _, h3⟩
        · exact hp en (lookupTagged_mem he) _ _ h3
        · exact ih _ _ _ h3
      · simp only [if_true, bind_err_iff, Prod.exists] at h3
        rcases h3 with h3 | ⟨_, _, _, h3⟩
        · exact readExact_allowed _ _ _ h3
        · exact ih _ _ _ h3

end Kio
