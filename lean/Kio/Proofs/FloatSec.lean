import Kio.Proofs.Float
import Kio.Proofs.RecRead
/-! `fromtimestamp(1000·S / 1000)` is exactly `S` seconds: integers below `2^53` are binary64 values. -/
namespace Kio

theorem pyRound_intCast (k : ℤ) : pyRound (k : ℚ) = k :=
  pyRound_eq_of_close _ k (by simp)

/-- an accepted candidate exponent reproduces an integer below `2^53` exactly -/
theorem tryExp_int {S : ℤ} (hS : S < 2 ^ 53) {e : ℤ} {y : ℚ}
    (h : tryExp (S : ℚ) e = some y) : y = (S : ℚ) := by
  unfold tryExp at h
  split_ifs at h with hc
  obtain ⟨hlo, _⟩ := hc
  injection h with h
  subst h
  have hSq : (S : ℚ) < 2 ^ 53 := by exact_mod_cast hS
  -- the exponent is not positive
  have he : e ≤ 0 := by
    by_contra hne
    have h1 : (1 : ℤ) ≤ e := by omega
    have : (2 : ℚ) ^ (53 : ℤ) ≤ pow2 (e + 52) := by
      rw [pow2_eq_zpow]
      exact zpow_le_zpow_right₀ (by norm_num) (by omega)
    have h53 : (2 : ℚ) ^ (53 : ℤ) = 2 ^ 53 := by norm_cast
    rw [h53] at this
    linarith
  obtain ⟨n, hn⟩ := Int.eq_ofNat_of_zero_le (show 0 ≤ -e by omega)
  have he' : e = -(n : ℤ) := by omega
  subst he'
  have hp : pow2 (-(n : ℤ)) = 1 / (2 : ℚ) ^ n := by
    rw [pow2_eq_zpow, zpow_neg, zpow_natCast]; simp
  have hpos : (0 : ℚ) < 2 ^ n := by positivity
  have hdiv : (S : ℚ) / pow2 (-(n : ℤ)) = ((S * 2 ^ n : ℤ) : ℚ) := by
    rw [hp]; push_cast; field_simp
  rw [hdiv, pyRound_intCast, hp]
  push_cast
  field_simp

theorem flPos_int {S : ℤ} (hS : S < 2 ^ 53) : flPos (S : ℚ) = S := by
  unfold flPos
  simp only
  apply orElse_getD_prop (fun y => y = (S : ℚ))
  · intro y h; exact tryExp_int hS h
  · intro y h; exact tryExp_int hS h
  · intro y h; exact tryExp_int hS h
  · rfl

theorem fl53_int {S : ℤ} (h0 : 0 ≤ S) (hS : S < 2 ^ 53) : fl53 (S : ℚ) = S := by
  unfold fl53
  split_ifs with hz hpos
  · exact hz.symm
  · exact flPos_int hS
  · exfalso
    have : (0 : ℚ) ≤ S := by exact_mod_cast h0
    rcases lt_or_eq_of_le this with h | h
    · exact hpos h
    · exact hz h.symm

theorem float_sec : FloatSec := by
  intro S h0 h1
  have hS : S < 2 ^ 53 := by omega
  have hx : (((S * 1000 : ℤ)) : ℚ) / 1000 = (S : ℚ) := by push_cast; field_simp
  have hSq : (0 : ℚ) ≤ S := by exact_mod_cast h0
  unfold secMicrosOfMsFloat
  simp only [hx, fl53_int h0 hS, hSq, if_true, Rat.floor_intCast, sub_self, zero_mul]
  have : fl53 0 = 0 := by simp [fl53]
  rw [this]
  have h0r : pyRound 0 = 0 := by simpa using pyRound_intCast 0
  rw [h0r]
  simp

end Kio
