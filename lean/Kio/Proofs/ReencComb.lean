import Kio.Proofs.ReencPrim
import Kio.Proofs.CodecTagged
/-!
Re-encodability through the combinators: arrays, nullable entities, the untagged part and the
tagged section.  Because the reader ignores the size prefix of a known tagged field (any varint
is accepted) while the writer emits the minimal encoding of the real size, a re-encoded tagged
item may be up to 4 bytes longer than the consumed one; the invariant is therefore
`re-encoded ≤ 3 × consumed`.
-/
namespace Kio

/-- what the reader returns is accepted by the writer; the re-encoding is at most three times as
    long as what was consumed -/
def RW3 (r : Dec Value) (w : Value → Except Err Bytes) : Prop :=
  ∀ bs v rest, 3 * bs.length < 2 ^ 35 → r bs = .ok (v, rest) →
    ∃ b, w v = .ok b ∧ b.length + 3 * rest.length ≤ 3 * bs.length

/-- the same for a tagged field with default `d`: a value equal (`==`) to the default is never
    handed to the writer -/
def RW3d (d : Value) (r : Dec Value) (w : Value → Except Err Bytes) : Prop :=
  ∀ bs v rest, 3 * bs.length < 2 ^ 35 → r bs = .ok (v, rest) →
    (v.pyEq d = true ∧ rest.length ≤ bs.length)
      ∨ ∃ b, w v = .ok b ∧ b.length + 3 * rest.length ≤ 3 * bs.length

theorem RW1.toRW3 {r : Dec Value} {w : Value → Except Err Bytes} (h : RW1 r w) : RW3 r w := by
  intro bs v rest _ hr
  obtain ⟨b, hb, hl⟩ := h bs v rest hr
  exact ⟨b, hb, by omega⟩

theorem RW3.toRW3d {r : Dec Value} {w : Value → Except Err Bytes} (d : Value) (h : RW3 r w) :
    RW3d d r w := fun bs v rest hl hr => Or.inr (h bs v rest hl hr)

/-! ### arrays -/

theorem encMany_re {item : Dec Value} {w : Value → Except Err Bytes} (h : RW3 item w) :
    ∀ (n : Nat) (bs : Bytes) (vs : List Value) (rest : Bytes), 3 * bs.length < 2 ^ 35 →
      decMany item n bs = .ok (vs, rest) →
      ∃ b, encMany w vs = .ok b ∧ b.length + 3 * rest.length ≤ 3 * bs.length ∧ vs.length = n := by
  intro n
  induction n with
  | zero =>
    intro bs vs rest _ hr
    simp only [decMany] at hr
    injection hr with hr; injection hr with h1 h2; subst h1 h2
    exact ⟨[], rfl, by simp, rfl⟩
  | succ n ih =>
    intro bs vs rest hlen hr
    simp only [decMany] at hr
    obtain ⟨⟨v, bs1⟩, h1, h2⟩ := bind_ok hr
    simp only at h2
    obtain ⟨⟨vs', bs2⟩, h3, h4⟩ := bind_ok h2
    simp only [pure, Except.pure] at h4
    injection h4 with h4; injection h4 with h4 h5; subst h4 h5
    obtain ⟨a, ha, hla⟩ := h bs v bs1 hlen h1
    obtain ⟨b, hb, hlb, hn⟩ := ih bs1 vs' bs2 (by omega) h3
    refine ⟨a ++ b, ?_, ?_, ?_⟩
    · simp only [encMany, ha, hb, ok_bind_re]; rfl
    · rw [List.length_append]; omega
    · simp [hn]

theorem compactArray_re {item : Dec Value} {w : Value → Except Err Bytes} (h : RW3 item w) :
    RW3 (compactArrayReader item) (compactArrayWriter w) := by
  intro bs v rest hlen hr
  unfold compactArrayReader readCompactArrayLength at hr
  obtain ⟨⟨n, r⟩, h1, h2⟩ := bind_ok hr
  obtain ⟨⟨k, r0⟩, h0, h1'⟩ := bind_ok h1
  simp only [pure, Except.pure] at h1'
  injection h1' with h1'; injection h1' with hn hr0; subst hn hr0
  have hc := decVarint_consumed h0
  have hk := decVarint_lt h0
  rw [pow128_5] at hk
  have hpos := encVarint_length_pos k
  simp only at h2
  split at h2
  · rename_i hm1
    simp only [pure, Except.pure] at h2
    injection h2 with h2; injection h2 with h2 h3; subst h2 h3
    have hk0 : k = 0 := by omega
    subst hk0
    refine ⟨encVarint 0, ?_, by omega⟩
    simp only [compactArrayWriter, writeCompactArrayLength]
    rw [uvarintCtor_nat 0 (by omega) (by omega)]; rfl
  · rename_i hm1
    obtain ⟨⟨vs, r2⟩, h3, h4⟩ := bind_ok h2
    simp only [pure, Except.pure] at h4
    injection h4 with h4; injection h4 with h4 h5; subst h4 h5
    obtain ⟨body, hb, hlb, hn⟩ := encMany_re h _ r0 vs r2 (by omega) h3
    refine ⟨encVarint k ++ body, ?_, ?_⟩
    · simp only [compactArrayWriter, writeCompactArrayLength]
      rw [uvarintCtor_nat k (by omega) hk]
      simp only [ok_bind_re, pure, Except.pure, hb]
    · rw [List.length_append]; omega

theorem intHi4 : intHi 4 true = 2147483647 := by simp [intHi]
theorem intLo4 : intLo 4 true = -2147483648 := by simp [intLo]

theorem legacyArray_re {item : Dec Value} {w : Value → Except Err Bytes} (h : RW3 item w) :
    RW3 (legacyArrayReader item) (legacyArrayWriter w) := by
  intro bs v rest hlen hr
  unfold legacyArrayReader readLegacyArrayLength at hr
  obtain ⟨⟨n, r⟩, h1, h2⟩ := bind_ok hr
  obtain ⟨hlo, hhi, hl4⟩ := decIntN_range (by omega) h1
  rw [intLo4] at hlo
  rw [intHi4] at hhi
  simp only at h2
  split at h2
  · simp only [pure, Except.pure] at h2
    injection h2 with h2; injection h2 with h2 h3; subst h2 h3
    obtain ⟨b, hb, hl⟩ := encIntN_neg1 4
    exact ⟨b, by simpa [legacyArrayWriter] using hb, by omega⟩
  · obtain ⟨⟨vs, r2⟩, h3, h4⟩ := bind_ok h2
    simp only [pure, Except.pure] at h4
    injection h4 with h4; injection h4 with h4 h5; subst h4 h5
    obtain ⟨body, hb, hlb, hn⟩ := encMany_re h _ r vs r2 (by omega) h3
    have hvs : (vs.length : Int) ≤ intHi 4 true := by rw [intHi4]; omega
    obtain ⟨l, hl1, hl2⟩ := encIntN_of_range (w := 4) (s := true) (v := (vs.length : Int))
      ⟨by rw [intLo4]; omega, hvs⟩
    refine ⟨l ++ body, ?_, ?_⟩
    · simp only [legacyArrayWriter]
      rw [if_pos hvs, hl1]
      simp only [ok_bind_re, pure, Except.pure, hb]
    · rw [List.length_append]; omega

theorem array_re (flex : Bool) {item : Dec Value} {w : Value → Except Err Bytes} (h : RW3 item w) :
    RW3 (arrayReader flex item) (arrayWriter flex w) := by
  unfold arrayReader arrayWriter
  cases flex
  · exact legacyArray_re h
  · exact compactArray_re h

/-! ### nullable entities -/

theorem nullable_re {r : Dec Value} {w : Value → Except Err Bytes} (h : RW3 r w) :
    RW3 (readNullable r) (writeNullable w) := by
  intro bs v rest hlen hr
  unfold readNullable at hr
  obtain ⟨⟨m, r1⟩, h1, h2⟩ := bind_ok hr
  obtain ⟨_, _, hl1⟩ := decIntN_range (by omega) h1
  simp only at h2
  obtain ⟨n1, hn1, hn1l⟩ := encIntN_neg1 1
  split at h2
  · simp only [pure, Except.pure] at h2
    injection h2 with h2; injection h2 with h2 h3; subst h2 h3
    exact ⟨n1, hn1, by omega⟩
  · split at h2
    · obtain ⟨b, hb, hlb⟩ := h r1 v rest (by omega) h2
      by_cases hv : v = .none
      · subst hv
        exact ⟨n1, hn1, by omega⟩
      · obtain ⟨a, ha, hal⟩ := encIntN_of_range (w := 1) (s := true) (v := 1)
          (by simp [intLo, intHi])
        have he : writeNullable w v
            = (do let a ← encIntN 1 true 1; let b ← w v; pure (a ++ b) : Except Err Bytes) := by
          cases v <;> first | rfl | exact absurd rfl hv
        refine ⟨a ++ b, ?_, ?_⟩
        · rw [he, ha, hb]; rfl
        · rw [List.length_append]; omega
    · contradiction

/-! ### the untagged part -/

theorem readUntagged_re (env : Env) (flex rh : Bool) (acc : List (Nat × Value)) :
    ∀ (fs : List Field),
      (∀ f ∈ fs, f.isTagged = false →
        RW3 (Field.read env flex rh false f) (Field.write env flex rh false f)) →
      ∀ (bs : Bytes) (us : List Value) (rest : Bytes), 3 * bs.length < 2 ^ 35 →
        Fields.readUntagged env flex rh fs bs = .ok (us, rest) →
        ∃ a, Fields.writeUntagged env flex rh fs (assemble (Fields.slots env fs) us acc) = .ok a
          ∧ a.length + 3 * rest.length ≤ 3 * bs.length := by
  intro fs
  induction fs with
  | nil =>
    intro _ bs us rest _ hr
    simp only [Fields.readUntagged] at hr
    injection hr with hr; injection hr with h1 h2; subst h1 h2
    exact ⟨[], by simp [Fields.slots, assemble, Fields.writeUntagged], by simp⟩
  | cons f fs ih =>
    intro hf bs us rest hlen hr
    have ih' := ih (fun g hg => hf g (by simp [hg]))
    simp only [Fields.readUntagged] at hr
    cases ht : f.isTagged
    · -- untagged
      simp only [ht, Bool.false_eq_true, if_false] at hr
      obtain ⟨⟨v, bs1⟩, h1, h2⟩ := bind_ok hr
      simp only at h2
      obtain ⟨⟨vs, bs2⟩, h3, h4⟩ := bind_ok h2
      simp only [pure, Except.pure] at h4
      injection h4 with h4; injection h4 with h4 h5; subst h4 h5
      obtain ⟨a, ha, hla⟩ := hf f (by simp) ht bs v bs1 hlen h1
      obtain ⟨b, hb, hlb⟩ := ih' bs1 vs bs2 (by omega) h3
      have htn : f.tagNat = none := by
        have := Field.isTagged_eq f
        rw [ht] at this
        cases h : f.tagNat with
        | none => rfl
        | some t => rw [h] at this; simp at this
      refine ⟨a ++ b, ?_, ?_⟩
      · have hs : Fields.slots env (f :: fs) = none :: Fields.slots env fs := by
          simp only [Fields.slots, htn]
        rw [hs]
        simp only [assemble]
        rw [Fields.writeUntagged]
        simp only [ht, Bool.false_eq_true, if_false]
        rw [ha, ok_bind_re, hb, ok_bind_re]
        rfl
      · rw [List.length_append]; omega
    · -- tagged: skipped on both sides
      simp only [ht, if_true] at hr
      obtain ⟨b, hb, hlb⟩ := ih' bs us rest hlen hr
      have htn : ∃ t, f.tagNat = some t := by
        have := Field.isTagged_eq f
        rw [ht] at this
        cases h : f.tagNat with
        | none => simp [h] at this
        | some t => exact ⟨t, rfl⟩
      obtain ⟨t, htn⟩ := htn
      refine ⟨b, ?_, hlb⟩
      have hs : Fields.slots env (f :: fs)
          = some (t, (Field.taggedDefault env f).toOption.getD .none) :: Fields.slots env fs := by
        simp only [Fields.slots, htn]
      rw [hs]
      simp only [assemble]
      rw [Fields.writeUntagged]
      simp only [ht, if_true]
      exact hb

/-! ### sums over the accumulated tagged entries -/

def sumBy {α} (c : α → Nat) : List α → Nat
  | [] => 0
  | a :: l => c a + sumBy c l

/-- the sum of `c` over the entries that `taggedValue` finds for the tags `ts` -/
def foundSum (c : Nat × Value → Nat) (acc : List (Nat × Value)) : List Nat → Nat
  | [] => 0
  | t :: ts =>
    (match acc.find? (fun a => a.1 = t) with
     | some a => c a
     | none => 0) + foundSum c acc ts

theorem foundSum_cons_notin (c : Nat × Value → Nat) (a : Nat × Value) (acc : List (Nat × Value))
    (ts : List Nat) (h : a.1 ∉ ts) : foundSum c (a :: acc) ts = foundSum c acc ts := by
  induction ts with
  | nil => rfl
  | cons t ts ih =>
    have hne : ¬ a.1 = t := fun e => h (by simp [e])
    simp only [foundSum, List.find?_cons, hne, decide_false]
    rw [ih (fun hm => h (by simp [hm]))]

theorem foundSum_cons_le (c : Nat × Value → Nat) (a : Nat × Value) (acc : List (Nat × Value))
    (ts : List Nat) (hn : ts.Nodup) : foundSum c (a :: acc) ts ≤ c a + foundSum c acc ts := by
  induction ts with
  | nil => simp [foundSum]
  | cons t ts ih =>
    have hn' := List.nodup_cons.mp hn
    by_cases hat : a.1 = t
    · have hnot : a.1 ∉ ts := by rw [hat]; exact hn'.1
      simp only [foundSum, List.find?_cons, hat, decide_true]
      rw [← hat, foundSum_cons_notin c a acc ts hnot]
      omega
    · have := ih hn'.2
      simp only [foundSum, List.find?_cons, hat, decide_false]
      omega

theorem foundSum_le (c : Nat × Value → Nat) (acc : List (Nat × Value)) (ts : List Nat)
    (hn : ts.Nodup) : foundSum c acc ts ≤ sumBy c acc := by
  induction acc with
  | nil =>
    clear hn
    induction ts with
    | nil => simp [foundSum, sumBy]
    | cons t ts ih => simpa [foundSum, sumBy] using ih
  | cons a acc ih =>
    have := foundSum_cons_le c a acc ts hn
    simp only [sumBy]
    omega

theorem sumBy_one {α} (l : List α) : sumBy (fun _ => 1) l = l.length := by
  induction l with
  | nil => rfl
  | cons a l ih => simp [sumBy, ih]; omega

/-! ### the tagged section, reader loop -/

/-- an accumulated entry is either dropped by the writer (equal to the default) or accepted -/
def Good (W : Nat → Value → Except Err Bytes) (D : Nat → Value) (a : Nat × Value) : Prop :=
  a.2.pyEq (D a.1) = true ∨ ∃ b, writeTaggedField a.1 (W a.1) a.2 = .ok b

/-- the bytes the writer emits for an accumulated entry (if it is the one that survives) -/
def cost (W : Nat → Value → Except Err Bytes) (D : Nat → Value) (a : Nat × Value) : Nat :=
  if a.2.pyEq (D a.1) then 0
  else match writeTaggedField a.1 (W a.1) a.2 with
    | .ok b => b.length
    | .error _ => 0

theorem cost_default {W : Nat → Value → Except Err Bytes} {D : Nat → Value} {a : Nat × Value}
    (h : a.2.pyEq (D a.1) = true) : cost W D a = 0 := by
  unfold cost; rw [if_pos h]

theorem cost_written {W : Nat → Value → Except Err Bytes} {D : Nat → Value} {a : Nat × Value}
    {b : Bytes} (h : a.2.pyEq (D a.1) = false) (hw : writeTaggedField a.1 (W a.1) a.2 = .ok b) :
    cost W D a = b.length := by
  unfold cost; rw [if_neg (by simp [h]), hw]

theorem cost_le {W : Nat → Value → Except Err Bytes} {D : Nat → Value} {a : Nat × Value}
    {b : Bytes} (hw : writeTaggedField a.1 (W a.1) a.2 = .ok b) : cost W D a ≤ b.length := by
  unfold cost
  split
  · omega
  · rw [hw]; exact Nat.le_refl _

theorem writeTaggedField_of {t : Nat} {w : Value → Except Err Bytes} {v : Value} {p : Bytes}
    (hw : w v = .ok p) (hp : p.length < 2 ^ 35) :
    writeTaggedField t w v = .ok (encVarint t ++ encVarint p.length ++ p) := by
  unfold writeTaggedField
  rw [hw, ok_bind_re, uvarintCtor_nat p.length rfl hp]
  rfl

theorem readTaggedLoop_re (skip : Bool) (plan : List TaggedR)
    (W : Nat → Value → Except Err Bytes) (D : Nat → Value)
    (H : ∀ t e, lookupTagged plan t = some e → RW3d (D t) e.read (W t)) :
    ∀ (n : Nat) (bs : Bytes) (acc0 acc : List (Nat × Value)) (rest : Bytes),
      3 * bs.length < 2 ^ 35 →
      readTaggedLoop skip plan n bs acc0 = .ok (acc, rest) →
      (∀ a ∈ acc0, Good W D a) →
      (∀ a ∈ acc, Good W D a) ∧ acc.length ≤ acc0.length + n
        ∧ sumBy (cost W D) acc + 3 * rest.length ≤ sumBy (cost W D) acc0 + 3 * bs.length := by
  intro n
  induction n with
  | zero =>
    intro bs acc0 acc rest _ hr hg
    simp only [readTaggedLoop] at hr
    injection hr with hr; injection hr with h1 h2; subst h1 h2
    exact ⟨hg, by omega, by omega⟩
  | succ n ih =>
    intro bs acc0 acc rest hlen hr hg
    simp only [readTaggedLoop] at hr
    obtain ⟨⟨t, r1⟩, h1, h2⟩ := bind_ok hr
    simp only at h2
    obtain ⟨⟨size, r2⟩, h3, h4⟩ := bind_ok h2
    simp only at h4
    have hc1 := decVarint_consumed h1
    have hc2 := decVarint_consumed h3
    have hp1 := encVarint_length_pos t
    have hp2 := encVarint_length_pos size
    split at h4
    · rename_i e he
      obtain ⟨⟨v, r3⟩, h5, h6⟩ := bind_ok h4
      simp only at h6
      have hmem : ∀ x, Good W D x → ∀ a ∈ x :: acc0, Good W D a := by
        intro x hx a ha
        rcases List.mem_cons.mp ha with rfl | ha
        · exact hx
        · exact hg a ha
      rcases H t e he r2 v r3 (by omega) h5 with ⟨hd, hl3⟩ | ⟨p, hp, hlp⟩
      · -- equal to the default: never written
        have hcost : cost W D (t, v) = 0 := cost_default hd
        obtain ⟨g, hl, hs⟩ := ih r3 ((t, v) :: acc0) acc rest (by omega) h6
          (hmem _ (Or.inl hd))
        refine ⟨g, ?_, ?_⟩
        · simp only [List.length_cons] at hl; omega
        · simp only [sumBy, hcost] at hs; omega
      · have hplt : p.length < 2 ^ 35 := by omega
        have hw := writeTaggedField_of (t := t) hp hplt
        have hcost := cost_le (W := W) (D := D) (a := (t, v)) hw
        have h5le := encVarint_length_le5 hplt
        simp only [List.length_append] at hcost
        obtain ⟨g, hl, hs⟩ := ih r3 ((t, v) :: acc0) acc rest (by omega) h6
          (hmem _ (Or.inr ⟨_, hw⟩))
        refine ⟨g, ?_, ?_⟩
        · simp only [List.length_cons] at hl; omega
        · simp only [sumBy] at hs; omega
    · split at h4
      · obtain ⟨⟨x, r3⟩, h5, h6⟩ := bind_ok h4
        simp only at h6
        obtain ⟨hbs, _⟩ := readExact_ok h5
        have hl3 : r3.length ≤ r2.length := by rw [hbs, List.length_append]; omega
        obtain ⟨g, hl, hs⟩ := ih r3 acc0 acc rest (by omega) h6 hg
        exact ⟨g, by omega, by omega⟩
      · contradiction

/-! ### the tagged section, writer side -/

theorem flattenItems_cons (x : Nat × Bytes) (l : List (Nat × Bytes)) :
    flattenItems (x :: l) = x.2 ++ flattenItems l := by
  simp [flattenItems]

theorem insertByTag_length_re (x : Nat × Bytes) (l : List (Nat × Bytes)) :
    (insertByTag x l).length = l.length + 1
    ∧ (flattenItems (insertByTag x l)).length = x.2.length + (flattenItems l).length := by
  induction l with
  | nil => simp [insertByTag, flattenItems]
  | cons y ys ih =>
    simp only [insertByTag]
    split
    · simp [flattenItems_cons]
    · simp only [List.length_cons, flattenItems_cons, List.length_append, ih.1, ih.2]
      exact ⟨trivial, by omega⟩

theorem sortByTag_length_re (l : List (Nat × Bytes)) :
    (sortByTag l).length = l.length
    ∧ (flattenItems (sortByTag l)).length = (flattenItems l).length := by
  induction l with
  | nil => simp [sortByTag]
  | cons x xs ih =>
    obtain ⟨h1, h2⟩ := insertByTag_length_re x (sortByTag xs)
    obtain ⟨i1, i2⟩ := ih
    have e : sortByTag (x :: xs) = insertByTag x (sortByTag xs) := rfl
    rw [e, h1, h2, i1, i2, flattenItems_cons, List.length_append]
    exact ⟨rfl, rfl⟩

theorem taggedItems_re (env : Env) (flex rh : Bool)
    (W : Nat → Value → Except Err Bytes) (D : Nat → Value) (acc : List (Nat × Value))
    (hg : ∀ a ∈ acc, Good W D a) :
    ∀ (fs : List Field),
      (∀ f ∈ fs, ∀ t, f.tagNat = some t →
        Field.write env flex rh true f = W t ∧ Field.dflt env f = D t
          ∧ (D t).pyEq (D t) = true) →
      ∀ (us : List Value),
        ∃ items, Fields.taggedItems env flex rh fs (assemble (Fields.slots env fs) us acc)
            = .ok items
          ∧ (flattenItems items).length ≤ foundSum (cost W D) acc (fs.filterMap Field.tagNat)
          ∧ items.length ≤ foundSum (fun _ => 1) acc (fs.filterMap Field.tagNat) := by
  intro fs
  induction fs with
  | nil =>
    intro _ us
    exact ⟨[], by simp [Fields.slots, assemble, Fields.taggedItems], by simp [flattenItems],
      by simp⟩
  | cons f fs ih =>
    intro hf us
    have ih' := ih (fun g hg' => hf g (by simp [hg']))
    cases ht : f.tagNat with
    | none =>
      have hx : ∃ x us', assemble (Fields.slots env (f :: fs)) us acc
          = x :: assemble (Fields.slots env fs) us' acc := by
        cases us with
        | nil => exact ⟨.none, [], by simp only [Fields.slots, ht, assemble]⟩
        | cons u us' => exact ⟨u, us', by simp only [Fields.slots, ht, assemble]⟩
      obtain ⟨x, us', hx⟩ := hx
      obtain ⟨items, hi, h1, h2⟩ := ih' us'
      refine ⟨items, ?_, ?_, ?_⟩
      · rw [hx]; simp only [Fields.taggedItems, ht]; exact hi
      · simpa only [List.filterMap_cons, ht] using h1
      · simpa only [List.filterMap_cons, ht] using h2
    | some t =>
      obtain ⟨hW, hD, hrefl⟩ := hf f (by simp) t ht
      obtain ⟨items, hi, h1, h2⟩ := ih' us
      have hasm : assemble (Fields.slots env (f :: fs)) us acc
          = taggedValue acc t (D t) :: assemble (Fields.slots env fs) us acc := by
        simp only [Fields.slots, ht, assemble]
        rw [← hD]; rfl
      have hdf : (Field.taggedDefault env f).toOption.getD .none = D t := by rw [← hD]; rfl
      rw [hasm]
      simp only [List.filterMap_cons, ht, foundSum, Fields.taggedItems, hdf]
      unfold taggedValue
      cases hfind : acc.find? (fun a => decide (a.1 = t)) with
      | none =>
        simp only [hrefl, if_true]
        exact ⟨items, hi, by omega, by omega⟩
      | some a =>
        have ha1 : a.1 = t := by simpa using List.find?_some hfind
        have hamem := List.mem_of_find?_eq_some hfind
        simp only
        cases hpe : a.2.pyEq (D t)
        · -- written
          simp only [Bool.false_eq_true, if_false]
          have hga := hg a hamem
          unfold Good at hga
          rw [ha1] at hga
          rcases hga with hga | ⟨b, hb⟩
          · rw [hga] at hpe; cases hpe
          · have hc : cost W D a = b.length := by
              apply cost_written
              · rw [ha1]; exact hpe
              · rw [ha1]; exact hb
            rw [hW, hb, ok_bind_re, hi, ok_bind_re]
            refine ⟨(t, b) :: items, rfl, ?_, ?_⟩
            · rw [flattenItems_cons, List.length_append, hc]; simp only; omega
            · simp only [List.length_cons]; omega
        · simp only [if_true]
          exact ⟨items, hi, by omega, by omega⟩

end Kio
