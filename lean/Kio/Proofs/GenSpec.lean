import Kio.Gen.Module
import Kio.Gen.DefSpec
/-!
The generator model against the independent reading of a definition (C16).
-/
namespace Kio.Gen
open Kio

/-- the `optional` flag of a generated field's annotation (array: the array itself) -/
def shapeNullable : Shape → Bool
  | .prim _ o => o
  | .primArr _ _ a => a
  | .ent _ o => o
  | .entArr _ a => a
  | .bad => false

/-- what kind of field the annotation and metadata describe, in `DefSpec` terms; struct names
    are looked up by the position stored in the nested schema's `nameId` -/
def fieldKindOf (names : List (List Nat)) : Field → Option DefSpec.FKind
  | .mk m (.prim _ _) => m.kafkaType.map .prim
  | .mk m (.primArr _ _ _) => m.kafkaType.map .primArr
  | .mk _ (.ent s _) => (names[s.nameId]?).map .struct
  | .mk _ (.entArr s _) => (names[s.nameId]?).map .structArr
  | .mk _ .bad => none

def fieldTagOf : Field → Option Nat
  | .mk m _ => m.tag.map Int.toNat

/-- the conclusions of the theorems below, as a computable check (used by the driver to test the
    statements on every definition a run generates) -/
def specAgrees (d : MsgDef) (b : List (List Nat)) (v : Nat) : Bool :=
  match module d b v with
  | .error _ => true
  | .ok gs =>
    let es := DefSpec.classesAt d b v
    gs.map (·.name) == es.map (·.name)
    && (gs.zip es).all (fun (g, e) =>
      g.fieldNames == e.fields.map (·.name)
      && g.schema.fields.map fieldTagOf == e.fields.map (·.tag)
      && g.schema.fields.map (fieldKindOf (gs.map (·.name))) == e.fields.map (fun f => some f.kind)
      && (g.schema.fields.zip e.fields).all (fun (f, ef) =>
          (match ef.kind with | .primArr _ => true | _ => shapeNullable f.shape == ef.nullable))
      && g.version == v && g.flexible == d.flexibleVersions.matches v && g.apiKey == d.apiKey)

/-- version ranges are closed on both ends; `N+` is unbounded above; `none` matches nothing -/
theorem vrange_matches (r : VRange) (v : Nat) :
    r.matches v = true ↔
      match r with
      | .empty => False
      | .mk lo none => lo ≤ v
      | .mk lo (some hi) => lo ≤ v ∧ v ≤ hi := by
  sorry

/-- **one class per structure visible in the version**, in the same order, the message last -/
theorem module_classes (d : MsgDef) (b : List (List Nat)) (v : Nat) (gs : List GClass)
    (h : module d b v = .ok gs) :
    gs.map (·.name) = (DefSpec.classesAt d b v).map (·.name) := by
  sorry

/-- class variables: every class of the module carries the version, the flexibility the
    definition states for that version, the API key and the header version of the Kafka rule;
    exactly the last class is the top-level one -/
theorem module_class_vars (d : MsgDef) (b : List (List Nat)) (v : Nat) (gs : List GClass)
    (h : module d b v = .ok gs) :
    (∀ g ∈ gs, g.version = v ∧ g.flexible = d.flexibleVersions.matches v ∧ g.apiKey = d.apiKey
        ∧ g.headerVersion = headerVersionOf d v ∧ g.schema.flexible = d.flexibleVersions.matches v) ∧
    (∃ pre top, gs = pre ++ [top] ∧ top.name = d.name ∧ top.etype = d.kind ∧ ∀ g ∈ pre, g.etype = .nested) := by
  sorry

/-- **fields**: each generated class has exactly the definition's fields valid for the version,
    in order, under the naming convention, with the stated Kafka type / struct type and tag -/
theorem module_fields (d : MsgDef) (b : List (List Nat)) (v : Nat) (gs : List GClass)
    (h : module d b v = .ok gs) :
    ∀ (i : Nat) (g : GClass) (e : DefSpec.ExpClass), gs[i]? = some g → (DefSpec.classesAt d b v)[i]? = some e →
      g.fieldNames = e.fields.map (·.name) ∧
      g.schema.fields.map fieldTagOf = e.fields.map (·.tag) ∧
      g.schema.fields.map (fieldKindOf (gs.map (·.name))) = e.fields.map (fun f => some f.kind) := by
  sorry

/-- **nullability — partial**: for every field that is not a primitive array the annotation is
    nullable exactly when the definition says so.  FULL STATEMENT (false of the generator, see
    `primarr_nullable_witness`; known finding C16/H): the same for primitive arrays. -/
theorem module_nullability_partial (d : MsgDef) (b : List (List Nat)) (v : Nat) (gs : List GClass)
    (h : module d b v = .ok gs) :
    ∀ (i : Nat) (g : GClass) (e : DefSpec.ExpClass), gs[i]? = some g → (DefSpec.classesAt d b v)[i]? = some e →
      ∀ (j : Nat) (f : Field) (ef : DefSpec.ExpField), g.schema.fields[j]? = some f → e.fields[j]? = some ef →
        (∀ k, ef.kind ≠ .primArr k) → shapeNullable f.shape = ef.nullable := by
  sorry

end Kio.Gen
