import Kio.Gen.Module
import Kio.Gen.DefSpec
import Kio.Proofs.GenSpecBase
/-!
The generator model against the independent reading of a definition (C16).
-/
namespace Kio.Gen
open Kio

/-- the `optional` flag of a generated field's annotation (array: the array itself) -/
def shapeNullable : Shape → Bool
  | .prim _ o => o
  | .primArr _ _ a => a
  | .ent _ o => o
  | .entArr _ a => a
  | .bad => false

/-- what kind of field the annotation and metadata describe, in `DefSpec` terms; struct names
    are looked up by the position stored in the nested schema's `nameId` -/
def fieldKindOf (names : List (List Nat)) : Field → Option DefSpec.FKind
  | .mk m (.prim _ _) => m.kafkaType.map .prim
  | .mk m (.primArr _ _ _) => m.kafkaType.map .primArr
  | .mk _ (.ent s _) => (names[s.nameId]?).map .struct
  | .mk _ (.entArr s _) => (names[s.nameId]?).map .structArr
  | .mk _ .bad => none

def fieldTagOf : Field → Option Nat
  | .mk m _ => m.tag.map Int.toNat

/-- the conclusions of the theorems below, as a computable check (used by the driver to test the
    statements on every definition a run generates) -/
def specAgrees (d : MsgDef) (b : List (List Nat)) (v : Nat) : Bool :=
  match module d b v with
  | .error _ => true
  | .ok gs =>
    let es := DefSpec.classesAt d b v
    gs.map (·.name) == es.map (·.name)
    && (gs.zip es).all (fun (g, e) =>
      g.fieldNames == e.fields.map (·.name)
      && g.schema.fields.map fieldTagOf == e.fields.map (·.tag)
      && g.schema.fields.map (fieldKindOf (gs.map (·.name))) == e.fields.map (fun f => some f.kind)
      && (g.schema.fields.zip e.fields).all (fun (f, ef) =>
          (match ef.kind with | .primArr _ => true | _ => shapeNullable f.shape == ef.nullable))
      && g.version == v && g.flexible == d.flexibleVersions.matches v && g.apiKey == d.apiKey)


theorem fieldKindOf_append {names more : List (List Nat)} {f : Field} {k : DefSpec.FKind}
    (h : fieldKindOf names f = some k) : fieldKindOf (names ++ more) f = some k := by
  have key : ∀ (i : Nat) (x : List Nat), names[i]? = some x → (names ++ more)[i]? = some x := by
    intro i x hx
    obtain ⟨hi, _⟩ := List.getElem?_eq_some_iff.1 hx
    rw [List.getElem?_append_left hi]; exact hx
  cases f with
  | mk m sh =>
    cases sh with
    | prim _ _ => exact h
    | primArr _ _ _ => exact h
    | bad => exact h
    | ent s o =>
      simp only [fieldKindOf, Option.map_eq_some_iff] at h ⊢
      obtain ⟨x, hx, rfl⟩ := h
      exact ⟨x, key _ _ hx, rfl⟩
    | entArr s o =>
      simp only [fieldKindOf, Option.map_eq_some_iff] at h ⊢
      obtain ⟨x, hx, rfl⟩ := h
      exact ⟨x, key _ _ hx, rfl⟩

theorem fieldTagOf_mkMeta (c : Bool) (kt : Option KType) (t : Option Nat) (dd : Dflt) (sh : Shape) :
    fieldTagOf (.mk (mkMeta c kt t dd) sh) = t := by
  cases t <;> simp [fieldTagOf, mkMeta]

theorem expField_tag (b : List (List Nat)) (f : FieldDef) (v : Nat) :
    (DefSpec.expField b f v).tag = tagAt f v := by
  have : (if DefSpec.rangeMatches f.tagged v = true then f.tag else none) = tagAt f v := by
    unfold tagAt DefSpec.rangeMatches; cases f.tagged <;> simp
  unfold DefSpec.expField
  cases f.ty <;> simp [this]

theorem nullableAt_eq (f : FieldDef) (v : Nat) : DefSpec.rangeMatches f.nullable v = nullableAt f v := by
  unfold nullableAt DefSpec.rangeMatches; cases f.nullable <;> rfl

theorem prim_nullable_eq {f : FieldDef} (k : KType) (v : Nat) (ht : f.tag.isSome = f.tagged.isSome) :
    (primNullable f k v || k == .uuid) = DefSpec.expNullable f v (.prim k) := by
  have h1 : (tagAt f v).isSome = DefSpec.rangeMatches f.tagged v := by
    unfold tagAt DefSpec.rangeMatches
    cases hg : f.tagged with
    | none => rfl
    | some r =>
      rw [hg] at ht
      simp only [Option.isSome_some] at ht
      by_cases hm : r.matches v = true <;> simp [hm, ht]
  unfold primNullable DefSpec.expNullable
  rw [h1, nullableAt_eq]
  by_cases hk : neverNullable k = true
  · have : (k == KType.uuid) = false := by
      cases k <;> simp [neverNullable, isFixedNumeric] at hk ⊢
    simp [hk, this]
  · simp only [hk]
    generalize DefSpec.rangeMatches f.tagged v = a
    generalize nullableAt f v = n
    generalize (k == KType.uuid) = u
    generalize (k == KType.datetimeI64 && f.dflt == some (strOf "-1")) = t
    generalize f.ignorable = i
    generalize f.dflt.isNone = dn
    cases a <;> cases n <;> cases u <;> cases t <;> cases i <;> cases dn <;> rfl


/-! ## the joint invariant of the two traversals -/

/-- a generated field agrees with the reading of its definition (`names`: the class names of the
    module so far, for the struct references) -/
def FieldOK (ctx : Ctx) (names : List (List Nat)) (fd : FieldDef) (entry : List Nat × Field) : Prop :=
  entry.1 = (DefSpec.expField ctx.builtins fd ctx.v).name ∧
  fieldTagOf entry.2 = (DefSpec.expField ctx.builtins fd ctx.v).tag ∧
  (noErrorCodeArray fd = true →
    fieldKindOf names entry.2 = some (DefSpec.expField ctx.builtins fd ctx.v).kind) ∧
  ((∀ k, (DefSpec.expField ctx.builtins fd ctx.v).kind ≠ .primArr k) → noNullableCommonStruct ctx.v fd = true →
    shapeNullable entry.2.shape = (DefSpec.expField ctx.builtins fd ctx.v).nullable)

theorem FieldOK.mono {ctx : Ctx} {names more : List (List Nat)} {fd : FieldDef} {entry : List Nat × Field}
    (h : FieldOK ctx names fd entry) : FieldOK ctx (names ++ more) fd entry :=
  ⟨h.1, h.2.1, fun hn => fieldKindOf_append (h.2.2.1 hn), h.2.2.2⟩

theorem fieldOK_of_one {ctx : Ctx} {fuel : Nat} {acc acc1 : List GClass} {f : FieldDef} {var : Variant}
    {pyName : List Nat} {fld : Field} {names : List (List Nat)}
    (hv : variant ctx.d f = .ok var) (h1 : OneInfo ctx fuel acc f acc1 pyName fld var)
    (hs : ∀ n fs s, var.sub = some (n, fs) → genClass ctx fuel acc n fs false = .ok (acc1, s) →
      names[s.nameId]? = some n) :
    FieldOK ctx names f (pyName, fld) := by
  obtain ⟨htag, hi⟩ := variant_info hv
  unfold FieldOK
  rw [expField_tag]
  cases var with
  | prim k n =>
    obtain ⟨_, rfl, c, dd, leaf, rfl⟩ := h1
    rcases hi with ⟨p, hty, hr⟩ | ⟨p, hty, hc, rfl, rfl⟩
    · have hpk := resolvePrim_primKind hr
      refine ⟨?_, fieldTagOf_mkMeta .., ?_, ?_⟩
      · simp [DefSpec.expField, hty, hpk]
      · intro _; simp [DefSpec.expField, hty, hpk, fieldKindOf, mkMeta]
      · intro _ _
        simp [DefSpec.expField, hty, hpk, shapeNullable, Field.shape, prim_nullable_eq k ctx.v htag]
    · refine ⟨?_, fieldTagOf_mkMeta .., ?_, ?_⟩
      · simp [DefSpec.expField, hty]
      · intro hn
        simp only [noErrorCodeArray, hty, hc] at hn
        cases hn
      · intro hk; exact absurd (by simp [DefSpec.expField, hty]) (hk (ktypeOfPrimT p))
  | primArr p =>
    obtain ⟨_, rfl, c, dd, leaf, eo, rfl⟩ := h1
    obtain ⟨hty, _⟩ := hi
    refine ⟨?_, fieldTagOf_mkMeta .., ?_, ?_⟩
    · simp [DefSpec.expField, hty]
    · intro _; simp [DefSpec.expField, hty, fieldKindOf, mkMeta]
    · intro hk; exact absurd (by simp [DefSpec.expField, hty]) (hk (ktypeOfPrimT p))
  | entArr cls fs =>
    obtain ⟨s, hc, rfl, c, dd, rfl⟩ := h1
    obtain ⟨hty, _⟩ := hi
    simp [DefSpec.expField, hty, fieldTagOf_mkMeta, fieldKindOf, hs _ _ _ rfl hc, shapeNullable, Field.shape,
      DefSpec.expNullable, nullableAt_eq]
  | csArr cs =>
    obtain ⟨s, hc, rfl, c, dd, rfl⟩ := h1
    obtain ⟨hty, _⟩ := hi
    simp [DefSpec.expField, hty, fieldTagOf_mkMeta, fieldKindOf, hs _ _ _ rfl hc, shapeNullable, Field.shape,
      DefSpec.expNullable, nullableAt_eq]
  | ent cls fs =>
    obtain ⟨s, hc, rfl, c, dd, rfl⟩ := h1
    obtain ⟨hty, _⟩ := hi
    simp [DefSpec.expField, hty, fieldTagOf_mkMeta, fieldKindOf, hs _ _ _ rfl hc, shapeNullable, Field.shape,
      DefSpec.expNullable, nullableAt_eq]
  | cs cs =>
    obtain ⟨s, hc, rfl, c, dd, rfl⟩ := h1
    obtain ⟨hty, hf, _⟩ := hi
    simp [DefSpec.expField, hty, fieldTagOf_mkMeta, fieldKindOf, hs _ _ _ rfl hc, shapeNullable, Field.shape,
      DefSpec.expNullable, nullableAt_eq, noNullableCommonStruct, hf]

/-- a generated class agrees with an expected class -/
def ClassAgree (ctx : Ctx) (names : List (List Nat)) (g : GClass) (e : DefSpec.ExpClass) : Prop :=
  g.name = e.name ∧ ∃ (fds : List FieldDef) (out : List (List Nat × Field)),
    e.fields = fds.map (fun f => DefSpec.expField ctx.builtins f ctx.v) ∧
    g.fieldNames = out.map (·.1) ∧ g.schema.fields = out.map (·.2) ∧
    All2 (FieldOK ctx names) fds out ∧
    (∀ P, ctx.d.allFields P = true → ∀ fd ∈ fds, P fd = true)

theorem ClassAgree.mono {ctx : Ctx} {names more : List (List Nat)} {g : GClass} {e : DefSpec.ExpClass}
    (h : ClassAgree ctx names g e) : ClassAgree ctx (names ++ more) g e := by
  obtain ⟨h1, fds, out, h2, h3, h4, h5, h6⟩ := h
  exact ⟨h1, fds, out, h2, h3, h4, h5.mono (fun _ _ _ h => h.mono), h6⟩

/-- the invariant relating the generated classes to the expected ones -/
structure Inv (ctx : Ctx) (acc : List GClass) (eacc : List DefSpec.ExpClass) : Prop where
  pos : ∀ (i : Nat) (g : GClass), acc[i]? = some g → g.schema.nameId = i
  agree : All2 (ClassAgree ctx (acc.map (·.name))) acc eacc

theorem Inv.nil (ctx : Ctx) : Inv ctx [] [] := ⟨by simp, trivial⟩

theorem Inv.names {ctx : Ctx} {acc : List GClass} {eacc : List DefSpec.ExpClass} (h : Inv ctx acc eacc) :
    acc.map (·.name) = eacc.map (·.name) :=
  h.agree.map_eq (fun _ _ _ h => h.1)

theorem any_name_iff (eacc : List DefSpec.ExpClass) (n : List Nat) :
    eacc.any (·.name == n) = true ↔ n ∈ eacc.map (·.name) := by
  rw [List.any_eq_true, List.mem_map]
  constructor
  · rintro ⟨e, he, h⟩; exact ⟨e, he, by simpa using h⟩
  · rintro ⟨e, he, h⟩; exact ⟨e, he, by simpa using h⟩

theorem find_name_none_iff (acc : List GClass) (n : List Nat) :
    acc.find? (·.name == n) = none ↔ n ∉ acc.map (·.name) := by
  rw [List.find?_eq_none, List.mem_map]
  constructor
  · rintro h ⟨g, hg, rfl⟩; exact h g hg (by simp)
  · intro h g hg hn; exact h ⟨g, hg, by simpa using hn⟩

/-- appending the class generated from `fs` on both sides -/
theorem Inv.snoc {ctx : Ctx} {acc1 : List GClass} {eacc1 : List DefSpec.ExpClass} {fs : List FieldDef}
    {out : List (List Nat × Field)} (n : List Nat) (top top' : Bool) (h : Inv ctx acc1 eacc1)
    (hout : All2 (FieldOK ctx (acc1.map (·.name))) (DefSpec.fieldsAt fs ctx.v) out)
    (hfs : Reach ctx.d fs) :
    Inv ctx (acc1 ++ [mkClass ctx n top acc1 out])
      (eacc1 ++ [{ name := n, top := top',
                   fields := (DefSpec.fieldsAt fs ctx.v).map (fun f => DefSpec.expField ctx.builtins f ctx.v) }]) := by
  constructor
  · intro i g hg
    rcases Nat.lt_or_ge i acc1.length with hi | hi
    · rw [List.getElem?_append_left hi] at hg
      exact h.pos i g hg
    · rw [List.getElem?_append_right hi] at hg
      have : i - acc1.length = 0 := by
        rcases Nat.eq_zero_or_pos (i - acc1.length) with h0 | h0
        · exact h0
        · rw [List.getElem?_eq_none (by simp only [List.length_singleton]; omega)] at hg; cases hg
      rw [this] at hg
      simp only [List.getElem?_cons_zero, Option.some.injEq] at hg
      subst hg
      show acc1.length = i
      omega
  · rw [List.map_append]
    refine All2.snoc (h.agree.mono (fun _ _ _ h => h.mono)) ?_
    refine ⟨rfl, DefSpec.fieldsAt fs ctx.v, out, rfl, rfl, rfl, hout.mono (fun _ _ _ h => h.mono), ?_⟩
    intro P hP fd hfd
    exact hfs.mem hP fd (List.mem_filter.1 hfd).1

theorem nodup_prefix {l ext : List GClass} (h : ((l ++ ext).map (·.name)).Nodup) : (l.map (·.name)).Nodup := by
  rw [List.map_append, List.nodup_append] at h
  exact h.1

/-- the joint induction: the generator and the independent reading stay in step -/
theorem gen_spec (ctx : Ctx) : ∀ fuel : Nat,
    (∀ acc n fs acc' s eacc fuel', fuel ≤ fuel' → genClass ctx fuel acc n fs false = .ok (acc', s) →
      Inv ctx acc eacc → (acc'.map (·.name)).Nodup → Reach ctx.d fs →
      Inv ctx acc' (specClass ctx.d ctx.builtins ctx.v fuel' eacc n fs) ∧
        (acc'.map (·.name))[s.nameId]? = some n) ∧
    (∀ acc fs acc' out eacc fuel', fuel ≤ fuel' → genFields ctx fuel acc fs = .ok (acc', out) →
      Inv ctx acc eacc → (acc'.map (·.name)).Nodup → Reach ctx.d fs →
      Inv ctx acc' (DefSpec.structuresBelow ctx.d ctx.builtins ctx.v fuel' eacc fs) ∧
        All2 (FieldOK ctx (acc'.map (·.name))) (DefSpec.fieldsAt fs ctx.v) out) := by
  intro fuel
  induction fuel with
  | zero =>
    refine ⟨?_, ?_⟩
    · intro acc n fs acc' s eacc fuel' _ h; rw [genClass] at h; cases h
    · intro acc fs acc' out eacc fuel' _ h; rw [genFields] at h; cases h
  | succ fuel ih =>
    obtain ⟨ihC, ihF⟩ := ih
    refine ⟨?_, ?_⟩
    · -- genClass
      intro acc n fs acc' s eacc fuel' hle h hinv hnd hfs
      unfold specClass
      rcases genClass_succ_ok h with ⟨g, hg, rfl, rfl⟩ | ⟨hg, acc1, out, h1, rfl, rfl⟩
      · have hmem : g ∈ acc' := List.mem_of_find?_eq_some hg
        have hname : g.name = n := by simpa using List.find?_some hg
        have hany : eacc.any (·.name == n) = true := by
          rw [any_name_iff, ← hinv.names, ← hname]; exact List.mem_map_of_mem hmem
        rw [if_pos hany]
        refine ⟨hinv, ?_⟩
        obtain ⟨i, hi⟩ := List.mem_iff_getElem?.1 hmem
        rw [hinv.pos i g hi, List.getElem?_map, hi, ← hname]; rfl
      · have hany : eacc.any (·.name == n) = false := by
          rw [Bool.eq_false_iff, Ne, any_name_iff, ← hinv.names]
          exact (find_name_none_iff acc n).1 hg
        rw [if_neg (by simp [hany])]
        have hnd1 := nodup_prefix hnd
        obtain ⟨hinv1, hout⟩ := ihF acc fs acc1 out eacc fuel' (by omega) h1 hinv hnd1 hfs
        have hnew : n ∉ acc1.map (·.name) := by
          rw [List.map_append, List.nodup_append] at hnd
          intro hmem
          exact hnd.2.2 n hmem n (by simp [mkClass]) rfl
        have hany1 : (DefSpec.structuresBelow ctx.d ctx.builtins ctx.v fuel' eacc fs).any (·.name == n) = false := by
          rw [Bool.eq_false_iff, Ne, any_name_iff, ← hinv1.names]
          exact hnew
        simp only [hany1, Bool.false_eq_true, if_false]
        refine ⟨Inv.snoc n false false hinv1 hout hfs, ?_⟩
        rw [List.map_append]
        show (List.map (fun x => x.name) acc1 ++ _)[acc1.length]? = _
        rw [List.getElem?_append_right (by simp)]
        simp [mkClass]
    · -- genFields
      intro acc fs acc' out eacc fuel' hle h hinv hnd hfs
      cases fs with
      | nil =>
        rw [genFields] at h; cases h
        obtain ⟨fuel'', rfl⟩ : ∃ k, fuel' = k + 1 := ⟨fuel' - 1, by omega⟩
        rw [DefSpec.structuresBelow]
        exact ⟨hinv, trivial⟩
      | cons f rest =>
        obtain ⟨fuel'', rfl⟩ : ∃ k, fuel' = k + 1 := ⟨fuel' - 1, by omega⟩
        have hle' : fuel ≤ fuel'' := by omega
        rcases genFields_cons_ok h with ⟨hm, h1⟩ | ⟨hm, var, acc1, ⟨pyName, fld⟩, out', hvar, h1, h2, rfl⟩
        · rw [structuresBelow_cons]
          simp only [hm, Bool.not_false, if_true]
          obtain ⟨hinv', hout⟩ := ihF acc rest acc' out eacc fuel'' hle' h1 hinv hnd hfs.rest
          refine ⟨hinv', ?_⟩
          simpa [DefSpec.fieldsAt, List.filter_cons, hm] using hout
        · rw [structuresBelow_cons_step _ _ _ _ _ _ _ hm]
          obtain ⟨ext2, hext2⟩ := genFields_ext h2
          have hnd1 : (acc1.map (·.name)).Nodup := by rw [hext2] at hnd; exact nodup_prefix hnd
          have hinfo := (variant_info hvar).2
          have hone := genOne_ok h1
          rw [variant_specSub hinfo]
          -- the per-field step: invariant after the field, and the struct reference resolves
          have step : Inv ctx acc1 (specStep ctx.d ctx.builtins ctx.v fuel'' eacc var.sub) ∧
              (∀ n fs s, var.sub = some (n, fs) → genClass ctx fuel acc n fs false = .ok (acc1, s) →
                (acc1.map (·.name))[s.nameId]? = some n) := by
            cases hsub : var.sub with
            | none =>
              have := oneInfo_sub_none hone hsub
              subst this
              exact ⟨hinv, fun _ _ _ h => by cases h⟩
            | some nfs =>
              obtain ⟨n, fs⟩ := nfs
              obtain ⟨s, hc⟩ := oneInfo_sub_some hone hsub
              obtain ⟨hi1, hi2⟩ := ihC acc n fs acc1 s eacc fuel'' hle' hc hinv hnd1 (reach_sub hinfo hsub hfs)
              refine ⟨hi1, ?_⟩
              intro n2 fs2 s2 h2 hc2
              simp only [Option.some.injEq, Prod.mk.injEq] at h2
              obtain ⟨rfl, rfl⟩ := h2
              rw [hc] at hc2
              cases hc2
              exact hi2
          obtain ⟨hinv1, hlook⟩ := step
          have hfld := fieldOK_of_one hvar hone hlook
          obtain ⟨hinv', hout⟩ := ihF acc1 rest acc' out' _ fuel'' hle' h2 hinv1 hnd hfs.rest
          refine ⟨hinv', ?_⟩
          have hfa : DefSpec.fieldsAt (f :: rest) ctx.v = f :: DefSpec.fieldsAt rest ctx.v := by
            simp [DefSpec.fieldsAt, hm]
          rw [hfa]
          refine ⟨?_, hout⟩
          rw [hext2, List.map_append]
          exact hfld.mono

/-- unfolding `module`: the nested classes, then the class of the message -/
theorem module_ok {d : MsgDef} {b : List (List Nat)} {v : Nat} {gs : List GClass}
    (h : module d b v = .ok gs) :
    ∃ acc1 out, genFields ⟨d, v, b⟩ 99999 [] d.fields = .ok (acc1, out) ∧
      gs = acc1 ++ [mkClass ⟨d, v, b⟩ d.name true acc1 out] := by
  unfold module at h
  have hd : maxDepth = 99999 + 1 := rfl
  rw [hd] at h
  cases hc : genClass ⟨d, v, b⟩ (99999 + 1) [] d.name d.fields true with
  | error e => rw [hc] at h; cases h
  | ok r =>
    obtain ⟨acc', s⟩ := r
    rw [hc] at h
    cases h
    rcases genClass_succ_ok hc with ⟨g, hg, _, _⟩ | ⟨_, acc1, out, h1, h2, _⟩
    · cases hg
    · exact ⟨acc1, out, h1, h2⟩

/-- the generated module and the expected classes satisfy the joint invariant, provided no two
    nested classes of the module have the same name -/
theorem module_inv {d : MsgDef} {b : List (List Nat)} {v : Nat} {gs : List GClass}
    (h : module d b v = .ok gs) (hnd : (gs.dropLast.map (·.name)).Nodup) :
    Inv ⟨d, v, b⟩ gs (DefSpec.classesAt d b v) := by
  obtain ⟨acc1, out, h1, rfl⟩ := module_ok h
  rw [List.dropLast_concat] at hnd
  obtain ⟨hinv, hout⟩ := (gen_spec ⟨d, v, b⟩ 99999).2 [] d.fields acc1 out [] 100000 (by omega) h1
    (Inv.nil _) hnd (Reach.top d)
  exact Inv.snoc d.name true true hinv hout (Reach.top d)

/-- version ranges are closed on both ends; `N+` is unbounded above; `none` matches nothing -/
theorem vrange_matches (r : VRange) (v : Nat) :
    r.matches v = true ↔
      match r with
      | .empty => False
      | .mk lo none => lo ≤ v
      | .mk lo (some hi) => lo ≤ v ∧ v ≤ hi := by
  cases r with
  | empty => simp [VRange.matches]
  | mk lo hi => cases hi <;> simp [VRange.matches]

/-- class variables: every class of the module carries the version, the flexibility the
    definition states for that version, the API key and the header version of the Kafka rule;
    exactly the last class is the top-level one -/
theorem module_class_vars (d : MsgDef) (b : List (List Nat)) (v : Nat) (gs : List GClass)
    (h : module d b v = .ok gs) :
    (∀ g ∈ gs, g.version = v ∧ g.flexible = d.flexibleVersions.matches v ∧ g.apiKey = d.apiKey
        ∧ g.headerVersion = headerVersionOf d v ∧ g.schema.flexible = d.flexibleVersions.matches v) ∧
    (∃ pre top, gs = pre ++ [top] ∧ top.name = d.name ∧ top.etype = d.kind ∧ ∀ g ∈ pre, g.etype = .nested) := by
  obtain ⟨acc1, out, h1, rfl⟩ := module_ok h
  obtain ⟨ext, hext, hvars⟩ := (gen_ext ⟨d, v, b⟩ 99999).2 _ _ _ _ h1
  rw [List.nil_append] at hext
  subst hext
  refine ⟨?_, acc1, _, rfl, rfl, rfl, fun g hg => (hvars g hg).2⟩
  intro g hg
  rcases List.mem_append.1 hg with hg | hg
  · exact (hvars g hg).1
  · simp only [List.mem_singleton] at hg
    subst hg
    exact mkClass_vars ..

/-!
### Statements that are false as first given

The three statements below were first given *without* the extra hypotheses; they are false in
that form (counterexamples and refutations: namespace `Kio.Gen.Counter` at the end of this file).

* `hnd` — no two nested classes of the generated module have the same name.  The generator
  appends the class of a structure after its fields were processed *without* looking again whether
  a class of that name was generated meanwhile (a structure nested, at any depth, in a structure of
  the same name yields two classes of that name), whereas `DefSpec.structuresBelow` lists each
  name once.  The hypothesis is also necessary for the conclusion of `module_classes'`
  (`module_classes_nodup`: the names of `DefSpec.structuresBelow` are always pairwise distinct).
* `d.allFields noErrorCodeArray` — no field of a primitive-array type has an error-code name: the
  generator overwrites the type of such a field by `error_code` (a scalar).
* `d.allFields (noNullableCommonStruct v)` — no non-array field whose type is a common structure
  is nullable at `v`: the generator never makes such a field `| None`.
-/

/-- **one class per structure visible in the version**, in the same order, the message last -/
theorem module_classes' (d : MsgDef) (b : List (List Nat)) (v : Nat) (gs : List GClass)
    (h : module d b v = .ok gs) (hnd : (gs.dropLast.map (·.name)).Nodup) :
    gs.map (·.name) = (DefSpec.classesAt d b v).map (·.name) :=
  (module_inv h hnd).names

/-- **fields**: each generated class has exactly the definition's fields valid for the version,
    in order, under the naming convention, with the stated Kafka type / struct type and tag -/
theorem module_fields' (d : MsgDef) (b : List (List Nat)) (v : Nat) (gs : List GClass)
    (h : module d b v = .ok gs) (hnd : (gs.dropLast.map (·.name)).Nodup)
    (hec : d.allFields noErrorCodeArray = true) :
    ∀ (i : Nat) (g : GClass) (e : DefSpec.ExpClass), gs[i]? = some g → (DefSpec.classesAt d b v)[i]? = some e →
      g.fieldNames = e.fields.map (·.name) ∧
      g.schema.fields.map fieldTagOf = e.fields.map (·.tag) ∧
      g.schema.fields.map (fieldKindOf (gs.map (·.name))) = e.fields.map (fun f => some f.kind) := by
  intro i g e hg he
  obtain ⟨_, fds, out, h2, h3, h4, h5, h6⟩ := (module_inv h hnd).agree.get hg he
  have h5' := h5.mono (S := fun fd entry => FieldOK ⟨d, v, b⟩ (gs.map (·.name)) fd entry ∧
      noErrorCodeArray fd = true) (fun fd _ hfd hok => ⟨hok, h6 _ hec fd hfd⟩)
  rw [h2, h3, h4]
  simp only [List.map_map]
  refine ⟨?_, ?_, ?_⟩
  · exact (h5'.map_eq (fun fd entry _ hok => hok.1.1.symm)).symm
  · exact (h5'.map_eq (fun fd entry _ hok => hok.1.2.1.symm)).symm
  · exact (h5'.map_eq (fun fd entry _ hok => (hok.1.2.2.1 hok.2).symm)).symm

/-- **nullability — partial**: for every field that is not a primitive array the annotation is
    nullable exactly when the definition says so.  FULL STATEMENT (false of the generator, see
    `primarr_nullable_witness`; known finding C16/H): the same for primitive arrays. -/
theorem module_nullability_partial' (d : MsgDef) (b : List (List Nat)) (v : Nat) (gs : List GClass)
    (h : module d b v = .ok gs) (hnd : (gs.dropLast.map (·.name)).Nodup)
    (hcs : d.allFields (noNullableCommonStruct v) = true) :
    ∀ (i : Nat) (g : GClass) (e : DefSpec.ExpClass), gs[i]? = some g → (DefSpec.classesAt d b v)[i]? = some e →
      ∀ (j : Nat) (f : Field) (ef : DefSpec.ExpField), g.schema.fields[j]? = some f → e.fields[j]? = some ef →
        (∀ k, ef.kind ≠ .primArr k) → shapeNullable f.shape = ef.nullable := by
  intro i g e hg he j f ef hf hef hk
  obtain ⟨_, fds, out, h2, h3, h4, h5, h6⟩ := (module_inv h hnd).agree.get hg he
  rw [h4, List.getElem?_map, Option.map_eq_some_iff] at hf
  rw [h2, List.getElem?_map, Option.map_eq_some_iff] at hef
  obtain ⟨entry, hentry, rfl⟩ := hf
  obtain ⟨fd, hfd, rfl⟩ := hef
  have hok := h5.get hfd hentry
  exact hok.2.2.2 hk (h6 _ hcs fd (List.mem_of_getElem? hfd))


theorem structuresBelow_nodup (d : MsgDef) (b : List (List Nat)) (v : Nat) :
    ∀ (fuel : Nat) (eacc : List DefSpec.ExpClass) (fs : List FieldDef), (eacc.map (·.name)).Nodup →
      ((DefSpec.structuresBelow d b v fuel eacc fs).map (·.name)).Nodup := by
  intro fuel
  induction fuel with
  | zero => intro eacc fs h; rw [DefSpec.structuresBelow]; exact h
  | succ fuel ih =>
    intro eacc fs h
    cases fs with
    | nil => rw [DefSpec.structuresBelow]; exact h
    | cons f rest =>
      rw [structuresBelow_cons]
      split
      · exact ih _ _ h
      · split
        · exact ih _ _ h
        · rename_i n fs _
          apply ih
          unfold specClass
          split
          · exact h
          · simp only
            split
            · exact ih _ _ h
            · rename_i hany
              rw [List.map_append, List.nodup_append]
              refine ⟨ih _ _ h, by simp, ?_⟩
              intro a ha c hc
              simp only [List.map_cons, List.map_nil, List.mem_singleton] at hc
              subst hc
              intro hac
              subst hac
              exact hany ((any_name_iff _ _).2 ha)

/-- the hypothesis of `module_classes'` is also necessary -/
theorem module_classes_nodup (d : MsgDef) (b : List (List Nat)) (v : Nat) (gs : List GClass)
    (h : gs.map (·.name) = (DefSpec.classesAt d b v).map (·.name)) :
    (gs.dropLast.map (·.name)).Nodup := by
  rw [List.map_dropLast, h, DefSpec.classesAt, List.map_append, List.map_cons, List.map_nil,
    List.dropLast_concat]
  exact structuresBelow_nodup d b v _ [] _ (by simp)
end Kio.Gen

/-! ## counterexamples to the statements without the extra hypotheses (kernel-checked by `decide`) -/
namespace Kio.Gen.Counter
open Kio Kio.Gen

def r0 : Option VRange := some (.mk 0 none)
def A : List Nat := [65]
def M : List Nat := [77]
/-- a structure `A` (one field, nullable) whose field is again a structure named `A` -/
def fInner : FieldDef := .mk [71] (.struct A) r0 r0 none none none false none (some [])
def fOuter : FieldDef := .mk [70] (.struct A) r0 none none none none false none (some [fInner])
def dNest : MsgDef := ⟨M, .data, none, .mk 0 (some 0), .empty, [fOuter], []⟩

/-- a field of type `[]int16` named `ErrorCode` -/
def fErr : FieldDef := .mk (strOf "ErrorCode") (.primArr .int16) r0 none none none none false none none
def dErr : MsgDef := ⟨M, .data, none, .mk 0 (some 0), .empty, [fErr], []⟩

/-- a nullable field whose type is the common structure `A` -/
def fCS : FieldDef := .mk [70] (.struct A) r0 r0 none none none false none none
def dCS : MsgDef := ⟨M, .data, none, .mk 0 (some 0), .empty, [fCS], [⟨A, []⟩]⟩

def namesOf (r : Except GenErr (List GClass)) : Option (List (List Nat)) :=
  match r with | .ok gs => some (gs.map (·.name)) | .error _ => none

def kindsAt (i : Nat) (r : Except GenErr (List GClass)) : Option (List (Option DefSpec.FKind)) :=
  match r with
  | .ok gs => (gs[i]?).map (fun g => g.schema.fields.map (fieldKindOf (gs.map (·.name))))
  | .error _ => none

def nullAt (i j : Nat) (r : Except GenErr (List GClass)) : Option Bool :=
  match r with
  | .ok gs => (gs[i]?).bind (fun g => (g.schema.fields[j]?).map (fun f => shapeNullable f.shape))
  | .error _ => none

theorem nest_names : namesOf (module dNest [] 0) = some [A, A, M] := by decide
theorem nest_spec_names : (DefSpec.classesAt dNest [] 0).map (·.name) = [A, M] := by decide
theorem nest_null : nullAt 1 0 (module dNest [] 0) = some true := by decide
theorem nest_spec_null : ((DefSpec.classesAt dNest [] 0)[1]?).bind (fun e => (e.fields[0]?).map (fun f => (f.kind, f.nullable)))
    = some (.struct A, false) := by decide
theorem err_names : namesOf (module dErr [] 0) = some [M] := by decide
theorem err_kinds : kindsAt 0 (module dErr [] 0) = some [some (.prim .errorCode)] := by decide
theorem err_spec_kinds : ((DefSpec.classesAt dErr [] 0)[0]?).map (fun e => e.fields.map (fun f => some f.kind))
    = some [some (.primArr .int16)] := by decide
theorem err_side : dErr.allFields noErrorCodeArray = false := by decide
theorem cs_names : namesOf (module dCS [] 0) = some [A, M] := by decide
theorem cs_null : nullAt 1 0 (module dCS [] 0) = some false := by decide
theorem cs_spec_null : ((DefSpec.classesAt dCS [] 0)[1]?).bind (fun e => (e.fields[0]?).map (fun f => (f.kind, f.nullable)))
    = some (.struct A, true) := by decide

def fnamesAt (i : Nat) (r : Except GenErr (List GClass)) : Option (List (List Nat)) :=
  match r with
  | .ok gs => (gs[i]?).map (·.fieldNames)
  | .error _ => none

theorem nest_fnames : fnamesAt 1 (module dNest [] 0) = some [[103]] := by decide
theorem nest_spec_fnames : ((DefSpec.classesAt dNest [] 0)[1]?).map (fun e => e.fields.map (·.name)) = some [[102]] := by
  decide
theorem nest_side1 : dNest.allFields noErrorCodeArray = true := by decide
theorem nest_side2 : dNest.allFields (noNullableCommonStruct 0) = true := by decide
theorem cs_side : dCS.allFields (noNullableCommonStruct 0) = false := by decide

theorem ok_of_names {r : Except GenErr (List GClass)} {l : List (List Nat)} (h : namesOf r = some l) :
    ∃ gs, r = .ok gs ∧ gs.map (·.name) = l := by
  cases r with
  | error e => cases h
  | ok gs => exact ⟨gs, rfl, by simpa [namesOf] using h⟩

theorem nodup_of_names {gs : List GClass} {l : List (List Nat)} (h : gs.map (·.name) = l)
    (hl : l.dropLast.Nodup) : (gs.dropLast.map (·.name)).Nodup := by
  rw [List.map_dropLast, h]; exact hl

/-- `module_classes` without the extra hypothesis is false -/
theorem module_classes_false :
    ¬ ∀ (d : MsgDef) (b : List (List Nat)) (v : Nat) (gs : List GClass), module d b v = .ok gs →
      gs.map (·.name) = (DefSpec.classesAt d b v).map (·.name) := by
  intro H
  obtain ⟨gs, hm, hn⟩ := ok_of_names nest_names
  have h2 := H _ _ _ gs hm
  rw [nest_spec_names, hn] at h2
  exact absurd h2 (by decide)

/-- `module_fields'` needs the hypothesis on class names … -/
theorem module_fields_needs_nodup :
    ¬ ∀ (d : MsgDef) (b : List (List Nat)) (v : Nat) (gs : List GClass), module d b v = .ok gs →
      d.allFields noErrorCodeArray = true →
      ∀ (i : Nat) (g : GClass) (e : DefSpec.ExpClass), gs[i]? = some g → (DefSpec.classesAt d b v)[i]? = some e →
        g.fieldNames = e.fields.map (·.name) ∧
        g.schema.fields.map fieldTagOf = e.fields.map (·.tag) ∧
        g.schema.fields.map (fieldKindOf (gs.map (·.name))) = e.fields.map (fun f => some f.kind) := by
  intro H
  obtain ⟨gs, hm, _⟩ := ok_of_names nest_names
  have hk := nest_fnames
  rw [hm] at hk
  simp only [fnamesAt, Option.map_eq_some_iff] at hk
  obtain ⟨g, hg, hk⟩ := hk
  have he := nest_spec_fnames
  simp only [Option.map_eq_some_iff] at he
  obtain ⟨e, he, hek⟩ := he
  have := (H dNest [] 0 gs hm nest_side1 1 g e hg he).1
  rw [hk, hek] at this
  exact absurd this (by decide)

/-- … and the hypothesis on error-code names -/
theorem module_fields_needs_noErrorCodeArray :
    ¬ ∀ (d : MsgDef) (b : List (List Nat)) (v : Nat) (gs : List GClass), module d b v = .ok gs →
      (gs.dropLast.map (·.name)).Nodup →
      ∀ (i : Nat) (g : GClass) (e : DefSpec.ExpClass), gs[i]? = some g → (DefSpec.classesAt d b v)[i]? = some e →
        g.fieldNames = e.fields.map (·.name) ∧
        g.schema.fields.map fieldTagOf = e.fields.map (·.tag) ∧
        g.schema.fields.map (fieldKindOf (gs.map (·.name))) = e.fields.map (fun f => some f.kind) := by
  intro H
  obtain ⟨gs, hm, hn⟩ := ok_of_names err_names
  have hk := err_kinds
  rw [hm] at hk
  simp only [kindsAt, Option.map_eq_some_iff] at hk
  obtain ⟨g, hg, hk⟩ := hk
  have he := err_spec_kinds
  simp only [Option.map_eq_some_iff] at he
  obtain ⟨e, he, hek⟩ := he
  have := (H dErr [] 0 gs hm (nodup_of_names hn (by decide)) 0 g e hg he).2.2
  rw [hk, hek] at this
  exact absurd this (by decide)

theorem null_refute {d : MsgDef} {gs : List GClass} {i j : Nat} {x y : Bool} {kd : DefSpec.FKind}
    (hm : module d [] 0 = .ok gs)
    (h1 : nullAt i j (module d [] 0) = some x)
    (h2 : ((DefSpec.classesAt d [] 0)[i]?).bind (fun e => (e.fields[j]?).map (fun f => (f.kind, f.nullable)))
      = some (kd, y))
    (hkd : ∀ k, kd ≠ .primArr k) (hxy : x ≠ y) :
    ¬ ∀ (i : Nat) (g : GClass) (e : DefSpec.ExpClass), gs[i]? = some g → (DefSpec.classesAt d [] 0)[i]? = some e →
      ∀ (j : Nat) (f : Field) (ef : DefSpec.ExpField), g.schema.fields[j]? = some f → e.fields[j]? = some ef →
        (∀ k, ef.kind ≠ .primArr k) → shapeNullable f.shape = ef.nullable := by
  intro H
  rw [hm] at h1
  simp only [nullAt, Option.bind_eq_some_iff, Option.map_eq_some_iff] at h1
  obtain ⟨g, hg, f, hf, rfl⟩ := h1
  simp only [Option.bind_eq_some_iff, Option.map_eq_some_iff, Prod.mk.injEq] at h2
  obtain ⟨e, he, ef, hef, rfl, rfl⟩ := h2
  exact hxy (H i g e hg he j f ef hf hef hkd)

/-- `module_nullability_partial'` needs the hypothesis on class names … -/
theorem module_nullability_needs_nodup :
    ¬ ∀ (d : MsgDef) (b : List (List Nat)) (v : Nat) (gs : List GClass), module d b v = .ok gs →
      d.allFields (noNullableCommonStruct v) = true →
      ∀ (i : Nat) (g : GClass) (e : DefSpec.ExpClass), gs[i]? = some g → (DefSpec.classesAt d b v)[i]? = some e →
        ∀ (j : Nat) (f : Field) (ef : DefSpec.ExpField), g.schema.fields[j]? = some f → e.fields[j]? = some ef →
          (∀ k, ef.kind ≠ .primArr k) → shapeNullable f.shape = ef.nullable := by
  intro H
  obtain ⟨gs, hm, _⟩ := ok_of_names nest_names
  exact null_refute hm nest_null nest_spec_null (by intro k h; cases h) (by decide)
    (H dNest [] 0 gs hm nest_side2)

/-- … and the hypothesis on nullable common-structure fields -/
theorem module_nullability_needs_noNullableCommonStruct :
    ¬ ∀ (d : MsgDef) (b : List (List Nat)) (v : Nat) (gs : List GClass), module d b v = .ok gs →
      (gs.dropLast.map (·.name)).Nodup →
      ∀ (i : Nat) (g : GClass) (e : DefSpec.ExpClass), gs[i]? = some g → (DefSpec.classesAt d b v)[i]? = some e →
        ∀ (j : Nat) (f : Field) (ef : DefSpec.ExpField), g.schema.fields[j]? = some f → e.fields[j]? = some ef →
          (∀ k, ef.kind ≠ .primArr k) → shapeNullable f.shape = ef.nullable := by
  intro H
  obtain ⟨gs, hm, hn⟩ := ok_of_names cs_names
  exact null_refute hm cs_null cs_spec_null (by intro k h; cases h) (by decide)
    (H dCS [] 0 gs hm (nodup_of_names hn (by decide)))

end Kio.Gen.Counter
