import Kio.Proofs.Decode
/-!
An instrumented copy of the entity reader that also counts steps (one per primitive read, one per
array element, one per tagged-loop iteration), its erasure to `Schema.read`, and a linear bound on
the steps of a successful decode of a coherent class: `steps ≤ 2 · consumed bytes`.
-/
namespace Kio

/-! ## the instrumented decoder -/

/-- a decoder that also reports the number of steps it took -/
abbrev DecS (α : Type) := Bytes → Except Err (α × Bytes × Nat)

/-- forget the step count -/
def eraseS {α} (d : DecS α) : Dec α := fun bs =>
  match d bs with
  | .ok (v, r, _) => .ok (v, r)
  | .error e => .error e

/-- one primitive read = one step -/
def tick {α} (d : Dec α) : DecS α := fun bs => do
  let (v, r) ← d bs
  pure (v, r, 1)

/-- `decMany`, one extra step per element -/
def decManyS (d : DecS Value) : Nat → DecS (List Value)
  | 0, bs => .ok ([], bs, 0)
  | n+1, bs => do
    let (v, bs, c1) ← d bs
    let (vs, bs, c2) ← decManyS d n bs
    pure (v :: vs, bs, c1 + c2 + 1)

/-- the length prefix is a primitive read (one step) -/
def compactArrayReaderS (item : DecS Value) : DecS Value := fun bs => do
  let (n, r) ← readCompactArrayLength bs
  if n = -1 then pure (.none, r, 1)
  else do
    let (vs, r, c) ← decManyS item n.toNat r
    pure (.tuple vs, r, c + 1)

def legacyArrayReaderS (item : DecS Value) : DecS Value := fun bs => do
  let (n, r) ← readLegacyArrayLength bs
  if n = -1 then pure (.none, r, 1)
  else do
    let (vs, r, c) ← decManyS item n.toNat r
    pure (.tuple vs, r, c + 1)

def arrayReaderS (flex : Bool) (item : DecS Value) : DecS Value :=
  if flex then compactArrayReaderS item else legacyArrayReaderS item

/-- the marker byte is a primitive read (one step) -/
def readNullableS (inner : DecS Value) : DecS Value := fun bs => do
  let (m, r) ← decIntN 1 true bs
  if m = -1 then pure (.none, r, 1)
  else if m = 1 then do
    let (v, r, c) ← inner r
    pure (v, r, c + 1)
  else .error .valueError

structure TaggedRS where
  tag : Nat
  read : DecS Value
  dflt : Value

def TaggedRS.erase (e : TaggedRS) : TaggedR := { tag := e.tag, read := eraseS e.read, dflt := e.dflt }

def lookupTaggedS (plan : List TaggedRS) (t : Nat) : Option TaggedRS :=
  plan.find? (fun e => e.tag = t)

/-- `readTaggedLoop`; each iteration (tag, size, and the skip of an unknown field) is one step,
    the reader of a known field counts its own steps -/
def readTaggedLoopS (skipUnknown : Bool) (plan : List TaggedRS) :
    Nat → Bytes → List (Nat × Value) → Except Err (List (Nat × Value) × Bytes × Nat)
  | 0, bs, acc => .ok (acc, bs, 0)
  | n+1, bs, acc => do
    let (tag, bs) ← decVarint 5 bs
    let (size, bs) ← decVarint 5 bs
    match lookupTaggedS plan tag with
    | some e => do
      let (v, bs, c1) ← e.read bs
      let (out, bs, c2) ← readTaggedLoopS skipUnknown plan n bs ((tag, v) :: acc)
      pure (out, bs, c1 + c2 + 1)
    | none =>
      if skipUnknown then do
        let (_, bs) ← readExact size bs
        let (out, bs, c2) ← readTaggedLoopS skipUnknown plan n bs acc
        pure (out, bs, c2 + 1)
      else .error .keyError

mutual
def Schema.readS (env : Env) : Schema → DecS Value
  | .mk _ flex rh fs => fun bs => do
    let (us, bs, c1) ← Fields.readUntaggedS env flex rh fs bs
    if !flex then pure (.entity (assemble (Fields.slots env fs) us []), bs, c1)
    else do
      let (n, bs) ← decVarint 5 bs
      let (acc, bs, c2) ← readTaggedLoopS env.skipUnknownTags (Fields.taggedPlanS env flex rh fs) n bs []
      pure (.entity (assemble (Fields.slots env fs) us acc), bs, c1 + c2 + 1)
def Fields.readUntaggedS (env : Env) (flex rh : Bool) : List Field → DecS (List Value)
  | [], bs => .ok ([], bs, 0)
  | f :: fs, bs =>
    if f.isTagged then Fields.readUntaggedS env flex rh fs bs
    else do
      let (v, bs, c1) ← Field.readS env flex rh false f bs
      let (vs, bs, c2) ← Fields.readUntaggedS env flex rh fs bs
      pure (v :: vs, bs, c1 + c2)
def Fields.taggedPlanS (env : Env) (flex rh : Bool) : List Field → List TaggedRS
  | [] => []
  | f :: fs =>
    match f.tagNat with
    | none => Fields.taggedPlanS env flex rh fs
    | some t =>
      { tag := t, read := Field.readS env flex rh true f,
        dflt := (Field.taggedDefault env f).toOption.getD .none }
        :: Fields.taggedPlanS env flex rh fs
def Field.readS (env : Env) (flex rh tagged : Bool) : Field → DecS Value
  | .mk m sh =>
    if rh && m.isClientId then tick readNullableLegacyString
    else Shape.readS env flex tagged m sh
def Shape.readS (env : Env) (flex tagged : Bool) (m : FieldMeta) : Shape → DecS Value
  | .prim _ o => tick (primFieldReaderT env m flex o tagged)
  | .primArr _ e a => arrayReaderS flex (tick (primFieldReader env m flex (e || a)))
  | .ent s o => if o then readNullableS (Schema.readS env s) else Schema.readS env s
  | .entArr s _ => arrayReaderS flex (Schema.readS env s)
  | .bad => fun _ => .error .schemaError
end

/-! ## erasure: forgetting the count gives back the model's decoder -/

theorem eraseS_tick {α} (d : Dec α) : eraseS (tick d) = d := by
  funext bs
  simp only [eraseS, tick]
  rcases d bs with e | ⟨v, r⟩ <;> rfl

theorem eraseS_decManyS (d : DecS Value) (n : Nat) : eraseS (decManyS d n) = decMany (eraseS d) n := by
  induction n with
  | zero => funext bs; rfl
  | succ n ih =>
    funext bs
    have ih' := fun bs => congrFun ih bs
    simp only [eraseS] at ih'
    simp only [eraseS, decManyS, decMany]
    rcases d bs with e | ⟨v, r, c⟩
    · rfl
    · simp only [bind, Except.bind, ← ih']
      rcases decManyS d n r with e | ⟨vs, r2, c2⟩ <;> rfl


theorem eraseS_compactArrayReaderS (d : DecS Value) :
    eraseS (compactArrayReaderS d) = compactArrayReader (eraseS d) := by
  funext bs
  have hm := fun n bs => congrFun (eraseS_decManyS d n) bs
  simp only [eraseS] at hm
  simp only [eraseS, compactArrayReaderS, compactArrayReader]
  rcases readCompactArrayLength bs with e | ⟨n, r⟩
  · rfl
  · simp only [bind, Except.bind]
    by_cases hn : n = -1
    · simp only [hn, if_true]; rfl
    · simp only [if_neg hn, ← hm]
      rcases decManyS d n.toNat r with e | ⟨vs, r2, c2⟩ <;> rfl

theorem eraseS_legacyArrayReaderS (d : DecS Value) :
    eraseS (legacyArrayReaderS d) = legacyArrayReader (eraseS d) := by
  funext bs
  have hm := fun n bs => congrFun (eraseS_decManyS d n) bs
  simp only [eraseS] at hm
  simp only [eraseS, legacyArrayReaderS, legacyArrayReader]
  rcases readLegacyArrayLength bs with e | ⟨n, r⟩
  · rfl
  · simp only [bind, Except.bind]
    by_cases hn : n = -1
    · simp only [hn, if_true]; rfl
    · simp only [if_neg hn, ← hm]
      rcases decManyS d n.toNat r with e | ⟨vs, r2, c2⟩ <;> rfl

theorem eraseS_arrayReaderS (flex : Bool) (d : DecS Value) :
    eraseS (arrayReaderS flex d) = arrayReader flex (eraseS d) := by
  unfold arrayReaderS arrayReader
  split
  · exact eraseS_compactArrayReaderS d
  · exact eraseS_legacyArrayReaderS d

theorem eraseS_readNullableS (d : DecS Value) :
    eraseS (readNullableS d) = readNullable (eraseS d) := by
  funext bs
  simp only [eraseS, readNullableS, readNullable]
  rcases decIntN 1 true bs with e | ⟨m, r⟩
  · rfl
  · simp only [bind, Except.bind]
    by_cases hm : m = -1
    · simp only [hm, if_true]; rfl
    · simp only [if_neg hm]
      by_cases h1 : m = 1
      · simp only [h1, if_true]
        rcases d r with e | ⟨v, r2, c⟩ <;> rfl
      · simp only [if_neg h1]

theorem lookupTagged_erase (plan : List TaggedRS) (t : Nat) :
    lookupTagged (plan.map TaggedRS.erase) t = (lookupTaggedS plan t).map TaggedRS.erase := by
  simp only [lookupTagged, lookupTaggedS, List.find?_map]
  rfl

theorem eraseS_readTaggedLoopS (skip : Bool) (plan : List TaggedRS) (n : Nat) :
    ∀ bs acc,
      (match readTaggedLoopS skip plan n bs acc with
       | .ok (out, r, _) => .ok (out, r)
       | .error e => .error e) = readTaggedLoop skip (plan.map TaggedRS.erase) n bs acc := by
  induction n with
  | zero => intro bs acc; rfl
  | succ n ih =>
    intro bs acc
    simp only [readTaggedLoopS, readTaggedLoop, lookupTagged_erase]
    rcases decVarint 5 bs with e | ⟨tag, r1⟩
    · rfl
    · simp only [bind, Except.bind]
      rcases decVarint 5 r1 with e | ⟨size, r2⟩
      · rfl
      · simp only
        rcases lookupTaggedS plan tag with _ | e
        · simp only [Option.map]
          cases skip
          · rfl
          · simp only [if_true]
            rcases readExact size r2 with e | ⟨_, r3⟩
            · rfl
            · simp only [← ih]
              rcases readTaggedLoopS true plan n r3 acc with e | ⟨out, r4, c⟩ <;> rfl
        · simp only [Option.map, TaggedRS.erase, eraseS]
          rcases e.read r2 with e | ⟨v, r3, c⟩
          · rfl
          · simp only [← ih]
            rcases readTaggedLoopS skip plan n r3 ((tag, v) :: acc) with e | ⟨out, r4, c⟩ <;> rfl


mutual
theorem Schema.eraseS_readS (env : Env) : (s : Schema) → eraseS (s.readS env) = s.read env
  | .mk _ flex rh fs => by
    have hu := Fields.eraseS_readUntaggedS env flex rh fs
    have hp := Fields.erase_taggedPlanS env flex rh fs
    funext bs
    have hu' := congrFun hu
    simp only [eraseS] at hu'
    simp only [eraseS, Schema.readS, Schema.read, ← hu', ← hp]
    rcases Fields.readUntaggedS env flex rh fs bs with e | ⟨us, r1, c1⟩
    · rfl
    · simp only [bind, Except.bind]
      cases flex
      · rfl
      · simp only [Bool.not_true, Bool.false_eq_true, if_false]
        rcases decVarint 5 r1 with e | ⟨n, r2⟩
        · rfl
        · simp only [← eraseS_readTaggedLoopS]
          rcases readTaggedLoopS env.skipUnknownTags (Fields.taggedPlanS env true rh fs) n r2 []
            with e | ⟨acc, r3, c2⟩ <;> rfl
theorem Fields.eraseS_readUntaggedS (env : Env) (flex rh : Bool) :
    (fs : List Field) → eraseS (Fields.readUntaggedS env flex rh fs) = Fields.readUntagged env flex rh fs
  | [] => by funext bs; rfl
  | f :: fs => by
    have hf := Field.eraseS_readS env flex rh false f
    have ih := Fields.eraseS_readUntaggedS env flex rh fs
    funext bs
    have hf' := congrFun hf
    have ih' := congrFun ih
    simp only [eraseS] at hf' ih'
    simp only [eraseS, Fields.readUntaggedS, Fields.readUntagged]
    by_cases ht : f.isTagged = true
    · simp only [ht, if_true]; exact ih' bs
    · simp only [if_neg ht, ← hf']
      rcases Field.readS env flex rh false f bs with e | ⟨v, r1, c1⟩
      · rfl
      · simp only [bind, Except.bind, ← ih']
        rcases Fields.readUntaggedS env flex rh fs r1 with e | ⟨vs, r2, c2⟩ <;> rfl
theorem Fields.erase_taggedPlanS (env : Env) (flex rh : Bool) :
    (fs : List Field) →
      (Fields.taggedPlanS env flex rh fs).map TaggedRS.erase = Fields.taggedPlan env flex rh fs
  | [] => rfl
  | f :: fs => by
    have hf := Field.eraseS_readS env flex rh true f
    have ih := Fields.erase_taggedPlanS env flex rh fs
    simp only [Fields.taggedPlanS, Fields.taggedPlan]
    cases f.tagNat with
    | none => exact ih
    | some t => simp only [List.map_cons, TaggedRS.erase, hf, ih]
theorem Field.eraseS_readS (env : Env) (flex rh tagged : Bool) :
    (f : Field) → eraseS (Field.readS env flex rh tagged f) = Field.read env flex rh tagged f
  | .mk m sh => by
    have hs := Shape.eraseS_readS env flex tagged m sh
    simp only [Field.readS, Field.read]
    split
    · exact eraseS_tick _
    · exact hs
theorem Shape.eraseS_readS (env : Env) (flex tagged : Bool) (m : FieldMeta) :
    (sh : Shape) → eraseS (Shape.readS env flex tagged m sh) = Shape.read env flex tagged m sh
  | .prim _ o => by simp only [Shape.readS, Shape.read, eraseS_tick]
  | .primArr _ e a => by simp only [Shape.readS, Shape.read, eraseS_arrayReaderS, eraseS_tick]
  | .ent s o => by
    have hs := Schema.eraseS_readS env s
    simp only [Shape.readS, Shape.read]
    split
    · rw [eraseS_readNullableS, hs]
    · exact hs
  | .entArr s _ => by
    have hs := Schema.eraseS_readS env s
    simp only [Shape.readS, Shape.read, eraseS_arrayReaderS, hs]
  | .bad => by funext bs; rfl
end


/-! ## every primitive read consumes at least one byte -/

/-- a successful run of `d` consumes at least `k` bytes -/
def MinDec {α} (k : Nat) (d : Dec α) : Prop :=
  ∀ bs v r, d bs = .ok (v, r) → r.length + k ≤ bs.length

theorem SuffixDec.length_le {α} {d : Dec α} (hd : SuffixDec d) {bs v r} (h : d bs = .ok (v, r)) :
    r.length ≤ bs.length := (hd _ _ _ h).length_le

theorem readExact_len {n : Int} {bs a r : Bytes} (h : readExact n bs = .ok (a, r)) :
    (r.length : Int) + n = bs.length := by
  obtain ⟨h1, h2⟩ := readExact_ok h
  subst h1; simp only [List.length_append]; omega

theorem decIntN_len {w : Nat} {s : Bool} {bs : Bytes} {v : Int} {r : Bytes}
    (h : decIntN w s bs = .ok (v, r)) : r.length + w = bs.length := by
  obtain ⟨a, h1, h2⟩ := decIntN_ok_iff h
  subst h1; simp only [List.length_append]; omega

theorem decVarint_len {k : Nat} {bs : Bytes} {n : Nat} {r : Bytes}
    (h : decVarint k bs = .ok (n, r)) : r.length + 1 ≤ bs.length := by
  obtain ⟨a, h1, h2, _⟩ := decVarint_ok h
  subst h1; simp only [List.length_append]; omega

theorem compactCore_min (n : Bool) : MinDec 1 (readCompactStringAsBytesCore n) := by
  intro bs v r h
  simp only [readCompactStringAsBytesCore, bind_ok_iff, Prod.exists] at h
  obtain ⟨k, r1, h1, h2⟩ := h
  have s1 := decVarint_len h1
  split at h2
  · split at h2
    · simp only [pure, Except.pure, Except.ok.injEq, Prod.mk.injEq] at h2
      obtain ⟨_, rfl⟩ := h2; exact s1
    · contradiction
  · simp only [bind_ok_iff, Prod.exists, pure, Except.pure, Except.ok.injEq, Prod.mk.injEq] at h2
    obtain ⟨a, r2, h3, _, rfl⟩ := h2
    have := (readExact_suffix _ _ _ _ h3).length_le
    omega

theorem legacyCore_min (w : Nat) (hw : 1 ≤ w) (n : Bool) : MinDec 1 (readLegacyCore w n) := by
  intro bs v r h
  simp only [readLegacyCore, bind_ok_iff, Prod.exists] at h
  obtain ⟨k, r1, h1, h2⟩ := h
  have s1 := decIntN_len h1
  split at h2
  · split at h2
    · simp only [pure, Except.pure, Except.ok.injEq, Prod.mk.injEq] at h2
      obtain ⟨_, rfl⟩ := h2; omega
    · contradiction
  · simp only [bind_ok_iff, Prod.exists, pure, Except.pure, Except.ok.injEq, Prod.mk.injEq] at h2
    obtain ⟨a, r2, h3, _, rfl⟩ := h2
    have := (readExact_suffix _ _ _ _ h3).length_le
    omega

theorem PrimR.run_min (env : Env) (r : PrimR) : MinDec 1 (r.run env) := by
  intro bs v rest h
  cases r <;>
  simp only [PrimR.run, readInt8, readInt16, readInt32, readInt64, readUint8, readUint16, readUint32,
    readUint64, readFloat64, readCompactString, readCompactStringNullable, readLegacyString,
    readNullableLegacyString, readCompactStringAsBytes, readCompactStringAsBytesNullable,
    readLegacyBytes, readNullableLegacyBytes, readUuid, readBoolean, readErrorCode,
    readTimedeltaI32, readTimedeltaI64, readDatetimeI64, readNullableDatetimeI64,
    bind_ok_iff, Prod.exists, pure, Except.pure, Except.ok.injEq, Prod.mk.injEq] at h
  all_goals
    obtain ⟨a, b, h1, h2⟩ := h
    have hb : b = rest := by
      repeat' split at h2
      all_goals first
        | exact h2.2
        | contradiction
        | (obtain ⟨_, _, _, hb⟩ := h2; exact hb)
        | (injection h2 with h2; injection h2 with _ h2)
        | (obtain ⟨_, _, h3⟩ := bind_ok h2; injection h3 with h3; injection h3 with _ h3)
    subst hb
    first
      | (have := decIntN_len h1; omega)
      | (have := readExact_len h1; omega)
      | exact compactCore_min _ _ _ _ h1
      | exact legacyCore_min _ (by decide) _ _ _ _ h1

theorem primFieldReader_min (env : Env) (m : FieldMeta) (flex opt : Bool) :
    MinDec 1 (primFieldReader env m flex opt) := by
  unfold primFieldReader
  split
  · intro bs v r h; contradiction
  · split
    · intro bs v r h; contradiction
    · exact PrimR.run_min env _

theorem primFieldReaderT_min (env : Env) (m : FieldMeta) (flex o tagged : Bool) :
    MinDec 1 (primFieldReaderT env m flex o tagged) := by
  unfold primFieldReaderT
  split
  · intro bs v r h; contradiction
  · split
    · intro bs v r h; contradiction
    · exact PrimR.run_min env _

/-! ## the step bound -/

/-- a successful run consumes at least `k` bytes and takes at most `2·consumed − 1` steps
    (so no steps at all when nothing is consumed) -/
def GoodS {α} (k : Nat) (d : DecS α) : Prop :=
  ∀ bs v r n, d bs = .ok (v, r, n) →
    r.length + k ≤ bs.length ∧ n ≤ 2 * (bs.length - r.length) - 1

theorem GoodS.mono {α} {k k' : Nat} {d : DecS α} (h : GoodS k d) (hk : k' ≤ k) : GoodS k' d := by
  intro bs v r n hd
  have := h bs v r n hd
  omega

theorem tick_good {α} {d : Dec α} (hd : MinDec 1 d) : GoodS 1 (tick d) := by
  intro bs v r n h
  simp only [tick, bind_ok_iff, Prod.exists, pure, Except.pure, Except.ok.injEq, Prod.mk.injEq] at h
  obtain ⟨a, b, h1, _, rfl, rfl⟩ := h
  have := hd _ _ _ h1
  omega

theorem decManyS_good {d : DecS Value} (hd : GoodS 1 d) (n : Nat) :
    ∀ bs vs r c, decManyS d n bs = .ok (vs, r, c) →
      r.length + n ≤ bs.length ∧ c ≤ 2 * (bs.length - r.length) := by
  induction n with
  | zero =>
    intro bs vs r c h
    simp only [decManyS, Except.ok.injEq, Prod.mk.injEq] at h
    obtain ⟨_, rfl, rfl⟩ := h
    omega
  | succ n ih =>
    intro bs vs r c h
    simp only [decManyS, bind_ok_iff, Prod.exists, pure, Except.pure, Except.ok.injEq,
      Prod.mk.injEq] at h
    obtain ⟨v, r1, c1, h1, vs', r2, c2, h2, _, rfl, rfl⟩ := h
    have := hd _ _ _ _ h1
    have := ih _ _ _ _ h2
    omega

theorem compactArrayReaderS_good {d : DecS Value} (hd : GoodS 1 d) :
    GoodS 1 (compactArrayReaderS d) := by
  intro bs v r c h
  simp only [compactArrayReaderS, readCompactArrayLength, bind_ok_iff, Prod.exists, pure,
    Except.pure, Except.ok.injEq, Prod.mk.injEq] at h
  obtain ⟨n, r1, ⟨k, r0, h0, _, rfl⟩, h2⟩ := h
  have s0 := decVarint_len h0
  split at h2
  · simp only [Except.ok.injEq, Prod.mk.injEq] at h2
    obtain ⟨_, rfl, rfl⟩ := h2; omega
  · simp only [bind_ok_iff, Prod.exists, Except.ok.injEq, Prod.mk.injEq] at h2
    obtain ⟨vs, r2, c2, h3, _, rfl, rfl⟩ := h2
    have := decManyS_good hd _ _ _ _ _ h3
    omega

theorem legacyArrayReaderS_good {d : DecS Value} (hd : GoodS 1 d) :
    GoodS 1 (legacyArrayReaderS d) := by
  intro bs v r c h
  simp only [legacyArrayReaderS, readLegacyArrayLength, bind_ok_iff, Prod.exists, pure,
    Except.pure] at h
  obtain ⟨n, r1, h0, h2⟩ := h
  have s0 := decIntN_len h0
  split at h2
  · simp only [Except.ok.injEq, Prod.mk.injEq] at h2
    obtain ⟨_, rfl, rfl⟩ := h2; omega
  · simp only [bind_ok_iff, Prod.exists, Except.ok.injEq, Prod.mk.injEq] at h2
    obtain ⟨vs, r2, c2, h3, _, rfl, rfl⟩ := h2
    have := decManyS_good hd _ _ _ _ _ h3
    omega

theorem arrayReaderS_good (flex : Bool) {d : DecS Value} (hd : GoodS 1 d) :
    GoodS 1 (arrayReaderS flex d) := by
  unfold arrayReaderS
  split
  · exact compactArrayReaderS_good hd
  · exact legacyArrayReaderS_good hd

theorem readNullableS_good {k : Nat} {d : DecS Value} (hd : GoodS k d) :
    GoodS 1 (readNullableS d) := by
  intro bs v r c h
  simp only [readNullableS, bind_ok_iff, Prod.exists, pure, Except.pure] at h
  obtain ⟨m, r1, h1, h2⟩ := h
  have s1 := decIntN_len h1
  split at h2
  · simp only [Except.ok.injEq, Prod.mk.injEq] at h2
    obtain ⟨_, rfl, rfl⟩ := h2; omega
  · split at h2
    · simp only [bind_ok_iff, Prod.exists, Except.ok.injEq, Prod.mk.injEq] at h2
      obtain ⟨v', r2, c2, h3, _, rfl, rfl⟩ := h2
      have := hd _ _ _ _ h3
      omega
    · contradiction

theorem lookupTaggedS_mem {plan : List TaggedRS} {t : Nat} {e : TaggedRS}
    (h : lookupTaggedS plan t = some e) : e ∈ plan :=
  List.mem_of_find?_eq_some h

theorem readTaggedLoopS_good (skip : Bool) (plan : List TaggedRS)
    (hp : ∀ e ∈ plan, GoodS 0 e.read) (n : Nat) :
    ∀ bs acc out r c, readTaggedLoopS skip plan n bs acc = .ok (out, r, c) →
      r.length + 2 * n ≤ bs.length ∧ c ≤ 2 * (bs.length - r.length) - 1 := by
  induction n with
  | zero =>
    intro bs acc out r c h
    simp only [readTaggedLoopS, Except.ok.injEq, Prod.mk.injEq] at h
    obtain ⟨_, rfl, rfl⟩ := h
    omega
  | succ n ih =>
    intro bs acc out r c h
    simp only [readTaggedLoopS, bind_ok_iff, Prod.exists] at h
    obtain ⟨tag, r1, h1, size, r2, h2, h3⟩ := h
    have s1 := decVarint_len h1
    have s2 := decVarint_len h2
    split at h3
    · rename_i e he
      simp only [bind_ok_iff, Prod.exists, pure, Except.pure, Except.ok.injEq, Prod.mk.injEq] at h3
      obtain ⟨v, r3, c1, h4, out', r4, c2, h5, _, rfl, rfl⟩ := h3
      have := hp e (lookupTaggedS_mem he) _ _ _ _ h4
      have := ih _ _ _ _ _ h5
      omega
    · split at h3
      · simp only [bind_ok_iff, Prod.exists, pure, Except.pure, Except.ok.injEq, Prod.mk.injEq] at h3
        obtain ⟨_, r3, h4, out', r4, c2, h5, _, rfl, rfl⟩ := h3
        have := (readExact_suffix _ _ _ _ h4).length_le
        have := ih _ _ _ _ _ h5
        omega
      · contradiction


mutual
theorem Schema.readS_good (env : Env) :
    (s : Schema) → s.wf env = true → GoodS (Schema.minSize s) (s.readS env)
  | .mk _ flex rh fs => by
    intro hwf
    simp only [Schema.wf, Bool.and_eq_true] at hwf
    have hu := Fields.readUntaggedS_good env flex rh fs hwf.1.1
    have hp := Fields.taggedPlanS_good env flex rh fs hwf.1.1
    intro bs v r c h
    simp only [Schema.readS, bind_ok_iff, Prod.exists] at h
    obtain ⟨us, r1, c1, h1, h2⟩ := h
    have s1 := hu _ _ _ _ h1
    simp only [Schema.minSize]
    cases flex
    · simp only [Bool.not_false, if_true, pure, Except.pure, Except.ok.injEq, Prod.mk.injEq] at h2
      obtain ⟨_, rfl, rfl⟩ := h2
      simpa using s1
    · simp only [Bool.not_true, Bool.false_eq_true, if_false, bind_ok_iff, Prod.exists, pure,
        Except.pure, Except.ok.injEq, Prod.mk.injEq] at h2
      obtain ⟨n, r2, h3, acc, r3, c2, h4, _, rfl, rfl⟩ := h2
      have := decVarint_len h3
      have := readTaggedLoopS_good _ _ hp _ _ _ _ _ _ h4
      simp only [if_true]
      omega
theorem Fields.readUntaggedS_good (env : Env) (flex rh : Bool) :
    (fs : List Field) → Fields.wf env flex rh fs = true →
      GoodS (Fields.minSize fs) (Fields.readUntaggedS env flex rh fs)
  | [] => by
    intro _ bs v r c h
    simp only [Fields.readUntaggedS, Except.ok.injEq, Prod.mk.injEq] at h
    obtain ⟨_, rfl, rfl⟩ := h
    simp [Fields.minSize]
  | .mk m sh :: fs => by
    intro hwf
    simp only [Fields.wf, Bool.and_eq_true] at hwf
    have hf := Field.readS_good env flex rh false (.mk m sh) hwf.1
    have ih := Fields.readUntaggedS_good env flex rh fs hwf.2
    intro bs v r c h
    simp only [Fields.readUntaggedS] at h
    simp only [Fields.minSize, Field.minSize]
    by_cases ht' : (Field.mk m sh).isTagged = true
    · rw [if_pos ht'] at h
      have ht : m.tag.isSome = true := ht'
      have := ih _ _ _ _ h
      simp only [ht, if_true]
      omega
    · rw [if_neg ht'] at h
      have ht : ¬ m.tag.isSome = true := ht'
      simp only [bind_ok_iff, Prod.exists, pure, Except.pure, Except.ok.injEq, Prod.mk.injEq] at h
      obtain ⟨a, r1, c1, h1, vs, r2, c2, h2, _, rfl, rfl⟩ := h
      have hg := hf (by simp only [Field.meta]; cases hm : m.tag.isSome <;> simp_all) _ _ _ _ h1
      have := ih _ _ _ _ h2
      simp only [Field.minSize, if_neg ht] at hg
      rw [if_neg ht]
      omega
theorem Fields.taggedPlanS_good (env : Env) (flex rh : Bool) :
    (fs : List Field) → Fields.wf env flex rh fs = true →
      ∀ e ∈ Fields.taggedPlanS env flex rh fs, GoodS 0 e.read
  | [] => by
    intro _ e he
    simp [Fields.taggedPlanS] at he
  | .mk m sh :: fs => by
    intro hwf
    simp only [Fields.wf, Bool.and_eq_true] at hwf
    have hf := Field.readS_good env flex rh true (.mk m sh) hwf.1
    have ih := Fields.taggedPlanS_good env flex rh fs hwf.2
    intro e he
    simp only [Fields.taggedPlanS] at he
    split at he
    · exact ih e he
    · rename_i t ht
      rcases List.mem_cons.1 he with rfl | he
      · exact (hf (by simp only [Field.meta]; exact (tagNat_some ht).symm)).mono (Nat.zero_le _)
      · exact ih e he
theorem Field.readS_good (env : Env) (flex rh tagged : Bool) :
    (f : Field) → Field.wf env flex rh f = true → tagged = f.meta.tag.isSome →
      GoodS (Field.minSize f) (Field.readS env flex rh tagged f)
  | .mk m sh => by
    intro hwf ht
    have hs := Shape.readS_good env flex tagged m sh
    simp only [Field.wf, Bool.and_eq_true] at hwf
    simp only [Field.readS, Field.minSize]
    have h3 := hwf.1.1.2
    by_cases hc : (rh && m.isClientId) = true
    · rw [if_pos (by simpa using hc)] at h3
      rw [if_pos hc]
      refine (tick_good (PrimR.run_min env .nullableLegacyString)).mono ?_
      split
      · omega
      · cases sh <;> simp_all [Shape.minSize]
    · rw [if_neg (by simpa using hc)] at h3
      rw [if_neg hc]
      exact (hs h3).mono (by split <;> omega)
theorem Shape.readS_good (env : Env) (flex tagged : Bool) (m : FieldMeta) :
    (sh : Shape) → Shape.wf env flex m sh = true →
      GoodS (Shape.minSize sh) (Shape.readS env flex tagged m sh)
  | .prim l o => by
    intro _
    simp only [Shape.readS, Shape.minSize]
    exact tick_good (primFieldReaderT_min _ _ _ _ _)
  | .primArr l e a => by
    intro _
    simp only [Shape.readS, Shape.minSize]
    exact arrayReaderS_good _ (tick_good (primFieldReader_min _ _ _ _))
  | .ent s o => by
    intro hwf
    simp only [Shape.wf, Bool.and_eq_true] at hwf
    have hs := Schema.readS_good env s hwf.2
    simp only [Shape.readS, Shape.minSize]
    split
    · exact readNullableS_good hs
    · exact hs
  | .entArr s _ => by
    intro hwf
    simp only [Shape.wf, Bool.and_eq_true, decide_eq_true_eq] at hwf
    have hs := Schema.readS_good env s hwf.1.2
    simp only [Shape.readS, Shape.minSize]
    exact arrayReaderS_good _ (hs.mono hwf.2)
  | .bad => by
    intro hwf
    simp [Shape.wf] at hwf
end


/-! ## statements for `Schema.read` -/

mutual
/-- number of class / field nodes of a schema -/
def Schema.size : Schema → Nat
  | .mk _ _ _ fs => 1 + Fields.size fs
def Fields.size : List Field → Nat
  | [] => 0
  | f :: fs => Field.size f + Fields.size fs
def Field.size : Field → Nat
  | .mk _ sh => 1 + Shape.size sh
def Shape.size : Shape → Nat
  | .prim .. => 0
  | .primArr .. => 0
  | .ent s _ => Schema.size s
  | .entArr s _ => Schema.size s
  | .bad => 0
end

/-- erasure, pointwise: dropping the count from `readS` gives exactly `Schema.read` (any schema) -/
theorem Schema.readS_erase (env : Env) (s : Schema) (bs : Bytes) :
    (s.readS env bs).map (fun p => (p.1, p.2.1)) = s.read env bs := by
  rw [← congrFun (Schema.eraseS_readS env s) bs]
  simp only [eraseS]
  rcases s.readS env bs with e | ⟨v, r, n⟩ <;> rfl

/-- every successful `read` is a successful `readS` with the same value and rest -/
theorem Schema.readS_of_read (env : Env) (s : Schema) (bs : Bytes) (v : Value) (rest : Bytes)
    (h : s.read env bs = .ok (v, rest)) : ∃ n, s.readS env bs = .ok (v, rest, n) := by
  rw [← Schema.readS_erase] at h
  rcases hs : s.readS env bs with e | ⟨v', r', n⟩
  · rw [hs] at h; contradiction
  · rw [hs] at h
    simp only [Except.map, Except.ok.injEq, Prod.mk.injEq] at h
    obtain ⟨rfl, rfl⟩ := h
    exact ⟨n, rfl⟩

/-- every failing `read` is a failing `readS` with the same error -/
theorem Schema.readS_of_read_err (env : Env) (s : Schema) (bs : Bytes) (e : Err)
    (h : s.read env bs = .error e) : s.readS env bs = .error e := by
  rw [← Schema.readS_erase] at h
  rcases hs : s.readS env bs with e' | ⟨v', r', n⟩
  · rw [hs] at h; injection h with h; rw [h]
  · rw [hs] at h; contradiction

/-- the linear bound: on a coherent class a successful instrumented decode consumes at least
    `minSize` bytes and takes at most two steps per consumed byte -/
theorem Schema.readS_steps_le (env : Env) (s : Schema) (hwf : s.wf env = true) (bs : Bytes)
    (v : Value) (rest : Bytes) (n : Nat) (h : s.readS env bs = .ok (v, rest, n)) :
    rest.length + Schema.minSize s ≤ bs.length ∧ n ≤ 2 * (bs.length - rest.length) := by
  have := Schema.readS_good env s hwf bs v rest n h
  omega

/-- the bound in the form `2·consumed + size` (weaker than `readS_steps_le`) -/
theorem Schema.readS_steps_le_size (env : Env) (s : Schema) (hwf : s.wf env = true) (bs : Bytes)
    (v : Value) (rest : Bytes) (n : Nat) (h : s.readS env bs = .ok (v, rest, n)) :
    n ≤ 2 * (bs.length - rest.length) + Schema.size s := by
  have := Schema.readS_steps_le env s hwf bs v rest n h
  omega

/-- the bound, stated for the model's decoder: a successful `read` of a coherent class is a run
    of the instrumented decoder with the same result and at most `2·consumed` steps -/
theorem Schema.read_steps_le (env : Env) (s : Schema) (hwf : s.wf env = true) (bs : Bytes)
    (v : Value) (rest : Bytes) (h : s.read env bs = .ok (v, rest)) :
    ∃ n, s.readS env bs = .ok (v, rest, n) ∧ n ≤ 2 * (bs.length - rest.length) := by
  obtain ⟨n, hn⟩ := Schema.readS_of_read env s bs v rest h
  exact ⟨n, hn, (Schema.readS_steps_le env s hwf bs v rest n hn).2⟩

end Kio
