import Kio.Proofs.Codec
import Kio.Proofs.SpecEq
import Kio.Spec.Foreign
/-!
The reader accepts every conforming *foreign* encoding (C03): explicitly sent defaults (incl.
explicit nulls of nullable tagged fields) and unknown tagged fields at every nesting level.
-/
namespace Kio

theorem Schema.accepts_foreign (env : Env) (ht : env.time = TimeCfg.repaired)
    (hskip : env.skipUnknownTags = true) (hnull : env.nullableTaggedReader = true)
    (pat : Spec.ForeignPat) (hpat : pat.ok = true)
    (s : Schema) (hwf : s.wf env = true)
    (havoid : Spec.Schema.avoids (pat.unknown.map (·.1)) s = true)
    (w : Value) (hw : s.valueOk env w = true) (bs : Bytes)
    (h : Spec.structF pat s w = some bs) (rest : Bytes) :
    s.read env (bs ++ rest) = .ok (w, rest) := by
  sorry

end Kio
