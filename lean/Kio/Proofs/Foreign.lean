import Kio.Proofs.Codec
import Kio.Proofs.SpecEq
import Kio.Spec.Foreign
import Kio.Proofs.ForeignTagged
/-!
The reader accepts every conforming *foreign* encoding (C03): explicitly sent defaults (incl.
explicit nulls of nullable tagged fields) and unknown tagged fields at every nesting level.
-/
namespace Kio

theorem Fields.avoids_mem {ts : List Nat} {fs : List Field} (h : Spec.Fields.avoids ts fs = true)
    {f : Field} (hf : f ∈ fs) : Spec.Field.avoids ts f = true := by
  induction fs with
  | nil => cases hf
  | cons a as ih =>
    simp only [Spec.Fields.avoids, Bool.and_eq_true] at h
    rcases List.mem_cons.mp hf with rfl | hf
    · exact h.1
    · exact ih h.2 hf

theorem Field.avoids_tag {ts : List Nat} {f : Field} (h : Spec.Field.avoids ts f = true)
    {t : Nat} (ht : f.tagNat = some t) : t ∉ ts := by
  cases f with
  | mk m sh =>
    simp only [Spec.Field.avoids, Bool.and_eq_true] at h
    have h1 := h.1
    simp only [Field.tagNat, FieldMeta.tagNat] at ht
    rcases opt_cases m.tag with htag | ⟨i, htag⟩
    · rw [htag] at ht; cases ht
    · rw [htag] at ht h1
      simp only [Option.map_some, Option.some.injEq] at ht
      subst ht
      simpa using h1

theorem Field.default_spec (env : Env) (ht : env.time = TimeCfg.repaired) (flex rh : Bool)
    (f : Field) (hwf : Field.wf env flex rh f = true) (htg : f.isTagged = true) :
    Spec.defaultOfField f = some (Field.dflt env f) := by
  have heq := Field.default_eq env ht flex rh f hwf
  cases f with
  | mk m sh =>
    obtain ⟨_, _, hd⟩ := Field.wf_elim hwf
    simp only [Field.isTagged] at htg
    have hnone : m.tag.isNone = false := by
      rcases opt_cases m.tag with h | ⟨i, h⟩ <;> rw [h] at htg ⊢
      · cases htg
      · rfl
    rw [hnone, Bool.false_or] at hd
    obtain ⟨d, hd⟩ := ok_of_isSome hd
    rw [hd] at heq
    unfold Field.dflt
    rw [hd]
    exact heq.symm

theorem fieldSpecF_tagged (env : Env) (pat : Spec.ForeignPat) (flex rh tagged : Bool) (f : Field)
    (v : Value) (hwf : Field.wf env flex rh f = true) (htg : f.isTagged = true) :
    fieldSpecF pat flex rh tagged f v = Spec.fieldBytesF pat flex tagged f.meta f.shape v := by
  cases f with
  | mk m sh =>
    obtain ⟨_, hsh, _⟩ := Field.wf_elim hwf
    simp only [Field.isTagged] at htg
    rw [fieldSpecF]
    cases hc : (rh && m.isClientId)
    · simp only [Bool.false_eq_true, if_false, Field.meta, Field.shape]
    · rw [hc] at hsh
      simp only [if_true] at hsh
      have h1 := hsh.1
      rcases opt_cases m.tag with h | ⟨i, h⟩ <;> rw [h] at htg h1
      · cases htg
      · cases h1

theorem schema_F (env : Env) (ht : env.time = TimeCfg.repaired)
    (hskip : env.skipUnknownTags = true) (pat : Spec.ForeignPat) (hpat : pat.ok = true)
    (n : Nat) (flex rh : Bool) (fs : List Field)
    (ih : ∀ f ∈ fs, FieldF env pat f) : SchemaF env pat (.mk n flex rh fs) := by
  intro v bs hwf hav hvo he rest
  obtain ⟨vs, rfl⟩ := Schema.valueOk_entity hvo
  rw [Schema.valueOk.eq_1] at hvo
  obtain ⟨hlen, hvz⟩ := Fields.valueOk_zip hvo
  simp only [Schema.wf, Bool.and_eq_true] at hwf
  obtain ⟨⟨hfs, hany⟩, hdup⟩ := hwf
  have hn : (fs.filterMap Field.tagNat).Nodup := by
    simpa [dupTags] using hdup
  rw [Spec.Schema.avoids] at hav
  have hfrt : ∀ (tagged : Bool), ∀ p ∈ fs.zip vs, p.1.isTagged = tagged → ∀ payload,
      fieldSpecF pat flex rh tagged p.1 p.2 = some payload →
      ∀ rest, Field.read env flex rh tagged p.1 (payload ++ rest) = .ok (p.2, rest) := by
    intro tagged p hp htg payload hpay rest'
    have hmem := (List.of_mem_zip hp).1
    exact ih p.1 hmem flex rh tagged p.2 payload htg.symm (Fields.wf_mem hfs hmem)
      (Fields.avoids_mem hav hmem) (hvz p hp) hpay rest'
  rw [Spec.structF] at he
  obtain ⟨a, ha, he⟩ := Option.bind_eq_some_iff.1 he
  have hun := fun rest' => Fields.readUntagged_F env pat flex rh fs vs (hfrt false) a ha rest'
  rw [Schema.read]
  cases flex
  · simp only [Bool.false_eq_true, if_false] at he
    have he := Option.some.inj he
    subst he
    simp only [hun rest, bind, Except.bind, Bool.not_false, if_true, pure, Except.pure]
    rw [assemble_eq env [] fs vs hlen]
    intro p hp t ht
    exfalso
    have hmem := (List.of_mem_zip hp).1
    simp only [Bool.or_false, Bool.not_eq_true', List.any_eq_false] at hany
    have := hany p.1 hmem
    rw [Field.isTagged_eq, ht] at this
    simp at this
  · simp only [if_true] at he
    obtain ⟨entries, hi, he⟩ := Option.bind_eq_some_iff.1 he
    by_cases hc : (Spec.ascending (entries ++ Spec.unknownEntries pat)).length < 2 ^ 35
    · rw [if_pos hc] at he
      have he := Option.some.inj he
      subst he
      obtain ⟨acc, hloop, hacc⟩ := tagged_section_F env pat hpat true rh fs vs hn
        (fun f hf => Fields.wf_mem hfs hf)
        (fun f hf t ht => Field.avoids_tag (Fields.avoids_mem hav hf) ht)
        (fun f hf htg => Field.default_spec env ht true rh f (Fields.wf_mem hfs hf) htg)
        hvz
        (fun p hp htg payload hpay rest' => hfrt true p hp htg payload
          (by rw [fieldSpecF_tagged env pat true rh true p.1 p.2
                (Fields.wf_mem hfs (List.of_mem_zip hp).1) htg]; exact hpay) rest')
        entries hi rest
      simp only [List.append_assoc, hun, bind, Except.bind, Bool.not_true, Bool.false_eq_true, if_false]
      rw [← encVarint_eq_spec, varint_roundtrip 4 _ (by rw [pow128_5]; exact hc)]
      simp only [hskip, hloop, pure, Except.pure]
      rw [assemble_eq env acc fs vs hlen hacc]
    · rw [if_neg hc] at he; cases he

theorem Schema.accepts_foreign_all (env : Env) (ht : env.time = TimeCfg.repaired)
    (hskip : env.skipUnknownTags = true) (hnull : env.nullableTaggedReader = true)
    (pat : Spec.ForeignPat) (hpat : pat.ok = true) : ∀ s, SchemaF env pat s :=
  Schema.induct3 (PS := SchemaF env pat) (PF := FieldF env pat) (PSh := ShapeF env pat)
    (schema_F env ht hskip pat hpat) (field_F env ht pat) (shape_prim_F env ht hnull pat)
    (shape_primArr_F env ht pat) (shape_ent_F env pat) (shape_entArr_F env pat)
    (by intro flex tagged m v bs _ hwf; simp [Shape.wf] at hwf)

theorem Schema.accepts_foreign (env : Env) (ht : env.time = TimeCfg.repaired)
    (hskip : env.skipUnknownTags = true) (hnull : env.nullableTaggedReader = true)
    (pat : Spec.ForeignPat) (hpat : pat.ok = true)
    (s : Schema) (hwf : s.wf env = true)
    (havoid : Spec.Schema.avoids (pat.unknown.map (·.1)) s = true)
    (w : Value) (hw : s.valueOk env w = true) (bs : Bytes)
    (h : Spec.structF pat s w = some bs) (rest : Bytes) :
    s.read env (bs ++ rest) = .ok (w, rest) :=
  Schema.accepts_foreign_all env ht hskip hnull pat hpat s w bs hwf havoid hw h rest

end Kio
