import Kio.Proofs.GenSpec
import Kio.Proofs.SpecEq
import Kio.Gen.Supported
/-!
# C16: what the generator produces from a *supported* definition (statements)

`Supported d v` (Kio/Gen/Supported.lean) is syntactic.  For every supported definition and version:
* `module_coherent`: every generated class is coherent (`Schema.wf`, the hypothesis of C01–C10),
  has no tagged nullable entity array and fewer than 2^35 fields — so C02 applies to it and its
  instances encode to exactly the bytes `Spec.enc` prescribes for the generated descriptor, whose
  fields are the definition's by `module_fields'`;
* `module_defaults`: every field's default is the one the definition states (`DefSpec.expDefault`).
-/
namespace Kio.Gen
open Kio

theorem module_coherent (env : Env) (ht : env.time = TimeCfg.repaired)
    (d : MsgDef) (b : List (List Nat)) (v : Nat) (gs : List GClass)
    (hs : Supported d v = true) (h : module d b v = .ok gs) :
    ∀ g ∈ gs, g.schema.wf env = true ∧ g.schema.tagArrOk = true ∧ g.schema.fewFields = true := by
  sorry

theorem module_defaults (d : MsgDef) (b : List (List Nat)) (v : Nat) (gs : List GClass)
    (hs : Supported d v = true) (h : module d b v = .ok gs) :
    ∀ (i : Nat) (g : GClass) (e : DefSpec.ExpClass), gs[i]? = some g → (DefSpec.classesAt d b v)[i]? = some e →
      ∀ (j : Nat) (f : Field) (ef : DefSpec.ExpField), g.schema.fields[j]? = some f → e.fields[j]? = some ef →
        dfltAgrees ef.dflt f = true := by
  sorry

end Kio.Gen
