import Kio.Proofs.GenSpec
import Kio.Proofs.SpecEq
import Kio.Gen.Supported
import Kio.Proofs.GenCoherentInd
/-!
# C16: what the generator produces from a *supported* definition

`Supported d v` (Kio/Gen/Supported.lean) is syntactic.  For every supported definition and version:
* `module_coherent`: every generated class is coherent (`Schema.wf`, the hypothesis of C01–C10),
  has no tagged nullable entity array and fewer than 2^35 fields — so C02 applies to it and its
  instances encode to exactly the bytes `Spec.enc` prescribes for the generated descriptor, whose
  fields are the definition's by `module_fields'`;
* `module_defaults`: every field's default is the one the definition states (`DefSpec.expDefault`).

The proofs are one induction over the generator (`gen_coh`, Kio/Proofs/GenCoherentInd.lean) with the
invariant "every class generated so far is coherent and has the stated defaults" (`ClsOK`), the
per-field lemmas of Kio/Proofs/GenCoherentOne.lean, and — for the alignment with the independent
reading that `module_defaults` speaks about — the fact that a supported definition never yields two
classes of the same name (`coh_module_nodup`, Kio/Proofs/GenCoherentNodup.lean).

`module_defaults` is false without the condition `membersOk` of `Supported`
(`module_defaults_needs_membersOk`, `module_defaults_needs_membersOk'` below).
-/
namespace Kio.Gen
open Kio

theorem module_coherent (env : Env) (ht : env.time = TimeCfg.repaired)
    (d : MsgDef) (b : List (List Nat)) (v : Nat) (gs : List GClass)
    (hs : Supported d v = true) (h : module d b v = .ok gs) :
    ∀ g ∈ gs, g.schema.wf env = true ∧ g.schema.tagArrOk = true ∧ g.schema.fewFields = true := by
  intro g hg
  have := coh_module_clsOK ht hs h g hg
  exact ⟨this.wf, this.tagArr, this.few⟩

/-! ## the expected classes come from the structures of the definition -/

/-- an expected class lists the visible fields of a structure of the definition of that name -/
def coh_SrcOK (d : MsgDef) (b : List (List Nat)) (v : Nat) (e : DefSpec.ExpClass) : Prop :=
  ∃ fs, (e.name, fs) ∈ d.structs ∧ e.fields = (visibleAt fs v).map (fun f => DefSpec.expField b f v)

theorem coh_specSub_mem {d : MsgDef} {f : FieldDef} {rest : List FieldDef} {n : List Nat}
    {fs : List FieldDef} (h : specSub d f = some (n, fs)) (hs : SubS d (f :: rest)) :
    SubS d fs ∧ (n, fs) ∈ d.structs := by
  have key : ∀ n', (f.ty = .struct n' ∨ f.ty = .structArr n') →
      (match f.fields with
       | some fs => some (n', fs)
       | none => (d.commonStructs.find? (·.name == n')).map (fun cs => (n', cs.fields))) = some (n, fs) →
      SubS d fs ∧ (n, fs) ∈ d.structs := by
    intro n' hty h
    cases hf : f.fields with
    | some fs' =>
      rw [hf] at h
      simp only [Option.some.injEq, Prod.mk.injEq] at h
      obtain ⟨rfl, rfl⟩ := h
      exact ⟨hs.sub hf, hs.here hf hty⟩
    | none =>
      rw [hf] at h
      simp only [Option.map_eq_some_iff, Prod.mk.injEq] at h
      obtain ⟨cs, hcs, rfl, rfl⟩ := h
      have hmem := List.mem_of_find?_eq_some hcs
      have hname := find_cs_name hcs
      rw [← hname]
      exact ⟨SubS.cs hmem, coh_cs_mem hmem⟩
  unfold specSub at h
  split at h
  · rename_i n' hty; exact key n' (Or.inl hty) h
  · rename_i n' hty; exact key n' (Or.inr hty) h
  · cases h

theorem coh_structuresBelow_src (d : MsgDef) (b : List (List Nat)) (v : Nat) :
    ∀ (fuel : Nat) (eacc : List DefSpec.ExpClass) (fs : List FieldDef), SubS d fs →
      (∀ e ∈ eacc, coh_SrcOK d b v e) →
      ∀ e ∈ DefSpec.structuresBelow d b v fuel eacc fs, coh_SrcOK d b v e := by
  intro fuel
  induction fuel with
  | zero => intro eacc fs _ h; rw [DefSpec.structuresBelow]; exact h
  | succ fuel ih =>
    intro eacc fs hsub h
    cases fs with
    | nil => rw [DefSpec.structuresBelow]; exact h
    | cons f rest =>
      rw [structuresBelow_cons]
      split
      · exact ih _ _ hsub.rest h
      · split
        · exact ih _ _ hsub.rest h
        · rename_i n fs' hss
          obtain ⟨hsub', hmem'⟩ := coh_specSub_mem hss hsub
          apply ih _ _ hsub.rest
          unfold specClass
          split
          · exact h
          · simp only
            split
            · exact ih _ _ hsub' h
            · intro e he
              rcases List.mem_append.1 he with he | he
              · exact ih _ _ hsub' h e he
              · simp only [List.mem_singleton] at he
                subst he
                exact ⟨fs', hmem', rfl⟩

theorem coh_classesAt_src (d : MsgDef) (b : List (List Nat)) (v : Nat) :
    ∀ e ∈ DefSpec.classesAt d b v, coh_SrcOK d b v e := by
  intro e he
  unfold DefSpec.classesAt at he
  rcases List.mem_append.1 he with he | he
  · exact coh_structuresBelow_src d b v _ [] _ (SubS.top d) (by simp) e he
  · simp only [List.mem_singleton] at he
    subst he
    exact ⟨d.fields, coh_top_mem d, rfl⟩

theorem module_defaults (d : MsgDef) (b : List (List Nat)) (v : Nat) (gs : List GClass)
    (hs : Supported d v = true) (h : module d b v = .ok gs) :
    ∀ (i : Nat) (g : GClass) (e : DefSpec.ExpClass), gs[i]? = some g → (DefSpec.classesAt d b v)[i]? = some e →
      ∀ (j : Nat) (f : Field) (ef : DefSpec.ExpField), g.schema.fields[j]? = some f → e.fields[j]? = some ef →
        dfltAgrees ef.dflt f = true := by
  intro i g e hg he j f ef hf hef
  -- a neutral environment: the defaults do not depend on it
  let env : Env := ⟨[], TimeCfg.repaired, true, true⟩
  have hcls := coh_module_clsOK (env := env) rfl hs h g (List.mem_of_getElem? hg)
  have hnames := module_classes' d b v gs h (coh_module_nodup' hs h)
  have hname : g.name = e.name := by
    have h1 : (gs.map (·.name))[i]? = some g.name := by rw [List.getElem?_map, hg]; rfl
    have h2 : ((DefSpec.classesAt d b v).map (·.name))[i]? = some e.name := by
      rw [List.getElem?_map, he]; rfl
    rw [hnames, h2] at h1
    exact (Option.some.inj h1).symm
  obtain ⟨fs, hmem, hfields⟩ := coh_classesAt_src d b v e (List.mem_of_getElem? he)
  have hall : All2 (fun fd fld => dfltAgrees (DefSpec.expField b fd v).dflt fld = true)
      (visibleAt fs v) g.schema.fields := hcls.dflt fs (by rw [hname]; exact hmem)
  rw [hfields, List.getElem?_map, Option.map_eq_some_iff] at hef
  obtain ⟨fd, hfd, rfl⟩ := hef
  exact All2.get (R := fun fd fld => dfltAgrees (DefSpec.expField b fd v).dflt fld = true) hall hfd hf

end Kio.Gen

/-! ## `module_defaults` needs `membersOk` (kernel-checked by `decide`) -/
namespace Kio.Gen.CounterCoh
open Kio Kio.Gen

/-- `Supported` without the condition `membersOk` -/
def SupportedNoMembers (d : MsgDef) (v : Nat) : Bool :=
  d.validVersions.matches v
  && !isRequestHeaderName d.name
  && decide d.structNames.Nodup
  && structOk v false d.fields
  && d.commonStructs.all (fun cs => structOk v true cs.fields && !isRequestHeaderName cs.name)
  && d.everywhere (fun f => !f.versions.matches v || fieldOk d v f)

def r0 : Option VRange := some (.mk 0 none)
def S : List Nat := [83]
def M : List Nat := [77]

/-- a member with a default that is not visible in any version and does not parse (neither
    `versions` nor `taggedVersions`) -/
def gNoVersions : FieldDef := .mk [71] (.prim .int32) none none none none (some (strOf "0")) false none none
/-- a tagged ignorable structure with that single member: the definition reads "all members have
    defaults" (default: the structure of defaults), the generator does not (default: `None`) -/
def fTagged : FieldDef := .mk [70] (.struct S) r0 none r0 (some 0) none true none (some [gNoVersions])
def dMem : MsgDef := ⟨M, .data, none, .mk 0 (some 0), .mk 0 none, [fTagged], []⟩

/-- a member of primitive-array type with an error-code name (visible from version 5 on): the
    generator overwrites its type and counts it as a member with a default, the definition does not -/
def gErrArr : FieldDef :=
  .mk (strOf "ErrorCode") (.primArr .int16) (some (.mk 5 none)) none none none (some (strOf "0")) false none none
def fTagged' : FieldDef := .mk [70] (.struct S) r0 none r0 (some 0) none true none (some [gErrArr])
def dMem' : MsgDef := ⟨M, .data, none, .mk 0 (some 0), .mk 0 none, [fTagged'], []⟩

theorem mem_supported : SupportedNoMembers dMem 0 = true := by decide
theorem mem_disagree : defaultsAgree dMem [] 0 = false := by decide
theorem mem_not_supported : Supported dMem 0 = false := by decide
theorem mem_supported' : SupportedNoMembers dMem' 0 = true := by decide
theorem mem_disagree' : defaultsAgree dMem' [] 0 = false := by decide
theorem mem_not_supported' : Supported dMem' 0 = false := by decide

/-- does the default of field `j` of class `i` agree with the definition's? -/
def dfltAt (i j : Nat) (r : Except GenErr (List GClass)) (es : List DefSpec.ExpClass) : Option Bool :=
  match r with
  | .ok gs => (gs[i]?).bind (fun g => (es[i]?).bind (fun e => (g.schema.fields[j]?).bind (fun f =>
      (e.fields[j]?).map (fun ef => dfltAgrees ef.dflt f))))
  | .error _ => none

theorem mem_at : dfltAt 1 0 (module dMem [] 0) (DefSpec.classesAt dMem [] 0) = some false := by decide
theorem mem_at' : dfltAt 1 0 (module dMem' [] 0) (DefSpec.classesAt dMem' [] 0) = some false := by decide

theorem dflt_refute {d : MsgDef} {i j : Nat}
    (h : dfltAt i j (module d [] 0) (DefSpec.classesAt d [] 0) = some false) :
    ∃ gs, module d [] 0 = .ok gs ∧
    ¬ ∀ (i : Nat) (g : GClass) (e : DefSpec.ExpClass), gs[i]? = some g → (DefSpec.classesAt d [] 0)[i]? = some e →
      ∀ (j : Nat) (f : Field) (ef : DefSpec.ExpField), g.schema.fields[j]? = some f → e.fields[j]? = some ef →
        dfltAgrees ef.dflt f = true := by
  cases hm : module d [] 0 with
  | error e => rw [hm] at h; cases h
  | ok gs =>
    refine ⟨gs, rfl, ?_⟩
    intro H
    rw [hm] at h
    simp only [dfltAt, Option.bind_eq_some_iff, Option.map_eq_some_iff] at h
    obtain ⟨g, hg, e, he, f, hf, ef, hef, hb⟩ := h
    rw [H i g e hg he j f ef hf hef] at hb
    cases hb

/-- `module_defaults` is false without `membersOk`: a member that does not parse … -/
theorem module_defaults_needs_membersOk :
    ¬ ∀ (d : MsgDef) (b : List (List Nat)) (v : Nat) (gs : List GClass),
      SupportedNoMembers d v = true → module d b v = .ok gs →
      ∀ (i : Nat) (g : GClass) (e : DefSpec.ExpClass), gs[i]? = some g → (DefSpec.classesAt d b v)[i]? = some e →
        ∀ (j : Nat) (f : Field) (ef : DefSpec.ExpField), g.schema.fields[j]? = some f → e.fields[j]? = some ef →
          dfltAgrees ef.dflt f = true := by
  intro H
  obtain ⟨gs, hm, hn⟩ := dflt_refute mem_at
  exact hn (H dMem [] 0 gs mem_supported hm)

/-- … or a primitive-array member with an error-code name -/
theorem module_defaults_needs_membersOk' :
    ¬ ∀ (d : MsgDef) (b : List (List Nat)) (v : Nat) (gs : List GClass),
      SupportedNoMembers d v = true → module d b v = .ok gs →
      ∀ (i : Nat) (g : GClass) (e : DefSpec.ExpClass), gs[i]? = some g → (DefSpec.classesAt d b v)[i]? = some e →
        ∀ (j : Nat) (f : Field) (ef : DefSpec.ExpField), g.schema.fields[j]? = some f → e.fields[j]? = some ef →
          dfltAgrees ef.dflt f = true := by
  intro H
  obtain ⟨gs, hm, hn⟩ := dflt_refute mem_at'
  exact hn (H dMem' [] 0 gs mem_supported' hm)

end Kio.Gen.CounterCoh
