import Kio.Proofs.CodecBase
/-!
Truncated input, primitive level: every strict prefix of what a primitive writer produced makes
the matching reader fail with `underflow`.  Also the generic sequencing lemma `pu_seq`.
-/
namespace Kio

private theorem ok_bind {ε α β} (a : α) (f : α → Except ε β) : (Except.ok a >>= f) = f a := rfl

theorem err_bind {ε α β} (e : ε) (f : α → Except ε β) :
    ((Except.error e : Except ε α) >>= f) = .error e := rfl

theorem length_take_lt {α} {l : List α} {k : Nat} (h : k < l.length) :
    (l.take k).length < l.length := by
  rw [List.length_take]; omega

theorem take_append_ge {α} (p q : List α) (k : Nat) (h : p.length ≤ k) :
    (p ++ q).take k = p ++ q.take (k - p.length) := by
  rw [List.take_append]; simp [List.take_of_length_le h]

/-- sequencing: a cut inside the first component underflows there; a cut after it lets the
    first component round-trip and the rest underflow -/
theorem pu_seq {α β} (d : Dec α) (g : α × Bytes → Except Err β) (p q : Bytes) (a : α)
    (hrt : ∀ rest, d (p ++ rest) = .ok (a, rest))
    (hpu : ∀ k, k < p.length → d (p.take k) = .error .underflow)
    (hq : ∀ k, k < q.length → g (a, q.take k) = .error .underflow)
    (k : Nat) (hk : k < (p ++ q).length) :
    (d ((p ++ q).take k) >>= g) = .error .underflow := by
  by_cases hkp : k < p.length
  · rw [List.take_append_of_le_length (Nat.le_of_lt hkp), hpu k hkp]; rfl
  · have hk' : k - p.length < q.length := by
      rw [List.length_append] at hk; omega
    rw [take_append_ge p q k (by omega), hrt, ok_bind]
    exact hq _ hk'

/-! ### framings -/

/-- uvarint (length+1) then payload, or the single null byte -/
def CompactFramed (bs : Bytes) : Prop :=
  bs = encVarint 0 ∨ ∃ (n : Nat) (p : Bytes), (n : Int) = (p.length : Int) + 1 ∧ n < 2 ^ 35 ∧ bs = encVarint n ++ p

/-- big-endian signed length of `w` bytes then payload, or the length −1 alone -/
def LegacyFramed (w : Nat) (bs : Bytes) : Prop :=
  encIntN w true (-1) = .ok bs ∨ ∃ (p l : Bytes), encIntN w true p.length = .ok l ∧ bs = l ++ p

theorem compact_core_pu (nullable : Bool) {bs : Bytes} (h : CompactFramed bs) (j : Nat)
    (hj : j < bs.length) : readCompactStringAsBytesCore nullable (bs.take j) = .error .underflow := by
  unfold readCompactStringAsBytesCore
  rcases h with rfl | ⟨n, p, hn, hlt, rfl⟩
  · rw [varint_prefix_underflow 4 0 (by decide) j hj]; rfl
  · refine pu_seq (decVarint 5) _ (encVarint n) p n
      (varint_roundtrip 4 n (by rw [pow128_5]; exact hlt))
      (varint_prefix_underflow 4 n (by rw [pow128_5]; exact hlt)) ?_ j hj
    intro k hk
    have hn0 : n ≠ 0 := by omega
    have hn1 : (n : Int) - 1 = ((p.length : Nat) : Int) := by omega
    dsimp only
    rw [if_neg hn0, hn1, readExact_short (length_take_lt hk)]; rfl

theorem legacy_core_pu (w : Nat) (hw : 0 < w) (nullable : Bool) {bs : Bytes} (h : LegacyFramed w bs)
    (j : Nat) (hj : j < bs.length) : readLegacyCore w nullable (bs.take j) = .error .underflow := by
  unfold readLegacyCore
  rcases h with h | ⟨p, l, hl, rfl⟩
  · have := encIntN_length h
    rw [decIntN_short (by have := length_take_lt hj; omega)]; rfl
  · have hll := encIntN_length hl
    refine pu_seq (decIntN w true) _ l p (p.length : Int)
      (fun rest => int_roundtrip w hw true _ l rest hl)
      (fun k hk => decIntN_short (by have := length_take_lt hk; omega)) ?_ j hj
    intro k hk
    have hne : ¬ ((p.length : Int) = -1) := by omega
    dsimp only
    rw [if_neg hne, readExact_short (length_take_lt hk)]; rfl

/-! ### what the writers produce -/

theorem writeNullableCompactString_framed {v : Value} {bs : Bytes}
    (h : writeNullableCompactString v = .ok bs) : CompactFramed bs := by
  by_cases hv : v = .none
  · subst hv
    simp only [writeNullableCompactString] at h
    exact Or.inl (Except.ok.inj h).symm
  · cases hp : v.payload? with
    | none =>
      exfalso
      cases v <;> simp [Value.payload?] at hp <;> simp [writeNullableCompactString, Value.payload?] at h hv
    | some p =>
      obtain ⟨n, h1, h2, h3⟩ := writeNullableCompactString_payload hp h
      exact Or.inr ⟨n, p, h1, h2, h3⟩

theorem writeCompactString_framed {v : Value} {bs : Bytes}
    (h : writeCompactString v = .ok bs) : CompactFramed bs := by
  by_cases hv : v = .none
  · subst hv; rw [writeCompactString.eq_1] at h; cases h
  · rw [writeCompactString.eq_2 v hv] at h; exact writeNullableCompactString_framed h

theorem writeNullableLegacyString_framed {v : Value} {bs : Bytes}
    (h : writeNullableLegacyString v = .ok bs) : LegacyFramed 2 bs := by
  cases v <;> try (simp [writeNullableLegacyString] at h; done)
  · obtain ⟨l, hl, rfl⟩ := writeNullableLegacyString_str h
    exact Or.inr ⟨_, l, hl, rfl⟩
  · exact Or.inl h

theorem writeLegacyString_framed {v : Value} {bs : Bytes}
    (h : writeLegacyString v = .ok bs) : LegacyFramed 2 bs := by
  by_cases hv : v = .none
  · subst hv; rw [writeLegacyString.eq_1] at h; cases h
  · rw [writeLegacyString.eq_2 v hv] at h; exact writeNullableLegacyString_framed h

theorem writeNullableLegacyBytes_framed {v : Value} {bs : Bytes}
    (h : writeNullableLegacyBytes v = .ok bs) : LegacyFramed 4 bs := by
  cases v <;> try (simp [writeNullableLegacyBytes] at h; done)
  · obtain ⟨l, hl, rfl⟩ := writeNullableLegacyBytes_bytes h
    exact Or.inr ⟨_, l, hl, rfl⟩
  · exact Or.inl h

theorem writeLegacyBytes_framed {v : Value} {bs : Bytes}
    (h : writeLegacyBytes v = .ok bs) : LegacyFramed 4 bs := by
  by_cases hv : v = .none
  · subst hv; rw [writeLegacyBytes.eq_1] at h; cases h
  · rw [writeLegacyBytes.eq_2 v hv] at h; exact writeNullableLegacyBytes_framed h

theorem writeIntN_length {w : Nat} {s : Bool} {v : Value} {bs : Bytes}
    (h : writeIntN w s v = .ok bs) : bs.length = w := by
  unfold writeIntN at h
  split at h
  · exact encIntN_length h
  · cases h

/-! ### classification of the dispatch tables by framing -/

inductive Framing where
  | compact
  | legacy (w : Nat)
  | fixed (n : Nat)

def Framed : Framing → Bytes → Prop
  | .compact, bs => CompactFramed bs
  | .legacy w, bs => LegacyFramed w bs
  | .fixed n, bs => bs.length = n

def PrimW.framing : PrimW → Framing
  | .int8 | .uint8 | .boolean => .fixed 1
  | .int16 | .uint16 | .errorCode => .fixed 2
  | .int32 | .uint32 | .timedeltaI32 => .fixed 4
  | .int64 | .uint64 | .float64 | .timedeltaI64 | .datetimeI64 | .nullableDatetimeI64 => .fixed 8
  | .uuid => .fixed 16
  | .compactString | .nullableCompactString => .compact
  | .legacyString | .nullableLegacyString => .legacy 2
  | .legacyBytes | .nullableLegacyBytes => .legacy 4

def PrimR.framing : PrimR → Framing
  | .int8 | .uint8 | .boolean => .fixed 1
  | .int16 | .uint16 | .errorCode => .fixed 2
  | .int32 | .uint32 | .timedeltaI32 => .fixed 4
  | .int64 | .uint64 | .float64 | .timedeltaI64 | .datetimeI64 | .nullableDatetimeI64 => .fixed 8
  | .uuid => .fixed 16
  | .compactString | .compactStringNullable | .compactBytes | .compactBytesNullable => .compact
  | .legacyString | .nullableLegacyString => .legacy 2
  | .legacyBytes | .nullableLegacyBytes => .legacy 4

theorem dispatch_framing {k : KType} {flex optW optR : Bool} {w : PrimW} {r : PrimR}
    (hw : getWriter k flex optW = .ok w) (hr : getReader k flex optR = .ok r) :
    w.framing = r.framing := by
  cases k <;> cases flex <;> cases optW <;> cases optR <;>
    simp [getWriter, getReader] at hw hr <;> subst hw hr <;> rfl

theorem PrimW.framed (env : Env) (w : PrimW) (v : Value) (bs : Bytes)
    (hu : ∀ b, v = .uuid b → b.length = 16) (he : w.run env v = .ok bs) : Framed w.framing bs := by
  cases w
  case int8 => exact writeIntN_length he
  case int16 => exact writeIntN_length he
  case int32 => exact writeIntN_length he
  case int64 => exact writeIntN_length he
  case uint8 => exact writeIntN_length he
  case uint16 => exact writeIntN_length he
  case uint32 => exact writeIntN_length he
  case uint64 => exact writeIntN_length he
  case float64 =>
    cases v <;> simp [PrimW.run, writeFloat64] at he
    subst he; exact natBE_length _ _
  case compactString => exact writeCompactString_framed he
  case nullableCompactString => exact writeNullableCompactString_framed he
  case legacyString => exact writeLegacyString_framed he
  case nullableLegacyString => exact writeNullableLegacyString_framed he
  case legacyBytes => exact writeLegacyBytes_framed he
  case nullableLegacyBytes => exact writeNullableLegacyBytes_framed he
  case uuid =>
    cases v <;> simp [PrimW.run, writeUuid] at he
    · subst he; exact hu _ rfl
    · subst he; simp [PrimW.framing, Framed, uuidZero]
  case boolean =>
    simp [PrimW.run, writeBoolean] at he
    subst he; rfl
  case errorCode =>
    cases v <;> simp [PrimW.run, writeErrorCode] at he
    exact encIntN_length he
  case timedeltaI32 =>
    cases v <;> simp [PrimW.run, writeTimedeltaI32, writeTimedelta] at he
    exact encIntN_length he
  case timedeltaI64 =>
    cases v <;> simp [PrimW.run, writeTimedeltaI64, writeTimedelta] at he
    exact encIntN_length he
  case datetimeI64 =>
    cases v <;> simp [PrimW.run, writeDatetimeI64] at he
    exact encIntN_length he
  case nullableDatetimeI64 =>
    cases v <;> simp [PrimW.run, writeNullableDatetimeI64, writeDatetimeI64] at he
    all_goals exact encIntN_length he

theorem PrimR.pu (env : Env) (r : PrimR) (bs : Bytes) (h : Framed r.framing bs) (j : Nat)
    (hj : j < bs.length) : r.run env (bs.take j) = .error .underflow := by
  have hlt := length_take_lt hj
  cases r
  case int8 => simp only [PrimR.framing, Framed] at h; simp only [PrimR.run, readInt8]; rw [decIntN_short (by omega)]; rfl
  case int16 => simp only [PrimR.framing, Framed] at h; simp only [PrimR.run, readInt16]; rw [decIntN_short (by omega)]; rfl
  case int32 => simp only [PrimR.framing, Framed] at h; simp only [PrimR.run, readInt32]; rw [decIntN_short (by omega)]; rfl
  case int64 => simp only [PrimR.framing, Framed] at h; simp only [PrimR.run, readInt64]; rw [decIntN_short (by omega)]; rfl
  case uint8 => simp only [PrimR.framing, Framed] at h; simp only [PrimR.run, readUint8]; rw [decIntN_short (by omega)]; rfl
  case uint16 => simp only [PrimR.framing, Framed] at h; simp only [PrimR.run, readUint16]; rw [decIntN_short (by omega)]; rfl
  case uint32 => simp only [PrimR.framing, Framed] at h; simp only [PrimR.run, readUint32]; rw [decIntN_short (by omega)]; rfl
  case uint64 => simp only [PrimR.framing, Framed] at h; simp only [PrimR.run, readUint64]; rw [decIntN_short (by omega)]; rfl
  case float64 =>
    simp only [PrimR.framing, Framed] at h; simp only [PrimR.run, readFloat64]
    rw [show readExact 8 (bs.take j) = .error .underflow from readExact_short (n := 8) (by omega)]; rfl
  case compactString =>
    simp only [PrimR.run, readCompactString]; rw [compact_core_pu false h j hj]; rfl
  case compactStringNullable =>
    simp only [PrimR.run, readCompactStringNullable]; rw [compact_core_pu true h j hj]; rfl
  case compactBytes =>
    simp only [PrimR.run, readCompactStringAsBytes]; rw [compact_core_pu false h j hj]; rfl
  case compactBytesNullable =>
    simp only [PrimR.run, readCompactStringAsBytesNullable]; rw [compact_core_pu true h j hj]; rfl
  case legacyString =>
    simp only [PrimR.run, readLegacyString]; rw [legacy_core_pu 2 (by omega) false h j hj]; rfl
  case nullableLegacyString =>
    simp only [PrimR.run, readNullableLegacyString]; rw [legacy_core_pu 2 (by omega) true h j hj]; rfl
  case legacyBytes =>
    simp only [PrimR.run, readLegacyBytes]; rw [legacy_core_pu 4 (by omega) false h j hj]; rfl
  case nullableLegacyBytes =>
    simp only [PrimR.run, readNullableLegacyBytes]; rw [legacy_core_pu 4 (by omega) true h j hj]; rfl
  case uuid =>
    simp only [PrimR.framing, Framed] at h; simp only [PrimR.run, readUuid]
    rw [show readExact 16 (bs.take j) = .error .underflow from readExact_short (n := 16) (by omega)]; rfl
  case boolean =>
    simp only [PrimR.framing, Framed] at h; simp only [PrimR.run, readBoolean]
    rw [show readExact 1 (bs.take j) = .error .underflow from readExact_short (n := 1) (by omega)]; rfl
  case errorCode =>
    simp only [PrimR.framing, Framed] at h; simp only [PrimR.run, readErrorCode]
    rw [decIntN_short (by omega)]; rfl
  case timedeltaI32 =>
    simp only [PrimR.framing, Framed] at h; simp only [PrimR.run, readTimedeltaI32]
    rw [decIntN_short (by omega)]; rfl
  case timedeltaI64 =>
    simp only [PrimR.framing, Framed] at h; simp only [PrimR.run, readTimedeltaI64]
    rw [decIntN_short (by omega)]; rfl
  case datetimeI64 =>
    simp only [PrimR.framing, Framed] at h; simp only [PrimR.run, readDatetimeI64]
    rw [decIntN_short (by omega)]; rfl
  case nullableDatetimeI64 =>
    simp only [PrimR.framing, Framed] at h; simp only [PrimR.run, readNullableDatetimeI64]
    rw [decIntN_short (by omega)]; rfl

/-- a strict prefix of what the dispatched writer produced makes the dispatched reader underflow
    (whatever `optional` flags writer and reader were looked up with) -/
theorem prim_pu (env : Env) (k : KType) (flex optW optR : Bool) (w : PrimW) (r : PrimR)
    (hw : getWriter k flex optW = .ok w) (hr : getReader k flex optR = .ok r)
    (v : Value) (hv : primValueOk env k true v = true) (bs : Bytes) (he : w.run env v = .ok bs)
    (j : Nat) (hj : j < bs.length) : r.run env (bs.take j) = .error .underflow := by
  have hu : ∀ b, v = .uuid b → b.length = 16 := by
    intro b hb; subst hb
    simp [primValueOk] at hv
    exact hv.1.2
  have hf := PrimW.framed env w v bs hu he
  rw [dispatch_framing hw hr] at hf
  exact PrimR.pu env r bs hf j hj

end Kio
