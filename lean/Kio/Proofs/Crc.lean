import Kio.Model.Crc
/-! CRC-32C is XOR-linear and injective in the register: any single-byte change changes it. -/
namespace Kio.Crc

theorem mask_xor (a b : BitVec 32) : mask (a ^^^ b) = mask a ^^^ mask b := by
  unfold mask
  rw [BitVec.getLsbD_xor]
  cases a.getLsbD 0 <;> cases b.getLsbD 0 <;> simp

theorem step_xor (a b : BitVec 32) : step (a ^^^ b) = step a ^^^ step b := by
  unfold step
  rw [mask_xor, BitVec.ushiftRight_xor_distrib]
  ac_rfl

theorem step_zero : step 0#32 = 0#32 := by decide

theorem step_inj_zero (a : BitVec 32) (h : step a = 0#32) : a = 0#32 := by
  unfold step mask at h
  cases ha : a.getLsbD 0
  · rw [ha] at h
    simp at h
    apply BitVec.eq_of_getLsbD_eq
    intro i hi
    rcases i with _ | i
    · simpa using ha
    · have := congrArg (fun x => x.getLsbD i) h
      simpa [BitVec.getLsbD_ushiftRight, Nat.add_comm] using this
  · rw [ha] at h
    simp at h
    have := congrArg (fun x => x.getLsbD 31) h
    simp [poly] at this

theorem xor_eq_zero_imp {a b : BitVec 32} (h : a ^^^ b = 0#32) : a = b := by
  have : (a ^^^ b) ^^^ b = 0#32 ^^^ b := by rw [h]
  rw [BitVec.xor_assoc, BitVec.xor_self, BitVec.xor_zero, BitVec.zero_xor] at this
  exact this

theorem xor_right_cancel {a b c : BitVec 32} (h : a ^^^ c = b ^^^ c) : a = b := by
  have : (a ^^^ c) ^^^ c = (b ^^^ c) ^^^ c := by rw [h]
  rw [BitVec.xor_assoc, BitVec.xor_assoc, BitVec.xor_self, BitVec.xor_zero, BitVec.xor_zero] at this
  exact this

theorem xor_left_cancel {a b c : BitVec 32} (h : c ^^^ a = c ^^^ b) : a = b := by
  rw [BitVec.xor_comm c a, BitVec.xor_comm c b] at h
  exact xor_right_cancel h

theorem step_inj {a b : BitVec 32} (h : step a = step b) : a = b := by
  apply xor_eq_zero_imp
  apply step_inj_zero
  rw [step_xor, h, BitVec.xor_self]

theorem step8_inj {a b : BitVec 32} (h : step8 a = step8 b) : a = b := by
  unfold step8 at h
  exact step_inj (step_inj (step_inj (step_inj (step_inj (step_inj (step_inj (step_inj h)))))))

theorem feed_inj_state {s s' : BitVec 32} {b : UInt8} (h : feed s b = feed s' b) : s = s' := by
  unfold feed at h
  exact xor_right_cancel (step8_inj h)

theorem ofNat_byte_inj {b b' : UInt8}
    (h : BitVec.ofNat 32 b.toNat = BitVec.ofNat 32 b'.toNat) : b = b' := by
  have h1 := congrArg BitVec.toNat h
  simp only [BitVec.toNat_ofNat] at h1
  have hb : b.toNat < 256 := UInt8.toNat_lt b
  have hb' : b'.toNat < 256 := UInt8.toNat_lt b'
  rw [Nat.mod_eq_of_lt (by omega), Nat.mod_eq_of_lt (by omega)] at h1
  exact UInt8.toNat_inj.mp h1

theorem feed_inj_byte {s : BitVec 32} {b b' : UInt8} (h : feed s b = feed s b') : b = b' := by
  unfold feed at h
  exact ofNat_byte_inj (xor_left_cancel (step8_inj h))

theorem run_inj {s s' : BitVec 32} (bs : Bytes) (h : run s bs = run s' bs) : s = s' := by
  induction bs generalizing s s' with
  | nil => simpa [run] using h
  | cons b bs ih =>
    have h' : run (feed s b) bs = run (feed s' b) bs := by simpa [run] using h
    exact feed_inj_state (ih h')

theorem run_append_cons (s : BitVec 32) (pre post : Bytes) (b : UInt8) :
    run s (pre ++ b :: post) = run (feed (run s pre) b) post := by
  simp [run, List.foldl_append]

/-- changing exactly one byte (anywhere) changes the register -/
theorem run_byte_change (s : BitVec 32) (pre post : Bytes) (b b' : UInt8) (hb : b ≠ b') :
    run s (pre ++ b :: post) ≠ run s (pre ++ b' :: post) := by
  intro h
  rw [run_append_cons, run_append_cons] at h
  exact hb (feed_inj_byte (run_inj post h))

/-- changing exactly one byte changes the checksum -/
theorem crc32c_byte_change (pre post : Bytes) (b b' : UInt8) (hb : b ≠ b') :
    crc32c (pre ++ b :: post) ≠ crc32c (pre ++ b' :: post) := by
  intro h
  unfold crc32c at h
  exact run_byte_change _ pre post b b' hb (xor_right_cancel (BitVec.eq_of_toNat_eq h))

/-- the standard check value: CRC-32C("123456789") = 0xE3069283 -/
theorem check_value : crc32c [0x31, 0x32, 0x33, 0x34, 0x35, 0x36, 0x37, 0x38, 0x39] = 0xE3069283 := by
  decide +kernel

end Kio.Crc
