import Kio.Model.Crc
/-! CRC-32C is XOR-linear and injective in the register: any single-byte change changes it. -/
namespace Kio.Crc

theorem step_xor (a b : BitVec 32) : step (a ^^^ b) = step a ^^^ step b := by
  sorry

theorem step_inj {a b : BitVec 32} (h : step a = step b) : a = b := by
  sorry

theorem feed_inj_state {s s' : BitVec 32} {b : UInt8} (h : feed s b = feed s' b) : s = s' := by
  sorry

theorem feed_inj_byte {s : BitVec 32} {b b' : UInt8} (h : feed s b = feed s b') : b = b' := by
  sorry

theorem run_inj {s s' : BitVec 32} (bs : Bytes) (h : run s bs = run s' bs) : s = s' := by
  sorry

/-- changing exactly one byte (anywhere) changes the register -/
theorem run_byte_change (s : BitVec 32) (pre post : Bytes) (b b' : UInt8) (hb : b ≠ b') :
    run s (pre ++ b :: post) ≠ run s (pre ++ b' :: post) := by
  sorry

/-- changing exactly one byte changes the checksum -/
theorem crc32c_byte_change (pre post : Bytes) (b b' : UInt8) (hb : b ≠ b') :
    crc32c (pre ++ b :: post) ≠ crc32c (pre ++ b' :: post) := by
  sorry

/-- the standard check value: CRC-32C("123456789") = 0xE3069283 -/
theorem check_value : crc32c [0x31, 0x32, 0x33, 0x34, 0x35, 0x36, 0x37, 0x38, 0x39] = 0xE3069283 := by
  sorry

end Kio.Crc
