import Kio.Proofs.Float
/-!
`fromtimestamp(ms / 1000)` for an arbitrary millisecond count in the datetime range: the seconds
part is `ms / 1000` rounded down (the microsecond rounding never carries into the seconds).
-/
namespace Kio

/-- CPython float fact: for a millisecond count in the datetime range, the seconds part of
    `fromtimestamp(ms / 1000)` is `ms / 1000` rounded down -/
def FloatFloor : Prop :=
  ∀ ms : Int, 0 ≤ ms → ms ≤ 253402300799999 → (secMicrosOfMsFloat ms).1 = ms / 1000

/-! ### rounding never crosses an integer -/

/-- `round` never goes below an integer lower bound -/
theorem ff_pyRound_ge_int {z : ℚ} {k : ℤ} (h : (k : ℚ) ≤ z) : k ≤ pyRound z := by
  have h2 := lt_floor_add_one' z
  have hf : k ≤ z.floor := by
    have : (k : ℚ) < ((z.floor + 1 : ℤ) : ℚ) := by push_cast; linarith
    have : k < z.floor + 1 := by exact_mod_cast this
    omega
  unfold pyRound
  simp only
  split_ifs <;> omega

theorem ff_pyRound_le (z : ℚ) : (pyRound z : ℚ) ≤ z + 1 / 2 := by
  have := pyRound_err z
  rw [abs_le] at this
  linarith [this.2]

/-- an accepted candidate exponent never rounds below an integer lower bound (integers are
    multiples of the unit in the last place as long as `x < 2^53`) -/
theorem ff_tryExp_ge_int {x y : ℚ} {e k : ℤ} (hk : (k : ℚ) ≤ x) (hx : x < 2 ^ 53)
    (h : tryExp x e = some y) : (k : ℚ) ≤ y := by
  unfold tryExp at h
  split_ifs at h with hc
  obtain ⟨hlo, _⟩ := hc
  injection h with h
  subst h
  have he : e ≤ 0 := by
    by_contra hne
    have : (2 : ℚ) ^ (53 : ℤ) ≤ pow2 (e + 52) := by
      rw [pow2_eq_zpow]
      exact zpow_le_zpow_right₀ (by norm_num) (by omega)
    have h53 : (2 : ℚ) ^ (53 : ℤ) = 2 ^ 53 := by norm_cast
    rw [h53] at this
    linarith
  obtain ⟨n, hn⟩ := Int.eq_ofNat_of_zero_le (show 0 ≤ -e by omega)
  have he' : e = -(n : ℤ) := by omega
  subst he'
  have hp : pow2 (-(n : ℤ)) = 1 / (2 : ℚ) ^ n := by
    rw [pow2_eq_zpow, zpow_neg, zpow_natCast]; simp
  have hpos : (0 : ℚ) < 2 ^ n := by positivity
  rw [hp]
  have hdiv : x / (1 / (2 : ℚ) ^ n) = x * 2 ^ n := by field_simp
  rw [hdiv]
  have hle : ((k * 2 ^ n : ℤ) : ℚ) ≤ x * 2 ^ n := by
    push_cast
    exact mul_le_mul_of_nonneg_right hk hpos.le
  have hr : ((k * 2 ^ n : ℤ) : ℚ) ≤ (pyRound (x * 2 ^ n) : ℚ) := by
    exact_mod_cast ff_pyRound_ge_int hle
  push_cast at hr
  rw [mul_one_div, le_div_iff₀ hpos]
  exact hr

theorem ff_flPos_ge_int {x : ℚ} {k : ℤ} (hk : (k : ℚ) ≤ x) (hx : x < 2 ^ 53) :
    (k : ℚ) ≤ flPos x := by
  unfold flPos
  simp only
  apply orElse_getD_prop (fun y => (k : ℚ) ≤ y)
  · intro y h; exact ff_tryExp_ge_int hk hx h
  · intro y h; exact ff_tryExp_ge_int hk hx h
  · intro y h; exact ff_tryExp_ge_int hk hx h
  · exact hk

/-- `fl53` is monotone across non-negative integers: `k ≤ x → k ≤ fl53 x` -/
theorem ff_fl53_ge_int {x : ℚ} {k : ℤ} (h0 : 0 ≤ k) (hk : (k : ℚ) ≤ x) (hx : x < 2 ^ 53) :
    (k : ℚ) ≤ fl53 x := by
  have hkq : (0 : ℚ) ≤ k := by exact_mod_cast h0
  unfold fl53
  split_ifs with hz hpos
  · subst hz; exact hk
  · exact ff_flPos_ge_int hk hx
  · exfalso
    rcases lt_or_eq_of_le (le_trans hkq hk) with h | h
    · exact hpos h
    · exact hz h.symm

/-- upper error bound of `fl53` for a non-negative argument -/
theorem ff_fl53_le {x : ℚ} (h0 : 0 ≤ x) : fl53 x ≤ x + x / 2 ^ 53 := by
  have := fl53_err x
  rw [abs_of_nonneg h0, abs_le] at this
  linarith [this.2]

theorem ff_fl53_nonneg {x : ℚ} (h0 : 0 ≤ x) : 0 ≤ fl53 x := by
  have h := fl53_err x
  rw [abs_of_nonneg h0, abs_le] at h
  have h1 : x / 2 ^ 53 ≤ x := div_le_self h0 (by norm_num)
  linarith [h.1]

/-- floor of a rational between two consecutive integers -/
theorem ff_floor_eq {t : ℚ} {S : ℤ} (h1 : (S : ℚ) ≤ t) (h2 : t < S + 1) : t.floor = S := by
  have a1 := floor_le' t
  have a2 := lt_floor_add_one' t
  have b1 : t.floor < S + 1 := by
    have : (t.floor : ℚ) < ((S + 1 : ℤ) : ℚ) := by push_cast; linarith
    exact_mod_cast this
  have b2 : S < t.floor + 1 := by
    have : (S : ℚ) < ((t.floor + 1 : ℤ) : ℚ) := by push_cast; linarith
    exact_mod_cast this
  omega

/-! ### the double nearest to `ms / 1000` lies in `[S, S+1)` -/

/-- with `ms = 1000·S + r`, `0 ≤ r < 1000`, `S < 2^38`: `S ≤ fl53 (ms/1000) < S + 1`, and more
    precisely `fl53 (ms/1000) - S ≤ 999/1000 + 2^-15` -/
theorem ff_sec_bounds (ms : ℤ) (h0 : 0 ≤ ms) (h1 : ms ≤ 253402300799999) :
    ((ms / 1000 : ℤ) : ℚ) ≤ fl53 ((ms : ℚ) / 1000) ∧
      fl53 ((ms : ℚ) / 1000) - ((ms / 1000 : ℤ) : ℚ) ≤ 999 / 1000 + 1 / 2 ^ 15 := by
  have hS0 : 0 ≤ ms / 1000 := by omega
  have hS1 : ms / 1000 ≤ 253402300799 := by omega
  have hdecomp : ms = 1000 * (ms / 1000) + ms % 1000 := by omega
  have hr0 : 0 ≤ ms % 1000 := by omega
  have hr1 : ms % 1000 ≤ 999 := by omega
  generalize ms / 1000 = S at *
  generalize ms % 1000 = r at *
  have hq : (ms : ℚ) = 1000 * (S : ℚ) + (r : ℚ) := by exact_mod_cast hdecomp
  have hS0q : (0 : ℚ) ≤ S := by exact_mod_cast hS0
  have hS1q : (S : ℚ) ≤ 253402300799 := by exact_mod_cast hS1
  have hr0q : (0 : ℚ) ≤ r := by exact_mod_cast hr0
  have hr1q : (r : ℚ) ≤ 999 := by exact_mod_cast hr1
  have hx : (ms : ℚ) / 1000 = (S : ℚ) + (r : ℚ) / 1000 := by rw [hq]; ring
  rw [hx]
  have hxlo : (S : ℚ) ≤ (S : ℚ) + (r : ℚ) / 1000 := by
    have : (0 : ℚ) ≤ (r : ℚ) / 1000 := by positivity
    linarith
  have hxhi : (S : ℚ) + (r : ℚ) / 1000 ≤ S + 999 / 1000 := by linarith
  have hxnn : (0 : ℚ) ≤ (S : ℚ) + (r : ℚ) / 1000 := le_trans hS0q hxlo
  refine ⟨ff_fl53_ge_int hS0 hxlo (by norm_num; linarith), ?_⟩
  have hle := ff_fl53_le hxnn
  have herr : ((S : ℚ) + (r : ℚ) / 1000) / 2 ^ 53 ≤ 2 ^ 38 / 2 ^ 53 :=
    div_le_div_of_nonneg_right (by norm_num; linarith) (by positivity)
  have he2 : (2 : ℚ) ^ 38 / 2 ^ 53 = 1 / 2 ^ 15 := by norm_num
  rw [he2] at herr
  linarith

/-- **the seconds part of `fromtimestamp(ms / 1000)` is `⌊ms / 1000⌋`** on the datetime range -/
theorem float_floor : FloatFloor := by
  intro ms h0 h1
  obtain ⟨hlo, hhi⟩ := ff_sec_bounds ms h0 h1
  have hS0 : 0 ≤ ms / 1000 := by omega
  generalize ms / 1000 = S at *
  have hS0q : (0 : ℚ) ≤ S := by exact_mod_cast hS0
  unfold secMicrosOfMsFloat
  generalize fl53 ((ms : ℚ) / 1000) = t at *
  have ht0 : 0 ≤ t := le_trans hS0q hlo
  have hsmall : (999 : ℚ) / 1000 + 1 / 2 ^ 15 < 1 := by norm_num
  have hfl : t.floor = S := ff_floor_eq hlo (by linarith)
  simp only [ht0, if_true, hfl]
  -- the fractional part, in microseconds
  have hw0 : 0 ≤ (t - (S : ℚ)) * 1000000 := by
    have : 0 ≤ t - (S : ℚ) := by linarith
    positivity
  have hw1 : (t - (S : ℚ)) * 1000000 ≤ 999031 := by
    have : (999 / 1000 + 1 / 2 ^ 15 : ℚ) * 1000000 ≤ 999031 := by norm_num
    nlinarith
  generalize (t - (S : ℚ)) * 1000000 = w at hw0 hw1
  have hv0 := ff_fl53_nonneg hw0
  have hv1 := ff_fl53_le hw0
  have hv2 : w / 2 ^ 53 ≤ 1 := by
    rw [div_le_one (by positivity)]
    have : (999031 : ℚ) ≤ 2 ^ 53 := by norm_num
    linarith
  generalize fl53 w = v at hv0 hv1
  have hu0 : 0 ≤ pyRound v := ff_pyRound_ge_int (by exact_mod_cast hv0)
  have hu1 : pyRound v < 1000000 := by
    have := ff_pyRound_le v
    have : (pyRound v : ℚ) < ((1000000 : ℤ) : ℚ) := by push_cast; linarith
    exact_mod_cast this
  rw [if_neg (by omega), if_neg (by omega)]

/-! ### sanity instances (kernel evaluation of the exact-rational model; full pairs shown) -/

theorem ff_ex_0 : secMicrosOfMsFloat 0 = (0, 0) := by decide +kernel
theorem ff_ex_1 : secMicrosOfMsFloat 1 = (0, 1000) := by decide +kernel
theorem ff_ex_999 : secMicrosOfMsFloat 999 = (0, 999000) := by decide +kernel
theorem ff_ex_1000 : secMicrosOfMsFloat 1000 = (1, 0) := by decide +kernel
theorem ff_ex_1001 : secMicrosOfMsFloat 1001 = (1, 1000) := by decide +kernel
theorem ff_ex_1503229838908 : secMicrosOfMsFloat 1503229838908 = (1503229838, 908000) := by
  decide +kernel
/-- the last millisecond of year 9999: the double is `253402300799.99899…`, no carry -/
theorem ff_ex_max : secMicrosOfMsFloat 253402300799999 = (253402300799, 998993) := by
  decide +kernel
theorem ff_ex_floor_1 : (secMicrosOfMsFloat 1).1 = 1 / 1000 := by decide +kernel
theorem ff_ex_floor_999 : (secMicrosOfMsFloat 999).1 = 999 / 1000 := by decide +kernel
theorem ff_ex_floor_1001 : (secMicrosOfMsFloat 1001).1 = 1001 / 1000 := by decide +kernel
theorem ff_ex_floor_1503229838908 :
    (secMicrosOfMsFloat 1503229838908).1 = 1503229838908 / 1000 := by decide +kernel
theorem ff_ex_floor_max :
    (secMicrosOfMsFloat 253402300799999).1 = 253402300799999 / 1000 := by decide +kernel
/-- outside the hypothesis of `FloatFloor` (negative): C `modf` truncates toward zero, the
    fraction is negative and the carry goes the other way — still the floor here -/
theorem ff_ex_neg : secMicrosOfMsFloat (-1) = (-1, 999000) := by decide +kernel

end Kio
