import Kio.Gen.Size
import Kio.Proofs.GenCoherentInd
/-!
Per-field lemmas for `Kio.Proofs.GenSucceeds`: under `fieldOk` (the per-field condition of
`Supported`) the body of `genFields` for one visible field (`genOne`) does not fail, provided the
nested class — if the field has one — was generated.
-/
namespace Kio.Gen
open Kio

/-! ## sizes -/

theorem gs_nodes_pos : ∀ f : FieldDef, 1 ≤ FieldDef.nodes f
  | .mk _ _ _ _ _ _ _ _ _ none => by rw [FieldDef.nodes]; omega
  | .mk _ _ _ _ _ _ _ _ _ (some fs) => by rw [FieldDef.nodes]; omega

theorem gs_nodes_some {f : FieldDef} {fs : List FieldDef} (h : f.fields = some fs) :
    FieldDef.nodes f = 1 + nodesL fs := by
  cases f with
  | mk n t vs nu tg tag dflt ign ent fields =>
    simp only [FieldDef.fields] at h
    subst h
    rw [FieldDef.nodes]

theorem gs_refsOk_some {ok : List Nat → Bool} {f : FieldDef} {fs : List FieldDef} (h : f.fields = some fs) :
    FieldDef.refsOk ok f = refsOkL ok fs := by
  cases f with
  | mk n t vs nu tg tag dflt ign ent fields =>
    simp only [FieldDef.fields] at h
    subst h
    rw [FieldDef.refsOk]

theorem gs_refsOk_none {ok : List Nat → Bool} {f : FieldDef} {n : List Nat} (h : f.fields = none)
    (ht : f.ty = .struct n ∨ f.ty = .structArr n) : FieldDef.refsOk ok f = ok n := by
  cases f with
  | mk n' t vs nu tg tag dflt ign ent fields =>
    simp only [FieldDef.fields] at h
    simp only [FieldDef.ty] at ht
    subst h
    rcases ht with rfl | rfl <;> rw [FieldDef.refsOk]

mutual
theorem gs_refsOk_true : ∀ f : FieldDef, FieldDef.refsOk (fun _ => true) f = true
  | .mk _ t _ _ _ _ _ _ _ none => by cases t <;> simp [FieldDef.refsOk]
  | .mk _ _ _ _ _ _ _ _ _ (some fs) => by rw [FieldDef.refsOk]; exact gs_refsOkL_true fs
theorem gs_refsOkL_true : ∀ fs : List FieldDef, refsOkL (fun _ => true) fs = true
  | [] => by rw [refsOkL]
  | f :: fs => by rw [refsOkL, gs_refsOk_true f, gs_refsOkL_true fs]; rfl
end

/-! ## defaults of generated fields -/

/-- the generated field carries a default value -/
def gs_HasVal : Field → Prop
  | .mk m _ => ∃ w, m.dflt = .val w

theorem gs_mapM_cons_ok {F : Field → Except GenErr Value} {f : Field} {fs : List Field} {w : Value}
    {l : List Value} (h : (fs.mapM F).map Value.entity = .ok (.entity l)) (hf : F f = .ok w) :
    ((f :: fs).mapM F).map Value.entity = .ok (.entity (w :: l)) := by
  rw [List.mapM_cons, hf]
  cases hm : fs.mapM F with
  | error e => rw [hm] at h; cases h
  | ok l' =>
    rw [hm] at h
    cases h
    rfl

theorem gs_instance_ok (a : Nat) (b c : Bool) : ∀ fs : List Field, (∀ f ∈ fs, gs_HasVal f) →
    ∃ i, instanceOfDefaults (.mk a b c fs) = .ok i := by
  intro fs h
  suffices hm : ∃ l, instanceOfDefaults (.mk a b c fs) = .ok (.entity l) by
    obtain ⟨l, hl⟩ := hm
    exact ⟨_, hl⟩
  induction fs with
  | nil => exact ⟨[], rfl⟩
  | cons f fs ih =>
    obtain ⟨l, hl⟩ := ih (fun g hg => h g (List.mem_cons_of_mem _ hg))
    have hf := h f List.mem_cons_self
    cases f with
    | mk m sh =>
      obtain ⟨w, hw⟩ := hf
      exact ⟨w :: l, gs_mapM_cons_ok hl (by simp only [hw])⟩

/-- the variants `onlyDefaults` accepts -/
def gs_dfltVar : Variant → Bool
  | .prim .. | .ent .. => true
  | _ => false

theorem gs_onlyDefaults_cons {d : MsgDef} {f : FieldDef} {rest : List FieldDef}
    (h : onlyDefaults d (f :: rest) = true) :
    (∀ var, variant d f = .ok var → gs_dfltVar var = true ∧ f.dflt.isSome = true) ∧
    onlyDefaults d rest = true := by
  unfold onlyDefaults at h ⊢
  rw [List.all_cons, Bool.and_eq_true] at h
  refine ⟨?_, h.2⟩
  intro var hv
  have h1 := h.1
  rw [hv] at h1
  cases var <;> first | exact ⟨rfl, h1⟩ | cases h1

/-! ## what `fieldOk` gives -/

theorem gs_fieldOk_variant {d : MsgDef} {v : Nat} {f : FieldDef} (h : fieldOk d v f = true) :
    ∃ var, variant d f = .ok var := by
  unfold fieldOk at h
  simp only [Bool.and_eq_true] at h
  obtain ⟨⟨⟨_, h2⟩, _⟩, _⟩ := h
  cases hv : variant d f with
  | ok var => exact ⟨var, rfl⟩
  | error e => rw [hv] at h2; cases h2

theorem gs_custom_ok {e : Option (List Nat)} {b : Bool} (h : (e.isNone || b) = true) :
    (e.isSome && !b) = false := by
  cases e <;> cases b <;> first | rfl | cases h

/-- an accepted explicit default, the zero of a tagged ignorable field, or none: no error -/
theorem gs_primDflt_ok {d : MsgDef} {v : Nat} {f : FieldDef} {p : PrimT} {k : KType} {n : List Nat}
    (hfo : fieldOk d v f = true) (hty : f.ty = .prim p) (hr : resolvePrim f.name p = .ok (k, n)) :
    (f.entityType.isSome && !customIsSubclass k) = false ∧
    ∃ x, coh_primDflt f k v = .ok x ∧ (f.dflt.isSome = true → x.isSome = true) := by
  unfold fieldOk at hfo
  simp only [hty, hr, Bool.and_eq_true] at hfo
  obtain ⟨_, ⟨⟨hA, hB⟩, _⟩, _⟩ := hfo
  refine ⟨gs_custom_ok hA, ?_⟩
  unfold coh_primDflt
  cases hd : f.dflt with
  | none =>
    simp only []
    split
    · obtain ⟨w, hw, _⟩ := coh_implicit_agrees k
      rw [hw]
      exact ⟨some w, rfl, fun h => by cases h⟩
    · exact ⟨none, rfl, fun h => by cases h⟩
  | some s =>
    rw [hd] at hB
    simp only [Bool.and_eq_true] at hB
    simp only []
    cases hfd : formatDefault k s (primNullable f k v) with
    | error e => rw [hfd] at hB; exact absurd hB.1 (by simp)
    | ok x => exact ⟨some x, rfl, fun _ => rfl⟩

/-- the default of an inline structure: `null` only on a nullable field; the instance of defaults
    exists when every member has a default -/
theorem gs_entDflt_ok {ctx : Ctx} {f : FieldDef} {n : List Nat} {fs : List FieldDef} {s : Schema}
    (hfo : fieldOk ctx.d ctx.v f = true) (hty : f.ty = .struct n) (hfs : f.fields = some fs)
    (hi : onlyDefaults ctx.d fs = true → ∃ i, instanceOfDefaults s = .ok i) :
    ∃ x, coh_entDflt ctx f fs s = .ok x ∧ (f.dflt.isSome = true → x.isSome = true) := by
  unfold fieldOk at hfo
  simp only [hty, hfs, Bool.and_eq_true] at hfo
  obtain ⟨_, _, hD⟩ := hfo
  unfold coh_entDflt
  cases hd : f.dflt with
  | some s' =>
    simp only [hd, Bool.and_eq_true] at hD
    simp only [hD.1, if_true]
    exact ⟨some .none, rfl, fun _ => rfl⟩
  | none =>
    simp only []
    by_cases hc : ((tagAt f ctx.v).isSome && onlyDefaults ctx.d fs) = true
    · rw [Bool.and_eq_true] at hc
      obtain ⟨i, hi'⟩ := hi hc.2
      simp only [hc.1, hc.2, Bool.and_self, if_true, hi']
      exact ⟨some i, rfl, fun h => by cases h⟩
    · simp only [hc, Bool.false_eq_true, if_false]
      split
      · exact ⟨some .none, rfl, fun h => by cases h⟩
      · exact ⟨none, rfl, fun h => by cases h⟩

/-! ## `genOne`, variant by variant -/

theorem gs_genOne_prim_eq (ctx : Ctx) (fuel : Nat) (acc : List GClass) (f : FieldDef) (k : KType)
    (n : List Nat) : genOne ctx fuel acc f (.prim k n) =
      if (f.entityType.isSome && !customIsSubclass k) = true then .error .nameError else
      match coh_primDflt f k ctx.v with
      | .error e => .error e
      | .ok dflt =>
        .ok (acc, (toSnakeCase ctx.builtins n,
          Field.mk (mkMeta (toSnakeCase ctx.builtins n == strOf "client_id") (some k) (tagAt f ctx.v) (dfltOf dflt))
            (.prim ⟨baseOfKType k, f.entityType.isSome⟩ (primNullable f k ctx.v || k == .uuid)))) := rfl

theorem gs_genOne_ent_eq (ctx : Ctx) (fuel : Nat) (acc : List GClass) (f : FieldDef) (cls : List Nat)
    (fs : List FieldDef) : genOne ctx fuel acc f (.ent cls fs) =
      match genClass ctx fuel acc cls fs false with
      | .error e => .error e
      | .ok (acc1, s) =>
        match coh_entDflt ctx f fs s with
        | .error e => .error e
        | .ok dflt =>
          .ok (acc1, (toSnakeCase ctx.builtins f.name,
            Field.mk (mkMeta (toSnakeCase ctx.builtins f.name == strOf "client_id") none (tagAt f ctx.v) (dfltOf dflt))
              (.ent s (nullableAt f ctx.v)))) := rfl

/-- **one field does not fail**: for a field satisfying `fieldOk` whose nested class (if any) was
    generated, the generator's step succeeds -/
theorem gs_genOne_succeeds {ctx : Ctx} {fuel : Nat} {acc : List GClass} {f : FieldDef} {var : Variant}
    (hfo : fieldOk ctx.d ctx.v f = true) (hvar : variant ctx.d f = .ok var)
    (hsub : ∀ n fs, var.sub = some (n, fs) → ∃ acc1 s, genClass ctx fuel acc n fs false = .ok (acc1, s) ∧
      (onlyDefaults ctx.d fs = true → ∃ i, instanceOfDefaults s = .ok i)) :
    ∃ acc1 py fld, genOne ctx fuel acc f var = .ok (acc1, (py, fld)) ∧
      (gs_dfltVar var = true → f.dflt.isSome = true → gs_HasVal fld) := by
  obtain ⟨_, hi⟩ := variant_info hvar
  cases var with
  | prim k n =>
    rcases hi with ⟨p, hty, hr⟩ | ⟨p, hty, hc, _, _⟩
    · obtain ⟨hc, x, hx, hxs⟩ := gs_primDflt_ok hfo hty hr
      rw [gs_genOne_prim_eq]
      simp only [hc, Bool.false_eq_true, if_false, hx]
      refine ⟨_, _, _, rfl, ?_⟩
      intro _ hd
      cases x with
      | none => exact absurd (hxs hd) (by simp)
      | some w => exact ⟨w, rfl⟩
    · -- a primitive array with an error-code name is not supported
      unfold fieldOk at hfo
      simp only [hty, hc, Bool.and_eq_true, Bool.not_true] at hfo
      exact absurd hfo.2.1 (by simp)
  | primArr p =>
    unfold fieldOk at hfo
    simp only [hi.1, Bool.and_eq_true] at hfo
    have hc := gs_custom_ok hfo.2.2
    unfold genOne
    simp only [hc, Bool.false_eq_true, if_false]
    exact ⟨_, _, _, rfl, fun h => by cases h⟩
  | entArr cls fs =>
    obtain ⟨acc1, s, hc, _⟩ := hsub cls fs rfl
    unfold genOne
    simp only [hc]
    exact ⟨_, _, _, rfl, fun h => by cases h⟩
  | csArr cs =>
    obtain ⟨acc1, s, hc, _⟩ := hsub cs.name cs.fields rfl
    unfold genOne
    simp only [hc]
    exact ⟨_, _, _, rfl, fun h => by cases h⟩
  | ent cls fs =>
    obtain ⟨acc1, s, hc, hinst⟩ := hsub cls fs rfl
    obtain ⟨x, hx, hxs⟩ := gs_entDflt_ok hfo hi.1 hi.2 hinst
    rw [gs_genOne_ent_eq]
    simp only [hc, hx]
    refine ⟨_, _, _, rfl, ?_⟩
    intro _ hd
    cases x with
    | none => exact absurd (hxs hd) (by simp)
    | some w => exact ⟨w, rfl⟩
  | cs cs =>
    obtain ⟨acc1, s, hc, _⟩ := hsub cs.name cs.fields rfl
    unfold genOne
    simp only [hc]
    exact ⟨_, _, _, rfl, fun h => by cases h⟩

/-! ## `genFields` / `genClass`, forwards -/

theorem gs_genFields_skip {ctx : Ctx} {fuel : Nat} {acc : List GClass} {f : FieldDef} {rest : List FieldDef}
    (hm : f.versions.matches ctx.v = false) :
    genFields ctx (fuel+1) acc (f :: rest) = genFields ctx fuel acc rest := by
  rw [genFields_cons]
  simp only [hm, Bool.not_false, if_true]

theorem gs_genFields_vis {ctx : Ctx} {fuel : Nat} {acc acc1 acc2 : List GClass} {f : FieldDef}
    {rest : List FieldDef} {var : Variant} {entry : List Nat × Field} {out : List (List Nat × Field)}
    (hm : f.versions.matches ctx.v = true) (hvar : variant ctx.d f = .ok var)
    (h1 : genOne ctx fuel acc f var = .ok (acc1, entry))
    (h2 : genFields ctx fuel acc1 rest = .ok (acc2, out)) :
    genFields ctx (fuel+1) acc (f :: rest) = .ok (acc2, entry :: out) := by
  rw [genFields_cons]
  simp only [hm, Bool.not_true, Bool.false_eq_true, if_false, hvar, h1, h2]

theorem gs_genClass_found {ctx : Ctx} {fuel : Nat} {acc : List GClass} {name : List Nat}
    {fields : List FieldDef} {top : Bool} {g : GClass} (hg : acc.find? (·.name == name) = some g) :
    genClass ctx (fuel+1) acc name fields top = .ok (acc, g.schema) := by
  rw [genClass]
  simp only [hg]

theorem gs_genClass_new {ctx : Ctx} {fuel : Nat} {acc acc1 : List GClass} {name : List Nat}
    {fields : List FieldDef} {top : Bool} {out : List (List Nat × Field)}
    (hg : acc.find? (·.name == name) = none) (h1 : genFields ctx fuel acc fields = .ok (acc1, out)) :
    genClass ctx (fuel+1) acc name fields top =
      .ok (acc1 ++ [mkClass ctx name top acc1 out], (mkClass ctx name top acc1 out).schema) := by
  rw [genClass]
  simp only [hg, h1]
  rfl

end Kio.Gen
