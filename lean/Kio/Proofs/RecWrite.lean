import Kio.Proofs.Prim
import Kio.Proofs.SpecEq
import Kio.Model.Records
import Kio.Spec.Batch
import Kio.Proofs.BatchSpec
/-! The record-batch writer model against the independent statement of the v2 format (C17). -/
namespace Kio

def RecHeader.toWire (h : RecHeader) : Spec.WireHeader := { key := h.key, value := h.value }

/-- a record as the wire sees it: millisecond timestamp -/
def Record.toWire (r : Record) : Spec.WireRecord :=
  { attributes := r.attributes, timestampMs := r.timestampUs / 1000, offset := r.offset,
    key := r.key, value := r.value, headers := r.headers.map RecHeader.toWire }

def NewRecordBatch.params (nb : NewRecordBatch) : Spec.NewBatchParams :=
  { producerId := nb.producerId, producerEpoch := nb.producerEpoch,
    partitionLeaderEpoch := nb.partitionLeaderEpoch, baseSequence := nb.baseSequence,
    attributes := nb.attributes, records := nb.records.map Record.toWire }

/-- millisecond-precision timestamps within the representable range -/
def Record.msTimestamp (r : Record) : Prop :=
  r.timestampUs % 1000 = 0 ∧ 0 ≤ r.timestampUs ∧ r.timestampUs ≤ 253402300799999000

/-! ### the writer's pieces against the spec's -/

theorem header_eq (h : RecHeader) : (writeRecHeader h).toOption = Spec.headerBytes h.toWire := by
  simp only [writeRecHeader, Spec.headerBytes, toOption_bindB, nbytes_eq, toOption_pureB,
    RecHeader.toWire]
  rfl

theorem record_eq (bt bo : Int) (r : Record)
    (hms : recMs RecCfg.repaired r.timestampUs = r.timestampUs / 1000) :
    (writeRecord RecCfg.repaired bt bo r).toOption = Spec.recordBytes bt bo r.toWire := by
  simp only [writeRecord, Spec.recordBytes, toOption_bindB, toOption_pureB, nbytes_eq, svar_eq,
    encIntN_eq_spec, hms, Record.toWire, List.length_map,
    concatMapE_eq writeRecHeader Spec.headerBytes RecHeader.toWire r.headers (fun a _ => header_eq a)]
  rfl

theorem post_eq (attrs lod bt mt pid pe bseq bo ple : Int) (records : List Record)
    (hms : ∀ r ∈ records, recMs RecCfg.repaired r.timestampUs = r.timestampUs / 1000) :
    (writePostChecksum RecCfg.repaired attrs lod bt mt pid pe bseq bo records).toOption =
      Spec.coveredBytes
        { baseOffset := bo, partitionLeaderEpoch := ple, attributes := attrs,
          lastOffsetDelta := lod, baseTimestamp := bt, maxTimestamp := mt, producerId := pid,
          producerEpoch := pe, baseSequence := bseq, records := records.map Record.toWire } := by
  simp only [writePostChecksum, Spec.coveredBytes, toOption_bindB, toOption_pureB, encIntN_eq_spec,
    List.length_map,
    concatMapE_eq (writeRecord RecCfg.repaired bt bo) (Spec.recordBytes bt bo) Record.toWire records
      (fun a ha => record_eq bt bo a (hms a ha))]
  rfl

/-- the batch the writer derives from `first :: rest` -/
def derived (pid pe ple bseq attrs : Int) (first : Record) (rest : List Record) : Spec.WireBatch :=
  { baseOffset := first.offset, partitionLeaderEpoch := ple, attributes := attrs,
    lastOffsetDelta := ((first :: rest).getLast?.getD first).offset - first.offset,
    baseTimestamp := first.timestampUs / 1000,
    maxTimestamp := listMax ((first :: rest).map (·.timestampUs)) / 1000,
    producerId := pid, producerEpoch := pe, baseSequence := bseq,
    records := (first :: rest).map Record.toWire }

theorem derive_cons (pid pe ple bseq attrs : Int) (first : Record) (rest : List Record) :
    Spec.deriveBatch (NewRecordBatch.params
      { producerId := pid, producerEpoch := pe, partitionLeaderEpoch := ple, baseSequence := bseq,
        records := first :: rest, attributes := attrs }) =
      some (derived pid pe ple bseq attrs first rest) := by
  simp only [NewRecordBatch.params, List.map_cons, Spec.deriveBatch, derived]
  have e1 := getLast_map_getD Record.toWire (first :: rest) first
  rw [List.map_cons] at e1
  rw [e1]
  have e2 : List.foldl max first.toWire.timestampMs (List.map (fun x => x.timestampMs) (List.map Record.toWire rest))
      = listMax (first.timestampUs :: List.map (fun x => x.timestampUs) rest) / 1000 := by
    simp only [listMax, foldl_max_div, List.map_map]
    rfl
  rw [e2]
  rfl

theorem listMax_ms {first : Record} {rest : List Record}
    (hts : ∀ r ∈ first :: rest, r.msTimestamp) :
    let m := listMax ((first :: rest).map (·.timestampUs))
    m % 1000 = 0 ∧ 0 ≤ m ∧ m ≤ 253402300799999000 := by
  simp only [List.map_cons, listMax]
  apply foldl_max_pred (fun m => m % 1000 = 0 ∧ 0 ≤ m ∧ m ≤ 253402300799999000)
  · exact hts first (by simp)
  · intro b hb
    obtain ⟨r, hr, rfl⟩ := List.mem_map.mp hb
    exact hts r (by simp [hr])

theorem hms_of (hfl : FloatExact) {l : List Record} (hts : ∀ r ∈ l, r.msTimestamp) :
    ∀ r ∈ l, recMs RecCfg.repaired r.timestampUs = r.timestampUs / 1000 := fun r hr =>
  recMs_ms hfl (hts r hr).1 (hts r hr).2.1 (hts r hr).2.2

/-- **C17 layout**: whatever `write_new_batch` emits is the v2 layout of the correctly derived
    batch parameters -/
theorem writeNewBatch_eq_spec (hfl : FloatExact) (nb : NewRecordBatch)
    (hts : ∀ r ∈ nb.records, r.msTimestamp) (bs : Bytes)
    (h : writeNewBatch RecCfg.repaired nb = .ok bs) :
    ∃ wb, Spec.deriveBatch nb.params = some wb ∧ Spec.batchBytes wb = some bs := by
  obtain ⟨pid, pe, ple, bseq, records, attrs⟩ := nb
  cases records with
  | nil => simp [writeNewBatch] at h
  | cons first rest =>
    refine ⟨_, derive_cons pid pe ple bseq attrs first rest, ?_⟩
    simp only at hts
    simp only [writeNewBatch] at h
    obtain ⟨lod, h1, h⟩ := bind_ok h
    obtain ⟨bt, h2, h⟩ := bind_ok h
    obtain ⟨mt, h3, h⟩ := bind_ok h
    obtain ⟨post, h4, h⟩ := bind_ok h
    obtain ⟨bl, h5, h⟩ := bind_ok h
    obtain ⟨pre, h6, h⟩ := bind_ok h
    have h : pre ++ post = bs := Except.ok.inj h
    subst h
    obtain ⟨rfl, -⟩ := phantomInt_ok h1
    obtain ⟨rfl, -⟩ := phantomInt_ok h2
    obtain ⟨rfl, -⟩ := phantomInt_ok h3
    obtain ⟨rfl, -⟩ := phantomInt_ok h5
    have hm := listMax_ms hts
    simp only at hm
    rw [recMs_ms hfl hm.1 hm.2.1 hm.2.2, hms_of hfl hts first (by simp)] at h4
    have hcov : Spec.coveredBytes (derived pid pe ple bseq attrs first rest) = some post := by
      rw [← toOption_okB, post_eq _ _ _ _ _ _ _ _ ple _ (hms_of hfl hts)] at h4
      exact h4
    obtain ⟨o, len, p, c, ho, hlen, hp, hc, rfl⟩ := pre_ok_iff.mp h6
    exact batchBytes_of hcov ho hlen hp hc

/-- converse: when the derived batch has a v2 encoding, the writer produces it -/
theorem spec_eq_writeNewBatch (hfl : FloatExact) (nb : NewRecordBatch)
    (hts : ∀ r ∈ nb.records, r.msTimestamp) (wb : Spec.WireBatch) (bs : Bytes)
    (hd : Spec.deriveBatch nb.params = some wb) (h : Spec.batchBytes wb = some bs) :
    writeNewBatch RecCfg.repaired nb = .ok bs := by
  obtain ⟨pid, pe, ple, bseq, records, attrs⟩ := nb
  cases records with
  | nil => simp [NewRecordBatch.params, Spec.deriveBatch] at hd
  | cons first rest =>
    rw [derive_cons] at hd
    have hd : derived pid pe ple bseq attrs first rest = wb := Option.some.inj hd
    subst hd
    simp only at hts
    obtain ⟨cov, o, len, p, c, hcov, ho, hlen, hp, hc, rfl⟩ := batchBytes_ok h
    obtain ⟨_, l, t0, t1, _, _, _, _, _, -, hl, ht0, ht1, -⟩ := coveredBytes_ok hcov
    have hm := listMax_ms hts
    simp only at hm
    have r1 := phantomInt_of_range (bits := 32) (intBE_range hl)
    have r2 := phantomInt_of_range (bits := 64) (intBE_range ht0)
    have r3 := phantomInt_of_range (bits := 64) (intBE_range ht1)
    have r5 := phantomInt_of_range (bits := 32) (intBE_range hlen)
    have h4 : writePostChecksum RecCfg.repaired attrs
        (((first :: rest).getLast?.getD first).offset - first.offset) (first.timestampUs / 1000)
        (listMax ((first :: rest).map (·.timestampUs)) / 1000) pid pe bseq first.offset
        (first :: rest) = .ok cov := by
      rw [← toOption_okB, post_eq _ _ _ _ _ _ _ _ ple _ (hms_of hfl hts)]
      exact hcov
    have h6 := pre_ok_iff.mpr ⟨o, len, p, c, ho, hlen, hp, hc, rfl⟩
    simp only [derived] at r1 r2 r3 h6
    simp only [writeNewBatch]
    rw [recMs_ms hfl hm.1 hm.2.1 hm.2.2, hms_of hfl hts first (by simp)]
    exact ebind_intro r1 (ebind_intro r2 (ebind_intro r3 (ebind_intro h4
      (ebind_intro r5 (ebind_intro h6 rfl)))))

/-- the independent decoder inverts the independent encoder -/
theorem spec_decBatch_batchBytes (b : Spec.WireBatch) (bs : Bytes)
    (h : Spec.batchBytes b = some bs) : Spec.decBatch bs = some b :=
  decBatch_batchBytes b bs h

/-- the CRC field (bytes 17..20) is the CRC-32C of exactly the bytes from offset 21 to the end,
    and the batch-length field (bytes 8..11) counts everything after it -/
theorem spec_crc_covers (b : Spec.WireBatch) (bs : Bytes) (h : Spec.batchBytes b = some bs) :
    21 ≤ bs.length ∧
    Spec.intBE 4 false (Crc.crc32c (bs.drop 21)) = some ((bs.drop 17).take 4) ∧
    Spec.intBE 4 true ((bs.length : Int) - 12) = some ((bs.drop 8).take 4) ∧
    bs[16]? = some 2 :=
  crc_covers b bs h

end Kio
