import Kio.Proofs.Prim
import Kio.Proofs.SpecEq
import Kio.Model.Records
import Kio.Spec.Batch
/-! The record-batch writer model against the independent statement of the v2 format (C17). -/
namespace Kio

def RecHeader.toWire (h : RecHeader) : Spec.WireHeader := { key := h.key, value := h.value }

/-- a record as the wire sees it: millisecond timestamp -/
def Record.toWire (r : Record) : Spec.WireRecord :=
  { attributes := r.attributes, timestampMs := r.timestampUs / 1000, offset := r.offset,
    key := r.key, value := r.value, headers := r.headers.map RecHeader.toWire }

def NewRecordBatch.params (nb : NewRecordBatch) : Spec.NewBatchParams :=
  { producerId := nb.producerId, producerEpoch := nb.producerEpoch,
    partitionLeaderEpoch := nb.partitionLeaderEpoch, baseSequence := nb.baseSequence,
    attributes := nb.attributes, records := nb.records.map Record.toWire }

/-- millisecond-precision timestamps within the representable range -/
def Record.msTimestamp (r : Record) : Prop :=
  r.timestampUs % 1000 = 0 ∧ 0 ≤ r.timestampUs ∧ r.timestampUs ≤ 253402300799999000

/-- **C17 layout**: whatever `write_new_batch` emits is the v2 layout of the correctly derived
    batch parameters -/
theorem writeNewBatch_eq_spec (hfl : FloatExact) (nb : NewRecordBatch)
    (hts : ∀ r ∈ nb.records, r.msTimestamp) (bs : Bytes)
    (h : writeNewBatch RecCfg.repaired nb = .ok bs) :
    ∃ wb, Spec.deriveBatch nb.params = some wb ∧ Spec.batchBytes wb = some bs := by
  sorry

/-- converse: when the derived batch has a v2 encoding, the writer produces it -/
theorem spec_eq_writeNewBatch (hfl : FloatExact) (nb : NewRecordBatch)
    (hts : ∀ r ∈ nb.records, r.msTimestamp) (wb : Spec.WireBatch) (bs : Bytes)
    (hd : Spec.deriveBatch nb.params = some wb) (h : Spec.batchBytes wb = some bs) :
    writeNewBatch RecCfg.repaired nb = .ok bs := by
  sorry

/-- the independent decoder inverts the independent encoder -/
theorem spec_decBatch_batchBytes (b : Spec.WireBatch) (bs : Bytes)
    (h : Spec.batchBytes b = some bs) : Spec.decBatch bs = some b := by
  sorry

/-- the CRC field (bytes 17..20) is the CRC-32C of exactly the bytes from offset 21 to the end,
    and the batch-length field (bytes 8..11) counts everything after it -/
theorem spec_crc_covers (b : Spec.WireBatch) (bs : Bytes) (h : Spec.batchBytes b = some bs) :
    21 ≤ bs.length ∧
    Spec.intBE 4 false (Crc.crc32c (bs.drop 21)) = some ((bs.drop 17).take 4) ∧
    Spec.intBE 4 true ((bs.length : Int) - 12) = some ((bs.drop 8).take 4) ∧
    bs[16]? = some 2 := by
  sorry

end Kio
