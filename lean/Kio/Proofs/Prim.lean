import Kio.Model.Prim
/-! Helper lemmas about the primitive codecs (used by the property files). -/
namespace Kio

theorem toUInt8_toNat_lt {n : Nat} (h : n < 256) : (n.toUInt8).toNat = n := by
  show n % 256 = n
  omega

/-! ### readExact -/

theorem readExact_append (p rest : Bytes) :
    readExact (p.length : Int) (p ++ rest) = .ok (p, rest) := by
  simp [readExact]

theorem readExact_ok {n : Int} {bs a r : Bytes} (h : readExact n bs = .ok (a, r)) :
    bs = a ++ r ∧ (a.length : Int) = n := by
  unfold readExact at h
  split at h
  · rename_i hc
    injection h with h
    injection h with h1 h2
    subst h1 h2
    refine ⟨(List.take_append_drop _ _).symm, ?_⟩
    simp [List.length_take]
    omega
  · contradiction

theorem readExact_err {n : Int} {bs : Bytes} {e : Err} (h : readExact n bs = .error e) :
    e = .underflow := by
  unfold readExact at h
  split at h <;> simp_all

theorem readExact_short {n : Nat} {bs : Bytes} (h : bs.length < n) :
    readExact (n : Int) bs = .error .underflow := by
  unfold readExact
  rw [if_neg]
  simp; omega

/-! ### big-endian numbers -/

theorem natBE_length (w n : Nat) : (natBE w n).length = w := by
  induction w generalizing n with
  | zero => rfl
  | succ w ih => simp [natBE, ih]

theorem beNat_lt (bs : Bytes) : beNat bs < 256 ^ bs.length := by
  induction bs with
  | nil => simp [beNat]
  | cons b bs ih =>
    simp only [beNat, List.length_cons, Nat.pow_succ]
    have hb : b.toNat < 256 := b.toNat_lt
    have : b.toNat * 256 ^ bs.length ≤ 255 * 256 ^ bs.length := Nat.mul_le_mul_right _ (by omega)
    omega

theorem beNat_natBE (w n : Nat) (h : n < 256 ^ w) : beNat (natBE w n) = n := by
  induction w generalizing n with
  | zero => simp at h; simp [natBE, beNat, h]
  | succ w ih =>
    have hp : 0 < 256 ^ w := Nat.pow_pos (by omega)
    have hq : n / 256 ^ w < 256 := by
      rw [Nat.div_lt_iff_lt_mul hp]; rw [Nat.pow_succ] at h; omega
    simp only [natBE, beNat, natBE_length]
    rw [Nat.mod_eq_of_lt hq, toUInt8_toNat_lt hq, ih _ (Nat.mod_lt _ hp)]
    have := Nat.div_add_mod n (256 ^ w)
    rw [Nat.mul_comm] at this
    exact this

theorem natBE_beNat (bs : Bytes) : natBE bs.length (beNat bs) = bs := by
  induction bs with
  | nil => rfl
  | cons b bs ih =>
    have hp : 0 < 256 ^ bs.length := Nat.pow_pos (by omega)
    have hlt := beNat_lt bs
    simp only [List.length_cons, natBE, beNat]
    have h1 : (b.toNat * 256 ^ bs.length + beNat bs) / 256 ^ bs.length = b.toNat := by
      rw [Nat.mul_comm, Nat.mul_add_div hp, Nat.div_eq_of_lt hlt]; simp
    have h2 : (b.toNat * 256 ^ bs.length + beNat bs) % 256 ^ bs.length = beNat bs := by
      rw [Nat.mul_comm, Nat.mul_add_mod, Nat.mod_eq_of_lt hlt]
    rw [h1, h2, ih]
    have hb : b.toNat < 256 := b.toNat_lt
    rw [Nat.mod_eq_of_lt hb]
    simp

/-! ### fixed-width integers -/

theorem pow8 (w : Nat) : 256 ^ w = 2 ^ (8 * w) := by
  rw [Nat.pow_mul]

theorem emod_nonneg_range {v M : Int} (h0 : 0 ≤ v) (h1 : v < M) : v % M = v :=
  Int.emod_eq_of_lt h0 h1

theorem emod_neg_range {v M : Int} (h0 : -M ≤ v) (h1 : v < 0) : v % M = v + M := by
  have : (v + M) % M = v % M := Int.add_emod_right ..
  rw [← this]
  exact Int.emod_eq_of_lt (by omega) (by omega)

theorem encIntN_ok {w : Nat} {signed : Bool} {v : Int} {bs : Bytes}
    (h : encIntN w signed v = .ok bs) :
    intLo w signed ≤ v ∧ v ≤ intHi w signed ∧ bs = natBE w (v % 2 ^ (8 * w)).toNat := by
  unfold encIntN at h
  split at h
  · rename_i hc; injection h with h; exact ⟨hc.1, hc.2, h.symm⟩
  · contradiction

theorem int_roundtrip (w : Nat) (hw : 0 < w) (signed : Bool) (v : Int) (bs rest : Bytes)
    (h : encIntN w signed v = .ok bs) : decIntN w signed (bs ++ rest) = .ok (v, rest) := by
  obtain ⟨hlo, hhi, rfl⟩ := encIntN_ok h
  have hlen := natBE_length w (v % 2 ^ (8 * w)).toNat
  unfold decIntN
  have hre := readExact_append (natBE w (v % 2 ^ (8 * w)).toNat) rest
  rw [hlen] at hre
  simp only [bind, Except.bind, hre, pure, Except.pure]
  -- the modulus as a natural number
  obtain ⟨P, hP⟩ : ∃ P : Nat, 2 ^ (8 * w - 1) = P := ⟨_, rfl⟩
  have hM : (2 : Nat) ^ (8 * w) = 2 * P := by
    rw [← hP, ← Nat.pow_succ']; congr 1; omega
  have hPi : (2 : Int) ^ (8 * w - 1) = (P : Int) := by rw [← hP]; norm_cast
  have hMi : (2 : Int) ^ (8 * w) = 2 * (P : Int) := by
    have : ((2 ^ (8 * w) : Nat) : Int) = ((2 * P : Nat) : Int) := by rw [hM]
    push_cast at this; exact this
  have hPpos : 0 < P := by rw [← hP]; exact Nat.pow_pos (by omega)
  unfold intLo at hlo
  unfold intHi at hhi
  rw [hPi] at hlo
  simp only [hPi, hMi] at hhi
  rw [hMi, hP]
  by_cases hv : 0 ≤ v
  · have hvM : v < 2 * (P : Int) := by cases signed <;> simp at hhi <;> omega
    rw [emod_nonneg_range hv hvM]
    have hmod : v.toNat < 256 ^ w := by rw [pow8, hM]; omega
    rw [beNat_natBE _ _ hmod]
    cases signed
    · simp; omega
    · simp at hhi
      have : ¬ (P ≤ v.toNat) := by omega
      simp [this]; omega
  · have hs : signed = true := by
      cases signed
      · simp at hlo; omega
      · rfl
    subst hs
    simp at hlo
    rw [emod_neg_range (by omega) (by omega)]
    have hmod : (v + 2 * (P:Int)).toNat < 256 ^ w := by rw [pow8, hM]; omega
    rw [beNat_natBE _ _ hmod]
    have : P ≤ (v + 2 * (P:Int)).toNat := by omega
    simp [this]; omega

theorem int_out_of_domain (w : Nat) (signed : Bool) (v : Int)
    (h : ¬ (intLo w signed ≤ v ∧ v ≤ intHi w signed)) : encIntN w signed v = .error .structError := by
  unfold encIntN; rw [if_neg h]

theorem encIntN_length {w : Nat} {signed : Bool} {v : Int} {bs : Bytes}
    (h : encIntN w signed v = .ok bs) : bs.length = w := by
  obtain ⟨_, _, rfl⟩ := encIntN_ok h
  exact natBE_length _ _

/-- any `w` bytes decode, consuming exactly `w` -/
theorem decIntN_ok_iff {w : Nat} {signed : Bool} {bs : Bytes} {v : Int} {r : Bytes}
    (h : decIntN w signed bs = .ok (v, r)) : ∃ a, bs = a ++ r ∧ a.length = w := by
  unfold decIntN at h
  obtain ⟨⟨a, r'⟩, h1, h2⟩ := bind_ok h
  obtain ⟨hbs, hl⟩ := readExact_ok h1
  simp only [pure, Except.pure] at h2
  injection h2 with h2; injection h2 with _ h3; subst h3
  exact ⟨a, hbs, by exact_mod_cast hl⟩

theorem decIntN_err {w : Nat} {signed : Bool} {bs : Bytes} {e : Err}
    (h : decIntN w signed bs = .error e) : e = .underflow := by
  unfold decIntN at h
  rcases bind_err h with h | ⟨a, _, h⟩
  · exact readExact_err h
  · simp [pure, Except.pure] at h

theorem decIntN_short {w : Nat} {signed : Bool} {bs : Bytes} (h : bs.length < w) :
    decIntN w signed bs = .error .underflow := by
  unfold decIntN
  rw [readExact_short h]; rfl

/-! ### varints -/

theorem varint_roundtrip (k n : Nat) (h : n < 128 ^ (k+1)) (rest : Bytes) :
    decVarint (k+1) (encVarint n ++ rest) = .ok (n, rest) := by
  induction k generalizing n with
  | zero =>
    have hn : n < 128 := by simpa using h
    rw [encVarint, dif_pos hn]
    simp [decVarint, toUInt8_toNat_lt (show n < 256 by omega), hn]
  | succ k ih =>
    rw [encVarint]
    split
    · rename_i hn
      simp [decVarint, toUInt8_toNat_lt (show n < 256 by omega), hn]
    · rename_i hn
      have h1 : n % 128 + 128 < 256 := by omega
      have h2 : n / 128 < 128 ^ (k+1) := by
        rw [Nat.pow_succ] at h; omega
      simp only [List.cons_append, decVarint, toUInt8_toNat_lt h1]
      rw [if_neg (by omega), ih _ h2]
      simp; omega

theorem varint_prefix_underflow (k n : Nat) (h : n < 128 ^ (k+1)) (j : Nat)
    (hj : j < (encVarint n).length) :
    decVarint (k+1) ((encVarint n).take j) = .error .underflow := by
  induction k generalizing n j with
  | zero =>
    have hn : n < 128 := by simpa using h
    rw [encVarint, dif_pos hn] at hj ⊢
    simp at hj; subst hj; simp [decVarint]
  | succ k ih =>
    by_cases hn : n < 128
    · rw [encVarint, dif_pos hn] at hj ⊢
      simp at hj; subst hj; simp [decVarint]
    · rw [encVarint, dif_neg hn] at hj ⊢
      rcases j with _ | j
      · simp [decVarint]
      · have h1 : n % 128 + 128 < 256 := by omega
        have h2 : n / 128 < 128 ^ (k+1) := by rw [Nat.pow_succ] at h; omega
        simp only [List.take_succ_cons, decVarint, toUInt8_toNat_lt h1]
        rw [if_neg (by omega), ih _ h2 j (by simpa using hj)]

theorem encVarint_ne_nil (n : Nat) : encVarint n ≠ [] := by
  rw [encVarint]; split <;> simp

/-- the encoding is at most `k+1` bytes iff the value is below `128^(k+1)` -/
theorem varint_length_le (k n : Nat) : (encVarint n).length ≤ k + 1 ↔ n < 128 ^ (k+1) := by
  induction k generalizing n with
  | zero =>
    rw [encVarint]
    split
    · rename_i hn; simp; omega
    · rename_i hn
      have : 0 < (encVarint (n / 128)).length := by
        rw [encVarint]; split <;> simp
      have e : (128 : Nat) ^ (0 + 1) = 128 := by decide
      rw [e]
      constructor
      · intro h; simp only [List.length_cons] at h; omega
      · intro h; omega
  | succ k ih =>
    rw [encVarint]
    split
    · rename_i hn
      have : 128 ≤ 128 ^ (k + 1 + 1) := by
        calc 128 = 128 ^ 1 := by simp
          _ ≤ 128 ^ (k + 1 + 1) := Nat.pow_le_pow_right (by omega) (by omega)
      simp; omega
    · rename_i hn
      simp only [List.length_cons, Nat.add_le_add_iff_right]
      rw [ih (n / 128), Nat.pow_succ 128 (k+1)]
      omega

/-- minimal form: the last byte is non-zero unless the whole encoding is the single byte 0 -/
theorem varint_minimal (n : Nat) : (encVarint n).getLast? ≠ some 0 ∨ encVarint n = [0] := by
  induction n using Nat.strongRecOn with
  | _ n ih =>
    rw [encVarint]
    split
    · rename_i hn
      by_cases h0 : n = 0
      · right; subst h0; rfl
      · left
        simp only [List.getLast?_singleton, ne_eq, Option.some.injEq]
        intro h
        have := congrArg UInt8.toNat h
        rw [toUInt8_toNat_lt (by omega)] at this
        simp at this; omega
    · rename_i hn
      left
      have hpos : 0 < n / 128 := by omega
      rcases ih (n / 128) (by omega) with h | h
      · rw [List.getLast?_cons]
        cases hl : (encVarint (n / 128)).getLast? with
        | none =>
          have : encVarint (n / 128) = [] := by simpa using hl
          rw [encVarint] at this; split at this <;> simp at this
        | some x => rw [hl] at h; simpa using h
      · exfalso
        rw [encVarint] at h
        split at h
        · simp at h
          have := congrArg UInt8.toNat h
          rw [toUInt8_toNat_lt (by omega)] at this
          simp at this; omega
        · simp at h
          exact encVarint_ne_nil _ h.2

/-- `k` bytes that all carry the continuation bit are rejected with `ValueError` -/
theorem varint_too_long (k : Nat) (bs : Bytes) (h : k ≤ bs.length)
    (hc : ∀ b ∈ bs.take k, 128 ≤ b.toNat) : decVarint k bs = .error .valueError := by
  induction k generalizing bs with
  | zero => simp [decVarint]
  | succ k ih =>
    cases bs with
    | nil => simp at h
    | cons b bs =>
      have hb : 128 ≤ b.toNat := hc b (by simp)
      simp only [decVarint, if_neg (show ¬ b.toNat < 128 by omega)]
      rw [ih bs (by simpa using h) (fun x hx => hc x (by simp [List.take_succ_cons, hx]))]

theorem decVarint_ok {k : Nat} {bs : Bytes} {n : Nat} {r : Bytes}
    (h : decVarint k bs = .ok (n, r)) : ∃ a, bs = a ++ r ∧ 0 < a.length ∧ a.length ≤ k := by
  induction k generalizing bs n r with
  | zero => simp [decVarint] at h
  | succ k ih =>
    cases bs with
    | nil => simp [decVarint] at h
    | cons b bs =>
      simp only [decVarint] at h
      split at h
      · injection h with h; injection h with _ h; subst h
        exact ⟨[b], rfl, by simp, by simp⟩
      · split at h
        · rename_i hi rest' heq
          injection h with h; injection h with _ h; subst h
          obtain ⟨a, ha, hpos, hle⟩ := ih heq
          exact ⟨b :: a, by simp [ha], by simp, by simp; omega⟩
        · contradiction

theorem decVarint_err {k : Nat} {bs : Bytes} {e : Err}
    (h : decVarint k bs = .error e) : e = .underflow ∨ e = .valueError := by
  induction k generalizing bs with
  | zero => simp [decVarint] at h; right; exact h.symm
  | succ k ih =>
    cases bs with
    | nil => simp [decVarint] at h; left; exact h.symm
    | cons b bs =>
      simp only [decVarint] at h
      split at h
      · contradiction
      · split at h
        · contradiction
        · rename_i e' heq
          injection h with h; subst h
          exact ih heq

theorem decVarint_lt {k : Nat} {bs : Bytes} {n : Nat} {r : Bytes}
    (h : decVarint k bs = .ok (n, r)) : n < 128 ^ k := by
  induction k generalizing bs n r with
  | zero => simp [decVarint] at h
  | succ k ih =>
    cases bs with
    | nil => simp [decVarint] at h
    | cons b bs =>
      simp only [decVarint] at h
      have hb : b.toNat < 256 := b.toNat_lt
      have hp : 0 < 128 ^ k := Nat.pow_pos (by omega)
      split at h
      · injection h with h; injection h with h _; subst h
        rw [Nat.pow_succ]; omega
      · split at h
        · rename_i hi rest' heq
          injection h with h; injection h with h _; subst h
          have := ih heq
          rw [Nat.pow_succ]; omega
        · contradiction

/-! ### zig-zag -/

theorem zigzag_dec_enc (v : Int) : zigzagDec (zigzagEnc v) = v := by
  unfold zigzagDec zigzagEnc
  split <;> split <;> omega

theorem zigzag_enc_dec (n : Nat) : zigzagEnc (zigzagDec n) = n := by
  unfold zigzagDec zigzagEnc
  split <;> split <;> omega

theorem zigzag_range (bits : Nat) (v : Int) (h : -(2 ^ bits : Int) ≤ v ∧ v < 2 ^ bits) :
    zigzagEnc v < 2 ^ (bits + 1) := by
  have : ((2 ^ (bits + 1) : Nat) : Int) = 2 * 2 ^ bits := by push_cast; rw [Int.pow_succ]; omega
  unfold zigzagEnc
  split <;> omega

/-! ### framing of strings, bytes, uuid, bool, float, error codes, time -/


theorem readExact_append' {n : Int} (p rest : Bytes) (h : n = (p.length : Int)) :
    readExact n (p ++ rest) = .ok (p, rest) := by
  subst h; exact readExact_append p rest

theorem uvarintCtor_ok {n : Int} {k : Nat} (h : uvarintCtor n = .ok k) : (k : Int) = n ∧ k < 2 ^ 35 := by
  unfold uvarintCtor at h
  split at h
  · rename_i hc; injection h with h; subst h
    constructor
    · omega
    · have : ((2 ^ 35 : Nat) : Int) = 2 ^ 35 := by norm_cast
      omega
  · contradiction

theorem pow128_5 : (128 : Nat) ^ 5 = 2 ^ 35 := by decide

/-- compact (uvarint length+1) payload framing -/
theorem compact_core_roundtrip (p rest : Bytes) (n : Nat) (hn : (n : Int) = (p.length : Int) + 1)
    (hlt : n < 2 ^ 35) (nullable : Bool) :
    readCompactStringAsBytesCore nullable (encVarint n ++ p ++ rest) = .ok (some p, rest) := by
  unfold readCompactStringAsBytesCore
  rw [List.append_assoc, varint_roundtrip 4 n (by rw [pow128_5]; exact hlt)]
  have hn0 : n ≠ 0 := by omega
  simp only [bind, Except.bind, hn0, if_false]
  have : (n : Int) - 1 = (p.length : Int) := by omega
  rw [this, readExact_append]
  rfl

theorem compact_core_null (rest : Bytes) :
    readCompactStringAsBytesCore true (encVarint 0 ++ rest) = .ok (none, rest) := by
  unfold readCompactStringAsBytesCore
  rw [varint_roundtrip 4 0 (by decide)]
  rfl

theorem legacy_core_roundtrip (w : Nat) (hw : 0 < w) (p l rest : Bytes)
    (hl : encIntN w true p.length = .ok l) (nullable : Bool) :
    readLegacyCore w nullable (l ++ p ++ rest) = .ok (some p, rest) := by
  unfold readLegacyCore
  rw [List.append_assoc, int_roundtrip w hw true _ l _ hl]
  have : ¬ ((p.length : Int) = -1) := by omega
  simp only [bind, Except.bind, this, if_false]
  rw [readExact_append]
  rfl

theorem legacy_core_null (w : Nat) (hw : 0 < w) (l rest : Bytes)
    (hl : encIntN w true (-1) = .ok l) :
    readLegacyCore w true (l ++ rest) = .ok (none, rest) := by
  unfold readLegacyCore
  rw [int_roundtrip w hw true _ l _ hl]
  rfl


theorem readInt_roundtrip (w : Nat) (hw : 0 < w) (s : Bool) (i : Int) (bs rest : Bytes)
    (h : writeIntN w s (.int i) = .ok bs) :
    (do let (i, r) ← decIntN w s (bs ++ rest); pure (Value.int i, r) : Except Err (Value × Bytes))
      = .ok (.int i, rest) := by
  simp only [writeIntN, Value.asInt?] at h
  rw [int_roundtrip w hw s i bs rest h]; rfl

theorem float64_roundtrip (b : Nat) (hb : b < 2 ^ 64) (bs rest : Bytes)
    (h : writeFloat64 (.float b) = .ok bs) : readFloat64 (bs ++ rest) = .ok (.float b, rest) := by
  simp only [writeFloat64] at h
  injection h with h; subst h
  unfold readFloat64
  have := readExact_append' (n := 8) (natBE 8 b) rest (by rw [natBE_length]; rfl)
  simp only [bind, Except.bind, this, pure, Except.pure]
  rw [beNat_natBE 8 b (by rw [pow8]; exact hb)]

theorem boolean_roundtrip (b : Bool) (bs rest : Bytes) (h : writeBoolean (.bool b) = .ok bs) :
    readBoolean (bs ++ rest) = .ok (.bool b, rest) := by
  simp only [writeBoolean, Value.truthy] at h
  injection h with h; subst h
  cases b <;> simp [readBoolean, readExact, beNat, bind, Except.bind, pure, Except.pure]

theorem uuid_roundtrip (v : Value) (hv : v = .none ∨ ∃ b, v = .uuid b ∧ b.length = 16 ∧ b ≠ uuidZero)
    (bs rest : Bytes) (h : writeUuid v = .ok bs) : readUuid (bs ++ rest) = .ok (v, rest) := by
  rcases hv with rfl | ⟨b, rfl, hl, hz⟩
  · simp only [writeUuid] at h; injection h with h; subst h
    unfold readUuid
    have := readExact_append' (n := 16) uuidZero rest (by simp [uuidZero])
    simp only [bind, Except.bind, this, pure, Except.pure, if_true]
  · simp only [writeUuid] at h; injection h with h; subst h
    unfold readUuid
    have := readExact_append' (n := 16) b rest (by rw [hl]; rfl)
    simp only [bind, Except.bind, this, pure, Except.pure, hz, if_false]

theorem errorCode_roundtrip (codes : List Int) (i : Int) (hi : codes.contains i = true)
    (bs rest : Bytes) (h : writeErrorCode (.int i) = .ok bs) :
    readErrorCode codes (bs ++ rest) = .ok (.int i, rest) := by
  simp only [writeErrorCode] at h
  unfold readErrorCode
  rw [int_roundtrip 2 (by omega) true i bs rest h]
  have hi' : i ∈ codes := by simpa using hi
  simp [bind, Except.bind, hi', pure, Except.pure]

theorem decodeUtf8_ok (p : Bytes) (h : validUtf8 p = true) : decodeUtf8 p = .ok (.str p) := by
  simp [decodeUtf8, h]


/-- compact string / bytes writers: both readers agree with them -/
theorem writeNullableCompactString_payload {v : Value} {p : Bytes} (hp : v.payload? = some p)
    {bs : Bytes} (h : writeNullableCompactString v = .ok bs) :
    ∃ n : Nat, (n : Int) = (p.length : Int) + 1 ∧ n < 2 ^ 35 ∧ bs = encVarint n ++ p := by
  cases v <;> simp [Value.payload?] at hp <;> subst hp <;>
    simp only [writeNullableCompactString, Value.payload?] at h <;>
    (obtain ⟨n, hn, h⟩ := bind_ok h
     obtain ⟨h1, h2⟩ := uvarintCtor_ok hn
     simp only [pure, Except.pure] at h
     injection h with h
     exact ⟨n, h1, h2, h.symm⟩)

theorem compactString_roundtrip (nullable : Bool) (p : Bytes) (hp : validUtf8 p = true) (bs rest : Bytes)
    (h : writeNullableCompactString (.str p) = .ok bs) :
    (do let (o, r) ← readCompactStringAsBytesCore nullable (bs ++ rest)
        match o with
        | some b => do let s ← decodeUtf8 b; pure (s, r)
        | none => pure (Value.none, r) : Except Err (Value × Bytes)) = .ok (.str p, rest) := by
  obtain ⟨n, h1, h2, rfl⟩ := writeNullableCompactString_payload (p := p) rfl h
  rw [compact_core_roundtrip p rest n h1 h2]
  simp [bind, Except.bind, decodeUtf8_ok p hp, pure, Except.pure]

theorem compactBytes_roundtrip (nullable : Bool) (p : Bytes) (bs rest : Bytes)
    (h : writeNullableCompactString (.bytes p) = .ok bs) :
    (do let (o, r) ← readCompactStringAsBytesCore nullable (bs ++ rest)
        match o with
        | some b => pure (Value.bytes b, r)
        | none => pure (Value.none, r) : Except Err (Value × Bytes)) = .ok (.bytes p, rest) := by
  obtain ⟨n, h1, h2, rfl⟩ := writeNullableCompactString_payload (p := p) rfl h
  rw [compact_core_roundtrip p rest n h1 h2]
  simp [bind, Except.bind, pure, Except.pure]

theorem compactNull_string (bs rest : Bytes) (h : writeNullableCompactString .none = .ok bs) :
    readCompactStringNullable (bs ++ rest) = .ok (.none, rest) := by
  simp only [writeNullableCompactString] at h
  injection h with h; subst h
  unfold readCompactStringNullable
  rw [compact_core_null]; rfl

theorem compactNull_bytes (bs rest : Bytes) (h : writeNullableCompactString .none = .ok bs) :
    readCompactStringAsBytesNullable (bs ++ rest) = .ok (.none, rest) := by
  simp only [writeNullableCompactString] at h
  injection h with h; subst h
  unfold readCompactStringAsBytesNullable
  rw [compact_core_null]; rfl

theorem writeNullableLegacyString_str {p bs : Bytes} (h : writeNullableLegacyString (.str p) = .ok bs) :
    ∃ l, encIntN 2 true p.length = .ok l ∧ bs = l ++ p := by
  simp only [writeNullableLegacyString] at h
  split at h
  · obtain ⟨l, hl, h⟩ := bind_ok h
    simp only [pure, Except.pure] at h; injection h with h
    exact ⟨l, hl, h.symm⟩
  · contradiction

theorem legacyString_roundtrip (nullable : Bool) (p : Bytes) (hp : validUtf8 p = true) (bs rest : Bytes)
    (h : writeNullableLegacyString (.str p) = .ok bs) :
    (do let (o, r) ← readLegacyCore 2 nullable (bs ++ rest)
        match o with
        | some b => do let s ← decodeUtf8 b; pure (s, r)
        | none => pure (Value.none, r) : Except Err (Value × Bytes)) = .ok (.str p, rest) := by
  obtain ⟨l, hl, rfl⟩ := writeNullableLegacyString_str h
  rw [legacy_core_roundtrip 2 (by omega) p l rest hl]
  simp [bind, Except.bind, decodeUtf8_ok p hp, pure, Except.pure]

theorem legacyString_null (bs rest : Bytes) (h : writeNullableLegacyString .none = .ok bs) :
    readNullableLegacyString (bs ++ rest) = .ok (.none, rest) := by
  simp only [writeNullableLegacyString] at h
  unfold readNullableLegacyString
  rw [legacy_core_null 2 (by omega) bs rest h]; rfl

theorem writeNullableLegacyBytes_bytes {p bs : Bytes} (h : writeNullableLegacyBytes (.bytes p) = .ok bs) :
    ∃ l, encIntN 4 true p.length = .ok l ∧ bs = l ++ p := by
  simp only [writeNullableLegacyBytes] at h
  split at h
  · obtain ⟨l, hl, h⟩ := bind_ok h
    simp only [pure, Except.pure] at h; injection h with h
    exact ⟨l, hl, h.symm⟩
  · contradiction

theorem legacyBytes_roundtrip (nullable : Bool) (p : Bytes) (bs rest : Bytes)
    (h : writeNullableLegacyBytes (.bytes p) = .ok bs) :
    (do let (o, r) ← readLegacyCore 4 nullable (bs ++ rest)
        match o with
        | some b => pure (Value.bytes b, r)
        | none => pure (Value.none, r) : Except Err (Value × Bytes)) = .ok (.bytes p, rest) := by
  obtain ⟨l, hl, rfl⟩ := writeNullableLegacyBytes_bytes h
  rw [legacy_core_roundtrip 4 (by omega) p l rest hl]
  simp [bind, Except.bind, pure, Except.pure]

theorem legacyBytes_null (bs rest : Bytes) (h : writeNullableLegacyBytes .none = .ok bs) :
    readNullableLegacyBytes (bs ++ rest) = .ok (.none, rest) := by
  simp only [writeNullableLegacyBytes] at h
  unfold readNullableLegacyBytes
  rw [legacy_core_null 4 (by omega) bs rest h]; rfl

/-! durations and timestamps (repaired arithmetic) -/

theorem msOfMicrosExact_whole (us : Int) (h : us % 1000 = 0) : msOfMicrosExact us = us / 1000 := by
  unfold msOfMicrosExact
  simp only [h]
  simp

theorem timedelta_roundtrip (cfg : TimeCfg) (hc : cfg.tdExact = true) (w : Nat) (hw : 0 < w)
    (us : Int) (h1000 : us % 1000 = 0)
    (hr : -86399999913600000000 ≤ us ∧ us ≤ 86399999999999999999) (bs rest : Bytes)
    (h : writeTimedelta cfg w (.timedelta us) = .ok bs) :
    (do let (n, r) ← decIntN w true (bs ++ rest)
        let v ← timedeltaOfMs n
        pure (v, r) : Except Err (Value × Bytes)) = .ok (.timedelta us, rest) := by
  simp only [writeTimedelta, msOfTimedelta, hc, if_true, msOfMicrosExact_whole us h1000] at h
  rw [int_roundtrip w hw true _ bs rest h]
  have hus : us / 1000 * 1000 = us := by omega
  have : timedeltaOfMs (us / 1000) = .ok (.timedelta us) := by
    unfold timedeltaOfMs
    simp only [hus]
    rw [if_pos (by constructor <;> omega)]
  simp [bind, Except.bind, this, pure, Except.pure]

/-- CPython's float arithmetic is exact on whole-millisecond timestamps (proved in Proofs/Float) -/
def FloatExact : Prop := ∀ k : Int, 0 ≤ k → k ≤ 253402300799999 → msOfMicrosFloat (k * 1000) = k

theorem tzAware_repaired (ms : Int) (h0 : 0 ≤ ms) (h1 : ms ≤ 253402300799999) :
    tzAwareFromI64 TimeCfg.repaired ms = .ok (.datetime (ms * 1000)) := by
  unfold tzAwareFromI64 TimeCfg.repaired
  simp only [if_true]
  have : timedeltaOfMs ms = .ok (.timedelta (ms * 1000)) := by
    unfold timedeltaOfMs
    simp only
    rw [if_pos (by constructor <;> omega)]
  rw [this]
  have hs : ¬ (ms / 1000 < minDatetimeSec ∨ maxDatetimeSec < ms / 1000) := by
    unfold minDatetimeSec maxDatetimeSec; omega
  simp only [hs, if_false]
  rw [if_neg (by omega)]

theorem datetime_roundtrip (hfl : FloatExact) (us : Int) (h1000 : us % 1000 = 0) (h0 : 0 ≤ us)
    (h1 : us ≤ 253402300799999000) (bs rest : Bytes)
    (h : writeDatetimeI64 (.datetime us) = .ok bs) :
    readDatetimeI64 TimeCfg.repaired (bs ++ rest) = .ok (.datetime us, rest)
    ∧ readNullableDatetimeI64 TimeCfg.repaired (bs ++ rest) = .ok (.datetime us, rest) := by
  have hus : us / 1000 * 1000 = us := by omega
  have hfx : msOfMicrosFloat us = us / 1000 := by
    have := hfl (us / 1000) (by omega) (by omega)
    rwa [hus] at this
  simp only [writeDatetimeI64, hfx] at h
  have htz := tzAware_repaired (us / 1000) (by omega) (by omega)
  rw [hus] at htz
  constructor
  · unfold readDatetimeI64
    rw [int_roundtrip 8 (by omega) true _ bs rest h]
    simp [bind, Except.bind, htz, pure, Except.pure]
  · unfold readNullableDatetimeI64
    rw [int_roundtrip 8 (by omega) true _ bs rest h]
    have : ¬ (us / 1000 = -1) := by omega
    simp [bind, Except.bind, htz, this, pure, Except.pure]

theorem datetime_null (cfg : TimeCfg) (bs rest : Bytes) (h : writeNullableDatetimeI64 .none = .ok bs) :
    readNullableDatetimeI64 cfg (bs ++ rest) = .ok (.none, rest) := by
  simp only [writeNullableDatetimeI64] at h
  unfold readNullableDatetimeI64
  rw [int_roundtrip 8 (by omega) true _ bs rest h]
  rfl


end Kio
