import Kio.Proofs.Codec
/-!
Definitions for the full-strength round trip (`Kio.Proofs.RoundtripEq`):

* `Schema.typedOk`  — `Schema.valueOk` without the **TaggedCanon** clause (well-typed values);
* `Schema.canon`    — the value the decoder hands back: nested structures canonicalised, and a
                      tagged field that compares `==` to its default replaced by the default;
* `Schema.rtOk`     — "decoded form": what `Schema.canon` produces.  It is `valueOk` where a tagged
                      field holds either its (self-equal) default itself — whatever that default
                      is, well-typed or not — or a decoded-form value that is not `==` the default;
* `Schema.dfltsOk`  — every tagged default (at every nesting depth) is itself a canonical value
                      of its field (or the never-typed zero UUID);

and the facts about Python `==` (`Value.pyEq`) they need: it is symmetric and transitive on all
values (but not reflexive in general: NaN is not `==` itself) and reflexive on well-typed primitives.
-/
namespace Kio

/-! ### well-typed values: `valueOk` minus TaggedCanon -/

mutual
/-- `HasType s v` (DESIGN C.2 without the TaggedCanon clause) -/
def Schema.typedOk (env : Env) : Schema → Value → Bool
  | .mk _ _ rh fs, .entity vs => Fields.typedOk env rh fs vs
  | _, _ => false
def Fields.typedOk (env : Env) (rh : Bool) : List Field → List Value → Bool
  | [], [] => true
  | f :: fs, v :: vs => Field.typedOk env rh f v && Fields.typedOk env rh fs vs
  | _, _ => false
def Field.typedOk (env : Env) (rh : Bool) : Field → Value → Bool
  | .mk m sh, v =>
    (if rh && m.isClientId then primValueOk env .string true v
     else Shape.typedOk env m sh v)
def Shape.typedOk (env : Env) (m : FieldMeta) : Shape → Value → Bool
  | .prim _ o, v => (match m.kafkaType with | some k => primValueOk env k o v | none => false)
  | .primArr _ e a, v =>
    (match m.kafkaType with
     | some k => (match v with
        | .tuple vs => allOk (primValueOk env k e) vs
        | .none => a
        | _ => false)
     | none => false)
  | .ent s o, v => (match v with | .none => o | v => Schema.typedOk env s v)
  | .entArr s a, v =>
    (match v with
     | .tuple vs => Values.allTyped env s vs
     | .none => a
     | _ => false)
  | .bad, _ => false
def Values.allTyped (env : Env) (s : Schema) : List Value → Bool
  | [] => true
  | v :: vs => Schema.typedOk env s v && Values.allTyped env s vs
end

/-! ### the decoder's view of a value -/

mutual
/-- the instance `entity_reader(T)` returns for the encoding of `v` -/
def Schema.canon (env : Env) : Schema → Value → Value
  | .mk _ _ rh fs, .entity vs => .entity (Fields.canon env rh fs vs)
  | _, v => v
def Fields.canon (env : Env) (rh : Bool) : List Field → List Value → List Value
  | f :: fs, v :: vs => Field.canon env rh f v :: Fields.canon env rh fs vs
  | _, vs => vs
/-- nested structures first; then a tagged field `==` its default becomes the default -/
def Field.canon (env : Env) (rh : Bool) : Field → Value → Value
  | .mk m sh, v =>
    let w := if rh && m.isClientId then v else Shape.canon env sh v
    match m.tag with
    | none => w
    | some _ =>
      let d := (Field.taggedDefault env (.mk m sh)).toOption.getD .none
      if w.pyEq d then d else w
def Shape.canon (env : Env) : Shape → Value → Value
  | .ent s _, v => Schema.canon env s v
  | .entArr s _, .tuple vs => .tuple (Values.canon env s vs)
  | _, v => v
def Values.canon (env : Env) (s : Schema) : List Value → List Value
  | [] => []
  | v :: vs => Schema.canon env s v :: Values.canon env s vs
end

/-- the nested-canonicalised value of a field, before the comparison with the default -/
def Field.ncanon (env : Env) (rh : Bool) : Field → Value → Value
  | .mk m sh, v => if rh && m.isClientId then v else Shape.canon env sh v

/-! ### decoded form -/

mutual
/-- values the decoder can return: the exact domain on which decode ∘ encode is the identity -/
def Schema.rtOk (env : Env) : Schema → Value → Bool
  | .mk _ _ rh fs, .entity vs => Fields.rtOk env rh fs vs
  | _, _ => false
def Fields.rtOk (env : Env) (rh : Bool) : List Field → List Value → Bool
  | [], [] => true
  | f :: fs, v :: vs => Field.rtOk env rh f v && Fields.rtOk env rh fs vs
  | _, _ => false
def Field.rtOk (env : Env) (rh : Bool) : Field → Value → Bool
  | .mk m sh, v =>
    match m.tag with
    | none =>
      (if rh && m.isClientId then primValueOk env .string true v else Shape.rtOk env m sh v)
    | some _ =>
      let d := (Field.taggedDefault env (.mk m sh)).toOption.getD .none
      if v.pyEq d then v.beq d
      else (if rh && m.isClientId then primValueOk env .string true v else Shape.rtOk env m sh v)
def Shape.rtOk (env : Env) (m : FieldMeta) : Shape → Value → Bool
  | .prim _ o, v => (match m.kafkaType with | some k => primValueOk env k o v | none => false)
  | .primArr _ e a, v =>
    (match m.kafkaType with
     | some k => (match v with
        | .tuple vs => allOk (primValueOk env k e) vs
        | .none => a
        | _ => false)
     | none => false)
  | .ent s o, v => (match v with | .none => o | v => Schema.rtOk env s v)
  | .entArr s a, v =>
    (match v with
     | .tuple vs => Values.allRt env s vs
     | .none => a
     | _ => false)
  | .bad, _ => false
def Values.allRt (env : Env) (s : Schema) : List Value → Bool
  | [] => true
  | v :: vs => Schema.rtOk env s v && Values.allRt env s vs
end

/-! ### well-typed defaults -/

mutual
/-- every tagged default, at every depth, is a canonical value of its own field — or the zero
    UUID, which no well-typed value is `==` to (the canonical "no UUID" is `None`) -/
def Schema.dfltsOk (env : Env) : Schema → Bool
  | .mk _ _ rh fs => Fields.dfltsOk env rh fs
def Fields.dfltsOk (env : Env) (rh : Bool) : List Field → Bool
  | [] => true
  | f :: fs => Field.dfltsOk env rh f && Fields.dfltsOk env rh fs
def Field.dfltsOk (env : Env) (rh : Bool) : Field → Bool
  | .mk m sh =>
    Shape.dfltsOk env sh
      && (match m.tag with
          | none => true
          | some _ =>
            let d := (Field.taggedDefault env (.mk m sh)).toOption.getD .none
            d.beq (.uuid uuidZero)
              || (if rh && m.isClientId then primValueOk env .string true d
                  else Shape.valueOk env m sh d))
def Shape.dfltsOk (env : Env) : Shape → Bool
  | .ent s _ => Schema.dfltsOk env s
  | .entArr s _ => Schema.dfltsOk env s
  | _ => true
end

/-! ### Python `==` is symmetric and transitive -/

theorem rq_floatEq_symm {a b : Nat} (h : floatEq a b = true) : floatEq b a = true := by
  unfold floatEq at h ⊢
  cases ha : floatIsNan a <;> cases hb : floatIsNan b <;>
    simp only [ha, hb, Bool.or_false, Bool.or_true, Bool.false_eq_true, if_false, if_true] at h ⊢
  · split at h
    · rename_i hz; rw [if_pos ⟨hz.2, hz.1⟩]
    · rename_i hz
      have h' : a = b := by simpa using h
      subst h'
      split <;> simp

theorem rq_floatEq_trans {a b c : Nat} (h1 : floatEq a b = true) (h2 : floatEq b c = true) :
    floatEq a c = true := by
  unfold floatEq at h1 h2 ⊢
  cases ha : floatIsNan a <;> cases hb : floatIsNan b <;> cases hc : floatIsNan c <;>
    simp only [ha, hb, hc, Bool.or_false, Bool.or_true, Bool.false_eq_true, if_false, if_true] at h1 h2 ⊢ <;>
    try (first | cases h1 | cases h2)
  by_cases hab : a % 2 ^ 63 = 0 ∧ b % 2 ^ 63 = 0
  · by_cases hbc : b % 2 ^ 63 = 0 ∧ c % 2 ^ 63 = 0
    · rw [if_pos ⟨hab.1, hbc.2⟩]
    · rw [if_neg hbc] at h2
      have : b = c := by simpa using h2
      subst this
      exact absurd ⟨hab.2, hab.2⟩ hbc
  · rw [if_neg hab] at h1
    have : a = b := by simpa using h1
    subst this
    exact h2

theorem rq_floatEq_refl {a : Nat} (h : floatIsFinite a = true) : floatEq a a = true := by
  have hn : floatIsNan a = false := by
    unfold floatIsFinite at h
    unfold floatIsNan
    simp only [decide_eq_true_eq, ne_eq] at h
    simp [h]
  unfold floatEq
  simp only [hn, Bool.or_false, Bool.false_eq_true, if_false]
  split <;> simp

mutual
theorem Value.rq_pyEq_symm : ∀ (a b : Value), a.pyEq b = true → b.pyEq a = true
  | .int a, b, h => by
    cases b <;> simp [Value.pyEq] at h ⊢ <;> omega
  | .bool a, b, h => by
    cases b <;> simp [Value.pyEq] at h ⊢
    · exact h
    · exact h.symm
  | .float a, b, h => by
    cases b <;> simp [Value.pyEq] at h ⊢
    exact rq_floatEq_symm h
  | .str a, b, h => by cases b <;> simp [Value.pyEq] at h ⊢; exact h.symm
  | .bytes a, b, h => by cases b <;> simp [Value.pyEq] at h ⊢; exact h.symm
  | .uuid a, b, h => by cases b <;> simp [Value.pyEq] at h ⊢; exact h.symm
  | .timedelta a, b, h => by cases b <;> simp [Value.pyEq] at h ⊢; exact h.symm
  | .datetime a, b, h => by cases b <;> simp [Value.pyEq] at h ⊢; exact h.symm
  | .none, b, h => by cases b <;> simp [Value.pyEq] at h ⊢
  | .tuple as, b, h => by
    cases b <;> simp only [Value.pyEq, Bool.false_eq_true] at h ⊢
    exact Value.rq_pyEqList_symm as _ h
  | .entity as, b, h => by
    cases b <;> simp only [Value.pyEq, Bool.false_eq_true] at h ⊢
    exact Value.rq_pyEqList_symm as _ h
theorem Value.rq_pyEqList_symm : ∀ (as bs : List Value),
    Value.pyEqList as bs = true → Value.pyEqList bs as = true
  | [], [], _ => rfl
  | a :: as, b :: bs, h => by
    rw [Value.pyEqList, Bool.and_eq_true] at h ⊢
    exact ⟨Value.rq_pyEq_symm a b h.1, Value.rq_pyEqList_symm as bs h.2⟩
  | [], _ :: _, h => by simp [Value.pyEqList] at h
  | _ :: _, [], h => by simp [Value.pyEqList] at h
end

mutual
/-- transitivity (recursion on the middle value) -/
theorem Value.rq_pyEq_trans : ∀ (b a c : Value),
    a.pyEq b = true → b.pyEq c = true → a.pyEq c = true
  | .int b, a, c, h1, h2 => by
    cases a <;> simp [Value.pyEq] at h1 <;> cases c <;> simp [Value.pyEq] at h2 ⊢ <;>
      first
      | (simp_all; done)
      | (rename_i x y; cases x <;> cases y <;> simp_all)
  | .bool b, a, c, h1, h2 => by
    cases a <;> simp [Value.pyEq] at h1 <;> cases c <;> simp [Value.pyEq] at h2 ⊢ <;> simp_all
  | .float b, a, c, h1, h2 => by
    cases a <;> simp [Value.pyEq] at h1 <;> cases c <;> simp [Value.pyEq] at h2 ⊢
    exact rq_floatEq_trans h1 h2
  | .str b, a, c, h1, h2 => by
    cases a <;> simp [Value.pyEq] at h1 <;> cases c <;> simp [Value.pyEq] at h2 ⊢
    exact h1.trans h2
  | .bytes b, a, c, h1, h2 => by
    cases a <;> simp [Value.pyEq] at h1 <;> cases c <;> simp [Value.pyEq] at h2 ⊢
    exact h1.trans h2
  | .uuid b, a, c, h1, h2 => by
    cases a <;> simp [Value.pyEq] at h1 <;> cases c <;> simp [Value.pyEq] at h2 ⊢
    exact h1.trans h2
  | .timedelta b, a, c, h1, h2 => by
    cases a <;> simp [Value.pyEq] at h1 <;> cases c <;> simp [Value.pyEq] at h2 ⊢
    exact h1.trans h2
  | .datetime b, a, c, h1, h2 => by
    cases a <;> simp [Value.pyEq] at h1 <;> cases c <;> simp [Value.pyEq] at h2 ⊢
    exact h1.trans h2
  | .none, a, c, h1, h2 => by
    cases a <;> simp [Value.pyEq] at h1 <;> cases c <;> simp [Value.pyEq] at h2 ⊢
  | .tuple bs, a, c, h1, h2 => by
    cases a <;> simp only [Value.pyEq, Bool.false_eq_true] at h1 <;>
      cases c <;> simp only [Value.pyEq, Bool.false_eq_true] at h2 ⊢
    exact Value.rq_pyEqList_trans bs _ _ h1 h2
  | .entity bs, a, c, h1, h2 => by
    cases a <;> simp only [Value.pyEq, Bool.false_eq_true] at h1 <;>
      cases c <;> simp only [Value.pyEq, Bool.false_eq_true] at h2 ⊢
    exact Value.rq_pyEqList_trans bs _ _ h1 h2
theorem Value.rq_pyEqList_trans : ∀ (bs as cs : List Value),
    Value.pyEqList as bs = true → Value.pyEqList bs cs = true → Value.pyEqList as cs = true
  | [], as, cs, h1, h2 => by
    cases as <;> simp [Value.pyEqList] at h1
    cases cs <;> simp [Value.pyEqList] at h2
    rfl
  | b :: bs, as, cs, h1, h2 => by
    cases as with
    | nil => simp [Value.pyEqList] at h1
    | cons a as =>
      cases cs with
      | nil => simp [Value.pyEqList] at h2
      | cons c cs =>
        rw [Value.pyEqList, Bool.and_eq_true] at h1 h2 ⊢
        exact ⟨Value.rq_pyEq_trans b a c h1.1 h2.1, Value.rq_pyEqList_trans bs as cs h1.2 h2.2⟩
end

theorem Value.rq_pyEq_trans' {a b c : Value} (h1 : a.pyEq b = true) (h2 : b.pyEq c = true) :
    a.pyEq c = true := Value.rq_pyEq_trans b a c h1 h2

theorem Value.rq_pyEq_symm' {a b : Value} (h : a.pyEq b = true) : b.pyEq a = true :=
  Value.rq_pyEq_symm a b h

/-- a value that is `==` something is `==` itself -/
theorem Value.rq_pyEq_refl_right {a b : Value} (h : a.pyEq b = true) : b.pyEq b = true :=
  Value.rq_pyEq_trans' (Value.rq_pyEq_symm' h) h

theorem Value.rq_pyEq_refl_left {a b : Value} (h : a.pyEq b = true) : a.pyEq a = true :=
  Value.rq_pyEq_trans' h (Value.rq_pyEq_symm' h)

/-- `==`-equal values compare alike with any third value -/
theorem Value.rq_pyEq_congr_left {a b : Value} (h : a.pyEq b = true) (c : Value) :
    a.pyEq c = b.pyEq c := by
  cases hb : b.pyEq c
  · cases ha : a.pyEq c
    · rfl
    · rw [Value.rq_pyEq_trans' (Value.rq_pyEq_symm' h) ha] at hb; cases hb
  · exact Value.rq_pyEq_trans' h hb

/-- only a UUID is `==` a UUID, and then it is the same one -/
theorem Value.rq_pyEq_uuid {a : Value} {z : Bytes} (h : a.pyEq (.uuid z) = true) : a = .uuid z := by
  cases a <;> simp [Value.pyEq] at h
  rw [h]

mutual
theorem Value.rq_beq_refl : ∀ (a : Value), a.beq a = true
  | .int _ | .bool _ | .float _ | .str _ | .bytes _ | .uuid _ | .timedelta _ | .datetime _ => by
    simp [Value.beq]
  | .none => rfl
  | .tuple as => by rw [Value.beq]; exact Value.rq_beqList_refl as
  | .entity as => by rw [Value.beq]; exact Value.rq_beqList_refl as
theorem Value.rq_beqList_refl : ∀ (as : List Value), Value.beqList as as = true
  | [] => rfl
  | a :: as => by
    rw [Value.beqList, Bool.and_eq_true]
    exact ⟨Value.rq_beq_refl a, Value.rq_beqList_refl as⟩
end

/-- well-typed primitives are `==` themselves (the floats are finite: no NaN) -/
theorem rq_pyEq_refl_prim {env : Env} {k : KType} {o : Bool} {v : Value}
    (h : primValueOk env k o v = true) : v.pyEq v = true := by
  cases v <;> simp [primValueOk] at h <;> simp [Value.pyEq]
  exact rq_floatEq_refl h.2

theorem rq_pyEqList_refl_prim {env : Env} {k : KType} {o : Bool} {vs : List Value}
    (h : allOk (primValueOk env k o) vs = true) : Value.pyEqList vs vs = true := by
  induction vs with
  | nil => rfl
  | cons v vs ih =>
    simp only [allOk, Bool.and_eq_true] at h
    rw [Value.pyEqList, Bool.and_eq_true]
    exact ⟨rq_pyEq_refl_prim h.1, ih h.2⟩

end Kio
