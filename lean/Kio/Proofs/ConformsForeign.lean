import Kio.Proofs.ConformsRead
/-!
The executable family `Spec.encForeign` (one pattern applied uniformly) is included in the
relation `Spec.Conforms`.
-/
namespace Kio
open Spec (Conforms ConformsUntagged ConformsTagged ConformsField ConformsMany)

/-! ### sorting entries given as (tag, payload) -/

/-- (tag, payload) ↦ (tag, entry bytes): the form `Spec.taggedEntriesF` produces -/
def cf_g (x : Nat × Bytes) : Nat × Bytes := (x.1, Spec.taggedEntry x.1 x.2)

theorem cf_insertAsc_map (x : Nat × Bytes) (L : List (Nat × Bytes)) :
    Spec.insertAsc (cf_g x) (L.map cf_g) = (Spec.insertAsc x L).map cf_g := by
  induction L with
  | nil => rfl
  | cons y ys ih =>
    simp only [List.map_cons, Spec.insertAsc]
    have e1 : (cf_g x).1 = x.1 := rfl
    have e2 : (cf_g y).1 = y.1 := rfl
    rw [e1, e2]
    by_cases h : x.1 ≤ y.1
    · rw [if_pos h, if_pos h]; rfl
    · rw [if_neg h, if_neg h, ih]; rfl

theorem cf_ascending_map (L : List (Nat × Bytes)) :
    Spec.ascending (L.map cf_g) = (Spec.ascending L).map cf_g := by
  induction L with
  | nil => rfl
  | cons x xs ih =>
    simp only [List.map_cons, Spec.ascending]
    rw [ih, cf_insertAsc_map]

theorem cf_insertAsc_perm (x : Nat × Bytes) (L : List (Nat × Bytes)) :
    (Spec.insertAsc x L).Perm (x :: L) := by
  induction L with
  | nil => exact List.Perm.refl _
  | cons y ys ih =>
    rw [Spec.insertAsc]
    by_cases h : x.1 ≤ y.1
    · rw [if_pos h]
    · rw [if_neg h]
      exact (List.Perm.cons y ih).trans (List.Perm.swap x y ys)

theorem cf_ascending_perm (L : List (Nat × Bytes)) : (Spec.ascending L).Perm L := by
  induction L with
  | nil => exact List.Perm.refl _
  | cons x xs ih =>
    rw [Spec.ascending]
    exact (cf_insertAsc_perm x _).trans (List.Perm.cons x ih)

theorem cf_insertAsc_sorted (x : Nat × Bytes) (S : List (Nat × Bytes))
    (hS : S.Pairwise (fun a b => a.1 < b.1)) (hx : ∀ y ∈ S, y.1 ≠ x.1) :
    (Spec.insertAsc x S).Pairwise (fun a b => a.1 < b.1) := by
  induction S with
  | nil => simp [Spec.insertAsc]
  | cons y ys ih =>
    rw [List.pairwise_cons] at hS
    obtain ⟨hy, hys⟩ := hS
    rw [Spec.insertAsc]
    by_cases h : x.1 ≤ y.1
    · rw [if_pos h]
      have hne := hx y List.mem_cons_self
      refine List.pairwise_cons.2 ⟨?_, List.pairwise_cons.2 ⟨hy, hys⟩⟩
      intro z hz
      rcases List.mem_cons.1 hz with rfl | hz
      · omega
      · have := hy z hz
        omega
    · rw [if_neg h]
      refine List.pairwise_cons.2 ⟨?_, ih hys (fun z hz => hx z (List.mem_cons_of_mem _ hz))⟩
      intro z hz
      rcases List.mem_cons.1 ((cf_insertAsc_perm x ys).mem_iff.1 hz) with rfl | hz
      · omega
      · exact hy z hz

theorem cf_ascending_sorted (L : List (Nat × Bytes)) (hn : (L.map (·.1)).Nodup) :
    (Spec.ascending L).Pairwise (fun a b => a.1 < b.1) := by
  induction L with
  | nil => simp [Spec.ascending]
  | cons x xs ih =>
    rw [List.map_cons, List.nodup_cons] at hn
    rw [Spec.ascending]
    refine cf_insertAsc_sorted x _ (ih hn.2) ?_
    intro y hy heq
    exact hn.1 (List.mem_map.2 ⟨y, (cf_ascending_perm xs).mem_iff.1 hy, heq⟩)

/-! ### the parts of a structure -/

theorem cf_untaggedF (pat : Spec.ForeignPat) (flex rh : Bool) (fs : List Field) (vs : List Value)
    (hF : ∀ p ∈ fs.zip vs, ∀ b, Spec.fieldBytesF pat flex false p.1.meta p.1.shape p.2 = some b →
      ConformsField flex false p.1.meta p.1.shape p.2 b)
    (body : Bytes) (h : Spec.untaggedF pat flex rh fs vs = some body) :
    ConformsUntagged flex rh fs vs body := by
  induction fs generalizing vs body with
  | nil =>
    cases vs with
    | nil =>
      simp only [Spec.untaggedF] at h
      have h := Option.some.inj h
      subst h
      exact .nil
    | cons v vs => simp [Spec.untaggedF] at h
  | cons f fs ih =>
    cases vs with
    | nil => simp [Spec.untaggedF] at h
    | cons v vs =>
      have ih' := fun body h => ih vs (fun p hp => hF p (cf_mem_zip_cons.2 (Or.inr hp))) body h
      cases f with
      | mk m sh =>
        rw [Spec.untaggedF] at h
        cases htag : m.tag.isSome
        · simp only [htag, Bool.false_eq_true, if_false] at h
          obtain ⟨a, ha, h⟩ := Option.bind_eq_some_iff.1 h
          obtain ⟨b, hb, h⟩ := Option.bind_eq_some_iff.1 h
          have h := Option.some.inj h
          subst h
          cases hc : (rh && m.isClientId)
          · rw [hc] at ha
            simp only [Bool.false_eq_true, if_false] at ha
            exact .field htag hc
              (hF (.mk m sh, v) (cf_mem_zip_cons.2 (Or.inl rfl)) a ha) (ih' b hb)
          · rw [hc] at ha
            simp only [if_true] at ha
            exact .clientId htag hc ha (ih' b hb)
        · simp only [htag, if_true] at h
          exact .tagged htag (ih' body h)

theorem cf_taggedEntriesF (pat : Spec.ForeignPat) (flex : Bool) (fs : List Field)
    (vs : List Value)
    (hF : ∀ p ∈ fs.zip vs, ∀ b, Spec.fieldBytesF pat flex true p.1.meta p.1.shape p.2 = some b →
      ConformsField flex true p.1.meta p.1.shape p.2 b)
    (es : List (Nat × Bytes)) (h : Spec.taggedEntriesF pat flex fs vs = some es) :
    ∃ known, ConformsTagged flex fs vs known ∧ es = known.map cf_g
      ∧ (known.map (·.1)).Sublist (Spec.declaredTags fs) := by
  induction fs generalizing vs es with
  | nil =>
    cases vs with
    | nil =>
      simp only [Spec.taggedEntriesF] at h
      have h := Option.some.inj h
      subst h
      exact ⟨[], .nil, rfl, List.Sublist.slnil⟩
    | cons v vs => simp [Spec.taggedEntriesF] at h
  | cons f fs ih =>
    cases vs with
    | nil => simp [Spec.taggedEntriesF] at h
    | cons v vs =>
      have ih' := fun es h => ih vs (fun p hp => hF p (cf_mem_zip_cons.2 (Or.inr hp))) es h
      cases f with
      | mk m sh =>
        rw [Spec.taggedEntriesF] at h
        rcases opt_cases m.tag with htag | ⟨t, htag⟩
        · simp only [htag] at h
          obtain ⟨known, hk, he, hs⟩ := ih' es h
          refine ⟨known, .untagged htag hk, he, ?_⟩
          simp only [Spec.declaredTags, htag]
          exact hs
        · simp only [htag] at h
          rcases opt_cases (Spec.defaultOfField (.mk m sh)) with hd | ⟨d, hd⟩
          · rw [hd] at h; simp at h
          · rw [hd] at h
            simp only [Option.bind_eq_bind, Option.bind_some] at h
            cases hc : (v.pyEq d && !pat.sendDefaults)
            · rw [hc] at h
              simp only [Bool.false_eq_true, if_false] at h
              rcases opt_cases (Spec.fieldBytesF pat flex true m sh v) with hp | ⟨payload, hp⟩
              · rw [hp] at h; simp at h
              · rcases opt_cases (Spec.taggedEntriesF pat flex fs vs) with hm | ⟨more, hm⟩
                · rw [hp, hm] at h; simp at h
                · rw [hp, hm] at h
                  simp only [Option.bind_some] at h
                  by_cases hcc : 0 ≤ t ∧ payload.length < 2 ^ 35
                  · rw [if_pos hcc] at h
                    have h := Option.some.inj h
                    obtain ⟨known, hk, he, hs⟩ := ih' more hm
                    refine ⟨(t.toNat, payload) :: known,
                      .present htag hcc.1
                        (hF (.mk m sh, v) (cf_mem_zip_cons.2 (Or.inl rfl)) payload hp) hcc.2 hk,
                      ?_, ?_⟩
                    · rw [← h, he]; rfl
                    · simp only [Spec.declaredTags, htag, List.map_cons]
                      exact List.Sublist.cons_cons _ hs
                  · rw [if_neg hcc] at h; cases h
            · rw [hc] at h
              simp only [if_true] at h
              obtain ⟨known, hk, he, hs⟩ := ih' es h
              have heq : v.pyEq d = true := by
                rw [Bool.and_eq_true] at hc
                exact hc.1
              refine ⟨known, .omitted htag hd heq hk, he, ?_⟩
              simp only [Spec.declaredTags, htag]
              exact List.Sublist.cons _ hs

/-! ### arrays -/

theorem cf_array_tuple (flex nullable : Bool) (e : Value → Option Bytes) (vs : List Value)
    (bs : Bytes) (h : Spec.array flex nullable e (.tuple vs) = some bs) :
    ∃ body pre, Spec.concatAll e vs = some body ∧ Spec.countPrefix flex vs.length = some pre
      ∧ bs = pre ++ body := by
  simp only [Spec.array] at h
  obtain ⟨body, hb, h⟩ := Option.bind_eq_some_iff.1 h
  cases flex
  · simp only [Bool.false_eq_true, if_false] at h
    obtain ⟨l, hl, rfl⟩ := Option.map_eq_some_iff.1 h
    exact ⟨body, l, hb, by simp only [Spec.countPrefix, Bool.false_eq_true, if_false]; exact hl, rfl⟩
  · simp only [if_true] at h
    by_cases hc : vs.length + 1 < 2 ^ 35
    · rw [if_pos hc] at h
      have h := Option.some.inj h
      exact ⟨body, _, hb, by simp only [Spec.countPrefix, if_true, if_pos hc], h.symm⟩
    · rw [if_neg hc] at h; cases h

theorem cf_concatAll (e : Value → Option Bytes) (s : Schema) (vs : List Value)
    (hE : ∀ v ∈ vs, ∀ b, e v = some b → Conforms s v b) (body : Bytes)
    (h : Spec.concatAll e vs = some body) : ∃ bss, ConformsMany s vs bss ∧ body = bss.flatten := by
  induction vs generalizing body with
  | nil =>
    simp only [Spec.concatAll] at h
    have h := Option.some.inj h
    subst h
    exact ⟨[], .nil, rfl⟩
  | cons v vs ih =>
    simp only [Spec.concatAll] at h
    obtain ⟨a, ha, h⟩ := Option.bind_eq_some_iff.1 h
    obtain ⟨b, hb, h⟩ := Option.bind_eq_some_iff.1 h
    have h := Option.some.inj h
    subst h
    obtain ⟨bss, hM, rfl⟩ := ih (fun v hv => hE v (List.mem_cons_of_mem _ hv)) b hb
    exact ⟨a :: bss, .cons (hE v List.mem_cons_self a ha) hM, rfl⟩

/-! ### the induction over the class -/

def cf_PS (pat : Spec.ForeignPat) (s : Schema) : Prop :=
  ∀ v bs, Spec.Schema.distinctTags s = true → Spec.Schema.avoids (utags pat) s = true →
    Spec.structF pat s v = some bs → Conforms s v bs

def cf_PSh (pat : Spec.ForeignPat) (sh : Shape) : Prop :=
  ∀ flex tagged m v bs, Spec.Shape.distinctTags sh = true →
    Spec.Shape.avoids (utags pat) sh = true →
    Spec.fieldBytesF pat flex tagged m sh v = some bs → ConformsField flex tagged m sh v bs

def cf_PF (pat : Spec.ForeignPat) (f : Field) : Prop := cf_PSh pat f.shape

theorem cf_B_prim (pat : Spec.ForeignPat) (l : PyLeaf) (o : Bool) : cf_PSh pat (.prim l o) := by
  intro flex tagged m v bs _ _ he
  simp only [Spec.fieldBytesF] at he
  rcases opt_cases m.kafkaType with hk | ⟨k, hk⟩
  · rw [hk] at he; cases he
  · rw [hk] at he
    exact .prim hk he

theorem cf_B_primArr (pat : Spec.ForeignPat) (l : PyLeaf) (e a : Bool) :
    cf_PSh pat (.primArr l e a) := by
  intro flex tagged m v bs _ _ he
  simp only [Spec.fieldBytesF] at he
  rcases opt_cases m.kafkaType with hk | ⟨k, hk⟩
  · rw [hk] at he; cases he
  · rw [hk] at he
    exact .primArr hk he

theorem cf_B_ent (pat : Spec.ForeignPat) (s : Schema) (o : Bool) (ih : cf_PS pat s) :
    cf_PSh pat (.ent s o) := by
  intro flex tagged m v bs hd hav he
  simp only [Spec.Shape.distinctTags] at hd
  simp only [Spec.Shape.avoids] at hav
  simp only [Spec.fieldBytesF] at he
  cases hc : (o && !tagged)
  · rw [hc] at he
    simp only [Bool.false_eq_true, if_false] at he
    exact .ent hc (ih v bs hd hav he)
  · rw [hc] at he
    simp only [if_true] at he
    by_cases hv : v = .none
    · subst hv
      simp only at he
      have he := Option.some.inj he
      subst he
      exact .entNull hc
    · have he' : (Spec.structF pat s v).map (fun b => 1 :: b) = some bs := by
        cases v <;> first | exact absurd rfl hv | exact he
      obtain ⟨b, hb, rfl⟩ := Option.map_eq_some_iff.1 he'
      exact .entSome hc (ih v b hd hav hb)

theorem cf_B_entArr (pat : Spec.ForeignPat) (s : Schema) (a : Bool) (ih : cf_PS pat s) :
    cf_PSh pat (.entArr s a) := by
  intro flex tagged m v bs hd hav he
  simp only [Spec.Shape.distinctTags] at hd
  simp only [Spec.Shape.avoids] at hav
  simp only [Spec.fieldBytesF] at he
  cases v with
  | tuple vs =>
    obtain ⟨body, pre, hb, hpre, rfl⟩ := cf_array_tuple _ _ _ _ _ he
    obtain ⟨bss, hM, rfl⟩ := cf_concatAll _ s vs (fun v _ b hb => ih v b hd hav hb) body hb
    exact .entArr hpre hM
  | none =>
    simp only [Spec.array] at he
    cases hc : (a && !tagged)
    · rw [hc] at he; simp at he
    · rw [hc] at he
      simp only [if_true] at he
      exact .entArrNull hc he
  | _ => simp [Spec.array] at he

theorem cf_distinct_mem {fs : List Field} (h : Spec.Fields.distinctTags fs = true)
    {f : Field} (hf : f ∈ fs) : Spec.Field.distinctTags f = true := by
  induction fs with
  | nil => cases hf
  | cons a as ih =>
    simp only [Spec.Fields.distinctTags, Bool.and_eq_true] at h
    rcases List.mem_cons.mp hf with rfl | hf
    · exact h.1
    · exact ih h.2 hf

theorem cf_B_schema (pat : Spec.ForeignPat) (hpat : pat.ok = true) (n : Nat) (flex rh : Bool)
    (fs : List Field) (ih : ∀ f ∈ fs, cf_PF pat f) : cf_PS pat (.mk n flex rh fs) := by
  intro v bs hdist hav he
  have hent : ∃ vs, v = .entity vs := by
    cases v <;> first | exact ⟨_, rfl⟩ | (simp [Spec.structF] at he)
  obtain ⟨vs, rfl⟩ := hent
  simp only [Spec.Schema.distinctTags, Bool.and_eq_true, decide_eq_true_eq] at hdist
  obtain ⟨hnd, hdf⟩ := hdist
  rw [Spec.Schema.avoids] at hav
  have hFall : ∀ tagged : Bool, ∀ p ∈ fs.zip vs, ∀ b,
      Spec.fieldBytesF pat flex tagged p.1.meta p.1.shape p.2 = some b →
      ConformsField flex tagged p.1.meta p.1.shape p.2 b := by
    intro tagged p hp b hb
    have hmem := (List.of_mem_zip hp).1
    have h1 := cf_distinct_mem hdf hmem
    have h2 := Fields.avoids_mem hav hmem
    obtain ⟨⟨m, sh⟩, v⟩ := p
    simp only [Spec.Field.distinctTags] at h1
    simp only [Spec.Field.avoids, Bool.and_eq_true] at h2
    exact ih (.mk m sh) hmem flex tagged m v b h1 h2.2 hb
  rw [Spec.structF] at he
  obtain ⟨body, hbody, he⟩ := Option.bind_eq_some_iff.1 he
  have hU := cf_untaggedF pat flex rh fs vs (hFall false) body hbody
  cases flex
  · simp only [Bool.false_eq_true, if_false] at he
    have he := Option.some.inj he
    subst he
    exact .legacy hU
  · simp only [if_true] at he
    obtain ⟨es, hes, he⟩ := Option.bind_eq_some_iff.1 he
    obtain ⟨known, hK, rfl, hsub⟩ := cf_taggedEntriesF pat true fs vs (hFall true) es hes
    have hmap : known.map cf_g ++ Spec.unknownEntries pat = (known ++ pat.unknown).map cf_g := by
      rw [List.map_append]; rfl
    rw [hmap, cf_ascending_map] at he
    have hok := hpat
    unfold Spec.ForeignPat.ok at hok
    rw [Bool.and_eq_true, List.all_eq_true, decide_eq_true_eq] at hok
    have hunk : ∀ x ∈ pat.unknown,
        x.1 < 2 ^ 35 ∧ x.2.length < 2 ^ 35 ∧ x.1 ∉ Spec.declaredTags fs := by
      intro x hx
      have h12 := hok.2 x hx
      simp only [Bool.and_eq_true, decide_eq_true_eq] at h12
      refine ⟨h12.1, h12.2, ?_⟩
      intro hmem
      rw [cf_declaredTags, List.mem_filterMap] at hmem
      obtain ⟨f, hf, hft⟩ := hmem
      exact Field.avoids_tag (Fields.avoids_mem hav hf) hft (List.mem_map.2 ⟨x, hx, rfl⟩)
    have hnodup : ((known ++ pat.unknown).map (·.1)).Nodup := by
      rw [List.map_append, List.nodup_append]
      refine ⟨hsub.nodup hnd, hok.1, ?_⟩
      intro a ha b hb hab
      subst hab
      obtain ⟨x, hx, rfl⟩ := List.mem_map.1 hb
      exact (hunk x hx).2.2 (hsub.subset ha)
    by_cases hc : ((Spec.ascending (known ++ pat.unknown)).map cf_g).length < 2 ^ 35
    · rw [if_pos hc] at he
      have he := Option.some.inj he
      subst he
      have e2 : ((Spec.ascending (known ++ pat.unknown)).map cf_g).map (·.2)
          = (Spec.ascending (known ++ pat.unknown)).map (fun x => Spec.taggedEntry x.1 x.2) := by
        rw [List.map_map]; rfl
      rw [List.length_map] at hc ⊢
      rw [e2]
      exact .flexible hU hK hunk (cf_ascending_perm _)
        (List.pairwise_map.2 (cf_ascending_sorted _ hnodup)) hc
    · rw [if_neg hc] at he; cases he

theorem cf_encForeign_all (pat : Spec.ForeignPat) (hpat : pat.ok = true) : ∀ s, cf_PS pat s :=
  Schema.induct3 (PS := cf_PS pat) (PF := cf_PF pat) (PSh := cf_PSh pat)
    (cf_B_schema pat hpat) (fun _ _ h => h) (cf_B_prim pat) (cf_B_primArr pat)
    (cf_B_ent pat) (cf_B_entArr pat)
    (by intro flex tagged m v bs _ _ he; simp [Spec.fieldBytesF] at he)

/-! ### coherent classes declare distinct tags -/

theorem cf_wf_distinct (env : Env) : ∀ s : Schema, s.wf env = true →
    Spec.Schema.distinctTags s = true :=
  Schema.induct3 (PS := fun s => s.wf env = true → Spec.Schema.distinctTags s = true)
    (PF := fun f => ∀ flex rh, Field.wf env flex rh f = true → Spec.Field.distinctTags f = true)
    (PSh := fun sh => ∀ flex m, Shape.wf env flex m sh = true → Spec.Shape.distinctTags sh = true)
    (by
      intro n flex rh fs ih hwf
      simp only [Schema.wf, Bool.and_eq_true] at hwf
      obtain ⟨⟨hfs, hany⟩, hdup⟩ := hwf
      clear hany
      have hn : (fs.filterMap Field.tagNat).Nodup := by
        simpa [dupTags] using hdup
      simp only [Spec.Schema.distinctTags, Bool.and_eq_true, decide_eq_true_eq]
      refine ⟨by rw [cf_declaredTags]; exact hn, ?_⟩
      clear hn hdup
      induction fs with
      | nil => rfl
      | cons f fs ihf =>
        simp only [Fields.wf, Bool.and_eq_true] at hfs
        simp only [Spec.Fields.distinctTags, Bool.and_eq_true]
        exact ⟨ih f List.mem_cons_self flex rh hfs.1,
          ihf (fun g hg => ih g (List.mem_cons_of_mem _ hg)) hfs.2⟩)
    (by
      intro m sh ih flex rh hwf
      obtain ⟨_, hsh, _⟩ := Field.wf_elim hwf
      simp only [Spec.Field.distinctTags]
      cases hc : (rh && m.isClientId) <;> rw [hc] at hsh <;>
        simp only [Bool.false_eq_true, if_false, if_true] at hsh
      · exact ih flex m hsh
      · obtain ⟨_, l, o, rfl, _⟩ := hsh
        rfl)
    (by intro l o flex m _; rfl)
    (by intro l e a flex m _; rfl)
    (by
      intro s o ih flex m hwf
      simp only [Shape.wf, Bool.and_eq_true] at hwf
      simp only [Spec.Shape.distinctTags]
      exact ih hwf.2)
    (by
      intro s a ih flex m hwf
      simp only [Shape.wf, Bool.and_eq_true] at hwf
      simp only [Spec.Shape.distinctTags]
      exact ih hwf.1.2)
    (by intro flex m _; rfl)

end Kio
