import Kio.Proofs.ConformsRead
import Kio.Proofs.ConformsForeign
/-!
# The reader accepts every conforming encoding (C03, relational form)

* (A) `Kio.Schema.accepts_conforming` : every `bs` with `Spec.Conforms s w bs` decodes to exactly
  `w` and is consumed exactly;
* (B) `Spec.encForeign_conforms` : the executable family `Spec.encForeign` is included in the
  relation — so `Kio.Schema.accepts_foreign` is a corollary (`accepts_foreign_of_conforming`);
* (C) non-vacuity (an encoding mixing choices per occurrence, not of the form `encForeign`) and
  discrimination (descending tags do not conform).
-/
namespace Kio
open Spec (Conforms ConformsUntagged ConformsTagged ConformsField ConformsMany)

/-- **(A)** the reader accepts every conforming encoding -/
theorem Schema.accepts_conforming (env : Env) (ht : env.time = TimeCfg.repaired)
    (hskip : env.skipUnknownTags = true) (hnull : env.nullableTaggedReader = true)
    (s : Schema) (hwf : s.wf env = true) (w : Value) (hw : s.valueOk env w = true) (bs : Bytes)
    (h : Spec.Conforms s w bs) (rest : Bytes) :
    s.read env (bs ++ rest) = .ok (w, rest) :=
  cf_accepts env ht hskip hnull h hwf hw rest

/-- **(B)**, general form: the side condition is that no reachable class declares a tag twice
    (otherwise `encForeign` emits a tagged section with a repeated tag, which is not legal) -/
theorem Spec.encForeign_conforms_of_distinct (pat : Spec.ForeignPat) (hpat : pat.ok = true)
    (s : Schema) (hdist : Spec.Schema.distinctTags s = true)
    (havoid : Spec.Schema.avoids (pat.unknown.map (·.1)) s = true)
    (v : Value) (bs : Bytes) (h : Spec.encForeign pat s v = some bs) : Spec.Conforms s v bs :=
  cf_encForeign_all pat hpat s v bs hdist havoid h

/-- **(B)** every encoding of the uniform family is conforming (for a coherent class) -/
theorem Spec.encForeign_conforms (env : Env) (pat : Spec.ForeignPat) (hpat : pat.ok = true)
    (s : Schema) (hwf : s.wf env = true)
    (havoid : Spec.Schema.avoids (pat.unknown.map (·.1)) s = true)
    (v : Value) (bs : Bytes) (h : Spec.encForeign pat s v = some bs) : Spec.Conforms s v bs :=
  Spec.encForeign_conforms_of_distinct pat hpat s (cf_wf_distinct env s hwf) havoid v bs h

/-- the old theorem is a corollary of (A) and (B) -/
theorem Schema.accepts_foreign_of_conforming (env : Env) (ht : env.time = TimeCfg.repaired)
    (hskip : env.skipUnknownTags = true) (hnull : env.nullableTaggedReader = true)
    (pat : Spec.ForeignPat) (hpat : pat.ok = true)
    (s : Schema) (hwf : s.wf env = true)
    (havoid : Spec.Schema.avoids (pat.unknown.map (·.1)) s = true)
    (w : Value) (hw : s.valueOk env w = true) (bs : Bytes)
    (h : Spec.encForeign pat s w = some bs) (rest : Bytes) :
    s.read env (bs ++ rest) = .ok (w, rest) :=
  Schema.accepts_conforming env ht hskip hnull s hwf w hw bs
    (Spec.encForeign_conforms env pat hpat s hwf havoid w bs h) rest

end Kio

/-! ## (C) non-vacuity and discrimination -/

namespace Kio.ConformsExample
open Kio Kio.Spec

def env0 : Env := { errorCodes := [], time := TimeCfg.repaired, skipUnknownTags := true, nullableTaggedReader := true }

abbrev tagMeta : FieldMeta := ⟨0, false, some .int32, some 0, .val (.int 0), false⟩
abbrev arrMeta : FieldMeta := ⟨1, false, none, none, .missing, false⟩
/-- `class Inner: x: i32 = field(metadata={"tag": 0}, default=0)` (flexible) -/
abbrev inner : Schema := .mk 1 true false [.mk tagMeta (.prim ⟨.i32, false⟩ false)]
/-- `class Outer: items: tuple[Inner, ...]` (flexible) -/
abbrev outer : Schema := .mk 0 true false [.mk arrMeta (.entArr inner false)]
abbrev elem : Value := .entity [.int 0]
abbrev value : Value := .entity [.tuple [elem, elem]]

theorem cf_uvarint_small (n : Nat) (h : n < 128) : Spec.uvarint n = [n.toUInt8] := by
  rw [Spec.uvarint, if_pos h]

/-- first element: the default `x = 0` sent explicitly -/
theorem elem_sent : Conforms inner elem [1, 0, 4, 0, 0, 0, 0] := by
  have h : Conforms inner elem ([] ++ uvarint [((0:Nat), ([0,0,0,0] : Bytes))].length
      ++ ([((0:Nat), ([0,0,0,0] : Bytes))].map (fun x => taggedEntry x.1 x.2)).flatten) :=
    .flexible (known := [(0, [0,0,0,0])]) (unknown := []) (.tagged rfl .nil)
      (.present (t := 0) rfl (by decide) (.prim (k := .int32) rfl (by decide)) (by decide) .nil)
      (by intro x hx; cases hx) (List.Perm.refl _) (by simp) (by decide)
  simpa [taggedEntry, cf_uvarint_small] using h

theorem elem_omitted : Conforms inner elem [0] := by
  have h : Conforms inner elem ([] ++ uvarint ([] : List (Nat × Bytes)).length
      ++ (([] : List (Nat × Bytes)).map (fun x => taggedEntry x.1 x.2)).flatten) :=
    .flexible (known := []) (unknown := []) (.tagged rfl .nil)
      (.omitted (t := 0) (d := .int 0) rfl rfl (by decide) .nil)
      (by intro x hx; cases hx) (List.Perm.refl _) (by simp) (by decide)
  simpa [cf_uvarint_small] using h

abbrev exampleBytes : Bytes := [3, 1, 0, 4, 0, 0, 0, 0, 0, 1, 7, 1, 0xAA]

theorem example_conforms : Conforms outer value exampleBytes := by
  have hpre : countPrefix true [elem, elem].length = some [3] := by
    simp [countPrefix, cf_uvarint_small]
  have h : Conforms outer value
      ((([3] ++ [[1, 0, 4, 0, 0, 0, 0], [0]].flatten) ++ [])
        ++ uvarint [((7:Nat), ([0xAA] : Bytes))].length
        ++ ([((7:Nat), ([0xAA] : Bytes))].map (fun x => taggedEntry x.1 x.2)).flatten) :=
    .flexible (known := []) (unknown := [(7, [0xAA])])
      (.field rfl rfl (.entArr hpre (.cons elem_sent (.cons elem_omitted .nil))) .nil)
      (.untagged rfl .nil)
      (by
        intro x hx
        rw [List.mem_singleton] at hx
        subst hx
        exact ⟨by decide, by decide, by simp [declaredTags]⟩)
      (List.Perm.refl _) (by simp) (by decide)
  simpa [taggedEntry, cf_uvarint_small] using h

theorem outer_wf : outer.wf env0 = true := by decide
theorem value_ok : outer.valueOk env0 value = true := by
  simp [Schema.valueOk, Fields.valueOk, Field.valueOk, Shape.valueOk, Values.allOk, primValueOk,
    KType.isFixedInt, Field.taggedDefault, Value.pyEq, Value.beq, Except.toOption]

theorem example_decodes : outer.read env0 exampleBytes = .ok (value, []) := by
  have h := Kio.Schema.accepts_conforming env0 rfl rfl rfl outer outer_wf value value_ok
    exampleBytes example_conforms []
  rwa [List.append_nil] at h



/-! ### this encoding is not in the uniform family -/

theorem cf_uvarint_length_pos (n : Nat) : 0 < (uvarint n).length := by
  rw [Spec.uvarint]
  split <;> simp

theorem cf_structF_inner_ne (pat : ForeignPat) (e : Bytes) (h : structF pat inner elem = some e) :
    e ≠ [] := by
  rw [Spec.structF] at h
  obtain ⟨body, hbody, h⟩ := Option.bind_eq_some_iff.1 h
  simp only [if_true] at h
  obtain ⟨es, hes, h⟩ := Option.bind_eq_some_iff.1 h
  split at h
  · have h := Option.some.inj h
    subst h
    intro hnil
    have hl := congrArg List.length hnil
    have := cf_uvarint_length_pos (ascending (es ++ unknownEntries pat)).length
    simp only [List.length_append, List.length_nil] at hl
    omega
  · cases h

theorem cf_no_square (e T : Bytes) (hne : e ≠ [])
    (h : e ++ (e ++ T) = [1, 0, 4, 0, 0, 0, 0, 0, 1, 7, 1, 0xAA]) : False := by
  match e, hne, h with
  | [], hne, _ => exact hne rfl
  | [a], _, h =>
    simp at h
    obtain ⟨h1, h2, _⟩ := h
    rw [h1] at h2; exact absurd h2 (by decide)
  | [a, b], _, h =>
    simp at h
    obtain ⟨h1, _, h2, _⟩ := h
    rw [h1] at h2; exact absurd h2 (by decide)
  | [a, b, c], _, h =>
    simp at h
    obtain ⟨h1, _, _, h2, _⟩ := h
    rw [h1] at h2; exact absurd h2 (by decide)
  | [a, b, c, d], _, h =>
    simp at h
    obtain ⟨h1, _, _, _, h2, _⟩ := h
    rw [h1] at h2; exact absurd h2 (by decide)
  | [a, b, c, d, f], _, h =>
    simp at h
    obtain ⟨h1, _, _, _, _, h2, _⟩ := h
    rw [h1] at h2; exact absurd h2 (by decide)
  | [a, b, c, d, f, g], _, h =>
    simp at h
    obtain ⟨h1, _, _, _, _, _, h2, _⟩ := h
    rw [h1] at h2; exact absurd h2 (by decide)
  | a :: b :: c :: d :: f :: g :: i :: r, _, h =>
    have hl := congrArg List.length h
    simp at hl
    omega

theorem example_not_uniform (pat : ForeignPat) : encForeign pat outer value ≠ some exampleBytes := by
  intro h
  unfold encForeign at h
  rw [Spec.structF] at h
  obtain ⟨body, hbody, h⟩ := Option.bind_eq_some_iff.1 h
  simp only [if_true] at h
  obtain ⟨es, _, h⟩ := Option.bind_eq_some_iff.1 h
  simp only [Spec.untaggedF, Spec.fieldBytesF, Spec.array, Spec.concatAll] at hbody
  rcases opt_cases (structF pat inner elem) with he | ⟨e, he⟩
  · rw [he] at hbody
    simp at hbody
  · have hne := cf_structF_inner_ne pat e he
    rw [he] at hbody
    simp [cf_uvarint_small] at hbody
    subst hbody
    split at h
    · have h := Option.some.inj h
      simp only [List.cons_append, List.append_assoc, List.cons.injEq,
        true_and] at h
      exact cf_no_square e _ hne h
    · cases h

/-! ### discrimination: descending tags do not conform -/

theorem cf_uvarint_head (n : Nat) (rest : Bytes) (b : UInt8) (tail : Bytes)
    (h : uvarint n ++ rest = b :: tail) (hb : b.toNat < 128) : n = b.toNat ∧ rest = tail := by
  rw [Spec.uvarint] at h
  by_cases hn : n < 128
  · rw [if_pos hn] at h
    simp only [List.singleton_append, List.cons.injEq] at h
    refine ⟨?_, h.2⟩
    rw [← h.1, toUInt8_toNat_lt (by omega)]
  · rw [if_neg hn] at h
    simp only [List.cons_append, List.cons.injEq] at h
    exfalso
    rw [← h.1, toUInt8_toNat_lt (by omega)] at hb
    omega

/-- `class Empty` (flexible, no fields) -/
abbrev emptyClass : Schema := .mk 0 true false []

/-- two (unknown) entries with empty payloads, tag 2 before tag 1 -/
abbrev descendingBytes : Bytes := [2, 2, 0, 1, 0]

/-- the same two entries in ascending order do conform -/
theorem ascending_conforms : Conforms emptyClass (.entity []) [2, 1, 0, 2, 0] := by
  have h : Conforms emptyClass (.entity [])
      ([] ++ uvarint [((1:Nat), ([] : Bytes)), (2, [])].length
        ++ ([((1:Nat), ([] : Bytes)), (2, [])].map (fun x => taggedEntry x.1 x.2)).flatten) :=
    .flexible (known := []) (unknown := [(1, []), (2, [])]) .nil .nil
      (by
        intro x hx
        simp only [List.mem_cons, List.not_mem_nil, or_false] at hx
        rcases hx with rfl | rfl <;> exact ⟨by decide, by decide, by simp [declaredTags]⟩)
      (List.Perm.refl _) (by simp) (by decide)
  simpa [taggedEntry, cf_uvarint_small] using h

theorem descending_not_conforms : ¬ Conforms emptyClass (.entity []) descendingBytes := by
  intro h
  generalize hb : descendingBytes = bs at h
  cases h with
  | flexible hbody hknown hunknown hperm hasc hcount =>
    rename_i body known unknown entries
    cases hbody
    obtain ⟨hn, hb⟩ := cf_uvarint_head _ _ _ _ (by simpa using hb.symm) (by decide)
    match entries, hasc, hn, hb with
    | [x, y], hasc, _, hb =>
      simp only [List.map_cons, List.map_nil, List.flatten_cons, List.flatten_nil, taggedEntry,
        List.append_assoc, List.append_nil] at hb
      obtain ⟨hx1, hb⟩ := cf_uvarint_head _ _ _ _ hb (by decide)
      obtain ⟨hx2, hb⟩ := cf_uvarint_head _ _ _ _ hb (by decide)
      have hx3 : x.2 = [] := List.eq_nil_of_length_eq_zero hx2
      rw [hx3, List.nil_append] at hb
      obtain ⟨hy1, _⟩ := cf_uvarint_head _ _ _ _ hb (by decide)
      simp only [List.map_cons, List.map_nil, List.pairwise_cons, List.mem_singleton,
        forall_eq] at hasc
      have := hasc.1
      rw [hx1, hy1] at this
      exact absurd this (by decide)
    | [], _, hn, _ => exact absurd hn (by decide)
    | [_], _, hn, _ => exact absurd hn (by simp)
    | _ :: _ :: _ :: _, _, hn, _ => simp at hn


/-! ### (B) needs its side condition: a class declaring tag 0 twice -/

abbrev dupMeta (i : Nat) : FieldMeta := ⟨i, false, some .int8, some 0, .val (.int 0), false⟩
/-- `class Dup: a: i8 = field(metadata={"tag": 0}, default=0); b: i8 = field(metadata={"tag": 0}, default=0)` -/
abbrev dupClass : Schema :=
  .mk 0 true false [.mk (dupMeta 0) (.prim ⟨.i8, false⟩ false), .mk (dupMeta 1) (.prim ⟨.i8, false⟩ false)]
abbrev dupValue : Value := .entity [.int 1, .int 2]

/-- no encoding of `Dup(a=1, b=2)` conforms: both fields must be sent, with the same tag -/
theorem dup_not_conforms (bs : Bytes) : ¬ Conforms dupClass dupValue bs := by
  intro h
  cases h with
  | flexible hbody hknown hunknown hperm hasc hcount =>
    have hnd : ∀ (entries L : List (Nat × Bytes)) (p q : Bytes), entries.Perm ((0, p) :: (0, q) :: L) →
        (entries.map (·.1)).Pairwise (· < ·) → False := by
      intro entries L p q hperm hasc
      have h1 : (entries.map (·.1)).Nodup := hasc.imp (fun h => Nat.ne_of_lt h)
      have h2 := (hperm.map (·.1)).nodup_iff.1 h1
      simp at h2
    cases hknown with
    | untagged htag _ => cases htag
    | omitted htag hd heq _ =>
      simp [defaultOfField] at hd
      subst hd
      simp [Value.pyEq] at heq
    | present htag ht hp hlen hrest =>
      cases hrest with
      | untagged htag _ => cases htag
      | omitted htag hd heq _ =>
        simp [defaultOfField] at hd
        subst hd
        simp [Value.pyEq] at heq
      | present htag2 ht2 hp2 hlen2 hrest2 =>
        cases htag
        cases htag2
        exact hnd _ _ _ _ hperm hasc

theorem dup_encForeign :
    encForeign ⟨false, []⟩ dupClass dupValue = some [2, 0, 1, 1, 0, 1, 2] := by
  have e1 : intBE 1 true 1 = some [1] := by decide
  have e2 : intBE 1 true 2 = some [2] := by decide
  have e3 : (Value.int 1).pyEq (.int 0) = false := by decide
  have e4 : (Value.int 2).pyEq (.int 0) = false := by decide
  simp [encForeign, structF, untaggedF, taggedEntriesF, fieldBytesF, defaultOfField, e3, e4,
    prim, e1, e2, taggedEntry, cf_uvarint_small, ascending, insertAsc, unknownEntries]

end Kio.ConformsExample

namespace Kio

/-- without its side condition (B) is false: for a class declaring tag 0 twice `encForeign` emits
    an encoding (two entries with tag 0) that does not conform -/
theorem Spec.encForeign_conforms_needs_distinct :
    ∃ (pat : Spec.ForeignPat) (s : Schema) (v : Value) (bs : Bytes), pat.ok = true ∧
      Spec.Schema.avoids (pat.unknown.map (·.1)) s = true ∧ Spec.encForeign pat s v = some bs ∧
      ¬ Spec.Conforms s v bs :=
  ⟨⟨false, []⟩, ConformsExample.dupClass, ConformsExample.dupValue, _, by decide, by decide,
    ConformsExample.dup_encForeign, ConformsExample.dup_not_conforms _⟩

end Kio
