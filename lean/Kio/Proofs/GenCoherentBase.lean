import Kio.Proofs.GenSpec
import Kio.Gen.Supported
/-!
Infrastructure for `Kio.Proofs.GenCoherent` (C16): the structures of a definition as
(name, field list) pairs, what `Supported` says about the field lists the generator walks, and the
fact that a supported definition never yields two classes of the same name.
-/
namespace Kio.Gen
open Kio

/-! ## the structures of a definition, with their field lists -/

/-- the structure a type names -/
def FType.sname : FType → List (List Nat)
  | .struct n => [n]
  | .structArr n => [n]
  | _ => []

mutual
/-- `FieldDef.inlineNames`, with the field lists -/
def FieldDef.structs : FieldDef → List (List Nat × List FieldDef)
  | .mk _ _ _ _ _ _ _ _ _ none => []
  | .mk _ t _ _ _ _ _ _ _ (some fs) => (FType.sname t).map (fun n => (n, fs)) ++ structsL fs
def structsL : List FieldDef → List (List Nat × List FieldDef)
  | [] => []
  | f :: fs => FieldDef.structs f ++ structsL fs
end

/-- `MsgDef.structNames`, with the field lists -/
def MsgDef.structs (d : MsgDef) : List (List Nat × List FieldDef) :=
  (d.name, d.fields) :: (d.commonStructs.map (fun cs => (cs.name, cs.fields))
    ++ structsL d.fields ++ (d.commonStructs.map (fun cs => structsL cs.fields)).flatten)

mutual
theorem coh_structs_names : ∀ f : FieldDef, (FieldDef.structs f).map (·.1) = FieldDef.inlineNames f
  | .mk _ _ _ _ _ _ _ _ _ none => by rw [FieldDef.structs, FieldDef.inlineNames]; rfl
  | .mk _ t _ _ _ _ _ _ _ (some fs) => by
    rw [FieldDef.structs, List.map_append, coh_structsL_names fs]
    cases t <;> simp [FieldDef.inlineNames, FType.sname]
theorem coh_structsL_names : ∀ fs : List FieldDef, (structsL fs).map (·.1) = inlineNamesL fs
  | [] => by rw [structsL, inlineNamesL]; rfl
  | f :: fs => by
    rw [structsL, inlineNamesL, List.map_append, coh_structs_names f, coh_structsL_names fs]
end

theorem coh_msg_structs_names (d : MsgDef) : d.structs.map (·.1) = d.structNames := by
  unfold MsgDef.structs MsgDef.structNames
  simp only [List.map_cons, List.map_append, List.map_map, List.map_flatten, coh_structsL_names]
  congr 3
  apply List.map_congr_left
  intro cs _
  exact coh_structsL_names cs.fields

theorem coh_fun_of_nodup {α β : Type} : ∀ {l : List (α × β)}, (l.map (·.1)).Nodup →
    ∀ {a : α} {b b' : β}, (a, b) ∈ l → (a, b') ∈ l → b = b'
  | [], _, _, _, _, h, _ => by cases h
  | (x, y) :: l, hnd, a, b, b', h1, h2 => by
    rw [List.map_cons, List.nodup_cons] at hnd
    rcases List.mem_cons.1 h1 with e1 | h1 <;> rcases List.mem_cons.1 h2 with e2 | h2
    · cases e1; cases e2; rfl
    · cases e1; exact absurd (List.mem_map_of_mem (f := (·.1)) h2) hnd.1
    · cases e2; exact absurd (List.mem_map_of_mem (f := (·.1)) h1) hnd.1
    · exact coh_fun_of_nodup hnd.2 h1 h2

/-- every inline structure below `fs` is a structure of `d` -/
def SubS (d : MsgDef) (fs : List FieldDef) : Prop := ∀ p ∈ structsL fs, p ∈ d.structs

theorem SubS.top (d : MsgDef) : SubS d d.fields := by
  intro p hp
  unfold MsgDef.structs
  simp only [List.mem_cons, List.mem_append]
  exact Or.inr (Or.inl (Or.inr hp))

theorem coh_cs_mem {d : MsgDef} {cs : CommonStruct} (h : cs ∈ d.commonStructs) :
    (cs.name, cs.fields) ∈ d.structs := by
  unfold MsgDef.structs
  simp only [List.mem_cons, List.mem_append, List.mem_map]
  exact Or.inr (Or.inl (Or.inl ⟨cs, h, rfl⟩))

theorem coh_top_mem (d : MsgDef) : (d.name, d.fields) ∈ d.structs := by
  unfold MsgDef.structs
  exact List.mem_cons_self

theorem SubS.cs {d : MsgDef} {cs : CommonStruct} (h : cs ∈ d.commonStructs) : SubS d cs.fields := by
  intro p hp
  unfold MsgDef.structs
  simp only [List.mem_cons, List.mem_append, List.mem_flatten, List.mem_map]
  exact Or.inr (Or.inr ⟨_, ⟨cs, h, rfl⟩, hp⟩)

theorem SubS.rest {d : MsgDef} {f : FieldDef} {rest : List FieldDef} (h : SubS d (f :: rest)) :
    SubS d rest := by
  intro p hp
  apply h
  rw [structsL]
  exact List.mem_append_right _ hp

theorem SubS.sub {d : MsgDef} {f : FieldDef} {rest sub : List FieldDef} (h : SubS d (f :: rest))
    (hs : f.fields = some sub) : SubS d sub := by
  intro p hp
  apply h
  rw [structsL]
  apply List.mem_append_left
  cases f with
  | mk n t vs nu tg tag dflt ign ent fields =>
    simp only [FieldDef.fields] at hs
    subst hs
    rw [FieldDef.structs]
    exact List.mem_append_right _ hp

theorem SubS.here {d : MsgDef} {f : FieldDef} {rest sub : List FieldDef} {n : List Nat}
    (h : SubS d (f :: rest)) (hs : f.fields = some sub) (ht : f.ty = .struct n ∨ f.ty = .structArr n) :
    (n, sub) ∈ d.structs := by
  apply h
  rw [structsL]
  apply List.mem_append_left
  cases f with
  | mk n' t vs nu tg tag dflt ign ent fields =>
    simp only [FieldDef.fields] at hs
    simp only [FieldDef.ty] at ht
    subst hs
    rw [FieldDef.structs]
    apply List.mem_append_left
    rcases ht with rfl | rfl <;> simp [FType.sname]

theorem coh_sub_of_variant {d : MsgDef} {f : FieldDef} {rest : List FieldDef} {var : Variant} {n : List Nat}
    {fs : List FieldDef} (h : VariantInfo d f var) (hs : var.sub = some (n, fs))
    (hr : SubS d (f :: rest)) : SubS d fs ∧ (n, fs) ∈ d.structs := by
  cases var <;> simp only [VariantInfo] at h <;> simp only [Variant.sub, Option.some.injEq, Prod.mk.injEq] at hs
  · cases hs
  · cases hs
  · obtain ⟨rfl, rfl⟩ := hs; exact ⟨hr.sub h.2, hr.here h.2 (Or.inr h.1)⟩
  · obtain ⟨rfl, rfl⟩ := hs; exact ⟨hr.sub h.2, hr.here h.2 (Or.inl h.1)⟩
  · obtain ⟨rfl, rfl⟩ := hs
    have := List.mem_of_find?_eq_some h.2.2
    exact ⟨SubS.cs this, coh_cs_mem this⟩
  · obtain ⟨rfl, rfl⟩ := hs
    have := List.mem_of_find?_eq_some h.2.2
    exact ⟨SubS.cs this, coh_cs_mem this⟩

/-! ## `MsgDef.everywhere` is `MsgDef.allFields` -/

mutual
theorem coh_everywhere_allSub (P : FieldDef → Bool) : ∀ f : FieldDef,
    FieldDef.everywhere P f = true → f.allSub P = true
  | .mk n t vs nu tg tag dflt ign ent none, h => by
    rw [FieldDef.everywhere] at h
    rw [FieldDef.allSub, h]; rfl
  | .mk n t vs nu tg tag dflt ign ent (some fs), h => by
    rw [FieldDef.everywhere, Bool.and_eq_true] at h
    rw [FieldDef.allSub, h.1, allSubO, coh_everywhereL_allSubL P fs h.2]; rfl
theorem coh_everywhereL_allSubL (P : FieldDef → Bool) : ∀ fs : List FieldDef,
    FieldDef.everywhere.everywhereL P fs = true → allSubL P fs = true
  | [], _ => by rw [allSubL]
  | f :: fs, h => by
    rw [FieldDef.everywhere.everywhereL, Bool.and_eq_true] at h
    rw [allSubL, coh_everywhere_allSub P f h.1, coh_everywhereL_allSubL P fs h.2]; rfl
end

theorem coh_everywhere_allFields {d : MsgDef} {P : FieldDef → Bool} (h : d.everywhere P = true) :
    d.allFields P = true := by
  rw [MsgDef.everywhere, Bool.and_eq_true, List.all_eq_true] at h
  rw [MsgDef.allFields, Bool.and_eq_true, List.all_eq_true]
  exact ⟨coh_everywhereL_allSubL P _ h.1, fun cs hcs => coh_everywhereL_allSubL P _ (h.2 cs hcs)⟩

/-! ## what `Supported` provides -/

/-- the per-field condition of `Supported` -/
def visOk (d : MsgDef) (v : Nat) (f : FieldDef) : Bool :=
  !f.versions.matches v || (fieldOk d v f && membersOk d v f)

structure SupInfo (d : MsgDef) (v : Nat) : Prop where
  nodup : (d.structs.map (·.1)).Nodup
  topOk : structOk v false d.fields = true
  topName : isRequestHeaderName d.name = false
  csOk : ∀ cs ∈ d.commonStructs, structOk v true cs.fields = true ∧ isRequestHeaderName cs.name = false
  all : d.allFields (visOk d v) = true

theorem coh_supInfo {d : MsgDef} {v : Nat} (h : Supported d v = true) : SupInfo d v := by
  unfold Supported at h
  simp only [Bool.and_eq_true, decide_eq_true_eq, List.all_eq_true, Bool.not_eq_eq_eq_not, Bool.not_true] at h
  obtain ⟨⟨⟨⟨⟨⟨_, h2⟩, h3⟩, h4⟩, h5⟩, h6⟩, _⟩ := h
  refine ⟨by rw [coh_msg_structs_names]; exact h3, h4, h2, h5, ?_⟩
  exact coh_everywhere_allFields h6

theorem SupInfo.fun_ {d : MsgDef} {v : Nat} (h : SupInfo d v) {n : List Nat} {fs fs' : List FieldDef}
    (h1 : (n, fs) ∈ d.structs) (h2 : (n, fs') ∈ d.structs) : fs = fs' :=
  coh_fun_of_nodup h.nodup h1 h2

end Kio.Gen
