import Kio.Proofs.GenCoherentBase
import Kio.Proofs.SpecEq
/-!
Per-field lemmas for `Kio.Proofs.GenCoherent`: a field generated from a definition field that
satisfies `fieldOk` is coherent (`Field.wf`) and has the default the definition states.
-/
namespace Kio.Gen
open Kio

/-! ## primitive types -/

def coh_goodK : KType → Bool
  | .unknown | .notStr => false
  | _ => true

theorem coh_primKind_good (name : List Nat) (p : PrimT) : coh_goodK (DefSpec.primKind name p).1 = true := by
  unfold DefSpec.primKind
  split
  · rfl
  · split
    · cases p <;> rfl
    · split
      · rfl
      · cases p <;> rfl

theorem coh_resolvePrim_good {name : List Nat} {p : PrimT} {k : KType} {n : List Nat}
    (h : resolvePrim name p = .ok (k, n)) : coh_goodK k = true := by
  have := coh_primKind_good name p
  rw [resolvePrim_primKind h] at this
  exact this

theorem coh_ktypeOfPrimT_good (p : PrimT) : coh_goodK (ktypeOfPrimT p) = true := by cases p <;> rfl

theorem coh_reader_ok (k : KType) (flex o tg b : Bool) (hk : coh_goodK k = true)
    (ho : (!o || k.hasNull || tg) = true) :
    (getReader k flex (o && (!tg || (b && (getReader k flex true).toOption.isSome)))).toOption.isSome = true := by
  cases k <;> cases o <;> cases tg <;> cases flex <;> cases b <;>
    first | rfl | exact absurd ho (by decide) | exact absurd hk (by decide)

theorem coh_writer_ok (k : KType) (flex o tg : Bool) (hk : coh_goodK k = true)
    (ho : (!o || k.hasNull || tg) = true) :
    (getWriter k flex (!tg && o)).toOption.isSome = true := by
  cases k <;> cases o <;> cases tg <;> cases flex <;>
    first | rfl | exact absurd ho (by decide) | exact absurd hk (by decide)

theorem coh_leaf_ok (k : KType) (c : Bool) (hk : coh_goodK k = true) :
    leafMatches k ⟨baseOfKType k, c⟩ = true := by
  cases k <;> first | rfl | exact absurd hk (by decide)

theorem coh_implicit_ok (env : Env) (ht : env.time = TimeCfg.repaired) (k : KType) (c : Bool)
    (hz : hasZero k = true) : (implicitDefault env ⟨baseOfKType k, c⟩).toOption.isSome = true := by
  cases k <;> first | rfl | exact absurd hz (by decide) | skip
  show (tzAwareFromI64 env.time 0).toOption.isSome = true
  rw [ht, tzAware_repaired 0 (by omega) (by omega)]; rfl

theorem coh_mkMeta_eq (c : Bool) (kt : Option KType) (tag : Option Nat) (dd : Dflt) :
    mkMeta c kt tag dd = ⟨0, c, kt, tag.map Int.ofNat, dd, false⟩ := by
  cases tag <;> rfl

theorem coh_tagOk (tag : Option Nat) (htag : ∀ t, tag = some t → t < 2 ^ 35) :
    tagOk (tag.map Int.ofNat) = true := by
  cases tag with
  | none => rfl
  | some t =>
    have := htag t rfl
    simp only [Option.map_some, tagOk, Bool.and_eq_true, decide_eq_true_eq]
    constructor
    · show (0 : Int) ≤ (t : Int); omega
    · show (t : Int) < 2 ^ 35; omega

theorem coh_prim_wf (env : Env) (ht : env.time = TimeCfg.repaired) (k : KType) (flex c custom o : Bool)
    (tag : Option Nat) (x : Option Value)
    (hk : coh_goodK k = true) (htag : ∀ t, tag = some t → t < 2 ^ 35)
    (ho : (!o || k.hasNull || tag.isSome) = true) (hu : (k != .uuid || o) = true)
    (hd : tag.isSome = true → x.isSome = true ∨ (o = false ∧ hasZero k = true)) :
    Field.wf env flex false (.mk (mkMeta c (some k) tag (dfltOf x)) (.prim ⟨baseOfKType k, custom⟩ o)) = true := by
  rw [coh_mkMeta_eq]
  simp only [Field.wf, Shape.wf, Option.isSome_map, Option.isNone_map]
  have h1 := coh_tagOk tag htag
  have h2 := coh_leaf_ok k custom hk
  have h3 : (getReader k flex (readerOptional env k flex o tag.isSome)).toOption.isSome = true :=
    coh_reader_ok k flex o tag.isSome env.nullableTaggedReader hk ho
  have h4 := coh_writer_ok k flex o tag.isSome hk ho
  have h6 : (tag.isNone || (Field.taggedDefault env (Field.mk
        { nameId := 0, isClientId := c, kafkaType := some k, tag := Option.map Int.ofNat tag,
          dflt := dfltOf x, extraMeta := false }
        (Shape.prim { base := baseOfKType k, isSub := custom } o))).toOption.isSome) = true := by
    cases tag with
    | none => rfl
    | some t =>
      rcases hd rfl with hx | ⟨rfl, hz⟩
      · cases x with
        | none => cases hx
        | some w => rfl
      · cases x with
        | some w => rfl
        | none =>
          simp only [Option.isNone_some, Bool.false_or]
          exact coh_implicit_ok env ht k custom hz
  simp only [h1, h2, h3, h4, h6, ho, hu, Bool.false_and, Bool.false_eq_true, if_false, Bool.not_false,
    Bool.and_self]
  cases x <;> rfl

theorem coh_primArr_wf (env : Env) (p : PrimT) (flex c custom : Bool) (tag : Option Nat)
    (htag : ∀ t, tag = some t → t < 2 ^ 35) :
    Field.wf env flex false (.mk (mkMeta c (some (ktypeOfPrimT p)) tag (.val (.tuple [])))
      (.primArr ⟨baseOfKType (ktypeOfPrimT p), custom⟩ (ktypeOfPrimT p == .uuid) false)) = true := by
  rw [coh_mkMeta_eq]
  simp only [Field.wf, Shape.wf, Option.isSome_map, Option.isNone_map, coh_tagOk tag htag]
  cases tag <;> cases p <;> cases flex <;> rfl

theorem coh_entArr_wf (env : Env) (flex c a : Bool) (tag : Option Nat) (s : Schema)
    (htag : ∀ t, tag = some t → t < 2 ^ 35) (hs : Schema.wf env s = true) (hm : 1 ≤ Schema.minSize s) :
    Field.wf env flex false (.mk (mkMeta c none tag (if tag.isSome then .val (.tuple []) else .missing))
      (.entArr s a)) = true := by
  rw [coh_mkMeta_eq]
  simp only [Field.wf, Shape.wf, Option.isNone_map, coh_tagOk tag htag, hs, decide_eq_true hm]
  cases tag <;> rfl

theorem coh_ent_wf (env : Env) (flex c o : Bool) (tag : Option Nat) (x : Option Value) (s : Schema)
    (htag : ∀ t, tag = some t → t < 2 ^ 35) (hs : Schema.wf env s = true)
    (hto : (!tag.isSome || !o) = true) (hd : tag.isSome = true → x.isSome = true) :
    Field.wf env flex false (.mk (mkMeta c none tag (dfltOf x)) (.ent s o)) = true := by
  rw [coh_mkMeta_eq]
  simp only [Field.wf, Shape.wf, Option.isSome_map, Option.isNone_map, coh_tagOk tag htag, hs, hto]
  cases tag with
  | none => cases x <;> rfl
  | some t =>
    cases x with
    | none => exact absurd (hd rfl) (by simp)
    | some w => rfl

theorem coh_tagNat (c : Bool) (kt : Option KType) (tag : Option Nat) (dd : Dflt) (sh : Shape) :
    Field.tagNat (.mk (mkMeta c kt tag dd) sh) = tag := by
  rw [coh_mkMeta_eq]
  cases tag <;> rfl

theorem coh_minSize_untagged (c : Bool) (kt : Option KType) (dd : Dflt) (sh : Shape) :
    Field.minSize (.mk (mkMeta c kt none dd) sh) = Shape.minSize sh := by
  rw [coh_mkMeta_eq]
  simp [Field.minSize]

/-! ## defaults -/

mutual
theorem coh_beq_refl : ∀ a : Value, a.beq a = true
  | .int _ | .bool _ | .float _ | .str _ | .bytes _ | .uuid _ | .timedelta _ | .datetime _ => by
    simp [Value.beq]
  | .none => by simp [Value.beq]
  | .tuple vs => by rw [Value.beq]; exact coh_beqList_refl vs
  | .entity vs => by rw [Value.beq]; exact coh_beqList_refl vs
theorem coh_beqList_refl : ∀ as : List Value, Value.beqList as as = true
  | [] => by rw [Value.beqList]
  | a :: as => by rw [Value.beqList, coh_beq_refl a, coh_beqList_refl as]; rfl
end

theorem coh_map_some_ok {ε α : Type} {e : Except ε α} {x : Option α} (h : e.map some = .ok x) :
    ∃ a, e = .ok a ∧ x = some a := by
  cases e with
  | error _ => cases h
  | ok a => cases h; exact ⟨a, rfl, rfl⟩

theorem coh_tagged_eq {f : FieldDef} (v : Nat) (htg : f.tag.isSome = f.tagged.isSome) :
    DefSpec.rangeMatches f.tagged v = (tagAt f v).isSome := by
  unfold tagAt DefSpec.rangeMatches
  cases hg : f.tagged with
  | none => rfl
  | some r =>
    rw [hg] at htg
    simp only [Option.isSome_some] at htg
    by_cases hm : r.matches v = true <;> simp [hm, htg]

/-- the generator's reading of an explicit default is the definition's, when the latter has one -/
theorem coh_format_explicit {k : KType} {s : List Nat} {o : Bool} {w : Value}
    (h : formatDefault k s o = .ok w)
    (hu : (match DefSpec.explicitDefault k s with | .unsupported => false | _ => true) = true) :
    DefSpec.explicitDefault k s = .value w := by
  unfold formatDefault at h
  unfold DefSpec.explicitDefault at hu ⊢
  by_cases hn : (s == strOf "null") = true
  · simp only [hn, if_true] at h ⊢
    cases o <;> simp at h
    rw [h]
  · simp only [hn, Bool.false_eq_true, if_false] at h hu ⊢
    cases k <;> simp only at h hu ⊢ <;>
      first
      | (cases h; rfl)
      | cases h
      | (cases hp : parseInt s <;> simp only [hp] at h hu ⊢ <;> first | (cases h; rfl) | cases h | cases hu | skip)
      | (cases hp : parseBool s <;> simp only [hp] at h hu ⊢ <;> first | (cases h; rfl) | cases h)
      | skip
    · cases hq : parseFloatBits s <;> simp only [hq] at h ⊢ <;> first | (cases h; rfl) | cases h
    · cases hu
    · by_cases h1 : (s == strOf "-1") = true
      · simp only [h1, if_true] at h ⊢
        cases o <;> simp at h
        rw [h]
      · simp [h1] at h

theorem coh_implicit_agrees (k : KType) : ∃ w, taggedImplicitDefault k = .ok w ∧
    (match k with
      | .int8 | .int16 | .int32 | .int64 | .uint16 | .uint32 | .uint64 | .errorCode => DefSpec.ExpDflt.value (.int 0)
      | .float64 => .value (.float 0)
      | .bool => .value (.bool false)
      | _ => .value .none) = DefSpec.ExpDflt.value w := by
  cases k <;> exact ⟨_, rfl, rfl⟩

/-- the default of a generated primitive field, as `genOne` computes it -/
def coh_primDflt (f : FieldDef) (k : KType) (v : Nat) : Except GenErr (Option Value) :=
  match f.dflt with
  | some s => (formatDefault k s (primNullable f k v)).map some
  | none => if (tagAt f v).isSome && f.ignorable then (taggedImplicitDefault k).map some else .ok none

theorem coh_dfltAgrees_value (w : Value) (c : Bool) (kt : Option KType) (tag : Option Nat) (sh : Shape) :
    dfltAgrees (.value w) (.mk (mkMeta c kt tag (.val w)) sh) = true := by
  rw [coh_mkMeta_eq]
  simp only [dfltAgrees]
  exact coh_beq_refl w

theorem coh_dfltAgrees_missing (c : Bool) (kt : Option KType) (tag : Option Nat) (sh : Shape) :
    dfltAgrees .noDefault (.mk (mkMeta c kt tag .missing) sh) = true := by
  rw [coh_mkMeta_eq]; rfl

theorem coh_dfltAgrees_empty (c : Bool) (kt : Option KType) (tag : Option Nat) (sh : Shape) :
    dfltAgrees .emptyArray (.mk (mkMeta c kt tag (.val (.tuple []))) sh) = true := by
  rw [coh_mkMeta_eq]; rfl

theorem coh_primDflt_agrees {f : FieldDef} {k : KType} {v : Nat} {x : Option Value} (d0 : MsgDef)
    (c : Bool) (kt : Option KType) (sh : Shape)
    (htg : f.tag.isSome = f.tagged.isSome) (hx : coh_primDflt f k v = .ok x)
    (hu : (match f.dflt with
      | some s => (match formatDefault k s (primNullable f k v) with | .ok _ => true | .error _ => false)
                  && (match DefSpec.explicitDefault k s with | .unsupported => false | _ => true)
      | none => true) = true) :
    dfltAgrees (DefSpec.expDefault d0 f v (.prim k)) (.mk (mkMeta c kt (tagAt f v) (dfltOf x)) sh) = true := by
  unfold coh_primDflt at hx
  unfold DefSpec.expDefault
  rw [coh_tagged_eq v htg]
  cases hd : f.dflt with
  | some s =>
    simp only [hd, Bool.and_eq_true] at hx hu ⊢
    obtain ⟨w, hw, rfl⟩ := coh_map_some_ok hx
    rw [coh_format_explicit hw hu.2]
    exact coh_dfltAgrees_value ..
  | none =>
    simp only [hd] at hx ⊢
    by_cases hc : ((tagAt f v).isSome && f.ignorable) = true
    · simp only [hc, if_true] at hx ⊢
      obtain ⟨w, hw, rfl⟩ := coh_map_some_ok hx
      obtain ⟨w', hw', he⟩ := coh_implicit_agrees k
      rw [hw] at hw'
      cases hw'
      have := coh_dfltAgrees_value w c kt (tagAt f v) sh
      rw [← he] at this
      exact this
    · simp only [hc, Bool.false_eq_true, if_false] at hx ⊢
      cases hx
      exact coh_dfltAgrees_missing ..

end Kio.Gen
