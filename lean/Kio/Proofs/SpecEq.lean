import Kio.Proofs.Prim
import Kio.Model.Typing
import Kio.Spec.Wire
/-!
The writer model produces exactly the bytes of the independent wire-format statement (C02).
-/
namespace Kio

theorem encVarint_eq_spec (n : Nat) : encVarint n = Spec.uvarint n := by
  induction n using Nat.strongRecOn with
  | _ n ih =>
    rw [encVarint, Spec.uvarint]
    by_cases h : n < 128
    · simp [h]
    · simp only [h, dite_false, if_false]
      rw [ih (n / 128) (by omega), Nat.add_comm]

theorem natBE_eq_range (w u : Nat) :
    natBE w u = (List.range w).map (fun i => (u / 256 ^ (w - 1 - i) % 256).toUInt8) := by
  induction w generalizing u with
  | zero => rfl
  | succ w ih =>
    rw [natBE, ih, List.range_succ_eq_map, List.map_cons, List.map_map]
    congr 1
    apply List.map_congr_left
    intro i hi
    have hi : i < w := by simpa using hi
    simp only [Function.comp, Nat.add_sub_cancel]
    have e1 : w - i.succ = w - 1 - i := by omega
    rw [e1]
    have e2 : 256 ^ w = 256 ^ (w - 1 - i) * 256 ^ (i + 1) := by
      rw [← Nat.pow_add]; congr 1; omega
    rw [e2, Nat.mod_mul_right_div_self]
    rw [Nat.mod_mod_of_dvd _ (by rw [Nat.pow_succ]; exact Nat.dvd_mul_left _ _)]

theorem encIntN_eq_spec (w : Nat) (signed : Bool) (v : Int) :
    (encIntN w signed v).toOption = Spec.intBE w signed v := by
  rcases w with _ | w
  · cases signed <;> simp [encIntN, Spec.intBE, intLo, intHi, natBE] <;>
      split <;> split <;> first | rfl | omega
  · obtain ⟨P, hP⟩ : ∃ P : Nat, 2 ^ (8 * (w+1) - 1) = P := ⟨_, rfl⟩
    have hM : (2 : Nat) ^ (8 * (w+1)) = 2 * P := by
      rw [← hP, ← Nat.pow_succ']; congr 1
    have hPi : (2 : Int) ^ (8 * (w+1) - 1) = (P : Int) := by rw [← hP]; norm_cast
    have hMi : (2 : Int) ^ (8 * (w+1)) = 2 * (P : Int) := by
      have : ((2 ^ (8 * (w+1)) : Nat) : Int) = ((2 * P : Nat) : Int) := by rw [hM]
      push_cast at this; exact this
    have hPpos : 0 < P := by rw [← hP]; exact Nat.pow_pos (by omega)
    unfold encIntN Spec.intBE intLo intHi
    simp only [hPi, hMi]
    cases signed
    · simp only [Bool.false_eq_true, if_false]
      by_cases hc : 0 ≤ v ∧ v ≤ 2 * (P:Int) - 1
      · rw [if_pos hc, if_pos (by omega)]
        rw [emod_nonneg_range hc.1 (by omega), if_neg (by omega), natBE_eq_range]
        rfl
      · rw [if_neg hc, if_neg (by omega)]; rfl
    · simp only [if_true]
      by_cases hc : -(P:Int) ≤ v ∧ v ≤ (P:Int) - 1
      · rw [if_pos hc, if_pos (by omega)]
        by_cases hv : 0 ≤ v
        · rw [emod_nonneg_range hv (by omega), if_neg (by omega), natBE_eq_range]; rfl
        · rw [emod_neg_range (by omega) (by omega), if_pos (by omega), natBE_eq_range]; rfl
      · rw [if_neg hc, if_neg (by omega)]; rfl

theorem insertByTag_eq (x : Nat × Bytes) (l : List (Nat × Bytes)) : insertByTag x l = Spec.insertAsc x l := by
  induction l with
  | nil => rfl
  | cons y ys ih => simp only [insertByTag, Spec.insertAsc, ih]

theorem sortByTag_eq_ascending (l : List (Nat × Bytes)) : sortByTag l = Spec.ascending l := by
  induction l with
  | nil => rfl
  | cons x xs ih => simp only [sortByTag, Spec.ascending, ih, insertByTag_eq]

@[simp] theorem toOption_ok {α} (a : α) : (Except.ok a : Except Err α).toOption = some a := rfl
@[simp] theorem toOption_error {α} (e : Err) : (Except.error e : Except Err α).toOption = none := rfl
@[simp] theorem toOption_pure {α} (a : α) : (pure a : Except Err α).toOption = some a := rfl

theorem toOption_bind {α β} (x : Except Err α) (f : α → Except Err β) :
    (x >>= f).toOption = x.toOption.bind (fun a => (f a).toOption) := by
  cases x <;> rfl

theorem toOption_eq_some {α} {x : Except Err α} {a : α} : x.toOption = some a ↔ x = .ok a := by
  cases x <;> simp [Except.toOption]

theorem toOption_eq_none {α} {x : Except Err α} : x.toOption = none ↔ ∃ e, x = .error e := by
  cases x <;> simp [Except.toOption]

/-! ### primitives -/

theorem writeIntN_int (w : Nat) (s : Bool) (i : Int) :
    (writeIntN w s (.int i)).toOption = Spec.intBE w s i := by
  simp only [writeIntN, Value.asInt?]; exact encIntN_eq_spec w s i

theorem compact_payload_eq (w : Nat) (v : Value) (p : Bytes) (hp : v.payload? = some p) :
    (writeNullableCompactString v).toOption = Spec.lenPrefixed true w p := by
  have key : (do let n ← uvarintCtor ((p.length : Int) + 1); pure (encVarint n ++ p) : Except Err Bytes).toOption
      = Spec.lenPrefixed true w p := by
    simp only [Spec.lenPrefixed, if_true, uvarintCtor]
    have e : ((2:Int) ^ 35) = ((2 ^ 35 : Nat) : Int) := by norm_cast
    by_cases h : p.length + 1 < 2 ^ 35
    · rw [if_pos h, if_pos (by rw [e]; omega)]
      simp only [bind, Except.bind, pure, Except.pure, toOption_ok]
      rw [encVarint_eq_spec]
      congr 3
    · rw [if_neg h, if_neg (by rw [e]; omega)]; rfl
  cases v <;> simp [Value.payload?] at hp <;> subst hp <;>
    simp only [writeNullableCompactString, Value.payload?] <;> exact key

theorem legacy_len_eq (w : Nat) (p : Bytes) :
    (if (p.length : Int) ≤ intHi w true then
        (do let l ← encIntN w true p.length; pure (l ++ p) : Except Err Bytes)
      else .error .outOfBound).toOption = Spec.lenPrefixed false w p := by
  simp only [Spec.lenPrefixed, Bool.false_eq_true, if_false, ← encIntN_eq_spec]
  split
  · rw [toOption_bind]; cases encIntN w true p.length <;> rfl
  · rename_i h
    rw [int_out_of_domain _ _ _ (fun hc => h hc.2)]; rfl

theorem primValueOk_mono (env : Env) (k : KType) (n : Bool) (v : Value)
    (h : primValueOk env k n v = true) : primValueOk env k true v = true := by
  cases v <;> simp_all [primValueOk]
  rcases h with h | h
  · exact Or.inl h
  · exact Or.inr h.2

theorem prim_uuid_nullable (flex a b : Bool) (v : Value) :
    Spec.prim .uuid flex a v = Spec.prim .uuid flex b v := by
  cases v <;> rfl

theorem natBE8_eq (b : Nat) (hb : b < 2 ^ 64) : some (natBE 8 b) = Spec.intBE 8 false b := by
  rw [← encIntN_eq_spec]
  unfold encIntN intLo intHi
  have e : ((2:Int) ^ (8 * 8)) = ((2 ^ 64 : Nat) : Int) := by norm_cast
  rw [if_pos (by simp only [Bool.false_eq_true, if_false, e]; omega)]
  rw [e, emod_nonneg_range (by omega) (by omega)]
  rfl

theorem prim_eq_spec (env : Env) (ht : env.time = TimeCfg.repaired) (hfl : FloatExact)
    (k : KType) (flex opt : Bool) (w : PrimW) (hw : getWriter k flex opt = .ok w)
    (v : Value) (hv : primValueOk env k true v = true) :
    (w.run env v).toOption = Spec.prim k flex opt v := by
  cases v with
  | int i =>
    cases k <;> simp [primValueOk, KType.isFixedInt] at hv <;>
      cases opt <;> simp [getWriter] at hw <;> subst hw <;>
      first
        | exact writeIntN_int _ _ i
        | (simp only [PrimW.run, writeErrorCode, Spec.prim]; exact encIntN_eq_spec _ _ _)
  | bool b =>
    cases k <;> simp [primValueOk] at hv
    cases opt <;> simp [getWriter] at hw; subst hw
    rfl
  | float b =>
    cases k <;> simp [primValueOk, -Nat.reducePow] at hv
    cases opt <;> simp [getWriter] at hw; subst hw
    simp only [PrimW.run, writeFloat64, Spec.prim, hv.1, if_true, toOption_ok]
    exact natBE8_eq b hv.1
  | str p =>
    cases k <;> simp [primValueOk] at hv
    cases flex <;> cases opt <;> simp [getWriter] at hw <;> subst hw <;>
      simp only [PrimW.run, Spec.prim, writeCompactString, writeLegacyString, writeNullableLegacyString]
    · exact legacy_len_eq 2 p
    · exact legacy_len_eq 2 p
    · exact compact_payload_eq 2 (.str p) p rfl
    · exact compact_payload_eq 2 (.str p) p rfl
  | bytes p =>
    have hk : k = .bytes ∨ k = .records := by
      cases k <;> simp [primValueOk] at hv <;> simp
    cases flex
    · have : ∀ w, getWriter k false opt = .ok w → (w.run env (.bytes p)).toOption = Spec.lenPrefixed false 4 p := by
        intro w hw
        rcases hk with rfl | rfl <;> cases opt <;> simp [getWriter] at hw <;> subst hw <;>
          simp only [PrimW.run, writeLegacyBytes, writeNullableLegacyBytes] <;>
          exact legacy_len_eq 4 p
      rw [this w hw]; rcases hk with rfl | rfl <;> rfl
    · have : ∀ w, getWriter k true opt = .ok w → (w.run env (.bytes p)).toOption = Spec.lenPrefixed true 4 p := by
        intro w hw
        rcases hk with rfl | rfl <;> cases opt <;> simp [getWriter] at hw <;> subst hw <;>
          simp only [PrimW.run, writeCompactString] <;>
          exact compact_payload_eq 4 (.bytes p) p rfl
      rw [this w hw]; rcases hk with rfl | rfl <;> rfl
  | uuid b =>
    unfold primValueOk at hv
    simp only [Bool.and_eq_true, beq_iff_eq, decide_eq_true_eq] at hv
    obtain ⟨⟨rfl, hl⟩, _⟩ := hv
    simp [getWriter] at hw; subst hw
    simp only [PrimW.run, writeUuid, Spec.prim, hl, if_true, toOption_ok]
  | timedelta us =>
    cases k <;> simp [primValueOk] at hv <;>
      cases opt <;> simp [getWriter] at hw <;> subst hw <;>
      simp only [PrimW.run, writeTimedeltaI32, writeTimedeltaI64, writeTimedelta, msOfTimedelta, ht,
        TimeCfg.repaired, if_true, Spec.prim, hv.1.1, msOfMicrosExact_whole us hv.1.1] <;>
      exact encIntN_eq_spec _ _ _
  | datetime us =>
    cases k <;> simp [primValueOk] at hv
    obtain ⟨⟨h1000, h0⟩, h1⟩ := hv
    have hus : us / 1000 * 1000 = us := by omega
    have hfx : msOfMicrosFloat us = us / 1000 := by
      have := hfl (us / 1000) (by omega) (by unfold maxDatetimeUs at h1; omega)
      rwa [hus] at this
    cases opt <;> simp [getWriter] at hw <;> subst hw <;>
      simp only [PrimW.run, writeNullableDatetimeI64, writeDatetimeI64, hfx, Spec.prim, h1000, h0, and_self, if_true] <;>
      exact encIntN_eq_spec _ _ _
  | none =>
    cases k <;> simp [primValueOk] at hv <;>
      cases flex <;> cases opt <;> simp [getWriter] at hw <;> subst hw <;>
      simp only [PrimW.run, Spec.prim, writeCompactString, writeLegacyString, writeNullableLegacyString,
        writeNullableCompactString, writeLegacyBytes, writeNullableLegacyBytes, writeUuid,
        writeNullableDatetimeI64, writeDatetimeI64, Spec.nullLen, if_true, Bool.false_eq_true, if_false,
        toOption_ok, toOption_error, encVarint_eq_spec, uuidZero] <;>
      first
        | rfl
        | exact encIntN_eq_spec _ _ _
  | tuple vs => simp [primValueOk] at hv
  | entity vs => simp [primValueOk] at hv


/-! ### agreement of an `Except` computation with an `Option` specification

`Agree P Q x y`: under `P` every success of `x` is the value `y` prescribes; under `Q` every value
`y` prescribes is produced by `x`. -/

def Agree {α} (P Q : Prop) (x : Except Err α) (y : Option α) : Prop :=
  (P → ∀ a, x = .ok a → y = some a) ∧ (Q → ∀ a, y = some a → x = .ok a)

theorem Agree.of_eq {α} {P Q : Prop} {x : Except Err α} {y : Option α} (h : x.toOption = y) :
    Agree P Q x y := by
  subst h
  constructor
  · intro _ a ha; rw [ha]; rfl
  · intro _ a ha; exact toOption_eq_some.1 ha

theorem Agree.mono {α} {P Q P' Q' : Prop} {x : Except Err α} {y : Option α}
    (h : Agree P Q x y) (hp : P' → P) (hq : Q' → Q) : Agree P' Q' x y :=
  ⟨fun p => h.1 (hp p), fun q => h.2 (hq q)⟩

theorem Agree.bind {α β} {P Q : Prop} {x : Except Err α} {y : Option α}
    {f : α → Except Err β} {g : α → Option β}
    (h1 : Agree P Q x y) (h2 : ∀ a, x = .ok a → y = some a → Agree P Q (f a) (g a)) :
    Agree P Q (x >>= f) (y >>= g) := by
  constructor
  · intro p b hb
    obtain ⟨a, ha, hfa⟩ := bind_ok hb
    have hy := h1.1 p a ha
    rw [hy]
    exact (h2 a ha hy).1 p b hfa
  · intro q b hb
    cases hy : y with
    | none => rw [hy] at hb; simp at hb
    | some a =>
      rw [hy] at hb
      have ha := h1.2 q a hy
      rw [ha]
      exact (h2 a ha hy).2 q b hb

theorem Agree.map {α β} {P Q : Prop} {x : Except Err α} {y : Option α} (g : α → β)
    (h : Agree P Q x y) : Agree P Q (x >>= fun a => pure (g a)) (y.map g) := by
  have : y.map g = y >>= fun a => some (g a) := by cases y <;> rfl
  rw [this]
  exact h.bind (fun a _ _ => Agree.of_eq rfl)

theorem Agree.vacuous {α} {P Q : Prop} {x : Except Err α} (hp : ¬ P) : Agree P Q x none :=
  ⟨fun p => absurd p hp, fun _ a ha => by simp at ha⟩

/-! ### arrays -/

theorem encMany_agree {P Q : Prop} (e : Value → Except Err Bytes) (e' : Value → Option Bytes)
    (vs : List Value) (h : ∀ v ∈ vs, Agree P Q (e v) (e' v)) :
    Agree P Q (encMany e vs) (Spec.concatAll e' vs) := by
  induction vs with
  | nil => exact Agree.of_eq rfl
  | cons v vs ih =>
    simp only [encMany, Spec.concatAll]
    refine (h v (by simp)).bind (fun a _ _ => ?_)
    refine (ih (fun v hv => h v (by simp [hv]))).bind (fun b _ _ => ?_)
    exact Agree.of_eq rfl

theorem array_null_eq (flex : Bool) (e : Value → Except Err Bytes) (e' : Value → Option Bytes) :
    (arrayWriter flex e .none).toOption = Spec.array flex true e' .none := by
  cases flex
  · simp only [arrayWriter, Bool.false_eq_true, if_false, legacyArrayWriter, Spec.array, if_true, Spec.nullLen]
    exact encIntN_eq_spec _ _ _
  · simp only [arrayWriter, if_true, compactArrayWriter, Spec.array, Spec.nullLen, ← encVarint_eq_spec]
    rfl

theorem array_agree {P Q : Prop} (flex nullable : Bool) (e : Value → Except Err Bytes)
    (e' : Value → Option Bytes) (vs : List Value) (h : ∀ v ∈ vs, Agree P Q (e v) (e' v)) :
    Agree P Q (arrayWriter flex e (.tuple vs)) (Spec.array flex nullable e' (.tuple vs)) := by
  have hm := encMany_agree e e' vs h
  cases flex
  · simp only [arrayWriter, Bool.false_eq_true, if_false, legacyArrayWriter, Spec.array]
    by_cases hc : (vs.length : Int) ≤ intHi 4 true
    · rw [if_pos hc]
      cases hl : encIntN 4 true vs.length with
      | error e0 =>
        exfalso
        unfold encIntN at hl
        rw [if_pos ⟨by unfold intLo; simp, hc⟩] at hl
        cases hl
      | ok l =>
        have hs : Spec.intBE 4 true vs.length = some l := by rw [← encIntN_eq_spec, hl]; rfl
        rw [hs]
        show Agree P Q (encMany e vs >>= fun body => pure (l ++ body)) (Spec.concatAll e' vs >>= fun body => some (l ++ body))
        exact hm.bind (fun b _ _ => Agree.of_eq rfl)
    · rw [if_neg hc]
      have hs : Spec.intBE 4 true vs.length = none := by
        rw [← encIntN_eq_spec, int_out_of_domain _ _ _ (fun h => hc h.2)]; rfl
      rw [hs]
      apply Agree.of_eq
      cases Spec.concatAll e' vs <;> rfl
  · simp only [arrayWriter, if_true, compactArrayWriter, Spec.array, writeCompactArrayLength, uvarintCtor]
    have e35 : ((2:Int) ^ 35) = ((2 ^ 35 : Nat) : Int) := by norm_cast
    by_cases hc : vs.length + 1 < 2 ^ 35
    · rw [if_pos (by rw [e35]; omega)]
      simp only [if_pos hc]
      show Agree P Q (encMany e vs >>= fun body => pure (encVarint ((vs.length : Int) + 1).toNat ++ body))
        (Spec.concatAll e' vs >>= fun body => some (Spec.uvarint (vs.length + 1) ++ body))
      refine hm.bind (fun b _ _ => Agree.of_eq ?_)
      rw [encVarint_eq_spec]
      have : ((vs.length : Int) + 1).toNat = vs.length + 1 := by omega
      rw [this]; rfl
    · rw [if_neg (by rw [e35]; omega)]
      simp only [if_neg hc]
      apply Agree.of_eq
      cases Spec.concatAll e' vs <;> rfl

/-! ### the two places where model and specification differ

* a *tagged* field annotated `tuple[E, ...] | None` whose value is `None` (and whose default is
  not): the model writes a null array, the specification has no encoding (`Schema.tagArrOk`
  excludes such fields);
* a class with `2^35` or more fields can have `2^35` tagged entries: the model's `uvarint(...)`
  constructor raises, the specification puts no bound on the count (`Schema.fewFields`). -/

mutual
/-- no tagged field is annotated `tuple[E, ...] | None` -/
def Schema.tagArrOk : Schema → Bool
  | .mk _ _ _ fs => Fields.tagArrOk fs
def Fields.tagArrOk : List Field → Bool
  | [] => true
  | f :: fs => Field.tagArrOk f && Fields.tagArrOk fs
def Field.tagArrOk : Field → Bool
  | .mk m sh => Shape.tagArrOk m.tag.isSome sh
def Shape.tagArrOk (tagged : Bool) : Shape → Bool
  | .ent s _ => Schema.tagArrOk s
  | .entArr s a => !(tagged && a) && Schema.tagArrOk s
  | _ => true
end

mutual
/-- every class (nested ones included) has fewer than `2^35` fields -/
def Schema.fewFields : Schema → Bool
  | .mk _ _ _ fs => decide (fs.length < 2 ^ 35) && Fields.fewFields fs
def Fields.fewFields : List Field → Bool
  | [] => true
  | f :: fs => Field.fewFields f && Fields.fewFields fs
def Field.fewFields : Field → Bool
  | .mk _ sh => Shape.fewFields sh
def Shape.fewFields : Shape → Bool
  | .ent s _ => Schema.fewFields s
  | .entArr s _ => Schema.fewFields s
  | _ => true
end

/-! ### defaults of tagged fields -/

theorem implicitDefault_eq (env : Env) (ht : env.time = TimeCfg.repaired) (l : PyLeaf)
    (h : l.base ≠ .uuid) : (implicitDefault env l).toOption = Spec.zeroOf l := by
  unfold implicitDefault Spec.zeroOf
  cases hb : l.base <;> simp only [toOption_ok, toOption_error] <;> try (exact absurd hb h)
  rw [ht, tzAware_repaired 0 (by omega) (by omega)]
  rfl

mutual
theorem Schema.defaults_eq (env : Env) (ht : env.time = TimeCfg.repaired) :
    (s : Schema) → s.wf env = true → (Schema.defaults env s).toOption = Spec.defaultOfSchema s
  | .mk _ flex rh fs, h => by
    simp only [Schema.wf, Bool.and_eq_true] at h
    simp only [Schema.defaults, Spec.defaultOfSchema, toOption_bind]
    rw [Fields.defaults_eq env ht flex rh fs h.1.1]
    cases Spec.defaultsOfFields fs <;> rfl
theorem Fields.defaults_eq (env : Env) (ht : env.time = TimeCfg.repaired) (flex rh : Bool) :
    (fs : List Field) → Fields.wf env flex rh fs = true →
      (Fields.defaults env fs).toOption = Spec.defaultsOfFields fs
  | [], _ => rfl
  | f :: fs, h => by
    simp only [Fields.wf, Bool.and_eq_true] at h
    simp only [Fields.defaults, Spec.defaultsOfFields, toOption_bind]
    rw [Field.default_eq env ht flex rh f h.1]
    cases Spec.defaultOfField f with
    | none => rfl
    | some v =>
      rw [Fields.defaults_eq env ht flex rh fs h.2]
      cases Spec.defaultsOfFields fs <;> rfl
theorem Field.default_eq (env : Env) (ht : env.time = TimeCfg.repaired) (flex rh : Bool) :
    (f : Field) → Field.wf env flex rh f = true →
      (Field.taggedDefault env f).toOption = Spec.defaultOfField f
  | .mk m sh, h => by
    simp only [Field.taggedDefault, Spec.defaultOfField]
    cases hd : m.dflt with
    | val v => rfl
    | unrepresentable => rfl
    | missing =>
      simp only
      apply Shape.default_eq env ht flex m sh
      simp only [Field.wf, Bool.and_eq_true] at h
      have h3 := h.1.1.2
      split at h3
      · right
        cases sh <;> simp at h3
        exact ⟨_, _, rfl, h3.2⟩
      · left; exact h3
theorem Shape.default_eq (env : Env) (ht : env.time = TimeCfg.repaired) (flex : Bool) (m : FieldMeta) :
    (sh : Shape) → (Shape.wf env flex m sh = true ∨ ∃ l o, sh = .prim l o ∧ l.base = .str) →
      (Shape.missingDefault env sh).toOption = Spec.defaultOfShape sh
  | .prim l o, h => by
    cases o
    · simp only [Shape.missingDefault, Spec.defaultOfShape, Bool.false_eq_true, if_false]
      apply implicitDefault_eq env ht
      rcases h with h | ⟨l', o', he, hs⟩
      · simp only [Shape.wf] at h
        intro hu
        cases hk : m.kafkaType with
        | none => rw [hk] at h; simp at h
        | some k =>
          rw [hk] at h
          simp only [Bool.and_eq_true] at h
          have hlm := h.1.1.1.1
          have hko := h.1.1.2
          cases k <;> simp [leafMatches, hu] at hlm
          simp at hko
      · cases he; rw [hs]; decide
    · rfl
  | .primArr .., _ => rfl
  | .ent s o, h => by
    cases o
    · simp only [Shape.missingDefault, Spec.defaultOfShape, Bool.false_eq_true, if_false]
      apply Schema.defaults_eq env ht s
      rcases h with h | ⟨l', o', he, _⟩
      · simp only [Shape.wf, Bool.and_eq_true] at h; exact h.2
      · cases he
    · rfl
  | .entArr .., _ => rfl
  | .bad, _ => rfl
end

/-! ### the tagged section -/

theorem insertByTag_length (x : Nat × Bytes) (l : List (Nat × Bytes)) :
    (insertByTag x l).length = l.length + 1 := by
  induction l with
  | nil => rfl
  | cons y ys ih => simp only [insertByTag]; split <;> simp [ih]

theorem sortByTag_length (l : List (Nat × Bytes)) : (sortByTag l).length = l.length := by
  induction l with
  | nil => rfl
  | cons x xs ih => simp [sortByTag, insertByTag_length, ih]

theorem taggedItems_length (env : Env) (flex rh : Bool) (fs : List Field) (vs : List Value)
    (items : List (Nat × Bytes)) (h : Fields.taggedItems env flex rh fs vs = .ok items) :
    items.length ≤ fs.length := by
  induction fs generalizing vs items with
  | nil => cases vs <;> simp [Fields.taggedItems] at h; subst h; simp
  | cons f fs ih =>
    cases vs with
    | nil => simp [Fields.taggedItems] at h
    | cons v vs =>
      simp only [Fields.taggedItems] at h
      split at h
      · have := ih vs items h; simp; omega
      · split at h
        · have := ih vs items h; simp; omega
        · obtain ⟨item, _, h⟩ := bind_ok h
          obtain ⟨rest, hrest, h⟩ := bind_ok h
          simp only [pure, Except.pure] at h
          injection h with h; subst h
          have := ih vs rest hrest; simp; omega

theorem uvarintCtor_len (n : Nat) (h : n < 2 ^ 35) : uvarintCtor (n : Int) = .ok n := by
  unfold uvarintCtor
  have e : ((2:Int) ^ 35) = ((2 ^ 35 : Nat) : Int) := by norm_cast
  rw [if_pos (by rw [e]; omega)]; rfl

theorem ok_bind {α β} (a : α) (f : α → Except Err β) : (Except.ok a >>= f) = f a := rfl

theorem writeTaggedField_ok (t : Nat) (w : Value → Except Err Bytes) (v : Value) (p : Bytes)
    (hw : w v = .ok p) (hl : p.length < 2 ^ 35) :
    writeTaggedField t w v = .ok (encVarint t ++ encVarint p.length ++ p) := by
  unfold writeTaggedField
  rw [hw, ok_bind, uvarintCtor_len _ hl, ok_bind]
  rfl

theorem taggedItem_agree {P Q : Prop} (t : Int) (ht0 : 0 ≤ t) (w : Value → Except Err Bytes) (v : Value)
    (y : Option Bytes) (R : Except Err (List (Nat × Bytes))) (R' : Option (List (Nat × Bytes)))
    (h1 : Agree P Q (w v) y) (h2 : Agree P Q R R') :
    Agree P Q
      (do let item ← writeTaggedField t.toNat w v
          let rest ← R
          pure ((t.toNat, item) :: rest))
      (do let p ← y
          let rest ← R'
          if 0 ≤ t ∧ p.length < 2 ^ 35 then pure ((t.toNat, Spec.taggedEntry t.toNat p) :: rest) else none) := by
  constructor
  · intro p b hb
    obtain ⟨item, hitem, hb⟩ := bind_ok hb
    obtain ⟨rest, hrest, hb⟩ := bind_ok hb
    unfold writeTaggedField at hitem
    obtain ⟨enc, henc, hitem⟩ := bind_ok hitem
    obtain ⟨n, hn, hitem⟩ := bind_ok hitem
    obtain ⟨hnl, hlt⟩ := uvarintCtor_ok hn
    have hnl' : n = enc.length := by omega
    subst hnl'
    simp only [pure, Except.pure] at hitem hb
    have hitem := Except.ok.inj hitem
    have hb := Except.ok.inj hb
    subst hitem hb
    rw [h1.1 p _ henc, h2.1 p _ hrest]
    simp only [Option.bind_eq_bind, Option.bind_some, ht0, hlt, and_self, if_true, Spec.taggedEntry,
      encVarint_eq_spec, pure]
  · intro q b hb
    cases hy : y with
    | none => rw [hy] at hb; simp at hb
    | some p =>
      cases hR : R' with
      | none => rw [hy, hR] at hb; simp at hb
      | some rest =>
        rw [hy, hR] at hb
        simp only [Option.bind_eq_bind, Option.bind_some] at hb
        by_cases hc : 0 ≤ t ∧ p.length < 2 ^ 35
        · rw [if_pos hc] at hb
          have hb := Option.some.inj hb
          subst hb
          rw [h2.2 q _ hR, writeTaggedField_ok _ _ _ _ (h1.2 q _ hy) hc.2]
          simp only [Spec.taggedEntry, encVarint_eq_spec]
          rfl
        · rw [if_neg hc] at hb; cases hb

theorem allOk_forall {α} (p : α → Bool) (l : List α) (h : allOk p l = true) : ∀ x ∈ l, p x = true := by
  induction l with
  | nil => simp
  | cons x xs ih =>
    simp only [allOk, Bool.and_eq_true] at h
    intro y hy
    rcases List.mem_cons.1 hy with rfl | hy
    · exact h.1
    · exact ih h.2 y hy

theorem valuesAllOk_forall (env : Env) (s : Schema) (l : List Value) (h : Values.allOk env s l = true) :
    ∀ x ∈ l, Schema.valueOk env s x = true := by
  induction l with
  | nil => simp
  | cons x xs ih =>
    simp only [Values.allOk, Bool.and_eq_true] at h
    intro y hy
    rcases List.mem_cons.1 hy with rfl | hy
    · exact h.1
    · exact ih h.2 y hy

theorem write_none (env : Env) (s : Schema) : (Schema.write env s .none).toOption = Spec.struct s .none := by
  cases s; simp [Schema.write, Spec.struct]

theorem leafMatches_schemaFieldType (m : FieldMeta) (k : KType) (l : PyLeaf) (hk : m.kafkaType = some k)
    (hl : leafMatches k l = true) : m.schemaFieldType = .ok k := by
  unfold FieldMeta.schemaFieldType
  rw [hk]
  cases k <;> simp [leafMatches] at hl ⊢

theorem primFieldWriter_eq (env : Env) (m : FieldMeta) (k : KType) (flex opt : Bool) (w : PrimW)
    (hk : m.schemaFieldType = .ok k) (hw : getWriter k flex opt = .ok w) :
    primFieldWriter env m flex opt = w.run env := by
  unfold primFieldWriter
  rw [hk]; simp only [hw]

theorem isSome_ok {α} {x : Except Err α} (h : x.toOption.isSome = true) : ∃ a, x = .ok a := by
  cases x with
  | ok a => exact ⟨a, rfl⟩
  | error e => simp [Except.toOption] at h

theorem opt_cases {α} (o : Option α) : o = none ∨ ∃ a, o = some a := by
  cases o
  · exact Or.inl rfl
  · exact Or.inr ⟨_, rfl⟩

/-! ### the plan against the specification -/

mutual
theorem Schema.agree (env : Env) (ht : env.time = TimeCfg.repaired) (hfl : FloatExact) :
    (s : Schema) → s.wf env = true → ∀ v, s.valueOk env v = true →
      Agree (s.tagArrOk = true) (s.fewFields = true) (s.write env v) (Spec.struct s v)
  | .mk n flex rh fs, hwf, v, hv => by
    cases v with
    | entity vs =>
      simp only [Schema.wf, Bool.and_eq_true] at hwf
      simp only [Schema.valueOk] at hv
      simp only [Schema.write, Spec.struct]
      have hU := Fields.untagged_agree env ht hfl flex rh fs hwf.1.1 vs hv
      refine (hU.mono (P' := Schema.tagArrOk (.mk n flex rh fs) = true)
        (Q' := Schema.fewFields (.mk n flex rh fs) = true) ?_ ?_).bind (fun a _ _ => ?_)
      · simp only [Schema.tagArrOk]; exact id
      · simp only [Schema.fewFields, Bool.and_eq_true]; exact fun h => h.2
      cases flex
      · exact Agree.of_eq rfl
      · simp only [Bool.not_true, Bool.false_eq_true, if_false, if_true]
        have hT := Fields.tagged_agree env ht hfl true rh fs hwf.1.1 vs hv
        refine (hT.mono (P' := Schema.tagArrOk (.mk n true rh fs) = true)
          (Q' := Schema.fewFields (.mk n true rh fs) = true) ?_ ?_).bind (fun items hi _ => ?_)
        · simp only [Schema.tagArrOk]; exact id
        · simp only [Schema.fewFields, Bool.and_eq_true]; exact fun h => h.2
        have hlen := taggedItems_length env true rh fs vs items hi
        constructor
        · intro _ b hb
          obtain ⟨k, hk, hb⟩ := bind_ok hb
          obtain ⟨hkl, _⟩ := uvarintCtor_ok hk
          have hkl' : k = (sortByTag items).length := by omega
          subst hkl'
          have hb := Except.ok.inj hb
          subst hb
          simp only [encVarint_eq_spec, sortByTag_eq_ascending, flattenItems, pure]
        · intro q b hb
          simp only [Schema.fewFields, Bool.and_eq_true, decide_eq_true_eq] at q
          have hb := Option.some.inj hb
          subst hb
          rw [uvarintCtor_len _ (by rw [sortByTag_length]; omega), ok_bind]
          simp only [encVarint_eq_spec, sortByTag_eq_ascending, flattenItems, pure, Except.pure]
    | int _ | bool _ | float _ | str _ | bytes _ | uuid _ | timedelta _ | datetime _ | none | tuple _ =>
      simp [Schema.valueOk] at hv

theorem Fields.untagged_agree (env : Env) (ht : env.time = TimeCfg.repaired) (hfl : FloatExact)
    (flex rh : Bool) :
    (fs : List Field) → Fields.wf env flex rh fs = true → ∀ vs, Fields.valueOk env rh fs vs = true →
      Agree (Fields.tagArrOk fs = true) (Fields.fewFields fs = true)
        (Fields.writeUntagged env flex rh fs vs) (Spec.untagged flex rh fs vs)
  | [], _, vs, hv => by
    cases vs with
    | nil => exact Agree.of_eq rfl
    | cons v vs => simp [Fields.valueOk] at hv
  | (.mk m sh) :: fs, hwf, vs, hv => by
    cases vs with
    | nil => simp [Fields.valueOk] at hv
    | cons v vs =>
      simp only [Fields.wf, Bool.and_eq_true] at hwf
      simp only [Fields.valueOk, Bool.and_eq_true] at hv
      have ih := (Fields.untagged_agree env ht hfl flex rh fs hwf.2 vs hv.2).mono
        (P' := Fields.tagArrOk (.mk m sh :: fs) = true) (Q' := Fields.fewFields (.mk m sh :: fs) = true)
        (by simp only [Fields.tagArrOk, Bool.and_eq_true]; exact fun h => h.2)
        (by simp only [Fields.fewFields, Bool.and_eq_true]; exact fun h => h.2)
      simp only [Fields.writeUntagged, Spec.untagged, Field.isTagged]
      rcases opt_cases m.tag with htag | ⟨t, htag⟩
      case inr => simp only [htag, Option.isSome_some, if_true]; exact ih
      case inl =>
        simp only [htag, Option.isSome_none, Bool.false_eq_true, if_false]
        have hF := (Field.agree env ht hfl flex rh (.mk m sh) hwf.1 v hv.1).mono
          (P' := Fields.tagArrOk (.mk m sh :: fs) = true) (Q' := Fields.fewFields (.mk m sh :: fs) = true)
          (by simp only [Fields.tagArrOk, Bool.and_eq_true]; exact fun h => h.1)
          (by simp only [Fields.fewFields, Bool.and_eq_true]; exact fun h => h.1)
        simp only [htag, Option.isSome_none, Field.isTagged, Field.meta, Field.shape] at hF
        exact hF.bind (fun a _ _ => ih.bind (fun b _ _ => Agree.of_eq rfl))

theorem Fields.tagged_agree (env : Env) (ht : env.time = TimeCfg.repaired) (hfl : FloatExact)
    (flex rh : Bool) :
    (fs : List Field) → Fields.wf env flex rh fs = true → ∀ vs, Fields.valueOk env rh fs vs = true →
      Agree (Fields.tagArrOk fs = true) (Fields.fewFields fs = true)
        (Fields.taggedItems env flex rh fs vs) (Spec.taggedEntries flex fs vs)
  | [], _, vs, hv => by
    cases vs with
    | nil => exact Agree.of_eq rfl
    | cons v vs => simp [Fields.valueOk] at hv
  | (.mk m sh) :: fs, hwf, vs, hv => by
    cases vs with
    | nil => simp [Fields.valueOk] at hv
    | cons v vs =>
      simp only [Fields.wf, Bool.and_eq_true] at hwf
      simp only [Fields.valueOk, Bool.and_eq_true] at hv
      have ih := (Fields.tagged_agree env ht hfl flex rh fs hwf.2 vs hv.2).mono
        (P' := Fields.tagArrOk (.mk m sh :: fs) = true) (Q' := Fields.fewFields (.mk m sh :: fs) = true)
        (by simp only [Fields.tagArrOk, Bool.and_eq_true]; exact fun h => h.2)
        (by simp only [Fields.fewFields, Bool.and_eq_true]; exact fun h => h.2)
      have hdef := Field.default_eq env ht flex rh (.mk m sh) hwf.1
      have hF := (Field.agree env ht hfl flex rh (.mk m sh) hwf.1 v hv.1).mono
        (P' := Fields.tagArrOk (.mk m sh :: fs) = true) (Q' := Fields.fewFields (.mk m sh :: fs) = true)
        (by simp only [Fields.tagArrOk, Bool.and_eq_true]; exact fun h => h.1)
        (by simp only [Fields.fewFields, Bool.and_eq_true]; exact fun h => h.1)
      have hwf1 := hwf.1
      simp only [Field.wf, Bool.and_eq_true] at hwf1
      simp only [Fields.taggedItems, Spec.taggedEntries, Field.tagNat, FieldMeta.tagNat]
      rcases opt_cases m.tag with htag | ⟨t, htag⟩
      case inl => simp only [htag, Option.map_none]; exact ih
      case inr =>
        simp only [htag, Option.map_some]
        -- the tag is a uvarint, the field is not the `client_id` special case, the default exists
        have htok := hwf1.1.1.1.1
        simp only [htag, tagOk, Bool.and_eq_true, decide_eq_true_eq] at htok
        have hcid : (rh && m.isClientId) = false := by
          have h3 := hwf1.1.1.2
          by_cases hcc : rh = true ∧ m.isClientId = true
          · rw [if_pos hcc] at h3; simp [htag] at h3
          · simpa using hcc
        have hsome := hwf1.1.2
        simp only [htag, Option.isNone_some, Bool.false_or] at hsome
        obtain ⟨d, hd⟩ := isSome_ok hsome
        rw [hd] at hdef ⊢
        rw [← hdef]
        simp only [toOption_ok, Option.getD_some, Option.bind_eq_bind, Option.bind_some]
        by_cases hpe : v.pyEq d = true
        · simp only [hpe, if_true]; exact ih
        · simp only [hpe, Bool.false_eq_true, if_false]
          simp only [htag, Option.isSome_some, Field.isTagged, Field.meta, Field.shape, hcid,
            Bool.false_eq_true, if_false] at hF
          exact taggedItem_agree t htok.1 _ v _ _ _ hF ih

/-- one field, as the untagged part / the tagged section writes it -/
theorem Field.agree (env : Env) (ht : env.time = TimeCfg.repaired) (hfl : FloatExact)
    (flex rh : Bool) :
    (f : Field) → Field.wf env flex rh f = true → ∀ v, Field.valueOk env rh f v = true →
      Agree (Field.tagArrOk f = true) (Field.fewFields f = true)
        (Field.write env flex rh f.isTagged f v)
        (if rh && f.meta.isClientId then Spec.prim .string false true v
         else Spec.fieldBytes flex f.meta.tag.isSome f.meta f.shape v)
  | .mk m sh, hwf, v, hv => by
    simp only [Field.wf, Bool.and_eq_true] at hwf
    simp only [Field.valueOk, Bool.and_eq_true] at hv
    simp only [Field.write, Field.meta, Field.shape, Field.isTagged]
    have h3 := hwf.1.1.2
    have hv1 := hv.1
    by_cases hcc : rh = true ∧ m.isClientId = true
    · have hc : (rh && m.isClientId) = true := by simpa using hcc
      rw [if_pos hcc] at hv1
      simp only [hc, if_true]
      apply Agree.of_eq
      exact prim_eq_spec env ht hfl .string false true .nullableLegacyString rfl v hv1
    · have hc : (rh && m.isClientId) = false := by simpa using hcc
      rw [if_neg hcc] at h3 hv1
      simp only [hc, Bool.false_eq_true, if_false]
      exact Shape.agree env ht hfl flex m sh h3 v hv1

theorem Shape.agree (env : Env) (ht : env.time = TimeCfg.repaired) (hfl : FloatExact)
    (flex : Bool) (m : FieldMeta) :
    (sh : Shape) → Shape.wf env flex m sh = true → ∀ v, Shape.valueOk env m sh v = true →
      Agree (Shape.tagArrOk m.tag.isSome sh = true) (Shape.fewFields sh = true)
        (Shape.write env flex m.tag.isSome m sh v) (Spec.fieldBytes flex m.tag.isSome m sh v)
  | .prim l o, hwf, v, hv => by
    simp only [Shape.wf] at hwf
    simp only [Shape.valueOk] at hv
    cases hk : m.kafkaType with
    | none => rw [hk] at hwf; simp at hwf
    | some k =>
      rw [hk] at hwf hv
      simp only [Bool.and_eq_true] at hwf hv
      obtain ⟨w, hw⟩ := isSome_ok hwf.2
      have hsf := leafMatches_schemaFieldType m k l hk hwf.1.1.1.1
      simp only [Shape.write, Spec.fieldBytes, hk]
      rw [primFieldWriter_eq env m k flex _ w hsf hw, Bool.and_comm]
      exact Agree.of_eq (prim_eq_spec env ht hfl k flex _ w hw v (primValueOk_mono env k o v hv))
  | .primArr l e a, hwf, v, hv => by
    simp only [Shape.wf] at hwf
    simp only [Shape.valueOk] at hv
    cases hk : m.kafkaType with
    | none => rw [hk] at hwf; simp at hwf
    | some k =>
      rw [hk] at hwf hv
      simp only [Bool.and_eq_true] at hwf hv
      obtain ⟨w, hw⟩ := isSome_ok hwf.2
      have ha : a = false := by simpa using hwf.1.1.1.1.1.2
      subst ha
      have hsf := leafMatches_schemaFieldType m k l hk hwf.1.1.1.1.1.1
      have hte := hwf.1.1.2
      simp only [Shape.write, Spec.fieldBytes, hk]
      rw [primFieldWriter_eq env m k flex _ w hsf hw]
      cases v with
      | tuple vs =>
        simp only [Bool.false_and]
        apply array_agree
        intro x hx
        apply Agree.of_eq
        rw [prim_eq_spec env ht hfl k flex _ w hw x
          (primValueOk_mono env k e x (allOk_forall _ vs hv x hx))]
        simp only [Bool.or_false]
        cases htg : m.tag.isSome <;> cases e <;> try rfl
        -- tagged, elements `| None`: only for uuid, whose encoding does not depend on the flag
        rw [htg] at hte
        simp at hte
        subst hte
        exact prim_uuid_nullable _ _ _ _
      | none => simp at hv
      | int _ | bool _ | float _ | str _ | bytes _ | uuid _ | timedelta _ | datetime _ | entity _ =>
        simp at hv
  | .ent s o, hwf, v, hv => by
    simp only [Shape.wf, Bool.and_eq_true] at hwf
    have hto := hwf.1.2
    have ihs := fun v hv => (Schema.agree env ht hfl s hwf.2 v hv).mono
      (P' := Shape.tagArrOk m.tag.isSome (.ent s o) = true) (Q' := Shape.fewFields (.ent s o) = true)
      (by simp only [Shape.tagArrOk]; exact id) (by simp only [Shape.fewFields]; exact id)
    simp only [Shape.write, Spec.fieldBytes]
    cases hc : (o && !m.tag.isSome) with
    | true =>
      rw [Bool.and_comm] at hc
      simp only [hc, if_true]
      cases v with
      | none => exact Agree.of_eq rfl
      | int _ | bool _ | float _ | str _ | bytes _ | uuid _ | timedelta _ | datetime _ | tuple _ | entity _ =>
        simp only [Shape.valueOk] at hv
        simp only [writeNullable]
        rw [show encIntN 1 true 1 = .ok [1] from rfl, ok_bind]
        exact (ihs _ hv).map (fun b => 1 :: b)
    | false =>
      rw [Bool.and_comm] at hc
      simp only [hc, Bool.false_eq_true, if_false]
      cases v with
      | none => exact Agree.of_eq (write_none env s)
      | int _ | bool _ | float _ | str _ | bytes _ | uuid _ | timedelta _ | datetime _ | tuple _ | entity _ =>
        simp only [Shape.valueOk] at hv
        exact ihs _ hv
  | .entArr s a, hwf, v, hv => by
    simp only [Shape.wf, Bool.and_eq_true] at hwf
    have ihs := fun v hv => (Schema.agree env ht hfl s hwf.1.2 v hv).mono
      (P' := Shape.tagArrOk m.tag.isSome (.entArr s a) = true) (Q' := Shape.fewFields (.entArr s a) = true)
      (by simp only [Shape.tagArrOk, Bool.and_eq_true]; exact fun h => h.2)
      (by simp only [Shape.fewFields]; exact id)
    simp only [Shape.write, Spec.fieldBytes]
    cases v with
    | tuple vs =>
      simp only [Shape.valueOk] at hv
      apply array_agree
      intro x hx
      exact ihs x (valuesAllOk_forall env s vs hv x hx)
    | none =>
      simp only [Shape.valueOk] at hv
      subst hv
      cases htg : m.tag.isSome with
      | false => exact Agree.of_eq (array_null_eq flex _ _)
      | true =>
        -- the model writes a null array, the specification has no encoding: excluded by `tagArrOk`
        have : Spec.array flex (true && !true) (Spec.struct s) Value.none = none := rfl
        rw [this]
        exact Agree.vacuous (by simp [Shape.tagArrOk])
    | int _ | bool _ | float _ | str _ | bytes _ | uuid _ | timedelta _ | datetime _ | entity _ =>
      simp [Shape.valueOk] at hv
  | .bad, hwf, _, _ => by simp [Shape.wf] at hwf
end

/-! ### C02 at the plan level

The statement originally aimed at,

-- FULL STATEMENT (not proved): theorem Schema.write_eq_spec (env : Env)
--     (ht : env.time = TimeCfg.repaired) (hfl : FloatExact) (s : Schema) (hwf : s.wf env = true)
--     (v : Value) (hv : s.valueOk env v = true) : (s.write env v).toOption = Spec.enc s v

is false: `Schema.write_eq_spec_counterexample` below exhibits a coherent class and a well-typed
canonical instance on which the model writes bytes and `Spec.enc` is `none` (a tagged
`tuple[E, ...] | None` field holding `None`, default `()`).  In the other direction a class with
`2^35` tagged fields, all set, makes `uvarint(len(tagged))` raise in the model while `Spec.enc`
still prescribes bytes.  Outside these two situations the two sides agree, in both directions. -/

/-- **success direction**: whatever the writer plan emits is the Kafka encoding -/
theorem Schema.write_eq_spec_ok (env : Env) (ht : env.time = TimeCfg.repaired) (hfl : FloatExact)
    (s : Schema) (hwf : s.wf env = true) (hdom : s.tagArrOk = true)
    (v : Value) (hv : s.valueOk env v = true) (bs : Bytes)
    (h : s.write env v = .ok bs) : Spec.enc s v = some bs :=
  (Schema.agree env ht hfl s hwf v hv).1 hdom bs h

/-- **converse**: every value that has an encoding is written, as that encoding -/
theorem Schema.spec_eq_write_ok (env : Env) (ht : env.time = TimeCfg.repaired) (hfl : FloatExact)
    (s : Schema) (hwf : s.wf env = true) (hfew : s.fewFields = true)
    (v : Value) (hv : s.valueOk env v = true) (bs : Bytes)
    (h : Spec.enc s v = some bs) : s.write env v = .ok bs :=
  (Schema.agree env ht hfl s hwf v hv).2 hfew bs h

/-- the writer plan emits the Kafka encoding (`Spec.enc`), and fails exactly where the value has
    no encoding — the original statement, under the two side conditions it needs -/
theorem Schema.write_eq_spec (env : Env) (ht : env.time = TimeCfg.repaired) (hfl : FloatExact)
    (s : Schema) (hwf : s.wf env = true) (hdom : s.tagArrOk = true) (hfew : s.fewFields = true)
    (v : Value) (hv : s.valueOk env v = true) :
    (s.write env v).toOption = Spec.enc s v := by
  have hA := Schema.agree env ht hfl s hwf v hv
  unfold Spec.enc
  cases hw : s.write env v with
  | ok bs => rw [hA.1 hdom bs hw]; rfl
  | error e =>
    cases hs : Spec.struct s v with
    | none => rfl
    | some bs => rw [hA.2 hfew bs hs] at hw; cases hw

/-! ### the full statement fails without `tagArrOk` -/

namespace SpecEqCounterexample
def env0 : Env := { errorCodes := [], time := TimeCfg.repaired, skipUnknownTags := true, nullableTaggedReader := true }
/-- `class Inner: x: i8` (flexible) -/
def inner : Schema :=
  .mk 1 true false [.mk ⟨0, false, some .int8, none, .missing, false⟩ (.prim ⟨.i8, false⟩ false)]
/-- `class Outer: xs: tuple[Inner, ...] | None = field(metadata={"tag": 0}, default=())` -/
def outer : Schema :=
  .mk 0 true false [.mk ⟨1, false, none, some 0, .val (.tuple []), false⟩ (.entArr inner true)]
/-- `Outer(xs=None)` -/
def value : Value := .entity [.none]

theorem wf : outer.wf env0 = true := by decide
theorem ok : outer.valueOk env0 value = true := by
  simp [outer, value, Schema.valueOk, Fields.valueOk, Field.valueOk, Shape.valueOk,
    Field.taggedDefault, Value.pyEq, Except.toOption]
theorem spec_none : Spec.enc outer value = none := by decide
theorem impl_some : outer.write env0 value = .ok [1, 0, 1, 0] := by
  have e0 : encVarint 0 = [0] := by rw [encVarint]; rfl
  have e1 : encVarint 1 = [1] := by rw [encVarint]; rfl
  have u0 : uvarintCtor 0 = .ok 0 := rfl
  have u1' : uvarintCtor ((1 : Nat) : Int) = .ok 1 := rfl
  simp only [outer, value, Schema.write, Fields.writeUntagged, Field.isTagged, Fields.taggedItems,
    Field.tagNat, FieldMeta.tagNat, Field.taggedDefault, Value.pyEq, Except.toOption, writeTaggedField,
    Field.write, Shape.write, arrayWriter, compactArrayWriter, writeCompactArrayLength, ok_bind,
    Option.isSome_some, if_true, Bool.not_true, Bool.false_eq_true, if_false, Option.map_some,
    Option.getD_some, Bool.false_and, Int.reduceNeg, Int.reduceAdd, Int.toNat_zero, u0, e0, pure,
    Except.pure, u1', e1, sortByTag, insertByTag, flattenItems, List.map, List.flatten,
    List.length_cons, List.length_nil]
  rfl
end SpecEqCounterexample

/-- the unconditional statement is false -/
theorem Schema.write_eq_spec_counterexample :
    ∃ (env : Env) (s : Schema) (v : Value), env.time = TimeCfg.repaired ∧ s.wf env = true ∧
      s.valueOk env v = true ∧ (s.write env v).toOption ≠ Spec.enc s v := by
  refine ⟨SpecEqCounterexample.env0, SpecEqCounterexample.outer, SpecEqCounterexample.value, rfl,
    SpecEqCounterexample.wf, SpecEqCounterexample.ok, ?_⟩
  rw [SpecEqCounterexample.impl_some, SpecEqCounterexample.spec_none]
  simp [Except.toOption]

end Kio
