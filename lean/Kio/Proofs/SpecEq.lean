import Kio.Proofs.Prim
import Kio.Model.Typing
import Kio.Spec.Wire
/-!
The writer model produces exactly the bytes of the independent wire-format statement (C02).
-/
namespace Kio

theorem encVarint_eq_spec (n : Nat) : encVarint n = Spec.uvarint n := by
  sorry

/-- `struct.pack` model = two's-complement big-endian of the spec -/
theorem encIntN_eq_spec (w : Nat) (signed : Bool) (v : Int) :
    (encIntN w signed v).toOption = Spec.intBE w signed v := by
  sorry

theorem sortByTag_eq_ascending (l : List (Nat × Bytes)) : sortByTag l = Spec.ascending l := by
  sorry

/-- the writer plan emits the Kafka encoding (`Spec.enc`), and fails exactly where the value has
    no encoding -/
theorem Schema.write_eq_spec (env : Env) (ht : env.time = TimeCfg.repaired) (hfl : FloatExact)
    (s : Schema) (hwf : s.wf env = true) (v : Value) (hv : s.valueOk env v = true) :
    (s.write env v).toOption = Spec.enc s v := by
  sorry

end Kio
