import Kio.Model.Float
import Mathlib.Data.Rat.Floor
import Mathlib.Tactic.Linarith
import Mathlib.Tactic.Ring
import Mathlib.Tactic.NormNum
import Mathlib.Tactic.Positivity
import Mathlib.Tactic.FieldSimp
import Mathlib.Algebra.Order.Field.Basic
/-! Error bounds for the exact-rational float model (`Kio.Model.Float`). -/
namespace Kio

/-! ### pyRound -/

theorem floor_le' (x : ℚ) : (x.floor : ℚ) ≤ x := Rat.floor_le x

theorem lt_floor_add_one' (x : ℚ) : x < (x.floor : ℚ) + 1 := by
  have := Rat.lt_floor_add_one x
  push_cast at this
  exact this

theorem pyRound_err (x : ℚ) : |(pyRound x : ℚ) - x| ≤ 1/2 := by
  have h1 := floor_le' x
  have h2 := lt_floor_add_one' x
  unfold pyRound
  simp only
  split_ifs <;> (rw [abs_le]; constructor <;> push_cast <;> linarith)

theorem pyRound_eq_of_close (x : ℚ) (k : ℤ) (h : |x - k| < 1/2) : pyRound x = k := by
  have h1 := floor_le' x
  have h2 := lt_floor_add_one' x
  rw [abs_lt] at h
  obtain ⟨ha, hb⟩ := h
  have hf : x.floor = k - 1 ∨ x.floor = k := by
    have a1 : (x.floor : ℚ) < k + 1/2 := by linarith
    have a2 : (k : ℚ) - 3/2 < x.floor := by linarith
    have b1 : x.floor < k + 1 := by
      have : (x.floor : ℚ) < (k + 1 : ℤ) := by push_cast; linarith
      exact_mod_cast this
    have b2 : k - 2 < x.floor := by
      have : ((k - 2 : ℤ) : ℚ) < x.floor := by push_cast; linarith
      exact_mod_cast this
    omega
  unfold pyRound
  simp only
  rcases hf with hf | hf
  · have : ¬ (x - (x.floor : ℚ) < 1/2) := by rw [hf]; push_cast; linarith
    have h3 : 1/2 < x - (x.floor : ℚ) := by rw [hf]; push_cast; linarith
    rw [if_neg this, if_pos h3, hf]; ring
  · have : x - (x.floor : ℚ) < 1/2 := by rw [hf]; linarith
    rw [if_pos this, hf]

/-! ### pow2 -/

theorem pow2_eq_zpow (e : ℤ) : pow2 e = (2 : ℚ) ^ e := by
  unfold pow2
  split_ifs with h
  · obtain ⟨n, rfl⟩ := Int.eq_ofNat_of_zero_le h
    simp
  · have h' : 0 ≤ -e := by omega
    obtain ⟨n, hn⟩ := Int.eq_ofNat_of_zero_le h'
    have he : e = -(n : ℤ) := by omega
    subst he
    simp

theorem pow2_pos (e : ℤ) : 0 < pow2 e := by
  rw [pow2_eq_zpow]; exact zpow_pos (by norm_num) e

theorem pow2_add_52 (e : ℤ) : pow2 (e + 52) = pow2 e * 2 ^ 52 := by
  rw [pow2_eq_zpow, pow2_eq_zpow, zpow_add₀ (by norm_num : (2 : ℚ) ≠ 0)]
  norm_cast

/-! ### fl53 -/

theorem tryExp_err {x y : ℚ} {e : ℤ} (h : tryExp x e = some y) : |y - x| ≤ x / 2 ^ 53 := by
  unfold tryExp at h
  split_ifs at h with hc
  obtain ⟨hlo, _⟩ := hc
  have hy : y = pyRound (x / pow2 e) * pow2 e := by
    injection h with h; exact h.symm
  have hp := pow2_pos e
  have hr := pyRound_err (x / pow2 e)
  have hx : x = (x / pow2 e) * pow2 e := by field_simp
  have h1 : y - x = ((pyRound (x / pow2 e) : ℚ) - x / pow2 e) * pow2 e := by
    rw [hy]; field_simp
  have h2 : |y - x| ≤ 1 / 2 * pow2 e := by
    rw [h1, abs_mul, abs_of_pos hp]
    exact mul_le_mul_of_nonneg_right hr hp.le
  rw [pow2_add_52] at hlo
  have h3 : pow2 e ≤ x / 2 ^ 52 := by
    rw [le_div_iff₀ (by positivity)]; exact hlo
  calc |y - x| ≤ 1 / 2 * pow2 e := h2
    _ ≤ 1 / 2 * (x / 2 ^ 52) := by linarith
    _ = x / 2 ^ 53 := by ring

theorem orElse_getD_prop {α : Type} (P : α → Prop) (o1 o2 o3 : Option α) (d : α)
    (h1 : ∀ y, o1 = some y → P y) (h2 : ∀ y, o2 = some y → P y)
    (h3 : ∀ y, o3 = some y → P y) (hd : P d) :
    P (((o1 <|> o2) <|> o3).getD d) := by
  cases o1 with
  | some a => simpa using h1 a rfl
  | none =>
    cases o2 with
    | some b => simpa using h2 b rfl
    | none =>
      cases o3 with
      | some c => simpa using h3 c rfl
      | none => simpa using hd

theorem flPos_err {x : ℚ} (hx : 0 < x) : |flPos x - x| ≤ x / 2 ^ 53 := by
  unfold flPos
  simp only
  apply orElse_getD_prop (fun y => |y - x| ≤ x / 2 ^ 53)
  · intro y h; exact tryExp_err h
  · intro y h; exact tryExp_err h
  · intro y h; exact tryExp_err h
  · simp only [sub_self, abs_zero]; positivity

theorem fl53_err (x : ℚ) : |fl53 x - x| ≤ |x| / 2 ^ 53 := by
  unfold fl53
  split_ifs with h0 hpos
  · subst h0; simp
  · rw [abs_of_pos hpos]; exact flPos_err hpos
  · have hneg : 0 < -x := by
      rcases lt_trichotomy x 0 with h | h | h
      · linarith
      · exact absurd h h0
      · exact absurd h hpos
    have := flPos_err hneg
    have e1 : -flPos (-x) - x = -(flPos (-x) - (-x)) := by ring
    rw [e1, abs_neg, abs_of_neg (by linarith : x < 0)]
    exact this

/-! ### milliseconds from microseconds -/

theorem ms_close (k : ℤ) (hk : |k| < 2 ^ 50) :
    |fl53 (fl53 (((k * 1000 : ℤ) : ℚ) / 1000000) * 1000) - k| < 1 / 2 := by
  have hx0 : ((k * 1000 : ℤ) : ℚ) / 1000000 = (k : ℚ) / 1000 := by
    push_cast; ring
  rw [hx0]
  have hK : |(k : ℚ)| < 2 ^ 50 := by
    have : ((|k| : ℤ) : ℚ) < ((2 ^ 50 : ℤ) : ℚ) := by exact_mod_cast hk
    push_cast at this
    exact this
  generalize hKdef : |(k : ℚ)| = K at hK
  have hK0 : 0 ≤ K := by rw [← hKdef]; exact abs_nonneg _
  have hkabs : |(k : ℚ) / 1000| = K / 1000 := by
    rw [abs_div, hKdef]; norm_num
  have hkle : (k : ℚ) ≤ K ∧ -K ≤ (k : ℚ) := by
    rw [← hKdef]; exact ⟨le_abs_self _, neg_abs_le _⟩
  generalize ha : fl53 ((k : ℚ) / 1000) = a
  have hae := fl53_err ((k : ℚ) / 1000)
  rw [ha, hkabs, abs_le] at hae
  obtain ⟨hae1, hae2⟩ := hae
  have hM : |a * 1000| ≤ K + K / 2 ^ 53 := by
    rw [abs_le]
    constructor <;> linarith [hkle.1, hkle.2]
  generalize hb : fl53 (a * 1000) = b
  have hbe := fl53_err (a * 1000)
  rw [hb] at hbe
  have hbe' : |b - a * 1000| ≤ (K + K / 2 ^ 53) / 2 ^ 53 := by
    refine le_trans hbe ?_
    exact div_le_div_of_nonneg_right hM (by positivity)
  rw [abs_le] at hbe'
  obtain ⟨hb1, hb2⟩ := hbe'
  rw [abs_lt]
  constructor <;> linarith

theorem ms_exact (k : ℤ) (hk : |k| < 2 ^ 50) : msOfMicrosFloat (k * 1000) = k := by
  unfold msOfMicrosFloat
  exact pyRound_eq_of_close _ k (ms_close k hk)

theorem ms_trunc_le (k : ℤ) (hk : 0 ≤ k) (hk2 : k < 2 ^ 50) :
    msOfMicrosFloatTrunc (k * 1000) = k ∨ msOfMicrosFloatTrunc (k * 1000) = k - 1 := by
  have habs : |k| < 2 ^ 50 := by rw [abs_of_nonneg hk]; exact hk2
  have hc := ms_close k habs
  unfold msOfMicrosFloatTrunc
  simp only
  generalize fl53 (fl53 (((k * 1000 : ℤ) : ℚ) / 1000000) * 1000) = y at hc
  rw [abs_lt] at hc
  obtain ⟨hc1, hc2⟩ := hc
  have hkq : (0 : ℚ) ≤ k := by exact_mod_cast hk
  split_ifs with hy
  · have h1 := floor_le' y
    have h2 := lt_floor_add_one' y
    have b1 : y.floor < k + 1 := by
      have : (y.floor : ℚ) < (k + 1 : ℤ) := by push_cast; linarith
      exact_mod_cast this
    have b2 : k - 2 < y.floor := by
      have : ((k - 2 : ℤ) : ℚ) < y.floor := by push_cast; linarith
      exact_mod_cast this
    omega
  · have hy' : y < 0 := not_le.mp hy
    have h1 := floor_le' (-y)
    have h2 := lt_floor_add_one' (-y)
    have k0 : k = 0 := by
      have : (k : ℚ) < (1 : ℤ) := by push_cast; linarith
      have : k < 1 := by exact_mod_cast this
      omega
    subst k0
    have b1 : (-y).floor < 1 := by
      have : ((-y).floor : ℚ) < (1 : ℤ) := by push_cast; push_cast at hc1; linarith
      exact_mod_cast this
    have b2 : -1 < (-y).floor := by
      have : ((-1 : ℤ) : ℚ) < (-y).floor := by push_cast; linarith
      exact_mod_cast this
    omega

end Kio

