import Kio.Proofs.GenSucceeds
import Kio.Pinned.Defs
/-!
Non-vacuity of `Kio.Gen.module_succeeds` / `supported_generates` on the pinned definitions.
-/
namespace Kio.Gen
open Kio

/-- the three hypotheses of `module_succeeds` -/
def gs_hyps (d : MsgDef) (v : Nat) : Bool :=
  Supported d v && flatCommon d && decide (2 * d.size + 2 ≤ maxDepth)

set_option maxRecDepth 100000 in
/-- 617 of the 666 (pinned definition, version) pairs satisfy all three hypotheses of
    `module_succeeds` — every supported pair does: all pinned definitions have flat common
    structures and sizes of at most 37 -/
theorem gs_pinned_hyps :
    ((Pinned.defs.map (fun d => ((versionsOf d).filter (fun v => gs_hyps d v)).length)).sum) = 617 ∧
    ((Pinned.defs.map (fun d => ((versionsOf d).filter (fun v => Supported d v)).length)).sum) = 617 ∧
    Pinned.defs.all (fun d => flatCommon d && decide (d.size ≤ 37)) = true := by
  decide +kernel

/-- … and for each of them generation succeeds, with distinct class names and coherent classes -/
theorem gs_pinned_generates (env : Env) (ht : env.time = TimeCfg.repaired) (b : List (List Nat)) :
    ∀ d ∈ Pinned.defs, ∀ v, gs_hyps d v = true →
      ∃ gs, module d b v = .ok gs ∧ (gs.map (·.name)).Nodup ∧
        ∀ g ∈ gs, g.schema.wf env = true ∧ g.schema.tagArrOk = true ∧ g.schema.fewFields = true := by
  intro d _ v h
  unfold gs_hyps at h
  simp only [Bool.and_eq_true, decide_eq_true_eq] at h
  exact supported_generates env ht d b v h.1.1 h.1.2 h.2

end Kio.Gen
