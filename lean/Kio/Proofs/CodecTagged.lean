import Kio.Proofs.CodecBuild
/-!
Helpers for `Schema.roundtrip`: the tagged-field section (sorting, the reader loop, `assemble`),
the untagged part, arrays and nullable entities.
-/
namespace Kio

/-! ### `sortByTag` keeps the members -/

theorem mem_insertByTag {x y : Nat × Bytes} {l : List (Nat × Bytes)} :
    y ∈ insertByTag x l ↔ y = x ∨ y ∈ l := by
  induction l with
  | nil => simp [insertByTag]
  | cons z zs ih =>
    simp only [insertByTag]
    split
    · simp
    · simp only [List.mem_cons, ih]
      constructor
      · rintro (h | h | h)
        · exact Or.inr (Or.inl h)
        · exact Or.inl h
        · exact Or.inr (Or.inr h)
      · rintro (h | h | h)
        · exact Or.inr (Or.inl h)
        · exact Or.inl h
        · exact Or.inr (Or.inr h)

theorem mem_sortByTag {y : Nat × Bytes} {l : List (Nat × Bytes)} : y ∈ sortByTag l ↔ y ∈ l := by
  induction l with
  | nil => simp [sortByTag]
  | cons z zs ih => simp only [sortByTag, mem_insertByTag, ih, List.mem_cons]

/-! ### the reader loop over well-formed items -/

/-- one item of the tagged section is consumed by one turn of the loop, yielding `val tag` -/
def ItemOk (skip : Bool) (plan : List TaggedR) (val : Nat → Value) (x : Nat × Bytes) : Prop :=
  ∀ n rest acc, readTaggedLoop skip plan (n+1) (x.2 ++ rest) acc
    = readTaggedLoop skip plan n rest ((x.1, val x.1) :: acc)

theorem readTaggedLoop_items (skip : Bool) (plan : List TaggedR) (val : Nat → Value)
    (L : List (Nat × Bytes)) (h : ∀ x ∈ L, ItemOk skip plan val x) (rest : Bytes)
    (acc : List (Nat × Value)) :
    readTaggedLoop skip plan L.length (flattenItems L ++ rest) acc
      = .ok ((L.map (fun x => (x.1, val x.1))).reverse ++ acc, rest) := by
  induction L generalizing acc with
  | nil => simp [readTaggedLoop, flattenItems]
  | cons x xs ih =>
    have hx := h x (by simp) xs.length (flattenItems xs ++ rest) acc
    have hflat : flattenItems (x :: xs) ++ rest = x.2 ++ (flattenItems xs ++ rest) := by
      simp [flattenItems]
    rw [hflat, List.length_cons, hx, ih (fun y hy => h y (by simp [hy]))]
    simp

theorem itemOk_of (skip : Bool) (plan : List TaggedR) (val : Nat → Value) (t : Nat) (item : Bytes)
    (w : Value → Except Err Bytes) (v : Value) (hw : writeTaggedField t w v = .ok item)
    (ht : t < 2 ^ 35) (e : TaggedR) (he : lookupTagged plan t = some e)
    (hr : ∀ payload, w v = .ok payload → ∀ rest, e.read (payload ++ rest) = .ok (val t, rest)) :
    ItemOk skip plan val (t, item) := by
  unfold ItemOk
  intro n rest acc
  unfold writeTaggedField at hw
  obtain ⟨payload, hp, hw⟩ := bind_ok hw
  obtain ⟨sz, hsz, hw⟩ := bind_ok hw
  simp only [pure, Except.pure] at hw
  have hw := Except.ok.inj hw
  subst hw
  have hszlt := (uvarintCtor_ok hsz).2
  simp only [readTaggedLoop, List.append_assoc]
  rw [varint_roundtrip 4 t (by rw [pow128_5]; exact ht)]
  simp only [bind, Except.bind]
  rw [varint_roundtrip 4 sz (by rw [pow128_5]; exact hszlt)]
  simp only [he, hr payload hp]

/-! ### `taggedValue` on the accumulated list -/

theorem taggedValue_hit (acc : List (Nat × Value)) (val : Nat → Value) (t : Nat) (d : Value)
    (hacc : ∀ a ∈ acc, a.2 = val a.1) (h : ∃ a ∈ acc, a.1 = t) : taggedValue acc t d = val t := by
  unfold taggedValue
  cases hf : acc.find? (fun a => decide (a.1 = t)) with
  | none =>
    obtain ⟨a, ha, hat⟩ := h
    have := List.find?_eq_none.mp hf a ha
    simp [hat] at this
  | some a =>
    have h1 := List.find?_some hf
    have h2 := List.mem_of_find?_eq_some hf
    simp only [decide_eq_true_eq] at h1
    simp only
    rw [hacc a h2, h1]

theorem taggedValue_miss (acc : List (Nat × Value)) (t : Nat) (d : Value)
    (h : ∀ a ∈ acc, a.1 ≠ t) : taggedValue acc t d = d := by
  unfold taggedValue
  cases hf : acc.find? (fun a => decide (a.1 = t)) with
  | none => rfl
  | some a =>
    have h1 := List.find?_some hf
    have h2 := List.mem_of_find?_eq_some hf
    simp only [decide_eq_true_eq] at h1
    exact absurd h1 (h a h2)

/-! ### per-field bookkeeping -/

/-- the resolved default of a (tagged) field, as the plan stores it -/
def Field.dflt (env : Env) (f : Field) : Value := (Field.taggedDefault env f).toOption.getD .none

/-- the values at the untagged positions -/
def untaggedVals : List Field → List Value → List Value
  | f :: fs, v :: vs => if f.isTagged then untaggedVals fs vs else v :: untaggedVals fs vs
  | _, _ => []

/-- the value of the first field carrying tag `t` -/
def fieldVal : List Field → List Value → Nat → Value
  | f :: fs, v :: vs, t => if f.tagNat = some t then v else fieldVal fs vs t
  | _, _, _ => .none

theorem Field.isTagged_eq (f : Field) : f.isTagged = f.tagNat.isSome := by
  cases f with
  | mk m sh => simp [Field.isTagged, Field.tagNat, FieldMeta.tagNat]

theorem Fields.readUntagged_rt (env : Env) (flex rh : Bool) (fs : List Field) (vs : List Value)
    (h : ∀ p ∈ fs.zip vs, p.1.isTagged = false → ∀ bs, Field.write env flex rh false p.1 p.2 = .ok bs →
      ∀ rest, Field.read env flex rh false p.1 (bs ++ rest) = .ok (p.2, rest))
    (a : Bytes) (hw : Fields.writeUntagged env flex rh fs vs = .ok a) (rest : Bytes) :
    Fields.readUntagged env flex rh fs (a ++ rest) = .ok (untaggedVals fs vs, rest) := by
  induction fs generalizing vs a with
  | nil =>
    cases vs with
    | nil =>
      simp only [Fields.writeUntagged] at hw
      have hw := Except.ok.inj hw
      subst hw
      simp [Fields.readUntagged, untaggedVals]
    | cons v vs => simp [Fields.writeUntagged] at hw
  | cons f fs ih =>
    cases vs with
    | nil => simp [Fields.writeUntagged] at hw
    | cons v vs =>
      have ih' := ih vs (fun p hp => h p (by simp [hp]))
      rw [Fields.writeUntagged] at hw
      rw [Fields.readUntagged, untaggedVals]
      cases ht : f.isTagged
      · simp only [ht, Bool.false_eq_true, if_false] at hw ⊢
        obtain ⟨x, hx, hw⟩ := bind_ok hw
        obtain ⟨y, hy, hw⟩ := bind_ok hw
        simp only [pure, Except.pure] at hw
        have hw := Except.ok.inj hw
        subst hw
        rw [List.append_assoc, h (f, v) (by simp) ht x hx]
        simp only [bind, Except.bind]
        rw [ih' y hy]
        rfl
      · simp only [ht, if_true] at hw ⊢
        exact ih' a hw

theorem assemble_eq (env : Env) (acc : List (Nat × Value)) (fs : List Field) (vs : List Value)
    (hlen : fs.length = vs.length)
    (h : ∀ p ∈ fs.zip vs, ∀ t, p.1.tagNat = some t → taggedValue acc t (Field.dflt env p.1) = p.2) :
    assemble (Fields.slots env fs) (untaggedVals fs vs) acc = vs := by
  induction fs generalizing vs with
  | nil =>
    cases vs with
    | nil => simp [Fields.slots, assemble]
    | cons v vs => simp at hlen
  | cons f fs ih =>
    cases vs with
    | nil => simp at hlen
    | cons v vs =>
      have ih' := ih vs (by simpa using hlen) (fun p hp => h p (by simp [hp]))
      rw [Fields.slots, untaggedVals, Field.isTagged_eq]
      cases ht : f.tagNat with
      | none =>
        simp only [Option.isSome_none, Bool.false_eq_true, if_false, assemble, ih']
      | some t =>
        simp only [Option.isSome_some, if_true, assemble, ih']
        have := h (f, v) (by simp) t ht
        simp only [Field.dflt] at this
        rw [this]


/-! ### the writer's tagged items, and tag uniqueness -/

theorem taggedItems_forall (env : Env) (flex rh : Bool) (P : Nat × Bytes → Prop)
    (fs : List Field) (vs : List Value) (items : List (Nat × Bytes))
    (hi : Fields.taggedItems env flex rh fs vs = .ok items)
    (h : ∀ p ∈ fs.zip vs, ∀ t, p.1.tagNat = some t → p.2.pyEq (Field.dflt env p.1) = false →
      ∀ item, writeTaggedField t (Field.write env flex rh true p.1) p.2 = .ok item → P (t, item)) :
    ∀ x ∈ items, P x := by
  induction fs generalizing vs items with
  | nil =>
    cases vs with
    | nil =>
      simp only [Fields.taggedItems] at hi
      have hi := Except.ok.inj hi
      subst hi
      simp
    | cons v vs => simp [Fields.taggedItems] at hi
  | cons f fs ih =>
    cases vs with
    | nil => simp [Fields.taggedItems] at hi
    | cons v vs =>
      have ih' := fun items hi => ih vs items hi (fun p hp => h p (by simp [hp]))
      rw [Fields.taggedItems] at hi
      cases ht : f.tagNat with
      | none =>
        simp only [ht] at hi
        exact ih' items hi
      | some t =>
        simp only [ht] at hi
        cases hpe : v.pyEq (Field.dflt env f)
        · simp only [Field.dflt] at hpe
          simp only [hpe, Bool.false_eq_true, if_false] at hi
          obtain ⟨item, hitem, hi⟩ := bind_ok hi
          obtain ⟨more, hmore, hi⟩ := bind_ok hi
          simp only [pure, Except.pure] at hi
          have hi := Except.ok.inj hi
          subst hi
          intro x hx
          rcases List.mem_cons.mp hx with rfl | hx
          · exact h (f, v) (by simp) t ht hpe item hitem
          · exact ih' more hmore x hx
        · simp only [Field.dflt] at hpe
          simp only [hpe, if_true] at hi
          exact ih' items hi

theorem taggedItems_exists (env : Env) (flex rh : Bool)
    (fs : List Field) (vs : List Value) (items : List (Nat × Bytes))
    (hi : Fields.taggedItems env flex rh fs vs = .ok items) :
    ∀ p ∈ fs.zip vs, ∀ t, p.1.tagNat = some t → p.2.pyEq (Field.dflt env p.1) = false →
      ∃ x ∈ items, x.1 = t := by
  induction fs generalizing vs items with
  | nil => intro p hp; simp at hp
  | cons f fs ih =>
    cases vs with
    | nil => simp [Fields.taggedItems] at hi
    | cons v vs =>
      rw [Fields.taggedItems] at hi
      intro p hp t hpt hpe
      cases ht : f.tagNat with
      | none =>
        simp only [ht] at hi
        rcases List.mem_cons.mp (by simpa using hp) with rfl | hp
        · simp only [ht] at hpt; cases hpt
        · exact ih vs items hi p hp t hpt hpe
      | some t' =>
        simp only [ht] at hi
        cases hpe' : v.pyEq (Field.dflt env f)
        · have hpe'' := hpe'
          simp only [Field.dflt] at hpe''
          simp only [hpe'', Bool.false_eq_true, if_false] at hi
          obtain ⟨item, hitem, hi⟩ := bind_ok hi
          obtain ⟨more, hmore, hi⟩ := bind_ok hi
          simp only [pure, Except.pure] at hi
          have hi := Except.ok.inj hi
          subst hi
          rcases List.mem_cons.mp (by simpa using hp) with rfl | hp
          · simp only [ht, Option.some.injEq] at hpt
            exact ⟨(t', item), by simp, hpt⟩
          · obtain ⟨x, hx, hxt⟩ := ih vs more hmore p hp t hpt hpe
            exact ⟨x, by simp [hx], hxt⟩
        · have hpe'' := hpe'
          simp only [Field.dflt] at hpe''
          simp only [hpe'', if_true] at hi
          rcases List.mem_cons.mp (by simpa using hp) with rfl | hp
          · simp only at hpe; rw [hpe] at hpe'; cases hpe'
          · exact ih vs items hi p hp t hpt hpe

theorem find_field (fs : List Field) (vs : List Value)
    (hn : (fs.filterMap Field.tagNat).Nodup) (p : Field × Value) (hp : p ∈ fs.zip vs) (t : Nat)
    (ht : p.1.tagNat = some t) :
    fs.find? (fun f => decide (f.tagNat = some t)) = some p.1 ∧ fieldVal fs vs t = p.2 := by
  induction fs generalizing vs with
  | nil => simp at hp
  | cons f fs ih =>
    cases vs with
    | nil => simp at hp
    | cons v vs =>
      rw [List.find?_cons, fieldVal]
      rcases List.mem_cons.mp (by simpa using hp) with rfl | hp
      · simp only at ht
        simp [ht]
      · by_cases hft : f.tagNat = some t
        · exfalso
          rw [List.filterMap_cons, hft] at hn
          have hmem : t ∈ fs.filterMap Field.tagNat := by
            rw [List.mem_filterMap]
            exact ⟨p.1, (List.of_mem_zip hp).1, ht⟩
          exact (List.nodup_cons.mp hn).1 hmem
        · have hn' : (fs.filterMap Field.tagNat).Nodup := by
            rw [List.filterMap_cons] at hn
            split at hn
            · exact hn
            · exact (List.nodup_cons.mp hn).2
          simp only [hft, decide_false, if_false]
          exact ih vs hn' hp

theorem lookupTagged_plan (env : Env) (flex rh : Bool) (fs : List Field) (t : Nat) :
    lookupTagged (Fields.taggedPlan env flex rh fs) t
      = (fs.find? (fun f => decide (f.tagNat = some t))).map
          (fun f => { tag := t, read := Field.read env flex rh true f, dflt := Field.dflt env f }) := by
  induction fs with
  | nil => simp [Fields.taggedPlan, lookupTagged]
  | cons f fs ih =>
    rw [Fields.taggedPlan, List.find?_cons]
    cases ht : f.tagNat with
    | none => simp only [ih]; simp
    | some t' =>
      simp only [lookupTagged, List.find?_cons]
      by_cases htt : t' = t
      · subst htt; simp [Field.dflt]
      · simp only [htt, decide_false, Option.some.injEq]
        exact ih

/-! ### arrays and nullable entities -/

theorem array_rt (flex : Bool) (ew : Value → Except Err Bytes) (er : Dec Value) (vs : List Value)
    (h : ∀ v ∈ vs, ∀ bs, ew v = .ok bs → ∀ rest, er (bs ++ rest) = .ok (v, rest))
    (bs : Bytes) (he : arrayWriter flex ew (.tuple vs) = .ok bs) (rest : Bytes) :
    arrayReader flex er (bs ++ rest) = .ok (.tuple vs, rest) := by
  cases flex
  · simp only [arrayWriter, Bool.false_eq_true, if_false, legacyArrayWriter] at he
    simp only [arrayReader, Bool.false_eq_true, if_false, legacyArrayReader, readLegacyArrayLength]
    split at he
    · obtain ⟨l, hl, he⟩ := bind_ok he
      obtain ⟨body, hb, he⟩ := bind_ok he
      simp only [pure, Except.pure] at he
      have he := Except.ok.inj he
      subst he
      rw [List.append_assoc, int_roundtrip 4 (by omega) true _ l _ hl]
      have hne : ¬ ((vs.length : Int) = -1) := by omega
      simp only [bind, Except.bind, hne, if_false, Int.toNat_natCast]
      rw [decMany_encMany' ew er vs h body hb]
      rfl
    · cases he
  · simp only [arrayWriter, if_true, compactArrayWriter, writeCompactArrayLength] at he
    simp only [arrayReader, if_true, compactArrayReader, readCompactArrayLength]
    obtain ⟨l, hl, he⟩ := bind_ok he
    obtain ⟨k, hk, hl⟩ := bind_ok hl
    obtain ⟨body, hb, he⟩ := bind_ok he
    simp only [pure, Except.pure] at he hl
    have he := Except.ok.inj he
    have hl := Except.ok.inj hl
    subst he hl
    obtain ⟨hk1, hk2⟩ := uvarintCtor_ok hk
    rw [List.append_assoc, varint_roundtrip 4 k (by rw [pow128_5]; exact hk2)]
    have hk3 : (k : Int) - 1 = (vs.length : Int) := by omega
    have hne : ¬ ((vs.length : Int) = -1) := by omega
    simp only [bind, Except.bind, pure, Except.pure, hk3, hne, if_false, Int.toNat_natCast]
    rw [decMany_encMany' ew er vs h body hb]

theorem array_none_rt (flex : Bool) (ew : Value → Except Err Bytes) (er : Dec Value)
    (bs : Bytes) (he : arrayWriter flex ew .none = .ok bs) (rest : Bytes) :
    arrayReader flex er (bs ++ rest) = .ok (.none, rest) := by
  cases flex
  · simp only [arrayWriter, Bool.false_eq_true, if_false, legacyArrayWriter] at he
    simp only [arrayReader, Bool.false_eq_true, if_false, legacyArrayReader, readLegacyArrayLength]
    rw [int_roundtrip 4 (by omega) true _ bs _ he]
    rfl
  · simp only [arrayWriter, if_true, compactArrayWriter, writeCompactArrayLength] at he
    simp only [arrayReader, if_true, compactArrayReader, readCompactArrayLength]
    obtain ⟨k, hk, he⟩ := bind_ok he
    simp only [pure, Except.pure] at he
    have he := Except.ok.inj he
    subst he
    obtain ⟨hk1, hk2⟩ := uvarintCtor_ok hk
    rw [varint_roundtrip 4 k (by rw [pow128_5]; exact hk2)]
    have hk3 : (k : Int) - 1 = -1 := by omega
    simp only [bind, Except.bind, pure, Except.pure, hk3, if_true]

theorem nullable_rt (ew : Value → Except Err Bytes) (er : Dec Value) (v : Value) (hv : v ≠ .none)
    (h : ∀ bs, ew v = .ok bs → ∀ rest, er (bs ++ rest) = .ok (v, rest))
    (bs : Bytes) (he : writeNullable ew v = .ok bs) (rest : Bytes) :
    readNullable er (bs ++ rest) = .ok (v, rest) := by
  have he' : (do let a ← encIntN 1 true 1; let b ← ew v; pure (a ++ b) : Except Err Bytes) = .ok bs := by
    cases v <;> first | exact he | exact absurd rfl hv
  obtain ⟨a, ha, he'⟩ := bind_ok he'
  obtain ⟨b, hb, he'⟩ := bind_ok he'
  simp only [pure, Except.pure] at he'
  have he' := Except.ok.inj he'
  subst he'
  unfold readNullable
  rw [List.append_assoc, int_roundtrip 1 (by omega) true _ a _ ha]
  simp only [bind, Except.bind]
  rw [if_neg (by omega), if_pos trivial]
  exact h b hb rest

theorem nullable_none_rt (ew : Value → Except Err Bytes) (er : Dec Value)
    (bs : Bytes) (he : writeNullable ew .none = .ok bs) (rest : Bytes) :
    readNullable er (bs ++ rest) = .ok (.none, rest) := by
  simp only [writeNullable] at he
  unfold readNullable
  rw [int_roundtrip 1 (by omega) true _ bs _ he]
  rfl

end Kio
