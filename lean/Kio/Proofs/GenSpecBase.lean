import Kio.Gen.Module
import Kio.Gen.DefSpec
/-!
Helper definitions and lemmas for `Kio.Proofs.GenSpec` (C16): list relations, side conditions on
definitions, inversion lemmas for the generator model (`genClass` / `genFields`) and unfolding
lemmas for the independent reading (`DefSpec.structuresBelow`).
-/
namespace Kio.Gen
open Kio

/-! ## a pointwise relation between two lists -/

def All2 {α β : Type} (R : α → β → Prop) : List α → List β → Prop
  | [], [] => True
  | a :: as, b :: bs => R a b ∧ All2 R as bs
  | _, _ => False

namespace All2
variable {α β : Type} {R S : α → β → Prop}

theorem snoc : ∀ {l₁ : List α} {l₂ : List β} {a : α} {b : β}, All2 R l₁ l₂ → R a b →
    All2 R (l₁ ++ [a]) (l₂ ++ [b])
  | [], [], _, _, _, h => ⟨h, trivial⟩
  | _ :: _, _ :: _, _, _, ⟨h1, h2⟩, h => ⟨h1, snoc h2 h⟩
  | [], _ :: _, _, _, h, _ => h.elim
  | _ :: _, [], _, _, h, _ => h.elim

theorem mono : ∀ {l₁ : List α} {l₂ : List β}, All2 R l₁ l₂ → (∀ a b, a ∈ l₁ → R a b → S a b) →
    All2 S l₁ l₂
  | [], [], _, _ => trivial
  | a :: _, _ :: _, ⟨h1, h2⟩, h =>
    ⟨h a _ (List.mem_cons_self) h1, mono h2 (fun a b ha => h a b (List.mem_cons_of_mem _ ha))⟩
  | [], _ :: _, h, _ => h.elim
  | _ :: _, [], h, _ => h.elim

theorem map_eq {γ : Type} {f : α → γ} {g : β → γ} : ∀ {l₁ : List α} {l₂ : List β}, All2 R l₁ l₂ →
    (∀ a b, a ∈ l₁ → R a b → f a = g b) → l₁.map f = l₂.map g
  | [], [], _, _ => rfl
  | a :: _, _ :: _, ⟨h1, h2⟩, h => by
    rw [List.map_cons, List.map_cons, h a _ (List.mem_cons_self) h1,
      map_eq h2 (fun a b ha => h a b (List.mem_cons_of_mem _ ha))]
  | [], _ :: _, h, _ => h.elim
  | _ :: _, [], h, _ => h.elim

theorem get : ∀ {l₁ : List α} {l₂ : List β} {i : Nat} {a : α} {b : β}, All2 R l₁ l₂ →
    l₁[i]? = some a → l₂[i]? = some b → R a b
  | [], [], _, _, _, _, h, _ => by simp at h
  | _ :: _, _ :: _, 0, _, _, ⟨h1, _⟩, ha, hb => by
    simp at ha hb; subst ha; subst hb; exact h1
  | _ :: _, _ :: _, i+1, _, _, ⟨_, h2⟩, ha, hb => by
    simp at ha hb; exact get h2 ha hb
  | [], _ :: _, _, _, _, h, _, _ => h.elim
  | _ :: _, [], _, _, _, h, _, _ => h.elim

end All2

/-! ## side conditions on a definition: a predicate on every field definition, at any depth -/

mutual
def FieldDef.allSub (P : FieldDef → Bool) : FieldDef → Bool
  | f@(.mk _ _ _ _ _ _ _ _ _ fields) => P f && allSubO P fields
def allSubO (P : FieldDef → Bool) : Option (List FieldDef) → Bool
  | none => true
  | some fs => allSubL P fs
def allSubL (P : FieldDef → Bool) : List FieldDef → Bool
  | [] => true
  | f :: fs => f.allSub P && allSubL P fs
end

/-- `P` holds of every field definition of the message and of its common structures -/
def MsgDef.allFields (d : MsgDef) (P : FieldDef → Bool) : Bool :=
  allSubL P d.fields && d.commonStructs.all (fun cs => allSubL P cs.fields)

/-- error-code names are not used for fields of a primitive-array type -/
def noErrorCodeArray (f : FieldDef) : Bool :=
  match f.ty with
  | .primArr _ => !errorCodeNames.contains f.name
  | _ => true

/-- a (non-array) field whose type is a common structure is not nullable at `v` -/
def noNullableCommonStruct (v : Nat) (f : FieldDef) : Bool :=
  match f.ty, f.fields with
  | .struct _, none => !nullableAt f v
  | _, _ => true

theorem allSubL_cons {P : FieldDef → Bool} {f : FieldDef} {rest : List FieldDef}
    (h : allSubL P (f :: rest) = true) :
    P f = true ∧ (∀ sub, f.fields = some sub → allSubL P sub = true) ∧ allSubL P rest = true := by
  rw [allSubL, Bool.and_eq_true] at h
  obtain ⟨h1, h2⟩ := h
  cases f with
  | mk n t vs nu tg tag dflt ign ent fields =>
    rw [FieldDef.allSub, Bool.and_eq_true] at h1
    refine ⟨h1.1, ?_, h2⟩
    intro sub hs
    simp only [FieldDef.fields] at hs
    subst hs
    simpa [allSubO] using h1.2

theorem allSubL_mem {P : FieldDef → Bool} : ∀ {fs : List FieldDef}, allSubL P fs = true →
    ∀ f ∈ fs, P f = true
  | [], _, _, hf => by simp at hf
  | g :: rest, h, f, hf => by
    obtain ⟨h1, _, h3⟩ := allSubL_cons h
    rcases List.mem_cons.1 hf with rfl | hf
    · exact h1
    · exact allSubL_mem h3 f hf

/-- the field list is one the side conditions on `d` speak about -/
def Reach (d : MsgDef) (fs : List FieldDef) : Prop :=
  ∀ P, d.allFields P = true → allSubL P fs = true

theorem Reach.top (d : MsgDef) : Reach d d.fields := by
  intro P h
  rw [MsgDef.allFields, Bool.and_eq_true] at h
  exact h.1

theorem Reach.cs {d : MsgDef} {cs : CommonStruct} (h : cs ∈ d.commonStructs) : Reach d cs.fields := by
  intro P hP
  rw [MsgDef.allFields, Bool.and_eq_true, List.all_eq_true] at hP
  exact hP.2 cs h

theorem Reach.rest {d : MsgDef} {f : FieldDef} {rest : List FieldDef} (h : Reach d (f :: rest)) :
    Reach d rest := fun P hP => (allSubL_cons (h P hP)).2.2

theorem Reach.sub {d : MsgDef} {f : FieldDef} {rest sub : List FieldDef} (h : Reach d (f :: rest))
    (hs : f.fields = some sub) : Reach d sub := fun P hP => (allSubL_cons (h P hP)).2.1 sub hs

theorem Reach.head {d : MsgDef} {f : FieldDef} {rest : List FieldDef} (h : Reach d (f :: rest))
    {P : FieldDef → Bool} (hP : d.allFields P = true) : P f = true := (allSubL_cons (h P hP)).1

theorem Reach.mem {d : MsgDef} {fs : List FieldDef} (h : Reach d fs)
    {P : FieldDef → Bool} (hP : d.allFields P = true) : ∀ f ∈ fs, P f = true :=
  allSubL_mem (h P hP)

/-! ## the independent reading, unfolded one step -/

/-- the structure a field refers to, as `DefSpec.structuresBelow` determines it -/
def specSub (d : MsgDef) (f : FieldDef) : Option (List Nat × List FieldDef) :=
  match f.ty with
  | .struct n | .structArr n =>
    (match f.fields with
     | some fs => some (n, fs)
     | none => (d.commonStructs.find? (·.name == n)).map (fun cs => (n, cs.fields)))
  | _ => none

/-- what `DefSpec.structuresBelow` does for one structure reference -/
def specClass (d : MsgDef) (b : List (List Nat)) (v : Nat) (fuel : Nat) (eacc : List DefSpec.ExpClass)
    (n : List Nat) (fs : List FieldDef) : List DefSpec.ExpClass :=
  if eacc.any (·.name == n) then eacc else
    let acc := DefSpec.structuresBelow d b v fuel eacc fs
    if acc.any (·.name == n) then acc else
      acc ++ [{ name := n, top := false, fields := (DefSpec.fieldsAt fs v).map (fun f => DefSpec.expField b f v) }]

theorem structuresBelow_cons (d : MsgDef) (b : List (List Nat)) (v fuel : Nat)
    (eacc : List DefSpec.ExpClass) (f : FieldDef) (rest : List FieldDef) :
    DefSpec.structuresBelow d b v (fuel+1) eacc (f :: rest) =
      if !(f.versions.matches v) then DefSpec.structuresBelow d b v fuel eacc rest else
      match specSub d f with
      | none => DefSpec.structuresBelow d b v fuel eacc rest
      | some (n, fs) => DefSpec.structuresBelow d b v fuel (specClass d b v fuel eacc n fs) rest := by
  rw [DefSpec.structuresBelow]
  split
  · rfl
  · show (match specSub d f with | none => _ | some (n, fs) => _) = _
    split
    · rfl
    · unfold specClass
      split <;> rfl

/-- one field's contribution to the expected class list -/
def specStep (d : MsgDef) (b : List (List Nat)) (v : Nat) (fuel : Nat) (eacc : List DefSpec.ExpClass) :
    Option (List Nat × List FieldDef) → List DefSpec.ExpClass
  | none => eacc
  | some (n, fs) => specClass d b v fuel eacc n fs

theorem structuresBelow_cons_step (d : MsgDef) (b : List (List Nat)) (v fuel : Nat)
    (eacc : List DefSpec.ExpClass) (f : FieldDef) (rest : List FieldDef)
    (hm : f.versions.matches v = true) :
    DefSpec.structuresBelow d b v (fuel+1) eacc (f :: rest) =
      DefSpec.structuresBelow d b v fuel (specStep d b v fuel eacc (specSub d f)) rest := by
  rw [structuresBelow_cons]
  simp only [hm, Bool.not_true, Bool.false_eq_true, if_false]
  cases specSub d f with
  | none => rfl
  | some nfs => rfl

/-! ## the field variants -/

theorem resolvePrim_primKind {name : List Nat} {p : PrimT} {k : KType} {n : List Nat}
    (h : resolvePrim name p = .ok (k, n)) : DefSpec.primKind name p = (k, n) := by
  unfold resolvePrim at h
  unfold DefSpec.primKind
  by_cases h1 : errorCodeNames.contains name = true
  · simp only [h1, if_true] at h ⊢
    split at h
    · cases h
    · cases h; rfl
  · simp only [h1] at h ⊢
    by_cases h2 : timedeltaNames.contains name = true
    · simp only [h2, if_true] at h ⊢
      cases p <;> simp at h <;> (obtain ⟨rfl, rfl⟩ := h; rfl)
    · simp only [h2] at h ⊢
      by_cases h3 : datetimeNames.contains name = true
      · simp only [h3, if_true] at h ⊢
        cases p <;> simp at h <;> (obtain ⟨rfl, rfl⟩ := h; rfl)
      · simp only [h3] at h ⊢
        by_cases h4 : endsWithMs name = true
        · simp [h4] at h
        · simp only [h4] at h
          cases p <;> simp at h <;> (obtain ⟨rfl, rfl⟩ := h; rfl)

/-- what a successful `variant` says about the JSON object -/
def VariantInfo (d : MsgDef) (f : FieldDef) : Variant → Prop
  | .prim k n => (∃ p, f.ty = .prim p ∧ resolvePrim f.name p = .ok (k, n)) ∨
      (∃ p, f.ty = .primArr p ∧ errorCodeNames.contains f.name = true ∧ k = .errorCode ∧ n = f.name)
  | .primArr p => f.ty = .primArr p ∧ errorCodeNames.contains f.name = false
  | .entArr cls fs => f.ty = .structArr cls ∧ f.fields = some fs
  | .ent cls fs => f.ty = .struct cls ∧ f.fields = some fs
  | .csArr cs => f.ty = .structArr cs.name ∧ f.fields = none ∧
      d.commonStructs.find? (·.name == cs.name) = some cs
  | .cs cs => f.ty = .struct cs.name ∧ f.fields = none ∧
      d.commonStructs.find? (·.name == cs.name) = some cs

theorem find_cs_name {l : List CommonStruct} {n : List Nat} {cs : CommonStruct}
    (h : l.find? (·.name == n) = some cs) : cs.name = n := by
  have := List.find?_some h
  simpa using this

theorem variant_info {d : MsgDef} {f : FieldDef} {var : Variant} (h : variant d f = .ok var) :
    f.tag.isSome = f.tagged.isSome ∧ VariantInfo d f var := by
  unfold variant at h
  split at h
  · cases h
  rename_i htag
  split at h
  · cases h
  refine ⟨by simpa using htag, ?_⟩
  simp only at h
  split at h
  · -- prim
    rename_i p hty
    split at h
    · cases h; rename_i k n hr; exact Or.inl ⟨p, hty, hr⟩
    · cases h
  · rename_i p hty
    split at h
    · cases h; rename_i hc; exact Or.inr ⟨p, hty, hc, rfl, rfl⟩
    · cases h; rename_i hc; exact ⟨hty, by simpa using hc⟩
  · rename_i n hty
    split at h
    · cases h; rename_i fs hf; exact ⟨hty, hf⟩
    · rename_i hf
      unfold findCS at h
      split at h
      · cases h; rename_i cs hcs
        have := find_cs_name hcs; subst this
        exact ⟨hty, hf, hcs⟩
      · cases h
  · rename_i n hty
    split at h
    · rename_i fs hf
      split at h
      · cases h; exact ⟨hty, hf⟩
      · rename_i hnd
        split at h <;> cases h
    · rename_i hf
      unfold findCS at h
      split at h
      · rename_i cs hcs
        split at h
        · cases h
          have := find_cs_name hcs; subst this
          exact ⟨hty, hf, hcs⟩
        · cases h
      · cases h

/-- the structure a field variant refers to -/
def Variant.sub : Variant → Option (List Nat × List FieldDef)
  | .prim _ _ | .primArr _ => none
  | .entArr cls fs | .ent cls fs => some (cls, fs)
  | .csArr c | .cs c => some (c.name, c.fields)

theorem variant_specSub {d : MsgDef} {f : FieldDef} {var : Variant} (h : VariantInfo d f var) :
    specSub d f = var.sub := by
  unfold specSub
  cases var <;> simp only [VariantInfo] at h <;> simp only [Variant.sub]
  · rcases h with ⟨p, h1, _⟩ | ⟨p, h1, _⟩ <;> simp [h1]
  · simp [h.1]
  · simp [h.1, h.2]
  · simp [h.1, h.2]
  · simp [h.1, h.2.1, h.2.2]
  · simp [h.1, h.2.1, h.2.2]

theorem reach_sub {d : MsgDef} {f : FieldDef} {rest : List FieldDef} {var : Variant} {n : List Nat}
    {fs : List FieldDef} (h : VariantInfo d f var) (hs : var.sub = some (n, fs))
    (hr : Reach d (f :: rest)) : Reach d fs := by
  cases var <;> simp only [VariantInfo] at h <;> simp only [Variant.sub, Option.some.injEq, Prod.mk.injEq] at hs
  · cases hs
  · cases hs
  · obtain ⟨rfl, rfl⟩ := hs; exact hr.sub h.2
  · obtain ⟨rfl, rfl⟩ := hs; exact hr.sub h.2
  · obtain ⟨rfl, rfl⟩ := hs; exact Reach.cs (List.mem_of_find?_eq_some h.2.2)
  · obtain ⟨rfl, rfl⟩ := hs; exact Reach.cs (List.mem_of_find?_eq_some h.2.2)

/-! ## the generator, unfolded one step -/

/-- the body of `genFields` for one field valid at the version (a copy of the local `one`) -/
def genOne (ctx : Ctx) (fuel : Nat) (acc : List GClass) (f : FieldDef) (var : Variant) :
    Except GenErr (List GClass × (List Nat × Field)) :=
  let tag := tagAt f ctx.v
  match var with
  | .prim k n =>
    let optional := primNullable f k ctx.v
    let custom := f.entityType.isSome
    if custom && !customIsSubclass k then .error .nameError else
    let dflt : Except GenErr (Option Value) := (match f.dflt with
      | some s => (formatDefault k s optional).map some
      | none => if tag.isSome && f.ignorable then (taggedImplicitDefault k).map some else .ok none)
    match dflt with
    | .error e => .error e
    | .ok dflt =>
      let pyName := toSnakeCase ctx.builtins n
      let leaf : PyLeaf := ⟨baseOfKType k, custom⟩
      .ok (acc, (pyName, Field.mk (mkMeta (pyName == strOf "client_id") (some k) tag (dfltOf dflt))
                   (.prim leaf (optional || k == .uuid))))
  | .primArr p =>
    let k := ktypeOfPrimT p
    let custom := f.entityType.isSome
    if custom && !customIsSubclass k then .error .nameError else
    let pyName := toSnakeCase ctx.builtins f.name
    .ok (acc, (pyName, Field.mk (mkMeta (pyName == strOf "client_id") (some k) tag (.val (.tuple [])))
                 (.primArr ⟨baseOfKType k, custom⟩ (k == .uuid) false)))
  | .entArr cls fs =>
    match genClass ctx fuel acc cls fs false with
    | .error e => .error e
    | .ok (acc, s) =>
      let pyName := toSnakeCase ctx.builtins f.name
      .ok (acc, (pyName, Field.mk (mkMeta (pyName == strOf "client_id") none tag
                   (if tag.isSome then .val (.tuple []) else .missing)) (.entArr s (nullableAt f ctx.v))))
  | .csArr cs =>
    match genClass ctx fuel acc cs.name cs.fields false with
    | .error e => .error e
    | .ok (acc, s) =>
      let pyName := toSnakeCase ctx.builtins f.name
      .ok (acc, (pyName, Field.mk (mkMeta (pyName == strOf "client_id") none tag
                   (if tag.isSome then .val (.tuple []) else .missing)) (.entArr s (nullableAt f ctx.v))))
  | .ent cls fs =>
    match genClass ctx fuel acc cls fs false with
    | .error e => .error e
    | .ok (acc, s) =>
      let optional := nullableAt f ctx.v
      let dflt : Except GenErr (Option Value) := (match f.dflt with
        | some _ => if optional then .ok (some Value.none) else .error .assertion
        | none =>
          if tag.isSome && onlyDefaults ctx.d fs then (instanceOfDefaults s).map some
          else if tag.isSome && f.ignorable then .ok (some Value.none)
          else .ok none)
      match dflt with
      | .error e => .error e
      | .ok dflt =>
        let pyName := toSnakeCase ctx.builtins f.name
        .ok (acc, (pyName, Field.mk (mkMeta (pyName == strOf "client_id") none tag (dfltOf dflt)) (.ent s optional)))
  | .cs cs =>
    match genClass ctx fuel acc cs.name cs.fields false with
    | .error e => .error e
    | .ok (acc, s) =>
      let dflt := if tag.isSome && f.ignorable then some Value.none else none
      let pyName := toSnakeCase ctx.builtins f.name
      .ok (acc, (pyName, Field.mk (mkMeta (pyName == strOf "client_id") none tag (dfltOf dflt)) (.ent s false)))

theorem genFields_cons (ctx : Ctx) (fuel : Nat) (acc : List GClass) (f : FieldDef) (rest : List FieldDef) :
    genFields ctx (fuel+1) acc (f :: rest) =
      if !(f.versions.matches ctx.v) then genFields ctx fuel acc rest else
      match variant ctx.d f with
      | .error e => .error e
      | .ok var =>
        match genOne ctx fuel acc f var with
        | .error e => .error e
        | .ok (acc1, entry) =>
          match genFields ctx fuel acc1 rest with
          | .error e => .error e
          | .ok (acc2, out) => .ok (acc2, entry :: out) := by
  rw [genFields]; rfl

theorem genFields_cons_ok {ctx : Ctx} {fuel : Nat} {acc acc' : List GClass} {f : FieldDef}
    {rest : List FieldDef} {out : List (List Nat × Field)}
    (h : genFields ctx (fuel+1) acc (f :: rest) = .ok (acc', out)) :
    (f.versions.matches ctx.v = false ∧ genFields ctx fuel acc rest = .ok (acc', out)) ∨
    (f.versions.matches ctx.v = true ∧ ∃ var acc1 entry out', variant ctx.d f = .ok var ∧
      genOne ctx fuel acc f var = .ok (acc1, entry) ∧ genFields ctx fuel acc1 rest = .ok (acc', out') ∧
      out = entry :: out') := by
  rw [genFields_cons] at h
  split at h
  · rename_i hm; exact Or.inl ⟨by simpa using hm, h⟩
  · rename_i hm
    refine Or.inr ⟨by simpa using hm, ?_⟩
    split at h
    · cases h
    · rename_i var hvar
      split at h
      · cases h
      · rename_i acc1 entry h1
        split at h
        · cases h
        · rename_i acc2 out' h2
          cases h
          exact ⟨var, acc1, entry, out', hvar, h1, h2, rfl⟩

/-- the class `genClass` appends -/
def mkClass (ctx : Ctx) (name : List Nat) (top : Bool) (acc : List GClass) (out : List (List Nat × Field)) :
    GClass :=
  { name := name, etype := if top then ctx.d.kind else .nested, version := ctx.v,
    flexible := ctx.d.flexibleVersions.matches ctx.v, apiKey := ctx.d.apiKey,
    headerVersion := headerVersionOf ctx.d ctx.v, fieldNames := out.map (·.1),
    schema := Schema.mk acc.length (ctx.d.flexibleVersions.matches ctx.v) (name == strOf "RequestHeader")
      (out.map (·.2)) }

theorem genClass_succ_ok {ctx : Ctx} {fuel : Nat} {acc acc' : List GClass} {name : List Nat}
    {fields : List FieldDef} {top : Bool} {s : Schema}
    (h : genClass ctx (fuel+1) acc name fields top = .ok (acc', s)) :
    (∃ g, acc.find? (·.name == name) = some g ∧ acc' = acc ∧ s = g.schema) ∨
    (acc.find? (·.name == name) = none ∧ ∃ acc1 out, genFields ctx fuel acc fields = .ok (acc1, out) ∧
      acc' = acc1 ++ [mkClass ctx name top acc1 out] ∧ s = (mkClass ctx name top acc1 out).schema) := by
  rw [genClass] at h
  split at h
  · rename_i g hg; cases h; exact Or.inl ⟨g, hg, rfl, rfl⟩
  · rename_i hg
    refine Or.inr ⟨hg, ?_⟩
    split at h
    · cases h
    · rename_i acc1 out h1
      cases h
      exact ⟨acc1, out, h1, rfl, rfl⟩

/-- what `genOne` returns, per variant -/
def OneInfo (ctx : Ctx) (fuel : Nat) (acc : List GClass) (f : FieldDef) (acc1 : List GClass)
    (pyName : List Nat) (fld : Field) : Variant → Prop
  | .prim k n => acc1 = acc ∧ pyName = toSnakeCase ctx.builtins n ∧ ∃ c dd leaf,
      fld = .mk (mkMeta c (some k) (tagAt f ctx.v) dd) (.prim leaf (primNullable f k ctx.v || k == .uuid))
  | .primArr p => acc1 = acc ∧ pyName = toSnakeCase ctx.builtins f.name ∧ ∃ c dd leaf eo,
      fld = .mk (mkMeta c (some (ktypeOfPrimT p)) (tagAt f ctx.v) dd) (.primArr leaf eo false)
  | .entArr cls fs => ∃ s, genClass ctx fuel acc cls fs false = .ok (acc1, s) ∧
      pyName = toSnakeCase ctx.builtins f.name ∧ ∃ c dd,
      fld = .mk (mkMeta c none (tagAt f ctx.v) dd) (.entArr s (nullableAt f ctx.v))
  | .csArr cs => ∃ s, genClass ctx fuel acc cs.name cs.fields false = .ok (acc1, s) ∧
      pyName = toSnakeCase ctx.builtins f.name ∧ ∃ c dd,
      fld = .mk (mkMeta c none (tagAt f ctx.v) dd) (.entArr s (nullableAt f ctx.v))
  | .ent cls fs => ∃ s, genClass ctx fuel acc cls fs false = .ok (acc1, s) ∧
      pyName = toSnakeCase ctx.builtins f.name ∧ ∃ c dd,
      fld = .mk (mkMeta c none (tagAt f ctx.v) dd) (.ent s (nullableAt f ctx.v))
  | .cs cs => ∃ s, genClass ctx fuel acc cs.name cs.fields false = .ok (acc1, s) ∧
      pyName = toSnakeCase ctx.builtins f.name ∧ ∃ c dd,
      fld = .mk (mkMeta c none (tagAt f ctx.v) dd) (.ent s false)

theorem genOne_ok {ctx : Ctx} {fuel : Nat} {acc acc1 : List GClass} {f : FieldDef} {var : Variant}
    {pyName : List Nat} {fld : Field} (h : genOne ctx fuel acc f var = .ok (acc1, (pyName, fld))) :
    OneInfo ctx fuel acc f acc1 pyName fld var := by
  unfold genOne at h
  cases var with
  | prim k n =>
    simp only at h
    split at h
    · cases h
    · split at h
      · cases h
      · cases h; exact ⟨rfl, rfl, _, _, _, rfl⟩
  | primArr p =>
    simp only at h
    split at h
    · cases h
    · cases h; exact ⟨rfl, rfl, _, _, _, _, rfl⟩
  | entArr cls fs =>
    simp only at h
    split at h
    · cases h
    · rename_i acc2 s hc; cases h; exact ⟨s, hc, rfl, _, _, rfl⟩
  | csArr cs =>
    simp only at h
    split at h
    · cases h
    · rename_i acc2 s hc; cases h; exact ⟨s, hc, rfl, _, _, rfl⟩
  | ent cls fs =>
    simp only at h
    split at h
    · cases h
    · rename_i acc2 s hc
      split at h
      · cases h
      · cases h; exact ⟨s, hc, rfl, _, _, rfl⟩
  | cs cs =>
    simp only at h
    split at h
    · cases h
    · rename_i acc2 s hc; cases h; exact ⟨s, hc, rfl, _, _, rfl⟩

theorem oneInfo_sub_none {ctx : Ctx} {fuel : Nat} {acc acc1 : List GClass} {f : FieldDef} {var : Variant}
    {pyName : List Nat} {fld : Field} (h : OneInfo ctx fuel acc f acc1 pyName fld var)
    (hs : var.sub = none) : acc1 = acc := by
  cases var <;> simp only [OneInfo] at h <;> simp only [Variant.sub] at hs
  · exact h.1
  · exact h.1
  all_goals cases hs

theorem oneInfo_sub_some {ctx : Ctx} {fuel : Nat} {acc acc1 : List GClass} {f : FieldDef} {var : Variant}
    {pyName : List Nat} {fld : Field} {n : List Nat} {fs : List FieldDef}
    (h : OneInfo ctx fuel acc f acc1 pyName fld var)
    (hs : var.sub = some (n, fs)) : ∃ s, genClass ctx fuel acc n fs false = .ok (acc1, s) := by
  cases var <;> simp only [OneInfo] at h <;> simp only [Variant.sub, Option.some.injEq, Prod.mk.injEq] at hs
  · cases hs
  · cases hs
  all_goals (obtain ⟨rfl, rfl⟩ := hs; obtain ⟨s, hc, _⟩ := h; exact ⟨s, hc⟩)

/-- either nothing was generated or one `genClass` call (for a nested structure) was made -/
theorem genOne_class {ctx : Ctx} {fuel : Nat} {acc acc1 : List GClass} {f : FieldDef} {var : Variant}
    {entry : List Nat × Field} (h : genOne ctx fuel acc f var = .ok (acc1, entry)) :
    acc1 = acc ∨ ∃ n fs s, genClass ctx fuel acc n fs false = .ok (acc1, s) := by
  obtain ⟨pyName, fld⟩ := entry
  have := genOne_ok h
  cases var <;> simp only [OneInfo] at this
  · exact Or.inl this.1
  · exact Or.inl this.1
  all_goals (obtain ⟨s, hs, _⟩ := this; exact Or.inr ⟨_, _, s, hs⟩)

/-! ## the class list only grows; class variables -/

def VarsOK (ctx : Ctx) (g : GClass) : Prop :=
  g.version = ctx.v ∧ g.flexible = ctx.d.flexibleVersions.matches ctx.v ∧ g.apiKey = ctx.d.apiKey
    ∧ g.headerVersion = headerVersionOf ctx.d ctx.v ∧ g.schema.flexible = ctx.d.flexibleVersions.matches ctx.v

theorem mkClass_vars (ctx : Ctx) (name : List Nat) (top : Bool) (acc : List GClass)
    (out : List (List Nat × Field)) : VarsOK ctx (mkClass ctx name top acc out) :=
  ⟨rfl, rfl, rfl, rfl, rfl⟩

theorem gen_ext (ctx : Ctx) : ∀ fuel : Nat,
    (∀ acc n fs top acc' s, genClass ctx fuel acc n fs top = .ok (acc', s) →
      ∃ ext, acc' = acc ++ ext ∧ ∀ g ∈ ext, VarsOK ctx g ∧ (top = false → g.etype = .nested)) ∧
    (∀ acc fs acc' out, genFields ctx fuel acc fs = .ok (acc', out) →
      ∃ ext, acc' = acc ++ ext ∧ ∀ g ∈ ext, VarsOK ctx g ∧ g.etype = .nested) := by
  intro fuel
  induction fuel with
  | zero =>
    refine ⟨?_, ?_⟩
    · intro acc n fs top acc' s h; rw [genClass] at h; cases h
    · intro acc fs acc' out h; rw [genFields] at h; cases h
  | succ fuel ih =>
    obtain ⟨ihC, ihF⟩ := ih
    refine ⟨?_, ?_⟩
    · intro acc n fs top acc' s h
      rcases genClass_succ_ok h with ⟨g, _, rfl, _⟩ | ⟨_, acc1, out, h1, rfl, _⟩
      · exact ⟨[], by simp, by simp⟩
      · obtain ⟨ext, rfl, hext⟩ := ihF _ _ _ _ h1
        refine ⟨ext ++ [mkClass ctx n top (acc ++ ext) out], by simp, ?_⟩
        intro g hg
        rcases List.mem_append.1 hg with hg | hg
        · exact ⟨(hext g hg).1, fun _ => (hext g hg).2⟩
        · simp only [List.mem_singleton] at hg
          subst hg
          refine ⟨mkClass_vars .., ?_⟩
          intro ht; subst ht; rfl
    · intro acc fs acc' out h
      cases fs with
      | nil => rw [genFields] at h; cases h; exact ⟨[], by simp, by simp⟩
      | cons f rest =>
        rcases genFields_cons_ok h with ⟨_, h1⟩ | ⟨_, var, acc1, entry, out', _, h1, h2, _⟩
        · exact ihF _ _ _ _ h1
        · obtain ⟨ext2, rfl, hext2⟩ := ihF _ _ _ _ h2
          rcases genOne_class h1 with rfl | ⟨n, fs, s, hc⟩
          · exact ⟨ext2, rfl, hext2⟩
          · obtain ⟨ext1, rfl, hext1⟩ := ihC _ _ _ _ _ _ hc
            refine ⟨ext1 ++ ext2, by simp, ?_⟩
            intro g hg
            rcases List.mem_append.1 hg with hg | hg
            · exact ⟨(hext1 g hg).1, (hext1 g hg).2 rfl⟩
            · exact hext2 g hg

theorem genClass_ext {ctx : Ctx} {fuel : Nat} {acc acc' : List GClass} {n : List Nat}
    {fs : List FieldDef} {top : Bool} {s : Schema} (h : genClass ctx fuel acc n fs top = .ok (acc', s)) :
    ∃ ext, acc' = acc ++ ext := by
  obtain ⟨ext, h1, _⟩ := (gen_ext ctx fuel).1 _ _ _ _ _ _ h
  exact ⟨ext, h1⟩

theorem genFields_ext {ctx : Ctx} {fuel : Nat} {acc acc' : List GClass}
    {fs : List FieldDef} {out : List (List Nat × Field)} (h : genFields ctx fuel acc fs = .ok (acc', out)) :
    ∃ ext, acc' = acc ++ ext := by
  obtain ⟨ext, h1, _⟩ := (gen_ext ctx fuel).2 _ _ _ _ h
  exact ⟨ext, h1⟩

end Kio.Gen
