import Kio.Proofs.Codec
/-!
Truncated input (C06): every strict prefix of an encoding decodes to `BufferUnderflow`.
-/
namespace Kio

/-- the plan-level statement: any strict prefix of what `Schema.write` produced makes
    `Schema.read` fail with `underflow` (never a value, never another error) -/
theorem Schema.prefix_underflow (env : Env) (ht : env.time = TimeCfg.repaired) (hfl : FloatExact)
    (s : Schema) (v : Value) (bs : Bytes) (hwf : s.wf env = true) (hv : s.valueOk env v = true)
    (he : s.write env v = .ok bs) (k : Nat) (hk : k < bs.length) :
    s.read env (bs.take k) = .error .underflow := by
  sorry

end Kio
