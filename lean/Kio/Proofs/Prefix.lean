import Kio.Proofs.Codec
import Kio.Proofs.PrefixPrim
/-!
Truncated input (C06): every strict prefix of an encoding decodes to `BufferUnderflow`.
-/
namespace Kio

/-! ### arrays and nullable entities -/

theorem decMany_pu (e : Value → Except Err Bytes) (d : Dec Value) (vs : List Value)
    (hrt : ∀ v ∈ vs, ∀ bs, e v = .ok bs → ∀ rest, d (bs ++ rest) = .ok (v, rest))
    (hpu : ∀ v ∈ vs, ∀ bs, e v = .ok bs → ∀ k, k < bs.length → d (bs.take k) = .error .underflow)
    (out : Bytes) (he : encMany e vs = .ok out) (k : Nat) (hk : k < out.length) :
    decMany d vs.length (out.take k) = .error .underflow := by
  induction vs generalizing out k with
  | nil =>
    simp only [encMany] at he
    have he := Except.ok.inj he
    subst he
    simp at hk
  | cons v vs ih =>
    obtain ⟨a, ha, he⟩ := bind_ok he
    obtain ⟨b, hb, he⟩ := bind_ok he
    simp only [pure, Except.pure] at he
    have he := Except.ok.inj he
    subst he
    rw [List.length_cons, decMany]
    refine pu_seq d _ a b v (hrt v (by simp) a ha) (hpu v (by simp) a ha) ?_ k hk
    intro j hj
    dsimp only
    rw [ih (fun x hx => hrt x (by simp [hx])) (fun x hx => hpu x (by simp [hx])) b hb j hj]
    rfl

theorem array_pu (flex : Bool) (ew : Value → Except Err Bytes) (er : Dec Value) (vs : List Value)
    (hrt : ∀ v ∈ vs, ∀ bs, ew v = .ok bs → ∀ rest, er (bs ++ rest) = .ok (v, rest))
    (hpu : ∀ v ∈ vs, ∀ bs, ew v = .ok bs → ∀ k, k < bs.length → er (bs.take k) = .error .underflow)
    (bs : Bytes) (he : arrayWriter flex ew (.tuple vs) = .ok bs) (k : Nat) (hk : k < bs.length) :
    arrayReader flex er (bs.take k) = .error .underflow := by
  cases flex
  · simp only [arrayWriter, Bool.false_eq_true, if_false, legacyArrayWriter] at he
    simp only [arrayReader, Bool.false_eq_true, if_false, legacyArrayReader, readLegacyArrayLength]
    split at he
    · obtain ⟨l, hl, he⟩ := bind_ok he
      obtain ⟨body, hb, he⟩ := bind_ok he
      simp only [pure, Except.pure] at he
      have he := Except.ok.inj he
      subst he
      have hll := encIntN_length hl
      refine pu_seq (decIntN 4 true) _ l body (vs.length : Int)
        (fun rest => int_roundtrip 4 (by omega) true _ l rest hl)
        (fun j hj => decIntN_short (by have := length_take_lt hj; omega)) ?_ k hk
      intro j hj
      have hne : ¬ ((vs.length : Int) = -1) := by omega
      dsimp only
      rw [if_neg hne, Int.toNat_natCast, decMany_pu ew er vs hrt hpu body hb j hj]
      rfl
    · cases he
  · simp only [arrayWriter, if_true, compactArrayWriter, writeCompactArrayLength] at he
    simp only [arrayReader, if_true, compactArrayReader, readCompactArrayLength]
    obtain ⟨l, hl, he⟩ := bind_ok he
    obtain ⟨n, hn, hl⟩ := bind_ok hl
    obtain ⟨body, hb, he⟩ := bind_ok he
    simp only [pure, Except.pure] at he hl
    have he := Except.ok.inj he
    have hl := Except.ok.inj hl
    subst he hl
    obtain ⟨hn1, hn2⟩ := uvarintCtor_ok hn
    have hrd : ∀ rest, (do let (n, r) ← decVarint 5 rest; pure ((n : Int) - 1, r) : Except Err (Int × Bytes))
        = (decVarint 5 rest >>= fun x => pure ((x.1 : Int) - 1, x.2)) := fun _ => rfl
    have hlen : ∀ rest, (do let (n, r) ← decVarint 5 (encVarint n ++ rest); pure ((n : Int) - 1, r)
        : Except Err (Int × Bytes)) = .ok ((vs.length : Int), rest) := by
      intro rest
      rw [varint_roundtrip 4 n (by rw [pow128_5]; exact hn2)]
      have : (n : Int) - 1 = (vs.length : Int) := by omega
      simp only [bind, Except.bind, pure, Except.pure, this]
    refine pu_seq (fun bs => do let (n, r) ← decVarint 5 bs; pure ((n : Int) - 1, r)) _
      (encVarint n) body (vs.length : Int) hlen ?_ ?_ k hk
    · intro j hj
      dsimp only
      rw [varint_prefix_underflow 4 n (by rw [pow128_5]; exact hn2) j hj]; rfl
    · intro j hj
      have hne : ¬ ((vs.length : Int) = -1) := by omega
      dsimp only
      rw [if_neg hne, Int.toNat_natCast, decMany_pu ew er vs hrt hpu body hb j hj]
      rfl

theorem array_none_pu (flex : Bool) (ew : Value → Except Err Bytes) (er : Dec Value)
    (bs : Bytes) (he : arrayWriter flex ew .none = .ok bs) (k : Nat) (hk : k < bs.length) :
    arrayReader flex er (bs.take k) = .error .underflow := by
  cases flex
  · simp only [arrayWriter, Bool.false_eq_true, if_false, legacyArrayWriter] at he
    simp only [arrayReader, Bool.false_eq_true, if_false, legacyArrayReader, readLegacyArrayLength]
    have := encIntN_length he
    rw [decIntN_short (by have := length_take_lt hk; omega)]; rfl
  · simp only [arrayWriter, if_true, compactArrayWriter, writeCompactArrayLength] at he
    simp only [arrayReader, if_true, compactArrayReader, readCompactArrayLength]
    obtain ⟨n, hn, he⟩ := bind_ok he
    simp only [pure, Except.pure] at he
    have he := Except.ok.inj he
    subst he
    obtain ⟨hn1, hn2⟩ := uvarintCtor_ok hn
    rw [varint_prefix_underflow 4 n (by rw [pow128_5]; exact hn2) k hk]; rfl

theorem nullable_pu (ew : Value → Except Err Bytes) (er : Dec Value) (v : Value) (hv : v ≠ .none)
    (hpu : ∀ bs, ew v = .ok bs → ∀ k, k < bs.length → er (bs.take k) = .error .underflow)
    (bs : Bytes) (he : writeNullable ew v = .ok bs) (k : Nat) (hk : k < bs.length) :
    readNullable er (bs.take k) = .error .underflow := by
  have he' : (do let a ← encIntN 1 true 1; let b ← ew v; pure (a ++ b) : Except Err Bytes) = .ok bs := by
    cases v <;> first | exact he | exact absurd rfl hv
  obtain ⟨a, ha, he'⟩ := bind_ok he'
  obtain ⟨b, hb, he'⟩ := bind_ok he'
  simp only [pure, Except.pure] at he'
  have he' := Except.ok.inj he'
  subst he'
  have hal := encIntN_length ha
  unfold readNullable
  refine pu_seq (decIntN 1 true) _ a b 1 (fun rest => int_roundtrip 1 (by omega) true _ a rest ha)
    (fun j hj => decIntN_short (by have := length_take_lt hj; omega)) ?_ k hk
  intro j hj
  dsimp only
  rw [if_neg (by omega), if_pos rfl]
  exact hpu b hb j hj

theorem nullable_none_pu (ew : Value → Except Err Bytes) (er : Dec Value)
    (bs : Bytes) (he : writeNullable ew .none = .ok bs) (k : Nat) (hk : k < bs.length) :
    readNullable er (bs.take k) = .error .underflow := by
  simp only [writeNullable] at he
  have := encIntN_length he
  unfold readNullable
  rw [decIntN_short (by have := length_take_lt hk; omega)]; rfl

/-! ### the untagged part -/

theorem Fields.readUntagged_pu (env : Env) (flex rh : Bool) (fs : List Field) (vs : List Value)
    (hrt : ∀ p ∈ fs.zip vs, p.1.isTagged = false → ∀ bs, Field.write env flex rh false p.1 p.2 = .ok bs →
      ∀ rest, Field.read env flex rh false p.1 (bs ++ rest) = .ok (p.2, rest))
    (hpu : ∀ p ∈ fs.zip vs, p.1.isTagged = false → ∀ bs, Field.write env flex rh false p.1 p.2 = .ok bs →
      ∀ k, k < bs.length → Field.read env flex rh false p.1 (bs.take k) = .error .underflow)
    (a : Bytes) (hw : Fields.writeUntagged env flex rh fs vs = .ok a) (k : Nat) (hk : k < a.length) :
    Fields.readUntagged env flex rh fs (a.take k) = .error .underflow := by
  induction fs generalizing vs a k with
  | nil =>
    cases vs with
    | nil =>
      simp only [Fields.writeUntagged] at hw
      have hw := Except.ok.inj hw
      subst hw
      simp at hk
    | cons v vs => simp [Fields.writeUntagged] at hw
  | cons f fs ih =>
    cases vs with
    | nil => simp [Fields.writeUntagged] at hw
    | cons v vs =>
      have ih' := ih vs (fun p hp => hrt p (by simp [hp])) (fun p hp => hpu p (by simp [hp]))
      rw [Fields.writeUntagged] at hw
      rw [Fields.readUntagged]
      cases ht : f.isTagged
      · simp only [ht, Bool.false_eq_true, if_false] at hw ⊢
        obtain ⟨x, hx, hw⟩ := bind_ok hw
        obtain ⟨y, hy, hw⟩ := bind_ok hw
        simp only [pure, Except.pure] at hw
        have hw := Except.ok.inj hw
        subst hw
        refine pu_seq (Field.read env flex rh false f) _ x y v
          (hrt (f, v) (by simp) ht x hx) (hpu (f, v) (by simp) ht x hx) ?_ k hk
        intro j hj
        dsimp only
        rw [ih' y hy j hj]
        rfl
      · simp only [ht, if_true] at hw ⊢
        exact ih' a hw k hk

/-! ### the tagged section -/

/-- a cut strictly inside one item of the tagged section makes that turn of the loop underflow -/
def ItemPU (skip : Bool) (plan : List TaggedR) (x : Nat × Bytes) : Prop :=
  ∀ n acc k, k < x.2.length → readTaggedLoop skip plan (n+1) (x.2.take k) acc = .error .underflow

theorem readTaggedLoop_pu (skip : Bool) (plan : List TaggedR) (val : Nat → Value)
    (L : List (Nat × Bytes)) (hok : ∀ x ∈ L, ItemOk skip plan val x)
    (hpu : ∀ x ∈ L, ItemPU skip plan x) (acc : List (Nat × Value))
    (k : Nat) (hk : k < (flattenItems L).length) :
    readTaggedLoop skip plan L.length ((flattenItems L).take k) acc = .error .underflow := by
  induction L generalizing acc k with
  | nil => simp [flattenItems] at hk
  | cons x xs ih =>
    have hflat : flattenItems (x :: xs) = x.2 ++ flattenItems xs := by simp [flattenItems]
    rw [hflat] at hk ⊢
    rw [List.length_cons]
    by_cases hkx : k < x.2.length
    · rw [List.take_append_of_le_length (Nat.le_of_lt hkx)]
      exact hpu x (by simp) xs.length acc k hkx
    · have hk' : k - x.2.length < (flattenItems xs).length := by
        rw [List.length_append] at hk; omega
      rw [take_append_ge _ _ k (by omega), hok x (by simp) xs.length _ acc]
      exact ih (fun y hy => hok y (by simp [hy])) (fun y hy => hpu y (by simp [hy])) _ _ hk'

theorem itemPU_of (skip : Bool) (plan : List TaggedR) (t : Nat) (item : Bytes)
    (w : Value → Except Err Bytes) (v : Value) (hw : writeTaggedField t w v = .ok item)
    (ht : t < 2 ^ 35) (e : TaggedR) (he : lookupTagged plan t = some e)
    (hr : ∀ payload, w v = .ok payload → ∀ k, k < payload.length →
      e.read (payload.take k) = .error .underflow) :
    ItemPU skip plan (t, item) := by
  unfold ItemPU
  intro n acc k hk
  unfold writeTaggedField at hw
  obtain ⟨payload, hp, hw⟩ := bind_ok hw
  obtain ⟨sz, hsz, hw⟩ := bind_ok hw
  simp only [pure, Except.pure] at hw
  have hw := Except.ok.inj hw
  subst hw
  have hszlt := (uvarintCtor_ok hsz).2
  rw [readTaggedLoop]
  dsimp only at hk ⊢
  rw [List.append_assoc] at hk ⊢
  refine pu_seq (decVarint 5) _ (encVarint t) (encVarint sz ++ payload) t
    (varint_roundtrip 4 t (by rw [pow128_5]; exact ht))
    (varint_prefix_underflow 4 t (by rw [pow128_5]; exact ht)) ?_ k hk
  intro j hj
  dsimp only
  refine pu_seq (decVarint 5) _ (encVarint sz) payload sz
    (varint_roundtrip 4 sz (by rw [pow128_5]; exact hszlt))
    (varint_prefix_underflow 4 sz (by rw [pow128_5]; exact hszlt)) ?_ j hj
  intro i hi
  dsimp only
  rw [he]
  dsimp only
  rw [hr payload hp i hi]
  rfl

theorem tagged_section_pu (env : Env) (skip flex rh : Bool) (fs : List Field) (vs : List Value)
    (hn : (fs.filterMap Field.tagNat).Nodup)
    (hwf : ∀ f ∈ fs, Field.wf env flex rh f = true)
    (hrt : ∀ p ∈ fs.zip vs, p.1.isTagged = true → ∀ payload,
      Field.write env flex rh true p.1 p.2 = .ok payload →
      ∀ rest, Field.read env flex rh true p.1 (payload ++ rest) = .ok (p.2, rest))
    (hpu : ∀ p ∈ fs.zip vs, p.1.isTagged = true → ∀ payload,
      Field.write env flex rh true p.1 p.2 = .ok payload →
      ∀ k, k < payload.length → Field.read env flex rh true p.1 (payload.take k) = .error .underflow)
    (items : List (Nat × Bytes)) (hi : Fields.taggedItems env flex rh fs vs = .ok items)
    (acc : List (Nat × Value)) (k : Nat) (hk : k < (flattenItems (sortByTag items)).length) :
    readTaggedLoop skip (Fields.taggedPlan env flex rh fs) (sortByTag items).length
        ((flattenItems (sortByTag items)).take k) acc = .error .underflow := by
  have hitems : ∀ x ∈ sortByTag items,
      ItemOk skip (Fields.taggedPlan env flex rh fs) (fieldVal fs vs) x
      ∧ ItemPU skip (Fields.taggedPlan env flex rh fs) x := by
    intro x hx
    refine taggedItems_forall env flex rh
      (fun x => ItemOk skip (Fields.taggedPlan env flex rh fs) (fieldVal fs vs) x
        ∧ ItemPU skip (Fields.taggedPlan env flex rh fs) x)
      fs vs items hi ?_ x (mem_sortByTag.mp hx)
    intro p hp t ht _ item hitem
    obtain ⟨hfind, hval⟩ := find_field fs vs hn p hp t ht
    have hlt := Field.tagNat_lt (hwf p.1 (List.of_mem_zip hp).1) ht
    have hlook : lookupTagged (Fields.taggedPlan env flex rh fs) t
        = some { tag := t, read := Field.read env flex rh true p.1, dflt := Field.dflt env p.1 } := by
      rw [lookupTagged_plan, hfind]; rfl
    have htg : p.1.isTagged = true := by rw [Field.isTagged_eq, ht]; rfl
    constructor
    · refine itemOk_of skip _ _ t item _ p.2 hitem hlt _ hlook ?_
      intro payload hpay rest'
      rw [hval]
      exact hrt p hp htg payload hpay rest'
    · refine itemPU_of skip _ t item _ p.2 hitem hlt _ hlook ?_
      intro payload hpay j hj
      exact hpu p hp htg payload hpay j hj
  exact readTaggedLoop_pu skip _ (fieldVal fs vs) (sortByTag items)
    (fun x hx => (hitems x hx).1) (fun x hx => (hitems x hx).2) acc k hk

/-! ### shapes, fields, schemas -/

def SchemaPU (env : Env) (s : Schema) : Prop :=
  ∀ v bs, s.wf env = true → s.valueOk env v = true → s.write env v = .ok bs →
    ∀ k, k < bs.length → s.read env (bs.take k) = .error .underflow

def ShapePU (env : Env) (sh : Shape) : Prop :=
  ∀ flex tagged m v bs, tagged = m.tag.isSome → Shape.wf env flex m sh = true →
    Shape.valueOk env m sh v = true → Shape.write env flex tagged m sh v = .ok bs →
    ∀ k, k < bs.length → Shape.read env flex tagged m sh (bs.take k) = .error .underflow

def FieldPU (env : Env) (f : Field) : Prop :=
  ∀ flex rh tagged v bs, tagged = f.isTagged → Field.wf env flex rh f = true →
    Field.valueOk env rh f v = true → Field.write env flex rh tagged f v = .ok bs →
    ∀ k, k < bs.length → Field.read env flex rh tagged f (bs.take k) = .error .underflow

theorem shapeRT_all (env : Env) (ht : env.time = TimeCfg.repaired) (hfl : FloatExact) :
    ∀ sh, ShapeRT env sh
  | .prim l o => shape_prim_rt env ht hfl l o
  | .primArr l e a => shape_primArr_rt env ht hfl l e a
  | .ent s o => shape_ent_rt env s o (Schema.roundtrip' env ht hfl s)
  | .entArr s a => shape_entArr_rt env s a (Schema.roundtrip' env ht hfl s)
  | .bad => by intro flex tagged m v bs _ hwf; simp [Shape.wf] at hwf

theorem fieldRT_all (env : Env) (ht : env.time = TimeCfg.repaired) (hfl : FloatExact) :
    ∀ f, FieldRT env f
  | .mk m sh => field_rt env m sh (shapeRT_all env ht hfl sh)

theorem shape_prim_pu (env : Env) (l : PyLeaf) (o : Bool) : ShapePU env (.prim l o) := by
  intro flex tagged m v bs htag hwf hvo he j hj
  simp only [Shape.wf] at hwf
  simp only [Shape.valueOk] at hvo
  split at hwf
  · rename_i k hk
    rw [hk] at hvo
    simp only at hvo
    simp only [Bool.and_eq_true] at hwf
    obtain ⟨⟨⟨⟨hl, _⟩, _⟩, hr⟩, hw⟩ := hwf
    have hsft := schemaFieldType_ok m k l hk hl
    obtain ⟨r, hr⟩ := ok_of_isSome hr
    obtain ⟨w, hw⟩ := ok_of_isSome hw
    rw [← htag] at hr hw
    simp only [Shape.write, primFieldWriter, hsft, hw] at he
    simp only [Shape.read, primFieldReaderT, hsft, hr]
    exact prim_pu env k flex _ _ w r hw hr v (primValueOk_mono env k o v hvo) bs he j hj
  · cases hwf

theorem shape_primArr_pu (env : Env) (ht : env.time = TimeCfg.repaired) (hfl : FloatExact)
    (l : PyLeaf) (e a : Bool) : ShapePU env (.primArr l e a) := by
  intro flex tagged m v bs htag hwf hvo he j hj
  simp only [Shape.wf] at hwf
  simp only [Shape.valueOk] at hvo
  split at hwf
  · rename_i k hk
    rw [hk] at hvo
    simp only at hvo
    simp only [Bool.and_eq_true] at hwf
    obtain ⟨⟨⟨⟨⟨⟨hl, _⟩, _⟩, _⟩, _⟩, hr⟩, hw⟩ := hwf
    have hsft := schemaFieldType_ok m k l hk hl
    obtain ⟨r, hr⟩ := ok_of_isSome hr
    obtain ⟨w, hw⟩ := ok_of_isSome hw
    rw [← htag] at hw
    simp only [Shape.write, primFieldWriter, hsft, hw] at he
    simp only [Shape.read, primFieldReader, hsft, hr]
    have hopt : ((!tagged && (e || a)) = true → (e || a) = true) ∨ k = .uuid := by
      left; intro h; simp only [Bool.and_eq_true] at h; exact h.2
    cases v with
    | tuple vs =>
      simp only at hvo
      refine array_pu flex _ _ vs ?_ ?_ bs he j hj
      · intro x hx xs hxs rest'
        exact prim_roundtrip' env ht hfl k flex _ _ hopt w r hw hr x
          (primValueOk_mono env k e x (allOk_mem' hvo hx)) xs hxs rest'
      · intro x hx xs hxs i hi
        exact prim_pu env k flex _ _ w r hw hr x
          (primValueOk_mono env k e x (allOk_mem' hvo hx)) xs hxs i hi
    | none => exact array_none_pu flex _ _ bs he j hj
    | _ => simp at hvo
  · cases hwf

theorem shape_ent_pu (env : Env) (s : Schema) (o : Bool) (ih : SchemaPU env s) :
    ShapePU env (.ent s o) := by
  intro flex tagged m v bs htag hwf hvo he j hj
  simp only [Shape.wf, Bool.and_eq_true] at hwf
  obtain ⟨⟨_, hto⟩, hs⟩ := hwf
  rw [← htag] at hto
  have hflag : (!tagged && o) = o := by cases tagged <;> cases o <;> simp_all
  simp only [Shape.write, hflag] at he
  simp only [Shape.read]
  by_cases hv : v = .none
  · subst hv
    rw [Shape.valueOk.eq_3] at hvo
    subst hvo
    simp only [if_true] at he ⊢
    exact nullable_none_pu _ _ bs he j hj
  · have hvo' : Schema.valueOk env s v = true := by
      rw [Shape.valueOk.eq_4 _ _ _ _ _ hv] at hvo
      exact hvo
    cases o
    · simp only [Bool.false_eq_true, if_false] at he ⊢
      exact ih v bs hs hvo' he j hj
    · simp only [if_true] at he ⊢
      exact nullable_pu _ _ v hv (fun bs' he' i hi => ih v bs' hs hvo' he' i hi) bs he j hj

theorem shape_entArr_pu (env : Env) (s : Schema) (a : Bool) (hrt : SchemaRT env s)
    (ih : SchemaPU env s) : ShapePU env (.entArr s a) := by
  intro flex tagged m v bs htag hwf hvo he j hj
  simp only [Shape.wf, Bool.and_eq_true] at hwf
  obtain ⟨⟨_, hs⟩, _⟩ := hwf
  simp only [Shape.write] at he
  simp only [Shape.read]
  rw [Shape.valueOk.eq_def] at hvo
  cases v with
  | tuple vs =>
    simp only at hvo
    refine array_pu flex _ _ vs ?_ ?_ bs he j hj
    · intro x hx xs hxs rest'
      exact hrt x xs hs (Values.allOk_mem hvo hx) hxs rest'
    · intro x hx xs hxs i hi
      exact ih x xs hs (Values.allOk_mem hvo hx) hxs i hi
  | none => exact array_none_pu flex _ _ bs he j hj
  | _ => simp at hvo

theorem field_pu (env : Env) (m : FieldMeta) (sh : Shape) (ih : ShapePU env sh) :
    FieldPU env (.mk m sh) := by
  intro flex rh tagged v bs htag hwf hvo he j hj
  obtain ⟨_, hsh, _⟩ := Field.wf_elim hwf
  rw [Field.valueOk.eq_1, Bool.and_eq_true] at hvo
  have hv1 := hvo.1
  rw [Field.write] at he
  rw [Field.read]
  cases hc : (rh && m.isClientId) <;> rw [hc] at hsh hv1 he <;>
    simp only [Bool.false_eq_true, if_false, if_true] at hsh hv1 he ⊢
  · exact ih flex tagged m v bs htag hsh hv1 he j hj
  · exact PrimR.pu env .nullableLegacyString bs (writeNullableLegacyString_framed he) j hj

theorem schema_pu (env : Env) (ht : env.time = TimeCfg.repaired) (hfl : FloatExact)
    (n : Nat) (flex rh : Bool) (fs : List Field)
    (ih : ∀ f ∈ fs, FieldPU env f) : SchemaPU env (.mk n flex rh fs) := by
  intro v bs hwf hvo he k hk
  obtain ⟨vs, rfl⟩ := Schema.valueOk_entity hvo
  rw [Schema.valueOk.eq_1] at hvo
  obtain ⟨hlen, hvz⟩ := Fields.valueOk_zip hvo
  simp only [Schema.wf, Bool.and_eq_true] at hwf
  obtain ⟨⟨hfs, hany⟩, hdup⟩ := hwf
  have hn : (fs.filterMap Field.tagNat).Nodup := by
    simpa [dupTags] using hdup
  have hfrt : ∀ (tagged : Bool), ∀ p ∈ fs.zip vs, p.1.isTagged = tagged → ∀ payload,
      Field.write env flex rh tagged p.1 p.2 = .ok payload →
      ∀ rest, Field.read env flex rh tagged p.1 (payload ++ rest) = .ok (p.2, rest) := by
    intro tagged p hp htg payload hpay rest'
    have hmem := (List.of_mem_zip hp).1
    exact fieldRT_all env ht hfl p.1 flex rh tagged p.2 payload htg.symm (Fields.wf_mem hfs hmem)
      (hvz p hp) hpay rest'
  have hfpu : ∀ (tagged : Bool), ∀ p ∈ fs.zip vs, p.1.isTagged = tagged → ∀ payload,
      Field.write env flex rh tagged p.1 p.2 = .ok payload →
      ∀ j, j < payload.length → Field.read env flex rh tagged p.1 (payload.take j) = .error .underflow := by
    intro tagged p hp htg payload hpay j hj
    have hmem := (List.of_mem_zip hp).1
    exact ih p.1 hmem flex rh tagged p.2 payload htg.symm (Fields.wf_mem hfs hmem) (hvz p hp) hpay j hj
  rw [Schema.write] at he
  obtain ⟨a, ha, he⟩ := bind_ok he
  have hun := fun rest' => Fields.readUntagged_rt env flex rh fs vs (hfrt false) a ha rest'
  have hupu := Fields.readUntagged_pu env flex rh fs vs (hfrt false) (hfpu false) a ha
  rw [Schema.read]
  show (Fields.readUntagged env flex rh fs (bs.take k) >>= _) = _
  cases flex
  · simp only [Bool.not_false, if_true, pure, Except.pure] at he
    have he := Except.ok.inj he
    subst he
    rw [hupu k hk]
    rfl
  · simp only [Bool.not_true, Bool.false_eq_true, if_false] at he
    obtain ⟨items, hi, he⟩ := bind_ok he
    obtain ⟨cnt, hcnt, he⟩ := bind_ok he
    simp only [pure, Except.pure] at he
    have he := Except.ok.inj he
    subst he
    obtain ⟨hc1, hc2⟩ := uvarintCtor_ok hcnt
    have hc3 : cnt = (sortByTag items).length := by omega
    rw [List.append_assoc] at hk ⊢
    refine pu_seq (Fields.readUntagged env true rh fs) _ a
      (encVarint cnt ++ flattenItems (sortByTag items)) (untaggedVals fs vs) hun hupu ?_ k hk
    intro j hj
    dsimp only
    simp only [Bool.not_true, Bool.false_eq_true, if_false]
    refine pu_seq (decVarint 5) _ (encVarint cnt) (flattenItems (sortByTag items)) cnt
      (varint_roundtrip 4 cnt (by rw [pow128_5]; exact hc2))
      (varint_prefix_underflow 4 cnt (by rw [pow128_5]; exact hc2)) ?_ j hj
    intro i hi'
    dsimp only
    rw [hc3, tagged_section_pu env env.skipUnknownTags true rh fs vs hn
      (fun f hf => Fields.wf_mem hfs hf) (hfrt true) (hfpu true) items hi [] i hi']
    rfl

theorem Schema.prefix_underflow_all (env : Env) (ht : env.time = TimeCfg.repaired) (hfl : FloatExact) :
    ∀ s, SchemaPU env s :=
  Schema.induct3 (PS := SchemaPU env) (PF := FieldPU env) (PSh := ShapePU env)
    (schema_pu env ht hfl) (field_pu env) (shape_prim_pu env) (shape_primArr_pu env ht hfl)
    (shape_ent_pu env)
    (fun s a ih => shape_entArr_pu env s a (Schema.roundtrip' env ht hfl s) ih)
    (by intro flex tagged m v bs _ hwf; simp [Shape.wf] at hwf)

/-- the plan-level statement: any strict prefix of what `Schema.write` produced makes
    `Schema.read` fail with `underflow` (never a value, never another error) -/
theorem Schema.prefix_underflow (env : Env) (ht : env.time = TimeCfg.repaired) (hfl : FloatExact)
    (s : Schema) (v : Value) (bs : Bytes) (hwf : s.wf env = true) (hv : s.valueOk env v = true)
    (he : s.write env v = .ok bs) (k : Nat) (hk : k < bs.length) :
    s.read env (bs.take k) = .error .underflow :=
  Schema.prefix_underflow_all env ht hfl s v bs hwf hv he k hk

end Kio
