import Kio.Proofs.RoundtripEqDefs
/-!
The plan-level round trip on *decoded-form* values (`Schema.rtOk`): the proof of
`Schema.roundtrip` redone with the weaker hypothesis.  A tagged field may hold its default
itself even when that default is not a well-typed value of the field: it is never written.
-/
namespace Kio

def rq_SchemaRT2 (env : Env) (s : Schema) : Prop :=
  ∀ v bs, s.wf env = true → s.rtOk env v = true → s.write env v = .ok bs →
    ∀ rest, s.read env (bs ++ rest) = .ok (v, rest)

def rq_ShapeRT2 (env : Env) (sh : Shape) : Prop :=
  ∀ flex tagged m v bs, tagged = m.tag.isSome → Shape.wf env flex m sh = true →
    Shape.rtOk env m sh v = true → Shape.write env flex tagged m sh v = .ok bs →
    ∀ rest, Shape.read env flex tagged m sh (bs ++ rest) = .ok (v, rest)

/-- a field that is actually written: untagged, or tagged and not `==` its default -/
def rq_FieldRT2 (env : Env) (f : Field) : Prop :=
  ∀ flex rh tagged v bs, tagged = f.isTagged → Field.wf env flex rh f = true →
    Field.rtOk env rh f v = true → (tagged = true → v.pyEq (Field.dflt env f) = false) →
    Field.write env flex rh tagged f v = .ok bs →
    ∀ rest, Field.read env flex rh tagged f (bs ++ rest) = .ok (v, rest)

/-! ### shapes -/

theorem rq_shape_prim_rt (env : Env) (ht : env.time = TimeCfg.repaired) (hfl : FloatExact)
    (l : PyLeaf) (o : Bool) : rq_ShapeRT2 env (.prim l o) := by
  intro flex tagged m v bs htag hwf hvo he rest
  refine shape_prim_rt env ht hfl l o flex tagged m v bs htag hwf ?_ he rest
  simp only [Shape.rtOk] at hvo
  simp only [Shape.valueOk]
  exact hvo

theorem rq_shape_primArr_rt (env : Env) (ht : env.time = TimeCfg.repaired) (hfl : FloatExact)
    (l : PyLeaf) (e a : Bool) : rq_ShapeRT2 env (.primArr l e a) := by
  intro flex tagged m v bs htag hwf hvo he rest
  refine shape_primArr_rt env ht hfl l e a flex tagged m v bs htag hwf ?_ he rest
  simp only [Shape.rtOk] at hvo
  simp only [Shape.valueOk]
  exact hvo

theorem rq_shape_ent_rt (env : Env) (s : Schema) (o : Bool) (ih : rq_SchemaRT2 env s) :
    rq_ShapeRT2 env (.ent s o) := by
  intro flex tagged m v bs htag hwf hvo he rest
  simp only [Shape.wf, Bool.and_eq_true] at hwf
  obtain ⟨⟨_, hto⟩, hs⟩ := hwf
  rw [← htag] at hto
  have hflag : (!tagged && o) = o := by cases tagged <;> cases o <;> simp_all
  simp only [Shape.write, hflag] at he
  simp only [Shape.read]
  by_cases hv : v = .none
  · subst hv
    rw [Shape.rtOk.eq_3] at hvo
    subst hvo
    simp only [if_true] at he ⊢
    exact nullable_none_rt _ _ bs he rest
  · have hvo' : Schema.rtOk env s v = true := by
      rw [Shape.rtOk.eq_4 _ _ _ _ _ hv] at hvo
      exact hvo
    cases o
    · simp only [Bool.false_eq_true, if_false] at he ⊢
      exact ih v bs hs hvo' he rest
    · simp only [if_true] at he ⊢
      exact nullable_rt _ _ v hv (fun bs' he' rest' => ih v bs' hs hvo' he' rest') bs he rest

theorem Values.rq_allRt_mem {env : Env} {s : Schema} {vs : List Value}
    (h : Values.allRt env s vs = true) {x : Value} (hx : x ∈ vs) : s.rtOk env x = true := by
  induction vs with
  | nil => cases hx
  | cons a as ih =>
    simp only [Values.allRt, Bool.and_eq_true] at h
    rcases List.mem_cons.mp hx with rfl | hx
    · exact h.1
    · exact ih h.2 hx

theorem rq_shape_entArr_rt (env : Env) (s : Schema) (a : Bool) (ih : rq_SchemaRT2 env s) :
    rq_ShapeRT2 env (.entArr s a) := by
  intro flex tagged m v bs htag hwf hvo he rest
  simp only [Shape.wf, Bool.and_eq_true] at hwf
  obtain ⟨⟨_, hs⟩, _⟩ := hwf
  simp only [Shape.write] at he
  simp only [Shape.read]
  rw [Shape.rtOk.eq_def] at hvo
  cases v with
  | tuple vs =>
    simp only at hvo
    refine array_rt flex _ _ vs ?_ bs he rest
    intro x hx xs hxs rest'
    exact ih x xs hs (Values.rq_allRt_mem hvo hx) hxs rest'
  | none => exact array_none_rt flex _ _ bs he rest
  | _ => simp at hvo

/-! ### fields and the tagged section -/

theorem Schema.rq_rtOk_entity {env : Env} {s : Schema} {v : Value} (h : s.rtOk env v = true) :
    ∃ vs, v = .entity vs := by
  cases s with
  | mk n flex rh fs =>
    cases v with
    | entity vs => exact ⟨vs, rfl⟩
    | _ => simp [Schema.rtOk] at h

theorem Fields.rq_rtOk_zip {env : Env} {rh : Bool} {fs : List Field} {vs : List Value}
    (h : Fields.rtOk env rh fs vs = true) :
    fs.length = vs.length ∧ ∀ p ∈ fs.zip vs, Field.rtOk env rh p.1 p.2 = true := by
  induction fs generalizing vs with
  | nil =>
    cases vs with
    | nil => simp
    | cons v vs => simp [Fields.rtOk] at h
  | cons f fs ih =>
    cases vs with
    | nil => simp [Fields.rtOk] at h
    | cons v vs =>
      simp only [Fields.rtOk, Bool.and_eq_true] at h
      obtain ⟨hl, hz⟩ := ih h.2
      refine ⟨by simp [hl], ?_⟩
      intro p hp
      rcases List.mem_cons.mp (by simpa using hp) with rfl | hp
      · exact h.1
      · exact hz p hp

/-- in decoded form, a tagged value `==` its default *is* the default -/
theorem Field.rq_rtOk_default {env : Env} {rh : Bool} {f : Field} {v : Value}
    (h : Field.rtOk env rh f v = true) {t : Nat} (ht : f.tagNat = some t)
    (hpe : v.pyEq (Field.dflt env f) = true) : v = Field.dflt env f := by
  cases f with
  | mk m sh =>
    rw [Field.rtOk.eq_1] at h
    simp only [Field.tagNat, FieldMeta.tagNat] at ht
    cases hm : m.tag with
    | none => rw [hm] at ht; cases ht
    | some i =>
      rw [hm] at h
      simp only [Field.dflt] at hpe ⊢
      simp only [hpe, if_true] at h
      exact Value.beq_sound _ _ h

/-- the part of `Field.rtOk` that speaks about the payload: it holds whenever the field is
    written (untagged, or not `==` the default) -/
theorem Field.rq_rtOk_inner {env : Env} {rh : Bool} {m : FieldMeta} {sh : Shape} {v : Value}
    (h : Field.rtOk env rh (.mk m sh) v = true)
    (hne : m.tag.isSome = true → v.pyEq (Field.dflt env (.mk m sh)) = false) :
    (if (rh && m.isClientId) = true then primValueOk env .string true v
     else Shape.rtOk env m sh v) = true := by
  rw [Field.rtOk.eq_1] at h
  cases hm : m.tag with
  | none => rw [hm] at h; exact h
  | some i =>
    rw [hm] at h
    have hne' := hne (by rw [hm]; rfl)
    simp only [Field.dflt] at hne'
    simp only [hne', Bool.false_eq_true, if_false] at h
    exact h

theorem rq_tagged_section_rt (env : Env) (skip flex rh : Bool) (fs : List Field) (vs : List Value)
    (hn : (fs.filterMap Field.tagNat).Nodup)
    (hwf : ∀ f ∈ fs, Field.wf env flex rh f = true)
    (hdef : ∀ p ∈ fs.zip vs, ∀ t, p.1.tagNat = some t →
      p.2.pyEq (Field.dflt env p.1) = true → p.2 = Field.dflt env p.1)
    (hrt : ∀ p ∈ fs.zip vs, p.1.isTagged = true → p.2.pyEq (Field.dflt env p.1) = false →
      ∀ payload, Field.write env flex rh true p.1 p.2 = .ok payload →
      ∀ rest, Field.read env flex rh true p.1 (payload ++ rest) = .ok (p.2, rest))
    (items : List (Nat × Bytes)) (hi : Fields.taggedItems env flex rh fs vs = .ok items)
    (rest : Bytes) :
    ∃ acc, readTaggedLoop skip (Fields.taggedPlan env flex rh fs) (sortByTag items).length
        (flattenItems (sortByTag items) ++ rest) [] = .ok (acc, rest)
      ∧ ∀ p ∈ fs.zip vs, ∀ t, p.1.tagNat = some t →
          taggedValue acc t (Field.dflt env p.1) = p.2 := by
  have hitems : ∀ x ∈ sortByTag items,
      ItemOk skip (Fields.taggedPlan env flex rh fs) (fieldVal fs vs) x := by
    intro x hx
    refine taggedItems_forall env flex rh _ fs vs items hi ?_ x (mem_sortByTag.mp hx)
    intro p hp t ht hpe item hitem
    obtain ⟨hfind, hval⟩ := find_field fs vs hn p hp t ht
    refine itemOk_of skip _ _ t item _ p.2 hitem
      (Field.tagNat_lt (hwf p.1 (List.of_mem_zip hp).1) ht)
      { tag := t, read := Field.read env flex rh true p.1, dflt := Field.dflt env p.1 } ?_ ?_
    · rw [lookupTagged_plan, hfind]; rfl
    · intro payload hpay rest'
      rw [hval]
      exact hrt p hp (by rw [Field.isTagged_eq, ht]; rfl) hpe payload hpay rest'
  refine ⟨_, readTaggedLoop_items skip _ (fieldVal fs vs) (sortByTag items) hitems rest [], ?_⟩
  intro p hp t ht
  have hacc : ∀ a ∈ ((sortByTag items).map (fun x => (x.1, fieldVal fs vs x.1))).reverse ++ [],
      a.2 = fieldVal fs vs a.1 := by
    intro a ha
    simp only [List.append_nil, List.mem_reverse, List.mem_map] at ha
    obtain ⟨x, _, rfl⟩ := ha
    rfl
  obtain ⟨hfind, hval⟩ := find_field fs vs hn p hp t ht
  cases hpe : p.2.pyEq (Field.dflt env p.1)
  · obtain ⟨x, hx, hxt⟩ := taggedItems_exists env flex rh fs vs items hi p hp t ht hpe
    rw [taggedValue_hit _ (fieldVal fs vs) t _ hacc, hval]
    refine ⟨(x.1, fieldVal fs vs x.1), ?_, hxt⟩
    simp only [List.append_nil, List.mem_reverse, List.mem_map]
    exact ⟨x, mem_sortByTag.mpr hx, rfl⟩
  · rw [taggedValue_miss, ← hdef p hp t ht hpe]
    intro a ha hat
    simp only [List.append_nil, List.mem_reverse, List.mem_map] at ha
    obtain ⟨x, hx, rfl⟩ := ha
    simp only at hat
    have hP := taggedItems_forall env flex rh
      (fun x => ∃ p' ∈ fs.zip vs, p'.1.tagNat = some x.1 ∧ p'.2.pyEq (Field.dflt env p'.1) = false)
      fs vs items hi (fun p' hp' t' ht' hpe' _ _ => ⟨p', hp', ht', hpe'⟩) x (mem_sortByTag.mp hx)
    obtain ⟨p', hp', ht', hpe'⟩ := hP
    rw [hat] at ht'
    obtain ⟨hfind', hval'⟩ := find_field fs vs hn p' hp' t ht'
    have e1 : p'.1 = p.1 := Option.some.inj (hfind'.symm.trans hfind)
    have e2 : p'.2 = p.2 := hval'.symm.trans hval
    rw [e1, e2, hpe] at hpe'
    cases hpe'

/-! ### fields, schemas, and the induction -/

theorem rq_field_rt (env : Env) (m : FieldMeta) (sh : Shape) (ih : rq_ShapeRT2 env sh) :
    rq_FieldRT2 env (.mk m sh) := by
  intro flex rh tagged v bs htag hwf hvo hne he rest
  obtain ⟨_, hsh, _⟩ := Field.wf_elim hwf
  have hv1 := Field.rq_rtOk_inner hvo (fun h => hne (by rw [htag]; exact h))
  rw [Field.write] at he
  rw [Field.read]
  cases hc : (rh && m.isClientId) <;> rw [hc] at hsh hv1 he <;>
    simp only [Bool.false_eq_true, if_false, if_true] at hsh hv1 he ⊢
  · exact ih flex tagged m v bs htag hsh hv1 he rest
  · cases v <;> simp [primValueOk, KType.isFixedInt] at hv1
    · exact legacyString_roundtrip true _ hv1 bs rest he
    · exact legacyString_null bs rest he

theorem rq_schema_rt (env : Env) (n : Nat) (flex rh : Bool) (fs : List Field)
    (ih : ∀ f ∈ fs, rq_FieldRT2 env f) : rq_SchemaRT2 env (.mk n flex rh fs) := by
  intro v bs hwf hvo he rest
  obtain ⟨vs, rfl⟩ := Schema.rq_rtOk_entity hvo
  rw [Schema.rtOk.eq_1] at hvo
  obtain ⟨hlen, hvz⟩ := Fields.rq_rtOk_zip hvo
  simp only [Schema.wf, Bool.and_eq_true] at hwf
  obtain ⟨⟨hfs, hany⟩, hdup⟩ := hwf
  have hn : (fs.filterMap Field.tagNat).Nodup := by
    simpa [dupTags] using hdup
  have hfrt : ∀ (tagged : Bool), ∀ p ∈ fs.zip vs, p.1.isTagged = tagged →
      (tagged = true → p.2.pyEq (Field.dflt env p.1) = false) → ∀ payload,
      Field.write env flex rh tagged p.1 p.2 = .ok payload →
      ∀ rest, Field.read env flex rh tagged p.1 (payload ++ rest) = .ok (p.2, rest) := by
    intro tagged p hp htg hne payload hpay rest'
    have hmem := (List.of_mem_zip hp).1
    exact ih p.1 hmem flex rh tagged p.2 payload htg.symm (Fields.wf_mem hfs hmem) (hvz p hp)
      hne hpay rest'
  rw [Schema.write] at he
  obtain ⟨a, ha, he⟩ := bind_ok he
  have hun := fun rest' => Fields.readUntagged_rt env flex rh fs vs
    (fun p hp htg => hfrt false p hp htg (by intro h; cases h)) a ha rest'
  rw [Schema.read]
  cases flex
  · simp only [Bool.not_false, if_true, pure, Except.pure] at he
    have he := Except.ok.inj he
    subst he
    simp only [hun rest, bind, Except.bind, Bool.not_false, if_true, pure, Except.pure]
    rw [assemble_eq env [] fs vs hlen]
    intro p hp t ht
    exfalso
    have hmem := (List.of_mem_zip hp).1
    simp only [Bool.or_false, Bool.not_eq_true', List.any_eq_false] at hany
    have := hany p.1 hmem
    rw [Field.isTagged_eq, ht] at this
    simp at this
  · simp only [Bool.not_true, Bool.false_eq_true, if_false] at he
    obtain ⟨items, hi, he⟩ := bind_ok he
    obtain ⟨cnt, hcnt, he⟩ := bind_ok he
    simp only [pure, Except.pure] at he
    have he := Except.ok.inj he
    subst he
    obtain ⟨hc1, hc2⟩ := uvarintCtor_ok hcnt
    have hc3 : cnt = (sortByTag items).length := by omega
    obtain ⟨acc, hloop, hacc⟩ := rq_tagged_section_rt env env.skipUnknownTags true rh fs vs hn
      (fun f hf => Fields.wf_mem hfs hf)
      (fun p hp t ht hpe => Field.rq_rtOk_default (hvz p hp) ht hpe)
      (fun p hp htg hne => hfrt true p hp htg (fun _ => hne)) items hi rest
    simp only [List.append_assoc, hun, bind, Except.bind, Bool.not_true, Bool.false_eq_true, if_false]
    rw [varint_roundtrip 4 cnt (by rw [pow128_5]; exact hc2)]
    simp only [hc3, hloop, pure, Except.pure]
    rw [assemble_eq env acc fs vs hlen hacc]

/-- decode ∘ encode is the identity on decoded-form values -/
theorem Schema.rq_roundtrip_rtOk (env : Env) (ht : env.time = TimeCfg.repaired) (hfl : FloatExact) :
    ∀ s, rq_SchemaRT2 env s :=
  Schema.induct3 (PS := rq_SchemaRT2 env) (PF := rq_FieldRT2 env) (PSh := rq_ShapeRT2 env)
    (rq_schema_rt env) (rq_field_rt env) (rq_shape_prim_rt env ht hfl)
    (rq_shape_primArr_rt env ht hfl) (rq_shape_ent_rt env) (rq_shape_entArr_rt env)
    (by intro flex tagged m v bs _ hwf; simp [Shape.wf] at hwf)

end Kio
