import Kio.Proofs.ForeignBase
/-!
Helpers for `Schema.accepts_foreign` (C03): the untagged part and the tagged section as a
foreign peer sends them (explicit defaults, unknown entries merged in ascending tag order).
-/
namespace Kio

/-! ### the untagged part -/

theorem untaggedF_cons (pat : Spec.ForeignPat) (flex rh : Bool) (f : Field) (fs : List Field)
    (v : Value) (vs : List Value) :
    Spec.untaggedF pat flex rh (f :: fs) (v :: vs)
      = if f.isTagged then Spec.untaggedF pat flex rh fs vs
        else (fieldSpecF pat flex rh false f v).bind (fun a =>
          (Spec.untaggedF pat flex rh fs vs).bind (fun b => some (a ++ b))) := by
  cases f with
  | mk m sh =>
    rw [Spec.untaggedF]
    simp only [Field.isTagged, fieldSpecF]
    rfl

theorem Fields.readUntagged_F (env : Env) (pat : Spec.ForeignPat) (flex rh : Bool)
    (fs : List Field) (vs : List Value)
    (h : ∀ p ∈ fs.zip vs, p.1.isTagged = false → ∀ bs, fieldSpecF pat flex rh false p.1 p.2 = some bs →
      ∀ rest, Field.read env flex rh false p.1 (bs ++ rest) = .ok (p.2, rest))
    (a : Bytes) (hw : Spec.untaggedF pat flex rh fs vs = some a) (rest : Bytes) :
    Fields.readUntagged env flex rh fs (a ++ rest) = .ok (untaggedVals fs vs, rest) := by
  induction fs generalizing vs a with
  | nil =>
    cases vs with
    | nil =>
      simp only [Spec.untaggedF] at hw
      have hw := Option.some.inj hw
      subst hw
      simp [Fields.readUntagged, untaggedVals]
    | cons v vs => simp [Spec.untaggedF] at hw
  | cons f fs ih =>
    cases vs with
    | nil => simp [Spec.untaggedF] at hw
    | cons v vs =>
      have ih' := ih vs (fun p hp => h p (by simp [hp]))
      rw [untaggedF_cons] at hw
      rw [Fields.readUntagged, untaggedVals]
      cases ht : f.isTagged
      · simp only [ht, Bool.false_eq_true, if_false] at hw ⊢
        obtain ⟨x, hx, hw⟩ := Option.bind_eq_some_iff.1 hw
        obtain ⟨y, hy, hw⟩ := Option.bind_eq_some_iff.1 hw
        have hw := Option.some.inj hw
        subst hw
        rw [List.append_assoc, h (f, v) (by simp) ht x hx]
        simp only [bind, Except.bind]
        rw [ih' y hy]
        rfl
      · simp only [ht, if_true] at hw ⊢
        exact ih' a hw

/-! ### the reader loop over known and unknown items -/

/-- one item of the tagged section is consumed by one turn of the loop; a known tag adds its value
    to the accumulator, an unknown one is skipped -/
def ItemOkF (skip : Bool) (plan : List TaggedR) (o : Option Value) (x : Nat × Bytes) : Prop :=
  ∀ n rest acc, readTaggedLoop skip plan (n+1) (x.2 ++ rest) acc
    = readTaggedLoop skip plan n rest (match o with | some v => (x.1, v) :: acc | none => acc)

def accOf (res : Nat → Option Value) (L : List (Nat × Bytes)) : List (Nat × Value) :=
  L.filterMap (fun x => (res x.1).map (fun v => (x.1, v)))

theorem mem_accOf {res : Nat → Option Value} {L : List (Nat × Bytes)} {a : Nat × Value} :
    a ∈ accOf res L ↔ ∃ x ∈ L, x.1 = a.1 ∧ res x.1 = some a.2 := by
  unfold accOf
  rw [List.mem_filterMap]
  constructor
  · rintro ⟨x, hx, hm⟩
    obtain ⟨v, hv, rfl⟩ := Option.map_eq_some_iff.1 hm
    exact ⟨x, hx, rfl, hv⟩
  · rintro ⟨x, hx, h1, h2⟩
    refine ⟨x, hx, ?_⟩
    rw [h2]
    cases a
    simp only at h1
    subst h1
    rfl

theorem readTaggedLoop_itemsF (skip : Bool) (plan : List TaggedR) (res : Nat → Option Value)
    (L : List (Nat × Bytes)) (h : ∀ x ∈ L, ItemOkF skip plan (res x.1) x) (rest : Bytes)
    (acc : List (Nat × Value)) :
    readTaggedLoop skip plan L.length (flattenItems L ++ rest) acc
      = .ok ((accOf res L).reverse ++ acc, rest) := by
  induction L generalizing acc with
  | nil => simp [readTaggedLoop, flattenItems, accOf]
  | cons x xs ih =>
    have hx := h x (by simp) xs.length (flattenItems xs ++ rest) acc
    have hflat : flattenItems (x :: xs) ++ rest = x.2 ++ (flattenItems xs ++ rest) := by
      simp [flattenItems]
    rw [hflat, List.length_cons, hx, ih (fun y hy => h y (by simp [hy]))]
    cases hr : res x.1 with
    | none => simp [accOf, hr]
    | some v => simp [accOf, hr]

theorem itemOkF_known (skip : Bool) (plan : List TaggedR) (t : Nat) (p : Bytes) (v : Value)
    (ht : t < 2 ^ 35) (hp : p.length < 2 ^ 35) (e : TaggedR) (he : lookupTagged plan t = some e)
    (hr : ∀ rest, e.read (p ++ rest) = .ok (v, rest)) :
    ItemOkF skip plan (some v) (t, Spec.taggedEntry t p) := by
  unfold ItemOkF
  intro n rest acc
  simp only [Spec.taggedEntry, ← encVarint_eq_spec, readTaggedLoop, List.append_assoc]
  rw [varint_roundtrip 4 t (by rw [pow128_5]; exact ht)]
  simp only [bind, Except.bind]
  rw [varint_roundtrip 4 p.length (by rw [pow128_5]; exact hp)]
  simp only [he, hr]

theorem itemOkF_unknown (plan : List TaggedR) (t : Nat) (p : Bytes)
    (ht : t < 2 ^ 35) (hp : p.length < 2 ^ 35) (he : lookupTagged plan t = none) :
    ItemOkF true plan none (t, Spec.taggedEntry t p) := by
  unfold ItemOkF
  intro n rest acc
  simp only [Spec.taggedEntry, ← encVarint_eq_spec, readTaggedLoop, List.append_assoc]
  rw [varint_roundtrip 4 t (by rw [pow128_5]; exact ht)]
  simp only [bind, Except.bind]
  rw [varint_roundtrip 4 p.length (by rw [pow128_5]; exact hp)]
  simp only [he, if_true, readExact_append]

/-! ### the entries a foreign peer sends -/

/-- the peer sends the tagged field explicitly -/
def sentB (env : Env) (pat : Spec.ForeignPat) (f : Field) (v : Value) : Bool :=
  !(v.pyEq (Field.dflt env f) && !pat.sendDefaults)

theorem taggedEntriesF_cons_inv (env : Env) (pat : Spec.ForeignPat) (flex : Bool) (m : FieldMeta)
    (sh : Shape) (fs : List Field) (v : Value) (vs : List Value) (entries : List (Nat × Bytes))
    (hd : m.tag.isSome = true → Spec.defaultOfField (.mk m sh) = some (Field.dflt env (.mk m sh)))
    (hi : Spec.taggedEntriesF pat flex (.mk m sh :: fs) (v :: vs) = some entries) :
    (m.tag = none ∧ Spec.taggedEntriesF pat flex fs vs = some entries)
    ∨ (∃ t, m.tag = some t ∧ sentB env pat (.mk m sh) v = false
        ∧ Spec.taggedEntriesF pat flex fs vs = some entries)
    ∨ (∃ t payload more, m.tag = some t ∧ sentB env pat (.mk m sh) v = true
        ∧ Spec.fieldBytesF pat flex true m sh v = some payload
        ∧ Spec.taggedEntriesF pat flex fs vs = some more
        ∧ 0 ≤ t ∧ payload.length < 2 ^ 35
        ∧ entries = (t.toNat, Spec.taggedEntry t.toNat payload) :: more) := by
  rw [Spec.taggedEntriesF] at hi
  rcases opt_cases m.tag with htag | ⟨t, htag⟩
  · simp only [htag] at hi
    exact Or.inl ⟨htag, hi⟩
  · right
    have hd' := hd (by rw [htag]; rfl)
    simp only [htag] at hi
    rw [hd'] at hi
    simp only [Option.bind_eq_bind, Option.bind_some] at hi
    cases hc : (v.pyEq (Field.dflt env (.mk m sh)) && !pat.sendDefaults)
    · rw [hc] at hi
      simp only [Bool.false_eq_true, if_false] at hi
      right
      rcases opt_cases (Spec.fieldBytesF pat flex true m sh v) with hp | ⟨payload, hp⟩
      · rw [hp] at hi; simp at hi
      · rcases opt_cases (Spec.taggedEntriesF pat flex fs vs) with hm | ⟨more, hm⟩
        · rw [hp, hm] at hi; simp at hi
        · rw [hp, hm] at hi
          simp only [Option.bind_some] at hi
          by_cases hcc : 0 ≤ t ∧ payload.length < 2 ^ 35
          · rw [if_pos hcc] at hi
            have hi := Option.some.inj hi
            exact ⟨t, payload, more, htag, by simp [sentB, hc], hp, hm, hcc.1, hcc.2, hi.symm⟩
          · rw [if_neg hcc] at hi; cases hi
    · rw [hc] at hi
      simp only [if_true] at hi
      exact Or.inl ⟨t, htag, by simp [sentB, hc], hi⟩

theorem taggedEntriesF_forall (env : Env) (pat : Spec.ForeignPat) (flex : Bool)
    (P : Nat × Bytes → Prop) (fs : List Field) (vs : List Value) (entries : List (Nat × Bytes))
    (hd : ∀ f ∈ fs, f.isTagged = true → Spec.defaultOfField f = some (Field.dflt env f))
    (hi : Spec.taggedEntriesF pat flex fs vs = some entries)
    (h : ∀ p ∈ fs.zip vs, ∀ t, p.1.tagNat = some t → sentB env pat p.1 p.2 = true → ∀ payload,
      Spec.fieldBytesF pat flex true p.1.meta p.1.shape p.2 = some payload →
      payload.length < 2 ^ 35 → P (t, Spec.taggedEntry t payload)) :
    ∀ x ∈ entries, P x := by
  induction fs generalizing vs entries with
  | nil =>
    cases vs with
    | nil =>
      simp only [Spec.taggedEntriesF] at hi
      have hi := Option.some.inj hi
      subst hi
      simp
    | cons v vs => simp [Spec.taggedEntriesF] at hi
  | cons f fs ih =>
    cases vs with
    | nil => simp [Spec.taggedEntriesF] at hi
    | cons v vs =>
      have ih' := fun entries hi => ih vs entries (fun g hg => hd g (by simp [hg])) hi
        (fun p hp => h p (by simp [hp]))
      cases f with
      | mk m sh =>
        rcases taggedEntriesF_cons_inv env pat flex m sh fs v vs entries
          (fun hs => hd (.mk m sh) (by simp) (by simpa [Field.isTagged] using hs)) hi with
          ⟨_, hrec⟩ | ⟨t, _, _, hrec⟩ | ⟨t, payload, more, htag, hsent, hp, hrec, _, hlen, rfl⟩
        · exact ih' entries hrec
        · exact ih' entries hrec
        · intro x hx
          rcases List.mem_cons.mp hx with rfl | hx
          · exact h (.mk m sh, v) (by simp) t.toNat (by simp [Field.tagNat, FieldMeta.tagNat, htag])
              hsent payload hp hlen
          · exact ih' more hrec x hx

theorem taggedEntriesF_exists (env : Env) (pat : Spec.ForeignPat) (flex : Bool)
    (fs : List Field) (vs : List Value) (entries : List (Nat × Bytes))
    (hd : ∀ f ∈ fs, f.isTagged = true → Spec.defaultOfField f = some (Field.dflt env f))
    (hi : Spec.taggedEntriesF pat flex fs vs = some entries) :
    ∀ p ∈ fs.zip vs, ∀ t, p.1.tagNat = some t → sentB env pat p.1 p.2 = true →
      ∃ x ∈ entries, x.1 = t := by
  induction fs generalizing vs entries with
  | nil => intro p hp; simp at hp
  | cons f fs ih =>
    cases vs with
    | nil => simp [Spec.taggedEntriesF] at hi
    | cons v vs =>
      have ih' := fun entries hi => ih vs entries (fun g hg => hd g (by simp [hg])) hi
      intro p hp t hpt hsent
      cases f with
      | mk m sh =>
        rcases taggedEntriesF_cons_inv env pat flex m sh fs v vs entries
          (fun hs => hd (.mk m sh) (by simp) (by simpa [Field.isTagged] using hs)) hi with
          ⟨htag, hrec⟩ | ⟨t', htag, hns, hrec⟩ | ⟨t', payload, more, htag, _, _, hrec, _, _, rfl⟩
        · rcases List.mem_cons.mp (by simpa using hp) with rfl | hp
          · simp [Field.tagNat, FieldMeta.tagNat, htag] at hpt
          · exact ih' entries hrec p hp t hpt hsent
        · rcases List.mem_cons.mp (by simpa using hp) with rfl | hp
          · simp only at hsent; rw [hns] at hsent; cases hsent
          · exact ih' entries hrec p hp t hpt hsent
        · rcases List.mem_cons.mp (by simpa using hp) with rfl | hp
          · simp only [Field.tagNat, FieldMeta.tagNat, htag, Option.map_some, Option.some.injEq] at hpt
            exact ⟨(t'.toNat, Spec.taggedEntry t'.toNat payload), List.mem_cons_self, hpt⟩
          · obtain ⟨x, hx, hxt⟩ := ih' more hrec p hp t hpt hsent
            exact ⟨x, by simp [hx], hxt⟩

/-! ### the tagged section -/

theorem mem_ascending {y : Nat × Bytes} {l : List (Nat × Bytes)} : y ∈ Spec.ascending l ↔ y ∈ l := by
  rw [← sortByTag_eq_ascending]; exact mem_sortByTag

theorem find_none_of_no_tag (fs : List Field) (t : Nat) (h : ∀ f ∈ fs, f.tagNat ≠ some t) :
    fs.find? (fun f => decide (f.tagNat = some t)) = none := by
  rw [List.find?_eq_none]
  intro f hf
  simpa using h f hf

theorem tagged_section_F (env : Env) (pat : Spec.ForeignPat) (hpat : pat.ok = true)
    (flex rh : Bool) (fs : List Field) (vs : List Value)
    (hn : (fs.filterMap Field.tagNat).Nodup)
    (hwf : ∀ f ∈ fs, Field.wf env flex rh f = true)
    (hav : ∀ f ∈ fs, ∀ t, f.tagNat = some t → t ∉ utags pat)
    (hd : ∀ f ∈ fs, f.isTagged = true → Spec.defaultOfField f = some (Field.dflt env f))
    (hvo : ∀ p ∈ fs.zip vs, Field.valueOk env rh p.1 p.2 = true)
    (hrt : ∀ p ∈ fs.zip vs, p.1.isTagged = true → ∀ payload,
      Spec.fieldBytesF pat flex true p.1.meta p.1.shape p.2 = some payload →
      ∀ rest, Field.read env flex rh true p.1 (payload ++ rest) = .ok (p.2, rest))
    (entries : List (Nat × Bytes)) (hi : Spec.taggedEntriesF pat flex fs vs = some entries)
    (rest : Bytes) :
    ∃ acc, readTaggedLoop true (Fields.taggedPlan env flex rh fs)
        (Spec.ascending (entries ++ Spec.unknownEntries pat)).length
        (((Spec.ascending (entries ++ Spec.unknownEntries pat)).map (·.2)).flatten ++ rest) []
          = .ok (acc, rest)
      ∧ ∀ p ∈ fs.zip vs, ∀ t, p.1.tagNat = some t →
          taggedValue acc t (Field.dflt env p.1) = p.2 := by
  -- what the loop records for a tag: the field's value if some field carries it
  let res : Nat → Option Value := fun t =>
    (fs.find? (fun f => decide (f.tagNat = some t))).map (fun _ => fieldVal fs vs t)
  have hres_known : ∀ p ∈ fs.zip vs, ∀ t, p.1.tagNat = some t → res t = some p.2 := by
    intro p hp t ht
    obtain ⟨hfind, hval⟩ := find_field fs vs hn p hp t ht
    show Option.map _ _ = _
    rw [hfind, Option.map_some, hval]
  have hres_val : ∀ t v, res t = some v → v = fieldVal fs vs t := by
    intro t v h
    obtain ⟨_, _, h2⟩ := Option.map_eq_some_iff.1 h
    exact h2.symm
  have hunk : ∀ q ∈ pat.unknown, q.1 < 2 ^ 35 ∧ q.2.length < 2 ^ 35 := by
    intro q hq
    unfold Spec.ForeignPat.ok at hpat
    rw [Bool.and_eq_true, List.all_eq_true] at hpat
    have := hpat.2 q hq
    simpa using this
  have hres_unknown : ∀ q ∈ pat.unknown, fs.find? (fun f => decide (f.tagNat = some q.1)) = none := by
    intro q hq
    apply find_none_of_no_tag
    intro f hf hft
    exact hav f hf q.1 hft (List.mem_map.2 ⟨q, hq, rfl⟩)
  have hitems : ∀ x ∈ Spec.ascending (entries ++ Spec.unknownEntries pat),
      ItemOkF true (Fields.taggedPlan env flex rh fs) (res x.1) x := by
    intro x hx
    rcases List.mem_append.1 (mem_ascending.1 hx) with hx | hx
    · refine taggedEntriesF_forall env pat flex
        (fun y => ItemOkF true (Fields.taggedPlan env flex rh fs) (res y.1) y) fs vs entries hd hi ?_ x hx
      intro p hp t ht _ payload hpay hlen
      obtain ⟨hfind, hval⟩ := find_field fs vs hn p hp t ht
      show ItemOkF true _ (res t) (t, Spec.taggedEntry t payload)
      rw [hres_known p hp t ht]
      refine itemOkF_known true _ t payload p.2 (Field.tagNat_lt (hwf p.1 (List.of_mem_zip hp).1) ht) hlen
        { tag := t, read := Field.read env flex rh true p.1, dflt := Field.dflt env p.1 } ?_ ?_
      · rw [lookupTagged_plan, hfind]; rfl
      · intro rest'
        exact hrt p hp (by rw [Field.isTagged_eq, ht]; rfl) payload hpay rest'
    · unfold Spec.unknownEntries at hx
      obtain ⟨q, hq, rfl⟩ := List.mem_map.1 hx
      have hnone := hres_unknown q hq
      have hr : res q.1 = none := by
        show Option.map _ _ = _
        rw [hnone]; rfl
      show ItemOkF true _ (res q.1) (q.1, Spec.taggedEntry q.1 q.2)
      rw [hr]
      refine itemOkF_unknown _ q.1 q.2 (hunk q hq).1 (hunk q hq).2 ?_
      rw [lookupTagged_plan, hnone]; rfl
  refine ⟨_, readTaggedLoop_itemsF true _ res _ hitems rest [], ?_⟩
  intro p hp t ht
  have hacc : ∀ a ∈ (accOf res (Spec.ascending (entries ++ Spec.unknownEntries pat))).reverse ++ [],
      a.2 = fieldVal fs vs a.1 := by
    intro a ha
    simp only [List.append_nil, List.mem_reverse] at ha
    obtain ⟨x, _, h1, h2⟩ := mem_accOf.1 ha
    rw [← h1]
    exact hres_val _ _ h2
  obtain ⟨hfind, hval⟩ := find_field fs vs hn p hp t ht
  cases hs : sentB env pat p.1 p.2
  · -- not sent: the value is (structurally) the default, and no entry carries the tag
    have hpe : p.2.pyEq (Field.dflt env p.1) = true := by
      unfold sentB at hs
      cases h1 : p.2.pyEq (Field.dflt env p.1)
      · rw [h1] at hs; simp at hs
      · rfl
    rw [taggedValue_miss, ← Field.valueOk_default (hvo p hp) ht hpe]
    intro a ha hat
    simp only [List.append_nil, List.mem_reverse] at ha
    obtain ⟨x, hx, h1, _⟩ := mem_accOf.1 ha
    rw [hat] at h1
    rcases List.mem_append.1 (mem_ascending.1 hx) with hx | hx
    · have hP := taggedEntriesF_forall env pat flex
        (fun x => ∃ p' ∈ fs.zip vs, p'.1.tagNat = some x.1 ∧ sentB env pat p'.1 p'.2 = true)
        fs vs entries hd hi (fun p' hp' t' ht' hs' _ _ _ => ⟨p', hp', ht', hs'⟩) x hx
      obtain ⟨p', hp', ht', hs'⟩ := hP
      rw [h1] at ht'
      obtain ⟨hfind', hval'⟩ := find_field fs vs hn p' hp' t ht'
      have e1 : p'.1 = p.1 := Option.some.inj (hfind'.symm.trans hfind)
      have e2 : p'.2 = p.2 := hval'.symm.trans hval
      rw [e1, e2, hs] at hs'
      cases hs'
    · unfold Spec.unknownEntries at hx
      obtain ⟨q, hq, rfl⟩ := List.mem_map.1 hx
      simp only at h1
      exact hav p.1 (List.of_mem_zip hp).1 t ht (List.mem_map.2 ⟨q, hq, h1⟩)
  · obtain ⟨x, hx, hxt⟩ := taggedEntriesF_exists env pat flex fs vs entries hd hi p hp t ht hs
    rw [taggedValue_hit _ (fieldVal fs vs) t _ hacc, hval]
    refine ⟨(t, p.2), ?_, rfl⟩
    simp only [List.append_nil, List.mem_reverse]
    refine mem_accOf.2 ⟨x, mem_ascending.2 (List.mem_append.2 (Or.inl hx)), hxt, ?_⟩
    rw [hxt]
    exact hres_known p hp t ht

end Kio
