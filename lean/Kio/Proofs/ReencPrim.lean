import Kio.Proofs.Prim
import Kio.Proofs.DecodePrim
import Kio.Model.Typing
/-!
Re-encodability of the primitives: whatever a primitive reader returns (for arbitrary bytes) is
accepted by the writer the dispatch table pairs it with, and the re-encoding is not longer than
what the reader consumed.
-/
namespace Kio

/-- tight form: the re-encoding is not longer than what was consumed -/
def RW1 (r : Dec Value) (w : Value → Except Err Bytes) : Prop :=
  ∀ bs v rest, r bs = .ok (v, rest) → ∃ b, w v = .ok b ∧ b.length + rest.length ≤ bs.length

/-- the same, except that a decoded `None` need not be accepted -/
def RW1n (r : Dec Value) (w : Value → Except Err Bytes) : Prop :=
  ∀ bs v rest, r bs = .ok (v, rest) →
    (v = .none ∧ rest.length ≤ bs.length) ∨ ∃ b, w v = .ok b ∧ b.length + rest.length ≤ bs.length

theorem ok_bind_re {ε α β} (a : α) (f : α → Except ε β) : (Except.ok a >>= f) = f a := rfl

/-! ### varints -/

theorem encVarint_length_pos (n : Nat) : 0 < (encVarint n).length := by
  rw [encVarint]; split <;> simp

/-- the reader consumed at least as many bytes as the minimal encoding has -/
theorem decVarint_consumed {k : Nat} {bs : Bytes} {n : Nat} {r : Bytes}
    (h : decVarint k bs = .ok (n, r)) : (encVarint n).length + r.length ≤ bs.length := by
  induction k generalizing bs n r with
  | zero => simp [decVarint] at h
  | succ k ih =>
    cases bs with
    | nil => simp [decVarint] at h
    | cons b bs =>
      simp only [decVarint] at h
      have hb : b.toNat < 256 := b.toNat_lt
      split at h
      · rename_i hlt
        injection h with h; injection h with h1 h2; subst h1 h2
        rw [encVarint, dif_pos hlt]; simp only [List.length_cons, List.length_nil]; omega
      · rename_i hge
        split at h
        · rename_i hi rest' heq
          injection h with h; injection h with h1 h2; subst h1 h2
          have := ih heq
          rw [encVarint]
          split
          · have := encVarint_length_pos hi
            simp only [List.length_cons, List.length_nil]; omega
          · have e : (b.toNat - 128 + 128 * hi) / 128 = hi := by omega
            rw [e]; simp only [List.length_cons]; omega
        · contradiction

theorem encVarint_length_mono {m n : Nat} (h : m ≤ n) :
    (encVarint m).length ≤ (encVarint n).length := by
  have hp := encVarint_length_pos n
  obtain ⟨k, hk⟩ : ∃ k, (encVarint n).length = k + 1 := ⟨(encVarint n).length - 1, by omega⟩
  have h1 := (varint_length_le k n).mp (by omega)
  have h2 := (varint_length_le k m).mpr (by omega)
  omega

theorem encVarint_length_le5 {n : Nat} (h : n < 2 ^ 35) : (encVarint n).length ≤ 5 :=
  (varint_length_le 4 n).mpr (by rw [pow128_5]; exact h)

theorem uvarintCtor_nat {x : Int} (n : Nat) (hx : x = (n : Int)) (h : n < 2 ^ 35) :
    uvarintCtor x = .ok n := by
  subst hx
  unfold uvarintCtor
  have h35 : ((2 ^ 35 : Nat) : Int) = 2 ^ 35 := by norm_cast
  rw [if_pos (by constructor <;> omega)]
  simp

/-! ### fixed-width integers -/

theorem decIntN_range {w : Nat} {s : Bool} {bs : Bytes} {v : Int} {r : Bytes} (hw : 0 < w)
    (h : decIntN w s bs = .ok (v, r)) :
    intLo w s ≤ v ∧ v ≤ intHi w s ∧ w + r.length = bs.length := by
  unfold decIntN at h
  obtain ⟨⟨a, r'⟩, h1, h2⟩ := bind_ok h
  obtain ⟨hbs, hl⟩ := readExact_ok h1
  simp only [pure, Except.pure] at h2
  injection h2 with h2; injection h2 with h2 h3; subst h3
  have hal : a.length = w := by exact_mod_cast hl
  have hlt := beNat_lt a
  rw [hal, pow8] at hlt
  obtain ⟨P, hP⟩ : ∃ P : Nat, 2 ^ (8 * w - 1) = P := ⟨_, rfl⟩
  have hM : (2 : Nat) ^ (8 * w) = 2 * P := by
    rw [← hP, ← Nat.pow_succ']; congr 1; omega
  have hPi : (2 : Int) ^ (8 * w - 1) = (P : Int) := by rw [← hP]; norm_cast
  have hMi : (2 : Int) ^ (8 * w) = 2 * (P : Int) := by
    have : ((2 ^ (8 * w) : Nat) : Int) = ((2 * P : Nat) : Int) := by rw [hM]
    push_cast at this; exact this
  rw [hM] at hlt
  rw [hP, hMi] at h2
  unfold intLo intHi
  rw [hPi, hMi]
  refine ⟨?_, ?_, ?_⟩
  · subst h2; cases s <;> simp <;> first | omega | (split <;> omega)
  · subst h2; cases s <;> simp <;> first | omega | (split <;> omega)
  · rw [hbs, List.length_append, hal]

theorem encIntN_of_range {w : Nat} {s : Bool} {v : Int}
    (h : intLo w s ≤ v ∧ v ≤ intHi w s) : ∃ b, encIntN w s v = .ok b ∧ b.length = w := by
  unfold encIntN
  rw [if_pos h]
  exact ⟨_, rfl, natBE_length _ _⟩

theorem encIntN_neg1 (w : Nat) : ∃ b, encIntN w true (-1) = .ok b ∧ b.length = w := by
  apply encIntN_of_range
  obtain ⟨P, hP⟩ : ∃ P : Nat, 2 ^ (8 * w - 1) = P := ⟨_, rfl⟩
  have hPi : (2 : Int) ^ (8 * w - 1) = (P : Int) := by rw [← hP]; norm_cast
  have hPpos : 0 < P := by rw [← hP]; exact Nat.pow_pos (by omega)
  unfold intLo intHi
  simp only [if_true, hPi]
  omega

/-- a decoded fixed-width integer is written back in the same number of bytes -/
theorem decIntN_enc {w : Nat} {s : Bool} {bs : Bytes} {v : Int} {r : Bytes} (hw : 0 < w)
    (h : decIntN w s bs = .ok (v, r)) :
    ∃ b, encIntN w s v = .ok b ∧ b.length + r.length = bs.length := by
  obtain ⟨h1, h2, h3⟩ := decIntN_range hw h
  obtain ⟨b, hb, hl⟩ := encIntN_of_range ⟨h1, h2⟩
  exact ⟨b, hb, by omega⟩

theorem rw_int (w : Nat) (hw : 0 < w) (s : Bool) :
    RW1 (fun bs => do let (i, r) ← decIntN w s bs; pure (.int i, r)) (writeIntN w s) := by
  intro bs v rest h
  obtain ⟨⟨i, r⟩, h1, h2⟩ := bind_ok h
  simp only [pure, Except.pure] at h2
  injection h2 with h2; injection h2 with h2 h3; subst h2 h3
  obtain ⟨b, hb, hl⟩ := decIntN_enc hw h1
  exact ⟨b, by simpa [writeIntN, Value.asInt?] using hb, by omega⟩

/-! ### bool, float, uuid, error code -/

theorem rw_boolean : RW1 readBoolean writeBoolean := by
  intro bs v rest h
  unfold readBoolean at h
  obtain ⟨⟨a, r⟩, h1, h2⟩ := bind_ok h
  simp only [pure, Except.pure] at h2
  injection h2 with h2; injection h2 with h2 h3; subst h2 h3
  obtain ⟨hbs, hl⟩ := readExact_ok h1
  have hal : a.length = 1 := by exact_mod_cast hl
  refine ⟨_, rfl, ?_⟩
  rw [hbs, List.length_append, hal]; simp only [List.length_cons, List.length_nil]; omega

theorem rw_float64 : RW1 readFloat64 writeFloat64 := by
  intro bs v rest h
  unfold readFloat64 at h
  obtain ⟨⟨a, r⟩, h1, h2⟩ := bind_ok h
  simp only [pure, Except.pure] at h2
  injection h2 with h2; injection h2 with h2 h3; subst h2 h3
  obtain ⟨hbs, hl⟩ := readExact_ok h1
  have hal : a.length = 8 := by exact_mod_cast hl
  refine ⟨_, rfl, ?_⟩
  rw [hbs, List.length_append, hal, natBE_length]; omega

theorem rw_uuid : RW1 readUuid writeUuid := by
  intro bs v rest h
  unfold readUuid at h
  obtain ⟨⟨a, r⟩, h1, h2⟩ := bind_ok h
  simp only [pure, Except.pure] at h2
  injection h2 with h2; injection h2 with h2 h3; subst h3
  obtain ⟨hbs, hl⟩ := readExact_ok h1
  have hal : a.length = 16 := by exact_mod_cast hl
  split at h2
  · subst h2
    refine ⟨_, rfl, ?_⟩
    rw [hbs, List.length_append, hal]; simp [uuidZero]
  · subst h2
    refine ⟨_, rfl, ?_⟩
    rw [hbs, List.length_append]; omega

theorem rw_errorCode (codes : List Int) : RW1 (readErrorCode codes) writeErrorCode := by
  intro bs v rest h
  unfold readErrorCode at h
  obtain ⟨⟨i, r⟩, h1, h2⟩ := bind_ok h
  simp only at h2
  split at h2
  · simp only [pure, Except.pure] at h2
    injection h2 with h2; injection h2 with h2 h3; subst h2 h3
    obtain ⟨b, hb, hl⟩ := decIntN_enc (by omega) h1
    exact ⟨b, hb, by omega⟩
  · contradiction

/-! ### strings and bytes -/

theorem compactCore_re {nullable : Bool} {bs : Bytes} {o : Option Bytes} {r : Bytes}
    (h : readCompactStringAsBytesCore nullable bs = .ok (o, r)) :
    match (generalizing := false) o with
    | none => nullable = true ∧ 1 + r.length ≤ bs.length
    | some p => ∃ n : Nat, uvarintCtor ((p.length : Int) + 1) = .ok n
        ∧ (encVarint n).length + p.length + r.length ≤ bs.length := by
  unfold readCompactStringAsBytesCore at h
  obtain ⟨⟨n, r1⟩, h1, h2⟩ := bind_ok h
  have hc := decVarint_consumed h1
  have hlt := decVarint_lt h1
  rw [pow128_5] at hlt
  have hpos := encVarint_length_pos n
  simp only at h2
  split at h2
  · split at h2
    · simp only [pure, Except.pure] at h2
      injection h2 with h2; injection h2 with h2 h3; subst h2 h3
      rename_i hn
      exact ⟨hn, by omega⟩
    · contradiction
  · rename_i hn0
    obtain ⟨⟨raw, r2⟩, h3, h4⟩ := bind_ok h2
    simp only [pure, Except.pure] at h4
    injection h4 with h4; injection h4 with h4 h5; subst h4 h5
    obtain ⟨hbs, hl⟩ := readExact_ok h3
    refine ⟨n, uvarintCtor_nat n (by omega) hlt, ?_⟩
    rw [hbs, List.length_append] at hc
    omega

theorem legacyCore_re {w : Nat} (hw : 0 < w) {nullable : Bool} {bs : Bytes} {o : Option Bytes}
    {r : Bytes} (h : readLegacyCore w nullable bs = .ok (o, r)) :
    match (generalizing := false) o with
    | none => nullable = true ∧ w + r.length = bs.length
    | some p => (p.length : Int) ≤ intHi w true
        ∧ ∃ l, encIntN w true p.length = .ok l ∧ l.length + p.length + r.length = bs.length := by
  unfold readLegacyCore at h
  obtain ⟨⟨n, r1⟩, h1, h2⟩ := bind_ok h
  obtain ⟨hlo, hhi, hlen⟩ := decIntN_range hw h1
  simp only at h2
  split at h2
  · split at h2
    · simp only [pure, Except.pure] at h2
      injection h2 with h2; injection h2 with h2 h3; subst h2 h3
      rename_i hn
      exact ⟨hn, hlen⟩
    · contradiction
  · obtain ⟨⟨raw, r2⟩, h3, h4⟩ := bind_ok h2
    simp only [pure, Except.pure] at h4
    injection h4 with h4; injection h4 with h4 h5; subst h4 h5
    obtain ⟨hbs, hl⟩ := readExact_ok h3
    subst hl
    refine ⟨hhi, ?_⟩
    obtain ⟨l, hl1, hl2⟩ := encIntN_of_range ⟨hlo, hhi⟩
    refine ⟨l, hl1, ?_⟩
    rw [hbs, List.length_append] at hlen
    omega

theorem decodeUtf8_eq {b : Bytes} {s : Value} (h : decodeUtf8 b = .ok s) : s = .str b := by
  unfold decodeUtf8 at h
  split at h
  · injection h with h; exact h.symm
  · contradiction

/-- the four shapes of string/bytes reader share this skeleton -/
def optRead (core : Dec (Option Bytes)) (post : Bytes → Except Err Value) : Dec Value := fun bs => do
  let (o, r) ← core bs
  match o with
  | some b => do let s ← post b; pure (s, r)
  | none => pure (.none, r)

theorem optRead_ok {core : Dec (Option Bytes)} {post : Bytes → Except Err Value} {bs : Bytes}
    {v : Value} {rest : Bytes} (h : optRead core post bs = .ok (v, rest)) :
    ∃ o, core bs = .ok (o, rest) ∧
      match o with
      | some b => post b = .ok v
      | none => v = .none := by
  unfold optRead at h
  obtain ⟨⟨o, r⟩, h1, h2⟩ := bind_ok h
  simp only at h2
  cases o with
  | none =>
    simp only [pure, Except.pure] at h2
    injection h2 with h2; injection h2 with h2 h3; subst h2 h3
    exact ⟨none, h1, rfl⟩
  | some b =>
    simp only at h2
    obtain ⟨s, hs, h3⟩ := bind_ok h2
    simp only [pure, Except.pure] at h3
    injection h3 with h3; injection h3 with h3 h4; subst h3 h4
    exact ⟨some b, h1, hs⟩

theorem postBytes_eq {b : Bytes} {s : Value} (h : (pure (Value.bytes b) : Except Err Value) = .ok s) :
    s = .bytes b := by
  simp only [pure, Except.pure] at h
  injection h with h; exact h.symm

theorem wncs_of_payload {v : Value} {p : Bytes} {n : Nat} (hp : v.payload? = some p)
    (hn : uvarintCtor ((p.length : Int) + 1) = .ok n) :
    writeNullableCompactString v = .ok (encVarint n ++ p)
    ∧ writeCompactString v = .ok (encVarint n ++ p) := by
  have e : writeNullableCompactString v = .ok (encVarint n ++ p) := by
    cases v <;> cases hp
    all_goals
      rw [writeNullableCompactString]
      · simp only [Value.payload?]; rw [hn]; rfl
      · intro h; cases h
  refine ⟨e, ?_⟩
  rw [← e]
  cases v <;> first | rfl | cases hp

theorem rw_compact_opt (nullable : Bool) (post : Bytes → Except Err Value)
    (hpost : ∀ b s, post b = .ok s → s.payload? = some b) :
    RW1 (optRead (readCompactStringAsBytesCore nullable) post)
      (if nullable then writeNullableCompactString else writeCompactString) := by
  intro bs v rest h
  obtain ⟨o, h1, h2⟩ := optRead_ok h
  have hc := compactCore_re h1
  cases o with
  | none =>
    simp only at h2 hc
    subst h2
    obtain ⟨hn, hlen⟩ := hc
    subst hn
    refine ⟨encVarint 0, rfl, ?_⟩
    have : (encVarint 0).length = 1 := by rw [encVarint]; simp
    omega
  | some p =>
    simp only at h2 hc
    obtain ⟨n, hn, hlen⟩ := hc
    have hp := hpost p v h2
    obtain ⟨hw, hw'⟩ := wncs_of_payload hp hn
    refine ⟨encVarint n ++ p, ?_, ?_⟩
    · cases nullable
      · simpa using hw'
      · simpa using hw
    · rw [List.length_append]; omega

theorem payload_str {b : Bytes} {s : Value} (h : decodeUtf8 b = .ok s) : s.payload? = some b := by
  rw [decodeUtf8_eq h]; rfl

theorem payload_bytes {b : Bytes} {s : Value}
    (h : (pure (Value.bytes b) : Except Err Value) = .ok s) : s.payload? = some b := by
  rw [postBytes_eq h]; rfl

theorem rw_compactString : RW1 readCompactString writeCompactString :=
  rw_compact_opt false decodeUtf8 (fun _ _ => payload_str)
theorem rw_compactStringNullable : RW1 readCompactStringNullable writeNullableCompactString :=
  rw_compact_opt true decodeUtf8 (fun _ _ => payload_str)
theorem rw_compactBytes : RW1 readCompactStringAsBytes writeCompactString :=
  rw_compact_opt false (fun b => pure (.bytes b)) (fun _ _ => payload_bytes)
theorem rw_compactBytesNullable : RW1 readCompactStringAsBytesNullable writeNullableCompactString :=
  rw_compact_opt true (fun b => pure (.bytes b)) (fun _ _ => payload_bytes)

theorem rw_legacyString_opt (nullable : Bool) :
    RW1 (optRead (readLegacyCore 2 nullable) decodeUtf8)
      (if nullable then writeNullableLegacyString else writeLegacyString) := by
  intro bs v rest h
  obtain ⟨o, h1, h2⟩ := optRead_ok h
  have hc := legacyCore_re (by omega) h1
  cases o with
  | none =>
    simp only at h2 hc
    subst h2
    obtain ⟨hn, hlen⟩ := hc
    subst hn
    obtain ⟨b, hb, hl⟩ := encIntN_neg1 2
    exact ⟨b, hb, by omega⟩
  | some p =>
    simp only at h2 hc
    obtain ⟨hhi, l, hl, hlen⟩ := hc
    have := decodeUtf8_eq h2
    subst this
    have hw : writeNullableLegacyString (.str p) = .ok (l ++ p) := by
      simp only [writeNullableLegacyString]
      rw [if_pos hhi, hl]; rfl
    refine ⟨l ++ p, ?_, ?_⟩
    · cases nullable
      · simpa [writeLegacyString] using hw
      · simpa using hw
    · rw [List.length_append]; omega

theorem rw_legacyBytes_opt (nullable : Bool) :
    RW1 (optRead (readLegacyCore 4 nullable) (fun b => pure (.bytes b)))
      (if nullable then writeNullableLegacyBytes else writeLegacyBytes) := by
  intro bs v rest h
  obtain ⟨o, h1, h2⟩ := optRead_ok h
  have hc := legacyCore_re (by omega) h1
  cases o with
  | none =>
    simp only at h2 hc
    subst h2
    obtain ⟨hn, hlen⟩ := hc
    subst hn
    obtain ⟨b, hb, hl⟩ := encIntN_neg1 4
    exact ⟨b, hb, by omega⟩
  | some p =>
    simp only at h2 hc
    obtain ⟨hhi, l, hl, hlen⟩ := hc
    have := postBytes_eq h2
    subst this
    have hw : writeNullableLegacyBytes (.bytes p) = .ok (l ++ p) := by
      simp only [writeNullableLegacyBytes]
      rw [if_pos hhi, hl]; rfl
    refine ⟨l ++ p, ?_, ?_⟩
    · cases nullable
      · simpa [writeLegacyBytes] using hw
      · simpa using hw
    · rw [List.length_append]; omega

theorem rw_legacyString : RW1 readLegacyString writeLegacyString := rw_legacyString_opt false
theorem rw_nullableLegacyString : RW1 readNullableLegacyString writeNullableLegacyString :=
  rw_legacyString_opt true
theorem rw_legacyBytes : RW1 readLegacyBytes writeLegacyBytes := rw_legacyBytes_opt false
theorem rw_nullableLegacyBytes : RW1 readNullableLegacyBytes writeNullableLegacyBytes :=
  rw_legacyBytes_opt true

/-! ### durations and timestamps -/

theorem timedeltaOfMs_eq {n : Int} {v : Value} (h : timedeltaOfMs n = .ok v) :
    v = .timedelta (n * 1000) := by
  unfold timedeltaOfMs at h
  simp only at h
  split at h
  · injection h with h; exact h.symm
  · contradiction

theorem rw_timedelta (cfg : TimeCfg) (hc : cfg.tdExact = true) (w : Nat) (hw : 0 < w) :
    RW1 (fun bs => do
          let (n, r) ← decIntN w true bs
          let v ← timedeltaOfMs n
          pure (v, r)) (writeTimedelta cfg w) := by
  intro bs v rest h
  obtain ⟨⟨n, r⟩, h1, h2⟩ := bind_ok h
  simp only at h2
  obtain ⟨v', hv, h3⟩ := bind_ok h2
  simp only [pure, Except.pure] at h3
  injection h3 with h3; injection h3 with h3 h4; subst h3 h4
  have := timedeltaOfMs_eq hv
  subst this
  obtain ⟨b, hb, hl⟩ := decIntN_enc hw h1
  refine ⟨b, ?_, by omega⟩
  have hm : n * 1000 % 1000 = 0 := by omega
  have hd : n * 1000 / 1000 = n := by omega
  simp only [writeTimedelta, msOfTimedelta, hc, if_true, msOfMicrosExact_whole _ hm, hd]
  exact hb

theorem tzAware_repaired_inv {ms : Int} {v : Value}
    (h : tzAwareFromI64 TimeCfg.repaired ms = .ok v) :
    v = .datetime (ms * 1000) ∧ 0 ≤ ms ∧ ms ≤ 253402300799999 := by
  unfold tzAwareFromI64 TimeCfg.repaired at h
  simp only [if_true] at h
  split at h
  · contradiction
  · split at h
    · contradiction
    · rename_i hs
      split at h
      · contradiction
      · rename_i hneg
        injection h with h
        unfold minDatetimeSec maxDatetimeSec at hs
        refine ⟨h.symm, by omega, by omega⟩

theorem rw_datetime (hfl : FloatExact) :
    RW1 (readDatetimeI64 TimeCfg.repaired) writeDatetimeI64 := by
  intro bs v rest h
  unfold readDatetimeI64 at h
  obtain ⟨⟨n, r⟩, h1, h2⟩ := bind_ok h
  simp only at h2
  obtain ⟨v', hv, h3⟩ := bind_ok h2
  simp only [pure, Except.pure] at h3
  injection h3 with h3; injection h3 with h3 h4; subst h3 h4
  obtain ⟨rfl, h0, hmax⟩ := tzAware_repaired_inv hv
  obtain ⟨b, hb, hl⟩ := decIntN_enc (by omega) h1
  refine ⟨b, ?_, by omega⟩
  simp only [writeDatetimeI64, hfl n h0 hmax]
  exact hb

theorem rw_nullableDatetime (hfl : FloatExact) :
    RW1 (readNullableDatetimeI64 TimeCfg.repaired) writeNullableDatetimeI64 := by
  intro bs v rest h
  unfold readNullableDatetimeI64 at h
  obtain ⟨⟨n, r⟩, h1, h2⟩ := bind_ok h
  simp only at h2
  obtain ⟨b, hb, hl⟩ := decIntN_enc (by omega) h1
  split at h2
  · rename_i hn
    simp only [pure, Except.pure] at h2
    injection h2 with h2; injection h2 with h2 h3; subst h2 h3 hn
    exact ⟨b, hb, by omega⟩
  · obtain ⟨v', hv, h3⟩ := bind_ok h2
    simp only [pure, Except.pure] at h3
    injection h3 with h3; injection h3 with h3 h4; subst h3 h4
    obtain ⟨rfl, h0, hmax⟩ := tzAware_repaired_inv hv
    refine ⟨b, ?_, by omega⟩
    simp only [writeNullableDatetimeI64, writeDatetimeI64, hfl n h0 hmax]
    exact hb

/-! ### the dispatch tables -/

/-- reader and writer looked up with the same `optional` flag (or for a uuid, with any) -/
theorem prim_pair (env : Env) (ht : env.time = TimeCfg.repaired) (hfl : FloatExact)
    (k : KType) (flex oR oW : Bool) (ho : oR = oW ∨ k = .uuid) (r : PrimR) (w : PrimW)
    (hr : getReader k flex oR = .ok r) (hw : getWriter k flex oW = .ok w) :
    RW1 (r.run env) (w.run env) := by
  have htd : env.time.tdExact = true := by rw [ht]; rfl
  rcases ho with rfl | rfl
  · cases k <;> cases flex <;> cases oR <;> simp [getReader] at hr <;> simp [getWriter] at hw <;>
      subst hr hw <;> simp only [PrimR.run, PrimW.run, ht]
    all_goals first
      | exact rw_int _ (by omega) _
      | exact rw_float64
      | exact rw_compactString
      | exact rw_compactStringNullable
      | exact rw_compactBytes
      | exact rw_compactBytesNullable
      | exact rw_legacyString
      | exact rw_nullableLegacyString
      | exact rw_legacyBytes
      | exact rw_nullableLegacyBytes
      | exact rw_uuid
      | exact rw_boolean
      | exact rw_errorCode _
      | exact rw_timedelta _ (by rfl) _ (by omega)
      | exact rw_datetime hfl
      | exact rw_nullableDatetime hfl
  · cases flex <;> cases oR <;> cases oW <;> simp [getReader] at hr <;> simp [getWriter] at hw <;>
      subst hr hw <;> exact rw_uuid

/-- the non-nullable writers only differ from the nullable ones on `None` -/
theorem prim_pair_mixed (env : Env) (ht : env.time = TimeCfg.repaired) (hfl : FloatExact)
    (k : KType) (flex : Bool) (r : PrimR) (w : PrimW)
    (hr : getReader k flex true = .ok r) (hw : getWriter k flex false = .ok w) :
    RW1n (r.run env) (w.run env) := by
  have key : ∀ w', getWriter k flex true = .ok w' →
      (∀ v, v ≠ .none → w.run env v = w'.run env v) → RW1n (r.run env) (w.run env) := by
    intro w' hw' heq bs v rest h
    obtain ⟨b, hb, hl⟩ := prim_pair env ht hfl k flex true true (Or.inl rfl) r w' hr hw' bs v rest h
    by_cases hv : v = .none
    · exact Or.inl ⟨hv, by omega⟩
    · right
      exact ⟨b, by rw [heq v hv]; exact hb, hl⟩
  cases k <;> cases flex <;> simp [getReader] at hr <;> simp [getWriter] at hw <;> subst hw
  all_goals first
    | (refine key _ rfl ?_
       intro v hv
       cases v <;> first | rfl | exact absurd rfl hv)
    | (intro bs v rest h
       right
       exact prim_pair env ht hfl .uuid _ true false (Or.inr rfl) r _ hr rfl bs v rest h)

end Kio
