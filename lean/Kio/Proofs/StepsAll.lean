import Kio.Proofs.Steps
/-!
The step count of the entity reader for EVERY input, failing decodes included.

`Schema.readT` is a second instrumented copy of `Schema.read`: it returns the model's result
together with the number of steps performed, also when the result is an error (the steps performed
up to and including the failing one).  Tick placement is that of `Schema.readS`: one step per
primitive read, one per array element attempted, one per tagged-loop iteration started.

* `Schema.readT_fst`       – erasure: the result component is exactly `Schema.read` (any schema);
* `Schema.readT_of_readS`  – on a successful decode the count is the one `readS` reports;
* `Schema.readT_steps_le`  – on a coherent class, `steps ≤ 2 · input length + 1` for every input;
* `Schema.read_steps_all`  – both, stated for the model's decoder.
-/
namespace Kio

/-! ## the instrumented decoder -/

/-- a decoder that reports its result AND the number of steps taken, also on failure -/
abbrev DecT (α : Type) := Bytes → Except Err (α × Bytes) × Nat

/-- one primitive read = one step, whether it succeeds or fails -/
def tickT {α} (d : Dec α) : DecT α := fun bs => (d bs, 1)

/-- `decMany`, one extra step per element attempted (elements after a failure are not attempted,
    whatever the declared count) -/
def decManyT (d : DecT Value) : Nat → DecT (List Value)
  | 0, bs => (.ok ([], bs), 0)
  | n+1, bs =>
    match d bs with
    | (.error e, c1) => (.error e, c1 + 1)
    | (.ok (v, r), c1) =>
      match decManyT d n r with
      | (.error e, c2) => (.error e, c1 + c2 + 1)
      | (.ok (vs, r2), c2) => (.ok (v :: vs, r2), c1 + c2 + 1)

/-- the length prefix is a primitive read (one step) -/
def compactArrayReaderT (item : DecT Value) : DecT Value := fun bs =>
  match readCompactArrayLength bs with
  | .error e => (.error e, 1)
  | .ok (n, r) =>
    if n = -1 then (.ok (.none, r), 1)
    else
      match decManyT item n.toNat r with
      | (.error e, c) => (.error e, c + 1)
      | (.ok (vs, r2), c) => (.ok (.tuple vs, r2), c + 1)

def legacyArrayReaderT (item : DecT Value) : DecT Value := fun bs =>
  match readLegacyArrayLength bs with
  | .error e => (.error e, 1)
  | .ok (n, r) =>
    if n = -1 then (.ok (.none, r), 1)
    else
      match decManyT item n.toNat r with
      | (.error e, c) => (.error e, c + 1)
      | (.ok (vs, r2), c) => (.ok (.tuple vs, r2), c + 1)

def arrayReaderT (flex : Bool) (item : DecT Value) : DecT Value :=
  if flex then compactArrayReaderT item else legacyArrayReaderT item

/-- the marker byte is a primitive read (one step) -/
def readNullableT (inner : DecT Value) : DecT Value := fun bs =>
  match decIntN 1 true bs with
  | .error e => (.error e, 1)
  | .ok (m, r) =>
    if m = -1 then (.ok (.none, r), 1)
    else if m = 1 then
      match inner r with
      | (res, c) => (res, c + 1)
    else (.error .valueError, 1)

structure TaggedRT where
  tag : Nat
  read : DecT Value
  dflt : Value

def lookupTaggedT (plan : List TaggedRT) (t : Nat) : Option TaggedRT :=
  plan.find? (fun e => e.tag = t)

/-- `readTaggedLoop`; each iteration started (tag, size, and the skip of an unknown field) is one
    step, the reader of a known field counts its own steps -/
def readTaggedLoopT (skipUnknown : Bool) (plan : List TaggedRT) :
    Nat → Bytes → List (Nat × Value) → Except Err (List (Nat × Value) × Bytes) × Nat
  | 0, bs, acc => (.ok (acc, bs), 0)
  | n+1, bs, acc =>
    match decVarint 5 bs with
    | .error err => (.error err, 1)
    | .ok (tag, r1) =>
      match decVarint 5 r1 with
      | .error err => (.error err, 1)
      | .ok (size, r2) =>
        match lookupTaggedT plan tag with
        | some e =>
          match e.read r2 with
          | (.error err, c1) => (.error err, c1 + 1)
          | (.ok (v, r3), c1) =>
            match readTaggedLoopT skipUnknown plan n r3 ((tag, v) :: acc) with
            | (res, c2) => (res, c1 + c2 + 1)
        | none =>
          if skipUnknown then
            match readExact size r2 with
            | .error err => (.error err, 1)
            | .ok (_, r3) =>
              match readTaggedLoopT skipUnknown plan n r3 acc with
              | (res, c2) => (res, c2 + 1)
          else (.error .keyError, 1)

mutual
def Schema.readT (env : Env) : Schema → DecT Value
  | .mk _ flex rh fs => fun bs =>
    match Fields.readUntaggedT env flex rh fs bs with
    | (.error e, c1) => (.error e, c1)
    | (.ok (us, r1), c1) =>
      if !flex then (.ok (.entity (assemble (Fields.slots env fs) us []), r1), c1)
      else
        match decVarint 5 r1 with
        | .error e => (.error e, c1 + 1)
        | .ok (n, r2) =>
          match readTaggedLoopT env.skipUnknownTags (Fields.taggedPlanT env flex rh fs) n r2 [] with
          | (.error e, c2) => (.error e, c1 + c2 + 1)
          | (.ok (acc, r3), c2) =>
            (.ok (.entity (assemble (Fields.slots env fs) us acc), r3), c1 + c2 + 1)
def Fields.readUntaggedT (env : Env) (flex rh : Bool) : List Field → DecT (List Value)
  | [], bs => (.ok ([], bs), 0)
  | f :: fs, bs =>
    if f.isTagged then Fields.readUntaggedT env flex rh fs bs
    else
      match Field.readT env flex rh false f bs with
      | (.error e, c1) => (.error e, c1)
      | (.ok (v, r1), c1) =>
        match Fields.readUntaggedT env flex rh fs r1 with
        | (.error e, c2) => (.error e, c1 + c2)
        | (.ok (vs, r2), c2) => (.ok (v :: vs, r2), c1 + c2)
def Fields.taggedPlanT (env : Env) (flex rh : Bool) : List Field → List TaggedRT
  | [] => []
  | f :: fs =>
    match f.tagNat with
    | none => Fields.taggedPlanT env flex rh fs
    | some t =>
      { tag := t, read := Field.readT env flex rh true f,
        dflt := (Field.taggedDefault env f).toOption.getD .none }
        :: Fields.taggedPlanT env flex rh fs
def Field.readT (env : Env) (flex rh tagged : Bool) : Field → DecT Value
  | .mk m sh =>
    if rh && m.isClientId then tickT readNullableLegacyString
    else Shape.readT env flex tagged m sh
def Shape.readT (env : Env) (flex tagged : Bool) (m : FieldMeta) : Shape → DecT Value
  | .prim _ o => tickT (primFieldReaderT env m flex o tagged)
  | .primArr _ e a => arrayReaderT flex (tickT (primFieldReader env m flex (e || a)))
  | .ent s o => if o then readNullableT (Schema.readT env s) else Schema.readT env s
  | .entArr s _ => arrayReaderT flex (Schema.readT env s)
  | .bad => fun _ => (.error .schemaError, 0)
end


/-! ## agreement with `readS`: same result, and the same count on success -/

/-- forget the count of a failing run -/
def toS {α} : Except Err (α × Bytes) × Nat → Except Err (α × Bytes × Nat)
  | (.ok (v, r), n) => .ok (v, r, n)
  | (.error e, _) => .error e

def eraseTS {α} (d : DecT α) : DecS α := fun bs => toS (d bs)

theorem stT_eraseTS_tickT {α} (d : Dec α) : eraseTS (tickT d) = tick d := by
  funext bs
  simp only [eraseTS, tickT, tick]
  rcases d bs with e | ⟨v, r⟩ <;> rfl

theorem stT_eraseTS_decManyT (d : DecT Value) (n : Nat) :
    eraseTS (decManyT d n) = decManyS (eraseTS d) n := by
  induction n with
  | zero => funext bs; rfl
  | succ n ih =>
    funext bs
    have ih' := fun bs => congrFun ih bs
    simp only [eraseTS] at ih'
    simp only [eraseTS, decManyT, decManyS]
    rcases d bs with ⟨e | ⟨v, r⟩, c1⟩
    · rfl
    · simp only [toS, bind, Except.bind, ← ih']
      rcases decManyT d n r with ⟨e | ⟨vs, r2⟩, c2⟩ <;> rfl

theorem stT_eraseTS_compactArrayReaderT (d : DecT Value) :
    eraseTS (compactArrayReaderT d) = compactArrayReaderS (eraseTS d) := by
  funext bs
  have hm := fun n bs => congrFun (stT_eraseTS_decManyT d n) bs
  simp only [eraseTS] at hm
  simp only [eraseTS, compactArrayReaderT, compactArrayReaderS]
  rcases readCompactArrayLength bs with e | ⟨n, r⟩
  · rfl
  · simp only [bind, Except.bind]
    by_cases hn : n = -1
    · simp only [hn, if_true]; rfl
    · simp only [if_neg hn, ← hm]
      rcases decManyT d n.toNat r with ⟨e | ⟨vs, r2⟩, c2⟩ <;> rfl

theorem stT_eraseTS_legacyArrayReaderT (d : DecT Value) :
    eraseTS (legacyArrayReaderT d) = legacyArrayReaderS (eraseTS d) := by
  funext bs
  have hm := fun n bs => congrFun (stT_eraseTS_decManyT d n) bs
  simp only [eraseTS] at hm
  simp only [eraseTS, legacyArrayReaderT, legacyArrayReaderS]
  rcases readLegacyArrayLength bs with e | ⟨n, r⟩
  · rfl
  · simp only [bind, Except.bind]
    by_cases hn : n = -1
    · simp only [hn, if_true]; rfl
    · simp only [if_neg hn, ← hm]
      rcases decManyT d n.toNat r with ⟨e | ⟨vs, r2⟩, c2⟩ <;> rfl

theorem stT_eraseTS_arrayReaderT (flex : Bool) (d : DecT Value) :
    eraseTS (arrayReaderT flex d) = arrayReaderS flex (eraseTS d) := by
  unfold arrayReaderT arrayReaderS
  split
  · exact stT_eraseTS_compactArrayReaderT d
  · exact stT_eraseTS_legacyArrayReaderT d

theorem stT_eraseTS_readNullableT (d : DecT Value) :
    eraseTS (readNullableT d) = readNullableS (eraseTS d) := by
  funext bs
  simp only [eraseTS, readNullableT, readNullableS]
  rcases decIntN 1 true bs with e | ⟨m, r⟩
  · rfl
  · simp only [bind, Except.bind]
    by_cases hm : m = -1
    · simp only [hm, if_true]; rfl
    · simp only [if_neg hm]
      by_cases h1 : m = 1
      · simp only [h1, if_true]
        rcases d r with ⟨e | ⟨v, r2⟩, c⟩ <;> rfl
      · simp only [if_neg h1]; rfl

def TaggedRT.toS (e : TaggedRT) : TaggedRS := { tag := e.tag, read := eraseTS e.read, dflt := e.dflt }

theorem stT_lookupTagged_toS (plan : List TaggedRT) (t : Nat) :
    lookupTaggedS (plan.map TaggedRT.toS) t = (lookupTaggedT plan t).map TaggedRT.toS := by
  simp only [lookupTaggedS, lookupTaggedT, List.find?_map]
  rfl

theorem stT_toS_readTaggedLoopT (skip : Bool) (plan : List TaggedRT) (n : Nat) :
    ∀ bs acc, toS (readTaggedLoopT skip plan n bs acc)
      = readTaggedLoopS skip (plan.map TaggedRT.toS) n bs acc := by
  induction n with
  | zero => intro bs acc; rfl
  | succ n ih =>
    intro bs acc
    simp only [readTaggedLoopT, readTaggedLoopS, stT_lookupTagged_toS]
    rcases decVarint 5 bs with e | ⟨tag, r1⟩
    · rfl
    · simp only [bind, Except.bind]
      rcases decVarint 5 r1 with e | ⟨size, r2⟩
      · rfl
      · simp only
        rcases lookupTaggedT plan tag with _ | e
        · simp only [Option.map]
          cases skip
          · rfl
          · simp only [if_true]
            rcases readExact size r2 with e | ⟨_, r3⟩
            · rfl
            · simp only [← ih]
              rcases readTaggedLoopT true plan n r3 acc with ⟨e | ⟨out, r4⟩, c⟩ <;> rfl
        · simp only [Option.map, TaggedRT.toS, eraseTS]
          rcases e.read r2 with ⟨e | ⟨v, r3⟩, c⟩
          · rfl
          · simp only [toS, ← ih]
            rcases readTaggedLoopT skip plan n r3 ((tag, v) :: acc) with ⟨e | ⟨out, r4⟩, c⟩ <;> rfl

mutual
theorem Schema.eraseTS_readT (env : Env) : (s : Schema) → eraseTS (s.readT env) = s.readS env
  | .mk _ flex rh fs => by
    have hu := Fields.eraseTS_readUntaggedT env flex rh fs
    have hp := Fields.toS_taggedPlanT env flex rh fs
    funext bs
    have hu' := congrFun hu
    simp only [eraseTS] at hu'
    simp only [eraseTS, Schema.readT, Schema.readS, ← hu', ← hp]
    rcases Fields.readUntaggedT env flex rh fs bs with ⟨e | ⟨us, r1⟩, c1⟩
    · rfl
    · simp only [toS, bind, Except.bind]
      cases flex
      · rfl
      · simp only [Bool.not_true, Bool.false_eq_true, if_false]
        rcases decVarint 5 r1 with e | ⟨n, r2⟩
        · rfl
        · simp only [← stT_toS_readTaggedLoopT]
          rcases readTaggedLoopT env.skipUnknownTags (Fields.taggedPlanT env true rh fs) n r2 []
            with ⟨e | ⟨acc, r3⟩, c2⟩ <;> rfl
theorem Fields.eraseTS_readUntaggedT (env : Env) (flex rh : Bool) :
    (fs : List Field) →
      eraseTS (Fields.readUntaggedT env flex rh fs) = Fields.readUntaggedS env flex rh fs
  | [] => by funext bs; rfl
  | f :: fs => by
    have hf := Field.eraseTS_readT env flex rh false f
    have ih := Fields.eraseTS_readUntaggedT env flex rh fs
    funext bs
    have hf' := congrFun hf
    have ih' := congrFun ih
    simp only [eraseTS] at hf' ih'
    simp only [eraseTS, Fields.readUntaggedT, Fields.readUntaggedS]
    by_cases ht : f.isTagged = true
    · simp only [ht, if_true]; exact ih' bs
    · simp only [if_neg ht, ← hf']
      rcases Field.readT env flex rh false f bs with ⟨e | ⟨v, r1⟩, c1⟩
      · rfl
      · simp only [toS, bind, Except.bind, ← ih']
        rcases Fields.readUntaggedT env flex rh fs r1 with ⟨e | ⟨vs, r2⟩, c2⟩ <;> rfl
theorem Fields.toS_taggedPlanT (env : Env) (flex rh : Bool) :
    (fs : List Field) →
      (Fields.taggedPlanT env flex rh fs).map TaggedRT.toS = Fields.taggedPlanS env flex rh fs
  | [] => rfl
  | f :: fs => by
    have hf := Field.eraseTS_readT env flex rh true f
    have ih := Fields.toS_taggedPlanT env flex rh fs
    simp only [Fields.taggedPlanT, Fields.taggedPlanS]
    cases f.tagNat with
    | none => exact ih
    | some t => simp only [List.map_cons, TaggedRT.toS, hf, ih]
theorem Field.eraseTS_readT (env : Env) (flex rh tagged : Bool) :
    (f : Field) → eraseTS (Field.readT env flex rh tagged f) = Field.readS env flex rh tagged f
  | .mk m sh => by
    have hs := Shape.eraseTS_readT env flex tagged m sh
    simp only [Field.readT, Field.readS]
    split
    · exact stT_eraseTS_tickT _
    · exact hs
theorem Shape.eraseTS_readT (env : Env) (flex tagged : Bool) (m : FieldMeta) :
    (sh : Shape) → eraseTS (Shape.readT env flex tagged m sh) = Shape.readS env flex tagged m sh
  | .prim _ o => by simp only [Shape.readT, Shape.readS, stT_eraseTS_tickT]
  | .primArr _ e a => by
    simp only [Shape.readT, Shape.readS, stT_eraseTS_arrayReaderT, stT_eraseTS_tickT]
  | .ent s o => by
    have hs := Schema.eraseTS_readT env s
    simp only [Shape.readT, Shape.readS]
    split
    · rw [stT_eraseTS_readNullableT, hs]
    · exact hs
  | .entArr s _ => by
    have hs := Schema.eraseTS_readT env s
    simp only [Shape.readT, Shape.readS, stT_eraseTS_arrayReaderT, hs]
  | .bad => by funext bs; rfl
end

/-- `readT` and `readS` agree: same value and rest, same count on success, same error on failure -/
theorem Schema.toS_readT (env : Env) (s : Schema) (bs : Bytes) :
    toS (s.readT env bs) = s.readS env bs :=
  congrFun (Schema.eraseTS_readT env s) bs

/-- erasure: the result component of `readT` is exactly `Schema.read` (any schema, any input) -/
theorem Schema.readT_fst (env : Env) (s : Schema) (bs : Bytes) :
    (s.readT env bs).1 = s.read env bs := by
  rw [← Schema.readS_erase, ← Schema.toS_readT]
  rcases s.readT env bs with ⟨e | ⟨v, r⟩, n⟩ <;> rfl

/-- agreement on successes: a successful `readS` is a `readT` run with the same count -/
theorem Schema.readT_of_readS (env : Env) (s : Schema) (bs : Bytes) (v : Value) (r : Bytes)
    (n : Nat) (h : s.readS env bs = .ok (v, r, n)) : s.readT env bs = (.ok (v, r), n) := by
  rw [← Schema.toS_readT] at h
  revert h
  rcases s.readT env bs with ⟨e | ⟨v', r'⟩, n'⟩ <;> intro h
  · simp only [toS] at h; contradiction
  · simp only [toS, Except.ok.injEq, Prod.mk.injEq] at h
    obtain ⟨rfl, rfl, rfl⟩ := h
    rfl

/-- … and conversely -/
theorem Schema.readS_of_readT (env : Env) (s : Schema) (bs : Bytes) (v : Value) (r : Bytes)
    (n : Nat) (h : s.readT env bs = (.ok (v, r), n)) : s.readS env bs = .ok (v, r, n) := by
  rw [← Schema.toS_readT, h]; rfl


/-! ## the step bound, for every input -/

/-- the invariant on one run over an input of `len` bytes: a success consumes at least `k` bytes
    and takes at most `2·consumed − 1` steps; a failure takes at most `2·len + 1` steps -/
def goodRes {α} (k len : Nat) : Except Err (α × Bytes) × Nat → Prop
  | (.ok (_, r), n) => r.length + k ≤ len ∧ n ≤ 2 * (len - r.length) - 1
  | (.error _, n) => n ≤ 2 * len + 1

def GoodT {α} (k : Nat) (d : DecT α) : Prop := ∀ bs, goodRes k bs.length (d bs)

theorem GoodT.mono {α} {k k' : Nat} {d : DecT α} (h : GoodT k d) (hk : k' ≤ k) : GoodT k' d := by
  intro bs
  have := h bs
  revert this
  rcases d bs with ⟨e | ⟨v, r⟩, n⟩ <;> simp only [goodRes] <;> omega

theorem stT_tickT_good {α} {d : Dec α} (hd : MinDec 1 d) : GoodT 1 (tickT d) := by
  intro bs
  simp only [tickT]
  rcases h : d bs with e | ⟨v, r⟩
  · simp only [goodRes]; omega
  · have := hd _ _ _ h
    simp only [goodRes]; omega

/-- the invariant of `decMany`: the element in progress when a failure occurs costs one more step -/
def manyRes {α} (k len : Nat) : Except Err (α × Bytes) × Nat → Prop
  | (.ok (_, r), n) => r.length + k ≤ len ∧ n ≤ 2 * (len - r.length)
  | (.error _, n) => n ≤ 2 * len + 2

theorem stT_decManyT_good {d : DecT Value} (hd : GoodT 1 d) (n : Nat) :
    ∀ bs, manyRes n bs.length (decManyT d n bs) := by
  induction n with
  | zero => intro bs; simp only [decManyT, manyRes]; omega
  | succ n ih =>
    intro bs
    simp only [decManyT]
    have h1 := hd bs
    revert h1
    rcases d bs with ⟨e | ⟨v, r⟩, c1⟩ <;> simp only [goodRes, manyRes] <;> intro h1
    · omega
    · have h2 := ih r
      revert h2
      rcases decManyT d n r with ⟨e | ⟨vs, r2⟩, c2⟩ <;> simp only [manyRes] <;> intro h2 <;> omega

theorem stT_compactArrayReaderT_good {d : DecT Value} (hd : GoodT 1 d) :
    GoodT 1 (compactArrayReaderT d) := by
  intro bs
  simp only [compactArrayReaderT, readCompactArrayLength]
  rcases h0 : decVarint 5 bs with e | ⟨k, r⟩
  · simp only [bind, Except.bind, goodRes]; omega
  · have s0 := decVarint_len h0
    simp only [bind, Except.bind, pure, Except.pure]
    split
    · simp only [goodRes]; omega
    · have h2 := stT_decManyT_good hd ((k : Int) - 1).toNat r
      revert h2
      rcases decManyT d ((k : Int) - 1).toNat r with ⟨e | ⟨vs, r2⟩, c2⟩ <;>
        simp only [manyRes, goodRes] <;> intro h2 <;> omega

theorem stT_legacyArrayReaderT_good {d : DecT Value} (hd : GoodT 1 d) :
    GoodT 1 (legacyArrayReaderT d) := by
  intro bs
  simp only [legacyArrayReaderT, readLegacyArrayLength]
  rcases h0 : decIntN 4 true bs with e | ⟨k, r⟩
  · simp only [goodRes]; omega
  · have s0 := decIntN_len h0
    simp only
    split
    · simp only [goodRes]; omega
    · have h2 := stT_decManyT_good hd k.toNat r
      revert h2
      rcases decManyT d k.toNat r with ⟨e | ⟨vs, r2⟩, c2⟩ <;>
        simp only [manyRes, goodRes] <;> intro h2 <;> omega

theorem stT_arrayReaderT_good (flex : Bool) {d : DecT Value} (hd : GoodT 1 d) :
    GoodT 1 (arrayReaderT flex d) := by
  unfold arrayReaderT
  split
  · exact stT_compactArrayReaderT_good hd
  · exact stT_legacyArrayReaderT_good hd

theorem stT_readNullableT_good {k : Nat} {d : DecT Value} (hd : GoodT k d) :
    GoodT 1 (readNullableT d) := by
  intro bs
  simp only [readNullableT]
  rcases h1 : decIntN 1 true bs with e | ⟨m, r⟩
  · simp only [goodRes]; omega
  · have s1 := decIntN_len h1
    simp only
    split
    · simp only [goodRes]; omega
    · split
      · have h2 := hd r
        revert h2
        rcases d r with ⟨e | ⟨v, r2⟩, c⟩ <;> simp only [goodRes] <;> intro h2 <;> omega
      · simp only [goodRes]; omega

theorem stT_lookupTaggedT_mem {plan : List TaggedRT} {t : Nat} {e : TaggedRT}
    (h : lookupTaggedT plan t = some e) : e ∈ plan :=
  List.mem_of_find?_eq_some h

theorem stT_readTaggedLoopT_good (skip : Bool) (plan : List TaggedRT)
    (hp : ∀ e ∈ plan, GoodT 0 e.read) (n : Nat) :
    ∀ bs acc, goodRes (2 * n) bs.length (readTaggedLoopT skip plan n bs acc) := by
  induction n with
  | zero => intro bs acc; simp only [readTaggedLoopT, goodRes]; omega
  | succ n ih =>
    intro bs acc
    simp only [readTaggedLoopT]
    rcases h1 : decVarint 5 bs with e | ⟨tag, r1⟩
    · simp only [goodRes]; omega
    · have s1 := decVarint_len h1
      simp only
      rcases h2 : decVarint 5 r1 with e | ⟨size, r2⟩
      · simp only [goodRes]; omega
      · have s2 := decVarint_len h2
        simp only
        rcases he : lookupTaggedT plan tag with _ | e
        · simp only
          split
          · rcases h4 : readExact size r2 with e | ⟨x, r3⟩
            · simp only [goodRes]; omega
            · have s4 := (readExact_suffix _ _ _ _ h4).length_le
              have h5 := ih r3 acc
              revert h5
              simp only
              rcases readTaggedLoopT skip plan n r3 acc with ⟨e | ⟨out, r4⟩, c2⟩ <;>
                simp only [goodRes] <;> intro h5 <;> omega
          · simp only [goodRes]; omega
        · simp only
          have h4 := hp e (stT_lookupTaggedT_mem he) r2
          revert h4
          rcases e.read r2 with ⟨e | ⟨v, r3⟩, c1⟩ <;> simp only [goodRes] <;> intro h4
          · omega
          · have h5 := ih r3 ((tag, v) :: acc)
            revert h5
            rcases readTaggedLoopT skip plan n r3 ((tag, v) :: acc) with ⟨e | ⟨out, r4⟩, c2⟩ <;>
              simp only [goodRes] <;> intro h5 <;> omega


mutual
theorem Schema.readT_good (env : Env) :
    (s : Schema) → s.wf env = true → GoodT (Schema.minSize s) (s.readT env)
  | .mk _ flex rh fs => by
    intro hwf
    simp only [Schema.wf, Bool.and_eq_true] at hwf
    have hu := Fields.readUntaggedT_good env flex rh fs hwf.1.1
    have hp := Fields.taggedPlanT_good env flex rh fs hwf.1.1
    intro bs
    simp only [Schema.readT, Schema.minSize]
    have s1 := hu bs
    revert s1
    rcases Fields.readUntaggedT env flex rh fs bs with ⟨e | ⟨us, r1⟩, c1⟩ <;>
      simp only [goodRes] <;> intro s1
    · exact s1
    · cases flex
      · simp only [Bool.not_false, if_true]
        simpa using s1
      · simp only [Bool.not_true, Bool.false_eq_true, if_false, if_true]
        rcases h3 : decVarint 5 r1 with e | ⟨n, r2⟩
        · simp only; omega
        · have s3 := decVarint_len h3
          have h4 := stT_readTaggedLoopT_good env.skipUnknownTags _ hp n r2 []
          revert h4
          simp only
          rcases readTaggedLoopT env.skipUnknownTags (Fields.taggedPlanT env true rh fs) n r2 []
            with ⟨e | ⟨acc, r3⟩, c2⟩ <;> simp only [goodRes] <;> intro h4 <;> omega
theorem Fields.readUntaggedT_good (env : Env) (flex rh : Bool) :
    (fs : List Field) → Fields.wf env flex rh fs = true →
      GoodT (Fields.minSize fs) (Fields.readUntaggedT env flex rh fs)
  | [] => by
    intro _ bs
    simp only [Fields.readUntaggedT, Fields.minSize, goodRes]
    omega
  | .mk m sh :: fs => by
    intro hwf
    simp only [Fields.wf, Bool.and_eq_true] at hwf
    have hf := Field.readT_good env flex rh false (.mk m sh) hwf.1
    have ih := Fields.readUntaggedT_good env flex rh fs hwf.2
    intro bs
    simp only [Fields.readUntaggedT, Fields.minSize, Field.minSize]
    by_cases ht' : (Field.mk m sh).isTagged = true
    · rw [if_pos ht']
      have ht : m.tag.isSome = true := ht'
      have := ih bs
      simp only [ht, if_true]
      simpa using this
    · rw [if_neg ht']
      have ht : ¬ m.tag.isSome = true := ht'
      have hg := hf (by simp only [Field.meta]; cases hm : m.tag.isSome <;> simp_all) bs
      simp only [Field.minSize, if_neg ht] at hg
      rw [if_neg ht]
      revert hg
      rcases Field.readT env flex rh false (.mk m sh) bs with ⟨e | ⟨v, r1⟩, c1⟩ <;>
        simp only [goodRes] <;> intro hg
      · exact hg
      · have h2 := ih r1
        revert h2
        rcases Fields.readUntaggedT env flex rh fs r1 with ⟨e | ⟨vs, r2⟩, c2⟩ <;>
          simp only [goodRes] <;> intro h2 <;> omega
theorem Fields.taggedPlanT_good (env : Env) (flex rh : Bool) :
    (fs : List Field) → Fields.wf env flex rh fs = true →
      ∀ e ∈ Fields.taggedPlanT env flex rh fs, GoodT 0 e.read
  | [] => by
    intro _ e he
    simp [Fields.taggedPlanT] at he
  | .mk m sh :: fs => by
    intro hwf
    simp only [Fields.wf, Bool.and_eq_true] at hwf
    have hf := Field.readT_good env flex rh true (.mk m sh) hwf.1
    have ih := Fields.taggedPlanT_good env flex rh fs hwf.2
    intro e he
    simp only [Fields.taggedPlanT] at he
    split at he
    · exact ih e he
    · rename_i t ht
      rcases List.mem_cons.1 he with rfl | he
      · exact (hf (by simp only [Field.meta]; exact (tagNat_some ht).symm)).mono (Nat.zero_le _)
      · exact ih e he
theorem Field.readT_good (env : Env) (flex rh tagged : Bool) :
    (f : Field) → Field.wf env flex rh f = true → tagged = f.meta.tag.isSome →
      GoodT (Field.minSize f) (Field.readT env flex rh tagged f)
  | .mk m sh => by
    intro hwf ht
    have hs := Shape.readT_good env flex tagged m sh
    simp only [Field.wf, Bool.and_eq_true] at hwf
    simp only [Field.readT, Field.minSize]
    have h3 := hwf.1.1.2
    by_cases hc : (rh && m.isClientId) = true
    · rw [if_pos (by simpa using hc)] at h3
      rw [if_pos hc]
      refine (stT_tickT_good (PrimR.run_min env .nullableLegacyString)).mono ?_
      split
      · omega
      · cases sh <;> simp_all [Shape.minSize]
    · rw [if_neg (by simpa using hc)] at h3
      rw [if_neg hc]
      exact (hs h3).mono (by split <;> omega)
theorem Shape.readT_good (env : Env) (flex tagged : Bool) (m : FieldMeta) :
    (sh : Shape) → Shape.wf env flex m sh = true →
      GoodT (Shape.minSize sh) (Shape.readT env flex tagged m sh)
  | .prim l o => by
    intro _
    simp only [Shape.readT, Shape.minSize]
    exact stT_tickT_good (primFieldReaderT_min _ _ _ _ _)
  | .primArr l e a => by
    intro _
    simp only [Shape.readT, Shape.minSize]
    exact stT_arrayReaderT_good _ (stT_tickT_good (primFieldReader_min _ _ _ _))
  | .ent s o => by
    intro hwf
    simp only [Shape.wf, Bool.and_eq_true] at hwf
    have hs := Schema.readT_good env s hwf.2
    simp only [Shape.readT, Shape.minSize]
    split
    · exact stT_readNullableT_good hs
    · exact hs
  | .entArr s _ => by
    intro hwf
    simp only [Shape.wf, Bool.and_eq_true, decide_eq_true_eq] at hwf
    have hs := Schema.readT_good env s hwf.1.2
    simp only [Shape.readT, Shape.minSize]
    exact stT_arrayReaderT_good _ (hs.mono hwf.2)
  | .bad => by
    intro hwf
    simp [Shape.wf] at hwf
end

/-! ## statements -/

/-- the invariant, unfolded: on a coherent class a successful decode consumes at least `minSize`
    bytes in at most `2·consumed` steps, and a failing decode takes at most `2·input + 1` steps -/
theorem Schema.readT_steps_cases (env : Env) (s : Schema) (hwf : s.wf env = true) (bs : Bytes) :
    (∀ v rest n, s.readT env bs = (.ok (v, rest), n) →
        rest.length + Schema.minSize s ≤ bs.length ∧ n ≤ 2 * (bs.length - rest.length)) ∧
    (∀ e n, s.readT env bs = (.error e, n) → n ≤ 2 * bs.length + 1) := by
  have h := Schema.readT_good env s hwf bs
  revert h
  rcases s.readT env bs with ⟨e | ⟨v, r⟩, n⟩ <;> simp only [goodRes] <;> intro h
  · refine ⟨fun _ _ _ h' => ?_, fun _ _ h' => ?_⟩
    · simp only [Prod.mk.injEq, reduceCtorEq, false_and] at h'
    · simp only [Prod.mk.injEq] at h'
      omega
  · refine ⟨fun _ _ _ h' => ?_, fun _ _ h' => ?_⟩
    · simp only [Prod.mk.injEq, Except.ok.injEq] at h'
      obtain ⟨⟨_, rfl⟩, rfl⟩ := h'
      omega
    · simp only [Prod.mk.injEq, reduceCtorEq, false_and] at h'

/-- THE BOUND: decoding a coherent class takes at most `2·|input| + 1` steps on EVERY input,
    whether the decode succeeds or fails, and whatever lengths the input declares -/
theorem Schema.readT_steps_le (env : Env) (s : Schema) (hwf : s.wf env = true) (bs : Bytes) :
    (s.readT env bs).2 ≤ 2 * bs.length + 1 := by
  have h := Schema.readT_good env s hwf bs
  revert h
  rcases s.readT env bs with ⟨e | ⟨v, r⟩, n⟩ <;> simp only [goodRes] <;> intro h <;> omega

/-- the bound, stated for the model's decoder: every `read` of a coherent class is a run of the
    instrumented decoder with the same result and at most `2·|input| + 1` steps -/
theorem Schema.read_steps_all (env : Env) (s : Schema) (hwf : s.wf env = true) (bs : Bytes) :
    ∃ n, s.readT env bs = (s.read env bs, n) ∧ n ≤ 2 * bs.length + 1 := by
  refine ⟨(s.readT env bs).2, ?_, Schema.readT_steps_le env s hwf bs⟩
  rw [← Schema.readT_fst]


/-! ## the constant `+ 1` is attained, and declared lengths do not matter -/

namespace StepsAllEx

def env : Env :=
  { errorCodes := [], time := TimeCfg.repaired, skipUnknownTags := true, nullableTaggedReader := true }

/-- `xs: tuple[i32, ...] = field(metadata={"kafka_type": "int32"})` -/
def fArr : Field :=
  .mk { nameId := 0, isClientId := false, kafkaType := some .int32, tag := none,
        dflt := .missing, extraMeta := false } (.primArr ⟨.i32, false⟩ false false)

def sFlex : Schema := .mk 0 true false [fArr]

/-- `es: tuple[sFlex, ...]` -/
def fEnt : Field :=
  .mk { nameId := 1, isClientId := false, kafkaType := none, tag := none,
        dflt := .missing, extraMeta := false } (.entArr sFlex false)

def sOuter : Schema := .mk 1 true false [fEnt]

/-- `2·|input| + 1` is attained on inputs of length 0, 1 and 2 (the failing read, plus one step
    for every array element in progress), so no bound `2·|input| + c` with `c < 1` holds -/
theorem bound_attained :
    sFlex.wf env = true ∧ sOuter.wf env = true
    ∧ sFlex.readT env [] = (.error .underflow, 1)
    ∧ sFlex.readT env [2] = (.error .underflow, 3)
    ∧ sOuter.readT env [2, 2] = (.error .underflow, 5) :=
  ⟨rfl, rfl, rfl, rfl, rfl⟩

set_option maxRecDepth 8192 in
/-- a declared element count of `2³² − 2` (compact length `ff ff ff ff 0f`), also nested, costs
    only the elements actually attempted -/
theorem huge_count :
    sFlex.readT env [0xff, 0xff, 0xff, 0xff, 0x0f] = (.error .underflow, 3)
    ∧ sFlex.readT env [0xff, 0xff, 0xff, 0xff, 0x0f, 0, 0, 0, 1, 0, 0] = (.error .underflow, 5)
    ∧ sOuter.readT env [0xff, 0xff, 0xff, 0xff, 0x0f, 0xff, 0xff, 0xff, 0xff, 0x0f]
        = (.error .underflow, 5) :=
  ⟨rfl, rfl, rfl⟩

end StepsAllEx

end Kio
