import Kio.Proofs.GenCoherentField
/-!
One generated field (`genOne`) of a supported definition: coherent, with the stated default.
-/
namespace Kio.Gen
open Kio

/-- the dummy definition `DefSpec.expField` passes to `DefSpec.expDefault` (which ignores it) -/
def coh_d0 : MsgDef := ⟨[], .data, none, .empty, .empty, [], []⟩

/-! ## inversion of `genOne`, with the defaults explicit -/

theorem coh_genOne_prim {ctx : Ctx} {fuel : Nat} {acc acc1 : List GClass} {f : FieldDef} {k : KType}
    {n pyName : List Nat} {fld : Field}
    (h : genOne ctx fuel acc f (.prim k n) = .ok (acc1, (pyName, fld))) :
    ∃ x, coh_primDflt f k ctx.v = .ok x ∧ ∃ c,
      fld = .mk (mkMeta c (some k) (tagAt f ctx.v) (dfltOf x))
        (.prim ⟨baseOfKType k, f.entityType.isSome⟩ (primNullable f k ctx.v || k == .uuid)) := by
  unfold genOne at h
  simp only at h
  split at h
  · cases h
  · split at h
    · cases h
    · rename_i x hx
      cases h
      exact ⟨x, hx, _, rfl⟩

theorem coh_genOne_primArr {ctx : Ctx} {fuel : Nat} {acc acc1 : List GClass} {f : FieldDef} {p : PrimT}
    {pyName : List Nat} {fld : Field}
    (h : genOne ctx fuel acc f (.primArr p) = .ok (acc1, (pyName, fld))) :
    ∃ c, fld = .mk (mkMeta c (some (ktypeOfPrimT p)) (tagAt f ctx.v) (.val (.tuple [])))
        (.primArr ⟨baseOfKType (ktypeOfPrimT p), f.entityType.isSome⟩ (ktypeOfPrimT p == .uuid) false) := by
  unfold genOne at h
  simp only at h
  split at h
  · cases h
  · cases h; exact ⟨_, rfl⟩

theorem coh_genOne_entArr {ctx : Ctx} {fuel : Nat} {acc acc1 : List GClass} {f : FieldDef} {cls : List Nat}
    {fs : List FieldDef} {pyName : List Nat} {fld : Field}
    (h : genOne ctx fuel acc f (.entArr cls fs) = .ok (acc1, (pyName, fld))) :
    ∃ s, genClass ctx fuel acc cls fs false = .ok (acc1, s) ∧ ∃ c,
      fld = .mk (mkMeta c none (tagAt f ctx.v) (if (tagAt f ctx.v).isSome then .val (.tuple []) else .missing))
        (.entArr s (nullableAt f ctx.v)) := by
  unfold genOne at h
  simp only at h
  split at h
  · cases h
  · rename_i acc2 s hc; cases h; exact ⟨s, hc, _, rfl⟩

theorem coh_genOne_csArr {ctx : Ctx} {fuel : Nat} {acc acc1 : List GClass} {f : FieldDef} {cs : CommonStruct}
    {pyName : List Nat} {fld : Field}
    (h : genOne ctx fuel acc f (.csArr cs) = .ok (acc1, (pyName, fld))) :
    ∃ s, genClass ctx fuel acc cs.name cs.fields false = .ok (acc1, s) ∧ ∃ c,
      fld = .mk (mkMeta c none (tagAt f ctx.v) (if (tagAt f ctx.v).isSome then .val (.tuple []) else .missing))
        (.entArr s (nullableAt f ctx.v)) := by
  unfold genOne at h
  simp only at h
  split at h
  · cases h
  · rename_i acc2 s hc; cases h; exact ⟨s, hc, _, rfl⟩

/-- the default of a generated inline-structure field, as `genOne` computes it -/
def coh_entDflt (ctx : Ctx) (f : FieldDef) (fs : List FieldDef) (s : Schema) : Except GenErr (Option Value) :=
  match f.dflt with
  | some _ => if nullableAt f ctx.v then .ok (some Value.none) else .error .assertion
  | none =>
    if (tagAt f ctx.v).isSome && onlyDefaults ctx.d fs then (instanceOfDefaults s).map some
    else if (tagAt f ctx.v).isSome && f.ignorable then .ok (some Value.none)
    else .ok none

theorem coh_genOne_ent {ctx : Ctx} {fuel : Nat} {acc acc1 : List GClass} {f : FieldDef} {cls : List Nat}
    {fs : List FieldDef} {pyName : List Nat} {fld : Field}
    (h : genOne ctx fuel acc f (.ent cls fs) = .ok (acc1, (pyName, fld))) :
    ∃ s, genClass ctx fuel acc cls fs false = .ok (acc1, s) ∧ ∃ x, coh_entDflt ctx f fs s = .ok x ∧ ∃ c,
      fld = .mk (mkMeta c none (tagAt f ctx.v) (dfltOf x)) (.ent s (nullableAt f ctx.v)) := by
  unfold genOne at h
  simp only at h
  split at h
  · cases h
  · rename_i acc2 s hc
    split at h
    · cases h
    · rename_i x hx
      cases h
      exact ⟨s, hc, x, hx, _, rfl⟩

theorem coh_genOne_cs {ctx : Ctx} {fuel : Nat} {acc acc1 : List GClass} {f : FieldDef} {cs : CommonStruct}
    {pyName : List Nat} {fld : Field}
    (h : genOne ctx fuel acc f (.cs cs) = .ok (acc1, (pyName, fld))) :
    ∃ s, genClass ctx fuel acc cs.name cs.fields false = .ok (acc1, s) ∧ ∃ c,
      fld = .mk (mkMeta c none (tagAt f ctx.v)
          (dfltOf (if (tagAt f ctx.v).isSome && f.ignorable then some Value.none else none))) (.ent s false) := by
  unfold genOne at h
  simp only at h
  split at h
  · cases h
  · rename_i acc2 s hc; cases h; exact ⟨s, hc, _, rfl⟩

/-! ## what `fieldOk` and `structOk` say -/

theorem coh_fieldOk_common {d : MsgDef} {v : Nat} {f : FieldDef} (h : fieldOk d v f = true) :
    (∀ t, tagAt f v = some t → d.flexibleVersions.matches v = true ∧ t < 2 ^ 35) ∧
    (∀ fs, f.fields = some fs →
      structOk v (match f.ty with | .structArr _ => true | _ => false) fs = true) := by
  unfold fieldOk at h
  simp only [Bool.and_eq_true] at h
  obtain ⟨⟨⟨h1, _⟩, h3⟩, _⟩ := h
  constructor
  · intro t ht; rw [ht] at h1; simpa using h1
  · intro fs hfs; rw [hfs] at h3; exact h3

theorem coh_structOk {v : Nat} {nested : Bool} {fs : List FieldDef} (h : structOk v nested fs = true) :
    ((visibleAt fs v).filterMap (fun f => tagAt f v)).Nodup ∧ fs.length < 2 ^ 35 ∧
    (nested = true → (visibleAt fs v).any (isAnchor v) = true) := by
  unfold structOk at h
  simp only [Bool.and_eq_true, decide_eq_true_eq, Bool.or_eq_true, Bool.not_eq_eq_eq_not, Bool.not_true] at h
  refine ⟨h.1.1, h.1.2, ?_⟩
  intro hn
  rcases h.2 with h' | h'
  · rw [hn] at h'; cases h'
  · exact h'

/-! ## the per-field conclusion -/

/-- what the field-level step needs to know of a nested class generated from `fs` -/
structure NestOK (env : Env) (v : Nat) (s : Schema) (fs : List FieldDef) : Prop where
  wf : s.wf env = true
  tagArr : s.tagArrOk = true
  few : s.fewFields = true
  anchor : (visibleAt fs v).any (isAnchor v) = true → 1 ≤ s.minSize

structure CohFld (env : Env) (ctx : Ctx) (fd : FieldDef) (fld : Field) : Prop where
  wf : Field.wf env (ctx.d.flexibleVersions.matches ctx.v) false fld = true
  tagArr : Field.tagArrOk fld = true
  few : Field.fewFields fld = true
  tag : Field.tagNat fld = tagAt fd ctx.v
  anchor : isAnchor ctx.v fd = true → 1 ≤ Field.minSize fld
  flex : (tagAt fd ctx.v).isSome = true → ctx.d.flexibleVersions.matches ctx.v = true
  dflt : dfltAgrees (DefSpec.expField ctx.builtins fd ctx.v).dflt fld = true

theorem coh_flex_of {d : MsgDef} {v : Nat} {f : FieldDef}
    (h : ∀ t, tagAt f v = some t → d.flexibleVersions.matches v = true ∧ t < 2 ^ 35) :
    (tagAt f v).isSome = true → d.flexibleVersions.matches v = true := by
  intro hs
  obtain ⟨t, ht⟩ := Option.isSome_iff_exists.1 hs
  exact (h t ht).1

theorem coh_anchor_tag {v : Nat} {f : FieldDef} (h : isAnchor v f = true) : tagAt f v = none := by
  unfold isAnchor at h
  simp only [Bool.and_eq_true, Option.isNone_iff_eq_none] at h
  exact h.1

theorem coh_fld_prim {env : Env} {ctx : Ctx} {fuel : Nat} {acc acc1 : List GClass} {f : FieldDef}
    {p : PrimT} {k : KType} {n pyName : List Nat} {fld : Field} (ht : env.time = TimeCfg.repaired)
    (hfo : fieldOk ctx.d ctx.v f = true) (hty : f.ty = .prim p) (hr : resolvePrim f.name p = .ok (k, n))
    (htg : f.tag.isSome = f.tagged.isSome)
    (h : genOne ctx fuel acc f (.prim k n) = .ok (acc1, (pyName, fld))) : CohFld env ctx f fld := by
  obtain ⟨x, hx, c, rfl⟩ := coh_genOne_prim h
  obtain ⟨htag, _⟩ := coh_fieldOk_common hfo
  unfold fieldOk at hfo
  simp only [hty, hr, Bool.and_eq_true] at hfo
  obtain ⟨_, ⟨⟨_, hB⟩, hC⟩, hD⟩ := hfo
  have hgood := coh_resolvePrim_good hr
  refine ⟨?_, rfl, rfl, coh_tagNat .., ?_, coh_flex_of htag, ?_⟩
  · apply coh_prim_wf env ht k _ c _ _ _ x hgood (fun t h => (htag t h).2)
    · rcases Bool.eq_false_or_eq_true (k == .uuid) with hu | hu
      · have : k = .uuid := eq_of_beq hu
        subst this; simp [KType.hasNull]
      · rw [hu, Bool.or_false]; exact hC
    · show (!(k == .uuid) || (primNullable f k ctx.v || k == .uuid)) = true
      cases (k == KType.uuid) <;> simp
    · intro hts
      cases hdf : f.dflt with
      | some s =>
        unfold coh_primDflt at hx
        simp only [hdf] at hx
        obtain ⟨w, _, rfl⟩ := coh_map_some_ok hx
        exact Or.inl rfl
      | none =>
        unfold coh_primDflt at hx
        simp only [hdf, hts, Bool.true_and] at hx
        cases hig : f.ignorable with
        | true =>
          simp only [hig, if_true] at hx
          obtain ⟨w, _, rfl⟩ := coh_map_some_ok hx
          exact Or.inl rfl
        | false =>
          have hn : (tagAt f ctx.v).isNone = false := by
            cases h' : tagAt f ctx.v with
            | none => rw [h'] at hts; cases hts
            | some _ => rfl
          simp only [hn, hdf, hig, Option.isSome_none, Bool.or_false, Bool.false_or, Bool.and_eq_true,
            Bool.not_eq_eq_eq_not, Bool.not_true] at hD
          refine Or.inr ⟨?_, hD.2⟩
          rw [hD.1, Bool.false_or]
          have := hD.2
          cases k <;> first | rfl | exact absurd this (by decide)
  · intro ha
    rw [coh_anchor_tag ha, coh_minSize_untagged]
    simp [Shape.minSize]
  · have hpk := resolvePrim_primKind hr
    have : (DefSpec.expField ctx.builtins f ctx.v).dflt = DefSpec.expDefault coh_d0 f ctx.v (.prim k) := by
      simp [DefSpec.expField, hty, hpk, coh_d0]
    rw [this]
    exact coh_primDflt_agrees coh_d0 c _ _ htg hx hB

theorem coh_fld_primArr {env : Env} {ctx : Ctx} {fuel : Nat} {acc acc1 : List GClass} {f : FieldDef}
    {p : PrimT} {pyName : List Nat} {fld : Field}
    (hfo : fieldOk ctx.d ctx.v f = true) (hty : f.ty = .primArr p)
    (h : genOne ctx fuel acc f (.primArr p) = .ok (acc1, (pyName, fld))) : CohFld env ctx f fld := by
  obtain ⟨c, rfl⟩ := coh_genOne_primArr h
  obtain ⟨htag, _⟩ := coh_fieldOk_common hfo
  refine ⟨?_, rfl, rfl, coh_tagNat .., ?_, coh_flex_of htag, ?_⟩
  · exact coh_primArr_wf env p _ c _ _ (fun t h => (htag t h).2)
  · intro ha
    rw [coh_anchor_tag ha, coh_minSize_untagged]
    simp [Shape.minSize]
  · have : (DefSpec.expField ctx.builtins f ctx.v).dflt = .emptyArray := by
      simp [DefSpec.expField, hty]
    rw [this]
    exact coh_dfltAgrees_empty ..

/-- an array of structures (inline or common) -/
theorem coh_fld_arr {env : Env} {ctx : Ctx} {f : FieldDef} {n : List Nat} {fs : List FieldDef}
    {s : Schema} {c : Bool}
    (hfo : fieldOk ctx.d ctx.v f = true) (hty : f.ty = .structArr n)
    (htg : f.tag.isSome = f.tagged.isSome)
    (hs : NestOK env ctx.v s fs) (hanch : (visibleAt fs ctx.v).any (isAnchor ctx.v) = true) :
    CohFld env ctx f (.mk (mkMeta c none (tagAt f ctx.v)
      (if (tagAt f ctx.v).isSome then .val (.tuple []) else .missing)) (.entArr s (nullableAt f ctx.v))) := by
  obtain ⟨htag, _⟩ := coh_fieldOk_common hfo
  unfold fieldOk at hfo
  simp only [hty, Bool.and_eq_true] at hfo
  obtain ⟨_, _, hB⟩ := hfo
  refine ⟨?_, ?_, ?_, coh_tagNat .., ?_, coh_flex_of htag, ?_⟩
  · exact coh_entArr_wf env _ c _ _ s (fun t h => (htag t h).2) hs.wf (hs.anchor hanch)
  · rw [coh_mkMeta_eq]
    simp only [Field.tagArrOk, Shape.tagArrOk, hs.tagArr, Option.isSome_map, Bool.and_true]
    cases hts : (tagAt f ctx.v).isSome with
    | false => rfl
    | true =>
      have hn : (tagAt f ctx.v).isNone = false := by
        cases h' : tagAt f ctx.v with
        | none => rw [h'] at hts; cases hts
        | some _ => rfl
      rw [hn, Bool.false_or] at hB
      rw [Bool.true_and]; exact hB
  · simp only [Field.fewFields, Shape.fewFields, hs.few]
  · intro ha
    rw [coh_anchor_tag ha, coh_minSize_untagged]
    simp [Shape.minSize]
  · have : (DefSpec.expField ctx.builtins f ctx.v).dflt = DefSpec.expDefault coh_d0 f ctx.v (.structArr n) := by
      simp [DefSpec.expField, hty, coh_d0]
    rw [this]
    unfold DefSpec.expDefault
    simp only [coh_tagged_eq ctx.v htg]
    cases (tagAt f ctx.v).isSome
    · exact coh_dfltAgrees_missing ..
    · exact coh_dfltAgrees_empty ..

theorem coh_dfltAgrees_inst {s : Schema} {i : Value} (c : Bool) (tag : Option Nat) (o : Bool)
    (hi : instanceOfDefaults s = .ok i) :
    dfltAgrees .structOfDefaults (.mk (mkMeta c none tag (.val i)) (.ent s o)) = true := by
  rw [coh_mkMeta_eq]
  simp only [dfltAgrees, hi]
  exact coh_beq_refl i

theorem coh_entDflt_agrees {ctx : Ctx} {f : FieldDef} {fs : List FieldDef} {s : Schema} {x : Option Value}
    (n : List Nat) (c o : Bool) (htg : f.tag.isSome = f.tagged.isSome) (hfs : f.fields = some fs)
    (hx : coh_entDflt ctx f fs s = .ok x)
    (hod : ((tagAt f ctx.v).isNone || (onlyDefaults ctx.d fs == fs.all memberHasDefault)) = true) :
    dfltAgrees (DefSpec.expDefault coh_d0 f ctx.v (.struct n))
      (.mk (mkMeta c none (tagAt f ctx.v) (dfltOf x)) (.ent s o)) = true := by
  unfold coh_entDflt at hx
  unfold DefSpec.expDefault
  rw [coh_tagged_eq ctx.v htg]
  cases hd : f.dflt with
  | some d =>
    simp only [hd] at hx ⊢
    split at hx
    · cases hx; exact coh_dfltAgrees_value ..
    · cases hx
  | none =>
    simp only [hd, hfs] at hx ⊢
    cases hts : (tagAt f ctx.v).isSome with
    | false =>
      simp only [hts, Bool.false_and, Bool.false_eq_true, if_false] at hx ⊢
      cases hx
      exact coh_dfltAgrees_missing ..
    | true =>
      have hn : (tagAt f ctx.v).isNone = false := by
        cases h' : tagAt f ctx.v with
        | none => rw [h'] at hts; cases hts
        | some _ => rfl
      rw [hn, Bool.false_or, beq_iff_eq] at hod
      simp only [hts, Bool.true_and, if_true] at hx ⊢
      show dfltAgrees (if fs.all memberHasDefault = true then .structOfDefaults
        else if f.ignorable = true then .value .none else .noDefault) _ = true
      rw [← hod]
      cases ho : onlyDefaults ctx.d fs with
      | true =>
        simp only [ho, if_true] at hx ⊢
        obtain ⟨i, hi, rfl⟩ := coh_map_some_ok hx
        exact coh_dfltAgrees_inst c _ o hi
      | false =>
        simp only [ho, Bool.false_eq_true, if_false] at hx ⊢
        cases hig : f.ignorable
        · simp only [hig, Bool.false_eq_true, if_false] at hx ⊢
          cases hx; exact coh_dfltAgrees_missing ..
        · simp only [hig, if_true] at hx ⊢
          cases hx; exact coh_dfltAgrees_value ..

theorem coh_fld_ent {env : Env} {ctx : Ctx} {f : FieldDef} {n : List Nat} {fs : List FieldDef}
    {s : Schema} {c : Bool} {x : Option Value}
    (hfo : fieldOk ctx.d ctx.v f = true) (hmo : membersOk ctx.d ctx.v f = true)
    (hty : f.ty = .struct n) (hfs : f.fields = some fs)
    (htg : f.tag.isSome = f.tagged.isSome) (hx : coh_entDflt ctx f fs s = .ok x)
    (hs : NestOK env ctx.v s fs) :
    CohFld env ctx f (.mk (mkMeta c none (tagAt f ctx.v) (dfltOf x)) (.ent s (nullableAt f ctx.v))) := by
  obtain ⟨htag, _⟩ := coh_fieldOk_common hfo
  unfold fieldOk at hfo
  simp only [hty, hfs, Bool.and_eq_true] at hfo
  obtain ⟨_, ⟨⟨_, hB⟩, _⟩, hD⟩ := hfo
  have hE : ((tagAt f ctx.v).isNone || (onlyDefaults ctx.d fs == fs.all memberHasDefault)) = true := by
    unfold membersOk at hmo
    simpa only [hty, hfs] using hmo
  have hn : (tagAt f ctx.v).isSome = true → (tagAt f ctx.v).isNone = false := by
    intro hts
    cases h' : tagAt f ctx.v with
    | none => rw [h'] at hts; cases hts
    | some _ => rfl
  refine ⟨?_, ?_, ?_, coh_tagNat .., ?_, coh_flex_of htag, ?_⟩
  · apply coh_ent_wf env _ c _ _ x s (fun t h => (htag t h).2) hs.wf
    · cases hts : (tagAt f ctx.v).isSome with
      | false => rfl
      | true => rw [hn hts, Bool.false_or] at hB; rw [Bool.not_true, Bool.false_or]; exact hB
    · intro hts
      unfold coh_entDflt at hx
      cases hd : f.dflt with
      | some d =>
        simp only [hd] at hx
        split at hx
        · cases hx; rfl
        · cases hx
      | none =>
        simp only [hd, hts, Bool.true_and] at hx
        simp only [hd, hn hts, Bool.false_or, Bool.or_eq_true] at hD
        rcases hD with hD | hD
        · simp only [hD, if_true] at hx
          split at hx
          · obtain ⟨i, _, rfl⟩ := coh_map_some_ok hx; rfl
          · cases hx; rfl
        · simp only [hD, if_true] at hx
          obtain ⟨i, _, rfl⟩ := coh_map_some_ok hx; rfl
  · simp only [Field.tagArrOk, Shape.tagArrOk, hs.tagArr]
  · simp only [Field.fewFields, Shape.fewFields, hs.few]
  · intro ha
    unfold isAnchor at ha
    simp [hty] at ha
  · have : (DefSpec.expField ctx.builtins f ctx.v).dflt = DefSpec.expDefault coh_d0 f ctx.v (.struct n) := by
      simp [DefSpec.expField, hty, coh_d0]
    rw [this]
    exact coh_entDflt_agrees n c _ htg hfs hx hE

theorem coh_fld_cs {env : Env} {ctx : Ctx} {f : FieldDef} {n : List Nat} {fs : List FieldDef}
    {s : Schema} {c : Bool}
    (hfo : fieldOk ctx.d ctx.v f = true) (hty : f.ty = .struct n) (hfs : f.fields = none)
    (htg : f.tag.isSome = f.tagged.isSome) (hs : NestOK env ctx.v s fs) :
    CohFld env ctx f (.mk (mkMeta c none (tagAt f ctx.v)
      (dfltOf (if (tagAt f ctx.v).isSome && f.ignorable then some Value.none else none))) (.ent s false)) := by
  obtain ⟨htag, _⟩ := coh_fieldOk_common hfo
  unfold fieldOk at hfo
  simp only [hty, hfs, Bool.and_eq_true] at hfo
  obtain ⟨_, _, hD⟩ := hfo
  have hn : (tagAt f ctx.v).isSome = true → (tagAt f ctx.v).isNone = false := by
    intro hts
    cases h' : tagAt f ctx.v with
    | none => rw [h'] at hts; cases hts
    | some _ => rfl
  have hdn : f.dflt = none := by
    cases hd : f.dflt with
    | none => rfl
    | some d => simp [hd] at hD
  simp only [hdn, Bool.or_false] at hD
  refine ⟨?_, ?_, ?_, coh_tagNat .., ?_, coh_flex_of htag, ?_⟩
  · apply coh_ent_wf env _ c _ _ _ s (fun t h => (htag t h).2) hs.wf
    · simp
    · intro hts
      rw [hn hts, Bool.false_or] at hD
      simp [hts, hD]
  · simp only [Field.tagArrOk, Shape.tagArrOk, hs.tagArr]
  · simp only [Field.fewFields, Shape.fewFields, hs.few]
  · intro ha
    unfold isAnchor at ha
    simp [hty] at ha
  · have : (DefSpec.expField ctx.builtins f ctx.v).dflt = DefSpec.expDefault coh_d0 f ctx.v (.struct n) := by
      simp [DefSpec.expField, hty, coh_d0]
    rw [this]
    unfold DefSpec.expDefault
    simp only [hdn, hfs, coh_tagged_eq ctx.v htg]
    cases (tagAt f ctx.v).isSome <;> cases f.ignorable <;>
      first | exact coh_dfltAgrees_missing .. | exact coh_dfltAgrees_value ..

end Kio.Gen
