import Kio.Proofs.Reencode
import Kio.Proofs.ForeignBase
/-!
Counterexamples to the statement of re-encodability as first proposed

    theorem Schema.reencodable (env) (ht : env.time = TimeCfg.repaired) (hfl : FloatExact)
        (s) (hwf : s.wf env = true) (hnd : s.taggedNullDefaults = true)
        (bs) (hlen : bs.length < 2 ^ 35) (v rest) (h : s.read env bs = .ok (v, rest)) :
        ∃ b', s.write env v = .ok b' ∧ b'.length + rest.length ≤ bs.length

which is why `Schema.reencodable'` (Kio/Proofs/Reencode.lean) has the extra hypothesis
`taggedDefaultsRefl` and the factor 3.
-/
namespace Kio.ReencodeCex

set_option maxRecDepth 8192

def env : Env :=
  { errorCodes := [], time := TimeCfg.repaired, skipUnknownTags := true, nullableTaggedReader := true }

/-! ### 1. a default that is not equal to itself reaches the writer -/

/-- a quiet NaN -/
def nan : Nat := 0x7ff8000000000000

/-- `x: i32 = field(metadata={"kafka_type": "int32", "tag": 0}, default=float("nan"))` -/
def fNan : Field :=
  .mk { nameId := 0, isClientId := false, kafkaType := some .int32, tag := some 0,
        dflt := .val (.float nan), extraMeta := false } (.prim ⟨.i32, false⟩ false)

def sNan : Schema := .mk 0 true false [fNan]

/-- the class is coherent and satisfies `taggedNullDefaults`; the one-byte input `00` (no tagged
    fields) decodes, and the decoded instance is rejected by the writer -/
theorem reencodable_cex_default :
    sNan.wf env = true ∧ sNan.taggedNullDefaults = true
    ∧ sNan.read env [0] = .ok (.entity [.float nan], [])
    ∧ sNan.write env (.entity [.float nan]) = .error .structError
    ∧ sNan.taggedDefaultsRefl env = false :=
  ⟨rfl, rfl, rfl, rfl, rfl⟩

/-- hence the statement as first proposed is false (already its existence part) -/
theorem reencodable_original_false :
    ¬ (∀ (env : Env) (_ : env.time = TimeCfg.repaired) (_ : FloatExact)
        (s : Schema) (_ : s.wf env = true) (_ : s.taggedNullDefaults = true)
        (bs : Bytes) (_ : bs.length < 2 ^ 35) (v : Value) (rest : Bytes)
        (_ : s.read env bs = .ok (v, rest)),
        ∃ b', s.write env v = .ok b' ∧ b'.length + rest.length ≤ bs.length) := by
  intro H
  obtain ⟨b, hb, _⟩ := H env rfl floatExact_holds sNan rfl rfl [0] (by decide) _ _
    reencodable_cex_default.2.2.1
  rw [reencodable_cex_default.2.2.2.1] at hb
  cases hb

/-! ### 2. the re-encoding can be longer than the input -/

/-- `s: str = field(metadata={"kafka_type": "string", "tag": 0}, default="")` -/
def fStr : Field :=
  .mk { nameId := 0, isClientId := false, kafkaType := some .string, tag := some 0,
        dflt := .missing, extraMeta := false } (.prim ⟨.str, false⟩ false)

def sStr : Schema := .mk 0 true false [fStr]

def pay : Bytes := List.replicate 127 97

/-- one tagged field, tag 0, *size prefix 0* (the reader ignores it), then the compact string
    `80 01` + 127 × `a` -/
def inp : Bytes := [1, 0, 0, 0x80, 0x01] ++ pay

/-- the writer emits the real size (129, two bytes) -/
def out : Bytes := [1, 0, 0x81, 0x01, 0x80, 0x01] ++ pay

theorem e0 : encVarint 0 = [0] := by simp [encVarint]
theorem e1 : encVarint 1 = [1] := by simp [encVarint]
theorem e128 : encVarint 128 = [0x80, 1] := by simp [encVarint]
theorem e129 : encVarint 129 = [0x81, 1] := by simp [encVarint]

theorem write_sStr : sStr.write env (.entity [.str pay]) = .ok out := by
  have hw : writeCompactString (.str pay) = .ok ([0x80, 1] ++ pay) := by
    have := (wncs_of_payload (v := .str pay) (p := pay) (n := 128) rfl rfl).2
    rw [e128] at this
    exact this
  have ht : writeTaggedField 0 writeCompactString (.str pay)
      = .ok ([0, 0x81, 1, 0x80, 1] ++ pay) := by
    unfold writeTaggedField
    rw [hw, ok_bind_re]
    have : uvarintCtor (([0x80, 1] ++ pay : Bytes).length : Int) = .ok 129 := rfl
    rw [this, ok_bind_re, e0, e129]
    rfl
  have hfw : Field.write env true false true fStr = writeCompactString := rfl
  have hi : Fields.taggedItems env true false [fStr] [.str pay]
      = .ok [(0, [0, 0x81, 1, 0x80, 1] ++ pay)] := by
    rw [Fields.taggedItems]
    have h1 : fStr.tagNat = some 0 := rfl
    simp only [h1]
    have h2 : (Value.str pay).pyEq ((Field.taggedDefault env fStr).toOption.getD .none) = false :=
      rfl
    simp only [h2, Bool.false_eq_true, if_false]
    rw [hfw, ht, ok_bind_re]
    rfl
  rw [sStr, Schema.write]
  have hu : Fields.writeUntagged env true false [fStr] [.str pay] = .ok [] := rfl
  rw [hu, ok_bind_re]
  simp only [Bool.not_true, Bool.false_eq_true, if_false]
  rw [hi, ok_bind_re]
  have hs : sortByTag [((0 : Nat), ([0, 0x81, 1, 0x80, 1] ++ pay : Bytes))]
      = [(0, [0, 0x81, 1, 0x80, 1] ++ pay)] := rfl
  simp only [hs]
  have hc : uvarintCtor
      (([((0 : Nat), ([0, 0x81, 1, 0x80, 1] ++ pay : Bytes))].length : Nat) : Int) = .ok 1 := rfl
  rw [hc, ok_bind_re, e1]
  rfl

/-- the class is coherent, satisfies both conditions on the defaults; the 132-byte input decodes
    completely and the (unique) re-encoding has 133 bytes -/
theorem reencodable_cex_length :
    sStr.wf env = true ∧ sStr.taggedNullDefaults = true ∧ sStr.taggedDefaultsRefl env = true
    ∧ sStr.read env inp = .ok (.entity [.str pay], [])
    ∧ sStr.write env (.entity [.str pay]) = .ok out
    ∧ inp.length = 132 ∧ out.length = 133 :=
  ⟨rfl, rfl, rfl, rfl, write_sStr, rfl, rfl⟩

end Kio.ReencodeCex
