import Kio.Basic
/-!
Line-protocol encoding of values and bytes (DESIGN §4.2): prefix tokens separated by blanks.
`I<int>` `B0|B1` `F<bits>` `S<hex>` `Y<hex>` `U<hex>` `T<µs>` `D<µs>` `N` `A<n> v…` `E<n> v…`
-/
namespace Kio

def hexDigit (n : Nat) : Char :=
  if n < 10 then Char.ofNat (48 + n) else Char.ofNat (87 + n)

def hexOfBytes (b : Bytes) : String :=
  String.ofList (b.foldr (fun x acc => hexDigit (x.toNat / 16) :: hexDigit (x.toNat % 16) :: acc) [])

def hexVal (c : Char) : Option Nat :=
  if '0' ≤ c ∧ c ≤ '9' then some (c.toNat - 48)
  else if 'a' ≤ c ∧ c ≤ 'f' then some (c.toNat - 87)
  else if 'A' ≤ c ∧ c ≤ 'F' then some (c.toNat - 55)
  else none

/-- tail-recursive: payloads of several hundred kilobytes arrive on one line -/
def bytesOfHexCharsAux : List Char → List UInt8 → Option Bytes
  | [], acc => some acc.reverse
  | a :: b :: rest, acc =>
    match hexVal a, hexVal b with
    | some x, some y => bytesOfHexCharsAux rest ((x * 16 + y).toUInt8 :: acc)
    | _, _ => none
  | _, _ => none

def bytesOfHexChars (cs : List Char) : Option Bytes := bytesOfHexCharsAux cs []

/-- `-` stands for the empty byte string so that every token is non-empty -/
def bytesOfHex (s : String) : Option Bytes :=
  if s = "-" then some [] else bytesOfHexChars s.toList

def hexTok (b : Bytes) : String := if b.isEmpty then "-" else hexOfBytes b

mutual
partial def Value.toTokens : Value → List String
  | .int i => [s!"I{i}"]
  | .bool b => [if b then "B1" else "B0"]
  | .float b => [s!"F{b}"]
  | .str s => ["S" ++ hexTok s]
  | .bytes s => ["Y" ++ hexTok s]
  | .uuid s => ["U" ++ hexTok s]
  | .timedelta us => [s!"T{us}"]
  | .datetime us => [s!"D{us}"]
  | .none => ["N"]
  | .tuple vs => s!"A{vs.length}" :: vs.flatMap Value.toTokens
  | .entity vs => s!"E{vs.length}" :: vs.flatMap Value.toTokens
end

def Value.render (v : Value) : String := " ".intercalate v.toTokens

mutual
partial def parseValue : List String → Option (Value × List String)
  | [] => none
  | tok :: rest =>
    let body := (tok.drop 1).toString
    match tok.front with
    | 'I' => body.toInt?.map (fun i => (.int i, rest))
    | 'B' => some (.bool (body = "1"), rest)
    | 'F' => body.toNat?.map (fun n => (.float n, rest))
    | 'S' => (bytesOfHex body).map (fun b => (.str b, rest))
    | 'Y' => (bytesOfHex body).map (fun b => (.bytes b, rest))
    | 'U' => (bytesOfHex body).map (fun b => (.uuid b, rest))
    | 'T' => body.toInt?.map (fun i => (.timedelta i, rest))
    | 'D' => body.toInt?.map (fun i => (.datetime i, rest))
    | 'N' => some (.none, rest)
    | 'A' => do
      let n ← body.toNat?
      let (vs, rest) ← parseValues n rest
      pure (.tuple vs, rest)
    | 'E' => do
      let n ← body.toNat?
      let (vs, rest) ← parseValues n rest
      pure (.entity vs, rest)
    | _ => none
partial def parseValues : Nat → List String → Option (List Value × List String)
  | 0, toks => some ([], toks)
  | n+1, toks => do
    let (v, toks) ← parseValue toks
    let (vs, toks) ← parseValues n toks
    pure (v :: vs, toks)
end

end Kio
