import Kio.Proofs.TableLemmas
import Kio.Generated.Info
/-!
# C08 — header schema and request/response pairing follow the Kafka rules
The rule is `Spec.requestHeaderVersion` / `Spec.responseHeaderVersion` (Kio/Model/Tables.lean),
transcribed from Kafka's `ApiMessageTypeGenerator`, not from `codegen/header_schema.py`.
-/
namespace Kio.C08
open Kio

/-- the rule itself, as C08 states it -/
theorem rule (k v : Int) (flex : Bool) :
    Spec.requestHeaderVersion k v flex = (if k = 7 ∧ v = 0 then 0 else if flex then 2 else 1) ∧
    Spec.responseHeaderVersion k flex = (if k = 18 then 0 else if flex then 1 else 0) := ⟨rfl, rfl⟩

set_option maxRecDepth 1000000 in
/-- instance: on the regenerated tables every request/response class advertises the mandated
    header class (which has the right version and flexibility), and the index pairs requests and
    responses mutually inversely with equal key, version and flexibility -/
theorem shipped : Generated.tables.c08 = true := by decide +kernel

/-- what that means for each request class -/
theorem shipped_request (c : ClassInfo) (hc : c ∈ Generated.tables.classes) (hr : c.etype = .request) :
    (∃ k hcls, c.apiKey = some k ∧
        Generated.tables.headerClass true (Spec.requestHeaderVersion k c.version c.flexible) = some hcls ∧
        c.headerIdx = some hcls.idx) ∧
    (∃ r, Generated.tables.responseFromRequest c = .ok r.idx ∧ Generated.tables.cls? r.idx = some r ∧
        r.etype = .response ∧ r.apiKey = c.apiKey ∧ r.flexible = c.flexible ∧ r.version = c.version ∧
        Generated.tables.requestFromResponse r = .ok c.idx) :=
  Tables.c08_request Generated.tables shipped c hc hr

/-- … and for each response class -/
theorem shipped_response (c : ClassInfo) (hc : c ∈ Generated.tables.classes) (hr : c.etype = .response) :
    (∃ k hcls, c.apiKey = some k ∧
        Generated.tables.headerClass false (Spec.responseHeaderVersion k c.flexible) = some hcls ∧
        c.headerIdx = some hcls.idx) ∧
    (∃ r, Generated.tables.requestFromResponse c = .ok r.idx ∧ Generated.tables.cls? r.idx = some r ∧
        r.etype = .request ∧ r.apiKey = c.apiKey ∧ r.flexible = c.flexible ∧ r.version = c.version ∧
        Generated.tables.responseFromRequest r = .ok c.idx) :=
  Tables.c08_response Generated.tables shipped c hc hr

end Kio.C08
