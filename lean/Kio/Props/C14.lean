import Kio.Model.TablePreds
import Kio.Generated.Info
/-!
# C14 — the versions of an API form a coherent family
-/
namespace Kio.C14
open Kio

set_option maxRecDepth 1000000 in
/-- instance on the regenerated tables: within a module every class carries the module's
    version, flexibility, key and header and the path names the API (snake-cased top-level class
    name without `_request`/`_response`), version and kind of the top-level class; per API and
    kind the versions are contiguous, flexibility never reverts, the key is constant; the key is
    unique to the API; requests and responses exist for exactly the same versions -/
theorem shipped : Generated.tables.c14 = true := by decide +kernel

/-- the naming convention used in the check, on the examples of the generator's docstring -/
theorem snake_examples :
    toSnakeCaseRaw (strOf "ISRReplicas") = strOf "isr_replicas" ∧
    toSnakeCaseRaw (strOf "InSyncReplicas") = strOf "in_sync_replicas" ∧
    toSnakeCaseRaw (strOf "WhatIsQ") = strOf "what_is_q" ∧
    toSnakeCaseRaw (strOf "V3AndBelow") = strOf "v3_and_below" ∧
    apiPackageName (strOf "OffsetForLeaderEpochRequest") = strOf "offset_for_leader_epoch" := by
  decide

end Kio.C14
