import Kio.Proofs.Codec
import Kio.Proofs.Float
import Kio.Proofs.RoundtripEq
import Kio.Model.Current
import Kio.Generated.All
/-!
# C01 — encode then decode is the identity, with exact consumption

For every coherent schema `s` (`Schema.wf`), every well-typed value `v` in canonical form
(`Schema.typedOk`: whole-millisecond durations and timestamps, no all-zero UUID, finite floats) and
every suffix `rest`: decoding `enc s v ++ rest` consumes exactly the encoding and yields an instance
**equal to `v` in Python's sense** (`roundtrip_eq`: `Value.pyEq`, the `==` of dataclasses) — namely
`s.canon v`, `v` with every tagged field that is `==` to its default replaced by the default itself
(`roundtrip_canon`).  When no tagged field holds a value that is `==` but not identical to its
default (−0.0 against 0.0 is the only well-typed case; `Schema.valueOk` adds exactly that clause) the
result is `v` itself (`roundtrip`).  Instance theorem: every shipped class is coherent
(kernel-checked on the regenerated table).
-/
namespace Kio.C01
open Kio

/-- CPython's float conversion is exact on whole-millisecond timestamps (from `ms_exact`). -/
theorem float_exact : FloatExact := by
  intro k h0 h1
  apply ms_exact
  rw [abs_lt]
  constructor <;> omega

/-- a primitive written by the writer the dispatch table picks is read back by the reader it picks -/
theorem prim_roundtrip (env : Env) (ht : env.time = TimeCfg.repaired)
    (k : KType) (flex optW optR : Bool) (hopt : (optW = true → optR = true) ∨ k = .uuid) (w : PrimW) (r : PrimR)
    (hw : getWriter k flex optW = .ok w) (hr : getReader k flex optR = .ok r)
    (v : Value) (hv : primValueOk env k true v = true) (bs : Bytes) (he : w.run env v = .ok bs)
    (rest : Bytes) : r.run env (bs ++ rest) = .ok (v, rest) :=
  Kio.prim_roundtrip env ht float_exact k flex optW optR hopt w r hw hr v hv bs he rest

/-- a coherent class has a reader and a writer (no build-time error) -/
theorem buildable (env : Env) (s : Schema) (hwf : s.wf env = true) :
    s.readerBuildErr env = none ∧ s.writerBuildErr env = none :=
  Kio.wf_buildable env s hwf

/-- **C01**: `dec s (enc s v ++ rest) = (v, rest)` -/
theorem roundtrip (env : Env) (ht : env.time = TimeCfg.repaired) (s : Schema) (hwf : s.wf env = true)
    (v : Value) (hv : s.valueOk env v = true) (bs : Bytes) (he : enc env s v = .ok bs) (rest : Bytes) :
    dec env s (bs ++ rest) = .ok (v, rest) := by
  obtain ⟨hr, hw⟩ := buildable env s hwf
  unfold enc at he; rw [hw] at he
  unfold dec; rw [hr]
  exact Kio.Schema.roundtrip env ht float_exact s v bs hwf hv he rest

/-- **C01, full strength**: decoding the encoding of any well-typed value yields an equal (`==`)
    instance and consumes exactly the encoding -/
theorem roundtrip_eq (env : Env) (ht : env.time = TimeCfg.repaired) (s : Schema) (hwf : s.wf env = true)
    (v : Value) (hv : s.typedOk env v = true) (bs : Bytes) (he : enc env s v = .ok bs) (rest : Bytes) :
    ∃ v', dec env s (bs ++ rest) = .ok (v', rest) ∧ v'.pyEq v = true :=
  Kio.roundtrip_pyEq env ht s hwf v hv bs he rest

/-- … and says which instance: `v` with tagged fields that are `==` to their default set to it -/
theorem roundtrip_canon (env : Env) (ht : env.time = TimeCfg.repaired) (s : Schema) (hwf : s.wf env = true)
    (v : Value) (hv : s.typedOk env v = true) (bs : Bytes) (he : enc env s v = .ok bs) (rest : Bytes) :
    dec env s (bs ++ rest) = .ok (s.canon env v, rest) :=
  Kio.roundtrip_canon env ht s hwf v hv bs he rest

/-- the generalisation is strict: −0.0 in a tagged float field with default 0.0 is well typed, is
    omitted by the encoder, comes back as 0.0 — equal, not identical -/
theorem negative_zero_witness :
    Kio.rqFloatSchema.typedOk Kio.rqEnv Kio.rqNegZero = true
    ∧ Kio.rqFloatSchema.valueOk Kio.rqEnv Kio.rqNegZero = false
    ∧ enc Kio.rqEnv Kio.rqFloatSchema Kio.rqNegZero = .ok [0]
    ∧ (∀ rest, dec Kio.rqEnv Kio.rqFloatSchema ([0] ++ rest) = .ok (Kio.rqPosZero, rest))
    ∧ Kio.rqPosZero.pyEq Kio.rqNegZero = true ∧ Kio.rqPosZero ≠ Kio.rqNegZero :=
  ⟨Kio.rqNegZero_typedOk, Kio.rqNegZero_not_valueOk, Kio.rqNegZero_enc, Kio.rqNegZero_dec,
   Kio.rqPosZero_pyEq, Kio.rqPosZero_ne⟩

set_option maxRecDepth 100000 in
/-- every shipped class (regenerated from /repo on every run) is coherent -/
theorem shipped_coherent :
    allOk (Schema.wf (Env.current Generated.errorCodes)) Generated.allClasses = true := by
  decide +kernel

theorem allOk_mem {α} {p : α → Bool} {l : List α} (h : allOk p l = true) {x : α} (hx : x ∈ l) :
    p x = true := by
  induction l with
  | nil => cases hx
  | cons a as ih =>
    simp only [allOk, Bool.and_eq_true] at h
    rcases List.mem_cons.mp hx with rfl | hx
    · exact h.1
    · exact ih h.2 hx

/-- C01 for the 1629 shipped classes, in the model of the tree as it is now -/
theorem shipped (s : Schema) (hs : s ∈ Generated.allClasses)
    (ht : (Env.current Generated.errorCodes).time = TimeCfg.repaired)
    (v : Value) (hv : s.valueOk (Env.current Generated.errorCodes) v = true) (bs : Bytes)
    (he : enc (Env.current Generated.errorCodes) s v = .ok bs) (rest : Bytes) :
    dec (Env.current Generated.errorCodes) s (bs ++ rest) = .ok (v, rest) :=
  roundtrip _ ht s (allOk_mem shipped_coherent hs) v hv bs he rest

end Kio.C01
