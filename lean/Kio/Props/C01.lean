import Kio.Proofs.Codec
import Kio.Proofs.Float
import Kio.Model.Current
import Kio.Generated.All
/-!
# C01 — encode then decode is the identity, with exact consumption

For every coherent schema `s` (`Schema.wf`), every well-typed canonical value `v`
(`Schema.valueOk`), and every suffix `rest`: decoding `enc s v ++ rest` yields `(v, rest)`.
Instance theorem: every shipped class is coherent (kernel-checked on the regenerated table).
-/
namespace Kio.C01
open Kio

/-- CPython's float conversion is exact on whole-millisecond timestamps (from `ms_exact`). -/
theorem float_exact : FloatExact := by
  intro k h0 h1
  apply ms_exact
  rw [abs_lt]
  constructor <;> omega

/-- a primitive written by the writer the dispatch table picks is read back by the reader it picks -/
theorem prim_roundtrip (env : Env) (ht : env.time = TimeCfg.repaired)
    (k : KType) (flex optW optR : Bool) (hopt : (optW = true → optR = true) ∨ k = .uuid) (w : PrimW) (r : PrimR)
    (hw : getWriter k flex optW = .ok w) (hr : getReader k flex optR = .ok r)
    (v : Value) (hv : primValueOk env k true v = true) (bs : Bytes) (he : w.run env v = .ok bs)
    (rest : Bytes) : r.run env (bs ++ rest) = .ok (v, rest) :=
  Kio.prim_roundtrip env ht float_exact k flex optW optR hopt w r hw hr v hv bs he rest

/-- a coherent class has a reader and a writer (no build-time error) -/
theorem buildable (env : Env) (s : Schema) (hwf : s.wf env = true) :
    s.readerBuildErr env = none ∧ s.writerBuildErr env = none :=
  Kio.wf_buildable env s hwf

/-- **C01**: `dec s (enc s v ++ rest) = (v, rest)` -/
theorem roundtrip (env : Env) (ht : env.time = TimeCfg.repaired) (s : Schema) (hwf : s.wf env = true)
    (v : Value) (hv : s.valueOk env v = true) (bs : Bytes) (he : enc env s v = .ok bs) (rest : Bytes) :
    dec env s (bs ++ rest) = .ok (v, rest) := by
  obtain ⟨hr, hw⟩ := buildable env s hwf
  unfold enc at he; rw [hw] at he
  unfold dec; rw [hr]
  exact Kio.Schema.roundtrip env ht float_exact s v bs hwf hv he rest

set_option maxRecDepth 100000 in
/-- every shipped class (regenerated from /repo on every run) is coherent -/
theorem shipped_coherent :
    allOk (Schema.wf (Env.current Generated.errorCodes)) Generated.allClasses = true := by
  decide +kernel

theorem allOk_mem {α} {p : α → Bool} {l : List α} (h : allOk p l = true) {x : α} (hx : x ∈ l) :
    p x = true := by
  induction l with
  | nil => cases hx
  | cons a as ih =>
    simp only [allOk, Bool.and_eq_true] at h
    rcases List.mem_cons.mp hx with rfl | hx
    · exact h.1
    · exact ih h.2 hx

/-- C01 for the 1629 shipped classes, in the model of the tree as it is now -/
theorem shipped (s : Schema) (hs : s ∈ Generated.allClasses)
    (ht : (Env.current Generated.errorCodes).time = TimeCfg.repaired)
    (v : Value) (hv : s.valueOk (Env.current Generated.errorCodes) v = true) (bs : Bytes)
    (he : enc (Env.current Generated.errorCodes) s v = .ok bs) (rest : Bytes) :
    dec (Env.current Generated.errorCodes) s (bs ++ rest) = .ok (v, rest) :=
  roundtrip _ ht s (allOk_mem shipped_coherent hs) v hv bs he rest

end Kio.C01
