import Kio.Proofs.Decode
import Kio.Proofs.Codec
import Kio.Model.Current
import Kio.Generated.All
/-!
# C10 — malformed input fails with a decode error, never an internal error

`dec` is a total function (structural recursion on the schema and on decoded counts), so every
input yields a value or an error; the theorems say which errors, and how much is consumed.
-/
namespace Kio.C10
open Kio

/-- every decode error on a coherent class is in the allowed set -/
theorem errors_allowed (env : Env) (hskip : env.skipUnknownTags = true) (s : Schema)
    (hwf : s.wf env = true) (bs : Bytes) (e : Err) (h : dec env s bs = .error e) :
    e.allowed = true := by
  obtain ⟨hr, _⟩ := Kio.wf_buildable env s hwf
  unfold dec at h; rw [hr] at h
  exact Kio.Schema.read_err_allowed env hskip s hwf bs e h

/-- the decoder never consumes more than it was given: the rest is a suffix of the input -/
theorem consumes_prefix (env : Env) (s : Schema) (bs : Bytes) (v : Value) (rest : Bytes)
    (h : dec env s bs = .ok (v, rest)) : ∃ pre, bs = pre ++ rest := by
  unfold dec at h
  split at h
  · contradiction
  · exact Kio.Schema.read_suffix env s bs v rest h

/-- as shipped (unknown tags not skipped) an internal `KeyError` *is* reachable: witness -/
theorem keyError_reachable_when_not_skipping :
    ∃ (s : Schema) (bs : Bytes), s.wf (Env.shipped []) = true ∧
      dec (Env.shipped []) s bs = .error .keyError :=
  ⟨.mk 0 true false [], [1, 99, 0], by decide, by rfl⟩

end Kio.C10
