import Kio.Proofs.Decode
import Kio.Proofs.Steps
import Kio.Proofs.Codec
import Kio.Model.Current
import Kio.Proofs.StepsAll
import Kio.Generated.All
/-!
# C10 — malformed input fails with a decode error, never an internal error

`dec` is a total function (structural recursion on the schema and on decoded counts), so every
input yields a value or an error; the theorems say which errors, and how much is consumed.
-/
namespace Kio.C10
open Kio

/-- every decode error on a coherent class is in the allowed set -/
theorem errors_allowed (env : Env) (hskip : env.skipUnknownTags = true) (s : Schema)
    (hwf : s.wf env = true) (bs : Bytes) (e : Err) (h : dec env s bs = .error e) :
    e.allowed = true := by
  obtain ⟨hr, _⟩ := Kio.wf_buildable env s hwf
  unfold dec at h; rw [hr] at h
  exact Kio.Schema.read_err_allowed env hskip s hwf bs e h

/-- the decoder never consumes more than it was given: the rest is a suffix of the input -/
theorem consumes_prefix (env : Env) (s : Schema) (bs : Bytes) (v : Value) (rest : Bytes)
    (h : dec env s bs = .ok (v, rest)) : ∃ pre, bs = pre ++ rest := by
  unfold dec at h
  split at h
  · contradiction
  · exact Kio.Schema.read_suffix env s bs v rest h

/-- as shipped (unknown tags not skipped) an internal `KeyError` *is* reachable: witness -/
theorem keyError_reachable_when_not_skipping :
    ∃ (s : Schema) (bs : Bytes), s.wf (Env.shipped []) = true ∧
      dec (Env.shipped []) s bs = .error .keyError :=
  ⟨.mk 0 true false [], [1, 99, 0], by decide, by rfl⟩

/-- **linear time**: the instrumented decoder (`Schema.readS`, which erases to `Schema.read`)
    takes at most two steps per consumed byte on a coherent class -/
theorem linear_steps (env : Env) (s : Schema) (hwf : s.wf env = true) (bs : Bytes) (v : Value)
    (rest : Bytes) (h : s.read env bs = .ok (v, rest)) :
    ∃ n, s.readS env bs = .ok (v, rest, n) ∧ n ≤ 2 * (bs.length - rest.length) :=
  Kio.Schema.read_steps_le env s hwf bs v rest h

/-- **linear time, every input**: the instrumented decoder `Schema.readT` (one step per primitive
    read, per array element and per tagged-loop iteration; steps are counted on failing runs too,
    and a declared element count only costs the elements actually attempted) returns exactly what
    the decoder returns and takes at most `2·|input| + 1` steps on a coherent class — whether the
    input is valid, truncated, random or hostile.  The constant is attained
    (`Kio.StepsAllEx.bound_attained`). -/
theorem linear_steps_all (env : Env) (s : Schema) (hwf : s.wf env = true) (bs : Bytes) :
    ∃ n, s.readT env bs = (s.read env bs, n) ∧ n ≤ 2 * bs.length + 1 :=
  Kio.Schema.read_steps_all env s hwf bs

/-- a hostile length prefix does not buy work: a declared count of 2^32-2 elements on a
    two-byte input costs 3 steps (5 when nested) -/
theorem huge_count_is_cheap :
    Kio.StepsAllEx.sFlex.readT Kio.StepsAllEx.env [0xff, 0xff, 0xff, 0xff, 0x0f] = (.error .underflow, 3)
    ∧ Kio.StepsAllEx.sOuter.readT Kio.StepsAllEx.env [0xff, 0xff, 0xff, 0xff, 0x0f, 0xff, 0xff, 0xff, 0xff, 0x0f]
        = (.error .underflow, 5) :=
  ⟨Kio.StepsAllEx.huge_count.1, Kio.StepsAllEx.huge_count.2.2⟩

/-- the step-counting decoder computes exactly what the decoder computes -/
theorem steps_erase (env : Env) (s : Schema) (bs : Bytes) :
    (s.readS env bs).map (fun p => (p.1, p.2.1)) = s.read env bs :=
  Kio.Schema.readS_erase env s bs

set_option maxRecDepth 100000 in
theorem shipped_coherent :
    allOk (Schema.wf (Env.current Generated.errorCodes)) Generated.allClasses = true := by
  decide +kernel

theorem allOk_mem {α} {p : α → Bool} {l : List α} (h : allOk p l = true) {x : α} (hx : x ∈ l) :
    p x = true := by
  induction l with
  | nil => cases hx
  | cons a as ih =>
    simp only [allOk, Bool.and_eq_true] at h
    rcases List.mem_cons.mp hx with rfl | hx
    · exact h.1
    · exact ih h.2 hx

/-- C10 (error classes) for the shipped classes in the model of the tree as it is now -/
theorem shipped_errors_allowed (s : Schema) (hs : s ∈ Generated.allClasses)
    (hskip : (Env.current Generated.errorCodes).skipUnknownTags = true) (bs : Bytes) (e : Err)
    (h : dec (Env.current Generated.errorCodes) s bs = .error e) : e.allowed = true :=
  errors_allowed _ hskip s (allOk_mem shipped_coherent hs) bs e h

/-- the current tree skips unknown tags (so the hypothesis above is met) -/
theorem current_skips : (Env.current Generated.errorCodes).skipUnknownTags = true := rfl

end Kio.C10
