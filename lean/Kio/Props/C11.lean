import Kio.Model.Prim
namespace Kio.C11
end Kio.C11
