import Kio.Proofs.Prim
import Kio.Proofs.CodecBase
import Kio.Proofs.SpecEq
import Kio.Proofs.Float
/-!
# C11 — primitive readers and writers implement the Kafka primitive encodings

Per function family: reader ∘ writer = id with an arbitrary suffix, the bytes are the `Spec`
encoding, and out-of-domain values raise.  (The per-primitive lemmas live in `Kio/Proofs/Prim`;
`prim_roundtrip` covers every (Kafka type, flexible, optional) entry of the dispatch tables.)
-/
namespace Kio.C11
open Kio

/-! ## fixed-width integers (all eight `read_*int*` / `write_*int*`, lengths, error codes) -/

theorem natBE_length (w n : Nat) : (natBE w n).length = w := Kio.natBE_length w n
theorem beNat_natBE (w n : Nat) (h : n < 256 ^ w) : beNat (natBE w n) = n := Kio.beNat_natBE w n h
theorem natBE_beNat (bs : Bytes) : natBE bs.length (beNat bs) = bs := Kio.natBE_beNat bs

/-- `struct.unpack(struct.pack(v) ++ rest) = (v, rest)` for every width and signedness -/
theorem int_roundtrip (w : Nat) (hw : 0 < w) (signed : Bool) (v : Int) (bs rest : Bytes)
    (h : encIntN w signed v = .ok bs) : decIntN w signed (bs ++ rest) = .ok (v, rest) :=
  Kio.int_roundtrip w hw signed v bs rest h

/-- the bytes are two's-complement big-endian as the specification states them -/
theorem int_bytes_spec (w : Nat) (signed : Bool) (v : Int) :
    (encIntN w signed v).toOption = Spec.intBE w signed v := Kio.encIntN_eq_spec w signed v

/-- outside the type's range the writer raises `struct.error` (no wrapped bytes) -/
theorem int_out_of_domain (w : Nat) (signed : Bool) (v : Int)
    (h : ¬ (intLo w signed ≤ v ∧ v ≤ intHi w signed)) : encIntN w signed v = .error .structError :=
  Kio.int_out_of_domain w signed v h

/-! ## varints -/

theorem varint_roundtrip (k n : Nat) (h : n < 128 ^ (k+1)) (rest : Bytes) :
    decVarint (k+1) (encVarint n ++ rest) = .ok (n, rest) := Kio.varint_roundtrip k n h rest

/-- at most 5 bytes iff `n < 2^35`, at most 10 iff `n < 2^70` (`k = 4`, `k = 9`) -/
theorem varint_length_le (k n : Nat) : (encVarint n).length ≤ k + 1 ↔ n < 128 ^ (k+1) :=
  Kio.varint_length_le k n

/-- minimal length: no trailing zero group -/
theorem varint_minimal (n : Nat) : (encVarint n).getLast? ≠ some 0 ∨ encVarint n = [0] :=
  Kio.varint_minimal n

theorem varint_prefix_underflow (k n : Nat) (h : n < 128 ^ (k+1)) (j : Nat)
    (hj : j < (encVarint n).length) : decVarint (k+1) ((encVarint n).take j) = .error .underflow :=
  Kio.varint_prefix_underflow k n h j hj

/-- a `k`-th byte with the continuation bit set is rejected with `ValueError` -/
theorem varint_too_long (k : Nat) (bs : Bytes) (h : k ≤ bs.length)
    (hc : ∀ b ∈ bs.take k, 128 ≤ b.toNat) : decVarint k bs = .error .valueError :=
  Kio.varint_too_long k bs h hc

theorem encVarint_eq_spec (n : Nat) : encVarint n = Spec.uvarint n := Kio.encVarint_eq_spec n

/-! ## zig-zag -/

theorem zigzag_dec_enc (v : Int) : zigzagDec (zigzagEnc v) = v := Kio.zigzag_dec_enc v
theorem zigzag_enc_dec (n : Nat) : zigzagEnc (zigzagDec n) = n := Kio.zigzag_enc_dec n
/-- `i32` maps into `[0, 2^32)` and `i64` into `[0, 2^64)` -/
theorem zigzag_range32 (v : Int) (h : -(2 ^ 31 : Int) ≤ v ∧ v < 2 ^ 31) : zigzagEnc v < 2 ^ 32 :=
  Kio.zigzag_range 31 v h
theorem zigzag_range64 (v : Int) (h : -(2 ^ 63 : Int) ≤ v ∧ v < 2 ^ 63) : zigzagEnc v < 2 ^ 64 :=
  Kio.zigzag_range 63 v h

theorem signed_varint_roundtrip (v : Int) (h : -(2 ^ 31 : Int) ≤ v ∧ v < 2 ^ 31) (bs rest : Bytes)
    (he : writeSignedVarint (.int v) = .ok bs) : readSignedVarint (bs ++ rest) = .ok (.int v, rest) := by
  simp only [writeSignedVarint, writeSignedVar, Value.asInt?] at he
  split at he
  · injection he with he; subst he
    have hz := Kio.zigzag_range 31 v h
    unfold readSignedVarint
    rw [Kio.varint_roundtrip 4 _ (by rw [Kio.pow128_5]; omega)]
    simp [bind, Except.bind, pure, Except.pure, Kio.zigzag_dec_enc]
  · contradiction

theorem signed_varlong_roundtrip (v : Int) (h : -(2 ^ 63 : Int) ≤ v ∧ v < 2 ^ 63) (bs rest : Bytes)
    (he : writeSignedVarlong (.int v) = .ok bs) : readSignedVarlong (bs ++ rest) = .ok (.int v, rest) := by
  simp only [writeSignedVarlong, writeSignedVar, Value.asInt?] at he
  split at he
  · injection he with he; subst he
    have hz := Kio.zigzag_range 63 v h
    unfold readSignedVarlong
    have h70 : (128 : Nat) ^ (9 + 1) = 2 ^ 70 := by decide
    rw [Kio.varint_roundtrip 9 _ (by rw [h70]; omega)]
    simp [bind, Except.bind, pure, Except.pure, Kio.zigzag_dec_enc]
  · contradiction

/-! ## the remaining primitives -/

theorem boolean_roundtrip (b : Bool) (bs rest : Bytes) (h : writeBoolean (.bool b) = .ok bs) :
    readBoolean (bs ++ rest) = .ok (.bool b, rest) := Kio.boolean_roundtrip b bs rest h

theorem float64_roundtrip (b : Nat) (hb : b < 2 ^ 64) (bs rest : Bytes)
    (h : writeFloat64 (.float b) = .ok bs) : readFloat64 (bs ++ rest) = .ok (.float b, rest) :=
  Kio.float64_roundtrip b hb bs rest h

theorem uuid_roundtrip (v : Value) (hv : v = .none ∨ ∃ b, v = .uuid b ∧ b.length = 16 ∧ b ≠ uuidZero)
    (bs rest : Bytes) (h : writeUuid v = .ok bs) : readUuid (bs ++ rest) = .ok (v, rest) :=
  Kio.uuid_roundtrip v hv bs rest h

theorem error_code_roundtrip (codes : List Int) (i : Int) (hi : codes.contains i = true)
    (bs rest : Bytes) (h : writeErrorCode (.int i) = .ok bs) :
    readErrorCode codes (bs ++ rest) = .ok (.int i, rest) := Kio.errorCode_roundtrip codes i hi bs rest h

theorem compact_string_roundtrip (p : Bytes) (hp : validUtf8 p = true) (bs rest : Bytes)
    (h : writeCompactString (.str p) = .ok bs) :
    readCompactString (bs ++ rest) = .ok (.str p, rest)
      ∧ readCompactStringNullable (bs ++ rest) = .ok (.str p, rest) :=
  ⟨Kio.compactString_roundtrip false p hp bs rest h, Kio.compactString_roundtrip true p hp bs rest h⟩

theorem compact_bytes_roundtrip (p : Bytes) (bs rest : Bytes)
    (h : writeCompactString (.bytes p) = .ok bs) :
    readCompactStringAsBytes (bs ++ rest) = .ok (.bytes p, rest)
      ∧ readCompactStringAsBytesNullable (bs ++ rest) = .ok (.bytes p, rest) :=
  ⟨Kio.compactBytes_roundtrip false p bs rest h, Kio.compactBytes_roundtrip true p bs rest h⟩

theorem legacy_string_roundtrip (p : Bytes) (hp : validUtf8 p = true) (bs rest : Bytes)
    (h : writeLegacyString (.str p) = .ok bs) :
    readLegacyString (bs ++ rest) = .ok (.str p, rest)
      ∧ readNullableLegacyString (bs ++ rest) = .ok (.str p, rest) :=
  ⟨Kio.legacyString_roundtrip false p hp bs rest h, Kio.legacyString_roundtrip true p hp bs rest h⟩

theorem legacy_bytes_roundtrip (p : Bytes) (bs rest : Bytes)
    (h : writeLegacyBytes (.bytes p) = .ok bs) :
    readLegacyBytes (bs ++ rest) = .ok (.bytes p, rest)
      ∧ readNullableLegacyBytes (bs ++ rest) = .ok (.bytes p, rest) :=
  ⟨Kio.legacyBytes_roundtrip false p bs rest h, Kio.legacyBytes_roundtrip true p bs rest h⟩

/-- a string longer than 32767 bytes makes the legacy writer raise `OutOfBoundValue` -/
theorem legacy_string_out_of_domain (p : Bytes) (h : 32767 < p.length) :
    writeNullableLegacyString (.str p) = .error .outOfBound := by
  simp only [writeNullableLegacyString, intHi]
  rw [if_neg]; simp; omega

theorem legacy_bytes_out_of_domain (p : Bytes) (h : 2147483647 < p.length) :
    writeNullableLegacyBytes (.bytes p) = .error .outOfBound := by
  simp only [writeNullableLegacyBytes, intHi]
  rw [if_neg]; simp; omega

theorem timedelta_i32_roundtrip (cfg : TimeCfg) (hc : cfg.tdExact = true) (us : Int)
    (h1000 : us % 1000 = 0) (hr : -86399999913600000000 ≤ us ∧ us ≤ 86399999999999999999)
    (bs rest : Bytes) (h : writeTimedeltaI32 cfg (.timedelta us) = .ok bs) :
    readTimedeltaI32 (bs ++ rest) = .ok (.timedelta us, rest) :=
  Kio.timedelta_roundtrip cfg hc 4 (by omega) us h1000 hr bs rest h

theorem timedelta_i64_roundtrip (cfg : TimeCfg) (hc : cfg.tdExact = true) (us : Int)
    (h1000 : us % 1000 = 0) (hr : -86399999913600000000 ≤ us ∧ us ≤ 86399999999999999999)
    (bs rest : Bytes) (h : writeTimedeltaI64 cfg (.timedelta us) = .ok bs) :
    readTimedeltaI64 (bs ++ rest) = .ok (.timedelta us, rest) :=
  Kio.timedelta_roundtrip cfg hc 8 (by omega) us h1000 hr bs rest h

/-- timestamps: the writer's float arithmetic is exact on whole milliseconds (`ms_exact`) -/
theorem datetime_roundtrip (us : Int) (h1000 : us % 1000 = 0) (h0 : 0 ≤ us)
    (h1 : us ≤ 253402300799999000) (bs rest : Bytes) (h : writeDatetimeI64 (.datetime us) = .ok bs) :
    readDatetimeI64 TimeCfg.repaired (bs ++ rest) = .ok (.datetime us, rest)
    ∧ readNullableDatetimeI64 TimeCfg.repaired (bs ++ rest) = .ok (.datetime us, rest) :=
  Kio.datetime_roundtrip (fun k h0 h1 => ms_exact k (by rw [abs_lt]; constructor <;> omega))
    us h1000 h0 h1 bs rest h

theorem array_roundtrip (e : Value → Except Err Bytes) (d : Dec Value) (vs : List Value)
    (h : ∀ v ∈ vs, ∀ bs, e v = .ok bs → ∀ rest, d (bs ++ rest) = .ok (v, rest))
    (out : Bytes) (he : encMany e vs = .ok out) (rest : Bytes) :
    decMany d vs.length (out ++ rest) = .ok (vs, rest) := Kio.decMany_encMany' e d vs h out he rest

end Kio.C11
