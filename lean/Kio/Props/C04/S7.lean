import Kio.Gen.Match
import Kio.Pinned.Defs
import Kio.Generated.Info
import Kio.Generated.All
/-! C04 instance theorem, module shard 7 of 16 (kernel evaluation of the generator model). -/
namespace Kio.C04
open Kio Kio.Gen
set_option maxRecDepth 1000000 in
theorem shard7 : shardOk Generated.tables Pinned.defs Generated.allClasses 7 = true := by decide +kernel
end Kio.C04
