import Kio.Props.C01
/-!
# C07 — messages are self-delimiting on a sequential stream

In the model a sink is the list of bytes appended and a source the list of bytes remaining:
`enc` is a function of `(schema, value)` only and `dec` of `(schema, remaining bytes)` only, so
there is no sink/source state a result could depend on — that is the model-level content of
"does not depend on the kind of sink or source".  What remains is that back-to-back messages
decode one after another whatever follows them (and whatever was consumed before them).
-/
namespace Kio.C07
open Kio

/-- write a sequence of messages back to back -/
def encSeq (env : Env) : List (Schema × Value) → Except Err Bytes
  | [] => .ok []
  | (s, v) :: ms => do
    let a ← enc env s v
    let b ← encSeq env ms
    pure (a ++ b)

/-- read a sequence of messages one after another from the same source -/
def decSeq (env : Env) : List Schema → Dec (List Value)
  | [], bs => .ok ([], bs)
  | s :: ss, bs => do
    let (v, bs) ← dec env s bs
    let (vs, bs) ← decSeq env ss bs
    pure (v :: vs, bs)

/-- **C07**: any finite sequence of messages of arbitrary (coherent) classes written back to
    back decodes in sequence to the original values, leaving exactly the trailing bytes -/
theorem stream (env : Env) (ht : env.time = TimeCfg.repaired) (ms : List (Schema × Value))
    (hok : ∀ m ∈ ms, m.1.wf env = true ∧ m.1.valueOk env m.2 = true) (bs : Bytes)
    (he : encSeq env ms = .ok bs) (trailing : Bytes) :
    decSeq env (ms.map (·.1)) (bs ++ trailing) = .ok (ms.map (·.2), trailing) := by
  induction ms generalizing bs with
  | nil =>
    simp only [encSeq] at he
    injection he with he; subst he
    rfl
  | cons m ms ih =>
    obtain ⟨s, v⟩ := m
    simp only [encSeq] at he
    obtain ⟨a, ha, he⟩ := bind_ok he
    obtain ⟨b, hb, he⟩ := bind_ok he
    simp only [pure, Except.pure] at he
    have he' := Except.ok.inj he
    subst he'
    have h1 := hok (s, v) (List.mem_cons_self ..)
    have hrt := C01.roundtrip env ht s h1.1 v h1.2 a ha (b ++ trailing)
    have hrest := ih (fun m hm => hok m (List.mem_cons_of_mem _ hm)) b hb
    simp only [List.map_cons, decSeq, List.append_assoc, hrt, bind, Except.bind, hrest, pure, Except.pure]

/-- the two-message case: a header followed by its payload -/
theorem header_payload (env : Env) (ht : env.time = TimeCfg.repaired) (hs ps : Schema) (hv pv : Value)
    (hh : hs.wf env = true ∧ hs.valueOk env hv = true) (hp : ps.wf env = true ∧ ps.valueOk env pv = true)
    (hb pb : Bytes) (he1 : enc env hs hv = .ok hb) (he2 : enc env ps pv = .ok pb) (trailing : Bytes) :
    ∃ r, dec env hs (hb ++ pb ++ trailing) = .ok (hv, r) ∧ dec env ps r = .ok (pv, trailing) := by
  refine ⟨pb ++ trailing, ?_, ?_⟩
  · rw [List.append_assoc]; exact C01.roundtrip env ht hs hh.1 hv hh.2 hb he1 _
  · exact C01.roundtrip env ht ps hp.1 pv hp.2 pb he2 _

/-- decoding is a function of the schema and the remaining bytes only: bytes consumed earlier
    (any leading data) cannot influence it — stated as: the model has no other input -/
theorem leading_irrelevant (env : Env) (s : Schema) (pre₁ pre₂ bs : Bytes) :
    dec env s ((pre₁ ++ bs).drop pre₁.length) = dec env s ((pre₂ ++ bs).drop pre₂.length) := by
  simp

end Kio.C07
