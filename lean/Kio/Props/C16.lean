import Kio.Proofs.GenSpec
import Kio.Proofs.GenCoherent
import Kio.Proofs.GenSucceeds
import Kio.Props.C02
import Kio.Pinned.Defs
import Kio.Generated.Info
import Kio.Generated.GenObserved
/-!
# C16 — the generator translates any well-formed message definition faithfully (partial)

`Gen.module` (Kio/Gen/Module.lean) models the generator at descriptor level;
`DefSpec.classesAt` (Kio/Gen/DefSpec.lean) is an independent reading of a definition.  The
theorems hold for *every* definition on which generation succeeds, under explicit side
conditions (each shown necessary by a kernel-checked counterexample in `Kio.Gen.Counter`):
* `hnd`: no two nested structures of the module share a name;
* error-code names are not used for primitive-array fields;
* non-array fields of a common-struct type are not nullable (the generator never annotates
  them `| None`).
FULL STATEMENT not proved: nullability for primitive arrays (false: known finding C16/H, see
`primarr_nullable_witness`).

For the **supported subset** — the syntactic predicate `Gen.Supported d v` of Kio/Gen/Supported.lean,
which the definitions drawn by `harness/defgen.py` are checked against on every run — the theorems
`coherent`, `bytes_follow_spec`, `defaults`, `supported_names_distinct` below are unconditional:
every generated class is coherent (so C01–C10 apply to it), its instances encode to exactly the
bytes `Spec.enc` prescribes for the class whose fields are the definition's (`fields`), and every
field's default is the one the definition states.
-/
namespace Kio.C16
open Kio Kio.Gen

/-- version ranges: closed on both ends, `N+` unbounded, `none` empty -/
theorem version_range (r : VRange) (v : Nat) :
    r.matches v = true ↔
      match r with
      | .empty => False
      | .mk lo none => lo ≤ v
      | .mk lo (some hi) => lo ≤ v ∧ v ≤ hi := vrange_matches r v

/-- one class per structure visible in the version, in order, the message itself last -/
theorem classes (d : MsgDef) (b : List (List Nat)) (v : Nat) (gs : List GClass)
    (h : module d b v = .ok gs) (hnd : (gs.dropLast.map (·.name)).Nodup) :
    gs.map (·.name) = (DefSpec.classesAt d b v).map (·.name) := module_classes' d b v gs h hnd

/-- version, flexibility, API key and header version on every class; the last one top-level -/
theorem class_vars (d : MsgDef) (b : List (List Nat)) (v : Nat) (gs : List GClass)
    (h : module d b v = .ok gs) :
    (∀ g ∈ gs, g.version = v ∧ g.flexible = d.flexibleVersions.matches v ∧ g.apiKey = d.apiKey
        ∧ g.headerVersion = headerVersionOf d v ∧ g.schema.flexible = d.flexibleVersions.matches v) ∧
    (∃ pre top, gs = pre ++ [top] ∧ top.name = d.name ∧ top.etype = d.kind ∧ ∀ g ∈ pre, g.etype = .nested) :=
  module_class_vars d b v gs h

/-- **fields**: exactly the definition's fields valid for the version, in order, under the naming
    convention, with the stated Kafka / struct type and tag -/
theorem fields (d : MsgDef) (b : List (List Nat)) (v : Nat) (gs : List GClass)
    (h : module d b v = .ok gs) (hnd : (gs.dropLast.map (·.name)).Nodup)
    (hec : d.allFields noErrorCodeArray = true) :
    ∀ (i : Nat) (g : GClass) (e : DefSpec.ExpClass), gs[i]? = some g → (DefSpec.classesAt d b v)[i]? = some e →
      g.fieldNames = e.fields.map (·.name) ∧
      g.schema.fields.map fieldTagOf = e.fields.map (·.tag) ∧
      g.schema.fields.map (fieldKindOf (gs.map (·.name))) = e.fields.map (fun f => some f.kind) :=
  module_fields' d b v gs h hnd hec

/-- **nullability — partial** (everything except primitive arrays; see the witness below) -/
theorem nullability_partial (d : MsgDef) (b : List (List Nat)) (v : Nat) (gs : List GClass)
    (h : module d b v = .ok gs) (hnd : (gs.dropLast.map (·.name)).Nodup)
    (hcs : d.allFields (noNullableCommonStruct v) = true) :
    ∀ (i : Nat) (g : GClass) (e : DefSpec.ExpClass), gs[i]? = some g → (DefSpec.classesAt d b v)[i]? = some e →
      ∀ (j : Nat) (f : Field) (ef : DefSpec.ExpField), g.schema.fields[j]? = some f → e.fields[j]? = some ef →
        (∀ k, ef.kind ≠ .primArr k) → shapeNullable f.shape = ef.nullable :=
  module_nullability_partial' d b v gs h hnd hcs

/-- the header version is the one of the Kafka rule (shared with C08) -/
theorem header_rule (d : MsgDef) (v : Nat) (k : Int) (hk : d.apiKey = some k) :
    (d.kind = .request → headerVersionOf d v = some (Spec.requestHeaderVersion k v (d.flexibleVersions.matches v))) ∧
    (d.kind = .response → headerVersionOf d v = some (Spec.responseHeaderVersion k (d.flexibleVersions.matches v))) := by
  constructor <;> intro hkind <;> simp [headerVersionOf, hkind, hk]

/-- the nullable annotation the generator gives a primitive array ignores `nullableVersions`:
    a concrete definition where the definition says nullable and the generated field is not
    (the negation of the full-strength nullability statement; known finding C16/H) -/
theorem primarr_nullable_witness :
    let f : FieldDef := .mk (strOf "Ids") (.primArr .int32) (some (.mk 0 none)) (some (.mk 0 none)) none none none false none none
    let d : MsgDef := ⟨strOf "M", .data, none, .mk 0 (some 0), .empty, [f], []⟩
    (DefSpec.classesAt d [] 0).map (fun c => c.fields.map (·.nullable)) = [[true]] ∧
    (match module d [] 0 with
     | .ok gs => gs.map (fun g => g.schema.fields.map (fun f => shapeNullable f.shape))
     | .error _ => []) = [[false]] := by decide

/-- in the supported subset no two generated classes share a name (so `classes`, `fields`,
    `nullability_partial` need no `hnd` there) -/
theorem supported_names_distinct (d : MsgDef) (b : List (List Nat)) (v : Nat) (gs : List GClass)
    (hs : Supported d v = true) (h : module d b v = .ok gs) : (gs.map (·.name)).Nodup :=
  coh_module_nodup hs h

/-- **generation succeeds**: on a supported definition whose common structures do not refer to one
    another in a cycle (`acyclicCommon`: each may refer only to ones listed after it) and whose size is
    below the generator model's fuel, the generator produces a module — so the theorems below, which
    speak about the produced classes, are not conditional on anything but the definition itself.  A
    self-referential common structure makes the generator run out of fuel
    (`Kio.Gen.CounterSucc.module_succeeds_needs_acyclic`). -/
theorem generates (env : Env) (ht : env.time = TimeCfg.repaired)
    (d : MsgDef) (b : List (List Nat)) (v : Nat)
    (hs : Supported d v = true) (hflat : flatCommon d = true) (hsz : 2 * d.size + 2 ≤ maxDepth) :
    ∃ gs, module d b v = .ok gs ∧ (gs.map (·.name)).Nodup ∧
      ∀ g ∈ gs, g.schema.wf env = true ∧ g.schema.tagArrOk = true ∧ g.schema.fewFields = true :=
  supported_generates env ht d b v hs hflat hsz

/-- **coherence**: every class generated from a supported definition is coherent (`Schema.wf`, the
    hypothesis of C01–C10), has no tagged nullable entity array and fewer than 2^35 fields -/
theorem coherent (env : Env) (ht : env.time = TimeCfg.repaired)
    (d : MsgDef) (b : List (List Nat)) (v : Nat) (gs : List GClass)
    (hs : Supported d v = true) (h : module d b v = .ok gs) :
    ∀ g ∈ gs, g.schema.wf env = true ∧ g.schema.tagArrOk = true ∧ g.schema.fewFields = true :=
  module_coherent env ht d b v gs hs h

/-- **bytes**: instances of the generated classes encode to exactly the bytes the wire-format
    specification prescribes for the generated descriptor (whose fields, types, tags and
    nullability are the definition's by `fields` / `nullability_partial`), and the encoder raises
    exactly where there is no encoding -/
theorem bytes_follow_spec (env : Env) (ht : env.time = TimeCfg.repaired)
    (d : MsgDef) (b : List (List Nat)) (v : Nat) (gs : List GClass)
    (hs : Supported d v = true) (h : module d b v = .ok gs)
    (g : GClass) (hg : g ∈ gs) (val : Value) (hv : g.schema.valueOk env val = true) :
    (enc env g.schema val).toOption = Spec.enc g.schema val := by
  obtain ⟨hwf, hta, hfew⟩ := module_coherent env ht d b v gs hs h g hg
  exact C02.impl_eq_spec env ht g.schema hwf hta hfew val hv

/-- **defaults**: every field of every generated class has the default the definition states
    (explicit default in any accepted spelling; zero value of a tagged ignorable primitive; empty
    array; structure of defaults; none) -/
theorem defaults (d : MsgDef) (b : List (List Nat)) (v : Nat) (gs : List GClass)
    (hs : Supported d v = true) (h : module d b v = .ok gs) :
    ∀ (i : Nat) (g : GClass) (e : DefSpec.ExpClass), gs[i]? = some g → (DefSpec.classesAt d b v)[i]? = some e →
      ∀ (j : Nat) (f : Field) (ef : DefSpec.ExpField), g.schema.fields[j]? = some f → e.fields[j]? = some ef →
        dfltAgrees ef.dflt f = true :=
  module_defaults d b v gs hs h

set_option maxRecDepth 100000 in
/-- the model's name-based special cases (error-code names, the time-field tables, the `…Ms` rule)
    are the code's: `PrimitiveField.parse_obj` observed by the translator on every candidate name ×
    every primitive type agrees with `resolvePrim` row by row -/
theorem resolve_prim_observed :
    resolveOk Generated.resolveRows = true ∧ resolveCovers Generated.resolveRows = true := by
  decide +kernel

set_option maxRecDepth 100000 in
/-- non-vacuity: at least 600 of the 666 (pinned definition, version) pairs are in the supported
    subset (the others use a tagged structure without stated absence value, common structures
    without an anchor field, or the name `RequestHeader`) -/
theorem pinned_supported :
    600 ≤ ((Pinned.defs.map (fun d => ((versionsOf d).filter (fun v => Supported d v)).length)).sum) := by
  decide +kernel

set_option maxRecDepth 100000 in
/-- the side conditions and the agreement hold on all 666 (pinned definition, version) pairs:
    the statements are not vacuous on the real definitions -/
theorem pinned_agree :
    (Pinned.defs.all (fun d => (versionsOf d).all (fun v => specAgrees d Generated.tables.builtins v
        && (match module d Generated.tables.builtins v with
            | .ok gs => decide (gs.dropLast.map (·.name)).Nodup
            | .error _ => false)))) = true := by decide +kernel

end Kio.C16
