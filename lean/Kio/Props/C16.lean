import Kio.Gen.Module
namespace Kio.C16
end Kio.C16
